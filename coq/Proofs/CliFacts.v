(* Proofs/CliFacts.v — file-system safety of the command layer (Model/Cli.v):
   B. a command that fails before the library writes leaves the file system untouched; a library run
      without write/flush call too; otherwise the output path holds exactly the sink's bytes;
   C. `key generate -o F` only ever extends F (every earlier content is a prefix of the later one),
      the written file has the keyring_text shape of Proofs/KeyringRefine.v; the code before the repair
      loses keys;
   A. exit code 0 <-> success status; a successful decrypt delivers exactly the w_out of an Ok library run;
   D. the result does not depend on how input, output and keyring are wired;
   E. the sender line names the first (unique) keyring entry with the sender's public key. *)
From Kestrel Require Import Bytes BytesFacts Outcome IO IOFacts Prims.
From Kestrel.gen Require Import Extracted.
From Kestrel.Model Require Import AeadWrap Chunks Noise Files KeyringText KeyringSpec Cli CliStubs.
From Kestrel.Proofs Require Import MonadFacts ChunksDec ChunksAuth KeyringRefine CliFs CliEnds.
From Coq Require Import ZifyBool ZifyNat ZifyN.
Local Open Scope N_scope.

(* ====================================================================================== *)
(** * 0. The file-system map, exit codes, the sink                                         *)
(* ====================================================================================== *)

Lemma code_of_zero st : code_of st = 0 <-> is_success st = true.
Proof. unfold code_of. destruct st; cbn; split; intros H; try reflexivity; try discriminate. Qed.

Lemma code_of_values st : code_of st = 0 \/ code_of st = 1 \/
  (code_of st = 101 /\ exists t, st = SPanic t) \/ (code_of st = 102 /\ st = SOutOfFuel).
Proof. destruct st; cbn; eauto 6. Qed.

Lemma early_not_success st : early_failure st = true -> is_success st = false.
Proof. destruct st; cbn; congruence. Qed.

(* a result built by [mk_result] *)
Definition wf_result (r : cmd_result) : Prop := exit_code r = code_of (status r).

Lemma wf_exit_iff r : wf_result r -> (exit_code r = 0 <-> is_success (status r) = true).
Proof. unfold wf_result. intros ->. apply code_of_zero. Qed.

Lemma sink_touched_trace s : sink_touched s = existsb sink_ev (trace s).
Proof.
  unfold sink_touched, trace. generalize (log s) as l. induction l as [|e l IH]; [reflexivity|].
  cbn [rev existsb]. rewrite existsb_app. cbn [existsb]. rewrite IH. destruct (sink_ev e), (existsb sink_ev (rev l)); reflexivity.
Qed.

(* the hypothesis of the "nothing written" theorems, in the vocabulary of IOFacts/MonadFacts *)
Lemma sink_untouched_iff s :
  sink_touched s = false <-> Forall (fun e => ~ is_write_ev e /\ ~ is_flush_ev e) (trace s).
Proof.
  rewrite sink_touched_trace. generalize (trace s) as l. induction l as [|e l IH]; cbn [existsb].
  - split; [constructor | reflexivity].
  - rewrite orb_false_iff, IH. split.
    + intros [He Hl]. constructor; [|exact Hl]. destruct e; cbn in *; try discriminate; tauto.
    + intros H. inversion H as [|e' l' He Hl]; subst. split; [|exact Hl].
      destruct e; cbn in *; try reflexivity; tauto.
Qed.

Lemma io0_untouched input : sink_touched (io0 input) = false.
Proof. reflexivity. Qed.
Lemma job_io_untouched input dir bad : sink_touched (job_io input dir bad) = false.
Proof. reflexivity. Qed.
Lemma job_io_plain input : job_io input false false = io0 input.
Proof. reflexivity. Qed.
Lemma job_io_log input dir bad : log (job_io input dir bad) = [].
Proof. reflexivity. Qed.

(* what a run leaves in the file system, by the kind of sink *)
Lemma out_fs_stdout l s : out_fs l None s = l.
Proof. reflexivity. Qed.
Lemma out_fs_bad l F s : fs_create_target l F = None -> out_fs l (Some F) s = l.
Proof. intros H. unfold out_fs, open_sink. now rewrite H. Qed.
Lemma out_fs_untouched l o s : sink_touched s = false -> out_fs l o s = l.
Proof. intros H. unfold out_fs. rewrite H. now destruct (open_sink l o). Qed.
Lemma out_fs_touched l F cp s : fs_create_target l F = Some cp -> sink_touched s = true ->
  out_fs l (Some F) s = set_file l cp (w_out (wtr s)).
Proof. intros H Ht. unfold out_fs, open_sink. now rewrite H, Ht. Qed.

(* the file F (canonical path cp) received content c: what every path string and every node shows afterwards *)
Lemma set_file_view l F cp c : fs_create_target l F = Some cp ->
  fs_get (set_file l cp c) F = Some c /\
  (forall q, fs_target l q <> fs_target l F -> fs_get (set_file l cp c) q = fs_get l q) /\
  (forall cq, cq <> cp -> node_at (set_file l cp c) cq = node_at l cq).
Proof.
  intros H. destruct (fs_create_target_inv _ _ _ H) as (Ht & Hn & _).
  split; [now apply fs_get_set_same|]. split.
  - intros q Hq. apply fs_get_set_other; [assumption|]. now rewrite <- Ht.
  - intros cq Hq. now apply node_at_set_other.
Qed.

(* ====================================================================================== *)
(** * 1. The common shape of the streaming commands                                        *)
(* ====================================================================================== *)
Section Stream.
Context {J E A : Type}.
Variable w : world.
Variable outfile : option text.
Variable plan : pre J.
Variable run : J -> outcome E A * io.
Variable fin : J -> outcome E A -> cmd_status.
Notation r := (stream_cmd w outfile plan run fin).

Lemma stream_wf : wf_result r.
Proof. unfold stream_cmd. destruct plan; reflexivity. Qed.

Lemma stream_plan_fail st : plan = inl st ->
  r = fail_result w st.
Proof. unfold stream_cmd. now intros ->. Qed.

Lemma stream_plan_run j : plan = inr j ->
  status r = fin j (fst (run j)) /\
  new_fs r = out_fs (fs w) outfile (snd (run j)) /\
  stdout r = out_stdout outfile (snd (run j)).
Proof. unfold stream_cmd. intros ->. repeat split. Qed.

Lemma stream_early : (forall j o, early_failure (fin j o) = false) ->
  early_failure (status r) = true -> new_fs r = fs w /\ stdout r = [] /\ plan = inl (status r).
Proof.
  intros Hfin. unfold stream_cmd. destruct plan as [st|j]; cbn; [auto|].
  rewrite Hfin. discriminate.
Qed.

Lemma stream_untouched j : plan = inr j -> sink_touched (snd (run j)) = false -> new_fs r = fs w.
Proof.
  intros Hp Ht. destruct (stream_plan_run j Hp) as (_ & -> & _). now apply out_fs_untouched.
Qed.

(* the file named by -o cannot be created: nothing changes, whatever the run did *)
Lemma stream_bad_sink j F : plan = inr j -> outfile = Some F -> fs_create_target (fs w) F = None ->
  new_fs r = fs w /\ stdout r = [].
Proof.
  intros Hp Ho Hb. destruct (stream_plan_run j Hp) as (_ & -> & ->). rewrite Ho. split; [now apply out_fs_bad | reflexivity].
Qed.

Lemma stream_touched j F cp : plan = inr j -> outfile = Some F -> fs_create_target (fs w) F = Some cp ->
  sink_touched (snd (run j)) = true ->
  fs_get (new_fs r) F = Some (w_out (wtr (snd (run j)))) /\
  (forall q, fs_target (fs w) q <> fs_target (fs w) F -> fs_get (new_fs r) q = fs_get (fs w) q) /\
  (forall cq, cq <> cp -> node_at (new_fs r) cq = node_at (fs w) cq) /\
  stdout r = [].
Proof.
  intros Hp Ho Hc Ht. destruct (stream_plan_run j Hp) as (_ & -> & ->). rewrite Ho.
  rewrite (out_fs_touched _ _ _ _ Hc Ht). destruct (set_file_view _ _ _ (w_out (wtr (snd (run j)))) Hc) as (H1 & H2 & H3).
  repeat split; assumption.
Qed.

Lemma stream_stdout j : plan = inr j -> outfile = None ->
  new_fs r = fs w /\ stdout r = w_out (wtr (snd (run j))).
Proof. intros Hp Ho. destruct (stream_plan_run j Hp) as (_ & -> & ->). rewrite Ho. split; reflexivity. Qed.

Lemma stream_err j e : plan = inr j -> fst (run j) = Err e ->
  exit_code r = code_of (fin j (Err e)) /\ status r = fin j (Err e).
Proof. unfold stream_cmd. intros -> He. cbn. rewrite He. split; reflexivity. Qed.

Lemma stream_success : (forall st, plan = inl st -> is_success st = false) ->
  is_success (status r) = true ->
  exists j, plan = inr j /\ is_success (fin j (fst (run j))) = true.
Proof.
  intros Hns. unfold stream_cmd. destruct plan as [st|j]; cbn; intros H; [|eauto].
  rewrite (Hns st eq_refl) in H. discriminate.
Qed.

(* whatever happens, only the node the -o path denotes can change, and it can only become a regular file:
   no directory is created, nothing is removed, no other file is touched *)
Lemma stream_only_target : 
  new_fs r = fs w \/
  exists F cp c, outfile = Some F /\ fs_create_target (fs w) F = Some cp /\ new_fs r = set_file (fs w) cp c.
Proof.
  unfold stream_cmd. destruct plan as [st|j]; [now left|]. cbn [stream_result mk_result new_fs].
  unfold out_fs, open_sink. destruct outfile as [F|]; [|now left].
  destruct (fs_create_target (fs w) F) as [cp|] eqn:Ec; [|now left].
  destruct (sink_touched (snd (run j))); [|now left]. right. exists F, cp. eexists. repeat split. exact Ec.
Qed.
End Stream.

(* -o F against stdout: same plan, same run *)
Lemma stream_out_wiring {J E A} (w : world) (plan : pre J) (run : J -> outcome E A * io)
    (fin : J -> outcome E A -> cmd_status) (F : text) (cp : cpath) :
  fs_create_target (fs w) F = Some cp ->
  let rf := stream_cmd w (Some F) plan run fin in
  let rs := stream_cmd w None plan run fin in
  status rf = status rs /\ exit_code rf = exit_code rs /\ stdout rf = [] /\ new_fs rs = fs w /\
  (forall q, fs_target (fs w) q <> fs_target (fs w) F -> fs_get (new_fs rf) q = fs_get (fs w) q) /\
  (forall j, plan = inr j -> sink_touched (snd (run j)) = true -> fs_get (new_fs rf) F = Some (stdout rs)) /\
  (forall j, plan = inr j -> sink_touched (snd (run j)) = false -> new_fs rf = fs w).
Proof.
  intros Hc. unfold stream_cmd. destruct plan as [st|j]; cbn.
  - repeat split; try reflexivity; intros; discriminate.
  - repeat split; try reflexivity.
    + intros q Hq. destruct (sink_touched (snd (run j))) eqn:Ht.
      * rewrite (out_fs_touched _ _ _ _ Hc Ht). now apply (set_file_view _ _ _ _ Hc).
      * now rewrite out_fs_untouched.
    + intros j' [= <-] Ht. rewrite (out_fs_touched _ _ _ _ Hc Ht). now apply (set_file_view _ _ _ _ Hc).
    + intros j' [= <-] Ht. now rewrite out_fs_untouched.
Qed.

Lemma stream_success_touched {J E A} (w : world) (outfile : option text) (plan : pre J)
    (run : J -> outcome E A * io) (fin : J -> outcome E A -> cmd_status) :
  (forall st, plan = inl st -> is_success st = false) ->
  (forall j a s', run j = (Ok a, s') -> sink_touched s' = true) ->
  (forall j o, is_success (fin j o) = true -> exists a, o = Ok a) ->
  is_success (status (stream_cmd w outfile plan run fin)) = true ->
  exists j, plan = inr j /\ sink_touched (snd (run j)) = true.
Proof.
  intros Hns Hok Hfin Hs. apply stream_success in Hs; [|exact Hns]. destruct Hs as (j & Hp & Hs).
  exists j. split; [exact Hp|]. destruct (run j) as [res s'] eqn:Er. cbn [fst snd] in *.
  destruct (Hfin _ _ Hs) as [a ->]. exact (Hok _ _ _ Er).
Qed.

(* ====================================================================================== *)
(** * 2. The steps before the library call never yield a success status                    *)
(* ====================================================================================== *)
Definition nosucc {A} (m : pre A) : Prop := forall st, m = inl st -> is_success st = false.

Lemma nosucc_bind {A B} (m : pre A) (k : A -> pre B) :
  nosucc m -> (forall a, nosucc (k a)) -> nosucc (pbind m k).
Proof. intros Hm Hk st. destruct m as [st0|a]; cbn [pbind]; [intros [= <-]; now apply (Hm st0) | apply (Hk a)]. Qed.
Lemma nosucc_inr {A} (a : A) : nosucc (inr a : pre A).
Proof. intros st H. discriminate. Qed.
Lemma nosucc_inl {A} st : is_success st = false -> nosucc (inl st : pre A).
Proof. intros H st' [= <-]. exact H. Qed.
Lemma nosucc_opt_or {A} st (o : option A) : is_success st = false -> nosucc (opt_or st o).
Proof. intros H. destruct o; [apply nosucc_inr | now apply nosucc_inl]. Qed.
Lemma nosucc_of_outcome {E A} (f : E -> cmd_status) (o : outcome E A) :
  (forall e, is_success (f e) = false) -> nosucc (of_outcome f o).
Proof. intros H. destruct o; cbn [of_outcome]; [apply nosucc_inr | apply nosucc_inl, H | now apply nosucc_inl | now apply nosucc_inl]. Qed.
Lemma nosucc_check32 b : nosucc (check32 b).
Proof. unfold check32. destruct (Nat.eqb _ _); [apply nosucc_inr | now apply nosucc_inl]. Qed.
Lemma nosucc_open_input w i : nosucc (open_input w i).
Proof.
  unfold open_input. destruct i as [p|]; [|apply nosucc_inr].
  destruct (resolve (fs w) p) as [[cp [[c|]|]]|]; first [apply nosucc_inr | now apply nosucc_inl].
Qed.
Lemma nosucc_open_io w i o : nosucc (open_io w i o).
Proof.
  unfold open_io. destruct (same_path i o); [now apply nosucc_inl|].
  apply nosucc_bind; [apply nosucc_open_input | intros x; apply nosucc_inr].
Qed.
Lemma nosucc_ask_pass w e : nosucc (ask_pass w e).
Proof. unfold ask_pass, read_env_pass. destruct e; [now apply nosucc_opt_or | now apply nosucc_inl]. Qed.
Lemma nosucc_confirm_password w e : nosucc (confirm_password w e).
Proof. unfold confirm_password, read_env_pass. destruct e; [now apply nosucc_opt_or | now apply nosucc_inl]. Qed.
Lemma nosucc_confirm_new_pass w e : nosucc (confirm_new_pass w e).
Proof. unfold confirm_new_pass, read_env_new_pass. destruct e; [now apply nosucc_opt_or | now apply nosucc_inl]. Qed.

(* inversion of one step *)
Lemma pbind_inr {A B} (m : pre A) (k : A -> pre B) b :
  pbind m k = inr b -> exists a, m = inr a /\ k a = inr b.
Proof. destruct m as [st|a]; cbn [pbind]; [discriminate | eauto]. Qed.
Lemma opt_or_inr {A} st (o : option A) a : opt_or st o = inr a -> o = Some a.
Proof. destruct o; cbn; [now intros [= ->] | discriminate]. Qed.
Lemma of_outcome_inr {E A} (f : E -> cmd_status) (o : outcome E A) a : of_outcome f o = inr a -> o = Ok a.
Proof. destruct o; cbn; try discriminate. now intros [= ->]. Qed.
(* how the two ends of a streaming command's job come from the world and the two path arguments *)
Definition job_ends (w : world) (infile outfile : option text) (input : bytes) (dir bad alias : bool) : Prop :=
  exists cin, open_input w infile = inr (input, dir, cin) /\
    bad = sink_bad (open_sink (fs w) outfile) /\ alias = same_file cin (open_sink (fs w) outfile).

Lemma open_io_inr w i o b : open_io w i o = inr b ->
  same_path i o = false /\ resolve_input w i = inr (ij_input b) /\
  job_ends w i o (ij_input b) (ij_dir b) (ij_bad b) (ij_alias b).
Proof.
  unfold open_io, resolve_input. destruct (same_path i o); [discriminate|].
  destruct (open_input w i) as [st|[[c d] cin]] eqn:Eo; cbn [pbind fst snd]; [discriminate|].
  intros [= <-]. cbn [ij_input ij_dir ij_bad ij_alias]. split; [reflexivity|]. split; [reflexivity|]. exists cin.
  split; [exact Eo|]. split; reflexivity.
Qed.

(* a job whose ends are plain: a regular file (or stdin) as input, a sink that can be created, no aliasing *)
Lemma job_ends_bad_iff w i F input dir bad alias : job_ends w i (Some F) input dir bad alias ->
  (bad = false <-> exists cp, fs_create_target (fs w) F = Some cp).
Proof.
  intros (cin & _ & -> & _). unfold open_sink. destruct (fs_create_target (fs w) F) as [cp|]; cbn [sink_bad].
  - split; [eauto | reflexivity].
  - split; [discriminate | intros [cp H]; discriminate].
Qed.
Lemma job_ends_stdout w i input dir bad alias : job_ends w i None input dir bad alias -> bad = false /\ alias = false.
Proof. intros (cin & _ & -> & ->). split; [reflexivity | now destruct cin]. Qed.

(* the input seen through its path: a regular file gives its bytes, a directory gives a handle whose reads fail *)
Lemma open_input_file w p c : fs_get (fs w) p = Some c ->
  exists cp, open_input w (Some p) = inr (c, false, Some cp) /\ fs_target (fs w) p = Some cp.
Proof.
  unfold fs_get, open_input, fs_target. destruct (resolve (fs w) p) as [[cp [[c0|]|]]|]; try discriminate.
  intros [= ->]. exists cp. split; reflexivity.
Qed.
Lemma open_input_inv w i c d cin : open_input w i = inr (c, d, cin) ->
  match i with
  | None => c = stdin w /\ d = false /\ cin = None
  | Some p => exists cp, cin = Some cp /\ fs_target (fs w) p = Some cp /\
                (d = false /\ fs_get (fs w) p = Some c \/ d = true /\ c = [] /\ resolve (fs w) p = Some (cp, Some NDir))
  end.
Proof.
  unfold open_input, fs_get, fs_target. destruct i as [p|].
  - destruct (resolve (fs w) p) as [[cp [[c0|]|]]|]; try discriminate; intros [= <- <- <-]; exists cp; cbn; auto 6.
  - intros [= <- <- <-]. auto.
Qed.
Lemma same_path_false i F : i <> Some F -> same_path i (Some F) = false.
Proof. destruct i as [p|]; cbn; [|reflexivity]. intros H. apply text_eqb_neq. congruence. Qed.
Lemma same_path_none i : same_path i None = false.
Proof. now destruct i. Qed.
Lemma same_path_true i o : same_path i o = true <-> exists p, i = Some p /\ o = Some p.
Proof.
  destruct i as [p|], o as [q|]; cbn; try (split; [discriminate | intros (x & H1 & H2); discriminate]).
  rewrite text_eqb_eq. split; [intros ->; eauto | intros (x & [= ->] & [= ->]); reflexivity].
Qed.

Section Cmds.
Variable P : prims.
Variable pk_ok sk_ok : text -> bool.
Variable unlock : text -> bytes -> outcome kerr bytes.
Variable lock : bytes -> bytes -> bytes -> text.
Variable decode_pk : text -> outcome kerr bytes.
Variable encode_pk : bytes -> text.
Variable sk_string_ok : text -> bool.
Variable utf8_decode : bytes -> option text.
Variable utf8_encode : text -> bytes.

Notation resolve_keyring := (resolve_keyring pk_ok sk_ok utf8_decode).
Notation encrypt_plan := (encrypt_plan pk_ok sk_ok unlock decode_pk utf8_decode).
Notation decrypt_plan := (decrypt_plan pk_ok sk_ok unlock decode_pk utf8_decode).
Notation gen_plan := (gen_plan P lock encode_pk utf8_decode).
Notation run_enc := (run_enc P).
Notation run_dec := (run_dec P).
Notation run_penc := (run_penc P).
Notation run_pdec := (run_pdec P).
Notation dec_fed := (dec_fed P).
Notation pdec_fed := (pdec_fed P).
Notation enc_fed := (enc_fed P).
Notation penc_fed := (penc_fed P).
Notation fin_dec := (fin_dec encode_pk).
Notation sender_status := (sender_status encode_pk).
Notation cmd_encrypt := (cmd_encrypt P pk_ok sk_ok unlock decode_pk utf8_decode).
Notation cmd_decrypt := (cmd_decrypt P pk_ok sk_ok unlock decode_pk encode_pk utf8_decode).
Notation cmd_pass_encrypt := (cmd_pass_encrypt P).
Notation cmd_pass_decrypt := (cmd_pass_decrypt P).
Notation cmd_gen_key := (cmd_gen_key P lock encode_pk utf8_decode utf8_encode).
Notation gen_key_legacy := (gen_key_legacy P lock encode_pk utf8_decode utf8_encode).
Notation cmd_change_pass := (cmd_change_pass unlock lock sk_string_ok utf8_encode).
Notation cmd_extract_pub := (cmd_extract_pub P unlock encode_pk sk_string_ok utf8_encode).
Notation gen_write := (gen_write utf8_encode).
Notation gen_write_legacy := (gen_write_legacy utf8_encode).
Notation key_bytes := (key_bytes utf8_encode).
Notation key_bytes_nl := (key_bytes_nl utf8_encode).
Notation gen_run := (gen_run P lock encode_pk utf8_decode utf8_encode).
Notation gen_key_text := (gen_key_text P lock encode_pk utf8_decode).
Notation gen_history := (gen_history P lock encode_pk utf8_decode utf8_encode).
Notation history_content := (history_content utf8_encode).
Notation parse_keyring := (parse_keyring pk_ok sk_ok).

Lemma nosucc_resolve_keyring w k : nosucc (resolve_keyring w k).
Proof.
  unfold Cli.resolve_keyring, keyring_path.
  apply nosucc_bind; [destruct k; [apply nosucc_inr | now apply nosucc_opt_or]|intros path].
  apply nosucc_bind; [now apply nosucc_opt_or|intros data].
  apply nosucc_bind; [now apply nosucc_opt_or|intros txt].
  now apply nosucc_of_outcome.
Qed.
Lemma nosucc_unlock_key l p : nosucc (unlock_key unlock l p).
Proof. unfold unlock_key. now apply nosucc_of_outcome. Qed.
Lemma nosucc_to_public sk : nosucc (to_public P sk).
Proof. unfold to_public. now apply nosucc_of_outcome. Qed.

Lemma nosucc_encrypt_plan w o : nosucc (encrypt_plan w o).
Proof.
  unfold Cli.encrypt_plan.
  apply nosucc_bind; [apply nosucc_open_io|intros input].
  apply nosucc_bind; [apply nosucc_resolve_keyring|intros keys].
  apply nosucc_bind; [now apply nosucc_opt_or|intros rk].
  apply nosucc_bind; [now apply nosucc_of_outcome|intros rpub].
  apply nosucc_bind; [now apply nosucc_opt_or|intros sk].
  apply nosucc_bind; [now apply nosucc_of_outcome|intros spub].
  apply nosucc_bind; [now apply nosucc_opt_or|intros locked].
  apply nosucc_bind; [apply nosucc_ask_pass|intros pw].
  apply nosucc_bind; [apply nosucc_unlock_key|intros spriv]. apply nosucc_inr.
Qed.
Lemma nosucc_decrypt_plan w o : nosucc (decrypt_plan w o).
Proof.
  unfold Cli.decrypt_plan.
  apply nosucc_bind; [apply nosucc_open_io|intros input].
  apply nosucc_bind; [apply nosucc_resolve_keyring|intros keys].
  apply nosucc_bind; [now apply nosucc_opt_or|intros rk].
  apply nosucc_bind; [now apply nosucc_of_outcome|intros rpub].
  apply nosucc_bind; [now apply nosucc_opt_or|intros locked].
  apply nosucc_bind; [apply nosucc_ask_pass|intros pw].
  apply nosucc_bind; [apply nosucc_unlock_key|intros rpriv]. apply nosucc_inr.
Qed.
Lemma nosucc_pass_encrypt_plan w o salt : nosucc (pass_encrypt_plan w o salt).
Proof.
  unfold pass_encrypt_plan.
  apply nosucc_bind; [apply nosucc_open_io|intros input].
  apply nosucc_bind; [apply nosucc_confirm_password|intros pw].
  apply nosucc_bind; [apply nosucc_check32|intros u]. apply nosucc_inr.
Qed.
Lemma nosucc_pass_decrypt_plan w o : nosucc (pass_decrypt_plan w o).
Proof.
  unfold pass_decrypt_plan.
  apply nosucc_bind; [apply nosucc_open_io|intros input].
  apply nosucc_bind; [apply nosucc_ask_pass|intros pw]. apply nosucc_inr.
Qed.
Lemma nosucc_gen_plan w o sk salt : nosucc (gen_plan w o sk salt).
Proof.
  unfold Cli.gen_plan, ask_user_stdin.
  apply nosucc_bind; [apply nosucc_bind; [now apply nosucc_opt_or | intros l; apply nosucc_inr]|intros name].
  destruct (negb (valid_key_name name)); [now apply nosucc_inl|].
  apply nosucc_bind; [apply nosucc_confirm_password|intros pw].
  apply nosucc_bind; [apply nosucc_to_public|intros pk].
  apply nosucc_bind; [apply nosucc_check32|intros u]. apply nosucc_inr.
Qed.

(* the library finishers never yield an early-failure status *)
Lemma fin_enc_not_early o : early_failure (fin_enc o) = false.
Proof. now destruct o. Qed.
Lemma fin_dec_not_early ks o : early_failure (fin_dec ks o) = false.
Proof.
  destruct o as [s|e|t|]; cbn; try reflexivity.
  - unfold Cli.sender_status. now destruct (get_name_from_key _ _).
  - now destruct e.
Qed.
Lemma fin_pdec_not_early o : early_failure (fin_pdec o) = false.
Proof. destruct o as [s|e|t|]; cbn; try reflexivity. now destruct e. Qed.

(* ====================================================================================== *)
(** * B. Failed commands and the file system                                               *)
(* ====================================================================================== *)

(** ** B.1 every failure before the library call: nothing created, nothing changed.
    [early_failure] lists: same in/out path, missing input, keyring unspecified / unreadable /
    not UTF-8 / parse error, key not found, no private key, bad public key, password variable unset,
    no terminal, unlock failed, invalid name, malformed private-key string (and the to_public
    error, the non-UTF-8 key name, the unlock error of change-pass/extract-pub). *)
Theorem encrypt_failed_leaves_fs w o fpk fe :
  early_failure (status (cmd_encrypt w o fpk fe)) = true ->
  new_fs (cmd_encrypt w o fpk fe) = fs w /\ stdout (cmd_encrypt w o fpk fe) = [].
Proof. intros H. apply stream_early in H; [tauto|]. intros j r. apply fin_enc_not_early. Qed.

Theorem decrypt_failed_leaves_fs w o :
  early_failure (status (cmd_decrypt w o)) = true ->
  new_fs (cmd_decrypt w o) = fs w /\ stdout (cmd_decrypt w o) = [].
Proof. intros H. apply stream_early in H; [tauto|]. intros j r. apply fin_dec_not_early. Qed.

Theorem pass_encrypt_failed_leaves_fs w o salt :
  early_failure (status (cmd_pass_encrypt w o salt)) = true ->
  new_fs (cmd_pass_encrypt w o salt) = fs w /\ stdout (cmd_pass_encrypt w o salt) = [].
Proof. intros H. apply stream_early in H; [tauto|]. intros j r. apply fin_enc_not_early. Qed.

Theorem pass_decrypt_failed_leaves_fs w o :
  early_failure (status (cmd_pass_decrypt w o)) = true ->
  new_fs (cmd_pass_decrypt w o) = fs w /\ stdout (cmd_pass_decrypt w o) = [].
Proof. intros H. apply stream_early in H; [tauto|]. intros j r. apply fin_pdec_not_early. Qed.

(* writing the key either succeeds, or fails while opening / creating the file and leaves everything as it was *)
Lemma gen_write_cases w out k :
  status (gen_write w out k) = SOk \/
  (is_success (status (gen_write w out k)) = false /\ new_fs (gen_write w out k) = fs w /\ stdout (gen_write w out k) = []).
Proof.
  unfold Cli.gen_write. destruct out as [f|]; [|now left].
  destruct (resolve (fs w) f) as [[cp [[c0|]|]]|]; first [now left | right; repeat split].
Qed.

(* key generate: ANY failure leaves the file system alone (there is no late failure) *)
Theorem gen_key_failed_leaves_fs w o sk salt :
  is_success (status (cmd_gen_key w o sk salt)) = false ->
  new_fs (cmd_gen_key w o sk salt) = fs w /\ stdout (cmd_gen_key w o sk salt) = [].
Proof.
  unfold Cli.cmd_gen_key. destruct (gen_plan w o sk salt) as [st|k]; [split; reflexivity|].
  destruct (gen_write_cases w (go_outfile o) k) as [->|(_ & H1 & H2)]; [discriminate | auto].
Qed.

(* the two commands that write nothing but stdout never change the file system *)
Theorem change_pass_leaves_fs w sk e salt : new_fs (cmd_change_pass w sk e salt) = fs w.
Proof. unfold Cli.cmd_change_pass. now destruct (pbind _ _). Qed.
Theorem extract_pub_leaves_fs w sk e : new_fs (cmd_extract_pub w sk e) = fs w.
Proof. unfold Cli.cmd_extract_pub. now destruct (pbind _ _). Qed.

(* all five writing commands at once; "for every prior content of every path" is the
   quantification over [w] *)
Theorem failed_command_leaves_fs :
  (forall w o fpk fe, early_failure (status (cmd_encrypt w o fpk fe)) = true -> new_fs (cmd_encrypt w o fpk fe) = fs w) /\
  (forall w o, early_failure (status (cmd_decrypt w o)) = true -> new_fs (cmd_decrypt w o) = fs w) /\
  (forall w o salt, early_failure (status (cmd_pass_encrypt w o salt)) = true -> new_fs (cmd_pass_encrypt w o salt) = fs w) /\
  (forall w o, early_failure (status (cmd_pass_decrypt w o)) = true -> new_fs (cmd_pass_decrypt w o) = fs w) /\
  (forall w o sk salt, early_failure (status (cmd_gen_key w o sk salt)) = true -> new_fs (cmd_gen_key w o sk salt) = fs w).
Proof.
  split; [|split; [|split; [|split]]].
  - intros w o fpk fe He. now apply encrypt_failed_leaves_fs.
  - intros w o He. now apply decrypt_failed_leaves_fs.
  - intros w o salt He. now apply pass_encrypt_failed_leaves_fs.
  - intros w o He. now apply pass_decrypt_failed_leaves_fs.
  - intros w o sk salt He. apply gen_key_failed_leaves_fs. now apply early_not_success.
Qed.

(* the same, for ANY status produced before the library call (this includes a panic of
   unlock_private_key / decode_public_key) *)
Theorem plan_failure_leaves_fs :
  (forall w o fpk fe st, encrypt_plan w o = inl st -> cmd_encrypt w o fpk fe = fail_result w st) /\
  (forall w o st, decrypt_plan w o = inl st -> cmd_decrypt w o = fail_result w st) /\
  (forall w o salt st, pass_encrypt_plan w o salt = inl st -> cmd_pass_encrypt w o salt = fail_result w st) /\
  (forall w o st, pass_decrypt_plan w o = inl st -> cmd_pass_decrypt w o = fail_result w st) /\
  (forall w o sk salt st, gen_plan w o sk salt = inl st -> cmd_gen_key w o sk salt = fail_result w st).
Proof.
  split; [|split; [|split; [|split]]].
  - intros w o fpk fe st Hp. now apply stream_plan_fail.
  - intros w o st Hp. now apply stream_plan_fail.
  - intros w o salt st Hp. now apply stream_plan_fail.
  - intros w o st Hp. now apply stream_plan_fail.
  - intros w o sk salt st Hp. unfold Cli.cmd_gen_key. now rewrite Hp.
Qed.

(** ** B.2 the library ran but made no write / flush call on the sink: nothing created, nothing
    changed.  (Other theorems establish the premise for a wrong password, a corrupted header, a
    corrupted or truncated first chunk, a refused key exchange.) *)
Theorem encrypt_no_write_leaves_fs w o fpk fe j : encrypt_plan w o = inr j ->
  sink_touched (snd (run_enc fpk fe j)) = false -> new_fs (cmd_encrypt w o fpk fe) = fs w.
Proof. intros Hp Ht. now apply (stream_untouched _ _ _ _ _ j). Qed.
Theorem decrypt_no_write_leaves_fs w o j : decrypt_plan w o = inr j ->
  sink_touched (snd (run_dec j)) = false -> new_fs (cmd_decrypt w o) = fs w.
Proof. intros Hp Ht. now apply (stream_untouched _ _ _ _ _ j). Qed.
Theorem pass_encrypt_no_write_leaves_fs w o salt j : pass_encrypt_plan w o salt = inr j ->
  sink_touched (snd (run_penc salt j)) = false -> new_fs (cmd_pass_encrypt w o salt) = fs w.
Proof. intros Hp Ht. now apply (stream_untouched _ _ _ _ _ j). Qed.
Theorem pass_decrypt_no_write_leaves_fs w o j : pass_decrypt_plan w o = inr j ->
  sink_touched (snd (run_pdec j)) = false -> new_fs (cmd_pass_decrypt w o) = fs w.
Proof. intros Hp Ht. now apply (stream_untouched _ _ _ _ _ j). Qed.

(** ** B.3 otherwise the path holds exactly [w_out] — what the sink accepted, a prefix of the
    complete output when the library stopped with an error — every other path is unchanged, and
    the exit code is 1 when the library returned an error. *)
Lemma fin_enc_err e : code_of (fin_enc (Err e)) = 1.
Proof. reflexivity. Qed.
Lemma fin_dec_err ks e : code_of (fin_dec ks (Err e)) = 1.
Proof. now destruct e. Qed.
Lemma fin_pdec_err e : code_of (fin_pdec (Err e)) = 1.
Proof. now destruct e. Qed.

Theorem encrypt_late_failure_keeps_prefix w o fpk fe j F cp :
  encrypt_plan w o = inr j -> eo_outfile o = Some F -> fs_create_target (fs w) F = Some cp ->
  sink_touched (snd (run_enc fpk fe j)) = true ->
  let r := cmd_encrypt w o fpk fe in
  fs_get (new_fs r) F = Some (w_out (wtr (snd (run_enc fpk fe j)))) /\
  (forall q, fs_target (fs w) q <> fs_target (fs w) F -> fs_get (new_fs r) q = fs_get (fs w) q) /\
  (forall cq, cq <> cp -> node_at (new_fs r) cq = node_at (fs w) cq) /\
  (forall e, fst (run_enc fpk fe j) = Err e -> exit_code r = 1 /\ status r = SEncryptFailed e).
Proof.
  intros Hp Ho Hc Ht r. destruct (stream_touched w _ _ (run_enc fpk fe) (fun _ => fin_enc) j F cp Hp Ho Hc Ht) as (H1 & H2 & H3 & _).
  split; [exact H1|]. split; [exact H2|]. split; [exact H3|]. intros e He.
  destruct (stream_err w (eo_outfile o) _ (run_enc fpk fe) (fun _ => fin_enc) j e Hp He) as [H4 H5].
  split; [exact H4 | exact H5].
Qed.

Theorem decrypt_late_failure_keeps_prefix w o j F cp :
  decrypt_plan w o = inr j -> do_outfile o = Some F -> fs_create_target (fs w) F = Some cp ->
  sink_touched (snd (run_dec j)) = true ->
  let r := cmd_decrypt w o in
  fs_get (new_fs r) F = Some (w_out (wtr (snd (run_dec j)))) /\
  (forall q, fs_target (fs w) q <> fs_target (fs w) F -> fs_get (new_fs r) q = fs_get (fs w) q) /\
  (forall cq, cq <> cp -> node_at (new_fs r) cq = node_at (fs w) cq) /\
  (forall e, fst (run_dec j) = Err e -> exit_code r = 1 /\ status r = fin_dec (dj_keys j) (Err e)).
Proof.
  intros Hp Ho Hc Ht r.
  destruct (stream_touched w _ _ run_dec (fun j => fin_dec (dj_keys j)) j F cp Hp Ho Hc Ht) as (H1 & H2 & H3 & _).
  split; [exact H1|]. split; [exact H2|]. split; [exact H3|]. intros e He.
  destruct (stream_err w (do_outfile o) _ run_dec (fun j => fin_dec (dj_keys j)) j e Hp He) as [H4 H5].
  rewrite fin_dec_err in H4. split; [exact H4 | exact H5].
Qed.

Theorem pass_encrypt_late_failure_keeps_prefix w o salt j F cp :
  pass_encrypt_plan w o salt = inr j -> po_outfile o = Some F -> fs_create_target (fs w) F = Some cp ->
  sink_touched (snd (run_penc salt j)) = true ->
  let r := cmd_pass_encrypt w o salt in
  fs_get (new_fs r) F = Some (w_out (wtr (snd (run_penc salt j)))) /\
  (forall q, fs_target (fs w) q <> fs_target (fs w) F -> fs_get (new_fs r) q = fs_get (fs w) q) /\
  (forall cq, cq <> cp -> node_at (new_fs r) cq = node_at (fs w) cq) /\
  (forall e, fst (run_penc salt j) = Err e -> exit_code r = 1 /\ status r = SEncryptFailed e).
Proof.
  intros Hp Ho Hc Ht r. destruct (stream_touched w _ _ (run_penc salt) (fun _ => fin_enc) j F cp Hp Ho Hc Ht) as (H1 & H2 & H3 & _).
  split; [exact H1|]. split; [exact H2|]. split; [exact H3|]. intros e He.
  destruct (stream_err w (po_outfile o) _ (run_penc salt) (fun _ => fin_enc) j e Hp He) as [H4 H5].
  split; [exact H4 | exact H5].
Qed.

Theorem pass_decrypt_late_failure_keeps_prefix w o j F cp :
  pass_decrypt_plan w o = inr j -> po_outfile o = Some F -> fs_create_target (fs w) F = Some cp ->
  sink_touched (snd (run_pdec j)) = true ->
  let r := cmd_pass_decrypt w o in
  fs_get (new_fs r) F = Some (w_out (wtr (snd (run_pdec j)))) /\
  (forall q, fs_target (fs w) q <> fs_target (fs w) F -> fs_get (new_fs r) q = fs_get (fs w) q) /\
  (forall cq, cq <> cp -> node_at (new_fs r) cq = node_at (fs w) cq) /\
  (forall e, fst (run_pdec j) = Err e -> exit_code r = 1 /\ status r = fin_pdec (Err e)).
Proof.
  intros Hp Ho Hc Ht r. destruct (stream_touched w _ _ run_pdec (fun _ => fin_pdec) j F cp Hp Ho Hc Ht) as (H1 & H2 & H3 & _).
  split; [exact H1|]. split; [exact H2|]. split; [exact H3|]. intros e He.
  destruct (stream_err w (po_outfile o) _ run_pdec (fun _ => fin_pdec) j e Hp He) as [H4 H5].
  rewrite fin_pdec_err in H4. split; [exact H4 | exact H5].
Qed.

(* ====================================================================================== *)
(** * C. key generate only ever extends the keyring file                                   *)
(* ====================================================================================== *)

(** One successful `key generate -o F`: an existing F keeps its content and gets
    "\n" ++ key text at the end; a missing F is created with the key text; no other file changes, whatever
    string names it; no node other than F's changes; no path string changes its meaning. *)
Theorem gen_preserves_prefix w o sk salt F :
  go_outfile o = Some F -> is_success (status (cmd_gen_key w o sk salt)) = true ->
  exists key_text, gen_plan w o sk salt = inr key_text /\
    fs_get (new_fs (cmd_gen_key w o sk salt)) F =
      Some (match fs_get (fs w) F with
            | Some c0 => c0 ++ key_bytes_nl key_text
            | None => key_bytes key_text
            end) /\
    (forall q, fs_target (fs w) q <> fs_target (fs w) F ->
               fs_get (new_fs (cmd_gen_key w o sk salt)) q = fs_get (fs w) q) /\
    stdout (cmd_gen_key w o sk salt) = [] /\ status (cmd_gen_key w o sk salt) = SOk /\
    (forall q, fs_target (new_fs (cmd_gen_key w o sk salt)) q = fs_target (fs w) q) /\
    exists cp, fs_create_target (fs w) F = Some cp /\
      forall cq, cq <> cp -> node_at (new_fs (cmd_gen_key w o sk salt)) cq = node_at (fs w) cq.
Proof.
  intros Ho Hs. unfold Cli.cmd_gen_key in *. destruct (gen_plan w o sk salt) as [st|k] eqn:Ep.
  - cbn in Hs. rewrite (nosucc_gen_plan _ _ _ _ _ Ep) in Hs. discriminate.
  - exists k. split; [reflexivity|]. rewrite Ho in *. unfold Cli.gen_write in *.
    assert (Hv : forall cp c, fs_create_target (fs w) F = Some cp ->
      fs_get (set_file (fs w) cp c) F = Some c /\
      (forall q, fs_target (fs w) q <> fs_target (fs w) F -> fs_get (set_file (fs w) cp c) q = fs_get (fs w) q) /\
      (forall q, fs_target (set_file (fs w) cp c) q = fs_target (fs w) q) /\
      forall cq, cq <> cp -> node_at (set_file (fs w) cp c) cq = node_at (fs w) cq).
    { intros cp c Hc. destruct (set_file_view _ _ _ c Hc) as (V1 & V2 & V3).
      destruct (fs_create_target_inv _ _ _ Hc) as (_ & Hn & _).
      repeat split; try assumption. intros q. now apply fs_target_set_file. }
    destruct (resolve (fs w) F) as [[cp [[c0|]|]]|] eqn:Er; cbn [new_fs stdout status mk_result fail_result] in *;
      try discriminate.
    + assert (Hc : fs_create_target (fs w) F = Some cp) by (unfold fs_create_target; now rewrite Er).
      assert (Hg : fs_get (fs w) F = Some c0) by (unfold fs_get; now rewrite Er). rewrite Hg.
      destruct (Hv cp (c0 ++ key_bytes_nl k) Hc) as (V1 & V2 & V3 & V4).
      repeat split; try assumption. exists cp. split; assumption.
    + assert (Hc : fs_create_target (fs w) F = Some cp) by (unfold fs_create_target; now rewrite Er).
      assert (Hg : fs_get (fs w) F = None) by (unfold fs_get; now rewrite Er). rewrite Hg.
      destruct (Hv cp (key_bytes k) Hc) as (V1 & V2 & V3 & V4).
      repeat split; try assumption. exists cp. split; assumption.
Qed.

(* without -o: the key text on stdout, the file system untouched *)
Theorem gen_stdout w o sk salt :
  go_outfile o = None -> is_success (status (cmd_gen_key w o sk salt)) = true ->
  exists key_text, gen_plan w o sk salt = inr key_text /\
    new_fs (cmd_gen_key w o sk salt) = fs w /\ stdout (cmd_gen_key w o sk salt) = key_bytes key_text.
Proof.
  intros Ho Hs. unfold Cli.cmd_gen_key in *. destruct (gen_plan w o sk salt) as [st|k] eqn:Ep.
  - cbn in Hs. rewrite (nosucc_gen_plan _ _ _ _ _ Ep) in Hs. discriminate.
  - exists k. rewrite Ho. repeat split.
Qed.

(* in particular the old content is a prefix of the new one *)
Corollary gen_extends w o sk salt F c0 :
  go_outfile o = Some F -> is_success (status (cmd_gen_key w o sk salt)) = true ->
  fs_get (fs w) F = Some c0 ->
  exists c1, fs_get (new_fs (cmd_gen_key w o sk salt)) F = Some c1 /\ bprefix c0 c1.
Proof.
  intros Ho Hs Hg. destruct (gen_preserves_prefix w o sk salt F Ho Hs) as (k & _ & H & _).
  rewrite Hg in H. eexists. split; [exact H|]. eexists. reflexivity.
Qed.

(** ** histories *)
Lemma history_content_nil c0 : history_content c0 [] = c0.
Proof. destruct c0 as [c|]; cbn; [now rewrite app_nil_r | reflexivity]. Qed.

Lemma history_content_app c0 ks1 ks2 :
  history_content (history_content c0 ks1) ks2 = history_content c0 (ks1 ++ ks2).
Proof.
  destruct c0 as [c|]; cbn [Cli.history_content].
  - now rewrite flat_map_app, app_assoc.
  - destruct ks1 as [|k r]; cbn [Cli.history_content app]; [reflexivity|].
    now rewrite flat_map_app, app_assoc.
Qed.

Lemma gen_history_cons F l i rest l' ks : gen_history F l (i :: rest) = Some (l', ks) ->
  exists k ks', gen_key_text l i = inr k /\ ks = k :: ks' /\
    is_success (status (gen_run F l i)) = true /\
    gen_history F (new_fs (gen_run F l i)) rest = Some (l', ks') /\
    fs_get (new_fs (gen_run F l i)) F = history_content (fs_get l F) [k] /\
    (forall q, fs_target l q <> fs_target l F -> fs_get (new_fs (gen_run F l i)) q = fs_get l q) /\
    (forall q, fs_target (new_fs (gen_run F l i)) q = fs_target l q).
Proof.
  cbn [Cli.gen_history]. destruct (is_success (status (gen_run F l i))) eqn:Es; [|discriminate].
  destruct (gen_key_text l i) as [st|k] eqn:Ek; [discriminate|].
  destruct (gen_history F (new_fs (gen_run F l i)) rest) as [[l1 ks1]|] eqn:Eh; [|discriminate].
  intros [= <- <-]. exists k, ks1. repeat split; try assumption.
  - unfold Cli.gen_run in *.
    destruct (gen_preserves_prefix (gen_world l i) {| go_outfile := Some F; go_env_pass := gi_env_pass i |} (gi_sk i) (gi_salt i) F eq_refl Es) as (k' & Ek' & H & _).
    change (gen_key_text l i = inr k') in Ek'. rewrite Ek in Ek'. injection Ek' as <-.
    rewrite H. cbn [gen_world fs]. destruct (fs_get l F); cbn; now rewrite app_nil_r.
  - unfold Cli.gen_run in *. destruct (gen_preserves_prefix (gen_world l i) {| go_outfile := Some F; go_env_pass := gi_env_pass i |} (gi_sk i) (gi_salt i) F eq_refl Es) as (_ & _ & _ & H & _). exact H.
  - unfold Cli.gen_run in *. destruct (gen_preserves_prefix (gen_world l i) {| go_outfile := Some F; go_env_pass := gi_env_pass i |} (gi_sk i) (gi_salt i) F eq_refl Es) as (_ & _ & _ & _ & _ & _ & H & _). exact H.
Qed.

(** The content of F after a successful history: the prior content (if any) followed by the key
    texts, each preceded by "\n" — except that a file created by the history starts with the first
    key text itself.  No other path changes. *)
Theorem gen_history_content F : forall ins l l' ks, gen_history F l ins = Some (l', ks) ->
  fs_get l' F = history_content (fs_get l F) ks /\
  (forall q, fs_target l q <> fs_target l F -> fs_get l' q = fs_get l q) /\
  (forall q, fs_target l' q = fs_target l q).
Proof.
  induction ins as [|i rest IH]; intros l l' ks H.
  - injection H as <- <-. now rewrite history_content_nil.
  - apply gen_history_cons in H. destruct H as (k & ks' & _ & -> & _ & Hr & Hc & Ho & Ht).
    destruct (IH _ _ _ Hr) as (H1 & H2 & H3). split; [|split].
    + rewrite H1, Hc. apply (history_content_app (fs_get l F) [k] ks').
    + intros q Hq. rewrite H2 by (now rewrite !Ht). now apply Ho.
    + intros q. now rewrite H3, Ht.
Qed.

Lemma gen_history_app F : forall a b l l' ks, gen_history F l (a ++ b) = Some (l', ks) ->
  exists l1 ks1 ks2, gen_history F l a = Some (l1, ks1) /\ gen_history F l1 b = Some (l', ks2) /\ ks = ks1 ++ ks2.
Proof.
  induction a as [|i a IH]; intros b l l' ks H.
  - exists l, [], ks. auto.
  - cbn [app] in H. pose proof H as H0. apply gen_history_cons in H.
    destruct H as (k & ks' & Ek & -> & Es & Hr & _). destruct (IH _ _ _ _ Hr) as (l1 & ks1 & ks2 & Ha & Hb & ->).
    exists l1, (k :: ks1), ks2. repeat split; [|assumption]. cbn [Cli.gen_history]. now rewrite Es, Ek, Ha.
Qed.

(** Over any history of successful key generations into F, each earlier content of F is a byte
    prefix of every later one (nothing once written is ever lost or altered). *)
Theorem gen_history_prefix F ins1 ins2 l l' ks : gen_history F l (ins1 ++ ins2) = Some (l', ks) ->
  exists l1 ks1 ks2, gen_history F l ins1 = Some (l1, ks1) /\ gen_history F l1 ins2 = Some (l', ks2) /\
    ks = ks1 ++ ks2 /\
    forall c1, fs_get l1 F = Some c1 -> exists c2, fs_get l' F = Some c2 /\ bprefix c1 c2.
Proof.
  intros H. destruct (gen_history_app F _ _ _ _ _ H) as (l1 & ks1 & ks2 & Ha & Hb & ->).
  exists l1, ks1, ks2. repeat split; try assumption. intros c1 Hc.
  destruct (gen_history_content F _ _ _ _ Hb) as [H1 _]. rewrite Hc in H1. cbn in H1.
  eexists. split; [exact H1|]. eexists. reflexivity.
Qed.

(** ** every key text is an [entry_text] (the serialize_key shape of KeyringRefine) *)
Lemma trim_idem l : trim (trim l) = trim l.
Proof.
  apply trim_iff. destruct (proj1 (trim_iff l (trim l)) eq_refl) as (a & b & _ & _ & _ & H).
  exists [], []. rewrite app_nil_r. split; [reflexivity|]. split; [constructor|]. split; [constructor | exact H].
Qed.

Lemma gen_plan_entry w o sk salt k : gen_plan w o sk salt = inr k ->
  exists line pw pk, utf8_decode (take_line (stdin w)) = Some line /\
    confirm_password w (go_env_pass o) = inr pw /\ x25519_derive_public P sk = Ok pk /\
    valid_key_name (trim line) = true /\
    k = entry_text (mk_entry (trim line) (encode_pk pk) (Some (lock sk pw salt))).
Proof.
  unfold Cli.gen_plan, ask_user_stdin. intros H.
  apply pbind_inr in H. destruct H as (name & Hn & H).
  apply pbind_inr in Hn. destruct Hn as (line & Hl & [= <-]). apply opt_or_inr in Hl.
  destruct (valid_key_name (trim line)) eqn:Ev; cbn [negb] in H; [|discriminate].
  apply pbind_inr in H. destruct H as (pw & Hpw & H).
  apply pbind_inr in H. destruct H as (pk & Hpk & H). apply of_outcome_inr in Hpk.
  apply pbind_inr in H. destruct H as (u & _ & [= <-]).
  exists line, pw, pk. repeat split; assumption.
Qed.

Lemma gen_history_entries F : forall ins l l' ks, gen_history F l ins = Some (l', ks) ->
  exists es, ks = map entry_text es /\
    Forall (fun e => valid_key_name (k_name e) = true /\ trim (k_name e) = k_name e /\ k_priv e <> None) es.
Proof.
  induction ins as [|i rest IH]; intros l l' ks H.
  - injection H as <- <-. exists []. split; [reflexivity | constructor].
  - apply gen_history_cons in H. destruct H as (k & ks' & Ek & -> & _ & Hr & _).
    destruct (IH _ _ _ Hr) as (es & -> & Hes). apply gen_plan_entry in Ek.
    destruct Ek as (line & pw & pk & _ & _ & _ & Hv & ->).
    eexists (_ :: es). split; [reflexivity|]. constructor; [|exact Hes]. cbn [k_name k_priv].
    split; [exact Hv|]. split; [apply trim_idem | discriminate].
Qed.

(** ** the code before the repair forgets the old content *)
Theorem gen_key_legacy_forgets w o sk salt F c0 :
  go_outfile o = Some F -> fs_get (fs w) F = Some c0 ->
  is_success (status (gen_key_legacy w o sk salt)) = true ->
  exists key_text, gen_plan w o sk salt = inr key_text /\
    fs_get (new_fs (gen_key_legacy w o sk salt)) F = Some (key_bytes_nl key_text).
Proof.
  intros Ho Hg Hs. unfold Cli.gen_key_legacy in *. destruct (gen_plan w o sk salt) as [st|k] eqn:Ep.
  - cbn in Hs. rewrite (nosucc_gen_plan _ _ _ _ _ Ep) in Hs. discriminate.
  - exists k. split; [reflexivity|]. rewrite Ho. unfold Cli.gen_write_legacy.
    destruct (fs_get_create_target _ _ _ Hg) as (cp & Hr & Hc & _). rewrite Hr.
    cbn [new_fs mk_result]. now apply fs_create_target_written.
Qed.

(** ** the written file has the keyring_text shape, and reads back *)
Section Utf8.
(* UTF-8 encoding is a monoid morphism and decoding inverts it (facts about the real
   String::from_utf8 / as_bytes, stated here as premises on the abstract pair) *)
Hypothesis enc_app : forall a b, utf8_encode (a ++ b) = utf8_encode a ++ utf8_encode b.
Hypothesis dec_enc : forall t, utf8_decode (utf8_encode t) = Some t.

Lemma enc_nil : utf8_encode [] = [].
Proof.
  pose proof (enc_app [] []) as H. cbn [app] in H. apply (f_equal (@length N)) in H.
  rewrite app_length in H. destruct (utf8_encode []) as [|x r]; [reflexivity | cbn in H; lia].
Qed.

Lemma key_bytes_nl_split k : key_bytes_nl k = utf8_encode [c_nl] ++ key_bytes k.
Proof. unfold Cli.key_bytes_nl, Cli.key_bytes. change (c_nl :: k) with ([c_nl] ++ k). apply enc_app. Qed.

Lemma flat_map_key_bytes es :
  flat_map key_bytes_nl (map entry_text es) = utf8_encode (flat_map (fun e => c_nl :: entry_text e) es).
Proof.
  induction es as [|e es IH]; cbn [map flat_map]; [now rewrite enc_nil|].
  rewrite IH. unfold Cli.key_bytes_nl. now rewrite <- enc_app.
Qed.

(* F did not exist: after the history it holds exactly keyring_text of the generated entries *)
Theorem gen_history_keyring_fresh F l ins l' es :
  fs_get l F = None -> gen_history F l ins = Some (l', map entry_text es) -> es <> [] ->
  fs_get l' F = Some (utf8_encode (keyring_text es)).
Proof.
  intros Hn H Hne. destruct (gen_history_content F _ _ _ _ H) as [H1 _]. rewrite H1, Hn.
  destruct es as [|e rest]; [contradiction|]. cbn [map Cli.history_content keyring_text].
  now rewrite flat_map_key_bytes, <- enc_app.
Qed.

(* F held the text t0 (possibly empty): afterwards it holds t0 followed by "\n" ++ entry text of
   each generated entry *)
Theorem gen_history_keyring_existing F l ins l' es t0 :
  fs_get l F = Some (utf8_encode t0) -> gen_history F l ins = Some (l', map entry_text es) ->
  fs_get l' F = Some (utf8_encode (t0 ++ flat_map (fun e => c_nl :: entry_text e) es)).
Proof.
  intros Hn H. destruct (gen_history_content F _ _ _ _ H) as [H1 _]. rewrite H1, Hn.
  cbn [Cli.history_content]. now rewrite flat_map_key_bytes, <- enc_app.
Qed.

Lemma parse_config_leading_nl t : parse_config pk_ok sk_ok (c_nl :: t) = parse_config pk_ok sk_ok t.
Proof.
  rewrite !parse_config_classes. change (c_nl :: t) with ([] ++ c_nl :: t).
  rewrite classes_line by (intros []). change (classify (clean [])) with LSkip.
  change (LSkip :: classes t) with ([LSkip] ++ classes t). rewrite runc_skip; [reflexivity|].
  constructor; [reflexivity | constructor].
Qed.

Lemma resolve_keyring_file w F t : fs_get (fs w) F = Some (utf8_encode t) ->
  resolve_keyring w (Some F) = of_outcome SKeyringParse (parse_config pk_ok sk_ok t).
Proof. intros H. unfold Cli.resolve_keyring, keyring_path. cbn [pbind]. rewrite H. cbn [opt_or pbind]. now rewrite dec_enc. Qed.

(* ... and `-k F` then reads back exactly the generated keys *)
Theorem gen_history_reads_back_fresh F l ins l' es w :
  fs_get l F = None -> gen_history F l ins = Some (l', map entry_text es) -> es <> [] ->
  Forall (gen_entry_ok pk_ok sk_ok) es -> NoDup (map k_name es) -> NoDup (map k_pub es) ->
  fs w = l' -> resolve_keyring w (Some F) = inr es.
Proof.
  intros Hn H Hne Hok N1 N2 Hw. rewrite (resolve_keyring_file w F (keyring_text es)).
  - now rewrite written_parses_back.
  - rewrite Hw. now apply (gen_history_keyring_fresh F l ins).
Qed.

(* an existing keyring that parses to ks0 reads back as ks0 followed by the generated keys *)
Theorem gen_history_reads_back_existing F l ins l' es t0 ks0 w :
  fs_get l F = Some (utf8_encode t0) -> parse_config pk_ok sk_ok t0 = Ok ks0 ->
  gen_history F l ins = Some (l', map entry_text es) ->
  Forall (gen_entry_ok pk_ok sk_ok) es -> NoDup (map k_name (ks0 ++ es)) -> NoDup (map k_pub (ks0 ++ es)) ->
  fs w = l' -> resolve_keyring w (Some F) = inr (ks0 ++ es).
Proof.
  intros Hn Hp H Hok N1 N2 Hw.
  rewrite (resolve_keyring_file w F (t0 ++ flat_map (fun e => c_nl :: entry_text e) es)).
  - rewrite (parse_append_keys pk_ok sk_ok es t0 ks0) by assumption. reflexivity.
  - rewrite Hw. now apply (gen_history_keyring_existing F l ins).
Qed.

(* an EMPTY existing file: the result starts with a blank line ("\n" ++ keyring_text) and still
   reads back as the generated keys *)
Theorem gen_history_reads_back_empty F l ins l' es w :
  fs_get l F = Some [] -> gen_history F l ins = Some (l', map entry_text es) -> es <> [] ->
  Forall (gen_entry_ok pk_ok sk_ok) es -> NoDup (map k_name es) -> NoDup (map k_pub es) ->
  fs w = l' ->
  fs_get l' F = Some (utf8_encode (c_nl :: keyring_text es)) /\ resolve_keyring w (Some F) = inr es.
Proof.
  intros Hn H Hne Hok N1 N2 Hw. rewrite <- enc_nil in Hn.
  pose proof (gen_history_keyring_existing F l ins l' es [] Hn H) as Hc. cbn [app] in Hc.
  assert (Es : flat_map (fun e => c_nl :: entry_text e) es = c_nl :: keyring_text es).
  { destruct es as [|e rest]; [contradiction | reflexivity]. }
  rewrite Es in Hc. split; [exact Hc|].
  rewrite (resolve_keyring_file w F (c_nl :: keyring_text es)) by (now rewrite Hw).
  now rewrite parse_config_leading_nl, written_parses_back.
Qed.
End Utf8.

(* ====================================================================================== *)
(** * A. Exit code and delivery                                                            *)
(* ====================================================================================== *)

(** ** A.0 a library run that returns Ok has made a flush call on the sink
    (every one of the four library functions ends a successful run with write_all + flush),
    so a successful command has created / replaced its output file. *)
Definition tp {E A} (m : M E A) : Prop :=
  forall s r s', m s = (r, s') -> sink_touched s = true -> sink_touched s' = true.
Definition okt {E A} (m : M E A) : Prop :=
  forall s a s', m s = (Ok a, s') -> sink_touched s' = true.

Lemma log_mono_tp {E A} (m : M E A) : log_mono m -> tp m.
Proof.
  intros H s r s' E0 Ht. destruct (H _ _ _ E0) as [d Hd]. unfold sink_touched in *.
  rewrite Hd, existsb_app, Ht. apply orb_true_r.
Qed.

Lemma okt_bind_r {E A B} (m : M E A) (f : A -> M E B) : (forall a, okt (f a)) -> okt (bind m f).
Proof.
  intros Hf s b s' E0. unfold bind in E0. destruct (m s) as [[a|e|t|] s1]; try discriminate.
  exact (Hf a _ _ _ E0).
Qed.
Lemma okt_bind_l {E A B} (m : M E A) (f : A -> M E B) : okt m -> (forall a, tp (f a)) -> okt (bind m f).
Proof.
  intros Hm Hf s b s' E0. unfold bind in E0. destruct (m s) as [[a|e|t|] s1] eqn:E1; try discriminate.
  apply (Hf a _ _ _ E0). exact (Hm _ _ _ E1).
Qed.
Lemma okt_fail {E A} (e : E) : okt (@fail E A e).
Proof. intros s a s' E0. discriminate. Qed.
Lemma okt_lift_panic {E A} t : okt (@lift E A (Panic t)).
Proof. intros s a s' E0. discriminate. Qed.
Lemma okt_lift_fuel {E A} : okt (@lift E A OutOfFuel).
Proof. intros s a s' E0. discriminate. Qed.
Lemma okt_flush {E} (werr : ioerr -> E) : okt (m_flush werr).
Proof.
  intros s a s' E0. apply m_flush_cases in E0. destruct E0 as (_ & _ & H).
  unfold sink_touched. rewrite H. reflexivity.
Qed.

Lemma lm_open' {E} (aerr : E) key n ad ct : log_mono (m_open P aerr key n ad ct).
Proof.
  intros s r s' E0. unfold m_open in E0.
  destruct (chapoly_decrypt_noise P key n ad ct); injection E0 as <- <-;
    [eexists [_] | eexists [_] | exists [] | exists []]; reflexivity.
Qed.
Lemma lm_seal' {E} key n ad pt : log_mono (@m_seal P E key n ad pt).
Proof.
  intros s r s' E0. unfold m_seal in E0.
  destruct (chapoly_encrypt_noise P key n ad pt); injection E0 as <- <-;
    [eexists [_] | exists [] | exists [] | exists []]; reflexivity.
Qed.
Lemma lm_emit {E} ev : log_mono (@emit E ev).
Proof. intros s r s' [= <- <-]. eexists [_]. reflexivity. Qed.

Lemma dec_loop_okt : forall fuel key aad cs n, okt (decrypt_chunks_loop P fuel key aad cs n).
Proof.
  induction fuel as [|f IH]; intros key aad cs n; [apply okt_lift_fuel|].
  cbn [decrypt_chunks_loop]. apply okt_bind_r; intros hdr. cbv zeta.
  destruct (cs <? _); [apply okt_fail|].
  apply okt_bind_r; intros ct. apply okt_bind_r; intros pt. destruct (_ =? 1).
  - apply okt_bind_r; intros chk. destruct chk; [|apply okt_fail].
    apply okt_bind_r; intros _. apply okt_bind_l; [apply okt_flush | intros _; apply log_mono_tp, lm_ret].
  - apply okt_bind_r; intros _. apply okt_bind_r; intros _. apply IH.
Qed.

Lemma decrypt_chunks_okt key aad cs : okt (decrypt_chunks P key aad cs).
Proof. intros s a s' E0. unfold decrypt_chunks in E0. exact (dec_loop_okt _ _ _ _ _ _ _ _ E0). Qed.

Theorem key_decrypt_ok_touches r rpk : okt (key_decrypt P r rpk).
Proof.
  unfold key_decrypt. apply okt_bind_r; intros prologue.
  destruct (valid_file_format prologue) as [[|]|]; [|apply okt_fail|apply okt_fail].
  apply okt_bind_r; intros hm.
  destruct (noise_decrypt P r rpk prologue hm) as [[[payload spk] hh]|e|t|];
    [|apply okt_fail|apply okt_lift_panic|apply okt_lift_fuel].
  apply okt_bind_l; [apply decrypt_chunks_okt | intros _; apply log_mono_tp, lm_ret].
Qed.

Theorem pass_decrypt_ok_touches pw : okt (pass_decrypt P pw).
Proof.
  unfold pass_decrypt. apply okt_bind_r; intros magic.
  destruct (valid_file_format magic) as [[|]|]; [apply okt_fail| |apply okt_fail].
  apply okt_bind_r; intros salt. cbv zeta. apply okt_bind_r; intros _. apply decrypt_chunks_okt.
Qed.

Lemma enc_loop_lm : forall fuel key aad cs n prev done,
  log_mono (encrypt_chunks_loop P fuel key aad cs n prev done).
Proof.
  induction fuel as [|f IH]; intros key aad cs n prev done; [apply lm_lift|].
  cbn [encrypt_chunks_loop]. apply lm_bind; [apply lm_read|intros cur]. cbv zeta.
  destruct (_ && done); [apply lm_fail|].
  apply lm_bind; [apply lm_seal'|intros ct].
  apply lm_bind; [apply lm_write_all|intros _].
  apply lm_bind; [apply lm_write_all|intros _].
  apply lm_bind; [apply lm_flush|intros _].
  destruct (done || _); [apply lm_ret | apply IH].
Qed.

Lemma encrypt_chunks_lm key aad cs : log_mono (encrypt_chunks P key aad cs).
Proof.
  intros s r s' E0. unfold encrypt_chunks in E0.
  refine (lm_bind _ _ _ _ s r s' E0); [apply lm_read | intros first; apply enc_loop_lm].
Qed.

Theorem key_encrypt_ok_touches fpk fe s spk r : okt (key_encrypt P fpk fe s spk r None None None).
Proof.
  unfold key_encrypt. destruct (negb _); [apply okt_lift_panic|].
  destruct (noise_encrypt _ _ _ _ _ _ _ _ _) as [[msg hh]|e|t|];
    [|apply okt_fail|apply okt_lift_panic|apply okt_lift_fuel].
  apply okt_bind_r; intros _. apply okt_bind_r; intros _.
  apply okt_bind_l; [apply okt_flush | intros _; apply log_mono_tp, encrypt_chunks_lm].
Qed.

Theorem pass_encrypt_ok_touches pw salt : okt (pass_encrypt P pw salt).
Proof.
  unfold pass_encrypt. cbv zeta. apply okt_bind_r; intros _. apply okt_bind_r; intros _. apply okt_bind_r; intros _.
  apply okt_bind_l; [apply okt_flush | intros _; apply log_mono_tp, encrypt_chunks_lm].
Qed.

(** ** A.1 exit code 0 <-> success status, for all seven commands *)
Lemma gen_wf w o sk salt : wf_result (cmd_gen_key w o sk salt).
Proof.
  unfold Cli.cmd_gen_key. destruct (gen_plan w o sk salt) as [st|k]; [reflexivity|].
  unfold Cli.gen_write. destruct (go_outfile o) as [f|]; [|reflexivity].
  destruct (resolve (fs w) f) as [[cp [[c0|]|]]|]; reflexivity.
Qed.
Lemma change_pass_wf w sk e salt : wf_result (cmd_change_pass w sk e salt).
Proof. unfold Cli.cmd_change_pass. now destruct (pbind _ _). Qed.
Lemma extract_pub_wf w sk e : wf_result (cmd_extract_pub w sk e).
Proof. unfold Cli.cmd_extract_pub. now destruct (pbind _ _). Qed.

Theorem exit_iff_ok :
  (forall w o fpk fe, exit_code (cmd_encrypt w o fpk fe) = 0 <-> is_success (status (cmd_encrypt w o fpk fe)) = true) /\
  (forall w o, exit_code (cmd_decrypt w o) = 0 <-> is_success (status (cmd_decrypt w o)) = true) /\
  (forall w o salt, exit_code (cmd_pass_encrypt w o salt) = 0 <-> is_success (status (cmd_pass_encrypt w o salt)) = true) /\
  (forall w o, exit_code (cmd_pass_decrypt w o) = 0 <-> is_success (status (cmd_pass_decrypt w o)) = true) /\
  (forall w o sk salt, exit_code (cmd_gen_key w o sk salt) = 0 <-> is_success (status (cmd_gen_key w o sk salt)) = true) /\
  (forall w sk e salt, exit_code (cmd_change_pass w sk e salt) = 0 <-> is_success (status (cmd_change_pass w sk e salt)) = true) /\
  (forall w sk e, exit_code (cmd_extract_pub w sk e) = 0 <-> is_success (status (cmd_extract_pub w sk e)) = true).
Proof.
  split; [|split; [|split; [|split; [|split; [|split]]]]]; intros; apply wf_exit_iff;
    first [apply stream_wf | apply gen_wf | apply change_pass_wf | apply extract_pub_wf].
Qed.

(* every other exit code is 1, except for a panic (101) and the model artefact (102) *)
Theorem exit_code_of_status :
  (forall w o fpk fe, exit_code (cmd_encrypt w o fpk fe) = code_of (status (cmd_encrypt w o fpk fe))) /\
  (forall w o, exit_code (cmd_decrypt w o) = code_of (status (cmd_decrypt w o))) /\
  (forall w o salt, exit_code (cmd_pass_encrypt w o salt) = code_of (status (cmd_pass_encrypt w o salt))) /\
  (forall w o, exit_code (cmd_pass_decrypt w o) = code_of (status (cmd_pass_decrypt w o))) /\
  (forall w o sk salt, exit_code (cmd_gen_key w o sk salt) = code_of (status (cmd_gen_key w o sk salt))) /\
  (forall w sk e salt, exit_code (cmd_change_pass w sk e salt) = code_of (status (cmd_change_pass w sk e salt))) /\
  (forall w sk e, exit_code (cmd_extract_pub w sk e) = code_of (status (cmd_extract_pub w sk e))).
Proof.
  repeat split; intros;
    first [apply stream_wf | apply gen_wf | apply change_pass_wf | apply extract_pub_wf].
Qed.

(** ** A.2 what the plan of a command consists of *)
Lemma resolve_keyring_inv w k keys : resolve_keyring w k = inr keys ->
  exists path data txt, keyring_path w k = inr path /\ fs_get (fs w) path = Some data /\
    utf8_decode data = Some txt /\ parse_config pk_ok sk_ok txt = Ok keys.
Proof.
  unfold Cli.resolve_keyring. intros H.
  apply pbind_inr in H. destruct H as (path & Hp & H).
  apply pbind_inr in H. destruct H as (data & Hd & H). apply opt_or_inr in Hd.
  apply pbind_inr in H. destruct H as (txt & Ht & H). apply opt_or_inr in Ht.
  apply of_outcome_inr in H. exists path, data, txt. auto.
Qed.

Lemma decrypt_plan_inv w o j : decrypt_plan w o = inr j ->
  exists rk locked pw,
    same_path (do_infile o) (do_outfile o) = false /\
    resolve_input w (do_infile o) = inr (dj_input j) /\
    resolve_keyring w (do_keyring o) = inr (dj_keys j) /\
    get_key (dj_keys j) (do_to o) = Some rk /\
    decode_pk (k_pub rk) = Ok (dj_rpk j) /\
    k_priv rk = Some locked /\
    ask_pass w (do_env_pass o) = inr pw /\
    unlock locked pw = Ok (dj_r j) /\
    job_ends w (do_infile o) (do_outfile o) (dj_input j) (dj_dir j) (dj_bad j) (dj_alias j).
Proof.
  unfold Cli.decrypt_plan. intros H.
  apply pbind_inr in H. destruct H as (input & Hi & H). apply open_io_inr in Hi. destruct Hi as (Hs & Hi & He).
  apply pbind_inr in H. destruct H as (keys & Hk & H).
  apply pbind_inr in H. destruct H as (rk & Hrk & H). apply opt_or_inr in Hrk.
  apply pbind_inr in H. destruct H as (rpub & Hrpub & H). apply of_outcome_inr in Hrpub.
  apply pbind_inr in H. destruct H as (locked & Hl & H). apply opt_or_inr in Hl.
  apply pbind_inr in H. destruct H as (pw & Hpw & H).
  apply pbind_inr in H. destruct H as (rpriv & Hu & H). apply of_outcome_inr in Hu.
  injection H as <-. exists rk, locked, pw. cbn [dj_input dj_keys dj_rpk dj_r dj_dir dj_bad dj_alias]. auto 12.
Qed.

Lemma encrypt_plan_inv w o j : encrypt_plan w o = inr j ->
  exists keys rk sk locked pw,
    same_path (eo_infile o) (eo_outfile o) = false /\
    resolve_input w (eo_infile o) = inr (ej_input j) /\
    resolve_keyring w (eo_keyring o) = inr keys /\
    get_key keys (eo_to o) = Some rk /\ decode_pk (k_pub rk) = Ok (ej_r j) /\
    get_key keys (eo_from o) = Some sk /\ decode_pk (k_pub sk) = Ok (ej_spk j) /\
    k_priv sk = Some locked /\
    ask_pass w (eo_env_pass o) = inr pw /\
    unlock locked pw = Ok (ej_s j) /\
    job_ends w (eo_infile o) (eo_outfile o) (ej_input j) (ej_dir j) (ej_bad j) (ej_alias j).
Proof.
  unfold Cli.encrypt_plan. intros H.
  apply pbind_inr in H. destruct H as (input & Hi & H). apply open_io_inr in Hi. destruct Hi as (Hs & Hi & He).
  apply pbind_inr in H. destruct H as (keys & Hk & H).
  apply pbind_inr in H. destruct H as (rk & Hrk & H). apply opt_or_inr in Hrk.
  apply pbind_inr in H. destruct H as (rpub & Hrpub & H). apply of_outcome_inr in Hrpub.
  apply pbind_inr in H. destruct H as (sk & Hsk & H). apply opt_or_inr in Hsk.
  apply pbind_inr in H. destruct H as (spub & Hspub & H). apply of_outcome_inr in Hspub.
  apply pbind_inr in H. destruct H as (locked & Hl & H). apply opt_or_inr in Hl.
  apply pbind_inr in H. destruct H as (pw & Hpw & H).
  apply pbind_inr in H. destruct H as (spriv & Hu & H). apply of_outcome_inr in Hu.
  injection H as <-. exists keys, rk, sk, locked, pw. cbn [ej_input ej_s ej_spk ej_r ej_dir ej_bad ej_alias]. auto 14.
Qed.

Lemma pass_decrypt_plan_inv w o j : pass_decrypt_plan w o = inr j ->
  same_path (po_infile o) (po_outfile o) = false /\
  resolve_input w (po_infile o) = inr (pj_input j) /\
  ask_pass w (po_env_pass o) = inr (pj_pw j) /\
  job_ends w (po_infile o) (po_outfile o) (pj_input j) (pj_dir j) (pj_bad j) (pj_alias j).
Proof.
  unfold pass_decrypt_plan. intros H.
  apply pbind_inr in H. destruct H as (input & Hi & H). apply open_io_inr in Hi. destruct Hi as (Hs & Hi & He).
  apply pbind_inr in H. destruct H as (pw & Hpw & H). injection H as <-. cbn [pj_input pj_pw pj_dir pj_bad pj_alias]. auto.
Qed.

Lemma pass_encrypt_plan_inv w o salt j : pass_encrypt_plan w o salt = inr j ->
  same_path (po_infile o) (po_outfile o) = false /\
  resolve_input w (po_infile o) = inr (pj_input j) /\
  confirm_password w (po_env_pass o) = inr (pj_pw j) /\ length salt = 32%nat /\
  job_ends w (po_infile o) (po_outfile o) (pj_input j) (pj_dir j) (pj_bad j) (pj_alias j).
Proof.
  unfold pass_encrypt_plan. intros H.
  apply pbind_inr in H. destruct H as (input & Hi & H). apply open_io_inr in Hi. destruct Hi as (Hs & Hi & He).
  apply pbind_inr in H. destruct H as (pw & Hpw & H).
  apply pbind_inr in H. destruct H as (u & Hu & H). injection H as <-.
  unfold check32 in Hu. destruct (Nat.eqb (length salt) 32) eqn:El; [|discriminate].
  apply Nat.eqb_eq in El. cbn [pj_input pj_pw pj_dir pj_bad pj_alias]. auto 6.
Qed.

(** ** A.2' the library call of a job.  [run_dec j] IS the library function on [job_io (dec_fed j) ..]: the
    bytes fed are the input's bytes unless input and output are one file; a run that returns Ok had a regular
    file (or stdin) as input and a sink that could be created. *)
Lemma dec_fed_plain j : dj_alias j = false -> dec_fed j = dj_input j.
Proof. unfold Cli.dec_fed, alias_fed. now intros ->. Qed.
Lemma pdec_fed_plain j : pj_alias j = false -> pdec_fed j = pj_input j.
Proof. unfold Cli.pdec_fed, alias_fed. now intros ->. Qed.
Lemma enc_fed_plain fpk fe j : ej_alias j = false -> enc_fed fpk fe j = ej_input j.
Proof. unfold Cli.enc_fed, alias_fed. now intros ->. Qed.
Lemma penc_fed_plain salt j : pj_alias j = false -> penc_fed salt j = pj_input j.
Proof. unfold Cli.penc_fed, alias_fed. now intros ->. Qed.

Lemma run_dec_eq j : run_dec j = key_decrypt P (dj_r j) (dj_rpk j) (job_io (dec_fed j) (dj_dir j) (dj_bad j)).
Proof. reflexivity. Qed.
Lemma run_pdec_eq j : run_pdec j = pass_decrypt P (pj_pw j) (job_io (pdec_fed j) (pj_dir j) (pj_bad j)).
Proof. reflexivity. Qed.
Lemma run_enc_eq fpk fe j : run_enc fpk fe j =
  key_encrypt P fpk fe (ej_s j) (ej_spk j) (ej_r j) None None None (job_io (enc_fed fpk fe j) (ej_dir j) (ej_bad j)).
Proof. reflexivity. Qed.
Lemma run_penc_eq salt j : run_penc salt j = pass_encrypt P (pj_pw j) salt (job_io (penc_fed salt j) (pj_dir j) (pj_bad j)).
Proof. reflexivity. Qed.

Lemma run_dec_ok j a s' : run_dec j = (Ok a, s') -> dj_dir j = false /\ dj_bad j = false.
Proof.
  rewrite run_dec_eq. intros E0. split.
  - destruct (dj_dir j); [|reflexivity]. exfalso.
    exact (key_decrypt_dir_reader P _ _ _ _ _ (job_io_dir_reader _ _) E0 a eq_refl).
  - destruct (dj_bad j); [|reflexivity]. exfalso.
    exact (key_decrypt_bad_sink P _ _ _ _ _ (job_io_bad_sink _ _) E0 a eq_refl).
Qed.
Lemma run_pdec_ok j a s' : run_pdec j = (Ok a, s') -> pj_dir j = false /\ pj_bad j = false.
Proof.
  rewrite run_pdec_eq. intros E0. split.
  - destruct (pj_dir j); [|reflexivity]. exfalso.
    exact (pass_decrypt_dir_reader P _ _ _ _ (job_io_dir_reader _ _) E0 a eq_refl).
  - destruct (pj_bad j); [|reflexivity]. exfalso.
    exact (pass_decrypt_bad_sink P _ _ _ _ (job_io_bad_sink _ _) E0 a eq_refl).
Qed.
Lemma run_enc_ok fpk fe j a s' : run_enc fpk fe j = (Ok a, s') -> ej_dir j = false /\ ej_bad j = false.
Proof.
  rewrite run_enc_eq. intros E0. split.
  - destruct (ej_dir j); [|reflexivity]. exfalso.
    exact (key_encrypt_dir_reader P _ _ _ _ _ _ _ _ _ _ _ (job_io_dir_reader _ _) E0 a eq_refl).
  - destruct (ej_bad j); [|reflexivity]. exfalso.
    exact (key_encrypt_bad_sink P _ _ _ _ _ _ _ _ _ _ _ (job_io_bad_sink _ _) E0 a eq_refl).
Qed.
Lemma run_penc_ok salt j a s' : run_penc salt j = (Ok a, s') -> pj_dir j = false /\ pj_bad j = false.
Proof.
  rewrite run_penc_eq. intros E0. split.
  - destruct (pj_dir j); [|reflexivity]. exfalso.
    exact (pass_encrypt_dir_reader P _ _ _ _ _ (job_io_dir_reader _ _) E0 a eq_refl).
  - destruct (pj_bad j); [|reflexivity]. exfalso.
    exact (pass_encrypt_bad_sink P _ _ _ _ _ (job_io_bad_sink _ _) E0 a eq_refl).
Qed.

(* the log of a job's run starts empty *)
Lemma run_dec_start j : exists s0, log s0 = [] /\ run_dec j = key_decrypt P (dj_r j) (dj_rpk j) s0.
Proof. eexists. split; [|apply run_dec_eq]. reflexivity. Qed.
Lemma run_pdec_start j : exists s0, log s0 = [] /\ run_pdec j = pass_decrypt P (pj_pw j) s0.
Proof. eexists. split; [|apply run_pdec_eq]. reflexivity. Qed.

(** ** A.3 a successful decrypt delivers exactly the [w_out] of a library run that returned Ok.
    [run_dec j] IS [key_decrypt P (dj_r j) (dj_rpk j) (io0 (dec_fed j))] for a successful run, the
    bytes fed are the file at the argument path or stdin (unless input and output are one file), the keys are
    what the keyring and the password unlock; so this composes with the library theorem "Ok => complete
    authenticated plaintext in w_out". *)
Theorem decrypt_success_delivers w o : is_success (status (cmd_decrypt w o)) = true ->
  exists j sender s',
    decrypt_plan w o = inr j /\
    key_decrypt P (dj_r j) (dj_rpk j) (io0 (dec_fed j)) = (Ok sender, s') /\
    resolve_input w (do_infile o) = inr (dj_input j) /\
    status (cmd_decrypt w o) = sender_status (dj_keys j) sender /\
    match do_outfile o with
    | Some F => fs_get (new_fs (cmd_decrypt w o)) F = Some (w_out (wtr s')) /\
                (forall q, fs_target (fs w) q <> fs_target (fs w) F ->
                           fs_get (new_fs (cmd_decrypt w o)) q = fs_get (fs w) q) /\
                stdout (cmd_decrypt w o) = []
    | None => stdout (cmd_decrypt w o) = w_out (wtr s') /\ new_fs (cmd_decrypt w o) = fs w
    end /\
    (dj_alias j = false -> dec_fed j = dj_input j).
Proof.
  intros Hs. unfold Cli.cmd_decrypt in *.
  apply stream_success in Hs; [|apply nosucc_decrypt_plan]. destruct Hs as (j & Hp & Hs).
  destruct (run_dec j) as [res s'] eqn:Er. cbn [fst] in Hs.
  destruct res as [sender|e|t|]; try discriminate; [|destruct e; discriminate].
  destruct (run_dec_ok _ _ _ Er) as [Hd Hb].
  exists j, sender, s'. split; [exact Hp|].
  split; [rewrite run_dec_eq, Hd, Hb in Er; exact Er|].
  destruct (decrypt_plan_inv w o j Hp) as (rk & locked & pw & _ & Hi & _ & _ & _ & _ & _ & _ & Hends). split; [exact Hi|].
  destruct (stream_plan_run w (do_outfile o) _ run_dec (fun j => fin_dec (dj_keys j)) j Hp) as (Hst & _).
  rewrite Er in Hst. split; [exact Hst|]. split; [|apply dec_fed_plain].
  destruct (do_outfile o) as [F|] eqn:Eo.
  - assert (Ht : sink_touched (snd (run_dec j)) = true).
    { rewrite Er. rewrite run_dec_eq in Er. exact (key_decrypt_ok_touches _ _ _ _ _ Er). }
    destruct (proj1 (job_ends_bad_iff _ _ _ _ _ _ _ Hends) Hb) as [cp Hc].
    pose proof (stream_touched w (Some F) _ run_dec (fun j => fin_dec (dj_keys j)) j F cp Hp eq_refl Hc Ht) as H.
    rewrite Er in H. destruct H as (H1 & H2 & _ & H4). auto.
  - pose proof (stream_stdout w None _ run_dec (fun j => fin_dec (dj_keys j)) j Hp eq_refl) as [H1 H2].
    rewrite Er in H2. split; assumption.
Qed.

Theorem pass_decrypt_success_delivers w o : is_success (status (cmd_pass_decrypt w o)) = true ->
  exists j s',
    pass_decrypt_plan w o = inr j /\
    pass_decrypt P (pj_pw j) (io0 (pdec_fed j)) = (Ok tt, s') /\
    resolve_input w (po_infile o) = inr (pj_input j) /\
    ask_pass w (po_env_pass o) = inr (pj_pw j) /\
    status (cmd_pass_decrypt w o) = SOk /\
    match po_outfile o with
    | Some F => fs_get (new_fs (cmd_pass_decrypt w o)) F = Some (w_out (wtr s')) /\
                (forall q, fs_target (fs w) q <> fs_target (fs w) F ->
                           fs_get (new_fs (cmd_pass_decrypt w o)) q = fs_get (fs w) q) /\
                stdout (cmd_pass_decrypt w o) = []
    | None => stdout (cmd_pass_decrypt w o) = w_out (wtr s') /\ new_fs (cmd_pass_decrypt w o) = fs w
    end /\
    (pj_alias j = false -> pdec_fed j = pj_input j).
Proof.
  intros Hs. unfold Cli.cmd_pass_decrypt in *.
  apply stream_success in Hs; [|apply nosucc_pass_decrypt_plan]. destruct Hs as (j & Hp & Hs).
  destruct (run_pdec j) as [res s'] eqn:Er. cbn [fst] in Hs.
  destruct res as [[]|e|t|]; try discriminate; [|destruct e; discriminate].
  destruct (run_pdec_ok _ _ _ Er) as [Hd Hb].
  exists j, s'. split; [exact Hp|].
  split; [rewrite run_pdec_eq, Hd, Hb in Er; exact Er|].
  destruct (pass_decrypt_plan_inv w o j Hp) as (_ & Hi & Hpw & Hends). split; [exact Hi|]. split; [exact Hpw|].
  destruct (stream_plan_run w (po_outfile o) _ run_pdec (fun _ => fin_pdec) j Hp) as (Hst & _).
  rewrite Er in Hst. split; [exact Hst|]. split; [|apply pdec_fed_plain].
  destruct (po_outfile o) as [F|] eqn:Eo.
  - assert (Ht : sink_touched (snd (run_pdec j)) = true).
    { rewrite Er. rewrite run_pdec_eq in Er. exact (pass_decrypt_ok_touches _ _ _ _ Er). }
    destruct (proj1 (job_ends_bad_iff _ _ _ _ _ _ _ Hends) Hb) as [cp Hc].
    pose proof (stream_touched w (Some F) _ run_pdec (fun _ => fin_pdec) j F cp Hp eq_refl Hc Ht) as H.
    rewrite Er in H. destruct H as (H1 & H2 & _ & H4). auto.
  - pose proof (stream_stdout w None _ run_pdec (fun _ => fin_pdec) j Hp eq_refl) as [H1 H2].
    rewrite Er in H2. split; assumption.
Qed.

(* ====================================================================================== *)
(** * D. The result does not depend on the wiring                                          *)
(* ====================================================================================== *)

(** ** D.1 input as a file argument holding B, or B on stdin (the output path, if any, does not denote the
    input FILE — whatever the two strings look like): identical results. *)
Definition other_file (l : fsys) (out : option text) (p : text) : Prop :=
  forall F, out = Some F -> fs_target l F <> fs_target l p.

Lemma other_file_same_path l out p c : fs_get l p = Some c -> other_file l out p -> same_path (Some p) out = false.
Proof.
  intros Hg Ho. destruct out as [q|]; [|reflexivity]. cbn [same_path]. destruct (text_eqb p q) eqn:E; [|reflexivity].
  apply text_eqb_eq in E. subst q. exfalso. exact (Ho p eq_refl eq_refl).
Qed.

Lemma open_io_input_wiring fsy ep enp ek sin p B out :
  fs_get fsy p = Some B -> other_file fsy out p ->
  open_io {| fs := fsy; env_password := ep; env_new_password := enp; env_keyring := ek; stdin := sin |} (Some p) out
  = open_io {| fs := fsy; env_password := ep; env_new_password := enp; env_keyring := ek; stdin := B |} None out.
Proof.
  intros Hg Ho. unfold open_io. rewrite (other_file_same_path _ _ _ _ Hg Ho). cbn [same_path].
  destruct (open_input_file {| fs := fsy; env_password := ep; env_new_password := enp; env_keyring := ek; stdin := sin |} p B Hg)
    as (cp & -> & Ht). cbn [open_input pbind fst snd fs stdin]. f_equal. f_equal.
  unfold same_file, open_sink. destruct out as [F|]; [|reflexivity].
  destruct (fs_create_target fsy F) as [cq|] eqn:Ec; [|reflexivity].
  apply cpath_eqb_neq. intros <-. apply (Ho F eq_refl). cbn [fs] in Ht. rewrite Ht.
  now destruct (fs_create_target_inv _ _ _ Ec).
Qed.

Theorem decrypt_input_wiring fsy ep enp ek sin p B t out k e :
  fs_get fsy p = Some B -> other_file fsy out p ->
  cmd_decrypt {| fs := fsy; env_password := ep; env_new_password := enp; env_keyring := ek; stdin := sin |}
              {| do_infile := Some p; do_to := t; do_outfile := out; do_keyring := k; do_env_pass := e |}
  = cmd_decrypt {| fs := fsy; env_password := ep; env_new_password := enp; env_keyring := ek; stdin := B |}
              {| do_infile := None; do_to := t; do_outfile := out; do_keyring := k; do_env_pass := e |}.
Proof.
  intros Hg Ho. unfold Cli.cmd_decrypt, Cli.decrypt_plan.
  cbn [do_infile do_outfile do_to do_keyring do_env_pass].
  rewrite (open_io_input_wiring fsy ep enp ek sin p B out Hg Ho). reflexivity.
Qed.

Theorem pass_decrypt_input_wiring fsy ep enp ek sin p B out e :
  fs_get fsy p = Some B -> other_file fsy out p ->
  cmd_pass_decrypt {| fs := fsy; env_password := ep; env_new_password := enp; env_keyring := ek; stdin := sin |}
                   {| po_infile := Some p; po_outfile := out; po_env_pass := e |}
  = cmd_pass_decrypt {| fs := fsy; env_password := ep; env_new_password := enp; env_keyring := ek; stdin := B |}
                   {| po_infile := None; po_outfile := out; po_env_pass := e |}.
Proof.
  intros Hg Ho. unfold Cli.cmd_pass_decrypt, pass_decrypt_plan.
  cbn [po_infile po_outfile po_env_pass].
  rewrite (open_io_input_wiring fsy ep enp ek sin p B out Hg Ho). reflexivity.
Qed.

Theorem encrypt_input_wiring fsy ep enp ek sin p B t f out k e fpk fe :
  fs_get fsy p = Some B -> other_file fsy out p ->
  cmd_encrypt {| fs := fsy; env_password := ep; env_new_password := enp; env_keyring := ek; stdin := sin |}
              {| eo_infile := Some p; eo_to := t; eo_from := f; eo_outfile := out; eo_keyring := k; eo_env_pass := e |} fpk fe
  = cmd_encrypt {| fs := fsy; env_password := ep; env_new_password := enp; env_keyring := ek; stdin := B |}
              {| eo_infile := None; eo_to := t; eo_from := f; eo_outfile := out; eo_keyring := k; eo_env_pass := e |} fpk fe.
Proof.
  intros Hg Ho. unfold Cli.cmd_encrypt, Cli.encrypt_plan.
  cbn [eo_infile eo_outfile eo_to eo_from eo_keyring eo_env_pass].
  rewrite (open_io_input_wiring fsy ep enp ek sin p B out Hg Ho). reflexivity.
Qed.

Theorem pass_encrypt_input_wiring fsy ep enp ek sin p B out e salt :
  fs_get fsy p = Some B -> other_file fsy out p ->
  cmd_pass_encrypt {| fs := fsy; env_password := ep; env_new_password := enp; env_keyring := ek; stdin := sin |}
                   {| po_infile := Some p; po_outfile := out; po_env_pass := e |} salt
  = cmd_pass_encrypt {| fs := fsy; env_password := ep; env_new_password := enp; env_keyring := ek; stdin := B |}
                   {| po_infile := None; po_outfile := out; po_env_pass := e |} salt.
Proof.
  intros Hg Ho. unfold Cli.cmd_pass_encrypt, pass_encrypt_plan.
  cbn [po_infile po_outfile po_env_pass].
  rewrite (open_io_input_wiring fsy ep enp ek sin p B out Hg Ho). reflexivity.
Qed.

(** ** D.2 output to `-o F` (F different from the input path, prior state of F arbitrary) or to
    stdout: same status and exit code; nothing else changes; and as soon as one write/flush call was
    made — in particular whenever the command succeeds — the content of F equals the stdout bytes of
    the other wiring.  With no such call F is left as it was. *)
Lemma fin_enc_success o : is_success (fin_enc o) = true -> exists a, o = Ok a.
Proof. destruct o as [a|e|t|]; cbn; try discriminate. eauto. Qed.
Lemma fin_dec_success ks o : is_success (fin_dec ks o) = true -> exists a, o = Ok a.
Proof. destruct o as [a|e|t|]; cbn; try discriminate; [eauto | destruct e; discriminate]. Qed.
Lemma fin_pdec_success o : is_success (fin_pdec o) = true -> exists a, o = Ok a.
Proof. destruct o as [a|e|t|]; cbn; try discriminate; [eauto | destruct e; discriminate]. Qed.

(* the input, if it is a path, does not denote the file cp *)
Definition input_elsewhere (l : fsys) (i : option text) (cp : cpath) : Prop :=
  forall p, i = Some p -> fs_target l p <> Some cp.

Lemma open_io_output_wiring w i F cp : fs_create_target (fs w) F = Some cp -> input_elsewhere (fs w) i cp ->
  open_io w i (Some F) = open_io w i None.
Proof.
  intros Hc Hi. destruct (fs_create_target_inv _ _ _ Hc) as (Ht & _ & _). unfold open_io.
  assert (Hs : same_path i (Some F) = false).
  { destruct i as [p|]; [|reflexivity]. cbn [same_path]. destruct (text_eqb p F) eqn:E; [|reflexivity].
    apply text_eqb_eq in E. subst p. exfalso. exact (Hi F eq_refl Ht). }
  rewrite Hs, same_path_none. destruct (open_input w i) as [st|[[c d] cin]] eqn:Eo; cbn [pbind fst snd]; [reflexivity|].
  f_equal. unfold open_sink. rewrite Hc. cbn [sink_bad same_file]. f_equal.
  destruct cin as [x|]; [|reflexivity]. apply open_input_inv in Eo. destruct i as [p|].
  - destruct Eo as (cp0 & [= <-] & Hp & _). apply cpath_eqb_neq. intros ->. exact (Hi p eq_refl Hp).
  - destruct Eo as (_ & _ & H). discriminate.
Qed.

Theorem decrypt_output_wiring w i t F cp k e :
  fs_create_target (fs w) F = Some cp -> input_elsewhere (fs w) i cp ->
  let os := {| do_infile := i; do_to := t; do_outfile := None; do_keyring := k; do_env_pass := e |} in
  let rf := cmd_decrypt w {| do_infile := i; do_to := t; do_outfile := Some F; do_keyring := k; do_env_pass := e |} in
  let rs := cmd_decrypt w os in
  status rf = status rs /\ exit_code rf = exit_code rs /\ stdout rf = [] /\ new_fs rs = fs w /\
  (forall q, fs_target (fs w) q <> fs_target (fs w) F -> fs_get (new_fs rf) q = fs_get (fs w) q) /\
  (forall j, decrypt_plan w os = inr j -> sink_touched (snd (run_dec j)) = true ->
             fs_get (new_fs rf) F = Some (stdout rs)) /\
  (forall j, decrypt_plan w os = inr j -> sink_touched (snd (run_dec j)) = false -> new_fs rf = fs w) /\
  (is_success (status rs) = true -> fs_get (new_fs rf) F = Some (stdout rs)).
Proof.
  intros Hc Hi os rf rs. subst os rf rs. unfold Cli.cmd_decrypt, Cli.decrypt_plan.
  cbn [do_infile do_outfile do_to do_keyring do_env_pass]. rewrite (open_io_output_wiring w i F cp Hc Hi).
  match goal with |- context [stream_cmd w None ?pl ?rn ?fn] =>
    destruct (stream_out_wiring w pl rn fn F cp Hc) as (H1 & H2 & H3 & H4 & H5 & H6 & H7);
    repeat (split; [assumption|]); intros Hs;
    apply stream_success_touched in Hs;
      [destruct Hs as (j & Hp & Ht); exact (H6 j Hp Ht)
      | | exact (fun j a s' Er => key_decrypt_ok_touches _ _ _ _ _ Er)
      | intros j o; apply fin_dec_success] end.
  intros st Hst. apply (nosucc_decrypt_plan w {| do_infile := i; do_to := t; do_outfile := None; do_keyring := k; do_env_pass := e |}).
  exact Hst.
Qed.

Theorem pass_decrypt_output_wiring w i F cp e :
  fs_create_target (fs w) F = Some cp -> input_elsewhere (fs w) i cp ->
  let os := {| po_infile := i; po_outfile := None; po_env_pass := e |} in
  let rf := cmd_pass_decrypt w {| po_infile := i; po_outfile := Some F; po_env_pass := e |} in
  let rs := cmd_pass_decrypt w os in
  status rf = status rs /\ exit_code rf = exit_code rs /\ stdout rf = [] /\ new_fs rs = fs w /\
  (forall q, fs_target (fs w) q <> fs_target (fs w) F -> fs_get (new_fs rf) q = fs_get (fs w) q) /\
  (forall j, pass_decrypt_plan w os = inr j -> sink_touched (snd (run_pdec j)) = true ->
             fs_get (new_fs rf) F = Some (stdout rs)) /\
  (forall j, pass_decrypt_plan w os = inr j -> sink_touched (snd (run_pdec j)) = false -> new_fs rf = fs w) /\
  (is_success (status rs) = true -> fs_get (new_fs rf) F = Some (stdout rs)).
Proof.
  intros Hc Hi os rf rs. subst os rf rs. unfold Cli.cmd_pass_decrypt, pass_decrypt_plan.
  cbn [po_infile po_outfile po_env_pass]. rewrite (open_io_output_wiring w i F cp Hc Hi).
  match goal with |- context [stream_cmd w None ?pl ?rn ?fn] =>
    destruct (stream_out_wiring w pl rn fn F cp Hc) as (H1 & H2 & H3 & H4 & H5 & H6 & H7);
    repeat (split; [assumption|]); intros Hs;
    apply stream_success_touched in Hs;
      [destruct Hs as (j & Hp & Ht); exact (H6 j Hp Ht)
      | | exact (fun j a s' Er => pass_decrypt_ok_touches _ _ _ _ Er)
      | intros j o; apply fin_pdec_success] end.
  intros st Hst. apply (nosucc_pass_decrypt_plan w {| po_infile := i; po_outfile := None; po_env_pass := e |}).
  exact Hst.
Qed.

Theorem encrypt_output_wiring w i t f F cp k e fpk fe :
  fs_create_target (fs w) F = Some cp -> input_elsewhere (fs w) i cp ->
  let os := {| eo_infile := i; eo_to := t; eo_from := f; eo_outfile := None; eo_keyring := k; eo_env_pass := e |} in
  let rf := cmd_encrypt w {| eo_infile := i; eo_to := t; eo_from := f; eo_outfile := Some F; eo_keyring := k; eo_env_pass := e |} fpk fe in
  let rs := cmd_encrypt w os fpk fe in
  status rf = status rs /\ exit_code rf = exit_code rs /\ stdout rf = [] /\ new_fs rs = fs w /\
  (forall q, fs_target (fs w) q <> fs_target (fs w) F -> fs_get (new_fs rf) q = fs_get (fs w) q) /\
  (forall j, encrypt_plan w os = inr j -> sink_touched (snd (run_enc fpk fe j)) = true ->
             fs_get (new_fs rf) F = Some (stdout rs)) /\
  (forall j, encrypt_plan w os = inr j -> sink_touched (snd (run_enc fpk fe j)) = false -> new_fs rf = fs w) /\
  (is_success (status rs) = true -> fs_get (new_fs rf) F = Some (stdout rs)).
Proof.
  intros Hc Hi os rf rs. subst os rf rs. unfold Cli.cmd_encrypt, Cli.encrypt_plan.
  cbn [eo_infile eo_outfile eo_to eo_from eo_keyring eo_env_pass]. rewrite (open_io_output_wiring w i F cp Hc Hi).
  match goal with |- context [stream_cmd w None ?pl ?rn ?fn] =>
    destruct (stream_out_wiring w pl rn fn F cp Hc) as (H1 & H2 & H3 & H4 & H5 & H6 & H7);
    repeat (split; [assumption|]); intros Hs;
    apply stream_success_touched in Hs;
      [destruct Hs as (j & Hp & Ht); exact (H6 j Hp Ht)
      | | exact (fun j a s' Er => key_encrypt_ok_touches _ _ _ _ _ _ _ _ Er)
      | intros j o; apply fin_enc_success] end.
  intros st Hst. apply (nosucc_encrypt_plan w {| eo_infile := i; eo_to := t; eo_from := f; eo_outfile := None; eo_keyring := k; eo_env_pass := e |}).
  exact Hst.
Qed.

Theorem pass_encrypt_output_wiring w i F cp e salt :
  fs_create_target (fs w) F = Some cp -> input_elsewhere (fs w) i cp ->
  let os := {| po_infile := i; po_outfile := None; po_env_pass := e |} in
  let rf := cmd_pass_encrypt w {| po_infile := i; po_outfile := Some F; po_env_pass := e |} salt in
  let rs := cmd_pass_encrypt w os salt in
  status rf = status rs /\ exit_code rf = exit_code rs /\ stdout rf = [] /\ new_fs rs = fs w /\
  (forall q, fs_target (fs w) q <> fs_target (fs w) F -> fs_get (new_fs rf) q = fs_get (fs w) q) /\
  (forall j, pass_encrypt_plan w os salt = inr j -> sink_touched (snd (run_penc salt j)) = true ->
             fs_get (new_fs rf) F = Some (stdout rs)) /\
  (forall j, pass_encrypt_plan w os salt = inr j -> sink_touched (snd (run_penc salt j)) = false -> new_fs rf = fs w) /\
  (is_success (status rs) = true -> fs_get (new_fs rf) F = Some (stdout rs)).
Proof.
  intros Hc Hi os rf rs. subst os rf rs. unfold Cli.cmd_pass_encrypt, pass_encrypt_plan.
  cbn [po_infile po_outfile po_env_pass]. rewrite (open_io_output_wiring w i F cp Hc Hi).
  match goal with |- context [stream_cmd w None ?pl ?rn ?fn] =>
    destruct (stream_out_wiring w pl rn fn F cp Hc) as (H1 & H2 & H3 & H4 & H5 & H6 & H7);
    repeat (split; [assumption|]); intros Hs;
    apply stream_success_touched in Hs;
      [destruct Hs as (j & Hp & Ht); exact (H6 j Hp Ht)
      | | exact (fun j a s' Er => pass_encrypt_ok_touches _ _ _ _ _ Er)
      | intros j o; apply fin_enc_success] end.
  intros st Hst. apply (nosucc_pass_encrypt_plan w {| po_infile := i; po_outfile := None; po_env_pass := e |} salt).
  exact Hst.
Qed.

(** ** D.3 `-k K` or KESTREL_KEYRING = K (whatever the variable held when -k is given): identical results *)
Theorem decrypt_keyring_wiring fsy ep enp ek sin i t out K e :
  cmd_decrypt {| fs := fsy; env_password := ep; env_new_password := enp; env_keyring := ek; stdin := sin |}
              {| do_infile := i; do_to := t; do_outfile := out; do_keyring := Some K; do_env_pass := e |}
  = cmd_decrypt {| fs := fsy; env_password := ep; env_new_password := enp; env_keyring := Some K; stdin := sin |}
              {| do_infile := i; do_to := t; do_outfile := out; do_keyring := None; do_env_pass := e |}.
Proof. reflexivity. Qed.

Theorem encrypt_keyring_wiring fsy ep enp ek sin i t f out K e fpk fe :
  cmd_encrypt {| fs := fsy; env_password := ep; env_new_password := enp; env_keyring := ek; stdin := sin |}
              {| eo_infile := i; eo_to := t; eo_from := f; eo_outfile := out; eo_keyring := Some K; eo_env_pass := e |} fpk fe
  = cmd_encrypt {| fs := fsy; env_password := ep; env_new_password := enp; env_keyring := Some K; stdin := sin |}
              {| eo_infile := i; eo_to := t; eo_from := f; eo_outfile := out; eo_keyring := None; eo_env_pass := e |} fpk fe.
Proof. reflexivity. Qed.

(* the password commands do not read the keyring at all *)
Theorem pass_commands_ignore_keyring fsy ep enp ek ek' sin o salt :
  cmd_pass_decrypt {| fs := fsy; env_password := ep; env_new_password := enp; env_keyring := ek; stdin := sin |} o
  = cmd_pass_decrypt {| fs := fsy; env_password := ep; env_new_password := enp; env_keyring := ek'; stdin := sin |} o /\
  cmd_pass_encrypt {| fs := fsy; env_password := ep; env_new_password := enp; env_keyring := ek; stdin := sin |} o salt
  = cmd_pass_encrypt {| fs := fsy; env_password := ep; env_new_password := enp; env_keyring := ek'; stdin := sin |} o salt.
Proof. split; reflexivity. Qed.

(* ====================================================================================== *)
(** * E. The sender line                                                                   *)
(* ====================================================================================== *)
Lemma get_name_from_key_find : forall ks p,
  get_name_from_key ks p = option_map k_name (find (fun e => text_eqb (k_pub e) p) ks).
Proof.
  induction ks as [|k0 ks IH]; intros p; cbn [get_name_from_key find]; [reflexivity|].
  destruct (text_eqb (k_pub k0) p); [reflexivity | apply IH].
Qed.

(** After a successful decrypt the status names the FIRST keyring entry whose public-key string
    equals encode_pk(sender); the keyring came out of parse_config, so its public keys are pairwise
    different and that entry is the only one; with no such entry the status carries the encoded key. *)
Theorem sender_named w o : is_success (status (cmd_decrypt w o)) = true ->
  exists j sender s',
    decrypt_plan w o = inr j /\
    key_decrypt P (dj_r j) (dj_rpk j) (io0 (dec_fed j)) = (Ok sender, s') /\
    resolve_keyring w (do_keyring o) = inr (dj_keys j) /\
    status (cmd_decrypt w o) =
      match find (fun e => text_eqb (k_pub e) (encode_pk sender)) (dj_keys j) with
      | Some e => SOkFrom (k_name e)
      | None => SOkUnknownSender (encode_pk sender)
      end /\
    NoDup (map k_pub (dj_keys j)) /\ NoDup (map k_name (dj_keys j)) /\
    (forall e, In e (dj_keys j) -> k_pub e = encode_pk sender -> status (cmd_decrypt w o) = SOkFrom (k_name e)) /\
    ((forall e, In e (dj_keys j) -> k_pub e <> encode_pk sender) ->
     status (cmd_decrypt w o) = SOkUnknownSender (encode_pk sender)).
Proof.
  intros Hs. destruct (decrypt_success_delivers w o Hs) as (j & sender & s' & Hp & Er & _ & Hst & _).
  exists j, sender, s'. split; [exact Hp|]. split; [exact Er|].
  destruct (decrypt_plan_inv w o j Hp) as (rk & locked & pw & _ & _ & Hk & _). split; [exact Hk|].
  destruct (resolve_keyring_inv w _ _ Hk) as (path & data & txt & _ & _ & _ & Hparse).
  destruct (parse_names_nodup pk_ok sk_ok txt _ Hparse) as [N1 N2].
  rewrite Hst. unfold Cli.sender_status.
  split; [rewrite get_name_from_key_find; now destruct (find _ _)|].
  split; [exact N2|]. split; [exact N1|]. split.
  - intros e0 Hin He. rewrite <- He. now rewrite (get_name_unique _ e0 N2 Hin).
  - intros Hnone. assert (Hg : get_name_from_key (dj_keys j) (encode_pk sender) = None).
    { apply (proj2 (get_name_from_key_none pk_ok sk_ok _ _)). intros Hin. apply in_map_iff in Hin. destruct Hin as (e0 & He & Hin).
      exact (Hnone e0 Hin He). }
    now rewrite Hg.
Qed.

(* ====================================================================================== *)
(** * F. The tree: output that cannot be created, directory inputs, one file under two names *)
(* ====================================================================================== *)

(** ** F.0 whatever a streaming command does, every path string that does not denote the -o file shows what
    it showed before, no resolution target moves, and no node other than the -o file's changes *)
Lemma stream_other_paths {J E A} (w : world) (outfile : option text) (plan : pre J)
    (run : J -> outcome E A * io) (fin : J -> outcome E A -> cmd_status) :
  let r := stream_cmd w outfile plan run fin in
  (forall q, (forall F, outfile = Some F -> fs_target (fs w) q <> fs_target (fs w) F) ->
             fs_get (new_fs r) q = fs_get (fs w) q) /\
  (forall q, fs_target (new_fs r) q = fs_target (fs w) q) /\
  (forall cq, (forall F, outfile = Some F -> fs_create_target (fs w) F <> Some cq) ->
              node_at (new_fs r) cq = node_at (fs w) cq) /\
  cwd (new_fs r) = cwd (fs w).
Proof.
  intros r. subst r. destruct (stream_only_target w outfile plan run fin) as [->|(F & cp & c & Ho & Hc & ->)];
    [repeat split; reflexivity|].
  destruct (fs_create_target_inv _ _ _ Hc) as (Ht & Hn & _). split; [|split; [|split]].
  - intros q Hq. apply fs_get_set_other; [exact Hn|]. rewrite <- Ht. exact (Hq F Ho).
  - intros q. now apply fs_target_set_file.
  - intros cq Hq. apply node_at_set_other. intros ->. exact (Hq F Ho Hc).
  - reflexivity.
Qed.

(** ** F.1 the file named by -o cannot be created (fs_create_target = None: the path does not resolve — empty
    string, missing parent directory, a regular file used as a directory, trailing slash on something that is not
    a directory — or it names a directory): the command fails, nothing is created, nothing changes *)
Lemma stream_bad_output {J E A} (w : world) (F : text) (plan : pre J)
    (run : J -> outcome E A * io) (fin : J -> outcome E A -> cmd_status) :
  fs_create_target (fs w) F = None ->
  (forall st, plan = inl st -> is_success st = false) ->
  (forall j, plan = inr j -> is_success (fin j (fst (run j))) = false) ->
  let r := stream_cmd w (Some F) plan run fin in
  new_fs r = fs w /\ stdout r = [] /\ is_success (status r) = false /\ exit_code r <> 0.
Proof.
  intros Hc Hpl Hrun r. subst r. unfold stream_cmd. destruct plan as [st|j] eqn:Ep.
  - cbn. rewrite (Hpl st eq_refl). repeat split. intros H. apply code_of_zero in H. rewrite (Hpl st eq_refl) in H. discriminate.
  - cbn [stream_result mk_result new_fs stdout status exit_code out_stdout]. rewrite (out_fs_bad _ _ _ Hc).
    rewrite (Hrun j eq_refl). repeat split. intros H. apply code_of_zero in H. rewrite (Hrun j eq_refl) in H. discriminate.
Qed.

Lemma bad_of_ends w i F input dir bad alias : job_ends w i (Some F) input dir bad alias ->
  fs_create_target (fs w) F = None -> bad = true.
Proof.
  intros He Hc. destruct bad; [reflexivity|]. destruct (proj1 (job_ends_bad_iff _ _ _ _ _ _ _ He) eq_refl) as [cp H].
  congruence.
Qed.

Theorem encrypt_bad_output w o fpk fe F : eo_outfile o = Some F -> fs_create_target (fs w) F = None ->
  new_fs (cmd_encrypt w o fpk fe) = fs w /\ stdout (cmd_encrypt w o fpk fe) = [] /\
  is_success (status (cmd_encrypt w o fpk fe)) = false /\ exit_code (cmd_encrypt w o fpk fe) <> 0.
Proof.
  intros Ho Hc. unfold Cli.cmd_encrypt. rewrite Ho. apply stream_bad_output; [exact Hc|apply nosucc_encrypt_plan|].
  intros j Hp. destruct (encrypt_plan_inv w o j Hp) as (keys & rk & sk & locked & pw & _ & _ & _ & _ & _ & _ & _ & _ & _ & _ & He).
  rewrite Ho in He. pose proof (bad_of_ends _ _ _ _ _ _ _ He Hc) as Hb.
  destruct (run_enc fpk fe j) as [[a|e|t|] s'] eqn:Er; try reflexivity.
  destruct (run_enc_ok _ _ _ _ _ Er) as [_ H]. congruence.
Qed.

Theorem decrypt_bad_output w o F : do_outfile o = Some F -> fs_create_target (fs w) F = None ->
  new_fs (cmd_decrypt w o) = fs w /\ stdout (cmd_decrypt w o) = [] /\
  is_success (status (cmd_decrypt w o)) = false /\ exit_code (cmd_decrypt w o) <> 0.
Proof.
  intros Ho Hc. unfold Cli.cmd_decrypt. rewrite Ho. apply stream_bad_output; [exact Hc|apply nosucc_decrypt_plan|].
  intros j Hp. destruct (decrypt_plan_inv w o j Hp) as (rk & locked & pw & _ & _ & _ & _ & _ & _ & _ & _ & He).
  rewrite Ho in He. pose proof (bad_of_ends _ _ _ _ _ _ _ He Hc) as Hb.
  destruct (run_dec j) as [[a|e|t|] s'] eqn:Er; try reflexivity; [|now destruct e].
  destruct (run_dec_ok _ _ _ Er) as [_ H]. congruence.
Qed.

Theorem pass_encrypt_bad_output w o salt F : po_outfile o = Some F -> fs_create_target (fs w) F = None ->
  new_fs (cmd_pass_encrypt w o salt) = fs w /\ stdout (cmd_pass_encrypt w o salt) = [] /\
  is_success (status (cmd_pass_encrypt w o salt)) = false /\ exit_code (cmd_pass_encrypt w o salt) <> 0.
Proof.
  intros Ho Hc. unfold Cli.cmd_pass_encrypt. rewrite Ho. apply stream_bad_output; [exact Hc|apply nosucc_pass_encrypt_plan|].
  intros j Hp. destruct (pass_encrypt_plan_inv w o salt j Hp) as (_ & _ & _ & _ & He).
  rewrite Ho in He. pose proof (bad_of_ends _ _ _ _ _ _ _ He Hc) as Hb.
  destruct (run_penc salt j) as [[a|e|t|] s'] eqn:Er; try reflexivity.
  destruct (run_penc_ok _ _ _ _ Er) as [_ H]. congruence.
Qed.

Theorem pass_decrypt_bad_output w o F : po_outfile o = Some F -> fs_create_target (fs w) F = None ->
  new_fs (cmd_pass_decrypt w o) = fs w /\ stdout (cmd_pass_decrypt w o) = [] /\
  is_success (status (cmd_pass_decrypt w o)) = false /\ exit_code (cmd_pass_decrypt w o) <> 0.
Proof.
  intros Ho Hc. unfold Cli.cmd_pass_decrypt. rewrite Ho. apply stream_bad_output; [exact Hc|apply nosucc_pass_decrypt_plan|].
  intros j Hp. destruct (pass_decrypt_plan_inv w o j Hp) as (_ & _ & _ & He).
  rewrite Ho in He. pose proof (bad_of_ends _ _ _ _ _ _ _ He Hc) as Hb.
  destruct (run_pdec j) as [[a|e|t|] s'] eqn:Er; try reflexivity; [|now destruct e].
  destruct (run_pdec_ok _ _ _ Er) as [_ H]. congruence.
Qed.

(* key generate: -o names a directory ("Could not open output file") or a name that cannot be created (the io error of
   write_all): exit 1, nothing changes.  (A regular file or an absent name in an existing directory is written.) *)
Theorem gen_key_bad_output w o sk salt F : go_outfile o = Some F -> fs_create_target (fs w) F = None ->
  new_fs (cmd_gen_key w o sk salt) = fs w /\ stdout (cmd_gen_key w o sk salt) = [] /\
  is_success (status (cmd_gen_key w o sk salt)) = false /\ exit_code (cmd_gen_key w o sk salt) <> 0.
Proof.
  intros Ho Hc. assert (Hns : is_success (status (cmd_gen_key w o sk salt)) = false).
  { unfold Cli.cmd_gen_key. destruct (gen_plan w o sk salt) as [st|k] eqn:Ep; [exact (nosucc_gen_plan _ _ _ _ _ Ep)|].
    rewrite Ho. unfold Cli.gen_write. unfold fs_create_target in Hc.
    destruct (resolve (fs w) F) as [[cp [[c0|]|]]|]; try discriminate; reflexivity. }
  destruct (gen_key_failed_leaves_fs w o sk salt Hns) as [H1 H2]. repeat split; try assumption.
  intros H. apply (wf_exit_iff _ (gen_wf w o sk salt)) in H. congruence.
Qed.

(** ** F.2 the input path is a directory: File::open succeeds, the first read fails.  The two decryptors read
    first: nothing is written.  The two encryptors write their header first: with -o F (F can be created) the
    command fails with the read error, exit 1, and F holds exactly the header. *)
Definition is_dir (l : fsys) (p : text) : Prop := exists cp, resolve l p = Some (cp, Some NDir).

Lemma dir_of_ends w p o input dir bad alias : job_ends w (Some p) o input dir bad alias -> is_dir (fs w) p -> dir = true.
Proof.
  intros (cin & Hi & _) (cp & Hr). unfold open_input in Hi. rewrite Hr in Hi. now injection Hi as _ <- _.
Qed.

Theorem decrypt_dir_input w o p : do_infile o = Some p -> is_dir (fs w) p ->
  new_fs (cmd_decrypt w o) = fs w /\ stdout (cmd_decrypt w o) = [] /\
  is_success (status (cmd_decrypt w o)) = false /\
  (forall j, decrypt_plan w o = inr j ->
     status (cmd_decrypt w o) = SDecryptFailed (DIORead OtherErr) /\ exit_code (cmd_decrypt w o) = 1).
Proof.
  intros Hin Hd. unfold Cli.cmd_decrypt, stream_cmd. destruct (decrypt_plan w o) as [st|j] eqn:Ep.
  - cbn. rewrite (nosucc_decrypt_plan _ _ _ Ep). split; [reflexivity|]. split; [reflexivity|]. split; [reflexivity|]. intros j0 Hj. discriminate.
  - destruct (decrypt_plan_inv w o j Ep) as (rk & locked & pw & _ & _ & _ & _ & _ & _ & _ & _ & He).
    rewrite Hin in He. pose proof (dir_of_ends _ _ _ _ _ _ _ He Hd) as Hdir.
    pose proof (run_dec_eq j) as Er. rewrite Hdir in Er.
    destruct (key_decrypt_dir P (dj_r j) (dj_rpk j) _ (job_io_dir_reader (dec_fed j) (dj_bad j))) as (s' & Ek & Hw & Ht).
    rewrite Ek in Er. cbn [stream_result mk_result new_fs stdout status exit_code]. rewrite Er. cbn [fst snd].
    rewrite job_io_untouched in Ht. rewrite (out_fs_untouched _ _ _ Ht).
    split; [reflexivity|]. split.
    { unfold out_stdout. destruct (do_outfile o); [reflexivity|]. now rewrite Hw. }
    split; [reflexivity|]. intros j' _. split; reflexivity.
Qed.

Theorem pass_decrypt_dir_input w o p : po_infile o = Some p -> is_dir (fs w) p ->
  new_fs (cmd_pass_decrypt w o) = fs w /\ stdout (cmd_pass_decrypt w o) = [] /\
  is_success (status (cmd_pass_decrypt w o)) = false /\
  (forall j, pass_decrypt_plan w o = inr j ->
     status (cmd_pass_decrypt w o) = SDecryptFailed (DIORead OtherErr) /\ exit_code (cmd_pass_decrypt w o) = 1).
Proof.
  intros Hin Hd. unfold Cli.cmd_pass_decrypt, stream_cmd. destruct (pass_decrypt_plan w o) as [st|j] eqn:Ep.
  - cbn. rewrite (nosucc_pass_decrypt_plan _ _ _ Ep). split; [reflexivity|]. split; [reflexivity|]. split; [reflexivity|]. intros j0 Hj. discriminate.
  - destruct (pass_decrypt_plan_inv w o j Ep) as (_ & _ & _ & He).
    rewrite Hin in He. pose proof (dir_of_ends _ _ _ _ _ _ _ He Hd) as Hdir.
    pose proof (run_pdec_eq j) as Er. rewrite Hdir in Er.
    destruct (pass_decrypt_dir P (pj_pw j) _ (job_io_dir_reader (pdec_fed j) (pj_bad j))) as (s' & Ek & Hw & Ht).
    rewrite Ek in Er. cbn [stream_result mk_result new_fs stdout status exit_code]. rewrite Er. cbn [fst snd].
    rewrite job_io_untouched in Ht. rewrite (out_fs_untouched _ _ _ Ht).
    split; [reflexivity|]. split.
    { unfold out_stdout. destruct (po_outfile o); [reflexivity|]. now rewrite Hw. }
    split; [reflexivity|]. intros j' _. split; reflexivity.
Qed.

(* password encrypt: the 36-byte header (magic, salt) is what F holds afterwards — a new file, or the former
   content of F replaced by it *)
Theorem pass_encrypt_dir_input w o salt p F cp j :
  po_infile o = Some p -> is_dir (fs w) p -> po_outfile o = Some F -> fs_create_target (fs w) F = Some cp ->
  pass_encrypt_plan w o salt = inr j ->
  let r := cmd_pass_encrypt w o salt in
  status r = SEncryptFailed (EIORead OtherErr) /\ exit_code r = 1 /\ stdout r = [] /\
  fs_get (new_fs r) F = Some (x_pass_file_magic ++ salt) /\
  (forall q, fs_target (fs w) q <> fs_target (fs w) F -> fs_get (new_fs r) q = fs_get (fs w) q) /\
  (forall cq, cq <> cp -> node_at (new_fs r) cq = node_at (fs w) cq).
Proof.
  intros Hin Hd Ho Hc Ep r. subst r.
  destruct (pass_encrypt_plan_inv w o salt j Ep) as (_ & _ & _ & _ & He).
  rewrite Hin in He. pose proof (dir_of_ends _ _ _ _ _ _ _ He Hd) as Hdir.
  rewrite Ho in He. assert (Hb : pj_bad j = false) by (apply (job_ends_bad_iff _ _ _ _ _ _ _ He); eauto).
  pose proof (run_penc_eq salt j) as Er. rewrite Hdir, Hb in Er.
  destruct (pass_encrypt_dir P (pj_pw j) salt _ (job_io_dir_reader (penc_fed salt j) false) (job_io_writer_ok _ _))
    as (s' & Ek & Hw & Ht).
  rewrite Ek in Er. cbn [job_io mk_io wtr w_out app] in Hw.
  assert (Ht' : sink_touched (snd (run_penc salt j)) = true) by (rewrite Er; exact Ht).
  destruct (pass_encrypt_late_failure_keeps_prefix w o salt j F cp Ep Ho Hc Ht') as (H1 & H2 & H3 & H4).
  rewrite Er in H1, H4. cbn [fst snd] in H1, H4. destruct (H4 _ eq_refl) as [H5 H6].
  rewrite Hw in H1. split; [exact H6|]. split; [exact H5|]. split.
  { unfold Cli.cmd_pass_encrypt, stream_cmd. rewrite Ep. cbn. now rewrite Ho. }
  split; [exact H1|]. split; [exact H2 | exact H3].
Qed.

(* encrypt: the 4-byte prologue and the handshake message *)
Theorem encrypt_dir_input w o fpk fe p F cp j msg hh :
  eo_infile o = Some p -> is_dir (fs w) p -> eo_outfile o = Some F -> fs_create_target (fs w) F = Some cp ->
  encrypt_plan w o = inr j -> length fpk = 32%nat ->
  noise_encrypt P fe (ej_s j) (ej_spk j) (ej_r j) None None x_prologue fpk = Ok (msg, hh) ->
  let r := cmd_encrypt w o fpk fe in
  status r = SEncryptFailed (EIORead OtherErr) /\ exit_code r = 1 /\ stdout r = [] /\
  fs_get (new_fs r) F = Some (x_prologue ++ msg) /\
  (forall q, fs_target (fs w) q <> fs_target (fs w) F -> fs_get (new_fs r) q = fs_get (fs w) q) /\
  (forall cq, cq <> cp -> node_at (new_fs r) cq = node_at (fs w) cq).
Proof.
  intros Hin Hd Ho Hc Ep Hl Hn r. subst r.
  destruct (encrypt_plan_inv w o j Ep) as (keys & rk & sk & locked & pw & _ & _ & _ & _ & _ & _ & _ & _ & _ & _ & He).
  rewrite Hin in He. pose proof (dir_of_ends _ _ _ _ _ _ _ He Hd) as Hdir.
  rewrite Ho in He. assert (Hb : ej_bad j = false) by (apply (job_ends_bad_iff _ _ _ _ _ _ _ He); eauto).
  pose proof (run_enc_eq fpk fe j) as Er. rewrite Hdir, Hb in Er.
  destruct (key_encrypt_dir P fpk fe (ej_s j) (ej_spk j) (ej_r j) _ msg hh
              (job_io_dir_reader (enc_fed fpk fe j) false) (job_io_writer_ok _ _) Hl Hn) as (s' & Ek & Hw & Ht).
  rewrite Ek in Er. cbn [job_io mk_io wtr w_out app] in Hw.
  assert (Ht' : sink_touched (snd (run_enc fpk fe j)) = true) by (rewrite Er; exact Ht).
  destruct (encrypt_late_failure_keeps_prefix w o fpk fe j F cp Ep Ho Hc Ht') as (H1 & H2 & H3 & H4).
  rewrite Er in H1, H4. cbn [fst snd] in H1, H4. destruct (H4 _ eq_refl) as [H5 H6].
  rewrite Hw in H1. split; [exact H6|]. split; [exact H5|]. split.
  { unfold Cli.cmd_encrypt, stream_cmd. rewrite Ep. cbn. now rewrite Ho. }
  split; [exact H1|]. split; [exact H2 | exact H3].
Qed.

(* in every case a directory input makes the command fail *)
Theorem dir_input_fails :
  (forall w o fpk fe p, eo_infile o = Some p -> is_dir (fs w) p -> is_success (status (cmd_encrypt w o fpk fe)) = false) /\
  (forall w o p, do_infile o = Some p -> is_dir (fs w) p -> is_success (status (cmd_decrypt w o)) = false) /\
  (forall w o salt p, po_infile o = Some p -> is_dir (fs w) p -> is_success (status (cmd_pass_encrypt w o salt)) = false) /\
  (forall w o p, po_infile o = Some p -> is_dir (fs w) p -> is_success (status (cmd_pass_decrypt w o)) = false).
Proof.
  split; [|split; [|split]].
  - intros w o fpk fe p Hin Hd. destruct (is_success (status (cmd_encrypt w o fpk fe))) eqn:Hs; [|reflexivity]. exfalso.
    unfold Cli.cmd_encrypt in Hs. apply stream_success in Hs; [|apply nosucc_encrypt_plan]. destruct Hs as (j & Hp & Hs).
    destruct (encrypt_plan_inv w o j Hp) as (keys & rk & sk & locked & pw & _ & _ & _ & _ & _ & _ & _ & _ & _ & _ & He).
    rewrite Hin in He. pose proof (dir_of_ends _ _ _ _ _ _ _ He Hd) as Hdir.
    destruct (run_enc fpk fe j) as [[a|e|t|] s'] eqn:Er; try discriminate.
    destruct (run_enc_ok _ _ _ _ _ Er) as [H _]. congruence.
  - intros w o p Hin Hd. now destruct (decrypt_dir_input w o p Hin Hd) as (_ & _ & H & _).
  - intros w o salt p Hin Hd. destruct (is_success (status (cmd_pass_encrypt w o salt))) eqn:Hs; [|reflexivity]. exfalso.
    unfold Cli.cmd_pass_encrypt in Hs. apply stream_success in Hs; [|apply nosucc_pass_encrypt_plan]. destruct Hs as (j & Hp & Hs).
    destruct (pass_encrypt_plan_inv w o salt j Hp) as (_ & _ & _ & _ & He).
    rewrite Hin in He. pose proof (dir_of_ends _ _ _ _ _ _ _ He Hd) as Hdir.
    destruct (run_penc salt j) as [[a|e|t|] s'] eqn:Er; try discriminate.
    destruct (run_penc_ok _ _ _ _ Er) as [H _]. congruence.
  - intros w o p Hin Hd. now destruct (pass_decrypt_dir_input w o p Hin Hd) as (_ & _ & H & _).
Qed.

(** ** F.3 one file under two names.  The program compares the two argument STRINGS; the world identifies a
    file by its canonical path.  POSITIVE: when the input path and the -o path do not denote the same file, the
    input file is what it was, after every command, whatever its outcome. *)
Theorem input_file_survives :
  (forall w o fpk fe p, eo_infile o = Some p -> other_file (fs w) (eo_outfile o) p ->
     fs_get (new_fs (cmd_encrypt w o fpk fe)) p = fs_get (fs w) p) /\
  (forall w o p, do_infile o = Some p -> other_file (fs w) (do_outfile o) p ->
     fs_get (new_fs (cmd_decrypt w o)) p = fs_get (fs w) p) /\
  (forall w o salt p, po_infile o = Some p -> other_file (fs w) (po_outfile o) p ->
     fs_get (new_fs (cmd_pass_encrypt w o salt)) p = fs_get (fs w) p) /\
  (forall w o p, po_infile o = Some p -> other_file (fs w) (po_outfile o) p ->
     fs_get (new_fs (cmd_pass_decrypt w o)) p = fs_get (fs w) p).
Proof.
  split; [|split; [|split]].
  - intros w o fpk fe p _ Ho. apply (stream_other_paths w (eo_outfile o)). intros F HF H. exact (Ho F HF (eq_sym H)).
  - intros w o p _ Ho. apply (stream_other_paths w (do_outfile o)). intros F HF H. exact (Ho F HF (eq_sym H)).
  - intros w o salt p _ Ho. apply (stream_other_paths w (po_outfile o)). intros F HF H. exact (Ho F HF (eq_sym H)).
  - intros w o p _ Ho. apply (stream_other_paths w (po_outfile o)). intros F HF H. exact (Ho F HF (eq_sym H)).
Qed.

(* when the job says "one file": the two strings differ, both denote the same regular file *)
Lemma alias_of_ends w p F input dir bad alias : job_ends w (Some p) (Some F) input dir bad alias -> alias = true ->
  fs_get (fs w) p = Some input /\ fs_target (fs w) p = fs_target (fs w) F /\
  exists cp, fs_create_target (fs w) F = Some cp /\ dir = false /\ bad = false.
Proof.
  intros (cin & Hi & -> & ->) Ha. apply open_input_inv in Hi. destruct Hi as (cp & -> & Ht & Hcase).
  unfold same_file, open_sink in *. destruct (fs_create_target (fs w) F) as [cq|] eqn:Ec; [|discriminate].
  apply cpath_eqb_eq in Ha. subst cq. destruct (fs_create_target_inv _ _ _ Ec) as (HtF & Hn & _).
  destruct Hcase as [[-> Hg]|(-> & -> & Hr)].
  - split; [exact Hg|]. split; [now rewrite Ht, HtF|]. exists cp. auto.
  - exfalso. apply Hn. exact (resolve_node _ _ _ _ Hr).
Qed.

End Cmds.

(* ====================================================================================== *)
(** * Examples (stub dependencies of Model/CliStubs.v, by computation)                      *)
(* ====================================================================================== *)

(* the world: "in" = [1;2;3], "out" = [9;9;9] (an existing output file), "kr" = a keyring with key "a" *)

(* failing before the library (password variable unset): "out" and everything else intact, exit 1 *)
Example ex_fail_early :
  let r := s_cmd_pass_decrypt (ex_world None)
             {| po_infile := Some p_in; po_outfile := Some p_out; po_env_pass := true |} in
  exit_code r = 1 /\ status r = SEnvPassUnset /\ new_fs r = fs (ex_world None) /\
  fs_get (new_fs r) p_out = Some old_content.
Proof. vm_compute. repeat split. Qed.

(* the library fails before its first write (input is not a kestrel file): "out" intact, exit 1 *)
Example ex_fail_header :
  let r := s_cmd_pass_decrypt (ex_world (Some [112]))
             {| po_infile := Some p_in; po_outfile := Some p_out; po_env_pass := true |} in
  exit_code r = 1 /\ status r = SDecryptFailed (DIORead OtherErr) /\ new_fs r = fs (ex_world (Some [112])).
Proof. vm_compute. repeat split. Qed.

(* wrong password on a real ciphertext: authentication of the first chunk fails, "out" intact, exit 1 *)
Example ex_fail_wrong_password :
  let r := s_cmd_pass_decrypt (ex_world_ct (Some [113]))
             {| po_infile := Some p_ct; po_outfile := Some p_out; po_env_pass := true |} in
  exit_code r = 1 /\ status r = SPassDecryptAuth /\ new_fs r = fs (ex_world_ct (Some [113])) /\
  fs_get (new_fs r) p_out = Some old_content.
Proof. vm_compute. repeat split. Qed.

(* same in and out path: refused, nothing touched *)
Example ex_fail_same_path :
  let r := s_cmd_pass_encrypt (ex_world (Some [112]))
             {| po_infile := Some p_in; po_outfile := Some p_in; po_env_pass := true |} (zeros 32) in
  exit_code r = 1 /\ status r = SInputOutputSame /\ new_fs r = fs (ex_world (Some [112])).
Proof. vm_compute. repeat split. Qed.

(* success: "out" is REPLACED by the plaintext, exit 0 *)
Example ex_success_replaces :
  let r := s_cmd_pass_decrypt (ex_world_ct (Some [112]))
             {| po_infile := Some p_ct; po_outfile := Some p_out; po_env_pass := true |} in
  exit_code r = 0 /\ status r = SOk /\ fs_get (new_fs r) p_out = Some plain /\
  fs_get (new_fs r) p_in = Some plain /\ fs_get (new_fs r) p_kr = Some kr_text.
Proof. vm_compute. repeat split. Qed.

(* the same decryption to stdout: same bytes, file system untouched *)
Example ex_success_stdout :
  let r := s_cmd_pass_decrypt (ex_world_ct (Some [112]))
             {| po_infile := Some p_ct; po_outfile := None; po_env_pass := true |} in
  exit_code r = 0 /\ stdout r = plain /\ new_fs r = fs (ex_world_ct (Some [112])).
Proof. vm_compute. repeat split. Qed.

(* key mode round trip through a keyring found via KESTREL_KEYRING: the sender is named *)
Example ex_key_round_trip :
  let r := s_cmd_decrypt ex_world_kct
             {| do_infile := Some p_ct; do_to := [97]; do_outfile := Some p_out; do_keyring := None;
                do_env_pass := true |} in
  exit_code r = 0 /\ status r = SOkFrom [97] /\ fs_get (new_fs r) p_out = Some plain.
Proof. vm_compute. repeat split. Qed.

(* unknown recipient: nothing touched *)
Example ex_key_not_found :
  let r := s_cmd_decrypt ex_world_kct
             {| do_infile := Some p_ct; do_to := [98]; do_outfile := Some p_out; do_keyring := None;
                do_env_pass := true |} in
  exit_code r = 1 /\ status r = SKeyNotFound /\ new_fs r = fs ex_world_kct.
Proof. vm_compute. repeat split. Qed.

(* key generate into the existing keyring: the old key is kept, "\n" ++ new key appended,
   and the file still parses, now with two keys *)
Example ex_gen_appends :
  let r := s_cmd_gen_key ex_gen_world ex_gen_opts (zeros 32) (zeros 32) in
  exit_code r = 0 /\
  fs_get (new_fs r) p_kr = Some (kr_text_q ++ [c_nl] ++ serialize_key [98; 111; 98] [80] [83]) /\
  parse_config stub_ok stub_ok (kr_text_q ++ [c_nl] ++ serialize_key [98; 111; 98] [80] [83])
  = Ok [mk_entry [97] [81] (Some [83]); mk_entry [98; 111; 98] [80] (Some [83])].
Proof. vm_compute. repeat split. Qed.

(** the code before the repair loses the existing key: there is a world with a keyring file F whose
    content is NOT a prefix of F's content after a successful `key generate -o F` — while the
    repaired command, in the same world, keeps it. *)
Theorem gen_key_legacy_refuted :
  exists (w : world) (o : gen_opts) (sk salt : bytes) (F : text) (c0 : bytes),
    go_outfile o = Some F /\ fs_get (fs w) F = Some c0 /\
    status (s_gen_key_legacy w o sk salt) = SOk /\
    (forall c1, fs_get (new_fs (s_gen_key_legacy w o sk salt)) F = Some c1 -> ~ bprefix c0 c1) /\
    (exists c1, fs_get (new_fs (s_cmd_gen_key w o sk salt)) F = Some c1 /\ bprefix c0 c1).
Proof.
  exists ex_gen_world, ex_gen_opts, (zeros 32), (zeros 32), p_kr, kr_text_q.
  split; [reflexivity|]. split; [reflexivity|]. split; [vm_compute; reflexivity|]. split.
  - intros c1 Hc. vm_compute in Hc. injection Hc as <-. intros [t Ht]. vm_compute in Ht. discriminate.
  - eexists. split; [vm_compute; reflexivity|]. eexists. vm_compute. reflexivity.
Qed.

Print Assumptions failed_command_leaves_fs.
Print Assumptions plan_failure_leaves_fs.
Print Assumptions decrypt_no_write_leaves_fs.
Print Assumptions pass_decrypt_no_write_leaves_fs.
Print Assumptions encrypt_no_write_leaves_fs.
Print Assumptions pass_encrypt_no_write_leaves_fs.
Print Assumptions decrypt_late_failure_keeps_prefix.
Print Assumptions pass_decrypt_late_failure_keeps_prefix.
Print Assumptions encrypt_late_failure_keeps_prefix.
Print Assumptions pass_encrypt_late_failure_keeps_prefix.
Print Assumptions gen_preserves_prefix.
Print Assumptions gen_history_content.
Print Assumptions gen_history_prefix.
Print Assumptions gen_history_entries.
Print Assumptions gen_history_reads_back_fresh.
Print Assumptions gen_history_reads_back_existing.
Print Assumptions gen_history_reads_back_empty.
Print Assumptions gen_key_legacy_forgets.
Print Assumptions gen_key_legacy_refuted.
Print Assumptions exit_iff_ok.
Print Assumptions exit_code_of_status.
Print Assumptions key_decrypt_ok_touches.
Print Assumptions pass_decrypt_ok_touches.
Print Assumptions key_encrypt_ok_touches.
Print Assumptions pass_encrypt_ok_touches.
Print Assumptions decrypt_success_delivers.
Print Assumptions pass_decrypt_success_delivers.
Print Assumptions decrypt_input_wiring.
Print Assumptions pass_decrypt_input_wiring.
Print Assumptions encrypt_input_wiring.
Print Assumptions pass_encrypt_input_wiring.
Print Assumptions decrypt_output_wiring.
Print Assumptions pass_decrypt_output_wiring.
Print Assumptions encrypt_output_wiring.
Print Assumptions pass_encrypt_output_wiring.
Print Assumptions decrypt_keyring_wiring.
Print Assumptions encrypt_keyring_wiring.
Print Assumptions sender_named.
Print Assumptions encrypt_bad_output.
Print Assumptions decrypt_bad_output.
Print Assumptions pass_encrypt_bad_output.
Print Assumptions pass_decrypt_bad_output.
Print Assumptions gen_key_bad_output.
Print Assumptions decrypt_dir_input.
Print Assumptions pass_decrypt_dir_input.
Print Assumptions pass_encrypt_dir_input.
Print Assumptions encrypt_dir_input.
Print Assumptions dir_input_fails.
Print Assumptions input_file_survives.
