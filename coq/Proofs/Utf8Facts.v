(* Proofs/Utf8Facts.v — the laws of the concrete UTF-8 codec of Model/Utf8.v:
     encoding is a monoid morphism; strict decoding inverts encoding on texts of scalar values; decoding accepts
     ONLY canonical encodings of scalar values (so the two functions are mutually inverse bijections between
     texts of scalar values and the byte strings the decoder accepts); encoded texts are byte strings; the
     encoded length is KeyringText.utf8_len (str::len). *)
From Kestrel Require Import Bytes BytesFacts.
From Kestrel.Model Require Import KeyringText Utf8.
From Coq Require Import ZifyBool ZifyNat ZifyN.
Ltac Zify.zify_post_hook ::= Z.div_mod_to_equations.
Local Open Scope N_scope.

Lemma scalar_okb_iff c : scalar_okb c = true <-> scalar_ok c.
Proof. unfold scalar_okb, scalar_ok. lia. Qed.

(* decide the condition of one [if] of the goal by arithmetic *)
Ltac if_step :=
  match goal with
  | |- context [if ?b then _ else _] =>
      first [ replace b with true by lia | replace b with false by lia ]
  end; cbv iota.

(* ---------- encoding ---------- *)
Theorem utf8_encode_app a b : utf8_encode (a ++ b) = utf8_encode a ++ utf8_encode b.
Proof. apply flat_map_app. Qed.

Lemma utf8_encode_nil : utf8_encode [] = [].
Proof. reflexivity. Qed.

Lemma utf8_encode_cons c t : utf8_encode (c :: t) = utf8_char c ++ utf8_encode t.
Proof. reflexivity. Qed.

Lemma utf8_char_length c : length (utf8_char c) = N.to_nat (utf8_char_len c).
Proof.
  unfold utf8_char, utf8_char_len.
  destruct (c <? 128); [reflexivity|]. destruct (c <? 2048); [reflexivity|].
  destruct (c <? 65536); reflexivity.
Qed.

(* the byte length of the encoding is the sum of the per-char lengths 1 / 2 / 3 / 4: str::len *)
Theorem utf8_encode_length t : N.of_nat (length (utf8_encode t)) = utf8_len t.
Proof.
  induction t as [|c t IH]; [reflexivity|].
  rewrite utf8_encode_cons, app_length, utf8_char_length. cbn [utf8_len]. lia.
Qed.

Lemma utf8_char_len_cases c :
  utf8_char_len c = 1 /\ c < 128 \/ utf8_char_len c = 2 /\ 128 <= c < 2048 \/
  utf8_char_len c = 3 /\ 2048 <= c < 65536 \/ utf8_char_len c = 4 /\ 65536 <= c.
Proof.
  unfold utf8_char_len.
  destruct (c <? 128) eqn:E1; [lia|]. destruct (c <? 2048) eqn:E2; [lia|].
  destruct (c <? 65536) eqn:E3; lia.
Qed.

Lemma utf8_char_bytes_ok c : c <= 1114111 -> bytes_ok (utf8_char c).
Proof.
  intros Hc. unfold bytes_ok, utf8_char.
  destruct (c <? 128) eqn:E1; [repeat constructor; lia|].
  destruct (c <? 2048) eqn:E2; [repeat constructor; lia|].
  destruct (c <? 65536) eqn:E3; repeat constructor; lia.
Qed.

Lemma scalar_ok_le c : scalar_ok c -> c <= 1114111.
Proof. unfold scalar_ok. lia. Qed.

Theorem utf8_encode_bytes_ok t : Forall scalar_ok t -> bytes_ok (utf8_encode t).
Proof.
  induction 1 as [|c t Hc _ IH]; [constructor|].
  rewrite utf8_encode_cons. apply Forall_app. split; [apply utf8_char_bytes_ok, scalar_ok_le, Hc | exact IH].
Qed.

(* ---------- decoding inverts encoding ---------- *)
Lemma utf8_decode_char c r : scalar_ok c ->
  utf8_decode (utf8_char c ++ r) = option_map (cons c) (utf8_decode r).
Proof.
  unfold scalar_ok, utf8_char. intros Hc.
  destruct (c <? 128) eqn:E1.
  { cbn [app utf8_decode]. rewrite E1. reflexivity. }
  destruct (c <? 2048) eqn:E2.
  { cbn [app utf8_decode]. unfold cont. do 3 if_step.
    replace ((192 + c / 64 - 192) * 64 + (128 + c mod 64 - 128)) with c by lia. reflexivity. }
  destruct (c <? 65536) eqn:E3.
  { cbn [app utf8_decode]. unfold cont. do 4 if_step.
    replace ((224 + c / 4096 - 224) * 4096 + (128 + (c / 64) mod 64 - 128) * 64 + (128 + c mod 64 - 128))
      with c by lia.
    reflexivity. }
  cbn [app utf8_decode]. unfold cont. do 5 if_step.
  replace ((240 + c / 262144 - 240) * 262144 + (128 + (c / 4096) mod 64 - 128) * 4096
           + (128 + (c / 64) mod 64 - 128) * 64 + (128 + c mod 64 - 128)) with c by lia.
  reflexivity.
Qed.

Theorem utf8_decode_encode t : Forall scalar_ok t -> utf8_decode (utf8_encode t) = Some t.
Proof.
  induction 1 as [|c t Hc _ IH]; [reflexivity|].
  rewrite utf8_encode_cons, (utf8_decode_char c _ Hc), IH. reflexivity.
Qed.

(* ---------- strictness: only canonical encodings of scalar values are accepted ---------- *)
Lemma option_map_cons_some (c : N) (o : option text) t :
  option_map (cons c) o = Some t -> exists t', o = Some t' /\ t = c :: t'.
Proof. destruct o as [t'|]; [|discriminate]. intros [= <-]. now exists t'. Qed.

Lemma utf8_decode_inv : forall n b t, (length b <= n)%nat -> utf8_decode b = Some t ->
  utf8_encode t = b /\ Forall scalar_ok t.
Proof.
  induction n as [|n IH]; intros b t Hl H.
  { destruct b; [|cbn [length] in Hl; lia]. injection H as <-. split; [reflexivity|constructor]. }
  destruct b as [|b0 r]. { injection H as <-. split; [reflexivity|constructor]. }
  cbn [utf8_decode] in H. cbn [length] in Hl.
  destruct (b0 <? 128) eqn:E1.
  { apply option_map_cons_some in H. destruct H as (t' & Hr & ->).
    destruct (IH r t' ltac:(lia) Hr) as [He Hs].
    split; [|constructor; [unfold scalar_ok; lia|exact Hs]].
    rewrite utf8_encode_cons, He. unfold utf8_char. rewrite E1. reflexivity. }
  destruct ((194 <=? b0) && (b0 <=? 223)) eqn:E2.
  { destruct r as [|b1 r']; [discriminate|]. cbn [length] in Hl. unfold cont in H.
    destruct ((128 <=? b1) && (b1 <=? 191)) eqn:C1; [|discriminate].
    apply option_map_cons_some in H. destruct H as (t' & Hr & ->).
    destruct (IH r' t' ltac:(lia) Hr) as [He Hs].
    split; [|constructor; [unfold scalar_ok; lia|exact Hs]].
    rewrite utf8_encode_cons, He. unfold utf8_char. do 2 if_step. cbn [app]. f_equal; [lia|]. f_equal. lia. }
  destruct ((224 <=? b0) && (b0 <=? 239)) eqn:E3.
  { destruct r as [|b1 [|b2 r']]; [discriminate|discriminate|]. cbn [length] in Hl. unfold cont in H. cbv zeta in H.
    match type of H with (if ?c then _ else _) = _ => destruct c eqn:C1; [|discriminate] end.
    apply option_map_cons_some in H. destruct H as (t' & Hr & ->).
    destruct (IH r' t' ltac:(lia) Hr) as [He Hs].
    split; [|constructor; [unfold scalar_ok; lia|exact Hs]].
    rewrite utf8_encode_cons, He. unfold utf8_char. do 3 if_step. cbn [app].
    f_equal; [lia|]. f_equal; [lia|]. f_equal. lia. }
  destruct ((240 <=? b0) && (b0 <=? 244)) eqn:E4; [|discriminate].
  destruct r as [|b1 [|b2 [|b3 r']]]; [discriminate|discriminate|discriminate|]. cbn [length] in Hl.
  unfold cont in H. cbv zeta in H.
  match type of H with (if ?c then _ else _) = _ => destruct c eqn:C1; [|discriminate] end.
  apply option_map_cons_some in H. destruct H as (t' & Hr & ->).
  destruct (IH r' t' ltac:(lia) Hr) as [He Hs].
  split; [|constructor; [unfold scalar_ok; lia|exact Hs]].
  rewrite utf8_encode_cons, He. unfold utf8_char. do 3 if_step. cbn [app].
  f_equal; [lia|]. f_equal; [lia|]. f_equal; [lia|]. f_equal. lia.
Qed.

Theorem utf8_encode_decode b t : utf8_decode b = Some t -> utf8_encode t = b /\ Forall scalar_ok t.
Proof. exact (utf8_decode_inv (length b) b t (le_n _)). Qed.

(* ---------- corollaries ---------- *)
Corollary utf8_decode_iff b t : utf8_decode b = Some t <-> utf8_encode t = b /\ Forall scalar_ok t.
Proof.
  split; [apply utf8_encode_decode|]. intros [<- Hs]. now apply utf8_decode_encode.
Qed.

Corollary utf8_decode_scalar b t : utf8_decode b = Some t -> Forall scalar_ok t.
Proof. intros H. exact (proj2 (utf8_encode_decode b t H)). Qed.

Corollary utf8_decode_bytes_ok b t : utf8_decode b = Some t -> bytes_ok b.
Proof. intros H. destruct (utf8_encode_decode b t H) as [<- Hs]. now apply utf8_encode_bytes_ok. Qed.

Corollary utf8_encode_inj a b : Forall scalar_ok a -> Forall scalar_ok b -> utf8_encode a = utf8_encode b -> a = b.
Proof.
  intros Ha Hb E. apply utf8_decode_encode in Ha, Hb. rewrite E in Ha. congruence.
Qed.

Corollary utf8_decode_inj a b t : utf8_decode a = Some t -> utf8_decode b = Some t -> a = b.
Proof. intros Ha Hb. apply utf8_encode_decode in Ha, Hb. destruct Ha as [<- _], Hb as [<- _]. reflexivity. Qed.

Corollary utf8_decode_app a b ta tb : utf8_decode a = Some ta -> utf8_decode b = Some tb ->
  utf8_decode (a ++ b) = Some (ta ++ tb).
Proof.
  intros Ha Hb. apply utf8_encode_decode in Ha, Hb. destruct Ha as [<- Sa], Hb as [<- Sb].
  rewrite <- utf8_encode_app. apply utf8_decode_encode, Forall_app. now split.
Qed.

(* the length of an accepted byte string is str::len of the decoded text *)
Corollary utf8_decode_length b t : utf8_decode b = Some t -> N.of_nat (length b) = utf8_len t.
Proof. intros H. destruct (utf8_encode_decode b t H) as [<- _]. apply utf8_encode_length. Qed.

(* every byte < 128 is a one-char text; ASCII texts are scalar *)
Lemma ascii_scalar_ok t : Forall (fun c => c < 128) t -> Forall scalar_ok t.
Proof. apply Forall_impl. intros c Hc. unfold scalar_ok. lia. Qed.

Print Assumptions utf8_encode_app.
Print Assumptions utf8_decode_encode.
Print Assumptions utf8_encode_decode.
Print Assumptions utf8_encode_bytes_ok.
Print Assumptions utf8_encode_length.
Print Assumptions utf8_decode_iff.
