(* Proofs/ChunksOpen.v — decrypt_chunks writes nothing before an AEAD open has succeeded:
   for EVERY io state and script, a run either contains a successful open under the key, or it ends
   in an error with the sink untouched (no write, no flush).  Corollary: a key under which no open
   succeeds (wrong password / wrong recipient) is rejected and nothing is written. *)
From Kestrel Require Import Bytes BytesFacts Outcome IO IOFacts Prims.
From Kestrel.Model Require Import AeadWrap Chunks EventPreds.
From Kestrel.Proofs Require Import MonadFacts ChunksDec ChunksAuth.
From Coq Require Import ZifyBool ZifyNat ZifyN.
Local Open Scope N_scope.

Lemma read_ev_no_out e : is_read_ev e -> no_out_ev e.
Proof. destruct e; cbn; auto. Qed.
Lemma read_evs_no_out d : Forall is_read_ev d -> Forall no_out_ev d.
Proof. intros H. eapply Forall_impl; [|exact H]. exact read_ev_no_out. Qed.

(* the ways a run can end before any open succeeded *)
Definition pre_open_result (fuel : nat) (res : outcome derr unit) : Prop :=
  (fuel = 0%nat /\ res = OutOfFuel) \/ res = Err DChaPolyDecrypt \/ res = Err DChunkLen \/
  exists e, res = Err (DIORead e).

Section Open.
Variable P : prims.
Variable key aad : bytes.
Variable cs : N.
Hypothesis Hkey : length key = 32%nat.

Notation dec_loop := (decrypt_chunks_loop P).

Theorem dec_open_dichotomy fuel n s res s' :
  dec_loop fuel key aad cs n s = (res, s') ->
  exists d, log s' = d ++ log s /\
    ((exists m ad ct pt, In (EvOpen key m ad ct (Some pt)) d) \/
     (w_out (wtr s') = w_out (wtr s) /\ Forall no_out_ev d /\ pre_open_result fuel res)).
Proof.
  destruct fuel as [|f]; intros E.
  { cbn in E. injection E as <- <-. exists []. split; [reflexivity|]. right.
    split; [reflexivity|]. split; [constructor|]. left. auto. }
  cbn [decrypt_chunks_loop] in E.
  unfold bind at 1 in E. destruct (m_read_exact d_read_err 16 s) as [r1 s1] eqn:E1.
  pose proof (m_read_exact_cases _ _ _ _ _ E1) as (Hw1 & d1 & Hl1 & Hev1 & Hr1).
  destruct r1 as [hdr|e|w|]; try contradiction.
  2:{ injection E as <- <-. exists d1. split; [exact Hl1|]. right.
      split; [now rewrite Hw1|]. split; [now apply read_evs_no_out|].
      destruct Hr1 as ((ie & ->) & _). right. right. right. unfold d_read_err. destruct ie; eauto. }
  clear Hr1.
  destruct (cs <? de32 (hdr_len hdr)) eqn:Ecs.
  { injection E as <- <-. exists d1. split; [exact Hl1|]. right.
    split; [now rewrite Hw1|]. split; [now apply read_evs_no_out|]. right. right. left. reflexivity. }
  unfold bind at 1 in E.
  destruct (m_read_exact d_read_err (N.to_nat (de32 (hdr_len hdr)) + 16) s1) as [r2 s2] eqn:E2.
  pose proof (m_read_exact_cases _ _ _ _ _ E2) as (Hw2 & d2 & Hl2 & Hev2 & Hr2).
  assert (Hl12 : log s2 = (d2 ++ d1) ++ log s) by (rewrite Hl2, Hl1; now rewrite app_assoc).
  assert (Hev12 : Forall no_out_ev (d2 ++ d1)) by (apply Forall_app; split; now apply read_evs_no_out).
  destruct r2 as [ct|e|w|]; try contradiction.
  2:{ injection E as <- <-. exists (d2 ++ d1). split; [exact Hl12|]. right.
      split; [now rewrite Hw2, Hw1|]. split; [assumption|].
      destruct Hr2 as ((ie & ->) & _). right. right. right. unfold d_read_err. destruct ie; eauto. }
  clear Hr2.
  unfold bind at 1 in E. rewrite (m_open_eq P key Hkey) in E.
  set (ad := aad ++ hdr_last hdr ++ hdr_len hdr) in *.
  assert (Hfail : forall res0 s0, (res0, s0) = (Err DChaPolyDecrypt, with_log s2 (EvOpen key n ad ct None)) ->
    exists d, log s0 = d ++ log s /\
    ((exists m ad ct pt, In (EvOpen key m ad ct (Some pt)) d) \/
     (w_out (wtr s0) = w_out (wtr s) /\ Forall no_out_ev d /\ pre_open_result (S f) res0))).
  { intros res0 s0 [= -> ->]. exists (EvOpen key n ad ct None :: d2 ++ d1). split; [cbn; now rewrite Hl12|].
    right. split; [cbn; now rewrite Hw2, Hw1|]. split; [constructor; [exact I|assumption]|].
    right. left. reflexivity. }
  destruct (Nat.ltb (length ct) 16); [apply Hfail; symmetry; exact E|].
  destruct (p_open P key (noise_nonce n) ad ct) as [pt|] eqn:Eo; [|apply Hfail; symmetry; exact E].
  clear Hfail.
  set (s3 := with_log s2 (EvOpen key n ad ct (Some pt))) in *.
  change (dec_tail P key aad cs f n pt (de32 (hdr_last hdr) =? 1) s3 = (res, s')) in E.
  destruct (dec_tail_log_mono P key aad cs Hkey _ _ _ _ _ _ _ E) as [d Hd].
  exists (d ++ EvOpen key n ad ct (Some pt) :: d2 ++ d1). split.
  - rewrite Hd. unfold s3. cbn [log with_log]. rewrite Hl12. rewrite <- !app_assoc. cbn [app]. rewrite <- app_assoc. reflexivity.
  - left. exists n, ad, ct, pt. apply in_or_app. right. left. reflexivity.
Qed.

(* (a) an accepted run contains a successful open among its new events *)
Theorem dec_ok_has_open fuel n s s' :
  dec_loop fuel key aad cs n s = (Ok tt, s') ->
  exists d, log s' = d ++ log s /\ exists m ad ct pt, In (EvOpen key m ad ct (Some pt)) d.
Proof.
  intros E. destruct (dec_open_dichotomy _ _ _ _ _ E) as (d & Hd & [Hin|(_ & _ & Hres)]).
  - exists d. auto.
  - exfalso. destruct Hres as [[_ Hres]|[Hres|[Hres|[e Hres]]]]; discriminate.
Qed.

(* (b) a run whose new events contain no successful open under the key wrote nothing, flushed
   nothing, and ended in an error (or ran out of fuel when given none) *)
Theorem dec_no_open_no_output fuel n s res s' d :
  dec_loop fuel key aad cs n s = (res, s') -> log s' = d ++ log s ->
  (forall m ad ct pt, ~ In (EvOpen key m ad ct (Some pt)) d) ->
  w_out (wtr s') = w_out (wtr s) /\ Forall no_out_ev d /\ pre_open_result fuel res.
Proof.
  intros E Hd Hno. destruct (dec_open_dichotomy _ _ _ _ _ E) as (d' & Hd' & Hcase).
  assert (d' = d) as -> by (rewrite Hd in Hd'; apply app_inv_tail in Hd'; now symmetry).
  destruct Hcase as [(m & ad & ct & pt & Hin)|Hcase]; [|exact Hcase].
  exfalso. exact (Hno _ _ _ _ Hin).
Qed.

(* the whole-file entry point: fuel is never exhausted before an open *)
Theorem wrong_key_rejected_gen s res s' d :
  decrypt_chunks P key aad cs s = (res, s') -> log s' = d ++ log s ->
  (forall m ad ct pt, ~ In (EvOpen key m ad ct (Some pt)) d) ->
  (res = Err DChaPolyDecrypt \/ res = Err DChunkLen \/ exists e, res = Err (DIORead e)) /\
  w_out (wtr s') = w_out (wtr s) /\ Forall no_out_ev d.
Proof.
  unfold decrypt_chunks. intros E Hd Hno.
  destruct (dec_no_open_no_output _ _ _ _ _ _ E Hd Hno) as (Ho & Hev & Hres).
  split; [|split; assumption].
  destruct Hres as [[Hf _]|Hres]; [discriminate Hf|exact Hres].
Qed.

Corollary wrong_key_rejected s res s' :
  log s = [] ->
  decrypt_chunks P key aad cs s = (res, s') ->
  (forall m ad ct pt, ~ In (EvOpen key m ad ct (Some pt)) (log s')) ->
  (res = Err DChaPolyDecrypt \/ res = Err DChunkLen \/ exists e, res = Err (DIORead e)) /\
  res <> Ok tt /\
  w_out (wtr s') = w_out (wtr s) /\ Forall no_out_ev (log s').
Proof.
  intros Hs E Hno.
  destruct (wrong_key_rejected_gen s res s' (log s') E) as (Hres & Ho & Hev); [now rewrite Hs, app_nil_r|exact Hno|].
  split; [exact Hres|]. split; [|split; assumption].
  destruct Hres as [->|[->|[e ->]]]; discriminate.
Qed.

End Open.

Section Closure.
Print Assumptions dec_open_dichotomy.
Print Assumptions dec_ok_has_open.
Print Assumptions dec_no_open_no_output.
Print Assumptions wrong_key_rejected.
End Closure.
