(* Proofs/CombineTamper.v — truncation and extension of honest FILES (headers included), no
   cryptographic premise: every proper prefix of an honest password file / key file is rejected under
   every script; an honest file followed by at least one byte is rejected with UnexpectedData under
   conforming scripts (and under every script Ok can only mean the complete plaintext was written). *)
From Kestrel Require Import Bytes BytesFacts Outcome IO IOFacts Prims.
From Kestrel.gen Require Import Extracted.
From Kestrel.Model Require Import AeadWrap Chunks Noise NoiseSpec Files EventPreds FilesSpec ChunksSpec
  ChunksRobustDefs CombineDefs.
From Kestrel.Proofs Require Import MonadFacts ChunksDec ChunksEnc ChunksAuth ChunksOpen ChunksRobust NoiseFacts FilesFacts
  CombineFiles CombineChunks CombineRobust CombineHeader.
From Coq Require Import ZifyBool ZifyNat ZifyN.
Local Open Scope N_scope.

Section Tamper.
Variable P : prims.
Hypothesis Haead : aead_ok P.
Hypothesis Hh : hash_ok P.

(* the honest key file a key_encrypt run writes, tied to what the recipient's handshake yields *)
Theorem key_encrypt_honest_file fresh_pk fresh_e s r e epk pk e' s0 :
  dh_comm P ->
  eph_of P fresh_e e epk = (e', dh_pub P e') ->
  length e' = 32%nat -> length s = 32%nat -> length r = 32%nat ->
  length (payload_of fresh_pk pk) = 32%nat ->
  all_zero (p_dh P e' (dh_pub P r)) = false -> all_zero (p_dh P s (dh_pub P r)) = false ->
  reader_ok (rdr s0) -> writer_ok (wtr s0) ->
  exists msg hh s0', length msg = 128%nat /\
    noise_decrypt P r (dh_pub P r) x_prologue msg = Ok (payload_of fresh_pk pk, dh_pub P s, hh) /\
    key_encrypt P fresh_pk fresh_e s (dh_pub P s) (dh_pub P r) e epk pk s0 = (Ok tt, s0') /\
    w_out (wtr s0') = w_out (wtr s0) ++
      spec_key_file P msg hh (payload_of fresh_pk pk)
        (chunks_of_reads (reads_of (N.to_nat cs_const) (rdr s0))).
Proof.
  intros Hc Hep He Hs Hr Hp Hz1 Hz2 Hr0 Hw0.
  destruct (noise_roundtrip_gen P Hh Haead Hc fresh_e e epk s r x_prologue (payload_of fresh_pk pk) e'
              Hep He Hs Hr Hp Hz1 Hz2) as (msg & hh & Henc & Hlen & Hdec).
  destruct (key_encrypt_output P fresh_pk fresh_e s (dh_pub P s) (dh_pub P r) e epk pk s0 msg hh Hh Hp Henc Hr0 Hw0)
    as (s0' & Ee & Ho & _).
  exists msg, hh, s0'. auto.
Qed.

(* ---------- password files ---------- *)
Theorem pass_file_prefix_rejected pw salt chunks data suffix s res s' :
  length salt = 32%nat -> chunks <> [] -> Forall (chunk_ok cs_const) chunks ->
  data ++ suffix = spec_pass_file P pw salt chunks -> suffix <> [] ->
  r_data (rdr s) = data ->
  pass_decrypt P pw s = (res, s') ->
  res <> Ok tt /\
  exists written more, w_out (wtr s') = w_out (wtr s) ++ written /\ concat chunks = written ++ more.
Proof.
  intros Hls Hne Hck Hd Hsuf Hdata E.
  destruct (pass_decrypt_inv P pw s res s' E) as [(e & d0 & -> & _ & Hw & _)|
    (salt0 & sb & d0 & Hls0 & Hd0 & Hw & _ & _ & _ & Ec)].
  - split; [discriminate|]. exists [], (concat chunks). rewrite Hw, app_nil_r. auto.
  - rewrite Hdata in Hd0. rewrite Hd0 in Hd. unfold spec_pass_file in Hd. rewrite <- !app_assoc in Hd.
    apply app_inv_head in Hd. apply app_len_inj in Hd; [|now rewrite Hls, Hls0]. destruct Hd as [-> Hd].
    destruct (dec_prefix_rejected P (kdf P pw salt) x_pass_file_magic cs_const (kdf_len P pw salt Hh) Haead cs_const_hi
                chunks (r_data (rdr sb)) suffix sb res s' Hne Hck Hd Hsuf eq_refl Ec) as (Hres & Hpre).
    rewrite Hw in Hpre. auto.
Qed.

Theorem pass_file_extension_rejected pw salt chunks x rest s :
  length salt = 32%nat -> chunks <> [] -> Forall (chunk_ok cs_const) chunks ->
  reader_ok (rdr s) -> writer_ok (wtr s) ->
  r_data (rdr s) = spec_pass_file P pw salt chunks ++ x :: rest ->
  exists s', pass_decrypt P pw s = (Err DUnexpectedData, s') /\
             w_out (wtr s') = w_out (wtr s) ++ concat (removelast chunks).
Proof.
  intros Hls Hne Hck Hr Hw Hd. unfold spec_pass_file in Hd. rewrite <- !app_assoc in Hd.
  destruct (pass_decrypt_header P pw s salt _ Hr Hd Hls) as (t1 & [Hdt Hrt Hwt _] & Ed).
  rewrite Ed.
  set (t2 := with_log t1 _).
  destruct (dec_extension_rejected P (kdf P pw salt) x_pass_file_magic cs_const (kdf_len P pw salt Hh) Haead cs_const_hi
              chunks x rest t2 Hne Hck Hrt) as (s' & E & Ho).
  { unfold t2. cbn [wtr with_log]. rewrite Hwt. exact Hw. }
  { exact Hdt. }
  exists s'. split; [exact E|]. rewrite Ho. unfold t2. cbn [wtr with_log]. now rewrite Hwt.
Qed.

Theorem pass_file_extension_any_script pw salt chunks x rest s res s' :
  length salt = 32%nat -> chunks <> [] -> Forall (chunk_ok cs_const) chunks ->
  r_data (rdr s) = spec_pass_file P pw salt chunks ++ x :: rest ->
  pass_decrypt P pw s = (res, s') ->
  exists written, w_out (wtr s') = w_out (wtr s) ++ written /\
    (exists more, concat chunks = written ++ more) /\
    (res = Ok tt -> written = concat chunks).
Proof.
  intros Hls Hne Hck Hd E.
  destruct (pass_decrypt_inv P pw s res s' E) as [(e & d0 & -> & _ & Hw & _)|
    (salt0 & sb & d0 & Hls0 & Hd0 & Hw & _ & _ & _ & Ec)].
  - exists []. rewrite Hw, app_nil_r. split; [reflexivity|]. split; [exists (concat chunks); reflexivity|discriminate].
  - rewrite Hd in Hd0. unfold spec_pass_file in Hd0. rewrite <- !app_assoc in Hd0.
    apply app_inv_head in Hd0. apply app_len_inj in Hd0; [|now rewrite Hls, Hls0]. destruct Hd0 as [<- Hd0].
    destruct (dec_extension_any_script P (kdf P pw salt) x_pass_file_magic cs_const (kdf_len P pw salt Hh) Haead cs_const_hi
                chunks x rest sb res s' Hne Hck (eq_sym Hd0) Ec) as (written & Ho & Hpre & Hok & _).
    exists written. rewrite <- Hw. auto.
Qed.

(* ---------- key files ---------- *)
(* the honest file: prologue ++ msg ++ stream where msg is a handshake that (r, rpk) accepts, yielding
   (payload, spk, hh) — e.g. the file of key_encrypt_honest_file *)
Theorem key_file_prefix_rejected r rpk msg hh payload spk chunks data suffix s res s' :
  length msg = 128%nat -> noise_decrypt P r rpk x_prologue msg = Ok (payload, spk, hh) ->
  chunks <> [] -> Forall (chunk_ok cs_const) chunks ->
  data ++ suffix = spec_key_file P msg hh payload chunks -> suffix <> [] ->
  r_data (rdr s) = data ->
  key_decrypt P r rpk s = (res, s') ->
  (forall spk', res <> Ok spk') /\
  exists written more, w_out (wtr s') = w_out (wtr s) ++ written /\ concat chunks = written ++ more.
Proof.
  intros Hlm Hn Hne Hck Hd Hsuf Hdata E.
  destruct (key_decrypt_inv P r rpk s res s' E) as
    [(e & d & -> & _ & Hw & _)|[(msg0 & d & _ & _ & _ & Hres & Hw & _)|
     (msg0 & sb & d & payload0 & spk0 & hh0 & r3 & Hlm0 & Hd0 & Hn0 & Hw & _ & _ & _ & Ec & Hres)]].
  - split; [discriminate|]. exists [], (concat chunks). rewrite Hw, app_nil_r. auto.
  - split; [|exists [], (concat chunks); rewrite Hw, app_nil_r; auto].
    intros spk' Hspk. rewrite Hspk in Hres. destruct (noise_decrypt P r rpk x_prologue msg0); discriminate Hres.
  - rewrite Hdata in Hd0. rewrite Hd0 in Hd. unfold spec_key_file in Hd. rewrite <- !app_assoc in Hd.
    apply app_inv_head in Hd. apply app_len_inj in Hd; [|now rewrite Hlm, Hlm0]. destruct Hd as [-> Hd].
    rewrite Hn in Hn0. injection Hn0 as <- <- <-.
    destruct (dec_prefix_rejected P (file_key P payload hh) [] cs_const (file_key_len P payload hh Hh) Haead cs_const_hi
                chunks (r_data (rdr sb)) suffix sb r3 s' Hne Hck Hd Hsuf eq_refl Ec) as (Hr3 & Hpre).
    rewrite Hw in Hpre. split; [|exact Hpre].
    intros spk' Hspk. subst res. destruct r3 as [[]|e|w|]; cbn in Hspk; try discriminate Hspk. now apply Hr3.
Qed.

Theorem key_file_extension_rejected r rpk msg hh payload spk chunks x rest s :
  length msg = 128%nat -> noise_decrypt P r rpk x_prologue msg = Ok (payload, spk, hh) ->
  chunks <> [] -> Forall (chunk_ok cs_const) chunks ->
  reader_ok (rdr s) -> writer_ok (wtr s) ->
  r_data (rdr s) = spec_key_file P msg hh payload chunks ++ x :: rest ->
  exists s', key_decrypt P r rpk s = (Err DUnexpectedData, s') /\
             w_out (wtr s') = w_out (wtr s) ++ concat (removelast chunks).
Proof.
  intros Hlm Hn Hne Hck Hr Hw Hd. unfold spec_key_file in Hd. rewrite <- !app_assoc in Hd.
  destruct (key_decrypt_header P r rpk s msg _ payload spk hh Hr Hd Hlm Hn) as (t1 & [Hdt Hrt Hwt _] & Ed).
  rewrite Ed.
  destruct (dec_extension_rejected P (file_key P payload hh) [] cs_const (file_key_len P payload hh Hh) Haead cs_const_hi
              chunks x rest t1 Hne Hck Hrt) as (s' & E & Ho).
  { rewrite Hwt. exact Hw. }
  { exact Hdt. }
  exists s'. split; [unfold bind; rewrite E; reflexivity|]. now rewrite Ho, Hwt.
Qed.

Theorem key_file_extension_any_script r rpk msg hh payload spk chunks x rest s res s' :
  length msg = 128%nat -> noise_decrypt P r rpk x_prologue msg = Ok (payload, spk, hh) ->
  chunks <> [] -> Forall (chunk_ok cs_const) chunks ->
  r_data (rdr s) = spec_key_file P msg hh payload chunks ++ x :: rest ->
  key_decrypt P r rpk s = (res, s') ->
  exists written, w_out (wtr s') = w_out (wtr s) ++ written /\
    (exists more, concat chunks = written ++ more) /\
    (forall spk', res = Ok spk' -> spk' = spk /\ written = concat chunks).
Proof.
  intros Hlm Hn Hne Hck Hd E.
  destruct (key_decrypt_inv P r rpk s res s' E) as
    [(e & d & -> & _ & Hw & _)|[(msg0 & d & _ & _ & _ & Hres & Hw & _)|
     (msg0 & sb & d & payload0 & spk0 & hh0 & r3 & Hlm0 & Hd0 & Hn0 & Hw & _ & _ & _ & Ec & Hres)]].
  - exists []. rewrite Hw, app_nil_r. split; [reflexivity|]. split; [exists (concat chunks); reflexivity|discriminate].
  - exists []. rewrite Hw, app_nil_r. split; [reflexivity|]. split; [exists (concat chunks); reflexivity|].
    intros spk' Hspk. rewrite Hspk in Hres. destruct (noise_decrypt P r rpk x_prologue msg0); discriminate Hres.
  - rewrite Hd in Hd0. unfold spec_key_file in Hd0. rewrite <- !app_assoc in Hd0.
    apply app_inv_head in Hd0. apply app_len_inj in Hd0; [|now rewrite Hlm, Hlm0]. destruct Hd0 as [<- Hd0].
    rewrite Hn in Hn0. injection Hn0 as <- <- <-.
    destruct (dec_extension_any_script P (file_key P payload hh) [] cs_const (file_key_len P payload hh Hh) Haead cs_const_hi
                chunks x rest sb r3 s' Hne Hck (eq_sym Hd0) Ec) as (written & Ho & Hpre & Hok & _).
    exists written. rewrite <- Hw. split; [exact Ho|]. split; [exact Hpre|].
    intros spk' Hspk. subst res. destruct r3 as [[]|e|w|]; cbn in Hspk; try discriminate Hspk.
    injection Hspk as <-. split; [reflexivity|]. now apply Hok.
Qed.

End Tamper.

Section Closure.
Print Assumptions key_encrypt_honest_file.
Print Assumptions pass_file_prefix_rejected.
Print Assumptions pass_file_extension_rejected.
Print Assumptions pass_file_extension_any_script.
Print Assumptions key_file_prefix_rejected.
Print Assumptions key_file_extension_rejected.
Print Assumptions key_file_extension_any_script.
End Closure.
