(* Proofs/Combine2GenUtf8.v — C14 with the CONCRETE UTF-8 codec of Model/Utf8.v (String::from_utf8 / as_bytes) in place
   of the abstract pair of Proofs/CliFacts.v / Proofs/Combine2Gen.v.  The abstract law "decoding inverts encoding on
   EVERY text" is false for the real codec (a text holding a surrogate does not decode back), so the theorems are
   re-derived here with the law restricted to texts of scalar values (Utf8Facts.utf8_decode_encode):
     - abstract validators / keyring functions: the prior keyring text and the entry texts are assumed scalar;
     - real keyring functions (k_lock / k_encode_pk): the entry texts ARE scalar (the name was decoded from stdin by
       the strict decoder, the two values are base64), so only the prior text t0 carries the restriction. *)
From Kestrel Require Import Bytes BytesFacts Outcome IO Prims.
From Kestrel.Spec Require Import Base64 Base64Facts.
From Kestrel.Model Require Import AeadWrap KeyringText Cli CliGlue Combine2Defs Utf8.
From Kestrel.Model Require Keyring.
From Kestrel.Proofs Require Import KeyringRefine KeyringFacts CliFacts Combine2Gen Utf8Facts.
From Coq Require Import ZifyBool ZifyNat ZifyN.
Local Open Scope N_scope.

(* ---------- scalar texts ---------- *)
Lemma b64_encode_ascii b : Forall (fun c => c < 128) (b64_encode b).
Proof.
  destruct (b64_encode_shape b) as (body & k & -> & F & _). apply Forall_app. split.
  - eapply Forall_impl; [|exact F]. cbn beta. intros c Hc.
    destruct (b64_val c) as [d|] eqn:E; [|congruence]. apply b64_val_range in E. lia.
  - apply Forall_forall. intros c Hc. apply repeat_spec in Hc. lia.
Qed.

Lemma b64_encode_scalar b : Forall scalar_ok (b64_encode b).
Proof. apply ascii_scalar_ok, b64_encode_ascii. Qed.

Lemma trim_start_Forall (Q : N -> Prop) l : Forall Q l -> Forall Q (trim_start l).
Proof.
  induction 1 as [|c l Hc Hl IH]; [constructor|]. cbn [trim_start]. destruct (is_ws c); [exact IH|now constructor].
Qed.

Lemma trim_Forall (Q : N -> Prop) l : Forall Q l -> Forall Q (trim l).
Proof.
  intros H. unfold trim, trim_end. apply Forall_rev, trim_start_Forall, Forall_rev, trim_start_Forall, H.
Qed.

Lemma serialize_key_scalar name pk sk : Forall scalar_ok name -> Forall scalar_ok pk -> Forall scalar_ok sk ->
  Forall scalar_ok (serialize_key name pk sk).
Proof.
  intros Hn Hp Hs. unfold serialize_key.
  assert (C : forall c, c < 128 -> scalar_ok c) by (intros c Hc; unfold scalar_ok; lia).
  repeat (apply Forall_app; split); try assumption;
    repeat (constructor; [apply C; reflexivity|]); constructor.
Qed.

Section GenC.
Variable P : prims.

Section Abstract.
Variable pk_ok sk_ok : text -> bool.
Variable lock : bytes -> bytes -> bytes -> text.
Variable encode_pk : bytes -> text.

Notation gen_history := (gen_history P lock encode_pk utf8_decode utf8_encode).
Notation resolve_keyring := (resolve_keyring pk_ok sk_ok utf8_decode).

Lemma flat_map_key_bytes_c es :
  flat_map (key_bytes_nl utf8_encode) (map entry_text es) = utf8_encode (flat_map (fun e => c_nl :: entry_text e) es).
Proof.
  induction es as [|e es IH]; cbn [map flat_map]; [reflexivity|].
  rewrite IH. unfold Cli.key_bytes_nl. now rewrite <- utf8_encode_app.
Qed.

Lemma flat_map_entries_scalar es : Forall (fun e => Forall scalar_ok (entry_text e)) es ->
  Forall scalar_ok (flat_map (fun e => c_nl :: entry_text e) es).
Proof.
  induction 1 as [|e es He _ IH]; [constructor|]. cbn [flat_map app].
  constructor; [unfold scalar_ok, c_nl; lia|]. apply Forall_app. now split.
Qed.

Lemma keyring_text_scalar es : Forall (fun e => Forall scalar_ok (entry_text e)) es ->
  Forall scalar_ok (keyring_text es).
Proof.
  intros H. destruct H as [|e es He Hes]; [constructor|]. cbn [keyring_text].
  apply Forall_app. split; [exact He|now apply flat_map_entries_scalar].
Qed.

Theorem gen_history_keyring_fresh_c F l ins l' es :
  fs_get l F = None -> gen_history F l ins = Some (l', map entry_text es) -> es <> [] ->
  fs_get l' F = Some (utf8_encode (keyring_text es)).
Proof.
  intros Hn H Hne. destruct (gen_history_content P lock encode_pk utf8_decode utf8_encode F _ _ _ _ H) as [H1 _].
  rewrite H1, Hn. destruct es as [|e rest]; [contradiction|]. cbn [map Cli.history_content keyring_text].
  rewrite flat_map_key_bytes_c. unfold Cli.key_bytes. now rewrite <- utf8_encode_app.
Qed.

Theorem gen_history_keyring_existing_c F l ins l' es t0 :
  fs_get l F = Some (utf8_encode t0) -> gen_history F l ins = Some (l', map entry_text es) ->
  fs_get l' F = Some (utf8_encode (t0 ++ flat_map (fun e => c_nl :: entry_text e) es)).
Proof.
  intros Hn H. destruct (gen_history_content P lock encode_pk utf8_decode utf8_encode F _ _ _ _ H) as [H1 _].
  rewrite H1, Hn. cbn [Cli.history_content]. now rewrite flat_map_key_bytes_c, <- utf8_encode_app.
Qed.

Lemma resolve_keyring_file_c w F t : fs_get (fs w) F = Some (utf8_encode t) -> Forall scalar_ok t ->
  resolve_keyring w (Some F) = of_outcome SKeyringParse (parse_config pk_ok sk_ok t).
Proof.
  intros H Hs. unfold Cli.resolve_keyring, keyring_path. cbn [pbind]. rewrite H. cbn [opt_or pbind].
  now rewrite (utf8_decode_encode t Hs).
Qed.

Theorem gen_history_reads_back_fresh_c F l ins l' es w :
  fs_get l F = None -> gen_history F l ins = Some (l', map entry_text es) -> es <> [] ->
  Forall (fun e => Forall scalar_ok (entry_text e)) es ->
  Forall (gen_entry_ok pk_ok sk_ok) es -> NoDup (map k_name es) -> NoDup (map k_pub es) ->
  fs w = l' -> resolve_keyring w (Some F) = inr es.
Proof.
  intros Hn H Hne Hsc Hok N1 N2 Hw. rewrite (resolve_keyring_file_c w F (keyring_text es)).
  - now rewrite written_parses_back.
  - rewrite Hw. now apply (gen_history_keyring_fresh_c F l ins).
  - now apply keyring_text_scalar.
Qed.

Theorem gen_history_reads_back_existing_c F l ins l' es t0 ks0 w :
  fs_get l F = Some (utf8_encode t0) -> Forall scalar_ok t0 -> parse_config pk_ok sk_ok t0 = Ok ks0 ->
  gen_history F l ins = Some (l', map entry_text es) ->
  Forall (fun e => Forall scalar_ok (entry_text e)) es ->
  Forall (gen_entry_ok pk_ok sk_ok) es -> NoDup (map k_name (ks0 ++ es)) -> NoDup (map k_pub (ks0 ++ es)) ->
  fs w = l' -> resolve_keyring w (Some F) = inr (ks0 ++ es).
Proof.
  intros Hn Ht0 Hp H Hsc Hok N1 N2 Hw.
  rewrite (resolve_keyring_file_c w F (t0 ++ flat_map (fun e => c_nl :: entry_text e) es)).
  - rewrite (parse_append_keys pk_ok sk_ok es t0 ks0) by assumption. reflexivity.
  - rewrite Hw. now apply (gen_history_keyring_existing_c F l ins).
  - apply Forall_app. split; [exact Ht0|now apply flat_map_entries_scalar].
Qed.

Theorem gen_history_reads_back_empty_c F l ins l' es w :
  fs_get l F = Some [] -> gen_history F l ins = Some (l', map entry_text es) -> es <> [] ->
  Forall (fun e => Forall scalar_ok (entry_text e)) es ->
  Forall (gen_entry_ok pk_ok sk_ok) es -> NoDup (map k_name es) -> NoDup (map k_pub es) ->
  fs w = l' ->
  fs_get l' F = Some (utf8_encode (c_nl :: keyring_text es)) /\ resolve_keyring w (Some F) = inr es.
Proof.
  intros Hn H Hne Hsc Hok N1 N2 Hw. change (@nil N) with (utf8_encode []) in Hn.
  pose proof (gen_history_keyring_existing_c F l ins l' es [] Hn H) as Hc. cbn [app] in Hc.
  assert (Es : flat_map (fun e => c_nl :: entry_text e) es = c_nl :: keyring_text es).
  { destruct es as [|e rest]; [contradiction | reflexivity]. }
  rewrite Es in Hc. split; [exact Hc|].
  rewrite (resolve_keyring_file_c w F (c_nl :: keyring_text es)).
  - now rewrite (parse_config_leading_nl pk_ok sk_ok), written_parses_back.
  - now rewrite Hw.
  - constructor; [unfold scalar_ok, c_nl; lia|now apply keyring_text_scalar].
Qed.
End Abstract.

(* ---------- the real keyring functions ---------- *)
Hypothesis HA : aead_ok P.
Hypothesis HH : hash_ok P.
Hypothesis HB : Keyring.prims_bytes_ok P.

Notation gen_plan := (gen_plan P (k_lock P) (k_encode_pk P) utf8_decode).
Notation gen_history := (gen_history P (k_lock P) (k_encode_pk P) utf8_decode utf8_encode).
Notation resolve_keyring := (resolve_keyring Keyring.pk_string_ok Keyring.sk_string_ok utf8_decode).

(* a key text written by `key generate` is a text of scalar values: the name was accepted by the strict decoder,
   the two values are base64 *)
Lemma gen_plan_scalar w o sk salt k : gen_plan w o sk salt = inr k -> Forall scalar_ok k.
Proof.
  intros H. apply gen_plan_entry in H. destruct H as (line & pw & pk & Hl & _ & Hpk & _ & ->).
  unfold entry_text. cbn [k_name k_pub k_priv]. apply serialize_key_scalar.
  - apply trim_Forall. exact (utf8_decode_scalar _ _ Hl).
  - unfold k_encode_pk, Keyring.encode_public_key.
    repeat match goal with
           | |- Forall _ (match obind ?x _ with _ => _ end) => destruct x; cbn [obind]; try constructor
           end.
    apply b64_encode_scalar.
  - rewrite (k_lock_eq P HH). apply b64_encode_scalar.
Qed.

Lemma gen_history_texts_scalar F : forall ins l l' ks,
  gen_history F l ins = Some (l', ks) -> Forall (Forall scalar_ok) ks.
Proof.
  induction ins as [|i rest IH]; intros l l' ks H.
  - injection H as <- <-. constructor.
  - apply gen_history_cons in H. destruct H as (k & ks' & Ek & -> & _ & Hr & _).
    constructor; [exact (gen_plan_scalar _ _ _ _ _ Ek)|exact (IH _ _ _ Hr)].
Qed.

Lemma map_entry_text_scalar es : Forall (Forall scalar_ok) (map entry_text es) ->
  Forall (fun e => Forall scalar_ok (entry_text e)) es.
Proof. intros H. exact (proj1 (Forall_map entry_text (Forall scalar_ok) es) H). Qed.

Theorem gen_history_all_keys_usable_existing_c F l ins l' ks t0 ks0 w :
  fs_get l F = Some (utf8_encode t0) -> Forall scalar_ok t0 ->
  parse_config Keyring.pk_string_ok Keyring.sk_string_ok t0 = Ok ks0 ->
  gen_history F l ins = Some (l', ks) ->
  Forall (fun i => bytes_ok (gi_sk i) /\ bytes_ok (gi_salt i)) ins ->
  fs w = l' ->
  exists es, ks = map entry_text es /\
    Forall2 (fun i e => exists pw, gen_password i = Some pw /\ length (gi_sk i) = 32%nat /\
                                   usable_key P (gi_sk i) pw e) ins es /\
    fs_get l' F = Some (utf8_encode (t0 ++ flat_map (fun e => c_nl :: entry_text e) es)) /\
    (Forall (fun e => ~ In c_nl (k_name e)) es ->
     NoDup (map k_name (ks0 ++ es)) -> NoDup (map k_pub (ks0 ++ es)) ->
     resolve_keyring w (Some F) = inr (ks0 ++ es)).
Proof.
  intros Hg Ht0 Hp H Hb Hw. pose proof (gen_history_texts_scalar F _ _ _ _ H) as Hsc.
  destruct (gen_history_keys_usable P HA HH HB utf8_decode utf8_encode F _ _ _ _ H Hb) as (es & -> & Hes).
  apply map_entry_text_scalar in Hsc.
  exists es. split; [reflexivity|]. split; [exact Hes|]. split.
  - exact (gen_history_keyring_existing_c (k_lock P) (k_encode_pk P) F l ins l' es t0 Hg H).
  - intros Hn N1 N2.
    apply (gen_history_reads_back_existing_c Keyring.pk_string_ok Keyring.sk_string_ok (k_lock P) (k_encode_pk P)
             F l ins l' es t0 ks0 w); try assumption.
    now apply (usable_all_entry_ok P ins).
Qed.

Theorem gen_history_all_keys_usable_fresh_c F l ins l' ks w :
  fs_get l F = None -> ins <> [] ->
  gen_history F l ins = Some (l', ks) ->
  Forall (fun i => bytes_ok (gi_sk i) /\ bytes_ok (gi_salt i)) ins ->
  fs w = l' ->
  exists es, ks = map entry_text es /\
    Forall2 (fun i e => exists pw, gen_password i = Some pw /\ length (gi_sk i) = 32%nat /\
                                   usable_key P (gi_sk i) pw e) ins es /\
    fs_get l' F = Some (utf8_encode (keyring_text es)) /\
    (Forall (fun e => ~ In c_nl (k_name e)) es ->
     NoDup (map k_name es) -> NoDup (map k_pub es) ->
     resolve_keyring w (Some F) = inr es).
Proof.
  intros Hg Hne H Hb Hw. pose proof (gen_history_texts_scalar F _ _ _ _ H) as Hsc.
  destruct (gen_history_keys_usable P HA HH HB utf8_decode utf8_encode F _ _ _ _ H Hb) as (es & -> & Hes).
  apply map_entry_text_scalar in Hsc.
  assert (Hes_ne : es <> []).
  { intros ->. inversion Hes. subst. contradiction. }
  exists es. split; [reflexivity|]. split; [exact Hes|]. split.
  - exact (gen_history_keyring_fresh_c (k_lock P) (k_encode_pk P) F l ins l' es Hg H Hes_ne).
  - intros Hn N1 N2.
    apply (gen_history_reads_back_fresh_c Keyring.pk_string_ok Keyring.sk_string_ok (k_lock P) (k_encode_pk P)
             F l ins l' es w); try assumption.
    now apply (usable_all_entry_ok P ins).
Qed.
End GenC.

Print Assumptions gen_history_reads_back_existing_c.
Print Assumptions gen_history_reads_back_fresh_c.
Print Assumptions gen_history_reads_back_empty_c.
Print Assumptions gen_history_all_keys_usable_existing_c.
Print Assumptions gen_history_all_keys_usable_fresh_c.
