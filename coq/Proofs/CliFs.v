(* Proofs/CliFs.v — the file system of the CLI world (Model/Cli.v): canonical paths, the node table, path
   resolution, and what writing ONE regular file does to everything a path string can see.
     - resolution is sound: the node it reports is the node at the canonical path it reports;
     - writing the regular file at canonical path cp (a path that is not a directory) changes NO resolution
       target; every path string that denotes cp now shows the new content, every other string shows what it
       showed before; no node other than cp changes; in particular no directory appears or disappears;
     - a file can be created exactly at a path that resolves to a regular file or to an absent name in an
       existing directory; the empty string, a missing parent, a file used as a directory, a directory, a
       trailing slash are not such paths. *)
From Kestrel Require Import Bytes BytesFacts Outcome IO Prims.
From Kestrel.Model Require Import KeyringText Cli.
From Kestrel.Proofs Require Import KeyringRefine.
Local Open Scope N_scope.

(* ---------- canonical paths ---------- *)
Lemma cpath_eqb_eq : forall a b, cpath_eqb a b = true <-> a = b.
Proof.
  induction a as [|x a IH]; intros [|y b]; cbn [cpath_eqb]; try (split; [discriminate | intros H; discriminate H]).
  - split; reflexivity.
  - rewrite andb_true_iff, text_eqb_eq, IH. split; [intros [-> ->]; reflexivity | intros [= -> ->]; auto].
Qed.
Lemma cpath_eqb_refl a : cpath_eqb a a = true.
Proof. now apply cpath_eqb_eq. Qed.
Lemma cpath_eqb_neq a b : a <> b -> cpath_eqb a b = false.
Proof. intros H. destruct (cpath_eqb a b) eqn:E; [|reflexivity]. apply cpath_eqb_eq in E. contradiction. Qed.
Lemma cpath_eqb_sym a b : cpath_eqb a b = cpath_eqb b a.
Proof.
  destruct (cpath_eqb a b) eqn:E.
  - apply cpath_eqb_eq in E. subst. symmetry. apply cpath_eqb_refl.
  - destruct (cpath_eqb b a) eqn:E'; [|reflexivity]. apply cpath_eqb_eq in E'. subst. now rewrite cpath_eqb_refl in E.
Qed.

(* ---------- the node table ---------- *)
Lemma nt_get_set_same : forall l p n, nt_get (nt_set l p n) p = Some n.
Proof.
  induction l as [|[q m] r IH]; intros p n; cbn [nt_set nt_get].
  - now rewrite cpath_eqb_refl.
  - destruct (cpath_eqb q p) eqn:E; cbn [nt_get]; rewrite E; [reflexivity | apply IH].
Qed.

Lemma nt_get_set_other : forall l p n q, q <> p -> nt_get (nt_set l p n) q = nt_get l q.
Proof.
  induction l as [|[q0 m] r IH]; intros p n q Hq; cbn [nt_set nt_get].
  - rewrite cpath_eqb_neq by congruence. reflexivity.
  - destruct (cpath_eqb q0 p) eqn:E; cbn [nt_get].
    + apply cpath_eqb_eq in E. subst q0. rewrite cpath_eqb_neq by congruence. reflexivity.
    + destruct (cpath_eqb q0 q); [reflexivity | now apply IH].
Qed.

Lemma node_at_set_same l p c : p <> [] -> node_at (set_file l p c) p = Some (NFile c).
Proof. destruct p as [|x p]; [congruence|]. intros _. cbn [node_at set_file nodes]. apply nt_get_set_same. Qed.

Lemma node_at_set_other l p c q : q <> p -> node_at (set_file l p c) q = node_at l q.
Proof. intros H. destruct q as [|x q]; [reflexivity|]. cbn [node_at set_file nodes]. now apply nt_get_set_other. Qed.

Lemma cwd_set_file l p c : cwd (set_file l p c) = cwd l.
Proof. reflexivity. Qed.

(* [p] is not a directory of [l]: a regular file or nothing is there.  The root is a directory. *)
Definition notdir (l : fsys) (p : cpath) : Prop := node_at l p <> Some NDir.

Lemma notdir_nonroot l p : notdir l p -> p <> [].
Proof. intros H ->. now apply H. Qed.

(* being a directory does not change when a non-directory path receives a file *)
Lemma node_at_set_dir l cp c d : notdir l cp ->
  (node_at (set_file l cp c) d = Some NDir <-> node_at l d = Some NDir).
Proof.
  intros Hn. destruct (cpath_eqb d cp) eqn:E.
  - apply cpath_eqb_eq in E. subst d. rewrite node_at_set_same by (now apply notdir_nonroot with l).
    split; [discriminate | intros H; now apply Hn in H].
  - assert (d <> cp) by (intros ->; now rewrite cpath_eqb_refl in E). now rewrite node_at_set_other.
Qed.

(* ---------- resolution is sound ---------- *)
Lemma walk_node l : forall cs d md p x, walk l d cs md = Some (p, x) -> node_at l p = x.
Proof.
  induction cs as [|c rest IH]; intros d md p x; cbn [walk].
  - destruct (node_at l d) as [[|]|] eqn:E; try discriminate. intros [= <- <-]. exact E.
  - destruct (text_eqb c s_dot); [apply IH|]. destruct (text_eqb c s_dotdot); [apply IH|].
    destruct (node_at l d) as [[|]|]; try discriminate.
    destruct rest as [|c' rest'].
    + destruct (node_at l (d ++ [c])) as [[y|]|] eqn:E.
      * destruct md; [discriminate|]. intros [= <- <-]. exact E.
      * intros [= <- <-]. exact E.
      * destruct md; [discriminate|]. intros [= <- <-]. exact E.
    + destruct (node_at l (d ++ [c])) as [[y|]|]; try discriminate. apply IH.
Qed.

Lemma resolve_node l p cp x : resolve l p = Some (cp, x) -> node_at l cp = x.
Proof.
  unfold resolve. destruct p as [|c r]; [discriminate|].
  destruct (node_at l _) as [[|]|]; try discriminate. apply walk_node.
Qed.

(* ---------- writing one regular file ---------- *)
Definition retarget (cp : cpath) (c : bytes) (r : option (cpath * option node)) : option (cpath * option node) :=
  match r with
  | Some (p, x) => if cpath_eqb p cp then Some (p, Some (NFile c)) else Some (p, x)
  | None => None
  end.

Lemma walk_set_file l cp c : notdir l cp -> forall cs d md,
  walk (set_file l cp c) d cs md = retarget cp c (walk l d cs md).
Proof.
  intros Hn. assert (Hne : cp <> []) by now apply notdir_nonroot with l.
  assert (Hat : forall d, node_at (set_file l cp c) d =
                          if cpath_eqb d cp then Some (NFile c) else node_at l d).
  { intros d. destruct (cpath_eqb d cp) eqn:E.
    - apply cpath_eqb_eq in E. subst d. now apply node_at_set_same.
    - apply node_at_set_other. intros ->. now rewrite cpath_eqb_refl in E. }
  assert (Hcp : forall d, cpath_eqb d cp = true -> node_at l d <> Some NDir).
  { intros d E. apply cpath_eqb_eq in E. subst d. exact Hn. }
  induction cs as [|x rest IH]; intros d md; cbn [walk].
  - rewrite Hat. destruct (cpath_eqb d cp) eqn:E.
    + specialize (Hcp d E). destruct (node_at l d) as [[y|]|]; try reflexivity. congruence.
    + destruct (node_at l d) as [[y|]|]; cbn [retarget]; try reflexivity. now rewrite E.
  - destruct (text_eqb x s_dot); [apply IH|]. destruct (text_eqb x s_dotdot); [apply IH|].
    rewrite Hat. destruct (cpath_eqb d cp) eqn:Ed.
    + specialize (Hcp d Ed). destruct (node_at l d) as [[y|]|]; try reflexivity. congruence.
    + destruct (node_at l d) as [[y|]|]; try reflexivity.
      rewrite Hat. destruct rest as [|x' rest'].
      * destruct (cpath_eqb (d ++ [x]) cp) eqn:Ep.
        -- specialize (Hcp _ Ep). destruct (node_at l (d ++ [x])) as [[y|]|]; try congruence;
             destruct md; cbn [retarget]; try reflexivity; now rewrite Ep.
        -- destruct (node_at l (d ++ [x])) as [[y|]|]; try destruct md; cbn [retarget]; try reflexivity; now rewrite Ep.
      * destruct (cpath_eqb (d ++ [x]) cp) eqn:Ep.
        -- specialize (Hcp _ Ep). destruct (node_at l (d ++ [x])) as [[y|]|]; try reflexivity. congruence.
        -- destruct (node_at l (d ++ [x])) as [[y|]|]; try reflexivity. apply IH.
Qed.

Theorem resolve_set_file l cp c p : notdir l cp ->
  resolve (set_file l cp c) p = retarget cp c (resolve l p).
Proof.
  intros Hn. unfold resolve. destruct p as [|ch r]; [reflexivity|]. rewrite cwd_set_file.
  set (start := if path_absolute (ch :: r) then [] else cwd l).
  destruct (node_at l start) as [[y|]|] eqn:E.
  - assert (H : node_at (set_file l cp c) start <> Some NDir).
    { intros H. apply (node_at_set_dir l cp c start Hn) in H. congruence. }
    destruct (node_at (set_file l cp c) start) as [[z|]|]; try reflexivity. congruence.
  - assert (H : node_at (set_file l cp c) start = Some NDir) by (now apply node_at_set_dir).
    rewrite H. now apply walk_set_file.
  - assert (H : node_at (set_file l cp c) start <> Some NDir).
    { intros H. apply (node_at_set_dir l cp c start Hn) in H. congruence. }
    destruct (node_at (set_file l cp c) start) as [[z|]|]; try reflexivity. congruence.
Qed.

(* no resolution target moves *)
Corollary fs_target_set_file l cp c p : notdir l cp -> fs_target (set_file l cp c) p = fs_target l p.
Proof.
  intros Hn. unfold fs_target. rewrite resolve_set_file by assumption.
  destruct (resolve l p) as [[q x]|]; cbn [retarget option_map]; [|reflexivity]. now destruct (cpath_eqb q cp).
Qed.

(* a string that denotes cp shows the new content *)
Corollary fs_get_set_same l cp c p : notdir l cp -> fs_target l p = Some cp -> fs_get (set_file l cp c) p = Some c.
Proof.
  intros Hn Ht. unfold fs_get. rewrite resolve_set_file by assumption. unfold fs_target in Ht.
  destruct (resolve l p) as [[q x]|]; cbn [option_map fst] in Ht; [|discriminate]. injection Ht as ->.
  cbn [retarget]. now rewrite cpath_eqb_refl.
Qed.

(* every other string shows what it showed before *)
Corollary fs_get_set_other l cp c p : notdir l cp -> fs_target l p <> Some cp -> fs_get (set_file l cp c) p = fs_get l p.
Proof.
  intros Hn Ht. unfold fs_get. rewrite resolve_set_file by assumption. unfold fs_target in Ht.
  destruct (resolve l p) as [[q x]|]; cbn [option_map fst retarget] in *; [|reflexivity].
  destruct (cpath_eqb q cp) eqn:E; [|reflexivity]. apply cpath_eqb_eq in E. subst q. congruence.
Qed.

Corollary fs_exists_set_other l cp c p : notdir l cp -> fs_target l p <> Some cp ->
  fs_exists (set_file l cp c) p = fs_exists l p.
Proof.
  intros Hn Ht. unfold fs_exists. rewrite resolve_set_file by assumption. unfold fs_target in Ht.
  destruct (resolve l p) as [[q x]|]; cbn [option_map fst retarget] in *; [|reflexivity].
  destruct (cpath_eqb q cp) eqn:E; [|reflexivity]. apply cpath_eqb_eq in E. subst q. congruence.
Qed.

(* ---------- where File::create can put a file ---------- *)
Lemma fs_create_target_inv l p cp : fs_create_target l p = Some cp ->
  fs_target l p = Some cp /\ notdir l cp /\
  (resolve l p = Some (cp, None) \/ exists c0, resolve l p = Some (cp, Some (NFile c0))).
Proof.
  unfold fs_create_target, fs_target. destruct (resolve l p) as [[q [[c0|]|]]|] eqn:E; try discriminate;
    intros [= ->]; (split; [reflexivity|]); (split; [unfold notdir; rewrite (resolve_node _ _ _ _ E); discriminate|]); eauto.
Qed.

Lemma fs_create_target_none l p : fs_create_target l p = None <->
  (resolve l p = None \/ exists cp, resolve l p = Some (cp, Some NDir)).
Proof.
  unfold fs_create_target. destruct (resolve l p) as [[q [[c0|]|]]|]; split; try discriminate; eauto;
    intros [H|[cp H]]; discriminate.
Qed.

(* after the write the path denotes a regular file with that content, and can be written again at the same place *)
Lemma fs_create_target_written l p cp c : fs_create_target l p = Some cp ->
  fs_get (set_file l cp c) p = Some c /\ fs_create_target (set_file l cp c) p = Some cp /\
  resolve (set_file l cp c) p = Some (cp, Some (NFile c)).
Proof.
  intros H. destruct (fs_create_target_inv _ _ _ H) as (Ht & Hn & Hr).
  split; [now apply fs_get_set_same|].
  assert (R : resolve (set_file l cp c) p = Some (cp, Some (NFile c))).
  { rewrite resolve_set_file by assumption. destruct Hr as [->|[c0 ->]]; cbn [retarget]; now rewrite cpath_eqb_refl. }
  split; [unfold fs_create_target; now rewrite R | exact R].
Qed.

(* a regular file seen through a path: the path can be written *)
Lemma fs_get_create_target l p c : fs_get l p = Some c ->
  exists cp, resolve l p = Some (cp, Some (NFile c)) /\ fs_create_target l p = Some cp /\ fs_target l p = Some cp.
Proof.
  unfold fs_get, fs_create_target, fs_target. destruct (resolve l p) as [[q [[c0|]|]]|]; try discriminate.
  intros [= ->]. exists q. repeat split.
Qed.

(* the strings that never resolve *)
Lemma resolve_empty l : resolve l [] = None.
Proof. reflexivity. Qed.

(* no node other than the written one changes, none is added, none is removed *)
Theorem set_file_nodes l cp c : cp <> [] ->
  node_at (set_file l cp c) cp = Some (NFile c) /\
  (forall q, q <> cp -> node_at (set_file l cp c) q = node_at l q) /\
  cwd (set_file l cp c) = cwd l.
Proof. intros H. split; [now apply node_at_set_same|]. split; [intros q Hq; now apply node_at_set_other | reflexivity]. Qed.

(* ---------- a well-formed tree stays well-formed ---------- *)
(* every node other than the root sits in a directory, and the current directory is a directory *)
Definition fs_wf (l : fsys) : Prop :=
  (forall p n, p <> [] -> node_at l p = Some n -> node_at l (parent p) = Some NDir) /\
  node_at l (cwd l) = Some NDir.

Lemma set_file_wf l cp c : fs_wf l -> notdir l cp -> node_at l (parent cp) = Some NDir -> fs_wf (set_file l cp c).
Proof.
  intros [Hp Hc] Hn Hpar. split.
  - intros p n Hne Hat. destruct (cpath_eqb p cp) eqn:E.
    + apply cpath_eqb_eq in E. subst p. now apply node_at_set_dir.
    + assert (p <> cp) by (intros ->; now rewrite cpath_eqb_refl in E).
      rewrite node_at_set_other in Hat by assumption. apply node_at_set_dir; [assumption|]. now apply (Hp p n).
  - rewrite cwd_set_file. now apply node_at_set_dir.
Qed.

(* a name that can be created sits in an existing directory *)
Lemma walk_new_parent l : forall cs d md p, walk l d cs md = Some (p, None) -> node_at l (parent p) = Some NDir.
Proof.
  induction cs as [|c rest IH]; intros d md p; cbn [walk].
  - destruct (node_at l d) as [[|]|]; discriminate.
  - destruct (text_eqb c s_dot); [apply IH|]. destruct (text_eqb c s_dotdot); [apply IH|].
    destruct (node_at l d) as [[|]|] eqn:Ed; try discriminate.
    destruct rest as [|c' rest'].
    + destruct (node_at l (d ++ [c])) as [[y|]|]; try (destruct md; discriminate); try discriminate.
      destruct md; [discriminate|]. intros [= <-]. unfold parent. rewrite removelast_last. exact Ed.
    + destruct (node_at l (d ++ [c])) as [[y|]|]; try discriminate. apply IH.
Qed.

Lemma fs_create_target_parent l p cp : fs_wf l -> fs_create_target l p = Some cp -> node_at l (parent cp) = Some NDir.
Proof.
  intros [Hp _] Hc. destruct (fs_create_target_inv _ _ _ Hc) as (_ & _ & [Hr|[c0 Hr]]).
  - unfold resolve in Hr. destruct p as [|ch r]; [discriminate|].
    destruct (node_at l _) as [[|]|]; try discriminate. exact (walk_new_parent _ _ _ _ _ Hr).
  - pose proof (resolve_node _ _ _ _ Hr) as Hn. apply (Hp cp (NFile c0)); [|exact Hn].
    intros ->. discriminate Hn.
Qed.

(* File::create through a path string keeps a well-formed tree well-formed *)
Theorem create_keeps_wf l p cp c : fs_wf l -> fs_create_target l p = Some cp -> fs_wf (set_file l cp c).
Proof.
  intros Hwf Hc. destruct (fs_create_target_inv _ _ _ Hc) as (_ & Hn & _).
  apply set_file_wf; [exact Hwf | exact Hn | now apply (fs_create_target_parent l p)].
Qed.

Print Assumptions resolve_set_file.
Print Assumptions fs_create_target_written.
Print Assumptions set_file_wf.
Print Assumptions create_keeps_wf.
