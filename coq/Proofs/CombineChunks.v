(* Proofs/CombineChunks.v — chunk-layer corollaries that need NO cryptographic premise:
   * a well-framed first record that does not open under the key in use is rejected with
     ChaPolyDecrypt and the sink is never called (wrong key / wrong password);
   * every proper prefix of an honest chunk stream is rejected (never Ok, for every script);
   * an honest chunk stream followed by at least one byte is rejected with UnexpectedData after the
     non-final chunks have been released (conforming scripts), and for every script Ok can only
     mean that exactly the complete plaintext was written. *)
From Kestrel Require Import Bytes BytesFacts Outcome IO IOFacts Prims.
From Kestrel.Model Require Import AeadWrap Chunks ChunksRobustDefs EventPreds CombineDefs.
From Kestrel.Proofs Require Import MonadFacts ChunksDec ChunksAuth ChunksOpen ChunksRobust FilesFacts.
From Coq Require Import ZifyBool ZifyNat ZifyN.
Local Open Scope N_scope.

Lemma app_split_le {A} (data suffix a b : list A) :
  data ++ suffix = a ++ b -> (length a <= length data)%nat ->
  exists d2, data = a ++ d2 /\ d2 ++ suffix = b.
Proof.
  revert data. induction a as [|x a IH]; intros data E Hl.
  - exists data. split; [reflexivity|exact E].
  - destruct data as [|y data]; [cbn in Hl; lia|]. cbn in E. injection E as -> E.
    destruct (IH data E) as (d2 & -> & H2); [cbn in Hl; lia|]. exists d2. split; [reflexivity|exact H2].
Qed.

Lemma app_split_ge {A} (data suffix a b : list A) :
  data ++ suffix = a ++ b -> (length data <= length a)%nat -> firstn (length data) a = data.
Proof.
  revert a. induction data as [|y data IH]; intros a E Hl; [reflexivity|].
  destruct a as [|x a]; [cbn in Hl; lia|]. cbn in E. injection E as -> E. cbn [length firstn]. f_equal.
  apply IH; [exact E|cbn in Hl; lia].
Qed.

(* ================= wrong key: the first record does not open ================= *)
Section WrongKey.
Variable P : prims.
Variable key' aad : bytes.
Variable cs : N.
Hypothesis Hkey' : length key' = 32%nat.

(* any offered bytes whose first record is well framed (length field <= cs, enough bytes), conforming
   reader, ANY writer: if no open under key' succeeds in the run, the result is ChaPolyDecrypt, the
   writer state is literally unchanged (no write or flush call was made) *)
Theorem dec_first_record_wrong_key s hdr ct rest res s' d :
  reader_ok (rdr s) -> r_data (rdr s) = hdr ++ ct ++ rest -> length hdr = 16%nat ->
  de32 (hdr_len hdr) <= cs -> length ct = (N.to_nat (de32 (hdr_len hdr)) + 16)%nat ->
  decrypt_chunks P key' aad cs s = (res, s') -> log s' = d ++ log s ->
  (forall m ad c pt, ~ In (EvOpen key' m ad c (Some pt)) d) ->
  res = Err DChaPolyDecrypt /\ wtr s' = wtr s /\ Forall no_out_ev d /\ r_data (rdr s') = rest.
Proof.
  intros Hr Hd Hh Hlen Hct E Hlog Hno. unfold decrypt_chunks in E.
  cbn [decrypt_chunks_loop] in E.
  destruct (step_read_exact (E:=derr) d_read_err 16 s Hr) as (s1 & d1 & E1 & Hd1 & Hr1 & Hw1 & Hl1 & Hev1 & _).
  { rewrite Hd, app_length. lia. }
  rewrite Hd in E1, Hd1. rewrite <- Hh in E1 at 2. rewrite firstn_app_exact in E1.
  rewrite <- Hh in Hd1 at 1. rewrite skipn_app_exact in Hd1.
  rewrite (bind_ok _ _ _ _ _ E1) in E.
  destruct (N.ltb_spec cs (de32 (hdr_len hdr))) as [Hlt|_]; [lia|].
  destruct (step_read_exact (E:=derr) d_read_err (N.to_nat (de32 (hdr_len hdr)) + 16) s1 Hr1)
    as (s2 & d2 & E2 & Hd2 & Hr2 & Hw2 & Hl2 & Hev2 & _).
  { rewrite Hd1, app_length. lia. }
  rewrite Hd1 in E2, Hd2. rewrite <- Hct in E2 at 2. rewrite firstn_app_exact in E2.
  rewrite <- Hct in Hd2. rewrite skipn_app_exact in Hd2.
  rewrite (bind_ok _ _ _ _ _ E2) in E.
  unfold bind at 1 in E. rewrite (m_open_eq P key' Hkey') in E.
  set (ad := aad ++ hdr_last hdr ++ hdr_len hdr) in *.
  assert (Hl12 : log s2 = (d2 ++ d1) ++ log s) by (rewrite Hl2, Hl1; now rewrite app_assoc).
  assert (Hfail : (res, s') = (Err DChaPolyDecrypt, with_log s2 (EvOpen key' 0 ad ct None)) ->
    res = Err DChaPolyDecrypt /\ wtr s' = wtr s /\ Forall no_out_ev d /\ r_data (rdr s') = rest).
  { intros [= -> ->]. split; [reflexivity|]. split; [cbn [wtr with_log]; now rewrite Hw2, Hw1|].
    split; [|exact Hd2].
    cbn [log with_log] in Hlog. rewrite Hl12 in Hlog.
    change (EvOpen key' 0 ad ct None :: (d2 ++ d1) ++ log s) with ((EvOpen key' 0 ad ct None :: d2 ++ d1) ++ log s) in Hlog.
    apply app_inv_tail in Hlog. subst d. constructor; [exact I|].
    apply Forall_app. split; now apply read_evs_no_out. }
  destruct (Nat.ltb (length ct) 16); [apply Hfail; symmetry; exact E|].
  destruct (p_open P key' (noise_nonce 0) ad ct) as [pt|] eqn:Eo; [|apply Hfail; symmetry; exact E].
  exfalso. clear Hfail.
  set (s3 := with_log s2 (EvOpen key' 0 ad ct (Some pt))) in *.
  change (dec_tail P key' aad cs (length (r_data (rdr s))) 0 pt (de32 (hdr_last hdr) =? 1) s3 = (res, s')) in E.
  destruct (dec_tail_log_mono P key' aad cs Hkey' _ _ _ _ _ _ _ E) as [d3 Hd3].
  unfold s3 in Hd3. cbn [log with_log] in Hd3. rewrite Hl12 in Hd3.
  rewrite Hd3 in Hlog.
  assert (Hd' : d = d3 ++ EvOpen key' 0 ad ct (Some pt) :: d2 ++ d1).
  { apply (app_inv_tail (log s)). rewrite <- Hlog. rewrite <- !app_assoc. cbn [app]. rewrite <- app_assoc. reflexivity. }
  apply (Hno 0 ad ct pt). rewrite Hd'. apply in_or_app. right. left. reflexivity.
Qed.

End WrongKey.

(* ================= honest streams: prefix and extension ================= *)
Section Honest.
Variable P : prims.
Variable key aad : bytes.
Variable cs : N.
Hypothesis Hkey : length key = 32%nat.
Hypothesis Haead : aead_ok P.
Hypothesis Hcs : cs < 4294967296.

Notation record := (record P key aad).
Notation spec_from := (spec_chunks_from P key aad).
Notation pure := (dec_pure P).

Notation rec_ct := (rec_ct P key aad).

Lemma record_parts n b c : record n b c = rec_hdr n b c ++ rec_ct n b c.
Proof. apply record_split. Qed.
Lemma rec_hdr_len n b c : length (rec_hdr n b c) = 16%nat.
Proof. reflexivity. Qed.
Lemma rec_ct_len n b c : length (rec_ct n b c) = (length c + 16)%nat.
Proof. apply (seal_len P Haead). Qed.
Lemma record_len n b c : length (record n b c) = (32 + length c)%nat.
Proof. rewrite record_parts, app_length, rec_hdr_len, rec_ct_len. lia. Qed.
Lemma rec_hdr_lenfield n b c : chunk_ok cs c -> de32 (hdr_len (rec_hdr n b c)) = N.of_nat (length c).
Proof.
  unfold chunk_ok. intros Hc. change (hdr_len (rec_hdr n b c)) with (be32 (N.of_nat (length c))).
  apply de32_be32. lia.
Qed.

(* the framing of an honest record is accepted whatever the key used for decryption *)
Lemma record_framing n b c rest : chunk_ok cs c ->
  record n b c ++ rest = rec_hdr n b c ++ rec_ct n b c ++ rest /\
  length (rec_hdr n b c) = 16%nat /\ de32 (hdr_len (rec_hdr n b c)) <= cs /\
  length (rec_ct n b c) = (N.to_nat (de32 (hdr_len (rec_hdr n b c))) + 16)%nat.
Proof.
  intros Hc. split; [rewrite record_parts, <- app_assoc; reflexivity|].
  split; [reflexivity|]. rewrite (rec_hdr_lenfield n b c Hc). unfold chunk_ok in Hc.
  split; [lia|]. rewrite rec_ct_len. lia.
Qed.

Lemma spec_from_head n c tl : exists b rest, spec_from n (c :: tl) = record n b c ++ rest.
Proof.
  destruct tl as [|c2 tl].
  - exists true, []. cbn [spec_chunks_from]. now rewrite app_nil_r.
  - exists false, (spec_from (n + 1) (c2 :: tl)). reflexivity.
Qed.

(* one honest record through the script-free decryptor *)
Lemma pure_record f n b c d2 : chunk_ok cs c ->
  pure (S f) key aad cs n (record n b c ++ d2) =
  if b then match d2 with [] => (Ok tt, [c], []) | _ :: _ => (Err DUnexpectedData, [], [c]) end
  else let '(r, l, x) := pure f key aad cs (n + 1) d2 in (r, c :: l, x).
Proof.
  intros Hc. destruct (record_framing n b c d2 Hc) as (Esplit & Hh & Hle & Hct).
  rewrite Esplit. rewrite dec_pure_step; [|exact Hh| |exact Hct].
  2:{ destruct (N.ltb_spec cs (de32 (hdr_len (rec_hdr n b c)))) as [Hlt|_]; [lia|reflexivity]. }
  change (hdr_len (rec_hdr n b c)) with (be32 (N.of_nat (length c))).
  change (hdr_last (rec_hdr n b c)) with (be32 (flag b)).
  rewrite (chapoly_decrypt_noise_eq P key Hkey).
  fold (rec_ct n b c) in Hct. rewrite rec_ct_len.
  destruct (Nat.ltb_spec (length c + 16) 16) as [Hlt|_]; [lia|].
  change (aad ++ be32 (flag b) ++ be32 (N.of_nat (length c))) with (rec_ad aad b c).
  unfold CombineDefs.rec_ct. rewrite (open_seal P Haead). rewrite flag_de.
  destruct b; reflexivity.
Qed.

(* ---------- extension ---------- *)
Lemma pure_extension : forall chunks n x rest fuel,
  chunks <> [] -> Forall (chunk_ok cs) chunks -> (length chunks <= fuel)%nat ->
  pure fuel key aad cs n (spec_from n chunks ++ x :: rest) =
  (Err DUnexpectedData, removelast chunks, [last chunks []]).
Proof.
  induction chunks as [|c tl IH]; intros n x rest fuel Hne Hok Hf; [congruence|].
  inversion Hok as [|? ? Hc Htl]; subst.
  destruct fuel as [|fuel]; [cbn in Hf; lia|].
  destruct tl as [|c2 tl'].
  - cbn [spec_chunks_from]. rewrite (pure_record fuel n true c (x :: rest) Hc). reflexivity.
  - change (spec_from n (c :: c2 :: tl')) with (record n false c ++ spec_from (n + 1) (c2 :: tl')).
    rewrite <- app_assoc. rewrite (pure_record fuel n false c _ Hc).
    rewrite (IH (n + 1) x rest fuel); [|discriminate|exact Htl|cbn in Hf |- *; lia].
    reflexivity.
Qed.

Lemma spec_from_length_ge : forall chunks n, (length chunks <= length (spec_from n chunks))%nat.
Proof.
  induction chunks as [|c tl IH]; intros n; [cbn; lia|].
  destruct tl as [|c2 tl'].
  - cbn [spec_chunks_from]. rewrite record_len. cbn. lia.
  - change (spec_from n (c :: c2 :: tl')) with (record n false c ++ spec_from (n + 1) (c2 :: tl')).
    rewrite app_length, record_len. specialize (IH (n + 1)). cbn [length] in *. lia.
Qed.

Lemma removelast_last_concat (chunks : list bytes) : chunks <> [] ->
  concat (removelast chunks ++ [last chunks []]) = concat chunks.
Proof. intros Hne. f_equal. symmetry. now apply app_removelast_last. Qed.

(* honest stream followed by at least one byte, conforming scripts: UnexpectedData, and exactly the
   non-final chunks have been written *)
Theorem dec_extension_rejected chunks x rest s :
  chunks <> [] -> Forall (chunk_ok cs) chunks ->
  reader_ok (rdr s) -> writer_ok (wtr s) ->
  r_data (rdr s) = spec_chunks P key aad chunks ++ x :: rest ->
  exists s', decrypt_chunks P key aad cs s = (Err DUnexpectedData, s') /\
             w_out (wtr s') = w_out (wtr s) ++ concat (removelast chunks).
Proof.
  intros Hne Hok Hr Hw Hd.
  apply (dec_sched_pure P key aad cs s _ _ [last chunks []] Hr Hw).
  unfold dec_pure_file. rewrite Hd. unfold spec_chunks. apply pure_extension; try assumption.
  rewrite app_length. pose proof (spec_from_length_ge chunks 0). lia.
Qed.

(* the same offered bytes, EVERY script (short reads, zero-length reads, faults): the sink only ever
   holds a prefix of the honest plaintext; Ok is impossible when no read returns zero bytes while data
   remains (Read contract), and in any case Ok means exactly the complete plaintext was written *)
Theorem dec_extension_any_script chunks x rest s res s' :
  chunks <> [] -> Forall (chunk_ok cs) chunks ->
  r_data (rdr s) = spec_chunks P key aad chunks ++ x :: rest ->
  decrypt_chunks P key aad cs s = (res, s') ->
  exists written, w_out (wtr s') = w_out (wtr s) ++ written /\
    (exists more, concat chunks = written ++ more) /\
    (res = Ok tt -> written = concat chunks) /\
    (Forall rd_nonzero (r_script (rdr s)) -> res <> Ok tt /\ exists more, concat (removelast chunks) = written ++ more).
Proof.
  intros Hne Hok Hd E.
  assert (Hp : dec_pure_file P key aad cs (r_data (rdr s)) = (Err DUnexpectedData, removelast chunks, [last chunks []])).
  { unfold dec_pure_file. rewrite Hd. unfold spec_chunks. apply pure_extension; try assumption.
    rewrite app_length. pose proof (spec_from_length_ge chunks 0). lia. }
  destruct (dec_prefix_pure P key aad cs s res s' _ _ _ E Hp) as (written & Ho & Hpre & Hok' & Hnz).
  rewrite (removelast_last_concat chunks Hne) in Hpre, Hok'.
  exists written. split; [exact Ho|]. split; [exact Hpre|]. split; [intros Hres; now apply Hok'|].
  intros Hz. destruct (Hnz Hz) as (Hpre' & Hres'). split; [|exact Hpre'].
  intros Hres. destruct (Hres' Hres) as (Habs & _). discriminate Habs.
Qed.

(* ---------- proper prefixes ---------- *)
Lemma pure_prefix : forall chunks n data suffix fuel,
  chunks <> [] -> Forall (chunk_ok cs) chunks ->
  data ++ suffix = spec_from n chunks -> suffix <> [] -> (length data < fuel)%nat ->
  exists j, (j < length chunks)%nat /\
    pure fuel key aad cs n data = (Err (DIORead OtherErr), firstn j chunks, []).
Proof.
  induction chunks as [|c tl IH]; intros n data suffix fuel Hne Hok Hd Hsuf Hf; [congruence|].
  inversion Hok as [|? ? Hc Htl]; subst.
  destruct fuel as [|fuel]; [lia|].
  destruct (spec_from_head n c tl) as (b & rest & Hhead).
  rewrite Hhead in Hd.
  destruct (record_framing n b c rest Hc) as (Esplit & Hh & Hle & Hct).
  destruct (Nat.lt_ge_cases (length data) (length (record n b c))) as [Hshort|Hlong].
  - (* truncated inside the first record *)
    exists 0%nat. split; [cbn; lia|]. cbn [firstn]. rewrite dec_pure_S.
    destruct (Nat.ltb_spec (length data) 16) as [H16|H16]; [reflexivity|].
    cbv zeta.
    rewrite Esplit in Hd.
    destruct (app_split_le data suffix (rec_hdr n b c) _ Hd) as (d1 & Hdata & Hd1); [rewrite Hh; lia|].
    assert (Hf16 : firstn 16 data = rec_hdr n b c).
    { rewrite Hdata. rewrite <- Hh at 1. apply firstn_app_exact. }
    assert (Hs16 : skipn 16 data = d1).
    { rewrite Hdata. rewrite <- Hh at 1. apply skipn_app_exact. }
    rewrite Hf16, Hs16.
    destruct (N.ltb_spec cs (de32 (hdr_len (rec_hdr n b c)))) as [Hlt|_]; [lia|].
    destruct (Nat.ltb_spec (length d1) (N.to_nat (de32 (hdr_len (rec_hdr n b c))) + 16)) as [_|Hge]; [reflexivity|].
    exfalso. rewrite <- Hct in Hge. rewrite Hdata, app_length, Hh in Hshort.
    rewrite record_parts, app_length, Hh in Hshort. lia.
  - (* the whole first record is there *)
    destruct (app_split_le data suffix (record n b c) rest Hd Hlong) as (d2 & Hdata & Hd2).
    destruct tl as [|c2 tl'].
    + (* single chunk: the prefix would not be proper *)
      exfalso. cbn [spec_chunks_from] in Hhead.
      assert (Hlen : length (record n true c) = length (record n b c ++ rest)) by (now rewrite Hhead).
      rewrite app_length, !record_len in Hlen.
      assert (Hrest : rest = []) by (destruct rest; [reflexivity|cbn in Hlen; lia]). rewrite Hrest in Hd2.
      apply app_eq_nil in Hd2. destruct Hd2 as [_ Hd2]. contradiction.
    + change (spec_from n (c :: c2 :: tl')) with (record n false c ++ spec_from (n + 1) (c2 :: tl')) in Hhead.
      assert (Hb : b = false /\ rest = spec_from (n + 1) (c2 :: tl')).
      { destruct b.
        - exfalso. rewrite !record_parts, <- !app_assoc in Hhead.
          apply app_len_inj in Hhead; [|reflexivity]. destruct Hhead as [Hhd _].
          unfold rec_hdr in Hhd. apply app_inv_head in Hhd. apply app_len_inj in Hhd; [|reflexivity].
          destruct Hhd as [Hfl _]. discriminate Hfl.
        - split; [reflexivity|]. apply app_inv_head in Hhead. now symmetry. }
      destruct Hb as [-> ->].
      destruct (IH (n + 1) d2 suffix fuel) as (j & Hj & Ej); [discriminate|exact Htl|exact Hd2|exact Hsuf| |].
      { rewrite Hdata, app_length, record_len in Hf. lia. }
      exists (S j). split; [cbn [length] in *; lia|].
      rewrite Hdata. rewrite (pure_record fuel n false c d2 Hc). rewrite Ej. reflexivity.
Qed.

(* every proper prefix of an honest stream, EVERY script (faults, short and zero-length reads):
   never Ok; the sink holds a prefix of the honest plaintext *)
Theorem dec_prefix_rejected chunks data suffix s res s' :
  chunks <> [] -> Forall (chunk_ok cs) chunks ->
  data ++ suffix = spec_chunks P key aad chunks -> suffix <> [] ->
  r_data (rdr s) = data ->
  decrypt_chunks P key aad cs s = (res, s') ->
  res <> Ok tt /\
  exists written more, w_out (wtr s') = w_out (wtr s) ++ written /\ concat chunks = written ++ more.
Proof.
  intros Hne Hok Hd Hsuf Hdata E.
  destruct (pure_prefix chunks 0 data suffix (S (length data)) Hne Hok Hd Hsuf) as (j & Hj & Ep); [lia|].
  subst data. unfold dec_pure_file in *.
  destruct (dec_prefix_pure P key aad cs s res s' _ _ _ E Ep) as (written & Ho & Hpre & Hok' & _).
  split.
  - intros Hres. destruct (Hok' Hres) as (_ & [Habs|Habs]); discriminate Habs.
  - destruct Hpre as (more & Hmore). rewrite app_nil_r in Hmore.
    exists written, (more ++ concat (skipn j chunks)). split; [exact Ho|].
    rewrite app_assoc, <- Hmore, <- concat_app, firstn_skipn. reflexivity.
Qed.

(* conforming scripts: the error is the read error of a short file, and whole chunks were released *)
Theorem dec_prefix_rejected_conforming chunks data suffix s :
  chunks <> [] -> Forall (chunk_ok cs) chunks ->
  data ++ suffix = spec_chunks P key aad chunks -> suffix <> [] ->
  reader_ok (rdr s) -> writer_ok (wtr s) -> r_data (rdr s) = data ->
  exists s' j, (j < length chunks)%nat /\
    decrypt_chunks P key aad cs s = (Err (DIORead OtherErr), s') /\
    w_out (wtr s') = w_out (wtr s) ++ concat (firstn j chunks).
Proof.
  intros Hne Hok Hd Hsuf Hr Hw Hdata.
  destruct (pure_prefix chunks 0 data suffix (S (length data)) Hne Hok Hd Hsuf) as (j & Hj & Ep); [lia|].
  subst data.
  destruct (dec_sched_pure P key aad cs s _ _ _ Hr Hw Ep) as (s' & E & Ho).
  exists s', j. auto.
Qed.

End Honest.

Section Closure.
Print Assumptions dec_first_record_wrong_key.
Print Assumptions dec_extension_rejected.
Print Assumptions dec_extension_any_script.
Print Assumptions dec_prefix_rejected.
Print Assumptions dec_prefix_rejected_conforming.
End Closure.
