(* Proofs/CombineEncFault.v — the ENCRYPT side under arbitrary scripts (faults at any call):
   every I/O failure is an error identifying the failing side, the failing call is the last event of the
   run, Ok implies no failure happened; never a panic.  Chunk layer and file level (key_encrypt,
   pass_encrypt), for EVERY io state. *)
From Kestrel Require Import Bytes BytesFacts Outcome IO IOFacts Prims.
From Kestrel.gen Require Import Extracted.
From Kestrel.Model Require Import AeadWrap Chunks Noise NoiseSpec Files EventPreds FilesSpec ChunksSpec ChunksRobustDefs CombineDefs EncFaultDefs.
From Kestrel.Proofs Require Import MonadFacts ChunksDec ChunksEnc ChunksRobust NoiseFacts FilesFacts CombineFiles.
From Coq Require Import ZifyBool ZifyNat ZifyN.
Local Open Scope N_scope.

Section EncFault.
Variable P : prims.

Lemma eerrview_err {A} (r : outcome eerr A) e : r = Err e <-> eerrview r = Some e.
Proof. destruct r; cbn; split; intros H; try discriminate; congruence. Qed.

Lemma efault_shape_ok_benign {A} d (a : A) : efault_shape d (@Ok eerr A a) -> Forall benign d.
Proof.
  intros [[H _]|(e & d' & _ & _ & _ & Hr)]; [exact H|].
  destruct e; cbn in Hr; try contradiction.
  1: destruct Hr as (_ & Hr); discriminate.
  all: destruct Hr as (ie & Hr); discriminate.
Qed.

Lemma efault_shape_view {A B} d (r : outcome eerr A) (r' : outcome eerr B) :
  eerrview r = eerrview r' -> efault_shape d r -> efault_shape d r'.
Proof.
  intros Hv [[Hb [Hw Hi]]|(e & d' & -> & Hb & Hnb & Hr)].
  - left. split; [exact Hb|]. split.
    + intros ie Hr. apply (Hw ie). apply eerrview_err. rewrite Hv. now apply eerrview_err.
    + intros ie Hr. apply Hi. apply eerrview_err. rewrite Hv. now apply eerrview_err.
  - right. exists e, d'. repeat split; try assumption.
    destruct e; cbn in Hr |- *; try contradiction.
    1: destruct Hr as (Hne & Hr); split; [exact Hne|].
    2-4: destruct Hr as (ie & Hr); exists ie.
    all: apply eerrview_err; rewrite <- Hv; now apply eerrview_err.
Qed.

Lemma efs_bind {A B} (m : M eerr A) (f : A -> M eerr B) :
  efstop m -> (forall a, efstop (f a)) -> efstop (bind m f).
Proof.
  intros Hm Hf s r s' E0. unfold bind in E0. destruct (m s) as [r1 s1] eqn:E1.
  destruct (Hm _ _ _ E1) as (d1 & H1 & S1).
  destruct r1 as [a|e|w|].
  2,3,4: injection E0 as <- <-; exists d1; split; [exact H1|]; eapply efault_shape_view; [|exact S1]; reflexivity.
  apply efault_shape_ok_benign in S1.
  destruct (Hf a _ _ _ E0) as (d2 & H2 & S2). exists (d2 ++ d1). rewrite H2, H1, app_assoc.
  split; [reflexivity|].
  destruct S2 as [[Hb [Hw Hi]]|(e & d' & -> & Hb & Hnb & Hr)].
  - left. split; [apply Forall_app; split; assumption|]. split; [exact Hw|].
    intros ie Hr. destruct (Hi ie Hr) as (Hie & n & d' & ->). split; [exact Hie|]. eexists n, _. reflexivity.
  - right. exists e, (d' ++ d1). repeat split; try assumption. apply Forall_app; split; assumption.
Qed.

Lemma efs_nil {A} (m : M eerr A) :
  (forall s, exists r, m s = (r, s) /\ (forall ie, r <> Err (EIORead ie)) /\ (forall ie, r <> Err (EIOWrite ie))) -> efstop m.
Proof.
  intros H s r s' E0. destruct (H s) as (r0 & H0 & Hnr & Hnw). rewrite H0 in E0. injection E0 as <- <-.
  exists []. split; [reflexivity|]. left. split; [constructor|]. split; [exact Hnw|].
  intros ie Hr. destruct (Hnr ie Hr).
Qed.
Lemma efs_ret {A} (a : A) : efstop (ret a).
Proof. apply efs_nil. intros s. eexists. split; [reflexivity|]. split; discriminate. Qed.
Lemma efs_fail_unexpected {A} : efstop (@fail eerr A EUnexpectedData).
Proof. apply efs_nil. intros s. eexists. split; [reflexivity|]. split; discriminate. Qed.
Lemma efs_fail_other {A} : efstop (@fail eerr A EOther).
Proof. apply efs_nil. intros s. eexists. split; [reflexivity|]. split; discriminate. Qed.
Lemma efs_lift_nonerr {A} (o : outcome eerr A) : (forall e, o <> Err e) -> efstop (lift o).
Proof. intros Hn. apply efs_nil. intros s. exists o. split; [reflexivity|]. split; intros ie; apply Hn. Qed.

(* the encryptor's raw read(buf) call: not retried *)
Lemma efs_read n : efstop (m_read EIORead n).
Proof.
  intros s r s' E0. apply m_read_cases in E0. destruct E0 as (_ & H).
  destruct r as [b|e|w|]; try contradiction.
  - destruct H as (H & _). eexists [_]. split; [exact H|]. left.
    split; [repeat constructor|]. split; discriminate.
  - destruct H as (ie & -> & H & _). eexists [_]. split; [exact H|].
    destruct ie.
    + left. split; [repeat constructor|]. split; [discriminate|].
      intros ie [= <-]. split; [reflexivity|]. eexists _, []. reflexivity.
    + right. eexists _, []. split; [reflexivity|]. split; [constructor|]. split; [cbn; auto|]. cbn. split; [discriminate|reflexivity].
    + right. eexists _, []. split; [reflexivity|]. split; [constructor|]. split; [cbn; auto|]. cbn. split; [discriminate|reflexivity].
    + right. eexists _, []. split; [reflexivity|]. split; [constructor|]. split; [cbn; auto|]. cbn. split; [discriminate|reflexivity].
Qed.

Lemma efs_write_all buf : efstop (m_write_all EIOWrite buf).
Proof.
  intros s r s' E0. apply m_write_all_cases in E0. destruct E0 as (_ & d & Hd & Hev & H).
  exists d. split; [exact Hd|]. destruct r as [u|e|w|]; try contradiction.
  - destruct H as [_ Hb]. left. split; [exact Hb|]. split; discriminate.
  - destruct H as ((ie & ->) & _ & e0 & d' & -> & Hb & Hnb). right. exists e0, d'. repeat split; try assumption.
    inversion Hev as [|? ? Hw0 _]; subst. destruct e0; cbn in Hw0; try contradiction; eexists; reflexivity.
Qed.

Lemma efs_flush : efstop (m_flush EIOWrite).
Proof.
  intros s r s' E0. apply m_flush_cases in E0. destruct E0 as (_ & _ & H).
  destruct r as [u|e|w|]; try contradiction.
  - eexists [_]. split; [exact H|]. left. split; [repeat constructor|]. split; discriminate.
  - destruct H as (ie & -> & H). eexists [_]. split; [exact H|]. right. eexists _, []. repeat split; [constructor|cbn; auto|].
    eexists. reflexivity.
Qed.

Lemma efs_seal key n ad pt : efstop (m_seal P (E:=eerr) key n ad pt).
Proof.
  intros s r s' E0. unfold m_seal in E0.
  destruct (chapoly_encrypt_noise P key n ad pt); injection E0 as <- <-.
  1: eexists [_]; split; [reflexivity|]; left; split; [repeat constructor|]; split; discriminate.
  all: exists []; split; [reflexivity|]; left; split; [constructor|]; split; discriminate.
Qed.

Lemma efs_emit ev : benign ev -> efstop (@emit eerr ev).
Proof.
  intros Hb s r s' E0. unfold emit in E0. injection E0 as <- <-. eexists [_]. split; [reflexivity|].
  left. split; [repeat constructor; exact Hb|]. split; discriminate.
Qed.

Lemma enc_loop_efstop key aad cs : forall fuel n prev done, efstop (encrypt_chunks_loop P fuel key aad cs n prev done).
Proof.
  induction fuel as [|f IH]; intros n prev done; [apply efs_lift_nonerr; discriminate|].
  cbn [encrypt_chunks_loop].
  apply efs_bind; [apply efs_read|intros cur].
  destruct (_ && done); [apply efs_fail_unexpected|].
  apply efs_bind; [apply efs_seal|intros ct].
  apply efs_bind; [apply efs_write_all|intros _].
  apply efs_bind; [apply efs_write_all|intros _].
  apply efs_bind; [apply efs_flush|intros _].
  destruct (done || _); [apply efs_ret|apply IH].
Qed.

Lemma encrypt_chunks_efstop key aad cs : efstop (encrypt_chunks P key aad cs).
Proof.
  intros s r s' E. unfold encrypt_chunks in E. revert E.
  apply (efs_bind (m_read EIORead (N.to_nat cs))); [apply efs_read|intros first]. apply enc_loop_efstop.
Qed.

Lemma key_encrypt_efstop fresh_pk fresh_e s spk r e epk pk : efstop (key_encrypt P fresh_pk fresh_e s spk r e epk pk).
Proof.
  unfold key_encrypt. cbv zeta.
  destruct (negb _); [apply efs_lift_nonerr; discriminate|].
  destruct (noise_encrypt P fresh_e s spk r e epk x_prologue _) as [[msg hh]|ne|w|].
  - apply efs_bind; [apply efs_write_all|intros _].
    apply efs_bind; [apply efs_write_all|intros _].
    apply efs_bind; [apply efs_flush|intros _]. apply encrypt_chunks_efstop.
  - apply efs_fail_other.
  - apply efs_lift_nonerr; discriminate.
  - apply efs_lift_nonerr; discriminate.
Qed.

Lemma pass_encrypt_efstop pw salt : efstop (pass_encrypt P pw salt).
Proof.
  unfold pass_encrypt. cbv zeta.
  apply efs_bind; [apply efs_emit; exact I|intros _].
  apply efs_bind; [apply efs_write_all|intros _].
  apply efs_bind; [apply efs_write_all|intros _].
  apply efs_bind; [apply efs_flush|intros _]. apply encrypt_chunks_efstop.
Qed.

(* from the shape to the statement of the property.  d = the new events, newest first. *)
Lemma efault_shape_elim {A} (d : list event) (res : outcome eerr A) : efault_shape d res ->
  ((exists a, res = Ok a) -> Forall benign d) /\
  (forall e, In e d -> ~ benign e ->
     (exists d', d = e :: d' /\ Forall benign d') /\
     (is_read_ev e -> exists n ie, e = EvReadErr n ie /\ ie <> Interrupted /\ res = Err (EIORead ie)) /\
     (is_write_ev e \/ is_flush_event e -> exists ie, res = Err (EIOWrite ie))) /\
  (forall ie, res = Err (EIORead ie) -> exists n d', d = EvReadErr n ie :: d' /\ Forall benign d') /\
  (forall ie, res = Err (EIOWrite ie) ->
     exists e d', d = e :: d' /\ Forall benign d' /\ ~ benign e /\ (is_write_ev e \/ is_flush_event e)).
Proof.
  intros [[Hb [Hw Hi]]|(e0 & d' & -> & Hb & Hnb & Hr)].
  - split; [intros _; exact Hb|]. split; [|split].
    + intros e Hin Hn. rewrite Forall_forall in Hb. destruct (Hn (Hb e Hin)).
    + intros ie Hr. destruct (Hi ie Hr) as (-> & n & d' & ->). exists n, d'. split; [reflexivity|]. now inversion Hb.
    + intros ie Hr. destruct (Hw ie Hr).
  - destruct e0 as [req got|req e1|off k|off e1|fr|k0 n0 ad0 ct0 r0|k0 n0 ad0 pt0|pw0 salt0 n0 r0 p0];
      cbn in Hr; try contradiction.
    + (* failed read *)
      destruct Hr as (Hne & ->). split; [intros (a & Ha); discriminate Ha|]. split; [|split].
      * intros e [<-|Hin] Hn; [|rewrite Forall_forall in Hb; destruct (Hn (Hb e Hin))].
        split; [exists d'; auto|]. split; [intros _; exists req, e1; auto|]. intros [[]|[]].
      * intros ie [= <-]. exists req, d'. auto.
      * intros ie Hx; discriminate Hx.
    + (* zero-length write *)
      destruct Hr as (ie0 & ->). split; [intros (a & Ha); discriminate Ha|]. split; [|split].
      * intros e [<-|Hin] Hn; [|rewrite Forall_forall in Hb; destruct (Hn (Hb e Hin))].
        split; [exists d'; auto|]. split; [intros []|]. intros _. eauto.
      * intros ie Hx; discriminate Hx.
      * intros ie _. eexists _, d'. split; [reflexivity|]. split; [exact Hb|]. split; [exact Hnb|]. left. exact I.
    + (* failed write *)
      destruct Hr as (ie0 & ->). split; [intros (a & Ha); discriminate Ha|]. split; [|split].
      * intros e [<-|Hin] Hn; [|rewrite Forall_forall in Hb; destruct (Hn (Hb e Hin))].
        split; [exists d'; auto|]. split; [intros []|]. intros _. eauto.
      * intros ie Hx; discriminate Hx.
      * intros ie _. eexists _, d'. split; [reflexivity|]. split; [exact Hb|]. split; [exact Hnb|]. left. exact I.
    + (* failed flush *)
      destruct Hr as (ie0 & ->). split; [intros (a & Ha); discriminate Ha|]. split; [|split].
      * intros e [<-|Hin] Hn; [|rewrite Forall_forall in Hb; destruct (Hn (Hb e Hin))].
        split; [exists d'; auto|]. split; [intros []|]. intros _. eauto.
      * intros ie Hx; discriminate Hx.
      * intros ie _. eexists _, d'. split; [reflexivity|]. split; [exact Hb|]. split; [exact Hnb|]. right. exact I.
Qed.

Lemma enc_fault_statement_unfold {A} (d : list event) (res : outcome eerr A) :
  enc_fault_statement d res <->
  ((exists a, res = Ok a) -> Forall benign d) /\
  (forall e, In e d -> ~ benign e ->
     (exists d', d = e :: d' /\ Forall benign d') /\
     (is_read_ev e -> exists n ie, e = EvReadErr n ie /\ ie <> Interrupted /\ res = Err (EIORead ie)) /\
     (is_write_ev e \/ is_flush_event e -> exists ie, res = Err (EIOWrite ie))) /\
  (forall ie, res = Err (EIORead ie) -> exists n d', d = EvReadErr n ie :: d' /\ Forall benign d') /\
  (forall ie, res = Err (EIOWrite ie) ->
     exists e d', d = e :: d' /\ Forall benign d' /\ ~ benign e /\ (is_write_ev e \/ is_flush_event e)).
Proof. reflexivity. Qed.

Theorem enc_fault_is_error key aad cs s res s' d :
  encrypt_chunks P key aad cs s = (res, s') -> log s' = d ++ log s -> enc_fault_statement d res.
Proof.
  intros E Hd. destruct (encrypt_chunks_efstop key aad cs _ _ _ E) as (d0 & Hd0 & Hs).
  rewrite Hd in Hd0. apply app_inv_tail in Hd0. subst d0. now apply efault_shape_elim.
Qed.

Theorem key_encrypt_fault_is_error fresh_pk fresh_e sk spk r e epk pk s res s' d :
  key_encrypt P fresh_pk fresh_e sk spk r e epk pk s = (res, s') -> log s' = d ++ log s ->
  enc_fault_statement d res.
Proof.
  intros E Hd. destruct (key_encrypt_efstop _ _ _ _ _ _ _ _ _ _ _ E) as (d0 & Hd0 & Hs).
  rewrite Hd in Hd0. apply app_inv_tail in Hd0. subst d0. now apply efault_shape_elim.
Qed.

Theorem pass_encrypt_fault_is_error pw salt s res s' d :
  pass_encrypt P pw salt s = (res, s') -> log s' = d ++ log s -> enc_fault_statement d res.
Proof.
  intros E Hd. destruct (pass_encrypt_efstop _ _ _ _ _ E) as (d0 & Hd0 & Hs).
  rewrite Hd in Hd0. apply app_inv_tail in Hd0. subst d0. now apply efault_shape_elim.
Qed.

End EncFault.

(* ---------- never a panic, file level, EVERY io state ---------- *)
Section EncNoPanic.
Variable P : prims.
Hypothesis Hh : hash_ok P.

Lemma nn_bind {A B} (m : M eerr A) (f : A -> M eerr B) s r s' :
  (forall r1 s1, m s = (r1, s1) -> ok_or_err r1) ->
  (forall a s1 r2 s2, f a s1 = (r2, s2) -> ok_or_err r2) ->
  bind m f s = (r, s') -> ok_or_err r.
Proof.
  intros Hm Hf E. unfold bind in E. destruct (m s) as [r1 s1] eqn:E1. specialize (Hm _ _ eq_refl).
  destruct r1 as [a|e|w|]; try contradiction.
  - exact (Hf _ _ _ _ E).
  - injection E as <- _. exact I.
Qed.

Lemma nn_write_all buf s r s' : m_write_all EIOWrite buf s = (r, s') -> ok_or_err r.
Proof. intros E. apply m_write_all_cases in E. destruct E as (_ & d & _ & _ & H). destruct r; try contradiction; exact I. Qed.
Lemma nn_flush s r s' : m_flush EIOWrite s = (r, s') -> ok_or_err r.
Proof. intros E. apply m_flush_cases in E. destruct E as (_ & _ & H). destruct r; try contradiction; exact I. Qed.

Lemma nn_header a b (k : M eerr unit) s r s' :
  (forall s1 r2 s2, k s1 = (r2, s2) -> ok_or_err r2) ->
  bind (m_write_all EIOWrite a) (fun _ => bind (m_write_all EIOWrite b) (fun _ => bind (m_flush EIOWrite) (fun _ => k))) s = (r, s') ->
  ok_or_err r.
Proof.
  intros Hk. apply nn_bind; [intros r1 s1; apply nn_write_all|intros _ s1 r2 s2].
  apply nn_bind; [intros r1 s1'; apply nn_write_all|intros _ s3 r3 s4].
  apply nn_bind; [intros r1 s1'; apply nn_flush|intros _ s5 r5 s6]. apply Hk.
Qed.

Theorem pass_encrypt_no_panic pw salt s res s' :
  pass_encrypt P pw salt s = (res, s') -> ok_or_err res.
Proof.
  unfold pass_encrypt. cbv zeta.
  apply nn_bind; [intros r1 s1 [= <- _]; exact I|intros _ s1 r2 s2].
  apply nn_header. intros s3 r3 s4 E. exact (enc_no_panic P _ _ _ _ _ _ (kdf_len P pw salt Hh) E).
Qed.

Theorem key_encrypt_no_panic fresh_pk fresh_e sk spk rpk e epk pk e' epk' s res s' :
  eph_of P fresh_e e epk = (e', epk') ->
  length e' = 32%nat -> length sk = 32%nat -> length rpk = 32%nat ->
  length (payload_of fresh_pk pk) = 32%nat ->
  key_encrypt P fresh_pk fresh_e sk spk rpk e epk pk s = (res, s') -> ok_or_err res.
Proof.
  intros Hep He Hs Hr Hp. unfold key_encrypt. cbv zeta. unfold payload_of in Hp. rewrite Hp. cbn [Nat.eqb negb].
  rewrite (noise_encrypt_eq P Hh fresh_e sk spk rpk e epk x_prologue _ e' epk' Hep He Hs Hr).
  unfold noise_encrypt_spec.
  destruct (all_zero (p_dh P e' rpk)); [intros [= <- _]; exact I|].
  destruct (all_zero (p_dh P sk rpk)); [intros [= <- _]; exact I|].
  apply nn_header. intros s3 r3 s4 E. exact (enc_no_panic P _ _ _ _ _ _ (file_key_len P _ _ Hh) E).
Qed.

End EncNoPanic.

Section Closure.
Print Assumptions pass_encrypt_no_panic.
Print Assumptions key_encrypt_no_panic.
Print Assumptions enc_fault_is_error.
Print Assumptions key_encrypt_fault_is_error.
Print Assumptions pass_encrypt_fault_is_error.
End Closure.
