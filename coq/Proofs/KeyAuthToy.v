(* Proofs/KeyAuthToy.v — non-vacuity of the key-mode authenticity theorems (Proofs/KeyAuth.v) on the concrete
   instance of Model/KeyAuthToy.v (RFC hash / HMAC / HKDF / AEAD, toy DH):
   (1) an honest file read by its recipient: ALL premises of key_auth_single hold and the outcome is Ok — the
       premises are jointly satisfiable with acceptance;
   (2) two honest files and a splice (ephemeral key of file 1, encrypted static key, encrypted payload key and
       chunks of file 2): ALL premises of key_auth_multi hold and the outcome is the handshake error — the
       theorem's rejection is exercised, not assumed away.
   Computation is done on the goal side only (vm_compute casts), so that Qed re-checks with the VM. *)
From Kestrel Require Import Bytes BytesFacts Outcome IO IOFacts Prims.
From Kestrel.gen Require Import Extracted.
From Kestrel.Model Require Import AeadWrap Chunks Noise NoiseSpec Files CombineDefs KeyAuthDefs KeyAuthToy.
From Kestrel.Spec Require Import Sha256 Hmac Hkdf HashFacts ChaPoly ChaPolyFacts.
From Kestrel.Proofs Require Import FilesFacts KeyAuth.
Local Open Scope N_scope.

Lemma PT_aead_ok : aead_ok PT.
Proof.
  constructor; cbn [p_open p_seal PT].
  - apply aead_open_seal.
  - apply aead_seal_length.
  - apply aead_open_length.
  - apply aead_open_inv.
Qed.

Lemma PT_hash_ok : hash_ok PT.
Proof.
  constructor; cbn [p_hash p_hmac p_hkdf p_dh p_scrypt PT].
  - apply sha256_length.
  - apply hmac_length.
  - intros s i info n Hn. apply hkdf_length_le. exact Hn.
  - intros k u. unfold toy_dh. now rewrite map_length, seq_length.
  - intros pw s n r q l. apply repeat_length.
Qed.

Lemma neq_by_eqb (a b : bytes) : list_N_eqb a b = false -> a <> b.
Proof. intros H E. apply list_N_eqb_spec in E. congruence. Qed.

Lemma hash_inj_check_sound P L : hash_inj_check P L = true -> hash_inj_on P L.
Proof.
  unfold hash_inj_check. intros H a b Ha Hb Hab.
  rewrite forallb_forall in H. specialize (H a Ha). rewrite forallb_forall in H. specialize (H b Hb).
  apply list_N_eqb_spec in Hab. rewrite Hab in H. cbn [negb orb] in H. now apply list_N_eqb_spec.
Qed.

(* (1) acceptance with all premises true *)
Example key_auth_single_nonvacuous :
  exists sender s',
    key_decrypt PT toy_r toy_R toy_s1 = (Ok sender, s') /\
    hs_opens_honest PT [toy_f1] toy_r toy_R (offered_msg (r_data (rdr toy_s1))) /\
    run_opens_honest PT [toy_f1] toy_s1 s' /\
    hash_inj_on PT (hash_inputs PT [toy_f1] toy_R (offered_msg (r_data (rdr toy_s1)))) /\
    sender = hf_spk PT toy_f1 /\ w_out (wtr s') = concat (hf_chunks toy_f1).
Proof.
  eexists. eexists. split; [vm_compute; reflexivity|].
  eassert (Eo : p_open PT (run_k1 PT toy_r (offered_msg (r_data (rdr toy_s1)))) (noise_nonce 0)
                  (run_h3 PT toy_R (offered_msg (r_data (rdr toy_s1)))) (run_c1 (offered_msg (r_data (rdr toy_s1)))) = Some _)
    by (vm_compute; reflexivity).
  split.
  { split.
    - intros rs _ _. vm_compute. left. reflexivity.
    - intros rs pl _ H _ _ _. rewrite Eo in H. injection H as <-. vm_compute. right. left. reflexivity. }
  clear Eo.
  split.
  { apply whole_log_honest. intros key n ad ct pt Hin. cbn [log In] in Hin.
    repeat (destruct Hin as [Hin|Hin]; [try discriminate Hin|]); try contradiction;
      injection Hin as <- <- <- <- <-; vm_compute; auto 10. }
  split; [apply hash_inj_check_sound; vm_compute; reflexivity|].
  split; vm_compute; reflexivity.
Qed.

(* (2) a splice of two honest files: all premises true, the run is rejected in the handshake, nothing written *)
Example key_auth_multi_splice_rejected :
  exists s',
    key_decrypt PT toy_r toy_R toy_s2 = (Err (DOtherNoise NDecrypt), s') /\
    hs_opens_honest PT [toy_f1; toy_f2] toy_r toy_R (offered_msg (r_data (rdr toy_s2))) /\
    run_opens_honest PT [toy_f1; toy_f2] toy_s2 s' /\
    hash_inj_on PT (hash_inputs PT [toy_f1; toy_f2] toy_R (offered_msg (r_data (rdr toy_s2)))) /\
    keys_distinct PT [toy_f1; toy_f2] /\
    w_out (wtr s') = [].
Proof.
  eexists. split; [vm_compute; reflexivity|].
  assert (Enone : p_open PT (run_k1 PT toy_r (offered_msg (r_data (rdr toy_s2)))) (noise_nonce 0)
                    (run_h3 PT toy_R (offered_msg (r_data (rdr toy_s2)))) (run_c1 (offered_msg (r_data (rdr toy_s2)))) = None)
    by (vm_compute; reflexivity).
  split.
  { split.
    - intros rs _ H. rewrite Enone in H. discriminate H.
    - intros rs pl _ H. rewrite Enone in H. discriminate H. }
  split.
  { apply whole_log_honest. intros key n ad ct pt Hin. exfalso. cbn [log In] in Hin.
    repeat (destruct Hin as [Hin|Hin]; [discriminate Hin|]). contradiction. }
  split; [apply hash_inj_check_sound; vm_compute; reflexivity|].
  split.
  { split.
    - cbn [map]. constructor; [|constructor; [intros []|constructor]].
      intros [H|[]]. revert H. apply neq_by_eqb. vm_compute. reflexivity.
    - cbn [map]. constructor; [|constructor; [intros []|constructor]].
      intros [H|[]]. revert H. apply neq_by_eqb. vm_compute. reflexivity. }
  vm_compute. reflexivity.
Qed.

Section Closure.
Print Assumptions key_auth_single_nonvacuous.
Print Assumptions key_auth_multi_splice_rejected.
End Closure.
