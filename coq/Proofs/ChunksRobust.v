(* Proofs/ChunksRobust.v — robustness of decrypt_chunks for EVERY io state: any data, any reader /
   writer / flush script (short and zero-length reads and writes, Interrupted, other failures). *)
From Kestrel Require Import Bytes BytesFacts Outcome IO IOFacts Prims.
From Kestrel.Model Require Import AeadWrap Chunks ChunksRobustDefs.
From Kestrel.Proofs Require Import MonadFacts ChunksDec.
From Coq Require Import ZifyBool ZifyNat ZifyN.
Local Open Scope N_scope.

(* ================= 1. never Panic, never OutOfFuel ================= *)
Section NoPanic.
Variable P : prims.
Variable key aad : bytes.
Variable cs : N.
Hypothesis Hkey : length key = 32%nat.
Notation dec_loop := (decrypt_chunks_loop P).

Lemma app_length_lt {A} (a b c : list A) : a = b ++ c -> (length c <= length a)%nat /\ length a = (length b + length c)%nat.
Proof. intros ->. rewrite app_length. lia. Qed.

Lemma dec_loop_normal : forall fuel n s res s',
  (length (r_data (rdr s)) < fuel)%nat ->
  dec_loop fuel key aad cs n s = (res, s') -> normal res.
Proof.
  induction fuel as [|f IH]; intros n s res s' Hf E; [lia|].
  cbn [decrypt_chunks_loop] in E.
  unfold bind at 1 in E. destruct (m_read_exact d_read_err 16 s) as [r1 s1] eqn:E1.
  pose proof (m_read_exact_cases _ _ _ _ _ E1) as (Hw1 & d1 & _ & _ & Hr1).
  destruct r1 as [hdr|e|w|]; try contradiction.
  2:{ injection E as <- <-. exact I. }
  destruct Hr1 as (Hlen16 & Hdat1 & _).
  destruct (cs <? de32 (hdr_len hdr)) eqn:Ecs.
  { injection E as <- <-. exact I. }
  unfold bind at 1 in E.
  destruct (m_read_exact d_read_err (N.to_nat (de32 (hdr_len hdr)) + 16) s1) as [r2 s2] eqn:E2.
  pose proof (m_read_exact_cases _ _ _ _ _ E2) as (Hw2 & d2 & _ & _ & Hr2).
  destruct r2 as [ct|e|w|]; try contradiction.
  2:{ injection E as <- <-. exact I. }
  destruct Hr2 as (_ & Hdat2 & _).
  unfold bind at 1 in E. rewrite (m_open_eq P key Hkey) in E.
  set (ad := aad ++ hdr_last hdr ++ hdr_len hdr) in *.
  destruct (Nat.ltb (length ct) 16).
  { injection E as <- <-. exact I. }
  destruct (p_open P key (noise_nonce n) ad ct) as [pt|] eqn:Eo.
  2:{ injection E as <- <-. exact I. }
  set (s3 := with_log s2 (EvOpen key n ad ct (Some pt))) in *.
  assert (Hd3 : r_data (rdr s3) = r_data (rdr s2)) by reflexivity. clearbody s3.
  destruct (de32 (hdr_last hdr) =? 1).
  - unfold bind at 1 in E. destruct (m_read d_read_err 1 s3) as [r4 s4] eqn:E4.
    pose proof (m_read_cases _ _ _ _ _ E4) as (Hw4 & Hr4).
    destruct r4 as [chk|e|w|]; try contradiction.
    2:{ injection E as <- <-. exact I. }
    destruct chk as [|x chk'].
    2:{ injection E as <- <-. exact I. }
    unfold bind at 1 in E. destruct (m_write_all DIOWrite pt s4) as [r5 s5] eqn:E5.
    pose proof (m_write_all_cases _ _ _ _ _ E5) as (_ & d5 & _ & _ & Hr5).
    destruct r5 as [u|e|w|]; try contradiction.
    2:{ injection E as <- <-. exact I. }
    unfold bind at 1 in E. destruct (m_flush DIOWrite s5) as [r6 s6] eqn:E6.
    pose proof (m_flush_cases _ _ _ _ E6) as (_ & _ & Hr6).
    destruct r6 as [u6|e6|w6|]; try contradiction; injection E as <- <-; exact I.
  - unfold bind at 1 in E. destruct (m_write_all DIOWrite pt s3) as [r5 s5] eqn:E5.
    pose proof (m_write_all_cases _ _ _ _ _ E5) as (Hrd5 & d5 & _ & _ & Hr5).
    destruct r5 as [u|e|w|]; try contradiction.
    2:{ injection E as <- <-. exact I. }
    unfold bind at 1 in E. destruct (m_flush DIOWrite s5) as [r6 s6] eqn:E6.
    pose proof (m_flush_cases _ _ _ _ E6) as (Hrd6 & _ & Hr6).
    destruct r6 as [u6|e6|w6|]; try contradiction.
    2:{ injection E as <- <-. exact I. }
    apply (IH _ _ _ _) in E; [exact E|]. rewrite Hrd6, Hrd5, Hd3.
    apply app_length_lt in Hdat1. apply app_length_lt in Hdat2. lia.
Qed.

Theorem dec_no_panic s res s' :
  decrypt_chunks P key aad cs s = (res, s') -> res = Ok tt \/ (exists e, res = Err e).
Proof.
  unfold decrypt_chunks. intros E. apply dec_loop_normal in E; [|lia].
  destruct res as [[]|e|w|]; try contradiction; eauto.
Qed.

End NoPanic.

(* ================= more facts about the raw loops ================= *)
Lemma read_req_le_mono n m e : (n <= m)%nat -> read_req_le n e -> read_req_le m e.
Proof. intros H. destruct e; cbn; auto; lia. Qed.

Lemma read_exact_loop_req : forall fuel n acc s res s',
  read_exact_loop fuel n acc s = (res, s') ->
  exists d, log s' = d ++ log s /\ Forall (read_req_le n) d.
Proof.
  induction fuel as [|f IH]; intros n acc s res s' E.
  { destruct n; cbn in E; injection E as <- <-; exists []; (split; [reflexivity|apply Forall_nil]). }
  destruct n as [|n'].
  { cbn in E. injection E as <- <-. exists []. split; [reflexivity|apply Forall_nil]. }
  cbn [read_exact_loop] in E.
  destruct (io_read (S n') s) as [r1 s1] eqn:Er. pose proof (io_read_spec _ _ _ _ Er) as (_ & Hl & _).
  assert (Hone : exists d, log s1 = d ++ log s /\ Forall (read_req_le (S n')) d).
  { eexists [_]. split; [exact Hl|]. constructor; [|constructor]. destruct r1; cbn; lia. }
  assert (Hrec : forall m acc', (m <= S n')%nat -> read_exact_loop f m acc' s1 = (res, s') ->
                 exists d, log s' = d ++ log s /\ Forall (read_req_le (S n')) d).
  { intros m acc' Hm E1. destruct (IH _ _ _ _ _ E1) as (d & Hd & Hq).
    exists (d ++ [match r1 with inr got => EvRead (S n') got | inl e => EvReadErr (S n') e end]).
    rewrite Hd, Hl, <- app_assoc. split; [reflexivity|]. apply Forall_app. split.
    - eapply Forall_impl; [|exact Hq]. intros e. apply read_req_le_mono. exact Hm.
    - constructor; [|constructor]. destruct r1; cbn; lia. }
  destruct r1 as [e|got].
  - destruct e; try (injection E as <- <-; exact Hone). eapply Hrec; [|exact E]; lia.
  - destruct got as [|g got']; [injection E as <- <-; exact Hone|]. eapply Hrec; [|exact E]; lia.
Qed.

Lemma read_exact_req n s res s' : read_exact n s = (res, s') ->
  exists d, log s' = d ++ log s /\ Forall (read_req_le n) d.
Proof. unfold read_exact. apply read_exact_loop_req. Qed.

(* read_exact retries Interrupted: it is never its result *)
Lemma read_exact_loop_not_interrupted : forall fuel n acc s e s',
  read_exact_loop fuel n acc s = (Some (inl e), s') -> e <> Interrupted.
Proof.
  induction fuel as [|f IH]; intros n acc s e s' E.
  { destruct n; cbn in E; discriminate. }
  destruct n as [|n']; [cbn in E; discriminate|].
  cbn [read_exact_loop] in E. destruct (io_read (S n') s) as [r1 s1].
  destruct r1 as [e1|got].
  - destruct e1; try (injection E as <- <-; discriminate). apply (IH _ _ _ _ _ E).
  - destruct got as [|g got']; [injection E as <- <-; discriminate|]. apply (IH _ _ _ _ _ E).
Qed.

Lemma write_all_loop_not_interrupted : forall fuel buf s e s',
  write_all_loop fuel buf s = (Some (Some e), s') -> e <> Interrupted.
Proof.
  induction fuel as [|f IH]; intros buf s e s' E.
  { destruct buf; cbn in E; discriminate. }
  destruct buf as [|b0 buf']; [cbn in E; discriminate|].
  rewrite write_all_loop_unfold in E by discriminate.
  destruct (io_write (b0 :: buf') s) as [r1 s1].
  destruct r1 as [e1|k].
  - destruct e1; try (injection E as <- <-; discriminate). apply (IH _ _ _ _ E).
  - destruct k as [|k']; [injection E as <- <-; discriminate|]. apply (IH _ _ _ _ E).
Qed.

(* ================= 2. every read request is bounded by the chunk size ================= *)
Section LogAll.
Variable P : prims.
Variable Q : event -> Prop.

Definition log_all {E A} (m : M E A) : Prop :=
  forall s r s', m s = (r, s') -> exists d, log s' = d ++ log s /\ Forall Q d.

Lemma la_bind {E A B} (m : M E A) (f : A -> M E B) :
  log_all m -> (forall a, log_all (f a)) -> log_all (bind m f).
Proof.
  intros Hm Hf s r s' E0. unfold bind in E0. destruct (m s) as [r1 s1] eqn:E1.
  destruct (Hm _ _ _ E1) as (d1 & H1 & Q1).
  destruct r1 as [a|e|w|]; try (injection E0 as <- <-; eauto).
  destruct (Hf a _ _ _ E0) as (d2 & H2 & Q2). exists (d2 ++ d1). rewrite H2, H1, app_assoc.
  split; [reflexivity|]. apply Forall_app; split; assumption.
Qed.
Lemma la_nil {E A} (m : M E A) : (forall s, exists r, m s = (r, s)) -> log_all m.
Proof. intros H s r s' E0. destruct (H s) as [r0 H0]. rewrite H0 in E0. injection E0 as <- <-. exists []. split; [reflexivity|constructor]. Qed.
Lemma la_ret {E A} (a : A) : log_all (@ret E A a).
Proof. apply la_nil. intros s. eexists. reflexivity. Qed.
Lemma la_fail {E A} (e : E) : log_all (@fail E A e).
Proof. apply la_nil. intros s. eexists. reflexivity. Qed.
Lemma la_lift {E A} (o : outcome E A) : log_all (lift o).
Proof. apply la_nil. intros s. eexists. reflexivity. Qed.
End LogAll.

Section Bounded.
Variable P : prims.
Variable key aad : bytes.
Variable cs : N.
Notation dec_loop := (decrypt_chunks_loop P).
Notation B := (N.to_nat cs + 16)%nat.
Notation Qb := (read_req_le B).

Lemma la_read_exact {E} (rerr : ioerr -> E) n : (n <= B)%nat -> log_all Qb (m_read_exact rerr n).
Proof.
  intros Hn s r s' E0. unfold m_read_exact in E0. destruct (read_exact n s) as [r0 s0] eqn:Er.
  apply read_exact_req in Er. destruct Er as (d & Hd & Hq).
  assert (s0 = s') as <- by (destruct r0 as [[e|b]|]; now injection E0).
  exists d. split; [exact Hd|]. eapply Forall_impl; [|exact Hq]. intros e. now apply read_req_le_mono.
Qed.
Lemma la_read {E} (rerr : ioerr -> E) n : (n <= B)%nat -> log_all Qb (m_read rerr n).
Proof.
  intros Hn s r s' E0. apply m_read_cases in E0. destruct E0 as (_ & H).
  destruct r as [b|e|w|]; try contradiction.
  - destruct H as (H & _). eexists [_]. split; [exact H|]. repeat constructor. exact Hn.
  - destruct H as (ie & _ & H & _). eexists [_]. split; [exact H|]. repeat constructor. exact Hn.
Qed.
Lemma la_write_all {E} (werr : ioerr -> E) buf : log_all Qb (m_write_all werr buf).
Proof.
  intros s r s' E0. apply m_write_all_cases in E0. destruct E0 as (_ & d & Hd & Hev & _).
  exists d. split; [exact Hd|]. eapply Forall_impl; [|exact Hev]. intros [] H; cbn in *; auto; contradiction.
Qed.
Lemma la_flush {E} (werr : ioerr -> E) : log_all Qb (m_flush werr).
Proof.
  intros s r s' E0. apply m_flush_cases in E0. destruct E0 as (_ & _ & H).
  destruct r as [b|e|w|]; try contradiction.
  - eexists [_]. split; [exact H|]. repeat constructor.
  - destruct H as (ie & _ & H). eexists [_]. split; [exact H|]. repeat constructor.
Qed.
Lemma la_open {E} (aerr : E) n ad ct : log_all Qb (m_open P aerr key n ad ct).
Proof.
  intros s r s' E0. unfold m_open in E0.
  destruct (chapoly_decrypt_noise P key n ad ct); injection E0 as <- <-;
    (eexists [_]; split; [reflexivity|repeat constructor]) || (exists []; split; [reflexivity|constructor]).
Qed.

Lemma dec_loop_bounded : forall fuel n, log_all Qb (dec_loop fuel key aad cs n).
Proof.
  induction fuel as [|f IH]; intros n; [apply la_lift|].
  cbn [decrypt_chunks_loop].
  apply la_bind; [apply la_read_exact; lia|intros hdr].
  destruct (N.ltb_spec cs (de32 (hdr_len hdr))) as [Hlt|Hle]; [apply la_fail|].
  apply la_bind; [apply la_read_exact; lia|intros ct].
  apply la_bind; [apply la_open|intros pt].
  destruct (_ =? 1).
  - apply la_bind; [apply la_read; lia|intros chk]. destruct chk; [|apply la_fail].
    apply la_bind; [apply la_write_all|intros _]. apply la_bind; [apply la_flush|intros _]. apply la_ret.
  - apply la_bind; [apply la_write_all|intros _]. apply la_bind; [apply la_flush|intros _]. apply IH.
Qed.

(* every Read::read call of the run asks for at most chunk_size + TAG_SIZE bytes *)
Theorem dec_bounded_reads s res s' :
  decrypt_chunks P key aad cs s = (res, s') ->
  exists d, log s' = d ++ log s /\
    forall e, In e d -> match e with EvRead req _ | EvReadErr req _ => (req <= N.to_nat cs + 16)%nat | _ => True end.
Proof.
  unfold decrypt_chunks. intros E. apply dec_loop_bounded in E. destruct E as (d & Hd & Hq).
  exists d. split; [exact Hd|]. intros e Hin. rewrite Forall_forall in Hq. exact (Hq e Hin).
Qed.

End Bounded.

(* ================= 4a. schedule independence ================= *)
(* properties of the remaining reader script are inherited: the script after a call is a suffix *)
Lemma rd_script_forall (Q : rd_act -> Prop) r n res r' :
  rd r n = (res, r') -> Forall Q (r_script r) -> Forall Q (r_script r').
Proof.
  unfold rd. destruct (r_script r) as [|[k|e] sc]; intros [= <- <-] H; cbn [r_script]; try constructor;
    inversion H; assumption.
Qed.
Lemma io_read_script_forall (Q : rd_act -> Prop) n s res s' :
  io_read n s = (res, s') -> Forall Q (r_script (rdr s)) -> Forall Q (r_script (rdr s')).
Proof.
  unfold io_read. destruct (rd (rdr s) n) as [r0 r'] eqn:Er. intros [= <- <-]. cbn [rdr].
  eapply rd_script_forall; eassumption.
Qed.
Lemma read_exact_loop_script_forall (Q : rd_act -> Prop) : forall fuel n acc s res s',
  read_exact_loop fuel n acc s = (res, s') -> Forall Q (r_script (rdr s)) -> Forall Q (r_script (rdr s')).
Proof.
  induction fuel as [|f IH]; intros n acc s res s' E H.
  { destruct n; cbn in E; injection E as <- <-; exact H. }
  destruct n as [|n']; [cbn in E; injection E as <- <-; exact H|].
  cbn [read_exact_loop] in E. destruct (io_read (S n') s) as [r1 s1] eqn:Er.
  pose proof (io_read_script_forall Q _ _ _ _ Er H) as H1.
  destruct r1 as [e|got].
  - destruct e; try (injection E as <- <-; exact H1). apply (IH _ _ _ _ _ E H1).
  - destruct got as [|g got']; [injection E as <- <-; exact H1|]. apply (IH _ _ _ _ _ E H1).
Qed.
Lemma read_exact_script_forall (Q : rd_act -> Prop) n s res s' :
  read_exact n s = (res, s') -> Forall Q (r_script (rdr s)) -> Forall Q (r_script (rdr s')).
Proof. unfold read_exact. apply read_exact_loop_script_forall. Qed.

(* a conforming reader never fails a call; read_exact can then only fail with UnexpectedEof *)
Lemma io_read_ok_inr n s res s' : reader_ok (rdr s) -> io_read n s = (res, s') -> exists got, res = inr got.
Proof.
  unfold io_read, rd, reader_ok. intros Hok. destruct (r_script (rdr s)) as [|[k|e] sc]; intros [= <- <-]; eauto.
  inversion Hok as [|? ? Ha Hsc]. contradiction.
Qed.
Lemma read_exact_loop_ok_eof : forall fuel n acc s e s',
  reader_ok (rdr s) -> read_exact_loop fuel n acc s = (Some (inl e), s') -> e = UnexpectedEof.
Proof.
  induction fuel as [|f IH]; intros n acc s e s' Hok E.
  { destruct n; cbn in E; discriminate. }
  destruct n as [|n']; [cbn in E; discriminate|].
  cbn [read_exact_loop] in E. destruct (io_read (S n') s) as [r1 s1] eqn:Er.
  assert (Hok1 : reader_ok (rdr s1)) by (eapply io_read_script_forall; eassumption).
  destruct (io_read_ok_inr _ _ _ _ Hok Er) as [got ->].
  destruct got as [|g got']; [injection E as <- <-; reflexivity|]. apply (IH _ _ _ _ _ Hok1 E).
Qed.

Section SchedPrims.
Context {E : Type}.

Lemma m_read_exact_sched n s : reader_ok (rdr s) ->
  exists s', wtr s' = wtr s /\ reader_ok (rdr s') /\
    if Nat.leb n (length (r_data (rdr s)))
    then m_read_exact d_read_err n s = (Ok (firstn n (r_data (rdr s))), s') /\
         r_data (rdr s') = skipn n (r_data (rdr s))
    else m_read_exact d_read_err n s = (Err (DIORead OtherErr), s').
Proof.
  intros Hok. destruct (Nat.leb_spec n (length (r_data (rdr s)))) as [Hle|Hlt].
  - destruct (read_exact_ok n s Hok Hle) as (s' & E1 & Hd & Hok' & Hw).
    exists s'. repeat split; try assumption. unfold m_read_exact. now rewrite E1.
  - destruct (read_exact n s) as [r s'] eqn:E1. exists s'.
    pose proof (read_exact_script_forall _ _ _ _ _ E1 Hok) as Hok'.
    pose proof (read_exact_spec _ _ _ _ E1) as (Hw & _ & Hr).
    split; [exact Hw|]. split; [exact Hok'|].
    unfold m_read_exact. rewrite E1. destruct r as [[e|b]|]; [| |contradiction].
    + unfold read_exact in E1. apply read_exact_loop_ok_eof in E1; [|exact Hok]. subst e. reflexivity.
    + destruct Hr as [Hl Hd]. rewrite Hd, app_length in Hlt. lia.
Qed.

Lemma m_read_probe_sched s : reader_ok (rdr s) ->
  exists chk s', m_read d_read_err 1 s = (Ok chk, s') /\ wtr s' = wtr s /\ reader_ok (rdr s') /\
    (chk = [] <-> r_data (rdr s) = []).
Proof.
  intros Hok. destruct (io_read 1 s) as [r s'] eqn:E1.
  pose proof (io_read_script_forall _ _ _ _ _ E1 Hok) as Hok'.
  pose proof (io_read_spec _ _ _ _ E1) as (Hw & _ & _ & _ & _).
  destruct (io_read_ok_inr _ _ _ _ Hok E1) as [got ->].
  exists got, s'. unfold m_read. rewrite E1. repeat split; try assumption.
  - intros ->. unfold io_read, rd, reader_ok in *. destruct (r_script (rdr s)) as [|[k|e] sc].
    + injection E1 as E1 _. destruct (r_data (rdr s)); [reflexivity|discriminate].
    + inversion Hok as [|? ? Ha Hsc]. cbn in Ha. injection E1 as E1 _.
      replace (Nat.min k 1) with 1%nat in E1 by lia. destruct (r_data (rdr s)); [reflexivity|discriminate].
    + discriminate.
  - intros Hd. unfold io_read, rd in E1. rewrite Hd in E1. destruct (r_script (rdr s)) as [|[k|e] sc].
    + injection E1 as E1 _. symmetry. exact E1.
    + injection E1 as E1 _. rewrite firstn_nil in E1. symmetry. exact E1.
    + discriminate.
Qed.

Lemma m_write_all_sched (werr : ioerr -> E) buf s : writer_ok (wtr s) ->
  exists s', m_write_all werr buf s = (Ok tt, s') /\ w_out (wtr s') = w_out (wtr s) ++ buf /\
             writer_ok (wtr s') /\ rdr s' = rdr s.
Proof.
  intros Hok. destruct (write_all_ok buf s Hok) as (s' & E1 & H). exists s'. split; [|exact H].
  unfold m_write_all. now rewrite E1.
Qed.
Lemma m_flush_sched (werr : ioerr -> E) s : writer_ok (wtr s) ->
  exists s', m_flush werr s = (Ok tt, s') /\ w_out (wtr s') = w_out (wtr s) /\
             writer_ok (wtr s') /\ rdr s' = rdr s.
Proof.
  intros Hok. destruct (io_flush_ok s Hok) as (s' & E1 & H). exists s'. split; [|exact H].
  unfold m_flush. now rewrite E1.
Qed.
End SchedPrims.

Section Sched.
Variable P : prims.
Variable key aad : bytes.
Variable cs : N.
Notation dec_loop := (decrypt_chunks_loop P).
Notation pure := (dec_pure P).

Lemma dec_pure_S f n data :
  pure (S f) key aad cs n data =
    if Nat.ltb (length data) 16 then (Err (DIORead OtherErr), [], []) else
    let hdr := firstn 16 data in
    let d1 := skipn 16 data in
    let lastb := hdr_last hdr in
    let lenb := hdr_len hdr in
    let len := de32 lenb in
    if cs <? len then (Err DChunkLen, [], []) else
    let k := (N.to_nat len + 16)%nat in
    if Nat.ltb (length d1) k then (Err (DIORead OtherErr), [], []) else
    let ct := firstn k d1 in
    let d2 := skipn k d1 in
    match chapoly_decrypt_noise P key n (aad ++ lastb ++ lenb) ct with
    | Ok pt =>
      if de32 lastb =? 1 then
        match d2 with
        | [] => (Ok tt, [pt], [])
        | _ :: _ => (Err DUnexpectedData, [], [pt])
        end
      else
        let '(r, l, x) := pure f key aad cs (n + 1) d2 in (r, pt :: l, x)
    | Err _ => (Err DChaPolyDecrypt, [], [])
    | Panic w => (Panic w, [], [])
    | OutOfFuel => (OutOfFuel, [], [])
    end.
Proof. reflexivity. Qed.

(* under conforming fault-free scripts the run IS the pure function of the data *)
Lemma dec_loop_sched : forall fuel n s rp l x,
  reader_ok (rdr s) -> writer_ok (wtr s) ->
  pure fuel key aad cs n (r_data (rdr s)) = (rp, l, x) ->
  exists s', dec_loop fuel key aad cs n s = (rp, s') /\
             w_out (wtr s') = w_out (wtr s) ++ concat l.
Proof.
  induction fuel as [|f IH]; intros n s rp l x Hr Hw Hp.
  { cbn in Hp. injection Hp as <- <- <-. exists s. cbn. now rewrite app_nil_r. }
  rewrite dec_pure_S in Hp. cbv zeta in Hp. cbn [decrypt_chunks_loop].
  destruct (m_read_exact_sched 16 s Hr) as (s1 & Hw1 & Hr1 & H1).
  destruct (Nat.ltb_spec (length (r_data (rdr s))) 16) as [Hlt|Hge].
  { destruct (Nat.leb_spec 16 (length (r_data (rdr s)))) as [Hc|_]; [lia|].
    injection Hp as <- <- <-. exists s1. rewrite (bind_err _ _ _ _ _ H1). cbn. now rewrite app_nil_r, Hw1. }
  destruct (Nat.leb_spec 16 (length (r_data (rdr s)))) as [_|Hc]; [|lia].
  destruct H1 as [E1 Hd1]. rewrite (bind_ok _ _ _ _ _ E1).
  set (hdr := firstn 16 (r_data (rdr s))) in *.
  destruct (cs <? de32 (hdr_len hdr)) eqn:Ecs.
  { injection Hp as <- <- <-. exists s1. unfold fail. cbn. now rewrite app_nil_r, Hw1. }
  rewrite <- Hd1 in Hp.
  set (k := (N.to_nat (de32 (hdr_len hdr)) + 16)%nat) in *.
  assert (Hw1' : writer_ok (wtr s1)) by (rewrite Hw1; exact Hw).
  destruct (m_read_exact_sched k s1 Hr1) as (s2 & Hw2 & Hr2 & H2).
  destruct (Nat.ltb_spec (length (r_data (rdr s1))) k) as [Hlt|Hge2].
  { destruct (Nat.leb_spec k (length (r_data (rdr s1)))) as [Hc|_]; [lia|].
    injection Hp as <- <- <-. exists s2. rewrite (bind_err _ _ _ _ _ H2). cbn. now rewrite app_nil_r, Hw2, Hw1. }
  destruct (Nat.leb_spec k (length (r_data (rdr s1)))) as [_|Hc]; [|lia].
  destruct H2 as [E2 Hd2]. rewrite (bind_ok _ _ _ _ _ E2).
  set (ct := firstn k (r_data (rdr s1))) in *. rewrite <- Hd2 in Hp.
  set (ad := aad ++ hdr_last hdr ++ hdr_len hdr) in *.
  unfold bind at 1. unfold m_open at 1.
  destruct (chapoly_decrypt_noise P key n ad ct) as [pt|e|w|].
  2:{ injection Hp as <- <- <-. eexists. split; [reflexivity|]. cbn. now rewrite app_nil_r, Hw2, Hw1. }
  2:{ injection Hp as <- <- <-. eexists. split; [reflexivity|]. cbn. now rewrite app_nil_r, Hw2, Hw1. }
  2:{ injection Hp as <- <- <-. eexists. split; [reflexivity|]. cbn. now rewrite app_nil_r, Hw2, Hw1. }
  set (s3 := with_log s2 (EvOpen key n ad ct (Some pt))).
  assert (Hr3 : reader_ok (rdr s3)) by exact Hr2.
  assert (Hw3 : writer_ok (wtr s3)) by (unfold s3; cbn; rewrite Hw2; exact Hw1').
  assert (Hd3 : r_data (rdr s3) = r_data (rdr s2)) by reflexivity.
  assert (Ho3 : w_out (wtr s3) = w_out (wtr s)) by (unfold s3; cbn; now rewrite Hw2, Hw1).
  clearbody s3.
  destruct (de32 (hdr_last hdr) =? 1).
  - destruct (m_read_probe_sched s3 Hr3) as (chk & s4 & E4 & Hw4 & Hr4 & Hchk).
    rewrite (bind_ok _ _ _ _ _ E4). rewrite Hd3 in Hchk.
    destruct (r_data (rdr s2)) as [|y ys].
    + injection Hp as <- <- <-. destruct chk as [|c chk']; [|destruct Hchk as [_ Hc]; discriminate (Hc eq_refl)].
      assert (Hw4' : writer_ok (wtr s4)) by (rewrite Hw4; exact Hw3).
      destruct (m_write_all_sched DIOWrite pt s4 Hw4') as (s5 & E5 & Ho5 & Hw5 & Hr5).
      rewrite (bind_ok _ _ _ _ _ E5).
      destruct (m_flush_sched DIOWrite s5 Hw5) as (s6 & E6 & Ho6 & Hw6 & Hr6).
      rewrite (bind_ok _ _ _ _ _ E6). exists s6. split; [reflexivity|].
      cbn [concat]. rewrite app_nil_r, Ho6, Ho5, Hw4, Ho3. reflexivity.
    + injection Hp as <- <- <-. destruct chk as [|c chk']; [destruct Hchk as [Hc _]; discriminate (Hc eq_refl)|].
      exists s4. split; [reflexivity|]. cbn. now rewrite app_nil_r, Hw4, Ho3.
  - destruct (m_write_all_sched DIOWrite pt s3 Hw3) as (s5 & E5 & Ho5 & Hw5 & Hr5).
    rewrite (bind_ok _ _ _ _ _ E5).
    destruct (m_flush_sched DIOWrite s5 Hw5) as (s6 & E6 & Ho6 & Hw6 & Hr6).
    rewrite (bind_ok _ _ _ _ _ E6).
    destruct (pure f key aad cs (n + 1) (r_data (rdr s2))) as [[r0 l0] x0] eqn:Hp0.
    injection Hp as <- <- <-.
    destruct (IH (n + 1) s6 r0 l0 x0) as (s' & E' & Ho').
    + rewrite Hr6, Hr5. exact Hr3.
    + exact Hw6.
    + rewrite Hr6, Hr5, Hd3. exact Hp0.
    + exists s'. split; [exact E'|]. rewrite Ho', Ho6, Ho5, Ho3. cbn [concat]. now rewrite <- app_assoc.
Qed.

Lemma twin_ok s : reader_ok (rdr (twin s)) /\ writer_ok (wtr (twin s)).
Proof. unfold twin, reader_ok, writer_ok. cbn. repeat split; constructor. Qed.

(* conforming fault-free scripts: result and written bytes are those of the pure function *)
Theorem dec_sched_pure s rp l x :
  reader_ok (rdr s) -> writer_ok (wtr s) ->
  dec_pure_file P key aad cs (r_data (rdr s)) = (rp, l, x) ->
  exists s', decrypt_chunks P key aad cs s = (rp, s') /\ w_out (wtr s') = w_out (wtr s) ++ concat l.
Proof. intros Hr Hw Hp. unfold decrypt_chunks. apply (dec_loop_sched _ _ _ _ _ _ Hr Hw Hp). Qed.

(* ... hence equal to those of the script-free twin: they do not depend on how reads/writes are split *)
Theorem dec_schedule_independent s res s' res0 s0' :
  reader_ok (rdr s) -> writer_ok (wtr s) ->
  decrypt_chunks P key aad cs s = (res, s') ->
  decrypt_chunks P key aad cs (twin s) = (res0, s0') ->
  res = res0 /\ w_out (wtr s') = w_out (wtr s0').
Proof.
  intros Hr Hw E E0.
  destruct (dec_pure_file P key aad cs (r_data (rdr s))) as [[rp l] x] eqn:Hp.
  destruct (dec_sched_pure s rp l x Hr Hw Hp) as (s1 & E1 & Ho1).
  destruct (twin_ok s) as [Hr0 Hw0].
  destruct (dec_sched_pure (twin s) rp l x Hr0 Hw0 Hp) as (s2 & E2 & Ho2).
  rewrite E in E1. rewrite E0 in E2. injection E1 as -> ->. injection E2 as -> ->.
  split; [reflexivity|]. rewrite Ho1, Ho2. reflexivity.
Qed.

End Sched.

(* ================= 4b. any script: the written bytes are a prefix of the fault-free output ================= *)
Lemma io_read_nonzero_eof s s' :
  Forall rd_nonzero (r_script (rdr s)) -> io_read 1 s = (inr [], s') -> r_data (rdr s) = [].
Proof.
  unfold io_read, rd. intros Hnz. destruct (r_script (rdr s)) as [|[k|e] sc].
  - intros [= E1 _]. destruct (r_data (rdr s)); [reflexivity|discriminate].
  - inversion Hnz as [|? ? Ha Hsc]. destruct k as [|k']; [contradiction|].
    intros [= E1 _]. destruct (r_data (rdr s)); [reflexivity|discriminate].
  - discriminate.
Qed.

Lemma firstn_app_len {A} (a b : list A) n : length a = n -> firstn n (a ++ b) = a.
Proof. intros <-. apply firstn_app_exact. Qed.
Lemma skipn_app_len {A} (a b : list A) n : length a = n -> skipn n (a ++ b) = b.
Proof. intros <-. apply skipn_app_exact. Qed.

Section Prefix.
Variable P : prims.
Variable key aad : bytes.
Variable cs : N.
Notation dec_loop := (decrypt_chunks_loop P).
Notation pure := (dec_pure P).

(* the pure function after a header and a body of the announced size *)
Lemma dec_pure_step f n hdr ct d2 :
  length hdr = 16%nat -> (cs <? de32 (hdr_len hdr)) = false ->
  length ct = (N.to_nat (de32 (hdr_len hdr)) + 16)%nat ->
  pure (S f) key aad cs n (hdr ++ ct ++ d2) =
    match chapoly_decrypt_noise P key n (aad ++ hdr_last hdr ++ hdr_len hdr) ct with
    | Ok pt =>
      if de32 (hdr_last hdr) =? 1 then
        match d2 with
        | [] => (Ok tt, [pt], [])
        | _ :: _ => (Err DUnexpectedData, [], [pt])
        end
      else
        let '(r, l, x) := pure f key aad cs (n + 1) d2 in (r, pt :: l, x)
    | Err _ => (Err DChaPolyDecrypt, [], [])
    | Panic w => (Panic w, [], [])
    | OutOfFuel => (OutOfFuel, [], [])
    end.
Proof.
  intros Hh Hcs Hct. rewrite dec_pure_S. cbv zeta.
  destruct (Nat.ltb_spec (length (hdr ++ ct ++ d2)) 16) as [Hlt|_]; [rewrite app_length in Hlt; lia|].
  rewrite (firstn_app_len _ _ _ Hh), (skipn_app_len _ _ _ Hh). rewrite Hcs.
  destruct (Nat.ltb_spec (length (ct ++ d2)) (N.to_nat (de32 (hdr_len hdr)) + 16)) as [Hlt|_];
    [rewrite app_length in Hlt; lia|].
  rewrite (firstn_app_len _ _ _ Hct), (skipn_app_len _ _ _ Hct). reflexivity.
Qed.

Definition pfx_post (s : io) (res : outcome derr unit) (s' : io)
    (rp : outcome derr unit) (l x : list bytes) : Prop :=
  exists written, w_out (wtr s') = w_out (wtr s) ++ written /\
    (exists rest, concat (l ++ x) = written ++ rest) /\
    (res = Ok tt -> written = concat (l ++ x) /\ (rp = Ok tt \/ rp = Err DUnexpectedData)) /\
    (Forall rd_nonzero (r_script (rdr s)) ->
       (exists rest, concat l = written ++ rest) /\ (res = Ok tt -> rp = Ok tt /\ written = concat l)).

Lemma pfx_stay s res s' rp l x :
  w_out (wtr s') = w_out (wtr s) -> res <> Ok tt -> pfx_post s res s' rp l x.
Proof.
  intros Ho Hne. exists []. rewrite app_nil_r. split; [exact Ho|]. split; [eexists; reflexivity|].
  split; [intros; contradiction|]. intros _. split; [eexists; reflexivity|intros; contradiction].
Qed.

Lemma dec_loop_prefix : forall fuel n s res s' rp l x,
  dec_loop fuel key aad cs n s = (res, s') ->
  pure fuel key aad cs n (r_data (rdr s)) = (rp, l, x) ->
  pfx_post s res s' rp l x.
Proof.
  induction fuel as [|f IH]; intros n s res s' rp l x E Hp.
  { cbn in E. injection E as <- <-. apply pfx_stay; [reflexivity|discriminate]. }
  cbn [decrypt_chunks_loop] in E.
  unfold bind at 1 in E. destruct (m_read_exact d_read_err 16 s) as [r1 s1] eqn:E1.
  pose proof (m_read_exact_cases _ _ _ _ _ E1) as (Hw1 & d1 & _ & _ & Hr1).
  assert (Hnz1 : Forall rd_nonzero (r_script (rdr s)) -> Forall rd_nonzero (r_script (rdr s1))).
  { intros Hnz. unfold m_read_exact in E1. destruct (read_exact 16 s) as [r0 s0] eqn:E0.
    assert (s0 = s1) as <- by (destruct r0 as [[e|b]|]; now injection E1).
    eapply read_exact_script_forall; eassumption. }
  destruct r1 as [hdr|e|w|]; try contradiction.
  2:{ injection E as <- <-. apply pfx_stay; [now rewrite Hw1|discriminate]. }
  destruct Hr1 as (Hlen16 & Hdat1 & _).
  destruct (cs <? de32 (hdr_len hdr)) eqn:Ecs.
  { injection E as <- <-. apply pfx_stay; [now rewrite Hw1|discriminate]. }
  unfold bind at 1 in E.
  destruct (m_read_exact d_read_err (N.to_nat (de32 (hdr_len hdr)) + 16) s1) as [r2 s2] eqn:E2.
  pose proof (m_read_exact_cases _ _ _ _ _ E2) as (Hw2 & d2 & _ & _ & Hr2).
  assert (Hnz2 : Forall rd_nonzero (r_script (rdr s1)) -> Forall rd_nonzero (r_script (rdr s2))).
  { intros Hnz. unfold m_read_exact in E2. destruct (read_exact _ s1) as [r0 s0] eqn:E0.
    assert (s0 = s2) as <- by (destruct r0 as [[e|b]|]; now injection E2).
    eapply read_exact_script_forall; eassumption. }
  destruct r2 as [ct|e|w|]; try contradiction.
  2:{ injection E as <- <-. apply pfx_stay; [now rewrite Hw2, Hw1|discriminate]. }
  destruct Hr2 as (Hlenct & Hdat2 & _).
  rewrite Hdat1, Hdat2 in Hp. rewrite (dec_pure_step _ _ _ _ _ Hlen16 Ecs Hlenct) in Hp.
  set (ad := aad ++ hdr_last hdr ++ hdr_len hdr) in *.
  unfold bind at 1 in E. unfold m_open at 1 in E.
  destruct (chapoly_decrypt_noise P key n ad ct) as [pt|e|w|].
  2:{ injection E as <- <-. apply pfx_stay; [cbn; now rewrite Hw2, Hw1|discriminate]. }
  2:{ injection E as <- <-. apply pfx_stay; [cbn; now rewrite Hw2, Hw1|discriminate]. }
  2:{ injection E as <- <-. apply pfx_stay; [cbn; now rewrite Hw2, Hw1|discriminate]. }
  set (s3 := with_log s2 (EvOpen key n ad ct (Some pt))) in *.
  assert (Hr3 : rdr s3 = rdr s2) by reflexivity.
  assert (Ho3 : w_out (wtr s3) = w_out (wtr s)) by (unfold s3; cbn; now rewrite Hw2, Hw1).
  clearbody s3.
  destruct (de32 (hdr_last hdr) =? 1).
  - (* final chunk: end-of-file probe, then write *)
    unfold bind at 1 in E. destruct (m_read d_read_err 1 s3) as [r4 s4] eqn:E4.
    pose proof (m_read_cases _ _ _ _ _ E4) as (Hw4 & Hr4).
    destruct r4 as [chk|e|w|]; try contradiction.
    2:{ injection E as <- <-. apply pfx_stay; [now rewrite Hw4, Ho3|discriminate]. }
    destruct chk as [|c chk'].
    2:{ injection E as <- <-. apply pfx_stay; [now rewrite Hw4, Ho3|discriminate]. }
    assert (Heof : Forall rd_nonzero (r_script (rdr s)) -> r_data (rdr s2) = []).
    { intros Hnz. rewrite <- Hr3. apply (io_read_nonzero_eof s3 s4).
      - rewrite Hr3. auto.
      - unfold m_read in E4. destruct (io_read 1 s3) as [[e|b] s0]; [discriminate|]. now injection E4 as -> ->. }
    unfold bind at 1 in E. destruct (m_write_all DIOWrite pt s4) as [r5 s5] eqn:E5.
    pose proof (m_write_all_cases _ _ _ _ _ E5) as (_ & d5 & _ & _ & Hr5).
    destruct r5 as [u|e|w|]; try contradiction.
    2:{ injection E as <- <-. destruct Hr5 as ((ie & ->) & (k & Hk & Ho5) & _).
        exists (firstn k pt). split; [now rewrite Ho5, Hw4, Ho3|].
        assert (Hx : concat (l ++ x) = pt).
        { destruct (r_data (rdr s2)); injection Hp as <- <- <-; cbn; now rewrite app_nil_r. }
        split; [exists (skipn k pt); rewrite Hx; symmetry; apply firstn_skipn|].
        split; [discriminate|]. intros Hnz. rewrite (Heof Hnz) in Hp. injection Hp as <- <- <-.
        split; [|discriminate]. exists (skipn k pt). cbn. rewrite app_nil_r. symmetry; apply firstn_skipn. }
    destruct Hr5 as [Ho5 _].
    unfold bind at 1 in E. destruct (m_flush DIOWrite s5) as [r6 s6] eqn:E6.
    pose proof (m_flush_cases _ _ _ _ E6) as (_ & Ho6 & Hr6).
    assert (Hres : s' = s6 /\ (res = Ok tt -> True)).
    { destruct r6; unfold ret in E; injection E as <- <-; auto. }
    destruct Hres as [-> _].
    exists pt. split; [now rewrite Ho6, Ho5, Hw4, Ho3|].
    assert (Hx : concat (l ++ x) = pt /\ (rp = Ok tt \/ rp = Err DUnexpectedData)).
    { destruct (r_data (rdr s2)); injection Hp as <- <- <-; cbn; rewrite app_nil_r; auto. }
    destruct Hx as [Hx Hrp].
    split; [exists []; now rewrite app_nil_r|].
    split; [intros _; split; [now rewrite Hx|exact Hrp]|].
    intros Hnz. rewrite (Heof Hnz) in Hp. injection Hp as <- <- <-. cbn. rewrite app_nil_r.
    split; [exists []; now rewrite app_nil_r|]. intros _. split; reflexivity.
  - (* not final: write, flush, continue *)
    destruct (pure f key aad cs (n + 1) (r_data (rdr s2))) as [[r0 l0] x0] eqn:Hp0.
    injection Hp as <- <- <-.
    unfold bind at 1 in E. destruct (m_write_all DIOWrite pt s3) as [r5 s5] eqn:E5.
    pose proof (m_write_all_cases _ _ _ _ _ E5) as (Hrd5 & d5 & _ & _ & Hr5).
    destruct r5 as [u|e|w|]; try contradiction.
    2:{ injection E as <- <-. destruct Hr5 as ((ie & ->) & (k & Hk & Ho5) & _).
        exists (firstn k pt). split; [now rewrite Ho5, Ho3|].
        split; [exists (skipn k pt ++ concat (l0 ++ x0)); cbn [app concat]; now rewrite app_assoc, firstn_skipn|].
        split; [discriminate|]. intros _.
        split; [|discriminate]. exists (skipn k pt ++ concat l0). cbn [concat]. now rewrite app_assoc, firstn_skipn. }
    destruct Hr5 as [Ho5 _].
    unfold bind at 1 in E. destruct (m_flush DIOWrite s5) as [r6 s6] eqn:E6.
    pose proof (m_flush_cases _ _ _ _ E6) as (Hrd6 & Ho6 & Hr6).
    destruct r6 as [u6|e6|w6|]; try contradiction.
    2:{ injection E as <- <-.
        exists pt. split; [now rewrite Ho6, Ho5, Ho3|].
        split; [exists (concat (l0 ++ x0)); reflexivity|].
        split; [discriminate|]. intros _.
        split; [|discriminate]. exists (concat l0). reflexivity. }
    assert (Hrd : rdr s6 = rdr s2) by (now rewrite Hrd6, Hrd5, Hr3).
    rewrite <- Hrd in Hp0.
    destruct (IH _ _ _ _ _ _ _ E Hp0) as (wr & Hout & (rest & Hrest) & Hok & Hnzc).
    exists (pt ++ wr). split; [rewrite Hout, Ho6, Ho5, Ho3; now rewrite <- app_assoc|].
    split; [exists rest; cbn [app concat]; rewrite Hrest; now rewrite app_assoc|].
    split.
    + intros Hr. destruct (Hok Hr) as [-> Hrp]. split; [reflexivity|exact Hrp].
    + intros Hnz. destruct Hnzc as [(rest' & Hrest') Hok'].
      { rewrite Hrd. auto. }
      split; [exists rest'; cbn [concat]; rewrite Hrest'; now rewrite app_assoc|].
      intros Hr. destruct (Hok' Hr) as [-> ->]. split; reflexivity.
Qed.

End Prefix.

Section PrefixTheorems.
Variable P : prims.
Variable key aad : bytes.
Variable cs : N.

(* the pending chunk exists only when the pure result is DUnexpectedData *)
Lemma dec_pure_pending : forall fuel n data rp l x,
  dec_pure P fuel key aad cs n data = (rp, l, x) ->
  x = [] \/ (rp = Err DUnexpectedData /\ exists pt, x = [pt]).
Proof.
  induction fuel as [|f IH]; intros n data rp l x Hp.
  { cbn in Hp. injection Hp as <- <- <-. left; reflexivity. }
  rewrite dec_pure_S in Hp. cbv zeta in Hp.
  destruct (Nat.ltb _ 16); [injection Hp as <- <- <-; left; reflexivity|].
  destruct (cs <? _); [injection Hp as <- <- <-; left; reflexivity|].
  destruct (Nat.ltb _ _); [injection Hp as <- <- <-; left; reflexivity|].
  destruct (chapoly_decrypt_noise _ _ _ _ _) as [pt|e|w|]; try (injection Hp as <- <- <-; left; reflexivity).
  destruct (_ =? 1).
  - destruct (skipn _ _); injection Hp as <- <- <-; [left; reflexivity|right; eauto].
  - destruct (dec_pure P f key aad cs (n + 1) _) as [[r0 l0] x0] eqn:Hp0. injection Hp as <- <- <-.
    apply (IH _ _ _ _ _ Hp0).
Qed.

(* Any io state, any scripts.  With (rp, l, x) the pure function of the offered bytes: the run wrote a
   prefix of concat (l ++ x); Ok means it wrote all of it; and if the reader never answers with a
   zero-length read while it has data (no RCap 0 in its script) the pending chunk x is never written:
   the run wrote a prefix of concat l, and Ok means rp = Ok and all of concat l was written. *)
Theorem dec_prefix_pure s res s' rp l x :
  decrypt_chunks P key aad cs s = (res, s') ->
  dec_pure_file P key aad cs (r_data (rdr s)) = (rp, l, x) ->
  exists written, w_out (wtr s') = w_out (wtr s) ++ written /\
    (exists rest, concat (l ++ x) = written ++ rest) /\
    (res = Ok tt -> written = concat (l ++ x) /\ (rp = Ok tt \/ rp = Err DUnexpectedData)) /\
    (Forall rd_nonzero (r_script (rdr s)) ->
       (exists rest, concat l = written ++ rest) /\ (res = Ok tt -> rp = Ok tt /\ written = concat l)).
Proof. intros E Hp. exact (dec_loop_prefix P key aad cs _ _ _ _ _ _ _ _ E Hp). Qed.

(* the script-free twin realises the pure function *)
Lemma dec_twin_pure s res0 s0' rp l x :
  decrypt_chunks P key aad cs (twin s) = (res0, s0') ->
  dec_pure_file P key aad cs (r_data (rdr s)) = (rp, l, x) ->
  res0 = rp /\ w_out (wtr s0') = w_out (wtr s) ++ concat l.
Proof.
  intros E0 Hp. destruct (twin_ok s) as [Hr0 Hw0].
  destruct (dec_sched_pure P key aad cs (twin s) rp l x Hr0 Hw0 Hp) as (s2 & E2 & Ho2).
  rewrite E0 in E2. injection E2 as -> ->. split; [reflexivity|exact Ho2].
Qed.

(* written bytes are a prefix of the script-free twin's, whatever faults, short reads, short or
   zero-length writes the scripts of s contain, provided the reader has no zero-length read action
   (see dec_prefix_needs_nonzero for why the proviso cannot be dropped); a run that reports Ok wrote
   exactly what the twin wrote and the twin reports Ok too *)
Theorem dec_prefix_of_faultfree s res s' res0 s0' :
  Forall rd_nonzero (r_script (rdr s)) ->
  decrypt_chunks P key aad cs s = (res, s') ->
  decrypt_chunks P key aad cs (twin s) = (res0, s0') ->
  (exists rest, w_out (wtr s0') = w_out (wtr s') ++ rest) /\
  (res = Ok tt -> res0 = Ok tt /\ w_out (wtr s') = w_out (wtr s0')).
Proof.
  intros Hnz E E0.
  destruct (dec_pure_file P key aad cs (r_data (rdr s))) as [[rp l] x] eqn:Hp.
  destruct (dec_twin_pure _ _ _ _ _ _ E0 Hp) as [-> Ho0].
  destruct (dec_prefix_pure _ _ _ _ _ _ E Hp) as (wr & Hout & _ & _ & Hnzc).
  destruct (Hnzc Hnz) as [(rest & Hrest) Hok].
  split.
  - exists rest. rewrite Ho0, Hout, Hrest. now rewrite app_assoc.
  - intros Hr. destruct (Hok Hr) as [-> ->]. split; [reflexivity|]. now rewrite Ho0, Hout.
Qed.

(* without the proviso: the only bytes a run can write beyond the twin's output are (a prefix of) the
   authenticated final chunk that the twin withheld because data follows it (twin result DUnexpectedData) *)
Theorem dec_prefix_of_faultfree_gen s res s' res0 s0' :
  decrypt_chunks P key aad cs s = (res, s') ->
  decrypt_chunks P key aad cs (twin s) = (res0, s0') ->
  exists pend rest,
    w_out (wtr s0') ++ pend = w_out (wtr s') ++ rest /\
    (pend = [] \/ res0 = Err DUnexpectedData) /\
    (res = Ok tt -> rest = [] /\ (res0 = Ok tt \/ res0 = Err DUnexpectedData)).
Proof.
  intros E E0.
  destruct (dec_pure_file P key aad cs (r_data (rdr s))) as [[rp l] x] eqn:Hp.
  destruct (dec_twin_pure _ _ _ _ _ _ E0 Hp) as [-> Ho0].
  destruct (dec_prefix_pure _ _ _ _ _ _ E Hp) as (wr & Hout & (rest & Hrest) & Hok & _).
  exists (concat x), rest. split; [|split].
  - rewrite Ho0, Hout, <- !app_assoc. f_equal. rewrite <- concat_app. exact Hrest.
  - destruct (dec_pure_pending _ _ _ _ _ _ Hp) as [->|[-> _]]; auto.
  - intros Hr. destruct (Hok Hr) as [-> Hrp]. split; [|exact Hrp].
    rewrite <- (app_nil_r (concat (l ++ x))) in Hrest at 1. now apply app_inv_head in Hrest.
Qed.

End PrefixTheorems.

(* ================= 3. the first fault decides the result and ends the run ================= *)
Lemma benign_dec e : benign e \/ ~ benign e.
Proof.
  destruct e as [req got|req e|off k|off e|r|k n ad ct r|k n ad pt|pw salt n r p]; cbn; auto.
  - destruct e; auto.
  - destruct k; auto. destruct off; auto.
  - destruct e; auto.
  - destruct r; auto.
Qed.

Section Fault.
Variable P : prims.

Definition fstop {A} (m : M derr A) : Prop :=
  forall s r s', m s = (r, s') -> exists d, log s' = d ++ log s /\ fault_shape d r.

Definition errview {A} (r : outcome derr A) : option derr := match r with Err e => Some e | _ => None end.
Lemma errview_err {A} (r : outcome derr A) e : r = Err e <-> errview r = Some e.
Proof. destruct r; cbn; split; intros H; try discriminate; now injection H as ->. Qed.

Lemma fault_shape_ok_benign {A} d (a : A) : fault_shape d (@Ok derr A a) -> Forall benign d.
Proof.
  intros [[H _]|(e & d' & _ & _ & _ & Hr)]; [exact H|].
  destruct e; cbn in Hr; try contradiction.
  1,2: destruct Hr as (ie & _ & Hr); discriminate.
  all: destruct Hr as (ie & Hr); discriminate.
Qed.

Lemma fault_shape_view {A B} d (r : outcome derr A) (r' : outcome derr B) :
  errview r = errview r' -> fault_shape d r -> fault_shape d r'.
Proof.
  intros Hv [[Hb Hi]|(e & d' & -> & Hb & Hnb & Hr)].
  - left. split; [exact Hb|]. intros Hr. apply Hi. apply errview_err. rewrite Hv. now apply errview_err.
  - right. exists e, d'. repeat split; try assumption.
    destruct e; cbn in Hr |- *; try contradiction.
    all: try (destruct Hr as (ie & Hne & Hr); exists ie; split; [exact Hne|]).
    all: try (destruct Hr as (ie & Hr); exists ie).
    all: apply errview_err; rewrite <- Hv; now apply errview_err.
Qed.

Lemma fs_bind {A B} (m : M derr A) (f : A -> M derr B) :
  fstop m -> (forall a, fstop (f a)) -> fstop (bind m f).
Proof.
  intros Hm Hf s r s' E0. unfold bind in E0. destruct (m s) as [r1 s1] eqn:E1.
  destruct (Hm _ _ _ E1) as (d1 & H1 & S1).
  destruct r1 as [a|e|w|].
  2,3,4: injection E0 as <- <-; exists d1; split; [exact H1|]; eapply fault_shape_view; [|exact S1]; reflexivity.
  apply fault_shape_ok_benign in S1.
  destruct (Hf a _ _ _ E0) as (d2 & H2 & S2). exists (d2 ++ d1). rewrite H2, H1, app_assoc.
  split; [reflexivity|].
  destruct S2 as [[Hb Hi]|(e & d' & -> & Hb & Hnb & Hr)].
  - left. split; [apply Forall_app; split; assumption|].
    intros Hr. destruct (Hi Hr) as [d' ->]. eexists. reflexivity.
  - right. exists e, (d' ++ d1). repeat split; try assumption. apply Forall_app; split; assumption.
Qed.

Lemma fs_nil {A} (m : M derr A) :
  (forall s, exists r, m s = (r, s) /\ r <> Err (DIORead Interrupted)) -> fstop m.
Proof.
  intros H s r s' E0. destruct (H s) as (r0 & H0 & Hne). rewrite H0 in E0. injection E0 as <- <-.
  exists []. split; [reflexivity|]. left. split; [constructor|]. intros; contradiction.
Qed.
Lemma fs_ret {A} (a : A) : fstop (ret a).
Proof. apply fs_nil. intros s. eexists. split; [reflexivity|discriminate]. Qed.
Lemma fs_fail {A} (e : derr) : e <> DIORead Interrupted -> fstop (@fail derr A e).
Proof. intros Hne. apply fs_nil. intros s. eexists. split; [reflexivity|]. intros [= H]. contradiction. Qed.
Lemma fs_lift_oof {A} : fstop (@lift derr A OutOfFuel).
Proof. apply fs_nil. intros s. eexists. split; [reflexivity|discriminate]. Qed.

Lemma fs_read_exact n : fstop (m_read_exact d_read_err n).
Proof.
  intros s r s' E0. unfold m_read_exact in E0. destruct (read_exact n s) as [r0 s0] eqn:Er.
  pose proof (read_exact_spec _ _ _ _ Er) as (_ & (d & Hd & Hev & Hb) & _).
  exists d. destruct r0 as [[e|b]|]; [| |contradiction]; injection E0 as <- <-; (split; [exact Hd|]).
  - unfold read_exact in Er. apply read_exact_loop_not_interrupted in Er.
    destruct Hb as (e0 & d' & -> & Hb).
    assert (Hres : exists ie, ie <> Interrupted /\ @Err derr bytes (d_read_err e) = Err (DIORead ie)).
    { destruct e; try contradiction; eexists; (split; [|reflexivity]); discriminate. }
    destruct (benign_dec e0) as [Hb0|Hnb0].
    + left. split; [constructor; assumption|]. destruct Hres as (ie & Hne & ->). intros [= ->]. contradiction.
    + right. exists e0, d'. repeat split; try assumption.
      inversion Hev as [|? ? Hr0 _]; subst. destruct e0; cbn in Hr0; try contradiction; exact Hres.
  - left. split; [exact Hb|discriminate].
Qed.

Lemma fs_read_probe : fstop (m_read d_read_err 1).
Proof.
  intros s r s' E0. apply m_read_cases in E0. destruct E0 as (_ & H).
  destruct r as [b|e|w|]; try contradiction.
  - destruct H as (H & _). eexists [_]. split; [exact H|]. left. split; [repeat constructor|discriminate].
  - destruct H as (ie & -> & H & _). eexists [_]. split; [exact H|].
    destruct ie.
    + left. split; [repeat constructor|]. intros _. eexists. reflexivity.
    + right. eexists _, []. repeat split; [constructor|cbn; auto|]. eexists. split; [|reflexivity]. discriminate.
    + right. eexists _, []. repeat split; [constructor|cbn; auto|]. eexists. split; [|reflexivity]. discriminate.
    + right. eexists _, []. repeat split; [constructor|cbn; auto|]. eexists. split; [|reflexivity]. discriminate.
Qed.

Lemma fs_write_all buf : fstop (m_write_all DIOWrite buf).
Proof.
  intros s r s' E0. apply m_write_all_cases in E0. destruct E0 as (_ & d & Hd & Hev & H).
  exists d. split; [exact Hd|]. destruct r as [u|e|w|]; try contradiction.
  - destruct H as [_ Hb]. left. split; [exact Hb|discriminate].
  - destruct H as ((ie & ->) & _ & e0 & d' & -> & Hb & Hnb). right. exists e0, d'. repeat split; try assumption.
    inversion Hev as [|? ? Hw0 _]; subst. destruct e0; cbn in Hw0; try contradiction; eexists; reflexivity.
Qed.

Lemma fs_flush : fstop (m_flush DIOWrite).
Proof.
  intros s r s' E0. apply m_flush_cases in E0. destruct E0 as (_ & _ & H).
  destruct r as [u|e|w|]; try contradiction.
  - eexists [_]. split; [exact H|]. left. split; [repeat constructor|discriminate].
  - destruct H as (ie & -> & H). eexists [_]. split; [exact H|]. right. eexists _, []. repeat split; [constructor|cbn; auto|].
    eexists. reflexivity.
Qed.

Lemma fs_open key n ad ct : fstop (m_open P DChaPolyDecrypt key n ad ct).
Proof.
  intros s r s' E0. unfold m_open in E0.
  destruct (chapoly_decrypt_noise P key n ad ct); injection E0 as <- <-.
  1,2: eexists [_]; split; [reflexivity|]; left; split; [repeat constructor|discriminate].
  all: exists []; split; [reflexivity|]; left; split; [constructor|discriminate].
Qed.

Lemma dec_loop_fstop key aad cs : forall fuel n, fstop (decrypt_chunks_loop P fuel key aad cs n).
Proof.
  induction fuel as [|f IH]; intros n; [apply fs_lift_oof|].
  cbn [decrypt_chunks_loop].
  apply fs_bind; [apply fs_read_exact|intros hdr].
  destruct (cs <? _); [apply fs_fail; discriminate|].
  apply fs_bind; [apply fs_read_exact|intros ct].
  apply fs_bind; [apply fs_open|intros pt].
  destruct (_ =? 1).
  - apply fs_bind; [apply fs_read_probe|intros chk]. destruct chk; [|apply fs_fail; discriminate].
    apply fs_bind; [apply fs_write_all|intros _]. apply fs_bind; [apply fs_flush|intros _]. apply fs_ret.
  - apply fs_bind; [apply fs_write_all|intros _]. apply fs_bind; [apply fs_flush|intros _]. apply IH.
Qed.

Theorem dec_fault_shape key aad cs s res s' :
  decrypt_chunks P key aad cs s = (res, s') -> exists d, log s' = d ++ log s /\ fault_shape d res.
Proof. unfold decrypt_chunks. apply dec_loop_fstop. Qed.

(* d = the new events, newest first.  Ok: all benign.  A non-benign event is the newest one, everything
   before it is benign, and it fixes the result: read fault -> DIORead, write/flush fault -> DIOWrite.
   DIORead Interrupted arises only from the (unretried) end-of-file probe, as the newest event. *)
Theorem dec_fault_is_error key aad cs s res s' d :
  decrypt_chunks P key aad cs s = (res, s') -> log s' = d ++ log s ->
  (res = Ok tt -> Forall benign d) /\
  (forall e, In e d -> ~ benign e ->
     (exists d', d = e :: d' /\ Forall benign d') /\
     (is_read_ev e -> exists ie, ie <> Interrupted /\ res = Err (DIORead ie)) /\
     (is_write_ev e \/ is_flush_event e -> exists ie, res = Err (DIOWrite ie))) /\
  (res = Err (DIORead Interrupted) -> exists d', d = EvReadErr 1 Interrupted :: d' /\ Forall benign d').
Proof.
  intros E Hd. destruct (dec_fault_shape _ _ _ _ _ _ E) as (d0 & Hd0 & Hs).
  rewrite Hd in Hd0. apply app_inv_tail in Hd0. subst d0.
  destruct Hs as [[Hb Hi]|(e0 & d' & -> & Hb & Hnb & Hr)].
  - split; [intros _; exact Hb|]. split.
    + intros e Hin Hn. rewrite Forall_forall in Hb. destruct (Hn (Hb e Hin)).
    + intros Hr. destruct (Hi Hr) as [d' ->]. exists d'. split; [reflexivity|]. now inversion Hb.
  - split; [|split].
    + intros ->. destruct e0; cbn in Hr; try contradiction.
      1,2: destruct Hr as (ie & _ & Hr); discriminate.
      all: destruct Hr as (ie & Hr); discriminate.
    + intros e [<-|Hin] Hn; [|rewrite Forall_forall in Hb; destruct (Hn (Hb e Hin))].
      split; [exists d'; auto|].
      destruct e0; cbn in Hr |- *; try contradiction; (split; [intros Hx|intros [Hx|Hx]]); try contradiction; try exact Hr.
    + intros ->. destruct e0; cbn in Hr; try contradiction.
      1,2: destruct Hr as (ie & Hne & Hr); injection Hr as <-; contradiction.
      all: destruct Hr as (ie & Hr); discriminate.
Qed.

End Fault.

(* ================= 3c. a retried Interrupted changes nothing but the log ================= *)
(* the loops do not look at the log *)
Lemma io_read_frame n s r s1 : io_read n s = (r, s1) -> forall lg,
  io_read n (set_log s lg) =
  (r, set_log s1 ((match r with inr got => EvRead n got | inl e => EvReadErr n e end) :: lg)).
Proof. unfold io_read, set_log. cbn [rdr wtr log]. destruct (rd (rdr s) n) as [r0 r']. intros [= <- <-] lg. reflexivity. Qed.

Lemma io_write_frame buf s r s1 : io_write buf s = (r, s1) -> forall lg,
  io_write buf (set_log s lg) =
  (r, set_log s1 ((match r with inr k => EvWrite buf k | inl e => EvWriteErr buf e end) :: lg)).
Proof. unfold io_write, set_log. cbn [rdr wtr log]. destruct (wr (wtr s) buf) as [r0 w']. intros [= <- <-] lg. reflexivity. Qed.

Lemma read_exact_loop_frame : forall fuel n acc s res s',
  read_exact_loop fuel n acc s = (res, s') ->
  exists d, log s' = d ++ log s /\
    forall lg, read_exact_loop fuel n acc (set_log s lg) = (res, set_log s' (d ++ lg)).
Proof.
  induction fuel as [|f IH]; intros n acc s res s' E.
  { exists []. destruct n; cbn in E |- *; injection E as <- <-; split; reflexivity. }
  destruct n as [|n'].
  { exists []. cbn in E |- *. injection E as <- <-. split; reflexivity. }
  cbn [read_exact_loop] in E |- *.
  destruct (io_read (S n') s) as [r1 s1] eqn:Er.
  pose proof (io_read_spec _ _ _ _ Er) as (_ & Hl & _).
  pose proof (io_read_frame _ _ _ _ Er) as Hfr.
  set (ev := match r1 with inr got => EvRead (S n') got | inl e => EvReadErr (S n') e end) in *.
  assert (Hone : (res, s') = (match r1 with inl e => Some (inl e) | inr _ => Some (inl UnexpectedEof) end, s1) ->
          exists d, log s' = d ++ log s /\
            forall lg, (match r1 with inl e => Some (inl e) | inr _ => Some (inl UnexpectedEof) end,
                        set_log s1 (ev :: lg)) = (res, set_log s' (d ++ lg))).
  { intros [= -> ->]. exists [ev]. split; [exact Hl|]. intros lg. reflexivity. }
  assert (Hrec : forall m acc', read_exact_loop f m acc' s1 = (res, s') ->
          exists d, log s' = d ++ log s /\
            forall lg, read_exact_loop f m acc' (set_log s1 (ev :: lg)) = (res, set_log s' (d ++ lg))).
  { intros m acc' E1. destruct (IH _ _ _ _ _ E1) as (d & Hd & Hfrm). exists (d ++ [ev]).
    rewrite Hd, Hl, <- app_assoc. split; [reflexivity|]. intros lg. rewrite Hfrm, <- app_assoc. reflexivity. }
  destruct r1 as [e|got].
  - destruct e.
    + destruct (Hrec _ _ E) as (d & Hd & Hfrm). exists d. split; [exact Hd|]. intros lg. rewrite Hfr. apply Hfrm.
    + destruct (Hone (eq_sym E)) as (d & Hd & Hfrm). exists d. split; [exact Hd|]. intros lg. rewrite Hfr. apply Hfrm.
    + destruct (Hone (eq_sym E)) as (d & Hd & Hfrm). exists d. split; [exact Hd|]. intros lg. rewrite Hfr. apply Hfrm.
    + destruct (Hone (eq_sym E)) as (d & Hd & Hfrm). exists d. split; [exact Hd|]. intros lg. rewrite Hfr. apply Hfrm.
  - destruct got as [|g got'].
    + destruct (Hone (eq_sym E)) as (d & Hd & Hfrm). exists d. split; [exact Hd|]. intros lg. rewrite Hfr. apply Hfrm.
    + destruct (Hrec _ _ E) as (d & Hd & Hfrm). exists d. split; [exact Hd|]. intros lg. rewrite Hfr. apply Hfrm.
Qed.

(* at ANY iteration of read_exact's loop (n >= 1 bytes still wanted) an Interrupted action costs one
   unit of fuel and one log entry, nothing else *)
Lemma read_exact_loop_interrupted f n acc s : (1 <= n)%nat ->
  read_exact_loop (S f) n acc (push_rd (RFail Interrupted) s) =
  read_exact_loop f n acc (set_log s (EvReadErr n Interrupted :: log s)).
Proof.
  intros Hn. destruct n as [|n']; [lia|]. destruct s as [[dat sc] w lg]. reflexivity.
Qed.

(* read_exact with an extra leading Interrupted: same result, same reader and writer state (data
   consumed, remaining script), one more logged event *)
Theorem read_exact_interrupted n s res s' : (1 <= n)%nat ->
  read_exact n s = (res, s') ->
  exists d, log s' = d ++ log s /\
    read_exact n (push_rd (RFail Interrupted) s) =
    (res, set_log s' (d ++ EvReadErr n Interrupted :: log s)).
Proof.
  intros Hn E. unfold read_exact in *.
  destruct (read_exact_loop_frame _ _ _ _ _ _ E) as (d & Hd & Hfrm). exists d. split; [exact Hd|].
  change (length (r_script (rdr (push_rd (RFail Interrupted) s))) + 2)%nat with (S (length (r_script (rdr s)) + 2)).
  rewrite read_exact_loop_interrupted by exact Hn. apply Hfrm.
Qed.

Lemma write_all_loop_frame : forall fuel buf s res s',
  write_all_loop fuel buf s = (res, s') ->
  exists d, log s' = d ++ log s /\
    forall lg, write_all_loop fuel buf (set_log s lg) = (res, set_log s' (d ++ lg)).
Proof.
  induction fuel as [|f IH]; intros buf s res s' E.
  { exists []. destruct buf; cbn in E |- *; injection E as <- <-; split; reflexivity. }
  destruct buf as [|b0 buf'].
  { exists []. cbn in E |- *. injection E as <- <-. split; reflexivity. }
  remember (b0 :: buf') as buf eqn:Eb.
  assert (Hnb : buf <> []) by (subst buf; discriminate). clear Eb b0 buf'.
  rewrite write_all_loop_unfold in E by exact Hnb.
  destruct (io_write buf s) as [r1 s1] eqn:Ew.
  pose proof (io_write_spec _ _ _ _ Ew) as (_ & Hl & _).
  pose proof (io_write_frame _ _ _ _ Ew) as Hfr.
  set (ev := match r1 with inr k => EvWrite buf k | inl e => EvWriteErr buf e end) in *.
  assert (Hone : forall r0, (res, s') = (r0, s1) ->
          exists d, log s' = d ++ log s /\ forall lg, (r0, set_log s1 (ev :: lg)) = (res, set_log s' (d ++ lg))).
  { intros r0 [= -> ->]. exists [ev]. split; [exact Hl|]. intros lg. reflexivity. }
  assert (Hrec : forall buf1, write_all_loop f buf1 s1 = (res, s') ->
          exists d, log s' = d ++ log s /\
            forall lg, write_all_loop f buf1 (set_log s1 (ev :: lg)) = (res, set_log s' (d ++ lg))).
  { intros buf1 E1. destruct (IH _ _ _ _ E1) as (d & Hd & Hfrm). exists (d ++ [ev]).
    rewrite Hd, Hl, <- app_assoc. split; [reflexivity|]. intros lg. rewrite Hfrm, <- app_assoc. reflexivity. }
  destruct r1 as [e|k].
  - destruct e.
    + destruct (Hrec _ E) as (d & Hd & Hfrm). exists d. split; [exact Hd|]. intros lg.
      rewrite write_all_loop_unfold by exact Hnb. rewrite Hfr. apply Hfrm.
    + destruct (Hone _ (eq_sym E)) as (d & Hd & Hfrm). exists d. split; [exact Hd|]. intros lg.
      rewrite write_all_loop_unfold by exact Hnb. rewrite Hfr. apply Hfrm.
    + destruct (Hone _ (eq_sym E)) as (d & Hd & Hfrm). exists d. split; [exact Hd|]. intros lg.
      rewrite write_all_loop_unfold by exact Hnb. rewrite Hfr. apply Hfrm.
    + destruct (Hone _ (eq_sym E)) as (d & Hd & Hfrm). exists d. split; [exact Hd|]. intros lg.
      rewrite write_all_loop_unfold by exact Hnb. rewrite Hfr. apply Hfrm.
  - destruct k as [|k'].
    + destruct (Hone _ (eq_sym E)) as (d & Hd & Hfrm). exists d. split; [exact Hd|]. intros lg.
      rewrite write_all_loop_unfold by exact Hnb. rewrite Hfr. apply Hfrm.
    + destruct (Hrec _ E) as (d & Hd & Hfrm). exists d. split; [exact Hd|]. intros lg.
      rewrite write_all_loop_unfold by exact Hnb. rewrite Hfr. apply Hfrm.
Qed.

Lemma write_all_loop_interrupted f buf s : buf <> [] ->
  write_all_loop (S f) buf (push_wr (WFail Interrupted) s) =
  write_all_loop f buf (set_log s (EvWriteErr buf Interrupted :: log s)).
Proof.
  intros Hnb. rewrite write_all_loop_unfold by exact Hnb. destruct s as [r [out sc fsc] lg]. reflexivity.
Qed.

(* write_all with an extra leading Interrupted: same result, same bytes written, same remaining
   scripts, one more logged event *)
Theorem write_all_interrupted buf s res s' : buf <> [] ->
  write_all buf s = (res, s') ->
  exists d, log s' = d ++ log s /\
    write_all buf (push_wr (WFail Interrupted) s) =
    (res, set_log s' (d ++ EvWriteErr buf Interrupted :: log s)).
Proof.
  intros Hnb E. unfold write_all in *.
  destruct (write_all_loop_frame _ _ _ _ _ E) as (d & Hd & Hfrm). exists d. split; [exact Hd|].
  change (length (w_script (wtr (push_wr (WFail Interrupted) s))) + 1)%nat with (S (length (w_script (wtr s)) + 1)).
  rewrite write_all_loop_interrupted by exact Hnb. apply Hfrm.
Qed.

(* ================= why dec_prefix_of_faultfree needs its proviso ================= *)
Lemma read_exact_one_cap b rest n k sc w lg : length b = n -> (1 <= n <= k)%nat ->
  read_exact n {| rdr := {| r_data := b ++ rest; r_script := RCap k :: sc |}; wtr := w; log := lg |} =
  (Some (inr b), {| rdr := {| r_data := rest; r_script := sc |}; wtr := w; log := EvRead n b :: lg |}).
Proof.
  intros Hb Hn. unfold read_exact. cbn [rdr r_script length Nat.add].
  destruct n as [|n']; [lia|]. cbn [read_exact_loop]. unfold io_read, rd. cbn [rdr r_script r_data wtr log].
  rewrite Nat.min_r by lia. rewrite (firstn_app_len _ _ _ Hb), (skipn_app_len _ _ _ Hb).
  destruct b as [|x b']; [cbn in Hb; lia|]. rewrite Hb, Nat.sub_diag.
  destruct (length sc + 2)%nat; reflexivity.
Qed.

(* A reader that answers the end-of-file probe with a zero-length read although a byte remains makes
   the run write the final chunk and report Ok, while the script-free twin reports DUnexpectedData and
   writes nothing: for non-empty pt the run's output is NOT a prefix of the twin's. *)
Theorem dec_prefix_needs_nonzero (P : prims) key aad cs hdr ct pt junk :
  length key = 32%nat -> length hdr = 16%nat ->
  de32 (hdr_last hdr) = 1 -> de32 (hdr_len hdr) <= cs ->
  length ct = (N.to_nat (de32 (hdr_len hdr)) + 16)%nat ->
  p_open P key (noise_nonce 0) (aad ++ hdr_last hdr ++ hdr_len hdr) ct = Some pt ->
  let s := mk_io (hdr ++ ct ++ [junk]) [RCap 16; RCap (length ct); RCap 0] [] [] in
  exists s' s0',
    decrypt_chunks P key aad cs s = (Ok tt, s') /\ w_out (wtr s') = pt /\
    decrypt_chunks P key aad cs (twin s) = (Err DUnexpectedData, s0') /\ w_out (wtr s0') = [] /\
    (pt <> [] -> ~ exists rest, w_out (wtr s0') = w_out (wtr s') ++ rest).
Proof.
  intros Hkey Hh Hlast Hlen Hct Hopen s.
  assert (Hcs : (cs <? de32 (hdr_len hdr)) = false) by lia.
  assert (Hdec : chapoly_decrypt_noise P key 0 (aad ++ hdr_last hdr ++ hdr_len hdr) ct = Ok pt).
  { rewrite (chapoly_decrypt_noise_eq P key Hkey). destruct (Nat.ltb_spec (length ct) 16) as [Hlt|_]; [lia|].
    now rewrite Hopen. }
  (* the twin *)
  assert (Hp : dec_pure_file P key aad cs (r_data (rdr s)) = (Err DUnexpectedData, [], [pt])).
  { unfold dec_pure_file. cbn [s mk_io rdr r_data].
    rewrite (dec_pure_step P key aad cs _ _ _ _ _ Hh Hcs Hct), Hdec, Hlast. reflexivity. }
  destruct (twin_ok s) as [Hr0 Hw0].
  destruct (dec_sched_pure P key aad cs (twin s) _ _ _ Hr0 Hw0 Hp) as (s0' & E0 & Ho0).
  (* the run with the zero-length probe answer *)
  assert (Erun : exists s', decrypt_chunks P key aad cs s = (Ok tt, s') /\ w_out (wtr s') = pt).
  { unfold decrypt_chunks. cbn [decrypt_chunks_loop].
    unfold s, mk_io.
    rewrite (bind_ok _ _ _ _ _ (m_read_exact_ok _ _ _ _ _ (read_exact_one_cap hdr _ 16 16 _ _ _ Hh ltac:(lia)))).
    rewrite Hcs.
    rewrite (bind_ok _ _ _ _ _ (m_read_exact_ok _ _ _ _ _
              (read_exact_one_cap ct _ _ (length ct) _ _ _ Hct ltac:(lia)))).
    unfold bind at 1. unfold m_open at 1. rewrite Hdec, Hlast. change (1 =? 1) with true. cbv iota.
    unfold bind at 1. unfold m_read at 1, io_read, rd. cbn [rdr r_script r_data wtr log with_log Nat.min firstn skipn].
    match goal with |- exists s', bind _ _ ?st = _ /\ _ => set (s4 := st) end.
    assert (Hw4 : writer_ok (wtr s4)) by (unfold s4, writer_ok; cbn; split; constructor).
    destruct (m_write_all_sched DIOWrite pt s4 Hw4) as (s5 & E5 & Ho5 & Hw5 & _).
    rewrite (bind_ok _ _ _ _ _ E5).
    destruct (m_flush_sched DIOWrite s5 Hw5) as (s6 & E6 & Ho6 & _ & _).
    rewrite (bind_ok _ _ _ _ _ E6). exists s6. split; [reflexivity|]. rewrite Ho6, Ho5. reflexivity. }
  destruct Erun as (s' & E & Ho).
  exists s', s0'. split; [exact E|]. split; [exact Ho|]. split; [exact E0|].
  assert (Ho0' : w_out (wtr s0') = []) by (rewrite Ho0; reflexivity).
  split; [exact Ho0'|].
  intros Hne [rest Hrest]. rewrite Ho0', Ho in Hrest. destruct pt; [contradiction|discriminate].
Qed.

(* the premises of the counterexample are met by every honest one-chunk file with a byte appended *)
Corollary dec_prefix_needs_nonzero_honest (P : prims) key aad cs pt junk :
  aead_ok P -> length key = 32%nat -> cs < 4294967296 -> N.of_nat (length pt) <= cs -> pt <> [] ->
  exists s s' s0',
    r_data (rdr s) = record P key aad 0 true pt ++ [junk] /\
    decrypt_chunks P key aad cs s = (Ok tt, s') /\
    decrypt_chunks P key aad cs (twin s) = (Err DUnexpectedData, s0') /\
    ~ exists rest, w_out (wtr s0') = w_out (wtr s') ++ rest.
Proof.
  intros Ha Hkey Hcs Hpt Hne.
  set (hdr := be64 0 ++ be32 (flag true) ++ be32 (N.of_nat (length pt))).
  set (ct := p_seal P key (noise_nonce 0) (rec_ad aad true pt) pt).
  assert (Hh : length hdr = 16%nat) by reflexivity.
  assert (Hl1 : hdr_last hdr = be32 1) by reflexivity.
  assert (Hl2 : hdr_len hdr = be32 (N.of_nat (length pt))) by reflexivity.
  assert (Hde : de32 (hdr_len hdr) = N.of_nat (length pt)) by (rewrite Hl2; apply de32_be32; lia).
  destruct (dec_prefix_needs_nonzero P key aad cs hdr ct pt junk Hkey Hh) as (s' & s0' & E & Ho & E0 & Ho0 & Hnp).
  - rewrite Hl1. reflexivity.
  - rewrite Hde. exact Hpt.
  - rewrite Hde, Nnat.Nat2N.id. apply (seal_len P Ha).
  - rewrite Hl1, Hl2. apply (open_seal P Ha).
  - eexists _, s', s0'. split; [|split; [exact E|split; [exact E0|exact (Hnp Hne)]]].
    cbn [mk_io rdr r_data]. unfold record. fold ct. fold (rec_ad aad true pt). fold ct.
    unfold hdr. now rewrite <- !app_assoc.
Qed.

(* ================= 3d. run level: Interrupted inside read_exact / write_all is invisible ================= *)
Lemma io_read_oki n s res s1 : reader_oki (rdr s) -> io_read n s = (res, s1) ->
  reader_oki (rdr s1) /\
  ((res = inl Interrupted /\ r_data (rdr s1) = r_data (rdr s)) \/
   exists m, (Nat.min 1 n <= m <= n)%nat /\ res = inr (firstn m (r_data (rdr s))) /\
             r_data (rdr s1) = skipn m (r_data (rdr s))).
Proof.
  intros Hok E. split; [eapply io_read_script_forall; eassumption|].
  unfold io_read, rd, reader_oki in *. destruct (r_script (rdr s)) as [|[k|e] sc].
  - injection E as <- <-. right. exists n. cbn [rdr r_data]. repeat split; try reflexivity; lia.
  - inversion Hok as [|? ? Ha Hsc]. cbn in Ha. injection E as <- <-. right. exists (Nat.min k n). cbn [rdr r_data].
    repeat split; try reflexivity; lia.
  - inversion Hok as [|? ? Ha Hsc]. cbn in Ha. subst e. injection E as <- <-. left. cbn. split; reflexivity.
Qed.

Lemma read_exact_loop_oki_noerr : forall fuel n acc s e s',
  reader_oki (rdr s) -> (n <= length (r_data (rdr s)))%nat ->
  read_exact_loop fuel n acc s = (Some (inl e), s') -> False.
Proof.
  induction fuel as [|f IH]; intros n acc s e s' Hok Hn E.
  { destruct n; cbn in E; discriminate. }
  destruct n as [|n']; [cbn in E; discriminate|].
  cbn [read_exact_loop] in E. destruct (io_read (S n') s) as [r1 s1] eqn:Er.
  destruct (io_read_oki _ _ _ _ Hok Er) as [Hok1 [[-> Hd]|(m & Hm & -> & Hd)]].
  - apply (IH _ _ _ _ _ Hok1) in E; [exact E|]. rewrite Hd. exact Hn.
  - remember (firstn m (r_data (rdr s))) as got eqn:Eg.
    assert (Hlg : length got = m) by (subst got; rewrite firstn_length; lia).
    destruct got as [|g got']; [cbn in Hlg; lia|].
    apply (IH _ _ _ _ _ Hok1) in E; [exact E|]. rewrite Hd, skipn_length, Hlg. lia.
Qed.

Lemma read_exact_loop_oki_eof : forall fuel n acc s e s',
  reader_oki (rdr s) -> read_exact_loop fuel n acc s = (Some (inl e), s') -> e = UnexpectedEof.
Proof.
  induction fuel as [|f IH]; intros n acc s e s' Hok E.
  { destruct n; cbn in E; discriminate. }
  destruct n as [|n']; [cbn in E; discriminate|].
  cbn [read_exact_loop] in E. destruct (io_read (S n') s) as [r1 s1] eqn:Er.
  destruct (io_read_oki _ _ _ _ Hok Er) as [Hok1 [[-> Hd]|(m & Hm & -> & Hd)]].
  - apply (IH _ _ _ _ _ Hok1 E).
  - destruct (firstn m (r_data (rdr s))) as [|g got']; [injection E as <- <-; reflexivity|].
    apply (IH _ _ _ _ _ Hok1 E).
Qed.

Lemma wr_script_forall (Q : wr_act -> Prop) w buf res w' :
  wr w buf = (res, w') -> Forall Q (w_script w) -> Forall Q (w_script w').
Proof.
  unfold wr. destruct (w_script w) as [|[k|e] sc]; intros [= <- <-] H; cbn [w_script]; try constructor;
    inversion H; assumption.
Qed.
Lemma io_write_script_forall (Q : wr_act -> Prop) buf s res s' :
  io_write buf s = (res, s') -> Forall Q (w_script (wtr s)) -> Forall Q (w_script (wtr s')).
Proof.
  unfold io_write. destruct (wr (wtr s) buf) as [r0 w'] eqn:Ew. intros [= <- <-]. cbn [wtr].
  eapply wr_script_forall; eassumption.
Qed.

Lemma write_all_loop_oki : forall fuel buf s res s',
  Forall wr_act_oki (w_script (wtr s)) -> write_all_loop fuel buf s = (res, s') ->
  Forall wr_act_oki (w_script (wtr s')) /\ forall e, res <> Some (Some e).
Proof.
  induction fuel as [|f IH]; intros buf s res s' Hok E.
  { destruct buf; cbn in E; injection E as <- <-; (split; [exact Hok|discriminate]). }
  destruct buf as [|b0 buf']; [cbn in E; injection E as <- <-; (split; [exact Hok|discriminate])|].
  rewrite write_all_loop_unfold in E by discriminate.
  destruct (io_write (b0 :: buf') s) as [r1 s1] eqn:Ew.
  pose proof (io_write_script_forall _ _ _ _ _ Ew Hok) as Hok1.
  unfold io_write, wr in Ew. destruct (w_script (wtr s)) as [|[k|e] sc].
  - injection Ew as <- <-. cbn [length] in E. apply (IH _ _ _ _ Hok1 E).
  - inversion Hok as [|? ? Ha Hsc]. cbn in Ha. injection Ew as <- <-.
    cbn [length] in E. destruct (Nat.min k (S (length buf'))) as [|m] eqn:Em; [lia|]. apply (IH _ _ _ _ Hok1 E).
  - inversion Hok as [|? ? Ha Hsc]. cbn in Ha. subst e. injection Ew as <- <-. apply (IH _ _ _ _ Hok1 E).
Qed.

Section SchedInt.
Variable P : prims.
Variable key aad : bytes.
Variable cs : N.
Notation dec_loop := (decrypt_chunks_loop P).
Notation pure := (dec_pure P).

Lemma m_read_exact_schedi n s : reader_oki (rdr s) ->
  exists s', wtr s' = wtr s /\ reader_oki (rdr s') /\
    if Nat.leb n (length (r_data (rdr s)))
    then m_read_exact d_read_err n s = (Ok (firstn n (r_data (rdr s))), s') /\
         r_data (rdr s') = skipn n (r_data (rdr s))
    else m_read_exact d_read_err n s = (Err (DIORead OtherErr), s').
Proof.
  intros Hok. destruct (read_exact n s) as [r s'] eqn:E1. exists s'.
  pose proof (read_exact_script_forall _ _ _ _ _ E1 Hok) as Hok'.
  pose proof (read_exact_spec _ _ _ _ E1) as (Hw & _ & Hr).
  split; [exact Hw|]. split; [exact Hok'|].
  unfold m_read_exact. rewrite E1. unfold read_exact in E1.
  destruct (Nat.leb_spec n (length (r_data (rdr s)))) as [Hle|Hlt]; destruct r as [[e|b]|]; try contradiction.
  - destruct (read_exact_loop_oki_noerr _ _ _ _ _ _ Hok Hle E1).
  - destruct Hr as [Hl Hd]. rewrite Hd. rewrite (firstn_app_len _ _ _ Hl), (skipn_app_len _ _ _ Hl). split; reflexivity.
  - apply read_exact_loop_oki_eof in E1; [|exact Hok]. subst e. reflexivity.
  - destruct Hr as [Hl Hd]. rewrite Hd, app_length in Hlt. lia.
Qed.

Lemma m_read_probe_schedi s : reader_oki (rdr s) ->
  exists r s', m_read d_read_err 1 s = (r, s') /\ wtr s' = wtr s /\ reader_oki (rdr s') /\
    (r = Err (DIORead Interrupted) \/ exists chk, r = Ok chk /\ (chk = [] <-> r_data (rdr s) = [])).
Proof.
  intros Hok. destruct (io_read 1 s) as [r s'] eqn:E1.
  pose proof (io_read_spec _ _ _ _ E1) as (Hw & _ & _ & _ & _).
  destruct (io_read_oki _ _ _ _ Hok E1) as [Hok1 [[-> Hd]|(m & Hm & -> & Hd)]].
  - eexists _, s'. unfold m_read. rewrite E1. repeat split; try assumption. left. reflexivity.
  - eexists _, s'. unfold m_read. rewrite E1. repeat split; try assumption. right. eexists. split; [reflexivity|].
    assert (m = 1%nat) as -> by lia. destruct (r_data (rdr s)); cbn; split; intros H; congruence.
Qed.

Lemma m_write_all_schedi buf s : writer_oki (wtr s) ->
  exists s', m_write_all DIOWrite buf s = (Ok tt, s') /\ w_out (wtr s') = w_out (wtr s) ++ buf /\
             writer_oki (wtr s') /\ rdr s' = rdr s.
Proof.
  intros [Hok Hfl]. destruct (write_all buf s) as [r s'] eqn:E1. exists s'.
  pose proof (write_all_spec _ _ _ _ E1) as (Hr & Hfs & d & _ & _ & Hres).
  unfold m_write_all. rewrite E1. unfold write_all in E1.
  destruct (write_all_loop_oki _ _ _ _ _ Hok E1) as [Hok1 Hne].
  destruct r as [[e|]|]; [destruct (Hne e eq_refl)| |contradiction].
  destruct Hres as [Ho _]. repeat split; try assumption. now rewrite Hfs.
Qed.

Lemma m_flush_schedi s : writer_oki (wtr s) ->
  exists s', m_flush DIOWrite s = (Ok tt, s') /\ w_out (wtr s') = w_out (wtr s) /\
             writer_oki (wtr s') /\ rdr s' = rdr s.
Proof.
  intros [Hok Hfl]. unfold m_flush, io_flush, fl, writer_oki. destruct (w_fscript (wtr s)) as [|a sc] eqn:Efs.
  - eexists. split; [reflexivity|]. cbn [rdr wtr log]. rewrite Efs. repeat split; assumption.
  - inversion Hfl as [|? ? Ha Hsc]. destruct a; [|contradiction]. eexists. split; [reflexivity|].
    cbn [rdr wtr log w_out w_script w_fscript]. repeat split; assumption.
Qed.

Lemma dec_loop_sched_int : forall fuel n s rp l x,
  reader_oki (rdr s) -> writer_oki (wtr s) ->
  pure fuel key aad cs n (r_data (rdr s)) = (rp, l, x) ->
  exists res s', dec_loop fuel key aad cs n s = (res, s') /\
    ((res = rp /\ w_out (wtr s') = w_out (wtr s) ++ concat l) \/ res = Err (DIORead Interrupted)).
Proof.
  induction fuel as [|f IH]; intros n s rp l x Hr Hw Hp.
  { cbn in Hp. injection Hp as <- <- <-. exists OutOfFuel, s. split; [reflexivity|]. left. cbn. now rewrite app_nil_r. }
  rewrite dec_pure_S in Hp. cbv zeta in Hp. cbn [decrypt_chunks_loop].
  destruct (m_read_exact_schedi 16 s Hr) as (s1 & Hw1 & Hr1 & H1).
  destruct (Nat.ltb_spec (length (r_data (rdr s))) 16) as [Hlt|Hge].
  { destruct (Nat.leb_spec 16 (length (r_data (rdr s)))) as [Hc|_]; [lia|].
    injection Hp as <- <- <-. eexists _, s1. rewrite (bind_err _ _ _ _ _ H1). split; [reflexivity|]. left.
    cbn. now rewrite app_nil_r, Hw1. }
  destruct (Nat.leb_spec 16 (length (r_data (rdr s)))) as [_|Hc]; [|lia].
  destruct H1 as [E1 Hd1]. rewrite (bind_ok _ _ _ _ _ E1).
  set (hdr := firstn 16 (r_data (rdr s))) in *.
  destruct (cs <? de32 (hdr_len hdr)) eqn:Ecs.
  { injection Hp as <- <- <-. eexists _, s1. unfold fail. split; [reflexivity|]. left. cbn. now rewrite app_nil_r, Hw1. }
  rewrite <- Hd1 in Hp.
  set (k := (N.to_nat (de32 (hdr_len hdr)) + 16)%nat) in *.
  assert (Hw1' : writer_oki (wtr s1)) by (rewrite Hw1; exact Hw).
  destruct (m_read_exact_schedi k s1 Hr1) as (s2 & Hw2 & Hr2 & H2).
  destruct (Nat.ltb_spec (length (r_data (rdr s1))) k) as [Hlt|Hge2].
  { destruct (Nat.leb_spec k (length (r_data (rdr s1)))) as [Hc|_]; [lia|].
    injection Hp as <- <- <-. eexists _, s2. rewrite (bind_err _ _ _ _ _ H2). split; [reflexivity|]. left.
    cbn. now rewrite app_nil_r, Hw2, Hw1. }
  destruct (Nat.leb_spec k (length (r_data (rdr s1)))) as [_|Hc]; [|lia].
  destruct H2 as [E2 Hd2]. rewrite (bind_ok _ _ _ _ _ E2).
  set (ct := firstn k (r_data (rdr s1))) in *. rewrite <- Hd2 in Hp.
  set (ad := aad ++ hdr_last hdr ++ hdr_len hdr) in *.
  unfold bind at 1. unfold m_open at 1.
  destruct (chapoly_decrypt_noise P key n ad ct) as [pt|e|w|].
  2:{ injection Hp as <- <- <-. eexists _, _. split; [reflexivity|]. left. cbn. now rewrite app_nil_r, Hw2, Hw1. }
  2:{ injection Hp as <- <- <-. eexists _, _. split; [reflexivity|]. left. cbn. now rewrite app_nil_r, Hw2, Hw1. }
  2:{ injection Hp as <- <- <-. eexists _, _. split; [reflexivity|]. left. cbn. now rewrite app_nil_r, Hw2, Hw1. }
  set (s3 := with_log s2 (EvOpen key n ad ct (Some pt))).
  assert (Hr3 : reader_oki (rdr s3)) by exact Hr2.
  assert (Hw3 : writer_oki (wtr s3)) by (unfold s3; cbn; rewrite Hw2; exact Hw1').
  assert (Hd3 : r_data (rdr s3) = r_data (rdr s2)) by reflexivity.
  assert (Ho3 : w_out (wtr s3) = w_out (wtr s)) by (unfold s3; cbn; now rewrite Hw2, Hw1).
  clearbody s3.
  destruct (de32 (hdr_last hdr) =? 1).
  - destruct (m_read_probe_schedi s3 Hr3) as (r4 & s4 & E4 & Hw4 & Hr4 & Hcase4).
    destruct Hcase4 as [Hr4e|(chk & Hr4o & Hchk)]; subst r4.
    { eexists _, s4. rewrite (bind_err _ _ _ _ _ E4). split; [reflexivity|]. right. reflexivity. }
    rewrite (bind_ok _ _ _ _ _ E4). rewrite Hd3 in Hchk.
    destruct (r_data (rdr s2)) as [|y ys].
    + injection Hp as <- <- <-. destruct chk as [|c chk']; [|destruct Hchk as [_ Hc]; discriminate (Hc eq_refl)].
      assert (Hw4' : writer_oki (wtr s4)) by (rewrite Hw4; exact Hw3).
      destruct (m_write_all_schedi pt s4 Hw4') as (s5 & E5 & Ho5 & Hw5 & Hr5).
      rewrite (bind_ok _ _ _ _ _ E5).
      destruct (m_flush_schedi s5 Hw5) as (s6 & E6 & Ho6 & Hw6 & Hr6).
      rewrite (bind_ok _ _ _ _ _ E6). eexists _, s6. split; [reflexivity|]. left. split; [reflexivity|].
      cbn [concat]. rewrite app_nil_r, Ho6, Ho5, Hw4, Ho3. reflexivity.
    + injection Hp as <- <- <-. destruct chk as [|c chk']; [destruct Hchk as [Hc _]; discriminate (Hc eq_refl)|].
      eexists _, s4. split; [reflexivity|]. left. split; [reflexivity|]. cbn. now rewrite app_nil_r, Hw4, Ho3.
  - destruct (m_write_all_schedi pt s3 Hw3) as (s5 & E5 & Ho5 & Hw5 & Hr5).
    rewrite (bind_ok _ _ _ _ _ E5).
    destruct (m_flush_schedi s5 Hw5) as (s6 & E6 & Ho6 & Hw6 & Hr6).
    rewrite (bind_ok _ _ _ _ _ E6).
    destruct (pure f key aad cs (n + 1) (r_data (rdr s2))) as [[r0 l0] x0] eqn:Hp0.
    injection Hp as <- <- <-.
    destruct (IH (n + 1) s6 r0 l0 x0) as (res' & s' & E' & Hcase).
    + rewrite Hr6, Hr5. exact Hr3.
    + exact Hw6.
    + rewrite Hr6, Hr5, Hd3. exact Hp0.
    + exists res', s'. split; [exact E'|]. destruct Hcase as [[Hres' Ho']|Hres']; subst res'; [left|right; reflexivity].
      split; [reflexivity|]. rewrite Ho', Ho6, Ho5, Ho3. cbn [concat]. now rewrite <- app_assoc.
Qed.

(* Scripts whose reads/writes make progress but may raise Interrupted anywhere (flushes succeed): the run
   agrees with the script-free twin in result and written bytes -- every Interrupted met inside
   read_exact / write_all is invisible -- unless an Interrupted hits the one unretried call, the
   end-of-file probe: then the result is DIORead Interrupted and the written bytes are a prefix. *)
Theorem dec_schedule_independent_interrupted s res s' res0 s0' :
  reader_oki (rdr s) -> writer_oki (wtr s) ->
  decrypt_chunks P key aad cs s = (res, s') ->
  decrypt_chunks P key aad cs (twin s) = (res0, s0') ->
  (res = res0 /\ w_out (wtr s') = w_out (wtr s0')) \/
  (res = Err (DIORead Interrupted) /\ exists rest, w_out (wtr s0') = w_out (wtr s') ++ rest).
Proof.
  intros Hr Hw E E0.
  destruct (dec_pure_file P key aad cs (r_data (rdr s))) as [[rp l] x] eqn:Hp.
  destruct (dec_loop_sched_int _ _ _ _ _ _ Hr Hw Hp) as (res1 & s1 & E1 & Hcase).
  unfold decrypt_chunks in E. rewrite E in E1. injection E1 as <- <-.
  destruct (dec_twin_pure P key aad cs _ _ _ _ _ _ E0 Hp) as [-> Ho0].
  destruct Hcase as [[Hres Ho]|Hres]; subst res.
  - left. split; [reflexivity|]. now rewrite Ho, Ho0.
  - right. split; [reflexivity|].
    assert (Hnz : Forall rd_nonzero (r_script (rdr s))).
    { eapply Forall_impl; [|exact Hr]. intros [[|k]|e]; cbn; auto; lia. }
    destruct (dec_prefix_of_faultfree P key aad cs s _ s' _ s0' Hnz E E0) as [Hpre _]. exact Hpre.
Qed.

End SchedInt.

Section Audit.
Print Assumptions dec_no_panic.
Print Assumptions dec_bounded_reads.
Print Assumptions dec_fault_shape.
Print Assumptions dec_fault_is_error.
Print Assumptions read_exact_loop_interrupted.
Print Assumptions read_exact_interrupted.
Print Assumptions write_all_loop_interrupted.
Print Assumptions write_all_interrupted.
Print Assumptions dec_schedule_independent_interrupted.
Print Assumptions dec_sched_pure.
Print Assumptions dec_schedule_independent.
Print Assumptions dec_prefix_pure.
Print Assumptions dec_prefix_of_faultfree.
Print Assumptions dec_prefix_of_faultfree_gen.
Print Assumptions dec_prefix_needs_nonzero.
Print Assumptions dec_prefix_needs_nonzero_honest.
End Audit.
