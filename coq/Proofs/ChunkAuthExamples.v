(* Proofs/ChunkAuthExamples.v — non-vacuity of the chunk-layer authenticity theorem (ChunksAuth.dec_auth_top,
   Props/C03.v::C03_chunks_authentic) on the concrete instance of Model/ChunkAuthToy.v (RFC ChaCha20-Poly1305, chunk
   size 2, honest file of 3 chunks), by evaluation:
     (1) the honest file: the premise [no_forgery] holds and the run is Ok with the complete plaintext;
     (2) records 1 and 2 exchanged: the premise holds (the only open that succeeds is the honest one of record 0)
         and the run is REJECTED (AEAD failure) after releasing exactly chunk 0;
     (3) the file cut after record 1: the premise holds and the run is REJECTED (end of input) with chunks 0..1
         released.
   So the premise is satisfiable together with acceptance, and the rejections the theorem implies are exercised on
   inputs for which the premise is TRUE.  The premise is established through a boolean checker with a soundness
   lemma; computation is on the goal side (vm_compute), so Qed re-checks with the VM. *)
From Kestrel Require Import Bytes BytesFacts Outcome IO IOFacts Prims.
From Kestrel.Model Require Import AeadWrap Chunks Files ChunkAuthToy.
From Kestrel.Spec Require Import Concrete.
From Kestrel.Proofs Require Import FilesFacts ChunksAuth.
Local Open Scope N_scope.

Lemma seal_eqb_true a b : seal_eqb a b = true -> a = b.
Proof.
  destruct a as [[n ad] ct], b as [[n' ad'] ct']. unfold seal_eqb. intros H.
  apply andb_prop in H. destruct H as [H H3]. apply andb_prop in H. destruct H as [H1 H2].
  apply N.eqb_eq in H1. apply list_N_eqb_spec in H2, H3. now subst.
Qed.

(* soundness of the checker *)
Lemma no_forgery_b_sound P key aad chunks lg :
  no_forgery_b P key aad chunks lg = true -> no_forgery P key aad chunks lg.
Proof.
  unfold no_forgery_b, no_forgery. intros H n ad ct pt Hin.
  rewrite forallb_forall in H. specialize (H _ Hin). cbv beta iota in H.
  rewrite (proj2 (list_N_eqb_spec key key) eq_refl) in H. cbn [negb orb] in H.
  apply existsb_exists in H. destruct H as (x & Hx & Ex). apply seal_eqb_true in Ex. now subst x.
Qed.

(* ... and its completeness (the checker is exact) *)
Lemma no_forgery_b_complete P key aad chunks lg :
  no_forgery P key aad chunks lg -> no_forgery_b P key aad chunks lg = true.
Proof.
  unfold no_forgery_b, no_forgery. intros H. apply forallb_forall. intros e He.
  destruct e as [| | | | |k n ad ct [pt|]| |]; try reflexivity.
  destruct (list_N_eqb k key) eqn:Ek; [|reflexivity]. cbn [negb orb].
  apply list_N_eqb_spec in Ek. subst k. apply existsb_exists. exists (n, ad, ct).
  split; [exact (H n ad ct pt He)|]. unfold seal_eqb.
  now rewrite N.eqb_refl, !(proj2 (list_N_eqb_spec _ _) eq_refl).
Qed.

Lemma ca_prims_aead_ok : aead_ok ca_prims.
Proof. apply rfc_aead_ok. Qed.

Lemma ca_key_length : length ca_key = 32%nat.
Proof. reflexivity. Qed.

(* the honest file is the three records in order *)
Example ca_honest_records : ca_honest = ca_rec0 ++ ca_rec1 ++ ca_rec2.
Proof. vm_compute. reflexivity. Qed.

(* (1) the honest file: premise true, accepted, complete plaintext *)
Example chunks_authentic_nonvacuous_honest :
  no_forgery ca_prims ca_key ca_aad ca_chunks (log (snd (ca_run ca_honest))) /\
  fst (ca_run ca_honest) = Ok tt /\
  w_out (wtr (snd (ca_run ca_honest))) = concat ca_chunks.
Proof.
  split; [apply no_forgery_b_sound; vm_compute; reflexivity|].
  split; vm_compute; reflexivity.
Qed.

(* (2) records 1 and 2 exchanged: premise true, rejected by the AEAD, exactly chunk 0 released *)
Example chunks_authentic_nonvacuous_swapped :
  no_forgery ca_prims ca_key ca_aad ca_chunks (log (snd (ca_run ca_swapped))) /\
  fst (ca_run ca_swapped) = Err DChaPolyDecrypt /\
  w_out (wtr (snd (ca_run ca_swapped))) = [1; 2] /\
  ca_swapped <> ca_honest.
Proof.
  split; [apply no_forgery_b_sound; vm_compute; reflexivity|].
  split; [vm_compute; reflexivity|]. split; [vm_compute; reflexivity|].
  intros E. apply list_N_eqb_spec in E. vm_compute in E. discriminate.
Qed.

(* (3) cut after record 1: premise true, rejected at the end of input, chunks 0..1 released *)
Example chunks_authentic_nonvacuous_truncated :
  no_forgery ca_prims ca_key ca_aad ca_chunks (log (snd (ca_run ca_truncated))) /\
  fst (ca_run ca_truncated) = Err (DIORead OtherErr) /\
  w_out (wtr (snd (ca_run ca_truncated))) = [1; 2; 3; 4].
Proof.
  split; [apply no_forgery_b_sound; vm_compute; reflexivity|].
  split; vm_compute; reflexivity.
Qed.

(* the same three facts in the shape of the theorem: a run  decrypt_chunks .. s = (res, s1)  with the premise *)
Lemma run_pair (offered : bytes) :
  decrypt_chunks ca_prims ca_key ca_aad ca_cs (mk_io offered [] [] []) = (fst (ca_run offered), snd (ca_run offered)).
Proof. unfold ca_run. apply surjective_pairing. Qed.

Theorem chunks_authentic_premise_with_accept :
  exists s1, decrypt_chunks ca_prims ca_key ca_aad ca_cs (mk_io ca_honest [] [] []) = (Ok tt, s1) /\
    no_forgery ca_prims ca_key ca_aad ca_chunks (log s1) /\ w_out (wtr s1) = [1; 2; 3; 4; 5].
Proof.
  destruct chunks_authentic_nonvacuous_honest as (H1 & H2 & H3).
  exists (snd (ca_run ca_honest)). rewrite run_pair, H2. auto.
Qed.

Theorem chunks_authentic_premise_with_reject_swapped :
  exists s1, decrypt_chunks ca_prims ca_key ca_aad ca_cs (mk_io (ca_rec0 ++ ca_rec2 ++ ca_rec1) [] [] [])
             = (Err DChaPolyDecrypt, s1) /\
    no_forgery ca_prims ca_key ca_aad ca_chunks (log s1) /\ w_out (wtr s1) = [1; 2].
Proof.
  destruct chunks_authentic_nonvacuous_swapped as (H1 & H2 & H3 & _).
  exists (snd (ca_run ca_swapped)). change (ca_rec0 ++ ca_rec2 ++ ca_rec1) with ca_swapped. rewrite run_pair, H2. auto.
Qed.

Theorem chunks_authentic_premise_with_reject_truncated :
  exists s1, decrypt_chunks ca_prims ca_key ca_aad ca_cs (mk_io (ca_rec0 ++ ca_rec1) [] [] [])
             = (Err (DIORead OtherErr), s1) /\
    no_forgery ca_prims ca_key ca_aad ca_chunks (log s1) /\ w_out (wtr s1) = [1; 2; 3; 4].
Proof.
  destruct chunks_authentic_nonvacuous_truncated as (H1 & H2 & H3).
  exists (snd (ca_run ca_truncated)). change (ca_rec0 ++ ca_rec1) with ca_truncated. rewrite run_pair, H2. auto.
Qed.

Print Assumptions no_forgery_b_sound.
Print Assumptions chunks_authentic_nonvacuous_honest.
Print Assumptions chunks_authentic_nonvacuous_swapped.
Print Assumptions chunks_authentic_nonvacuous_truncated.
Print Assumptions chunks_authentic_premise_with_accept.
Print Assumptions chunks_authentic_premise_with_reject_swapped.
Print Assumptions chunks_authentic_premise_with_reject_truncated.
