(* Proofs/CliTree.v — the statements of C12 / C13 about the TREE world (Model/Cli.v), packaged per property from
   Proofs/CliFacts.v (section F) and Proofs/CliFs.v: output paths that cannot be created, directory inputs, what can
   change in the tree at all. *)
From Kestrel Require Import Bytes BytesFacts Outcome IO IOFacts Prims.
From Kestrel.gen Require Import Extracted.
From Kestrel.Model Require Import AeadWrap Chunks Noise Files KeyringText Cli.
From Kestrel.Proofs Require Import CliFs CliEnds CliFacts.
Local Open Scope N_scope.

(* the paths at which File::create fails: the string does not resolve, or it names a directory *)
Theorem create_fails_iff : forall (l : fsys) (p : text),
  fs_create_target l p = None <-> (resolve l p = None \/ exists cp, resolve l p = Some (cp, Some NDir)).
Proof. exact fs_create_target_none. Qed.

(* some strings that do not resolve, in every world: the empty string; a path through a name that is absent; a path
   through a regular file *)
Lemma walk_missing_dir l d c rest md : node_at l (d ++ [c]) = None -> rest <> [] ->
  text_eqb c s_dot = false -> text_eqb c s_dotdot = false -> walk l d (c :: rest) md = None.
Proof.
  intros Hn Hr H1 H2. cbn [walk]. rewrite H1, H2. destruct (node_at l d) as [[x|]|]; try reflexivity.
  destruct rest as [|c' r']; [congruence|]. now rewrite Hn.
Qed.
Lemma walk_through_file l d c x rest md : node_at l (d ++ [c]) = Some (NFile x) -> rest <> [] ->
  text_eqb c s_dot = false -> text_eqb c s_dotdot = false -> walk l d (c :: rest) md = None.
Proof.
  intros Hn Hr H1 H2. cbn [walk]. rewrite H1, H2. destruct (node_at l d) as [[y|]|]; try reflexivity.
  destruct rest as [|c' r']; [congruence|]. now rewrite Hn.
Qed.

Section Tree.
Variable P : prims.
Variable pk_ok sk_ok : text -> bool.
Variable unlock : text -> bytes -> outcome kerr bytes.
Variable lock : bytes -> bytes -> bytes -> text.
Variable decode_pk : text -> outcome kerr bytes.
Variable encode_pk : bytes -> text.
Variable utf8_decode : bytes -> option text.
Variable utf8_encode : text -> bytes.

Notation cmd_encrypt := (cmd_encrypt P pk_ok sk_ok unlock decode_pk utf8_decode).
Notation cmd_decrypt := (cmd_decrypt P pk_ok sk_ok unlock decode_pk encode_pk utf8_decode).
Notation cmd_gen_key := (cmd_gen_key P lock encode_pk utf8_decode utf8_encode).

(* the outcome of a command in one record: nothing changed, empty stdout, no success, exit code not 0 *)
Definition failed_clean (w : world) (r : cmd_result) : Prop :=
  new_fs r = fs w /\ stdout r = [] /\ is_success (status r) = false /\ exit_code r <> 0.

(** C13/C12, new cause "the -o path cannot be created" (missing parent directory, a directory at the path, a file
    used as a directory, the empty string, a trailing slash): all five writing commands fail and change nothing —
    no file, no directory. *)
Theorem bad_output_leaves_fs :
  (forall w o fpk fe F, eo_outfile o = Some F -> fs_create_target (fs w) F = None -> failed_clean w (cmd_encrypt w o fpk fe)) /\
  (forall w o F, do_outfile o = Some F -> fs_create_target (fs w) F = None -> failed_clean w (cmd_decrypt w o)) /\
  (forall w o salt F, po_outfile o = Some F -> fs_create_target (fs w) F = None -> failed_clean w (cmd_pass_encrypt P w o salt)) /\
  (forall w o F, po_outfile o = Some F -> fs_create_target (fs w) F = None -> failed_clean w (cmd_pass_decrypt P w o)) /\
  (forall w o sk salt F, go_outfile o = Some F -> fs_create_target (fs w) F = None -> failed_clean w (cmd_gen_key w o sk salt)).
Proof.
  split; [|split; [|split; [|split]]].
  - intros w o fpk fe F. apply encrypt_bad_output.
  - intros w o F. apply decrypt_bad_output.
  - intros w o salt F. apply pass_encrypt_bad_output.
  - intros w o F. apply pass_decrypt_bad_output.
  - intros w o sk salt F. apply gen_key_bad_output.
Qed.

(** whatever a command does — success, early failure, late failure — the only node of the tree that can change is
    the one the -o path denotes, and it can only become / stay a regular file: no directory is created or removed, no
    other file is created, removed or altered, no path string changes its meaning, the current directory stays *)
Definition only_output_changes (w : world) (outfile : option text) (r : cmd_result) : Prop :=
  (forall q, (forall F, outfile = Some F -> fs_target (fs w) q <> fs_target (fs w) F) -> fs_get (new_fs r) q = fs_get (fs w) q) /\
  (forall q, fs_target (new_fs r) q = fs_target (fs w) q) /\
  (forall cq, (forall F, outfile = Some F -> fs_create_target (fs w) F <> Some cq) -> node_at (new_fs r) cq = node_at (fs w) cq) /\
  cwd (new_fs r) = cwd (fs w).

Lemma only_output_unchanged w outfile r : new_fs r = fs w -> only_output_changes w outfile r.
Proof. intros H. unfold only_output_changes. rewrite H. repeat split. Qed.

Theorem commands_change_only_output :
  (forall w o fpk fe, only_output_changes w (eo_outfile o) (cmd_encrypt w o fpk fe)) /\
  (forall w o, only_output_changes w (do_outfile o) (cmd_decrypt w o)) /\
  (forall w o salt, only_output_changes w (po_outfile o) (cmd_pass_encrypt P w o salt)) /\
  (forall w o, only_output_changes w (po_outfile o) (cmd_pass_decrypt P w o)) /\
  (forall w o sk salt, only_output_changes w (go_outfile o) (cmd_gen_key w o sk salt)).
Proof.
  split; [|split; [|split; [|split]]].
  - intros w o fpk fe. apply (stream_other_paths w (eo_outfile o)).
  - intros w o. apply (stream_other_paths w (do_outfile o)).
  - intros w o salt. apply (stream_other_paths w (po_outfile o)).
  - intros w o. apply (stream_other_paths w (po_outfile o)).
  - intros w o sk salt. destruct (is_success (status (cmd_gen_key w o sk salt))) eqn:Hs.
    + destruct (go_outfile o) as [F|] eqn:Ho.
      * destruct (gen_preserves_prefix P lock encode_pk utf8_decode utf8_encode w o sk salt F Ho Hs)
          as (k & _ & _ & H2 & _ & _ & H3 & cp & Hc & H4).
        split; [|split; [|split]].
        -- intros q Hq. apply H2. exact (Hq F eq_refl).
        -- exact H3.
        -- intros cq Hq. apply H4. intros ->. exact (Hq F eq_refl Hc).
        -- pose proof (H3 s_dot) as Hd. clear - Hs Ho Hc. unfold Cli.cmd_gen_key in *.
           destruct (Cli.gen_plan P lock encode_pk utf8_decode w o sk salt); [reflexivity|]. rewrite Ho. unfold gen_write.
           destruct (resolve (fs w) F) as [[cq [[c0|]|]]|]; reflexivity.
      * destruct (gen_stdout P lock encode_pk utf8_decode utf8_encode w o sk salt Ho Hs) as (k & _ & H & _).
        now apply only_output_unchanged.
    + destruct (gen_key_failed_leaves_fs P lock encode_pk utf8_decode utf8_encode w o sk salt Hs) as [H _].
      now apply only_output_unchanged.
Qed.


(** a well-formed tree (every node sits in a directory, the current directory is a directory) stays well-formed under
    every command, whatever its outcome *)
Lemma stream_keeps_wf {J E A} (w : world) (outfile : option text) (plan : pre J)
    (run : J -> outcome E A * io) (fin : J -> outcome E A -> cmd_status) :
  fs_wf (fs w) -> fs_wf (new_fs (stream_cmd w outfile plan run fin)).
Proof.
  intros Hwf. destruct (stream_only_target w outfile plan run fin) as [->|(F & cp & c & _ & Hc & ->)]; [exact Hwf|].
  now apply (create_keeps_wf _ F).
Qed.

Theorem commands_keep_wf :
  (forall w o fpk fe, fs_wf (fs w) -> fs_wf (new_fs (cmd_encrypt w o fpk fe))) /\
  (forall w o, fs_wf (fs w) -> fs_wf (new_fs (cmd_decrypt w o))) /\
  (forall w o salt, fs_wf (fs w) -> fs_wf (new_fs (cmd_pass_encrypt P w o salt))) /\
  (forall w o, fs_wf (fs w) -> fs_wf (new_fs (cmd_pass_decrypt P w o))) /\
  (forall w o sk salt, fs_wf (fs w) -> fs_wf (new_fs (cmd_gen_key w o sk salt))).
Proof.
  split; [|split; [|split; [|split]]].
  - intros w o fpk fe. apply stream_keeps_wf.
  - intros w o. apply stream_keeps_wf.
  - intros w o salt. apply stream_keeps_wf.
  - intros w o. apply stream_keeps_wf.
  - intros w o sk salt Hwf. unfold Cli.cmd_gen_key. destruct (Cli.gen_plan P lock encode_pk utf8_decode w o sk salt); [exact Hwf|].
    unfold gen_write. destruct (go_outfile o) as [F|]; [|exact Hwf].
    destruct (resolve (fs w) F) as [[cp [[c0|]|]]|] eqn:Er; cbn [new_fs mk_result fail_result]; try exact Hwf;
      apply (create_keeps_wf _ F); try exact Hwf; unfold fs_create_target; now rewrite Er.
Qed.

(** the input path is a DIRECTORY (".", "..", "/", an existing sub-directory, with or without trailing slash).
    Decryptors: exit 1 (a read error when every earlier step passed), nothing written, nothing changed. *)
Theorem dir_input_decryptors_leave_fs :
  (forall w o p, do_infile o = Some p -> is_dir (fs w) p ->
     new_fs (cmd_decrypt w o) = fs w /\ stdout (cmd_decrypt w o) = [] /\ is_success (status (cmd_decrypt w o)) = false /\
     (forall j, decrypt_plan pk_ok sk_ok unlock decode_pk utf8_decode w o = inr j ->
        status (cmd_decrypt w o) = SDecryptFailed (DIORead OtherErr) /\ exit_code (cmd_decrypt w o) = 1)) /\
  (forall w o p, po_infile o = Some p -> is_dir (fs w) p ->
     new_fs (cmd_pass_decrypt P w o) = fs w /\ stdout (cmd_pass_decrypt P w o) = [] /\
     is_success (status (cmd_pass_decrypt P w o)) = false /\
     (forall j, pass_decrypt_plan w o = inr j ->
        status (cmd_pass_decrypt P w o) = SDecryptFailed (DIORead OtherErr) /\ exit_code (cmd_pass_decrypt P w o) = 1)).
Proof.
  split.
  - intros w o p. apply decrypt_dir_input.
  - intros w o p. apply pass_decrypt_dir_input.
Qed.

(** C12: the two encryptors — exit 0 means the library run returned Ok on a regular input and a sink that could be
    created, and everything that run wrote is what the -o file (or stdout) holds *)
Theorem encrypt_success_delivers w o fpk fe :
  is_success (status (cmd_encrypt w o fpk fe)) = true ->
  exists j s', encrypt_plan pk_ok sk_ok unlock decode_pk utf8_decode w o = inr j /\
    run_enc P fpk fe j = (Ok tt, s') /\ ej_dir j = false /\ ej_bad j = false /\
    match eo_outfile o with
    | Some F => fs_get (new_fs (cmd_encrypt w o fpk fe)) F = Some (w_out (wtr s')) /\ stdout (cmd_encrypt w o fpk fe) = []
    | None => stdout (cmd_encrypt w o fpk fe) = w_out (wtr s') /\ new_fs (cmd_encrypt w o fpk fe) = fs w
    end.
Proof.
  intros Hs. unfold Cli.cmd_encrypt in *.
  apply stream_success in Hs; [|apply nosucc_encrypt_plan]. destruct Hs as (j & Hp & Hs).
  destruct (run_enc P fpk fe j) as [res s'] eqn:Er. cbn [fst] in Hs. destruct res as [[]|e|t|]; try discriminate.
  destruct (run_enc_ok P _ _ _ _ _ Er) as [Hd Hb]. exists j, s'. split; [exact Hp|]. split; [exact Er|].
  split; [exact Hd|]. split; [exact Hb|].
  destruct (encrypt_plan_inv pk_ok sk_ok unlock decode_pk utf8_decode w o j Hp)
    as (keys & rk & sk & locked & pw & _ & _ & _ & _ & _ & _ & _ & _ & _ & _ & He).
  destruct (eo_outfile o) as [F|] eqn:Eo.
  - assert (Ht : sink_touched (snd (run_enc P fpk fe j)) = true).
    { rewrite Er. rewrite run_enc_eq in Er. exact (key_encrypt_ok_touches P _ _ _ _ _ _ _ _ Er). }
    rewrite Hb in He. destruct (proj1 (job_ends_bad_iff _ _ _ _ _ _ _ He) eq_refl) as [cp Hc].
    pose proof (stream_touched w (Some F) _ (run_enc P fpk fe) (fun _ => fin_enc) j F cp Hp eq_refl Hc Ht) as H.
    rewrite Er in H. destruct H as (H1 & _ & _ & H4). auto.
  - pose proof (stream_stdout w None _ (run_enc P fpk fe) (fun _ => fin_enc) j Hp eq_refl) as [H1 H2].
    rewrite Er in H2. split; assumption.
Qed.

Theorem pass_encrypt_success_delivers w o salt :
  is_success (status (cmd_pass_encrypt P w o salt)) = true ->
  exists j s', pass_encrypt_plan w o salt = inr j /\
    run_penc P salt j = (Ok tt, s') /\ pj_dir j = false /\ pj_bad j = false /\
    match po_outfile o with
    | Some F => fs_get (new_fs (cmd_pass_encrypt P w o salt)) F = Some (w_out (wtr s')) /\ stdout (cmd_pass_encrypt P w o salt) = []
    | None => stdout (cmd_pass_encrypt P w o salt) = w_out (wtr s') /\ new_fs (cmd_pass_encrypt P w o salt) = fs w
    end.
Proof.
  intros Hs. unfold Cli.cmd_pass_encrypt in *.
  apply stream_success in Hs; [|apply nosucc_pass_encrypt_plan]. destruct Hs as (j & Hp & Hs).
  destruct (run_penc P salt j) as [res s'] eqn:Er. cbn [fst] in Hs. destruct res as [[]|e|t|]; try discriminate.
  destruct (run_penc_ok P _ _ _ _ Er) as [Hd Hb]. exists j, s'. split; [exact Hp|]. split; [exact Er|].
  split; [exact Hd|]. split; [exact Hb|].
  destruct (pass_encrypt_plan_inv w o salt j Hp) as (_ & _ & _ & _ & He).
  destruct (po_outfile o) as [F|] eqn:Eo.
  - assert (Ht : sink_touched (snd (run_penc P salt j)) = true).
    { rewrite Er. rewrite run_penc_eq in Er. exact (pass_encrypt_ok_touches P _ _ _ _ _ Er). }
    rewrite Hb in He. destruct (proj1 (job_ends_bad_iff _ _ _ _ _ _ _ He) eq_refl) as [cp Hc].
    pose proof (stream_touched w (Some F) _ (run_penc P salt) (fun _ => fin_enc) j F cp Hp eq_refl Hc Ht) as H.
    rewrite Er in H. destruct H as (H1 & _ & _ & H4). auto.
  - pose proof (stream_stdout w None _ (run_penc P salt) (fun _ => fin_enc) j Hp eq_refl) as [H1 H2].
    rewrite Er in H2. split; assumption.
Qed.

(** C12: a directory as input never gives exit code 0 *)
Theorem dir_input_never_exits_zero :
  (forall w o fpk fe p, eo_infile o = Some p -> is_dir (fs w) p -> exit_code (cmd_encrypt w o fpk fe) <> 0) /\
  (forall w o p, do_infile o = Some p -> is_dir (fs w) p -> exit_code (cmd_decrypt w o) <> 0) /\
  (forall w o salt p, po_infile o = Some p -> is_dir (fs w) p -> exit_code (cmd_pass_encrypt P w o salt) <> 0) /\
  (forall w o p, po_infile o = Some p -> is_dir (fs w) p -> exit_code (cmd_pass_decrypt P w o) <> 0).
Proof.
  destruct (dir_input_fails P pk_ok sk_ok unlock decode_pk encode_pk utf8_decode) as (H1 & H2 & H3 & H4).
  destruct (exit_iff_ok P pk_ok sk_ok unlock lock decode_pk encode_pk (fun _ => true) utf8_decode utf8_encode) as (E1 & E2 & E3 & E4 & _).
  split; [|split; [|split]].
  - intros w o fpk fe p Hi Hd Hc. apply E1 in Hc. rewrite (H1 w o fpk fe p Hi Hd) in Hc. discriminate.
  - intros w o p Hi Hd Hc. apply E2 in Hc. rewrite (H2 w o p Hi Hd) in Hc. discriminate.
  - intros w o salt p Hi Hd Hc. apply E3 in Hc. rewrite (H3 w o salt p Hi Hd) in Hc. discriminate.
  - intros w o p Hi Hd Hc. apply E4 in Hc. rewrite (H4 w o p Hi Hd) in Hc. discriminate.
Qed.

End Tree.

Print Assumptions bad_output_leaves_fs.
Print Assumptions commands_change_only_output.
Print Assumptions dir_input_decryptors_leave_fs.
Print Assumptions encrypt_success_delivers.
Print Assumptions pass_encrypt_success_delivers.
Print Assumptions dir_input_never_exits_zero.
Print Assumptions commands_keep_wf.
