(* Proofs/ChunksEnc.v — encrypt_chunks over scripted I/O: the bytes written are the documented format
   of the sequence of read results (every conforming schedule, fuel shown sufficient), the round trip
   through decrypt_chunks, output length, sequential nonces and absence of panics for EVERY script. *)
From Kestrel Require Import Bytes BytesFacts Outcome IO IOFacts Prims.
From Kestrel.Model Require Import AeadWrap Chunks ChunksSpec.
From Kestrel.Proofs Require Import MonadFacts ChunksDec.
From Coq Require Import ZifyBool ZifyNat ZifyN.
From Coq Require FinFun.
Local Open Scope N_scope.
Ltac Zify.zify_post_hook ::= Z.div_mod_to_equations.

(* ====================================================================== *)
(* 1. reads_of                                                            *)
(* ====================================================================== *)

Lemma rd_data r n got r' : rd r n = (inr got, r') -> r_data r = got ++ r_data r' /\ (length got <= n)%nat.
Proof. intros E. apply rd_spec in E. destruct E as (_ & _ & Hl & Hd). auto. Qed.

(* the fuel does not matter once it exceeds the amount of data *)
Lemma reads_of_fuel_irrel cs : forall f1 f2 r,
  (length (r_data r) < f1)%nat -> (length (r_data r) < f2)%nat ->
  reads_of_fuel f1 cs r = reads_of_fuel f2 cs r.
Proof.
  induction f1 as [|f1 IH]; intros f2 r H1 H2; [lia|].
  destruct f2 as [|f2]; [lia|]. cbn [reads_of_fuel].
  destruct (rd r cs) as [[e|got] r'] eqn:E; [reflexivity|].
  destruct got as [|x got]; [reflexivity|]. f_equal.
  apply rd_data in E. destruct E as [Hd _].
  assert (Hlt : (length (r_data r') < length (r_data r))%nat).
  { rewrite Hd, app_length. cbn [length]. lia. }
  apply IH; lia.
Qed.

(* fuel-free unfolding *)
Lemma reads_of_unfold cs r :
  reads_of cs r = match rd r cs with
                  | (inr (x :: got), r') => (x :: got) :: reads_of cs r'
                  | _ => []
                  end.
Proof.
  unfold reads_of at 1. rewrite Nat.add_1_r. cbn [reads_of_fuel].
  destruct (rd r cs) as [[e|got] r'] eqn:E; [reflexivity|].
  destruct got as [|x got]; [reflexivity|]. f_equal.
  apply rd_data in E. destruct E as [Hd _].
  assert (Hlt : (length (r_data r') < length (r_data r))%nat).
  { rewrite Hd, app_length. cbn [length]. lia. }
  unfold reads_of. apply reads_of_fuel_irrel; lia.
Qed.

(* one read call on a conforming reader *)
Lemma rd_ok r cs : reader_ok r -> (1 <= cs)%nat ->
  exists got r', rd r cs = (inr got, r') /\ reader_ok r' /\ r_data r = got ++ r_data r' /\
                 (length got <= cs)%nat /\ (got = [] -> r_data r = []).
Proof.
  intros Hok Hcs. unfold rd, reader_ok in *. destruct (r_script r) as [|a sc] eqn:Esc.
  - eexists _, _. split; [reflexivity|]. cbn [r_data r_script]. rewrite firstn_skipn, firstn_length.
    repeat split; [constructor | lia |].
    destruct (r_data r) as [|x xs]; [reflexivity|]. destruct cs; [lia|discriminate].
  - inversion Hok as [|? ? Ha Hsc]; subst. destruct a as [k|e]; [|contradiction]. cbn in Ha.
    eexists _, _. split; [reflexivity|]. cbn [r_data r_script]. rewrite firstn_skipn, firstn_length.
    repeat split; [assumption | lia |].
    destruct (r_data r) as [|x xs]; [reflexivity|].
    destruct (Nat.min k cs) eqn:Em; [lia|discriminate].
Qed.

Section ReadsOf.
Variable cs : nat.
Hypothesis Hcs : (1 <= cs)%nat.

Lemma reads_of_props : forall k r, (length (r_data r) <= k)%nat -> reader_ok r ->
  concat (reads_of cs r) = r_data r /\ Forall (piece_ok cs) (reads_of cs r) /\
  (length (reads_of cs r) <= length (r_data r))%nat.
Proof.
  induction k as [|k IH]; intros r Hk Hok; rewrite reads_of_unfold;
    destruct (rd_ok r cs Hok Hcs) as (got & r' & E & Hok' & Hd & Hl & Hnil); rewrite E.
  - assert (Hg : got = []).
    { destruct got as [|x got]; [reflexivity|]. rewrite Hd, app_length in Hk. cbn [length] in Hk. lia. }
    subst got. rewrite (Hnil eq_refl). cbn. repeat split; [constructor|lia].
  - destruct got as [|x got].
    + rewrite (Hnil eq_refl). cbn. repeat split; [constructor|lia].
    + assert (Hlt : (length (r_data r') <= k)%nat).
      { rewrite Hd, app_length in Hk. cbn [length] in Hk. lia. }
      destruct (IH r' Hlt Hok') as (Hc & Hf & Hn). cbn [concat length]. repeat split.
      * rewrite Hc. symmetry. exact Hd.
      * constructor; [|exact Hf]. split; [discriminate|exact Hl].
      * rewrite Hd, app_length. cbn [length]. lia.
Qed.

Theorem reads_of_concat r : reader_ok r -> concat (reads_of cs r) = r_data r.
Proof. intros Hok. now destruct (reads_of_props _ r (le_n _) Hok) as (H & _ & _). Qed.

Theorem reads_of_pieces r : reader_ok r -> Forall (piece_ok cs) (reads_of cs r).
Proof. intros Hok. now destruct (reads_of_props _ r (le_n _) Hok) as (_ & H & _). Qed.

Theorem reads_of_length r : reader_ok r -> (length (reads_of cs r) <= length (r_data r))%nat.
Proof. intros Hok. now destruct (reads_of_props _ r (le_n _) Hok) as (_ & _ & H). Qed.

Lemma reads_of_nil r : reader_ok r -> r_data r = [] -> reads_of cs r = [].
Proof.
  intros Hok Hd. pose proof (reads_of_length r Hok) as H. rewrite Hd in H.
  destruct (reads_of cs r); [reflexivity|cbn in H; lia].
Qed.

(* every partition into pieces of 1..cs bytes arises from a conforming reader *)
Lemma part_reader_ok parts : Forall (piece_ok cs) parts -> reader_ok (part_reader parts).
Proof.
  unfold reader_ok, part_reader, part_script. cbn [r_script]. intros H. apply Forall_map.
  eapply Forall_impl; [|exact H]. intros p [Hne _]. cbn. destruct p; [congruence|cbn; lia].
Qed.

Theorem reads_of_parts : forall parts, Forall (piece_ok cs) parts ->
  reads_of cs {| r_data := concat parts; r_script := map (fun p => RCap (length p)) parts |} = parts.
Proof.
  induction parts as [|p rest IH]; intros H.
  - rewrite reads_of_unfold. unfold rd. cbn [r_script r_data map concat]. now rewrite firstn_nil.
  - inversion H as [|? ? [Hne Hle] Hrest]; subst. rewrite reads_of_unfold. unfold rd.
    cbn [r_script r_data map concat]. rewrite Nat.min_l by exact Hle.
    rewrite firstn_app_exact, skipn_app_exact.
    destruct p as [|x p]; [congruence|]. f_equal. apply IH. exact Hrest.
Qed.

End ReadsOf.

(* ====================================================================== *)
(* the loop body, factored                                                *)
(* ====================================================================== *)
Section Enc.
Variable P : prims.
Variable key aad : bytes.
Variable cs : N.
Hypothesis Hkey : length key = 32%nat.

Notation enc_loop := (encrypt_chunks_loop P).
Notation record := (record P key aad).
Notation spec_from := (spec_chunks_from P key aad).
Notation csn := (N.to_nat cs).

Notation emit_rec := (emit_rec P key aad).

Lemma bind_congr {E A B} (m : M E A) (f g : A -> M E B) s :
  (forall a s1, f a s1 = g a s1) -> bind m f s = bind m g s.
Proof. intros H. unfold bind. destruct (m s) as [[a|e|w|] s1]; auto. Qed.

Lemma enc_loop_S f n prev done s :
  enc_loop (S f) key aad cs n prev done s =
  bind (m_read EIORead csn) (fun cur =>
    if nonempty cur && done then fail EUnexpectedData else
    bind (emit_rec n (done || negb (nonempty cur)) prev) (fun _ =>
      if done || negb (nonempty cur) then ret tt
      else enc_loop f key aad cs (n + 1) cur (done || negb (nonempty cur)))) s.
Proof.
  cbn [encrypt_chunks_loop]. apply bind_congr. intros cur s1.
  fold (nonempty cur). destruct (nonempty cur && done); [reflexivity|].
  unfold emit_rec, bind.
  destruct (m_seal P key n _ prev s1) as [[ct|e|w|] s2]; try reflexivity.
  destruct (m_write_all EIOWrite _ s2) as [[u|e|w|] s3]; try reflexivity.
  destruct (m_write_all EIOWrite ct s3) as [[u'|e|w|] s4]; reflexivity.
Qed.

Lemma m_seal_eq n ad pt s :
  m_seal P (E:=eerr) key n ad pt s = (Ok (p_seal P key (noise_nonce n) ad pt), with_log s (EvSeal key n ad pt)).
Proof.
  unfold m_seal, chapoly_encrypt_noise, chapoly_encrypt_ietf. rewrite Hkey, noise_nonce_length. reflexivity.
Qed.

Lemma emit_ad (b : bool) (prev : bytes) : aad ++ be32 (if b then 1 else 0) ++ be32 (N.of_nat (length prev)) = rec_ad aad b prev.
Proof. reflexivity. Qed.

(* ---- conforming fault-free writer ---- *)
Lemma emit_rec_ok n b prev s : writer_ok (wtr s) ->
  exists s', emit_rec n b prev s = (Ok tt, s') /\ w_out (wtr s') = w_out (wtr s) ++ record n b prev /\
             rdr s' = rdr s /\ writer_ok (wtr s').
Proof.
  intros Hw. unfold emit_rec. rewrite (bind_ok _ _ _ _ _ (m_seal_eq _ _ _ _)).
  set (s1 := with_log s _).
  assert (Hw1 : writer_ok (wtr s1)) by exact Hw.
  destruct (write_all_ok (be64 n ++ be32 (if b then 1 else 0) ++ be32 (N.of_nat (length prev))) s1 Hw1)
    as (s2 & E2 & Ho2 & Hw2 & Hr2).
  rewrite (bind_ok _ _ _ _ _ (m_write_all_ok _ _ _ _ E2)).
  destruct (write_all_ok (p_seal P key (noise_nonce n)
              (aad ++ be32 (if b then 1 else 0) ++ be32 (N.of_nat (length prev))) prev) s2 Hw2)
    as (s3 & E3 & Ho3 & Hw3 & Hr3).
  rewrite (bind_ok _ _ _ _ _ (m_write_all_ok _ _ _ _ E3)).
  destruct (io_flush_ok s3 Hw3) as (s4 & E4 & Ho4 & Hw4 & Hr4).
  exists s4. split; [apply m_flush_ok; exact E4|]. split; [|split; [|exact Hw4]].
  - rewrite Ho4, Ho3, Ho2. unfold s1. cbn [wtr with_log]. rewrite (record_split P key aad).
    rewrite <- app_assoc. reflexivity.
  - rewrite Hr4, Hr3, Hr2. reflexivity.
Qed.

(* one read call of the encryptor on a conforming reader *)
Lemma io_read_conf s : reader_ok (rdr s) -> (1 <= csn)%nat ->
  exists got s1, io_read csn s = (inr got, s1) /\ rd (rdr s) csn = (inr got, rdr s1) /\
    reader_ok (rdr s1) /\ wtr s1 = wtr s /\ r_data (rdr s) = got ++ r_data (rdr s1) /\
    (length got <= csn)%nat /\ (got = [] -> r_data (rdr s) = []).
Proof.
  intros Hok Hc. destruct (rd_ok (rdr s) csn Hok Hc) as (got & r' & E & Hok' & Hd & Hl & Hnil).
  unfold io_read. rewrite E. eexists got, _. split; [reflexivity|]. cbn [rdr wtr]. auto 10.
Qed.

(* ====================================================================== *)
(* 2. the encryptor writes the documented format of its read results      *)
(* ====================================================================== *)
Hypothesis Hcs1 : 1 <= cs.

Lemma enc_loop_ok : forall fuel n prev done s,
  reader_ok (rdr s) -> writer_ok (wtr s) ->
  (done = true -> r_data (rdr s) = []) ->
  (length (reads_of csn (rdr s)) < fuel)%nat ->
  exists s', enc_loop fuel key aad cs n prev done s = (Ok tt, s') /\
             w_out (wtr s') = w_out (wtr s) ++ spec_from n (prev :: reads_of csn (rdr s)) /\
             r_data (rdr s') = [] /\ reader_ok (rdr s') /\ writer_ok (wtr s').
Proof.
  assert (Hc : (1 <= csn)%nat) by lia.
  induction fuel as [|f IH]; intros n prev done s Hr Hw Hdone Hf; [lia|].
  rewrite enc_loop_S.
  destruct (io_read_conf s Hr Hc) as (cur & s1 & E1 & Hrd & Hr1 & Hw1 & Hd1 & Hl1 & Hnil).
  rewrite (bind_ok _ _ _ _ _ (m_read_ok _ _ _ _ _ E1)).
  rewrite reads_of_unfold, Hrd in Hf |- *.
  assert (Hw1' : writer_ok (wtr s1)) by (rewrite Hw1; exact Hw).
  destruct cur as [|x cur'].
  - (* the look-ahead read is empty: the pending chunk is the last one *)
    cbn [nonempty andb negb]. rewrite Bool.orb_true_r.
    destruct (emit_rec_ok n true prev s1 Hw1') as (s2 & E2 & Ho2 & Hr2 & Hw2).
    rewrite (bind_ok _ _ _ _ _ E2). unfold ret. exists s2. split; [reflexivity|].
    split; [rewrite Ho2, Hw1; reflexivity|]. split; [|split; [rewrite Hr2; exact Hr1|exact Hw2]].
    rewrite Hr2. rewrite (Hnil eq_refl) in Hd1. cbn [app] in Hd1. symmetry. exact Hd1.
  - assert (done = false) as ->.
    { destruct done; [|reflexivity]. rewrite (Hdone eq_refl) in Hd1. discriminate Hd1. }
    cbn [nonempty andb negb orb].
    destruct (emit_rec_ok n false prev s1 Hw1') as (s2 & E2 & Ho2 & Hr2 & Hw2).
    rewrite (bind_ok _ _ _ _ _ E2).
    destruct (IH (n + 1) (x :: cur') false s2) as (s' & E' & Ho' & Hd' & Hr' & Hw').
    + rewrite Hr2. exact Hr1.
    + exact Hw2.
    + discriminate.
    + rewrite Hr2. cbn [length] in Hf. lia.
    + exists s'. split; [exact E'|]. split; [|auto].
      rewrite Ho', Ho2, Hw1, Hr2, <- app_assoc. reflexivity.
Qed.

Theorem enc_spec_ok_aux s : reader_ok (rdr s) -> writer_ok (wtr s) ->
  exists s', encrypt_chunks P key aad cs s = (Ok tt, s') /\
    w_out (wtr s') = w_out (wtr s) ++ spec_chunks P key aad (chunks_of_reads (reads_of csn (rdr s))) /\
    r_data (rdr s') = [] /\ reader_ok (rdr s') /\ writer_ok (wtr s').
Proof.
  intros Hr Hw. assert (Hc : (1 <= csn)%nat) by lia.
  unfold encrypt_chunks.
  destruct (io_read_conf s Hr Hc) as (first & s1 & E1 & Hrd & Hr1 & Hw1 & Hd1 & Hl1 & Hnil).
  rewrite (bind_ok _ _ _ _ _ (m_read_ok _ _ _ _ _ E1)).
  assert (Hw1' : writer_ok (wtr s1)) by (rewrite Hw1; exact Hw).
  pose proof (reads_of_length csn Hc (rdr s1) Hr1) as Hlen.
  assert (Hdl : (length (r_data (rdr s1)) <= length (r_data (rdr s)))%nat) by (rewrite Hd1, app_length; lia).
  destruct (enc_loop_ok (length (r_data (rdr s)) + 2) 0 first
              (match first with [] => true | _ => false end) s1 Hr1 Hw1') as (s' & E' & Ho' & Hrest).
  - intros Hfirst. destruct first; [|discriminate]. rewrite (Hnil eq_refl) in Hd1. symmetry. exact Hd1.
  - lia.
  - exists s'. split; [exact E'|]. split; [|exact Hrest].
    rewrite Ho', Hw1. f_equal. unfold spec_chunks. f_equal.
    rewrite (reads_of_unfold csn (rdr s)), Hrd. destruct first as [|x first']; [|reflexivity].
    rewrite (reads_of_nil csn Hc (rdr s1) Hr1); [reflexivity|].
    rewrite (Hnil eq_refl) in Hd1. symmetry. exact Hd1.
Qed.

End Enc.

(* ====================================================================== *)
(* 4. length of the format                                                *)
(* ====================================================================== *)
Lemma chunks_of_reads_length reads : length (chunks_of_reads reads) = Nat.max 1 (length reads).
Proof. destruct reads; cbn [chunks_of_reads length]; lia. Qed.

Lemma chunks_of_reads_concat reads : concat (chunks_of_reads reads) = concat reads.
Proof. destruct reads; reflexivity. Qed.

Lemma chunks_of_reads_ne reads : chunks_of_reads reads <> [].
Proof. destruct reads; discriminate. Qed.

Section Len.
Variable P : prims.
Variable key aad : bytes.
Hypothesis Hseal : forall k n ad m, length (p_seal P k n ad m) = (length m + 16)%nat.

Lemma record_length n b c : length (record P key aad n b c) = (32 + length c)%nat.
Proof.
  unfold record. rewrite !app_length, be64_length, !be32_length, Hseal. lia.
Qed.

Lemma spec_chunks_from_length : forall chunks n,
  length (spec_chunks_from P key aad n chunks) = (32 * length chunks + length (concat chunks))%nat.
Proof.
  induction chunks as [|c rest IH]; intros n; [reflexivity|].
  destruct rest as [|c2 rest'].
  - cbn [spec_chunks_from concat length]. rewrite record_length, app_nil_r. lia.
  - change (spec_chunks_from P key aad n (c :: c2 :: rest'))
      with (record P key aad n false c ++ spec_chunks_from P key aad (n + 1) (c2 :: rest')).
    rewrite app_length, record_length, IH. cbn [concat length]. rewrite !app_length. lia.
Qed.

(* holds for the empty list too (0 = 0); the task's side condition chunks <> [] is not needed *)
Theorem spec_chunks_length chunks :
  length (spec_chunks P key aad chunks) = (32 * length chunks + length (concat chunks))%nat.
Proof. apply spec_chunks_from_length. Qed.

End Len.

(* ====================================================================== *)
(* headline statements, fully quantified                                  *)
(* ====================================================================== *)

(* 2. [aead_ok P] is not needed for this direction and is therefore not assumed. The two extra
   conjuncts (scripts stay conforming) allow composition. *)
Theorem enc_spec_ok (P : prims) (key aad : bytes) (cs : N) (s : io) :
  length key = 32%nat -> 1 <= cs -> reader_ok (rdr s) -> writer_ok (wtr s) ->
  exists s', encrypt_chunks P key aad cs s = (Ok tt, s') /\
    w_out (wtr s') = w_out (wtr s) ++
                     spec_chunks P key aad (chunks_of_reads (reads_of (N.to_nat cs) (rdr s))) /\
    r_data (rdr s') = [] /\ reader_ok (rdr s') /\ writer_ok (wtr s').
Proof. intros Hkey Hcs. apply enc_spec_ok_aux; assumption. Qed.

(* 4, corollary: 32 bytes of overhead (16 header + 16 tag) per chunk *)
Theorem enc_output_length (P : prims) (key aad : bytes) (cs : N) (s : io) r s' :
  (forall k n ad m, length (p_seal P k n ad m) = (length m + 16)%nat) ->
  length key = 32%nat -> 1 <= cs -> reader_ok (rdr s) -> writer_ok (wtr s) ->
  encrypt_chunks P key aad cs s = (r, s') ->
  length (w_out (wtr s')) =
  (length (w_out (wtr s)) + 32 * Nat.max 1 (length (reads_of (N.to_nat cs) (rdr s)))
   + length (r_data (rdr s)))%nat.
Proof.
  intros Hseal Hkey Hcs Hr Hw E.
  destruct (enc_spec_ok P key aad cs s Hkey Hcs Hr Hw) as (s1 & E1 & Ho & _).
  rewrite E1 in E. injection E as <- <-.
  rewrite Ho, app_length, (spec_chunks_length P key aad Hseal), chunks_of_reads_length, chunks_of_reads_concat.
  rewrite reads_of_concat by (assumption || lia). lia.
Qed.

Lemma chunks_of_reads_ok cs reads :
  Forall (piece_ok (N.to_nat cs)) reads -> Forall (chunk_ok cs) (chunks_of_reads reads).
Proof.
  intros H. destruct reads as [|p rest].
  - repeat constructor. unfold chunk_ok. cbn [length]. lia.
  - cbn [chunks_of_reads]. eapply Forall_impl; [|exact H]. intros q [_ Hq]. unfold chunk_ok. lia.
Qed.

(* 3. what encrypt_chunks wrote, offered to decrypt_chunks under ANY conforming schedule, gives back
   the plaintext *)
Theorem chunk_roundtrip_gen (P : prims) (key aad : bytes) (cs : N) (s s' s2 : io) r :
  aead_ok P -> length key = 32%nat -> 1 <= cs -> cs < 4294967296 ->
  reader_ok (rdr s) -> writer_ok (wtr s) ->
  encrypt_chunks P key aad cs s = (r, s') ->
  reader_ok (rdr s2) -> writer_ok (wtr s2) ->
  w_out (wtr s') = w_out (wtr s) ++ r_data (rdr s2) ->
  r = Ok tt /\
  exists s2', decrypt_chunks P key aad cs s2 = (Ok tt, s2') /\
              w_out (wtr s2') = w_out (wtr s2) ++ r_data (rdr s) /\ r_data (rdr s2') = [].
Proof.
  intros Haead Hkey Hcs Hcs32 Hr Hw E Hr2 Hw2 Hfeed.
  assert (Hc : (1 <= N.to_nat cs)%nat) by lia.
  destruct (enc_spec_ok P key aad cs s Hkey Hcs Hr Hw) as (s1 & E1 & Ho & _).
  rewrite E1 in E. injection E as <- <-. split; [reflexivity|].
  rewrite Ho in Hfeed. apply app_inv_head in Hfeed.
  set (chunks := chunks_of_reads (reads_of (N.to_nat cs) (rdr s))) in *.
  unfold decrypt_chunks.
  destruct (dec_spec_chunks_ok P key aad cs Hkey Haead Hcs32 chunks 0 s2 (S (length (r_data (rdr s2)))))
    as (s2' & E2 & Ho2 & Hd2).
  - apply chunks_of_reads_ne.
  - apply chunks_of_reads_ok. apply reads_of_pieces; assumption.
  - exact Hr2.
  - exact Hw2.
  - symmetry. exact Hfeed.
  - rewrite <- Hfeed, (spec_chunks_length P key aad (seal_len P Haead)). lia.
  - exists s2'. split; [exact E2|]. split; [|exact Hd2].
    rewrite Ho2. f_equal. unfold chunks. rewrite chunks_of_reads_concat. apply reads_of_concat; assumption.
Qed.

Theorem chunk_roundtrip (P : prims) (key aad : bytes) (cs : N) (s s' s2 : io) r :
  aead_ok P -> length key = 32%nat -> 1 <= cs -> cs < 4294967296 ->
  reader_ok (rdr s) -> writer_ok (wtr s) -> w_out (wtr s) = [] ->
  encrypt_chunks P key aad cs s = (r, s') ->
  reader_ok (rdr s2) -> writer_ok (wtr s2) -> r_data (rdr s2) = w_out (wtr s') ->
  r = Ok tt /\
  exists s2', decrypt_chunks P key aad cs s2 = (Ok tt, s2') /\
              w_out (wtr s2') = w_out (wtr s2) ++ r_data (rdr s) /\ r_data (rdr s2') = [].
Proof.
  intros Haead Hkey Hcs Hcs32 Hr Hw Hout E Hr2 Hw2 Hfeed.
  apply (chunk_roundtrip_gen P key aad cs s s' s2 r); try assumption.
  rewrite Hout, Hfeed. reflexivity.
Qed.

(* ====================================================================== *)
(* 5, 6. every script: sequential nonces, no panic, fuel suffices         *)
(* ====================================================================== *)

Lemma quiet_of_write d : Forall is_write_ev d -> Forall quiet_ev d.
Proof. apply Forall_impl. intros [ ] H; cbn in *; auto. Qed.

Lemma quiet_proj tr : Forall quiet_ev tr -> filter_seals tr = [] /\ read_results tr = [].
Proof.
  induction tr as [|e tr IH]; intros H; [split; reflexivity|].
  inversion H as [|? ? He Htr]; subst. destruct (IH Htr) as [H1 H2].
  unfold filter_seals, read_results in *. cbn [flat_map]. rewrite H1, H2.
  destruct e; cbn in He; try contradiction; split; reflexivity.
Qed.

Lemma filter_seals_app a b : filter_seals (a ++ b) = filter_seals a ++ filter_seals b.
Proof. apply flat_map_app. Qed.
Lemma read_results_app a b : read_results (a ++ b) = read_results a ++ read_results b.
Proof. apply flat_map_app. Qed.

Lemma seq_shift_N n m :
  map (fun i => n + N.of_nat i) (seq 0 (S m)) = n :: map (fun i => n + 1 + N.of_nat i) (seq 0 m).
Proof.
  cbn [seq map]. f_equal; [lia|]. rewrite <- seq_shift, map_map. apply map_ext. intros i. lia.
Qed.

Section EncAny.
Variable P : prims.
Variable key aad : bytes.
Variable cs : N.
Hypothesis Hkey : length key = 32%nat.

Notation enc_loop := (encrypt_chunks_loop P).
Notation csn := (N.to_nat cs).
Notation shape := (seal_shape key aad).

Lemma shape_zero n prev tr : filter_seals tr = [] -> shape n prev tr 0.
Proof. intros H. unfold seal_shape. rewrite H. cbn. auto. Qed.

Lemma shape_step n prev b c cur q tr m :
  Forall quiet_ev q -> shape (n + 1) cur tr m ->
  shape n prev (EvRead c cur :: EvSeal key n (rec_ad aad b prev) prev :: q ++ tr) (S m).
Proof.
  intros Hq (Hn & Hk & Hp). destruct (quiet_proj q Hq) as [Hq1 Hq2].
  assert (Hfs : filter_seals (EvRead c cur :: EvSeal key n (rec_ad aad b prev) prev :: q ++ tr) =
                {| seal_key := key; seal_nonce := n; seal_ad := rec_ad aad b prev; seal_pt := prev |}
                :: filter_seals tr).
  { change (EvRead c cur :: EvSeal key n (rec_ad aad b prev) prev :: q ++ tr)
      with ([EvRead c cur; EvSeal key n (rec_ad aad b prev) prev] ++ q ++ tr).
    rewrite !filter_seals_app, Hq1. reflexivity. }
  assert (Hrr : read_results (EvRead c cur :: EvSeal key n (rec_ad aad b prev) prev :: q ++ tr) =
                cur :: read_results tr).
  { change (EvRead c cur :: EvSeal key n (rec_ad aad b prev) prev :: q ++ tr)
      with ([EvRead c cur; EvSeal key n (rec_ad aad b prev) prev] ++ q ++ tr).
    rewrite !read_results_app, Hq2. reflexivity. }
  unfold seal_shape. rewrite Hfs, Hrr. split; [|split].
  - rewrite seq_shift_N. cbn [map seal_nonce]. now rewrite Hn.
  - constructor; [|exact Hk]. cbn [seal_key seal_ad seal_pt]. split; [reflexivity|]. exists b. reflexivity.
  - cbn [map seal_pt firstn]. now rewrite Hp.
Qed.

Lemma log_step s s1 s2 s' c cur e d tr :
  log s1 = EvRead c cur :: log s -> log s2 = d ++ e :: log s1 -> log s' = rev tr ++ log s2 ->
  log s' = rev (EvRead c cur :: e :: rev d ++ tr) ++ log s.
Proof.
  intros H1 H2 H3. rewrite H3, H2, H1. cbn [rev]. rewrite rev_app_distr, rev_involutive, <- !app_assoc.
  reflexivity.
Qed.

Lemma emit_rec_any n b prev s r s' : emit_rec P key aad n b prev s = (r, s') ->
  rdr s' = rdr s /\ ok_or_err r /\
  exists d, log s' = d ++ EvSeal key n (rec_ad aad b prev) prev :: log s /\ Forall quiet_ev d.
Proof.
  unfold emit_rec. intros E. unfold bind at 1 in E. rewrite (m_seal_eq P key Hkey) in E.
  rewrite emit_ad in E.
  set (s1 := with_log s _) in E.
  assert (Hl1 : log s1 = EvSeal key n (rec_ad aad b prev) prev :: log s) by reflexivity.
  assert (Hr1 : rdr s1 = rdr s) by reflexivity. clearbody s1.
  unfold bind at 1 in E. destruct (m_write_all EIOWrite _ s1) as [r2 s2] eqn:E2.
  pose proof (m_write_all_cases _ _ _ _ _ E2) as (Hr2 & d2 & Hl2 & Hev2 & Hres2).
  apply quiet_of_write in Hev2.
  destruct r2 as [u2|e2|w2|]; try contradiction.
  2:{ injection E as <- <-. split; [congruence|]. split; [exact I|]. exists d2. rewrite Hl2, Hl1. auto. }
  unfold bind at 1 in E. destruct (m_write_all EIOWrite _ s2) as [r3 s3] eqn:E3.
  pose proof (m_write_all_cases _ _ _ _ _ E3) as (Hr3 & d3 & Hl3 & Hev3 & Hres3).
  apply quiet_of_write in Hev3.
  destruct r3 as [u3|e3|w3|]; try contradiction.
  2:{ injection E as <- <-. split; [congruence|]. split; [exact I|]. exists (d3 ++ d2).
      rewrite Hl3, Hl2, Hl1, <- app_assoc. split; [reflexivity|]. apply Forall_app; auto. }
  pose proof (m_flush_cases _ _ _ _ E) as (Hr4 & _ & Hres4).
  split; [congruence|].
  destruct r as [u4|e4|w4|]; try contradiction.
  - split; [exact I|]. exists (EvFlush None :: d3 ++ d2). rewrite Hres4, Hl3, Hl2, Hl1. cbn [app]. rewrite <- app_assoc.
    split; [reflexivity|]. constructor; [exact I|]. apply Forall_app; auto.
  - destruct Hres4 as (ie & _ & Hl4). split; [exact I|]. exists (EvFlush (Some ie) :: d3 ++ d2).
    rewrite Hl4, Hl3, Hl2, Hl1. cbn [app]. rewrite <- app_assoc.
    split; [reflexivity|]. constructor; [exact I|]. apply Forall_app; auto.
Qed.

Lemma enc_loop_any : forall fuel n prev done s r s',
  enc_loop fuel key aad cs n prev done s = (r, s') ->
  (exists tr m, log s' = rev tr ++ log s /\ shape n prev tr m) /\
  ((length (r_data (rdr s)) < fuel)%nat -> ok_or_err r).
Proof.
  induction fuel as [|f IH]; intros n prev done s r s' E.
  { cbn in E. injection E as <- <-. split; [|lia]. exists [], 0%nat. split; [reflexivity|].
    apply shape_zero. reflexivity. }
  rewrite enc_loop_S in E. unfold bind at 1 in E.
  destruct (m_read EIORead csn s) as [r1 s1] eqn:E1.
  pose proof (m_read_cases _ _ _ _ _ E1) as (Hw1 & Hres1).
  destruct r1 as [cur|e1|w1|]; try contradiction.
  2:{ destruct Hres1 as (ie & -> & Hl1 & Hd1). injection E as <- <-. split; [|intros _; exact I].
      exists [EvReadErr csn ie], 0%nat. split; [exact Hl1|]. apply shape_zero. reflexivity. }
  destruct Hres1 as (Hl1 & Hlen1 & Hd1).
  destruct (nonempty cur && done) eqn:End.
  { injection E as <- <-. split; [|intros _; exact I].
    exists [EvRead csn cur], 0%nat. split; [exact Hl1|]. apply shape_zero. reflexivity. }
  unfold bind at 1 in E.
  destruct (emit_rec P key aad n (done || negb (nonempty cur)) prev s1) as [r2 s2] eqn:E2.
  pose proof (emit_rec_any _ _ _ _ _ _ E2) as (Hr2 & Hoe2 & d & Hl2 & Hq).
  apply Forall_rev in Hq.
  assert (Hend : forall b, log s' = log s2 -> b = done || negb (nonempty cur) ->
            exists tr m, log s' = rev tr ++ log s /\ shape n prev tr m).
  { intros b Hl' Hb. exists (EvRead csn cur :: EvSeal key n (rec_ad aad b prev) prev :: rev d ++ []), 1%nat.
    split.
    - eapply log_step; [exact Hl1| |rewrite Hl'; reflexivity]. rewrite Hb. exact Hl2.
    - apply shape_step; [exact Hq|]. apply shape_zero. reflexivity. }
  destruct r2 as [u2|e2|w2|]; try contradiction.
  2:{ injection E as <- <-. split; [|intros _; exact I]. apply (Hend _ eq_refl eq_refl). }
  destruct (done || negb (nonempty cur)) eqn:Edone.
  { unfold ret in E. injection E as <- <-. split; [|intros _; exact I]. apply (Hend _ eq_refl eq_refl). }
  destruct (IH _ _ _ _ _ _ E) as ((tr' & m' & Hl' & Hsh') & Hfuel').
  split.
  - exists (EvRead csn cur :: EvSeal key n (rec_ad aad false prev) prev :: rev d ++ tr'), (S m').
    split; [eapply log_step; eassumption|]. apply shape_step; assumption.
  - intros Hf. apply Hfuel'. rewrite Hr2.
    destruct cur as [|x cur']; [destruct done; discriminate Edone|].
    rewrite Hd1, app_length in Hf. cbn [length] in Hf. lia.
Qed.

End EncAny.

Lemma trace_ext s s' tr : log s' = rev tr ++ log s -> trace s' = trace s ++ tr.
Proof. unfold trace. intros ->. now rewrite rev_app_distr, rev_involutive. Qed.

(* 5. for EVERY io state: the AEAD seals of a run of encrypt_chunks use the nonce counters
   0, 1, ..., m-1 in this order under [key]; the i-th sealed plaintext is the i-th read result and
   its associated data is aad ++ flag ++ len of that plaintext *)
Theorem enc_seals_sequential (P : prims) (key aad : bytes) (cs : N) (s s' : io) r :
  length key = 32%nat ->
  encrypt_chunks P key aad cs s = (r, s') ->
  exists tr m, trace s' = trace s ++ tr /\
    map seal_nonce (filter_seals tr) = map N.of_nat (seq 0 m) /\
    Forall (fun q => seal_key q = key /\ exists b, seal_ad q = rec_ad aad b (seal_pt q)) (filter_seals tr) /\
    map seal_pt (filter_seals tr) = firstn m (read_results tr).
Proof.
  intros Hkey E. unfold encrypt_chunks in E. unfold bind at 1 in E.
  destruct (m_read EIORead (N.to_nat cs) s) as [r1 s1] eqn:E1.
  pose proof (m_read_cases _ _ _ _ _ E1) as (Hw1 & Hres1).
  destruct r1 as [first|e1|w1|]; try contradiction.
  2:{ destruct Hres1 as (ie & -> & Hl1 & Hd1). injection E as <- <-.
      exists [EvReadErr (N.to_nat cs) ie], 0%nat. split; [apply trace_ext; exact Hl1|].
      cbn. auto. }
  destruct Hres1 as (Hl1 & _ & _).
  destruct (enc_loop_any P key aad cs Hkey _ _ _ _ _ _ _ E) as ((tr' & m & Hl' & Hn & Hk & Hp) & _).
  exists (EvRead (N.to_nat cs) first :: tr'), m. split; [|split; [|split]].
  - apply trace_ext. rewrite Hl', Hl1. cbn [rev]. now rewrite <- app_assoc.
  - change (filter_seals (EvRead (N.to_nat cs) first :: tr')) with (filter_seals tr').
    rewrite Hn. apply map_ext. intros i. lia.
  - exact Hk.
  - exact Hp.
Qed.

Corollary enc_nonces_distinct (P : prims) (key aad : bytes) (cs : N) (s s' : io) r :
  length key = 32%nat ->
  encrypt_chunks P key aad cs s = (r, s') ->
  exists tr, trace s' = trace s ++ tr /\ NoDup (map seal_nonce (filter_seals tr)) /\
    forall q, In q (filter_seals tr) -> seal_key q = key /\ In (seal_pt q) (read_results tr).
Proof.
  intros Hkey E. destruct (enc_seals_sequential P key aad cs s s' r Hkey E) as (tr & m & Ht & Hn & Hk & Hp).
  exists tr. split; [exact Ht|]. split.
  - rewrite Hn. apply FinFun.Injective_map_NoDup; [|apply seq_NoDup]. intros a b Hab. lia.
  - intros q Hq. split.
    + rewrite Forall_forall in Hk. now destruct (Hk q Hq).
    + apply (in_map seal_pt) in Hq. rewrite Hp in Hq. revert Hq. generalize (seal_pt q).
      generalize (read_results tr). clear. induction m as [|m IH]; intros [|x l] p H; cbn in *; try contradiction.
      destruct H as [H|H]; [left; exact H|right; now apply IH].
Qed.

(* 6. for EVERY io state: no panic, and the fuel |data| + 2 is sufficient *)
Theorem enc_no_panic (P : prims) (key aad : bytes) (cs : N) (s s' : io) r :
  length key = 32%nat ->
  encrypt_chunks P key aad cs s = (r, s') -> ok_or_err r.
Proof.
  intros Hkey E. unfold encrypt_chunks in E. unfold bind at 1 in E.
  destruct (m_read EIORead (N.to_nat cs) s) as [r1 s1] eqn:E1.
  pose proof (m_read_cases _ _ _ _ _ E1) as (Hw1 & Hres1).
  destruct r1 as [first|e1|w1|]; try contradiction.
  2:{ injection E as <- <-. exact I. }
  destruct Hres1 as (_ & _ & Hd1).
  destruct (enc_loop_any P key aad cs Hkey _ _ _ _ _ _ _ E) as (_ & Hfuel).
  apply Hfuel. rewrite Hd1, app_length. lia.
Qed.

Print Assumptions reads_of_concat.
Print Assumptions reads_of_pieces.
Print Assumptions reads_of_length.
Print Assumptions part_reader_ok.
Print Assumptions reads_of_parts.
Print Assumptions enc_spec_ok.
Print Assumptions chunk_roundtrip_gen.
Print Assumptions chunk_roundtrip.
Print Assumptions spec_chunks_length.
Print Assumptions enc_output_length.
Print Assumptions enc_seals_sequential.
Print Assumptions enc_nonces_distinct.
Print Assumptions enc_no_panic.
