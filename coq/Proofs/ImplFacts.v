(* Proofs/ImplFacts.v — generic facts about the slice / usize / loop primitives of Model/ScryptImpl.v *)
From Kestrel Require Import Bytes BytesFacts Outcome.
From Kestrel.Model Require Import ScryptImpl.
From Coq Require Import ZifyBool ZifyNat ZifyN.
Local Open Scope N_scope.
Ltac Zify.zify_post_hook ::= Z.div_mod_to_equations.

Lemma usize_max_val : usize_max = 18446744073709551615. Proof. reflexivity. Qed.
Global Opaque usize_max.

Lemma uadd_ok a b : a + b <= usize_max -> uadd a b = Ok (a + b).
Proof. intros H. unfold uadd. destruct (N.leb_spec (a + b) usize_max); [reflexivity|lia]. Qed.
Lemma usub_ok a b : b <= a -> usub a b = Ok (a - b).
Proof. intros H. unfold usub. destruct (N.leb_spec b a); [reflexivity|lia]. Qed.
Lemma umul_ok a b : a * b <= usize_max -> umul a b = Ok (a * b).
Proof. intros H. unfold umul. destruct (N.leb_spec (a * b) usize_max); [reflexivity|lia]. Qed.
Lemma udiv_ok a b : b <> 0 -> udiv a b = Ok (a / b).
Proof. intros H. unfold udiv. destruct (N.eqb_spec b 0); [contradiction|reflexivity]. Qed.

Lemma idx_ok {A} (l : list A) i d : (N.to_nat i < length l)%nat -> idx l i = Ok (nth (N.to_nat i) l d).
Proof.
  intros H. unfold idx. destruct (nth_error l (N.to_nat i)) eqn:E.
  - now rewrite (nth_error_nth _ _ d E).
  - apply nth_error_None in E. lia.
Qed.
Lemma set_idx_ok {A} (l : list A) i v : (N.to_nat i < length l)%nat -> set_idx l i v = Ok (lupd l (N.to_nat i) v).
Proof. intros H. unfold set_idx, len. destruct (N.ltb_spec i (N.of_nat (length l))); [reflexivity|lia]. Qed.
Lemma slice_from_ok {A} (l : list A) a : (N.to_nat a <= length l)%nat -> slice_from l a = Ok (skipn (N.to_nat a) l).
Proof. intros H. unfold slice_from, len. destruct (N.leb_spec a (N.of_nat (length l))); [reflexivity|lia]. Qed.
Lemma slice_to_ok {A} (l : list A) a : (N.to_nat a <= length l)%nat -> slice_to l a = Ok (firstn (N.to_nat a) l).
Proof. intros H. unfold slice_to, len. destruct (N.leb_spec a (N.of_nat (length l))); [reflexivity|lia]. Qed.
Lemma slice_ok {A} (l : list A) a b : a <= b -> (N.to_nat b <= length l)%nat ->
  slice l a b = Ok (firstn (N.to_nat (b - a)) (skipn (N.to_nat a) l)).
Proof.
  intros H1 H2. unfold slice, len.
  destruct (N.leb_spec a b); [|lia]. destruct (N.leb_spec b (N.of_nat (length l))); [reflexivity|lia].
Qed.
Lemma copy_from_slice_ok {A} (d s : list A) : length d = length s -> copy_from_slice d s = Ok s.
Proof. intros H. unfold copy_from_slice, len. rewrite H, N.eqb_refl. reflexivity. Qed.

Lemma lupd_length {A} (l : list A) : forall i v, length (lupd l i v) = length l.
Proof. induction l as [|h t IH]; intros [|i] v; cbn; auto. Qed.
Lemma nth_lupd_eq {A} (l : list A) : forall i v d, (i < length l)%nat -> nth i (lupd l i v) d = v.
Proof. induction l as [|h t IH]; intros [|i] v d H; cbn in *; try lia; auto. apply IH. lia. Qed.
Lemma nth_lupd_neq {A} (l : list A) : forall i j v d, i <> j -> nth j (lupd l i v) d = nth j l d.
Proof. induction l as [|h t IH]; intros [|i] [|j] v d H; cbn in *; try congruence; auto. Qed.

(* block_copy *)
Lemma block_copy_ok dst src n : (N.to_nat n <= length dst)%nat -> (N.to_nat n <= length src)%nat ->
  block_copy dst src n = Ok (firstn (N.to_nat n) src ++ skipn (N.to_nat n) dst).
Proof.
  intros Hd Hs. unfold block_copy. rewrite slice_to_ok, slice_to_ok by assumption. cbn [obind].
  rewrite copy_from_slice_ok; [reflexivity|]. rewrite !firstn_length. lia.
Qed.

(* loops: a Hoare-style rule.  P k s: s is the state after k iterations. *)
Lemma for_loop_inv {S} (P : nat -> S -> Prop) body step : forall cnt i s0 k0,
  P k0 s0 ->
  (forall k s, (k0 <= k < k0 + cnt)%nat -> P k s ->
     exists s', body (i + step * N.of_nat (k - k0)) s = Ok s' /\ P (Datatypes.S k) s') ->
  exists s', for_loop cnt i step body s0 = Ok s' /\ P (k0 + cnt)%nat s'.
Proof.
  induction cnt as [|c IH]; intros i s0 k0 H0 Hstep.
  - exists s0. split; [reflexivity|]. now rewrite Nat.add_0_r.
  - cbn [for_loop]. destruct (Hstep k0 s0) as (s1 & E1 & P1); [lia|assumption|].
    rewrite Nat.sub_diag, N.mul_0_r, N.add_0_r in E1. rewrite E1. cbn [obind].
    destruct (IH (i + step) s1 (Datatypes.S k0) P1) as (s' & E & P').
    + intros k s Hk Pk. destruct (Hstep k s) as (s2 & E2 & P2); [lia|assumption|].
      exists s2. split; [|assumption]. rewrite <- E2. f_equal.
      replace (N.of_nat (k - k0)) with (N.of_nat (k - Datatypes.S k0) + 1) by lia. lia.
    + exists s'. split; [assumption|]. now rewrite Nat.add_succ_r.
Qed.

Lemma for_range_inv {S} (P : nat -> S -> Prop) body n s0 :
  P O s0 ->
  (forall k s, (k < N.to_nat n)%nat -> P k s -> exists s', body (N.of_nat k) s = Ok s' /\ P (Datatypes.S k) s') ->
  exists s', for_range n body s0 = Ok s' /\ P (N.to_nat n) s'.
Proof.
  intros H0 Hs. unfold for_range.
  destruct (for_loop_inv P body 1 (N.to_nat n) 0 s0 O H0) as (s' & E & P').
  - intros k s Hk Pk. destruct (Hs k s) as (s2 & E2 & P2); [lia|assumption|].
    exists s2. split; [|assumption]. rewrite <- E2. f_equal. lia.
  - exists s'. now split.
Qed.

(* (0..n).step_by(2) with n = 2*m: m iterations, i = 2k *)
Lemma for_step2_inv {S} (P : nat -> S -> Prop) body m s0 :
  P O s0 ->
  (forall k s, (k < N.to_nat m)%nat -> P k s -> exists s', body (2 * N.of_nat k) s = Ok s' /\ P (Datatypes.S k) s') ->
  exists s', for_step2 (2 * m) body s0 = Ok s' /\ P (N.to_nat m) s'.
Proof.
  intros H0 Hs. unfold for_step2. replace ((2 * m + 1) / 2) with m by lia.
  destruct (for_loop_inv P body 2 (N.to_nat m) 0 s0 O H0) as (s' & E & P').
  - intros k s Hk Pk. destruct (Hs k s) as (s2 & E2 & P2); [lia|assumption|].
    exists s2. split; [|assumption]. rewrite <- E2. f_equal. lia.
  - exists s'. now split.
Qed.

Lemma for_each_inv {A S} (P : nat -> S -> Prop) (body : A -> S -> res S) d : forall l s0 k0,
  P k0 s0 ->
  (forall k s, (k0 <= k < k0 + length l)%nat -> P k s ->
     exists s', body (nth (k - k0) l d) s = Ok s' /\ P (Datatypes.S k) s') ->
  exists s', for_each l body s0 = Ok s' /\ P (k0 + length l)%nat s'.
Proof.
  induction l as [|e l IH]; intros s0 k0 H0 Hstep.
  - exists s0. split; [reflexivity|]. cbn. now rewrite Nat.add_0_r.
  - cbn [for_each]. destruct (Hstep k0 s0) as (s1 & E1 & P1); [cbn; lia|assumption|].
    rewrite Nat.sub_diag in E1. cbn [nth] in E1. rewrite E1. cbn [obind].
    destruct (IH s1 (Datatypes.S k0) P1) as (s' & E & P').
    + intros k s Hk Pk. destruct (Hstep k s) as (s2 & E2 & P2); [cbn; lia|assumption|].
      exists s2. split; [|assumption]. rewrite <- E2. f_equal.
      replace (k - k0)%nat with (Datatypes.S (k - Datatypes.S k0)) by lia. reflexivity.
    + exists s'. split; [assumption|]. cbn [length]. now rewrite Nat.add_succ_r.
Qed.

Lemma for_step2_inv' {S} (P : nat -> S -> Prop) body n m s0 :
  n = 2 * m ->
  P O s0 ->
  (forall k s, (k < N.to_nat m)%nat -> P k s -> exists s', body (2 * N.of_nat k) s = Ok s' /\ P (Datatypes.S k) s') ->
  exists s', for_step2 n body s0 = Ok s' /\ P (N.to_nat m) s'.
Proof. intros ->. apply for_step2_inv. Qed.
