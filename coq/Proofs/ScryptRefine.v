(* Proofs/ScryptRefine.v — the Rust scrypt (Model/ScryptImpl.v) computes RFC 7914 scrypt
   (Spec/Scrypt.v) for all parameters the asserts allow (plus the two allocation / derive_key conditions listed at
   scrypt_impl_refines_rfc), with no panic; scrypt_total and scrypt_asserts give the complete behaviour.

   The component theorems live in the files imported below and are restated at the end:
     SalsaRefine.salsa_xor_spec, BlockMixRefine.block_mix_spec,
     SmixRefine.integer_spec, SmixRefine.smix_spec. *)
From Kestrel Require Import Bytes BytesFacts Outcome.
From Kestrel.Spec Require Import Salsa Scrypt.
From Kestrel.Model Require Import ScryptImpl.
From Kestrel.Proofs Require Import ImplFacts SalsaRefine WordFacts BlockMixRefine SmixRefine.
From Coq Require Import ZifyBool ZifyNat ZifyN.
Local Open Scope N_scope.
Ltac Zify.zify_post_hook ::= Z.div_mod_to_equations.

Lemma assert_ok c : c = true -> assert c = Ok tt.
Proof. now intros ->. Qed.
Lemma vec_zero_ok sz n : sz * n <= isize_max -> vec_zero sz n = Ok (repeat 0 (N.to_nat n)).
Proof. intros H. unfold vec_zero. destruct (N.leb_spec (sz * n) isize_max); [reflexivity|lia]. Qed.
Lemma isize_max_val : isize_max = 9223372036854775807. Proof. reflexivity. Qed.
Lemma pbkdf2_max_len_val : pbkdf2_max_len = 137438953440. Proof. reflexivity. Qed.

(* n > 1 and n & (n-1) == 0 say exactly that n is a power of two, at least 2 *)
Lemma pow2_of_land n : 1 < n -> N.land n (n - 1) = 0 -> exists k, 1 <= k /\ n = 2^k.
Proof.
  intros H1 H2. set (k := N.log2 n).
  destruct (N.log2_spec n ltac:(lia)) as [Hlo Hhi]. fold k in Hlo, Hhi.
  assert (Hk : 1 <= k).
  { destruct (N.eq_dec k 0) as [E|]; [|lia]. rewrite E in Hhi. change (2^N.succ 0) with 2 in Hhi. lia. }
  exists k. split; [exact Hk|].
  destruct (N.eq_dec n (2^k)) as [|Hne]; [assumption|exfalso].
  assert (Hl : N.log2 (n - 1) = k) by (apply N.log2_unique; lia).
  assert (B1 : N.testbit n k = true) by (apply N.bit_log2; lia).
  assert (B2 : N.testbit (n - 1) k = true) by (rewrite <- Hl; apply N.bit_log2; lia).
  assert (B : N.testbit (N.land n (n - 1)) k = true) by (rewrite N.land_spec, B1, B2; reflexivity).
  rewrite H2, N.bits_0 in B. discriminate.
Qed.

Section WithPBKDF2.
  Variable pbkdf2 : bytes -> bytes -> nat -> bytes.
  Hypothesis pbkdf2_length : forall pw s n, length (pbkdf2 pw s n) = n.
  Hypothesis pbkdf2_ok : forall pw s n, bytes_ok (pbkdf2 pw s n).

  Lemma derive_key_ok pw salt n : 1 <= n -> n <= pbkdf2_max_len ->
    derive_key pbkdf2 pw salt n = Ok (pbkdf2 pw salt (N.to_nat n)).
  Proof.
    intros H1 H2. unfold derive_key.
    destruct (N.eqb_spec n 0); [lia|]. destruct (N.ltb_spec pbkdf2_max_len n); [lia|reflexivity].
  Qed.

  (* state of the  for i in 0..p  loop after i iterations *)
  Definition p_inv (r : nat) (NN : nat) (B : bytes) (vl : nat) (i : nat)
    (st : bytes * list N * list N * list N) : Prop :=
    let '(b, v, x, y) := st in
    b = concat (map (fun t => scryptROMix r (blk (128 * r) t B) NN) (seq 0 i)) ++ skipn (128 * r * i) B /\
    length v = vl /\ length x = (32 * r)%nat /\ length y = (32 * r)%nat.

  Lemma concat_romix_length r k B : (1 <= r)%nat -> k <= 64 -> bytes_ok B ->
    forall i, (128 * r * i <= length B)%nat ->
    length (concat (map (fun t => scryptROMix r (blk (128 * r) t B) (N.to_nat (2^k))) (seq 0 i))) = (128 * r * i)%nat.
  Proof.
    intros Hr Hk Hok. induction i as [|i IH]; intros Hi; [cbn; lia|].
    rewrite seq_S, map_app, concat_app, app_length, IH by lia. cbn [map concat plus].
    rewrite app_nil_r, scryptROMix_length; try assumption; try lia.
    - unfold blk. now apply Forall_firstn_, Forall_skipn_.
    - apply blk_length. lia.
  Qed.

  Lemma scrypt_body_ok r k p B i st :
    (1 <= r)%nat -> 1 <= k -> (i < p)%nat ->
    32 * N.of_nat r * 2^k <= usize_max -> 128 * N.of_nat r * N.of_nat p <= usize_max ->
    bytes_ok B -> length B = (p * 128 * r)%nat ->
    p_inv r (N.to_nat (2^k)) B (32 * r * N.to_nat (2^k)) i st ->
    exists st', scrypt_body (N.of_nat r) (2^k) (N.of_nat i) st = Ok st' /\
                p_inv r (N.to_nat (2^k)) B (32 * r * N.to_nat (2^k)) (S i) st'.
  Proof.
    intros Hr Hk Hi Hmax Hmaxp HBok HBl. destruct st as [[[b v] x] y]. intros (Hb & Hv & Hx & Hy).
    assert (Hk64 : k <= 64).
    { apply pow2_le_64. assert (2^k <= N.of_nat r * 2^k) by nia. lia. }
    assert (Hir : (i * r + r <= p * r)%nat) by nia.
    assert (Hr128 : 128 * N.of_nat r <= usize_max).
    { assert (N.of_nat r <= N.of_nat r * N.of_nat p) by nia. lia. }
    set (pre := concat (map (fun t => scryptROMix r (blk (128 * r) t B) (N.to_nat (2^k))) (seq 0 i))) in *.
    assert (Hpre : length pre = (128 * r * i)%nat) by (apply concat_romix_length; try assumption; lia).
    assert (Hbl : length b = (p * 128 * r)%nat).
    { rewrite Hb, app_length, Hpre, skipn_length. lia. }
    assert (Hirp : N.of_nat i <= N.of_nat r * N.of_nat p) by nia.
    unfold scrypt_body. arith_steps.
    replace (N.to_nat (N.of_nat i * 128 * N.of_nat r)) with (128 * r * i)%nat by lia.
    assert (Hskip : skipn (128 * r * i) b = skipn (128 * r * i) B).
    { rewrite Hb, skipn_app, Hpre, Nat.sub_diag. rewrite skipn_all2 by lia. reflexivity. }
    rewrite Hskip.
    destruct (smix_spec (skipn (128 * r * i) B) r k v x y) as (v' & x' & y' & E & Lv & Lx & Ly);
      try assumption; try lia.
    { now apply Forall_skipn_. }
    { rewrite skipn_length. lia. }
    rewrite E. cbn [obind]. eexists. split; [reflexivity|].
    unfold p_inv. split; [|repeat split; lia].
    unfold put_from. replace (N.to_nat (N.of_nat i * 128 * N.of_nat r)) with (128 * r * i)%nat by lia.
    rewrite seq_S, map_app, concat_app. cbn [map concat plus]. rewrite app_nil_r. fold pre.
    rewrite <- app_assoc. f_equal.
    - rewrite Hb, firstn_app, Hpre, Nat.sub_diag. cbn [firstn]. rewrite app_nil_r. apply firstn_all2. lia.
    - unfold blk. f_equal. rewrite skipn_add. f_equal. lia.
  Qed.

  (* ---------- behaviour once the six asserts pass ---------- *)
  (* B[0] || ... || B[p-1] after step 2 of RFC 7914 section 6 *)
  Definition scrypt_B' (pw salt : bytes) (NN r p : nat) : bytes :=
    let B := pbkdf2 pw salt (p * 128 * r) in
    concat (map (fun i => scryptROMix r (blk (128 * r) i B) NN) (seq 0 p)).

  Lemma spec_scrypt_B' pw salt NN r p dklen :
    Scrypt.scrypt pbkdf2 pw salt NN r p dklen = pbkdf2 pw (scrypt_B' pw salt NN r p) dklen.
  Proof. reflexivity. Qed.

  (* For n = 2^k (k >= 1), r, p >= 1 and parameters that pass the asserts, the complete behaviour:
     the only remaining panics are the Vec capacity overflow and orion's derive_key(..).unwrap(). *)
  Theorem scrypt_total pw salt (k : N) (r p : nat) (dk : N) :
    1 <= k -> (1 <= r)%nat -> (1 <= p)%nat ->
    N.of_nat r * N.of_nat p < 1073741824 ->
    N.of_nat r <= 18446744073709551615 / 128 / N.of_nat p ->
    N.of_nat r <= 18446744073709551615 / 256 ->
    2^k <= 18446744073709551615 / 128 / N.of_nat r ->
    ScryptImpl.scrypt pbkdf2 pw salt (2^k) (N.of_nat r) (N.of_nat p) dk
    = if 128 * 2^k * N.of_nat r <=? isize_max then
        if dk <=? isize_max then derive_key pbkdf2 pw (scrypt_B' pw salt (N.to_nat (2^k)) r p) dk
        else Panic PArith
      else Panic PArith.
  Proof.
    intros Hk Hr Hp H3 H4 H5 H6.
    pose proof usize_max_val as HM. pose proof isize_max_val as HI. pose proof pbkdf2_max_len_val as HP.
    assert (Hpow : 2 <= 2^k).
    { replace k with (N.succ (k - 1)) by lia. rewrite N.pow_succ_r'. pose proof (N.pow_nonzero 2 (k - 1)). lia. }
    assert (Hnr : 128 * (2^k * N.of_nat r) <= usize_max).
    { change (18446744073709551615 / 128) with 144115188075855871 in H6.
      pose proof (N.mul_div_le 144115188075855871 (N.of_nat r) ltac:(lia)).
      assert (2^k * N.of_nat r <= 144115188075855871) by nia. lia. }
    assert (Hrp : N.of_nat r <= N.of_nat r * N.of_nat p) by nia.
    assert (Hpr : N.of_nat p <= N.of_nat r * N.of_nat p) by nia.
    assert (Hrn : N.of_nat r <= 2^k * N.of_nat r) by nia.
    unfold ScryptImpl.scrypt.
    rewrite assert_ok by (apply N.ltb_lt; lia). cbn [obind]. arith_steps.
    rewrite assert_ok by (apply N.eqb_eq; rewrite land_pow2_pred; apply N.mod_same, N.pow_nonzero; discriminate).
    cbn [obind]. arith_steps.
    rewrite assert_ok by (apply N.ltb_lt; lia). cbn [obind].
    rewrite HM.
    repeat (first [rewrite udiv_ok by lia | rewrite assert_ok by (apply N.leb_le; assumption)]; cbn [obind]).
    arith_steps.
    destruct (N.leb_spec (128 * 2^k * N.of_nat r) isize_max) as [Hvec|Hvec].
    2: { assert (E : vec_zero 4 (32 * 2^k * N.of_nat r) = Panic PArith).
         { unfold vec_zero. destruct (N.leb_spec (4 * (32 * 2^k * N.of_nat r)) isize_max); [lia|reflexivity]. }
         rewrite E. unfold vec_zero. destruct (4 * (32 * N.of_nat r) <=? isize_max); reflexivity. }
    rewrite !(vec_zero_ok 4) by lia. cbn [obind]. arith_steps.
    rewrite (vec_zero_ok 1) by lia. cbn [obind].
    rewrite derive_key_ok by lia. cbn [obind].
    replace (N.to_nat (N.of_nat p * 128 * N.of_nat r)) with (p * 128 * r)%nat by lia.
    unfold scrypt_B'. set (B := pbkdf2 pw salt (p * 128 * r)).
    destruct (for_range_inv (p_inv r (N.to_nat (2^k)) B (32 * r * N.to_nat (2^k)))
                (scrypt_body (N.of_nat r) (2^k)) (N.of_nat p)
                (B, repeat 0 (N.to_nat (32 * 2^k * N.of_nat r)), repeat 0 (N.to_nat (32 * N.of_nat r)),
                 repeat 0 (N.to_nat (32 * N.of_nat r))))
      as ([[[b' v'] x'] y'] & E & Hb' & _).
    - unfold p_inv. rewrite !repeat_length. cbn [seq map concat app]. rewrite Nat.mul_0_r. cbn [skipn].
      repeat split; lia.
    - intros i st Hi Hinv. apply (scrypt_body_ok r k p B i st); try assumption; try lia.
      + apply pbkdf2_ok.
      + apply pbkdf2_length.
    - rewrite E. cbn [obind]. rewrite !Nat2N.id in *.
      assert (Eb : b' = concat (map (fun i => scryptROMix r (blk (128 * r) i B) (N.to_nat (2^k))) (seq 0 p))).
      { rewrite Hb'. rewrite skipn_all2 by (unfold B; rewrite pbkdf2_length; lia). apply app_nil_r. }
      rewrite Eb. unfold vec_zero.
      destruct (N.leb_spec (1 * dk) isize_max); destruct (N.leb_spec dk isize_max); try lia; reflexivity.
  Qed.

  (* ---------- the top-level theorem ---------- *)
  Theorem scrypt_impl_refines_rfc pw salt (k : N) (r p dklen : nat) :
    1 <= k -> (1 <= r)%nat -> (1 <= p)%nat ->
    (* the bounds the six asserts check (n > 1 and n & (n-1) == 0 hold for n = 2^k, k >= 1) *)
    N.of_nat r * N.of_nat p < 1073741824 ->
    N.of_nat r <= 18446744073709551615 / 128 / N.of_nat p ->
    N.of_nat r <= 18446744073709551615 / 256 ->
    2^k <= 18446744073709551615 / 128 / N.of_nat r ->
    (* vec![0u32; 32*n*r] must not exceed isize::MAX bytes, else "capacity overflow" *)
    128 * 2^k * N.of_nat r <= 9223372036854775807 ->
    (* orion's derive_key: non-empty output of at most (2^32-1)*32 octets *)
    (1 <= dklen)%nat -> N.of_nat dklen <= 137438953440 ->
    ScryptImpl.scrypt pbkdf2 pw salt (2^k) (N.of_nat r) (N.of_nat p) (N.of_nat dklen)
    = Ok (Scrypt.scrypt pbkdf2 pw salt (N.to_nat (2^k)) r p dklen).
  Proof.
    intros Hk Hr Hp H3 H4 H5 H6 Hvec Hdk1 Hdk2.
    pose proof isize_max_val as HI. pose proof pbkdf2_max_len_val as HP.
    rewrite scrypt_total by assumption.
    destruct (N.leb_spec (128 * 2^k * N.of_nat r) isize_max); [|lia].
    destruct (N.leb_spec (N.of_nat dklen) isize_max); [|lia].
    rewrite derive_key_ok by lia. rewrite Nat2N.id. now rewrite spec_scrypt_B'.
  Qed.

  (* ---------- when the asserts fire ----------
     Each lemma assumes the earlier asserts (and the checked arithmetic before the assert) pass
     and the assert in question fails.  They need nothing about pbkdf2. *)
  Ltac pass_assert H :=
    rewrite assert_ok by (first [apply N.ltb_lt | apply N.eqb_eq | apply N.leb_le]; exact H); cbn [obind].
  Ltac fail_assert :=
    match goal with
    | |- obind (obind (assert ?c) _) _ = _ => replace c with false; [reflexivity|]
    | |- obind (assert ?c) _ = _ => replace c with false; [reflexivity|]
    end.

  Theorem scrypt_asserts_n_le_1 pw salt n r p dk :
    n <= 1 -> ScryptImpl.scrypt pbkdf2 pw salt n r p dk = Panic PAssert.
  Proof.
    intros H. unfold ScryptImpl.scrypt. fail_assert. symmetry. apply N.ltb_ge. exact H.
  Qed.

  Theorem scrypt_asserts_not_pow2 pw salt n r p dk :
    N.land n (n - 1) <> 0 -> ScryptImpl.scrypt pbkdf2 pw salt n r p dk = Panic PAssert.
  Proof.
    intros H. destruct (N.le_gt_cases n 1) as [Hle|Hgt]; [now apply scrypt_asserts_n_le_1|].
    unfold ScryptImpl.scrypt. pass_assert Hgt. rewrite usub_ok by lia. cbn [obind].
    fail_assert. symmetry. apply N.eqb_neq. exact H.
  Qed.

  Theorem scrypt_asserts_rp pw salt n r p dk :
    1 < n -> N.land n (n - 1) = 0 -> r * p <= usize_max -> 1073741824 <= r * p ->
    ScryptImpl.scrypt pbkdf2 pw salt n r p dk = Panic PAssert.
  Proof.
    intros H1 H2 Hov H3. unfold ScryptImpl.scrypt. pass_assert H1. rewrite usub_ok by lia. cbn [obind].
    pass_assert H2. rewrite umul_ok by exact Hov. cbn [obind].
    fail_assert. symmetry. apply N.ltb_ge. exact H3.
  Qed.

  Theorem scrypt_asserts_r_p pw salt n r p dk :
    1 < n -> N.land n (n - 1) = 0 -> r * p < 1073741824 -> p <> 0 ->
    18446744073709551615 / 128 / p < r ->
    ScryptImpl.scrypt pbkdf2 pw salt n r p dk = Panic PAssert.
  Proof.
    intros H1 H2 H3 Hp H4. pose proof usize_max_val as HM.
    unfold ScryptImpl.scrypt. pass_assert H1. rewrite usub_ok by lia. cbn [obind].
    pass_assert H2. rewrite umul_ok by lia. cbn [obind]. pass_assert H3.
    rewrite HM. repeat (rewrite udiv_ok by (assumption || discriminate); cbn [obind]).
    fail_assert. symmetry. apply N.leb_gt. exact H4.
  Qed.

  Theorem scrypt_asserts_r pw salt n r p dk :
    1 < n -> N.land n (n - 1) = 0 -> r * p < 1073741824 -> p <> 0 ->
    r <= 18446744073709551615 / 128 / p -> 18446744073709551615 / 256 < r ->
    ScryptImpl.scrypt pbkdf2 pw salt n r p dk = Panic PAssert.
  Proof.
    intros H1 H2 H3 Hp H4 H5. pose proof usize_max_val as HM.
    unfold ScryptImpl.scrypt. pass_assert H1. rewrite usub_ok by lia. cbn [obind].
    pass_assert H2. rewrite umul_ok by lia. cbn [obind]. pass_assert H3.
    rewrite HM. repeat (rewrite udiv_ok by (assumption || discriminate); cbn [obind]). pass_assert H4.
    repeat (rewrite udiv_ok by (assumption || discriminate); cbn [obind]).
    fail_assert. symmetry. apply N.leb_gt. exact H5.
  Qed.

  Theorem scrypt_asserts_n_r pw salt n r p dk :
    1 < n -> N.land n (n - 1) = 0 -> r * p < 1073741824 -> p <> 0 -> r <> 0 ->
    r <= 18446744073709551615 / 128 / p -> r <= 18446744073709551615 / 256 ->
    18446744073709551615 / 128 / r < n ->
    ScryptImpl.scrypt pbkdf2 pw salt n r p dk = Panic PAssert.
  Proof.
    intros H1 H2 H3 Hp Hr H4 H5 H6. pose proof usize_max_val as HM.
    unfold ScryptImpl.scrypt. pass_assert H1. rewrite usub_ok by lia. cbn [obind].
    pass_assert H2. rewrite umul_ok by lia. cbn [obind]. pass_assert H3.
    rewrite HM. repeat (rewrite udiv_ok by (assumption || discriminate); cbn [obind]). pass_assert H4.
    repeat (rewrite udiv_ok by (assumption || discriminate); cbn [obind]). pass_assert H5.
    repeat (rewrite udiv_ok by (assumption || discriminate); cbn [obind]).
    fail_assert. symmetry. apply N.leb_gt. exact H6.
  Qed.

  (* the checked arithmetic before / between the asserts *)
  Lemma scrypt_arith_rp pw salt n r p dk :
    1 < n -> N.land n (n - 1) = 0 -> usize_max < r * p ->
    ScryptImpl.scrypt pbkdf2 pw salt n r p dk = Panic PArith.
  Proof.
    intros H1 H2 Hov. unfold ScryptImpl.scrypt. pass_assert H1. rewrite usub_ok by lia. cbn [obind].
    pass_assert H2. unfold umul. destruct (N.leb_spec (r * p) usize_max); [lia|reflexivity].
  Qed.

  Lemma scrypt_arith_p0 pw salt n r dk :
    1 < n -> N.land n (n - 1) = 0 ->
    ScryptImpl.scrypt pbkdf2 pw salt n r 0 dk = Panic PArith.
  Proof.
    intros H1 H2. pose proof usize_max_val as HM.
    unfold ScryptImpl.scrypt. pass_assert H1. rewrite usub_ok by lia. cbn [obind].
    pass_assert H2. rewrite umul_ok by lia. cbn [obind].
    rewrite assert_ok by (apply N.ltb_lt; lia). cbn [obind].
    rewrite HM. rewrite udiv_ok by discriminate. cbn [obind]. reflexivity.
  Qed.

  Lemma scrypt_arith_r0 pw salt n p dk :
    1 < n -> N.land n (n - 1) = 0 -> p <> 0 ->
    ScryptImpl.scrypt pbkdf2 pw salt n 0 p dk = Panic PArith.
  Proof.
    intros H1 H2 Hp. pose proof usize_max_val as HM.
    unfold ScryptImpl.scrypt. pass_assert H1. rewrite usub_ok by lia. cbn [obind].
    pass_assert H2. rewrite umul_ok by lia. cbn [obind].
    rewrite assert_ok by (apply N.ltb_lt; lia). cbn [obind].
    rewrite HM. repeat (rewrite udiv_ok by (assumption || discriminate); cbn [obind]).
    rewrite assert_ok by (apply N.leb_le; apply N.le_0_l). cbn [obind].
    rewrite assert_ok by (apply N.leb_le; apply N.le_0_l). cbn [obind].
    reflexivity.
  Qed.

  (* scrypt_asserts: the model returns Panic PAssert exactly when one of the six asserts is
     reached and fails. *)
  Theorem scrypt_asserts pw salt n r p dk :
    ScryptImpl.scrypt pbkdf2 pw salt n r p dk = Panic PAssert <->
    n <= 1 \/ N.land n (n - 1) <> 0 \/
    (r * p <= usize_max /\
      (1073741824 <= r * p \/
       (p <> 0 /\ (18446744073709551615 / 128 / p < r \/ 18446744073709551615 / 256 < r \/
                   (r <> 0 /\ 18446744073709551615 / 128 / r < n))))).
  Proof.
    destruct (N.le_gt_cases n 1) as [Hn|Hn].
    { split; [now left|intros _; now apply scrypt_asserts_n_le_1]. }
    destruct (N.eq_dec (N.land n (n - 1)) 0) as [Hl|Hl].
    2: { split; [intros _; right; now left|intros _; now apply scrypt_asserts_not_pow2]. }
    destruct (N.le_gt_cases (r * p) usize_max) as [Hov|Hov].
    2: { rewrite scrypt_arith_rp by assumption. split; [discriminate|]. intros [?|[?|[? _]]]; lia. }
    destruct (N.le_gt_cases 1073741824 (r * p)) as [H3|H3].
    { split; [intros _; right; right; split; [assumption|now left]|intros _; now apply scrypt_asserts_rp]. }
    destruct (N.eq_dec p 0) as [->|Hp].
    { rewrite scrypt_arith_p0 by assumption. split; [discriminate|].
      intros [?|[?|[_ [?|[? _]]]]]; lia. }
    destruct (N.le_gt_cases r (18446744073709551615 / 128 / p)) as [H4|H4].
    2: { split; [intros _; right; right; split; [assumption|right; split; [assumption|now left]]
                |intros _; now apply scrypt_asserts_r_p]. }
    destruct (N.le_gt_cases r (18446744073709551615 / 256)) as [H5|H5].
    2: { split; [intros _; right; right; split; [assumption|right; split; [assumption|right; now left]]
                |intros _; now apply scrypt_asserts_r]. }
    destruct (N.eq_dec r 0) as [->|Hr].
    { rewrite scrypt_arith_r0 by assumption. split; [discriminate|].
      intros [?|[?|[_ [?|[_ [?|[?|[? _]]]]]]]]; lia. }
    destruct (N.le_gt_cases n (18446744073709551615 / 128 / r)) as [H6|H6].
    2: { split; [intros _; right; right; split; [assumption|right; split; [assumption|right; right; now split]]
                |intros _; now apply scrypt_asserts_n_r]. }
    (* all six asserts pass: the result is Ok, Panic PArith or Panic PUnwrap *)
    destruct (pow2_of_land n Hn Hl) as (k & Hk & ->).
    rewrite <- (N2Nat.id r), <- (N2Nat.id p) in *.
    rewrite scrypt_total by (assumption || lia).
    split.
    - destruct (_ <=? isize_max); [|discriminate]. destruct (dk <=? isize_max); [|discriminate].
      unfold derive_key. destruct (dk =? 0); [discriminate|]. destruct (pbkdf2_max_len <? dk); discriminate.
    - intros [?|[?|[_ [?|[_ [?|[?|[_ ?]]]]]]]]; lia.
  Qed.
End WithPBKDF2.

(* ---------- the component theorems, restated ---------- *)
Definition salsa_xor_spec := SalsaRefine.salsa_xor_spec.
Definition block_mix_spec := BlockMixRefine.block_mix_spec.
Definition integer_spec := SmixRefine.integer_spec.
Definition smix_spec := SmixRefine.smix_spec.

(* closed under the global context: no axioms *)
Print Assumptions scrypt_impl_refines_rfc.
Print Assumptions scrypt_asserts.
Print Assumptions scrypt_total.
Print Assumptions salsa_xor_spec.
Print Assumptions block_mix_spec.
Print Assumptions integer_spec.
Print Assumptions smix_spec.
