(* Proofs/SmixRefine.v — the Rust integer and smix are RFC 7914 Integerify and scryptROMix. *)
From Kestrel Require Import Bytes BytesFacts Outcome.
From Kestrel.Spec Require Import Salsa Scrypt.
From Kestrel.Model Require Import ScryptImpl.
From Kestrel.Proofs Require Import ImplFacts SalsaRefine WordFacts BlockMixRefine.
From Coq Require Import ZifyBool ZifyNat ZifyN.
Local Open Scope N_scope.
Ltac Zify.zify_post_hook ::= Z.div_mod_to_equations.

Lemma Forall_firstn_ {A} (P : A -> Prop) n l : Forall P l -> Forall P (firstn n l).
Proof. intros H. rewrite <- (firstn_skipn n l) in H. apply Forall_app in H. tauto. Qed.
Lemma Forall_skipn_ {A} (P : A -> Prop) n l : Forall P l -> Forall P (skipn n l).
Proof. intros H. rewrite <- (firstn_skipn n l) in H. apply Forall_app in H. tauto. Qed.

(* ---------- integer ---------- *)
(* the value the Rust [integer] returns *)
Definition integer_w (r : nat) (X : list N) : N :=
  let j := (16 * (2 * r - 1))%nat in
  N.lor (nth j X 0) (N.shiftl (nth (j + 1) X 0) 32).

Lemma skipn_nth2 {A} (d : A) : forall j l, (j + 2 <= length l)%nat ->
  exists rest, skipn j l = nth j l d :: nth (j + 1) l d :: rest.
Proof.
  induction j as [|j IH]; intros l H.
  - destruct l as [|a [|b l]]; cbn in H; try lia. now exists l.
  - destruct l as [|a l]; cbn in H; [lia|]. cbn [skipn nth plus]. apply IH. lia.
Qed.

Lemma integer_ok r x : (1 <= r)%nat -> 32 * N.of_nat r <= usize_max -> words_ok x -> length x = (32 * r)%nat ->
  integer x (N.of_nat r) = Ok (integer_w r x).
Proof.
  intros Hr Hmax Hok Hl. unfold integer. arith_steps.
  rewrite (idx_ok x _ 0) by lia. cbn [obind]. arith_steps.
  rewrite (idx_ok x _ 0) by lia. cbn [obind].
  unfold integer_w.
  replace (N.to_nat ((2 * N.of_nat r - 1) * 16)) with (16 * (2 * r - 1))%nat by lia.
  replace (N.to_nat ((2 * N.of_nat r - 1) * 16 + 1)) with (16 * (2 * r - 1) + 1)%nat by lia.
  rewrite land_u64_shiftl; [reflexivity|].
  unfold words_ok in Hok. rewrite Forall_forall in Hok. apply Hok. apply nth_In. lia.
Qed.

Lemma integerify_words r x k : (1 <= r)%nat -> words_ok x -> length x = (32 * r)%nat -> k <= 64 ->
  integerify r (w2b x) mod 2^k = N.land (integer_w r x) (2^k - 1).
Proof.
  intros Hr Hok Hl Hk. unfold integerify. rewrite block64_w2b. unfold blk, integer_w.
  destruct (skipn_nth2 0 (16 * (2 * r - 1)) x) as (rest & E); [lia|]. rewrite E.
  set (a := nth (16 * (2 * r - 1)) x 0). set (b := nth (16 * (2 * r - 1) + 1) x 0).
  assert (Ha : a < 4294967296).
  { unfold words_ok in Hok. rewrite Forall_forall in Hok. apply Hok. apply nth_In. lia. }
  assert (Hb : b < 4294967296).
  { unfold words_ok in Hok. rewrite Forall_forall in Hok. apply Hok. apply nth_In. lia. }
  change (firstn 16 (a :: b :: rest)) with (a :: b :: firstn 14 rest). rewrite !le_num_w2b_cons by assumption.
  rewrite lor_shiftl_add by assumption. rewrite land_pow2_pred.
  replace (a + 4294967296 * (b + 4294967296 * le_num (w2b (firstn 14 rest))))
    with (a + 4294967296 * b + (le_num (w2b (firstn 14 rest)) * 2^(64 - k)) * 2^k).
  - apply N.mod_add. apply N.pow_nonzero. discriminate.
  - rewrite <- N.mul_assoc, <- N.pow_add_r. replace (64 - k + k) with 64 by lia.
    change (2^64) with 18446744073709551616. lia.
Qed.

(* integer_spec: the Rust [integer(x, r) & (N - 1)] is RFC 7914 [Integerify(X) mod N]
   for N = 2^k; neither index is out of range. *)
Theorem integer_spec r x k :
  (1 <= r)%nat -> 32 * N.of_nat r <= usize_max -> words_ok x -> length x = (32 * r)%nat -> k <= 64 ->
  exists v, integer x (N.of_nat r) = Ok v /\
            N.land v (2^k - 1) = integerify r (w2b x) mod 2^k.
Proof.
  intros Hr Hmax Hok Hl Hk. exists (integer_w r x). split; [now apply integer_ok|].
  symmetry. now apply integerify_words.
Qed.

Lemma land_le_r a b : N.land a b <= b.
Proof.
  rewrite N.land_comm. pose proof (N.lor_ldiff_and b a) as E.
  assert (H : N.land (N.ldiff b a) (N.land b a) = 0).
  { apply N.bits_inj; intro n. rewrite !N.land_spec, N.ldiff_spec, N.bits_0.
    destruct (N.testbit a n), (N.testbit b n); reflexivity. }
  rewrite <- N.lxor_lor, <- N.add_nocarry_lxor in E by exact H. lia.
Qed.

(* ---------- scryptROMix on words ---------- *)
Definition romix_X (r : nat) (B : list N) (n : nat) : list N := xs_iter (fun X _ => blockmix_w r X) B n.
Definition mix_f (r : nat) (NN : N) (V : list (list N)) (X : list N) (_ : nat) : list N :=
  let j := N.land (integer_w r X) (NN - 1) in
  blockmix_w r (xor_bytes X (nth (N.to_nat j) V [])).
Definition romix_V (r : nat) (B : list N) (NN : nat) : list (list N) := map (romix_X r B) (seq 0 NN).
Definition romix_Z (r : nat) (B : list N) (NN : nat) (n : nat) : list N :=
  xs_iter (mix_f r (N.of_nat NN) (romix_V r B NN)) (romix_X r B NN) n.
Definition romix_w (r : nat) (B : list N) (NN : nat) : list N := romix_Z r B NN NN.

Lemma romix_X_facts r B n : (1 <= r)%nat -> words_ok B -> length B = (32 * r)%nat ->
  words_ok (romix_X r B n) /\ length (romix_X r B n) = (32 * r)%nat.
Proof.
  intros Hr Hok Hl. unfold romix_X. induction n as [|n [IH1 IH2]]; cbn [xs_iter]; [now split|].
  split; [apply blockmix_w_ok|now apply blockmix_w_length].
Qed.

Lemma romix_V_nth r B NN j : (j < NN)%nat -> nth j (romix_V r B NN) [] = romix_X r B j.
Proof. intros H. unfold romix_V. now apply nth_map_seq. Qed.

Lemma romix_Z_facts r B NN n : (1 <= r)%nat -> (1 <= NN)%nat -> words_ok B -> length B = (32 * r)%nat ->
  words_ok (romix_Z r B NN n) /\ length (romix_Z r B NN n) = (32 * r)%nat.
Proof.
  intros Hr HN Hok Hl. unfold romix_Z. induction n as [|n [IH1 IH2]]; cbn [xs_iter]; [now apply romix_X_facts|].
  unfold mix_f at 1 3. split; [apply blockmix_w_ok|]. apply blockmix_w_length; [assumption|].
  set (j := N.to_nat _). assert (Hj : (j < NN)%nat).
  { unfold j. assert (N.of_nat NN <> 0) by lia.
    pose proof (land_le_r (integer_w r (xs_iter (mix_f r (N.of_nat NN) (romix_V r B NN)) (romix_X r B NN) n)) (N.of_nat NN - 1)).
    lia. }
  rewrite xor_bytes_length, IH2, romix_V_nth by exact Hj.
  destruct (romix_X_facts r B j Hr Hok Hl) as [_ ->]. lia.
Qed.

(* ---------- RFC scryptROMix on octets = romix_w on words ---------- *)
Lemma fold_iter {A} (f : A -> nat -> A) x n : fold_left f (seq 0 n) x = xs_iter f x n.
Proof. induction n as [|n IH]; [reflexivity|]. now rewrite seq_S, fold_left_app, IH. Qed.

Lemma romix_fill_fold r B0 n :
  fold_left (romix_fill_step r) (seq 0 n) (B0, [])
  = (xs_iter (fun X _ => scryptBlockMix r X) B0 n,
     map (fun i => xs_iter (fun X _ => scryptBlockMix r X) B0 i) (seq 0 n)).
Proof.
  induction n as [|n IH]; [reflexivity|].
  rewrite seq_S, fold_left_app, IH, map_app. reflexivity.
Qed.

Lemma romix_X_hom r B n : (1 <= r)%nat -> words_ok B -> length B = (32 * r)%nat ->
  xs_iter (fun X _ => scryptBlockMix r X) (w2b B) n = w2b (romix_X r B n).
Proof.
  intros Hr Hok Hl. induction n as [|n IH]; [reflexivity|].
  cbn [xs_iter]. rewrite IH. unfold romix_X at 2. cbn [xs_iter]. fold (romix_X r B n).
  apply blockmix_bytes_words. now apply romix_X_facts.
Qed.

Lemma romix_mix_hom r B NN k n : (1 <= r)%nat -> k <= 64 -> N.of_nat NN = 2^k ->
  words_ok B -> length B = (32 * r)%nat ->
  xs_iter (romix_mix_step r (N.of_nat NN) (map w2b (romix_V r B NN))) (w2b (romix_X r B NN)) n
  = w2b (romix_Z r B NN n).
Proof.
  intros Hr Hk HNN Hok Hl.
  assert (HNN1 : (1 <= NN)%nat) by (pose proof (N.pow_nonzero 2 k); lia).
  induction n as [|n IH]; [reflexivity|]. cbn [xs_iter]. rewrite IH.
  unfold romix_Z at 2. cbn [xs_iter]. fold (romix_Z r B NN n).
  destruct (romix_Z_facts r B NN n Hr HNN1 Hok Hl) as [Zok Zl].
  unfold romix_mix_step, mix_f. rewrite HNN.
  rewrite integerify_words by assumption.
  set (j := N.to_nat _).
  assert (Hj : (j < NN)%nat).
  { unfold j. rewrite land_pow2_pred. pose proof (N.mod_lt (integer_w r (romix_Z r B NN n)) (2^k)).
    pose proof (N.pow_nonzero 2 k). lia. }
  change (@nil N) with (w2b []) at 1. rewrite map_nth, w2b_xor.
  apply blockmix_bytes_words. apply words_ok_xor; [assumption|].
  rewrite romix_V_nth by exact Hj. now apply romix_X_facts.
Qed.

Lemma romix_bytes_words r B k : (1 <= r)%nat -> k <= 64 -> words_ok B -> length B = (32 * r)%nat ->
  scryptROMix r (w2b B) (N.to_nat (2^k)) = w2b (romix_w r B (N.to_nat (2^k))).
Proof.
  intros Hr Hk Hok Hl. set (NN := N.to_nat (2^k)).
  assert (HNN : N.of_nat NN = 2^k) by (unfold NN; lia).
  unfold scryptROMix. rewrite romix_fill_fold. rewrite fold_iter.
  rewrite (map_ext _ (fun i => w2b (romix_X r B i))) by (intros; now apply romix_X_hom).
  rewrite <- (map_map (romix_X r B) w2b). fold (romix_V r B NN).
  rewrite romix_X_hom by assumption.
  now apply (romix_mix_hom r B NN k NN).
Qed.

(* ---------- the Rust block_xor ---------- *)
Lemma lupd_app {A} (pre : list A) d dst v : lupd (pre ++ d :: dst) (length pre) v = pre ++ v :: dst.
Proof. induction pre as [|p pre IH]; cbn; [reflexivity|]. now rewrite IH. Qed.

Lemma block_xor_loop : forall s pre dst, (length s <= length dst)%nat ->
  for_each s (fun elem '(dst, i) =>
      let* d := idx dst i in
      let* dst := set_idx dst i (N.lxor d elem) in
      Ok (dst, i + 1)) (pre ++ dst, N.of_nat (length pre))
  = Ok (pre ++ xor_bytes (firstn (length s) dst) s ++ skipn (length s) dst,
        N.of_nat (length pre + length s)).
Proof.
  induction s as [|e s IH]; intros pre dst H.
  - cbn [for_each length firstn skipn xor_bytes app]. now rewrite Nat.add_0_r.
  - destruct dst as [|d dst]; [cbn in H; lia|]. cbn [for_each].
    rewrite (idx_ok _ _ 0) by (rewrite app_length; cbn [length]; lia). cbn [obind].
    rewrite set_idx_ok by (rewrite app_length; cbn [length]; lia). cbn [obind].
    rewrite Nat2N.id, app_nth2, Nat.sub_diag by lia. cbn [nth].
    rewrite lupd_app.
    replace (pre ++ N.lxor d e :: dst) with ((pre ++ [N.lxor d e]) ++ dst) by (now rewrite <- app_assoc).
    replace (N.of_nat (length pre) + 1) with (N.of_nat (length (pre ++ [N.lxor d e])))
      by (rewrite app_length; cbn [length]; lia).
    rewrite IH by (cbn [length] in H; lia).
    rewrite <- app_assoc. cbn [length firstn skipn xor_bytes app]. f_equal. f_equal.
    rewrite app_length. cbn [length]. lia.
Qed.

Lemma block_xor_ok dst src n : N.to_nat n = length dst -> (N.to_nat n <= length src)%nat ->
  block_xor dst src n = Ok (xor_bytes dst (firstn (N.to_nat n) src)).
Proof.
  intros Hd Hs. unfold block_xor. rewrite slice_to_ok by assumption. cbn [obind].
  pose proof (block_xor_loop (firstn (N.to_nat n) src) [] dst) as L. cbn [app length N.of_nat] in L.
  rewrite L by (rewrite firstn_length; lia). cbn [obind]. f_equal.
  rewrite firstn_length, Nat.min_l by lia. rewrite Hd, firstn_all, skipn_all. now rewrite app_nil_r.
Qed.

(* ---------- smix: loading x from b ---------- *)
Lemma nth_b2w : forall i l, (4 * i + 4 <= length l)%nat ->
  nth i (b2w l) 0 = dle32 (firstn 4 (skipn (4 * i) l)).
Proof.
  induction i as [|i IH]; intros l H.
  - destruct l as [|a [|b [|c [|d l]]]]; cbn in H; try lia. reflexivity.
  - destruct l as [|a [|b [|c [|d l]]]]; cbn in H; try lia.
    replace (4 * S i)%nat with (S (S (S (S (4 * i))))) by lia. cbn [bytes_to_words nth skipn].
    apply IH. lia.
Qed.

Lemma from_le_bytes4_ok s : length s = 4%nat -> from_le_bytes4 s = Ok (dle32 s).
Proof. intros H. destruct s as [|a [|b [|c [|d [|e s]]]]]; cbn in H; try lia. reflexivity. Qed.

Definition load_inv (R : nat) (B0 : list N) (i : nat) (st : list N * N) : Prop :=
  let '(x, j) := st in
  j = 4 * N.of_nat i /\ length x = R /\ forall m, (m < i)%nat -> nth m x 0 = nth m B0 0.

Lemma smix_load_ok (b : bytes) (R : nat) x :
  4 * N.of_nat R <= usize_max -> (4 * R <= length b)%nat -> bytes_ok b -> length x = R ->
  exists j, for_range (N.of_nat R) (smix_load_body b) (x, 0) = Ok (b2w (firstn (4 * R) b), j).
Proof.
  intros Hmax Hb Hok Hx. set (B0 := b2w (firstn (4 * R) b)).
  destruct (b2w_facts R (firstn (4 * R) b)) as (_ & _ & HB0l);
    [rewrite firstn_length; lia|now apply Forall_firstn_|]. fold B0 in HB0l.
  destruct (for_range_inv (load_inv R B0) (smix_load_body b) (N.of_nat R) (x, 0))
    as ([x' j'] & E & Hj & Hl & Hn).
  - unfold load_inv. split; [reflexivity|]. split; [assumption|]. intros m Hm. lia.
  - intros i [xi j] Hi (Hj & Hl & Hn). unfold smix_load_body. subst j.
    arith_steps. rewrite slice_ok by lia. cbn [obind].
    rewrite from_le_bytes4_ok by (rewrite firstn_length, skipn_length; lia). cbn [obind].
    rewrite set_idx_ok by lia. cbn [obind]. arith_steps.
    eexists. split; [reflexivity|]. unfold load_inv. split; [lia|]. split; [now rewrite lupd_length|].
    intros m Hm. rewrite Nat2N.id. destruct (Nat.eq_dec m i) as [->|Hne].
    + rewrite nth_lupd_eq by lia. unfold B0. rewrite nth_b2w by (rewrite firstn_length; lia).
      rewrite skipn_firstn_comm, firstn_firstn. f_equal.
      replace (N.to_nat (4 * N.of_nat i + 4 - 4 * N.of_nat i)) with 4%nat by lia.
      replace (N.to_nat (4 * N.of_nat i)) with (4 * i)%nat by lia.
      f_equal. lia.
    + rewrite nth_lupd_neq by lia. apply Hn. lia.
  - exists j'. rewrite E. f_equal. f_equal. rewrite Nat2N.id in *.
    apply (nth_ext _ _ 0 0); [lia|]. intros m Hm. apply Hn. lia.
Qed.

(* ---------- smix: storing x into b ---------- *)
Lemma firstn_S_nth {A} (d : A) : forall i l, (i < length l)%nat -> firstn (S i) l = firstn i l ++ [nth i l d].
Proof.
  induction i as [|i IH]; intros l H; destruct l as [|a l]; cbn in H; try lia; [reflexivity|].
  cbn [firstn nth app]. f_equal. apply IH. lia.
Qed.

Definition store_inv (b : bytes) (xs : list N) (i : nat) (st : bytes * N) : Prop :=
  let '(b', j) := st in j = 4 * N.of_nat i /\ b' = w2b (firstn i xs) ++ skipn (4 * i) b.

Lemma smix_store_ok (b : bytes) (xs : list N) :
  4 * N.of_nat (length xs) <= usize_max -> (4 * length xs <= length b)%nat ->
  exists j, for_each xs smix_store_body (b, 0) = Ok (w2b xs ++ skipn (4 * length xs) b, j).
Proof.
  intros Hmax Hb.
  destruct (for_each_inv (store_inv b xs) smix_store_body 0 xs (b, 0) O) as ([b' j'] & E & Hj & Hb').
  - unfold store_inv. now split.
  - intros i [bi j] Hi (Hj & Hbi). unfold smix_store_body. subst j.
    assert (Hbil : length bi = length b).
    { subst bi. rewrite app_length, w2b_length, firstn_length, skipn_length. lia. }
    arith_steps. rewrite slice_ok by lia. cbn [obind].
    rewrite copy_from_slice_ok by (rewrite firstn_length, skipn_length, le32_length; lia). cbn [obind].
    arith_steps. eexists. split; [reflexivity|]. unfold store_inv. split; [lia|].
    rewrite Nat.sub_0_r. rewrite (firstn_S_nth 0) by lia. rewrite w2b_app. cbn [words_to_bytes flat_map].
    rewrite app_nil_r, <- app_assoc.
    replace (N.to_nat (4 * N.of_nat i)) with (4 * i)%nat by lia.
    replace (N.to_nat (4 * N.of_nat i + 4)) with (4 * i + 4)%nat by lia.
    subst bi. f_equal; [|f_equal].
    + rewrite firstn_app, firstn_all2 by (rewrite w2b_length, firstn_length; lia).
      rewrite w2b_length, firstn_length. replace (4 * i - 4 * Nat.min i (length xs))%nat with O by lia.
      cbn [firstn]. now rewrite app_nil_r.
    + rewrite skipn_app, skipn_all2 by (rewrite w2b_length, firstn_length; lia).
      rewrite w2b_length, firstn_length. cbn [app]. rewrite skipn_add. f_equal. lia.
  - exists j'. rewrite E. f_equal. f_equal. cbn [plus] in Hb'. rewrite Hb', firstn_all. reflexivity.
Qed.

(* ---------- smix: the fill loop ---------- *)
Definition fill_inv (r : nat) (B0 : list N) (m : nat) (k : nat)
  (st : list N * list N * list N * list N) : Prop :=
  let '(tmp, v, x, y) := st in
  length tmp = 16%nat /\ length v = (32 * r * (2 * m))%nat /\ x = romix_X r B0 (2 * k) /\
  length y = (32 * r)%nat /\
  forall j, (j < 2 * k)%nat -> blk (32 * r) j v = romix_X r B0 j.

Lemma smix_fill_body_ok r B0 m k st :
  (1 <= r)%nat -> 32 * N.of_nat r * (2 * N.of_nat m) <= usize_max ->
  words_ok B0 -> length B0 = (32 * r)%nat -> (k < m)%nat ->
  fill_inv r B0 m k st ->
  exists st', smix_fill_body (N.of_nat r) (32 * N.of_nat r) (2 * N.of_nat k) st = Ok st' /\
              fill_inv r B0 m (S k) st'.
Proof.
  intros Hr Hmax Hok HB0 Hk. destruct st as [[[tmp v] x] y]. intros (Ht & Hv & Hx & Hy & Hblk).
  assert (Hkr : (k * r + r <= m * r)%nat) by nia.
  assert (Hmr : (m <= m * r)%nat) by nia.
  destruct (romix_X_facts r B0 (2 * k) Hr Hok HB0) as [X0ok X0l]. rewrite <- Hx in X0ok, X0l.
  unfold smix_fill_body.
  arith_steps. rewrite (block_copy_ok (skipn _ v) x) by (rewrite ?skipn_length; lia). cbn [obind].
  rewrite (block_mix_ok r tmp x y) by (assumption || lia). cbn [obind].
  unfold put_from.
  replace (N.to_nat (2 * N.of_nat k * (32 * N.of_nat r))) with (32 * r * (2 * k))%nat by lia.
  replace (N.to_nat (32 * N.of_nat r)) with (32 * r)%nat by lia.
  rewrite (firstn_all2 x) by lia.
  set (v1 := firstn (32 * r * (2 * k)) v ++ x ++ skipn (32 * r) (skipn (32 * r * (2 * k)) v)).
  assert (Hv1 : length v1 = (32 * r * (2 * m))%nat) by (unfold v1; rewrite blk_write_length; lia).
  set (y1 := blockmix_w r x).
  assert (Hy1l : length y1 = (32 * r)%nat) by (apply blockmix_w_length; lia).
  assert (Hy1ok : words_ok y1) by apply blockmix_w_ok.
  arith_steps. rewrite (block_copy_ok (skipn _ v1) y1) by (rewrite ?skipn_length; lia). cbn [obind].
  rewrite (block_mix_ok r _ y1 x) by (assumption || lia || (apply bm_X_length; lia)). cbn [obind].
  replace (N.to_nat ((2 * N.of_nat k + 1) * (32 * N.of_nat r))) with (32 * r * (2 * k + 1))%nat by lia.
  replace (N.to_nat (32 * N.of_nat r)) with (32 * r)%nat by lia.
  rewrite (firstn_all2 y1) by lia.
  eexists. split; [reflexivity|]. unfold fill_inv.
  split; [apply bm_X_length; lia|]. split; [rewrite blk_write_length; lia|].
  assert (Hy1 : y1 = romix_X r B0 (2 * k + 1)).
  { unfold y1. rewrite Hx. unfold romix_X. replace (2 * k + 1)%nat with (S (2 * k)) by lia. reflexivity. }
  split; [|split; [exact Hy1l|]].
  - rewrite Hy1. unfold romix_X. replace (2 * S k)%nat with (S (2 * k + 1)) by lia. reflexivity.
  - intros j Hj.
    rewrite (blk_write (32 * r) (2 * k + 1)) by (try reflexivity; lia).
    unfold v1. rewrite (blk_write (32 * r) (2 * k)) by (try reflexivity; lia).
    destruct (Nat.eqb_spec j (2 * k + 1)) as [->|H1]; [assumption|].
    destruct (Nat.eqb_spec j (2 * k)) as [->|H2]; [assumption|].
    apply Hblk. lia.
Qed.

(* ---------- smix: the mix loop ---------- *)
Definition mix_inv (r : nat) (B0 : list N) (NN : nat) (k : nat) (st : list N * list N * list N) : Prop :=
  let '(tmp, x, y) := st in
  length tmp = 16%nat /\ x = romix_Z r B0 NN (2 * k) /\ length y = (32 * r)%nat.

Lemma smix_mix_step_ok r B0 NN v tmp x y n :
  (1 <= r)%nat -> (1 <= NN)%nat -> 32 * N.of_nat r * N.of_nat NN <= usize_max ->
  words_ok B0 -> length B0 = (32 * r)%nat ->
  length v = (32 * r * NN)%nat -> (forall j, (j < NN)%nat -> blk (32 * r) j v = romix_X r B0 j) ->
  length tmp = 16%nat -> x = romix_Z r B0 NN n -> length y = (32 * r)%nat ->
  exists tmp' x1, length tmp' = 16%nat /\ length x1 = (32 * r)%nat /\
   forall T (K : list N -> list N * list N -> res T),
    (let* jj := integer x (N.of_nat r) in
     let* n1 := usub (N.of_nat NN) 1 in
     let j := N.land jj n1 in
     let* o := umul j (32 * N.of_nat r) in
     let* vs := slice_from v o in
     let* x := block_xor x vs (32 * N.of_nat r) in
     let* p := block_mix tmp x y (N.of_nat r) in K x p) = K x1 (tmp', romix_Z r B0 NN (S n)).
Proof.
  intros Hr HNN Hmax Hok HB0 Hv Hblk Ht Hx Hy.
  assert (HrN : N.of_nat r <= N.of_nat r * N.of_nat NN) by nia.
  destruct (romix_Z_facts r B0 NN n Hr HNN Hok HB0) as [Zok Zl]. rewrite <- Hx in Zok, Zl.
  set (jN := N.land (integer_w r x) (N.of_nat NN - 1)).
  assert (HjN : jN <= N.of_nat NN - 1) by apply land_le_r.
  assert (Hjr : jN * N.of_nat r + N.of_nat r <= N.of_nat NN * N.of_nat r) by nia.
  assert (Hjr' : (N.to_nat jN * r + r <= NN * r)%nat) by nia.
  destruct (romix_X_facts r B0 (N.to_nat jN) Hr Hok HB0) as [Vok Vl].
  exists (bm_X r (xor_bytes x (romix_X r B0 (N.to_nat jN))) (2 * r)), (xor_bytes x (romix_X r B0 (N.to_nat jN))).
  split; [apply bm_X_length; try lia; rewrite xor_bytes_length; lia|].
  split; [rewrite xor_bytes_length; lia|].
  intros T K.
  rewrite integer_ok by (assumption || lia). cbn [obind]. arith_steps. fold jN. arith_steps.
  rewrite block_xor_ok by (rewrite ?skipn_length; lia). cbn [obind].
  replace (N.to_nat (jN * (32 * N.of_nat r))) with (32 * r * N.to_nat jN)%nat by lia.
  replace (N.to_nat (32 * N.of_nat r)) with (32 * r)%nat by lia.
  fold (blk (32 * r) (N.to_nat jN) v). rewrite Hblk by lia.
  rewrite block_mix_ok; try assumption; try lia; [|rewrite xor_bytes_length; lia].
  cbn [obind]. f_equal. f_equal. unfold romix_Z. cbn [xs_iter]. fold (romix_Z r B0 NN n). rewrite <- Hx.
  unfold mix_f. fold jN. rewrite romix_V_nth by lia. reflexivity.
Qed.

(* one half of the mix loop body (the Rust source repeats it with x and y swapped) *)
Definition mix_half (r R n : N) (v tmp x y : list N) : res (list N * (list N * list N)) :=
  let* jj := integer x r in
  let* n1 := usub n 1 in
  let j := N.land jj n1 in
  let* o := umul j R in
  let* vs := slice_from v o in
  let* x := block_xor x vs R in
  let* p := block_mix tmp x y r in Ok (x, p).

Lemma smix_mix_body_eq r R n v i tmp x y :
  smix_mix_body r R n v i (tmp, x, y) =
  let* (x, (tmp, y)) := mix_half r R n v tmp x y in
  let* (y, (tmp, x)) := mix_half r R n v tmp y x in
  Ok (tmp, x, y).
Proof.
  unfold smix_mix_body, mix_half.
  destruct (integer x r) as [jj| | |]; cbn [obind]; try reflexivity.
  destruct (usub n 1) as [n1| | |]; cbn [obind]; try reflexivity.
  destruct (umul (N.land jj n1) R) as [o| | |]; cbn [obind]; try reflexivity.
  destruct (slice_from v o) as [vs| | |]; cbn [obind]; try reflexivity.
  destruct (block_xor x vs R) as [x1| | |]; cbn [obind]; try reflexivity.
  destruct (block_mix tmp x1 y r) as [[tmp1 y1]| | |]; cbn [obind]; try reflexivity.
  destruct (integer y1 r) as [jj2| | |]; cbn [obind]; try reflexivity.
  destruct (umul (N.land jj2 n1) R) as [o2| | |]; cbn [obind]; try reflexivity.
  destruct (slice_from v o2) as [vs2| | |]; cbn [obind]; try reflexivity.
  destruct (block_xor y1 vs2 R) as [y2| | |]; cbn [obind]; try reflexivity.
  destruct (block_mix tmp1 y2 x1 r) as [[tmp2 x2]| | |]; cbn [obind]; reflexivity.
Qed.

Lemma smix_mix_body_ok r B0 NN v k i st :
  (1 <= r)%nat -> (1 <= NN)%nat -> 32 * N.of_nat r * N.of_nat NN <= usize_max ->
  words_ok B0 -> length B0 = (32 * r)%nat ->
  length v = (32 * r * NN)%nat -> (forall j, (j < NN)%nat -> blk (32 * r) j v = romix_X r B0 j) ->
  mix_inv r B0 NN k st ->
  exists st', smix_mix_body (N.of_nat r) (32 * N.of_nat r) (N.of_nat NN) v i st = Ok st' /\
              mix_inv r B0 NN (S k) st'.
Proof.
  intros Hr HNN Hmax Hok HB0 Hv Hblk. destruct st as [[tmp x] y]. intros (Ht & Hx & Hy).
  rewrite smix_mix_body_eq.
  destruct (smix_mix_step_ok r B0 NN v tmp x y (2 * k) Hr HNN Hmax Hok HB0 Hv Hblk Ht Hx Hy)
    as (tmp1 & x1 & Ht1 & Hx1 & HK1).
  assert (E1 : mix_half (N.of_nat r) (32 * N.of_nat r) (N.of_nat NN) v tmp x y
               = Ok (x1, (tmp1, romix_Z r B0 NN (S (2 * k)))))
    by (apply (HK1 _ (fun x p => Ok (x, p)))).
  rewrite E1. clear HK1 E1. cbn [obind].
  destruct (romix_Z_facts r B0 NN (2 * k) Hr HNN Hok HB0) as [_ Zl]. rewrite <- Hx in Zl.
  destruct (smix_mix_step_ok r B0 NN v tmp1 (romix_Z r B0 NN (S (2 * k))) x1 (S (2 * k))
              Hr HNN Hmax Hok HB0 Hv Hblk Ht1 eq_refl Hx1) as (tmp2 & y2 & Ht2 & Hy2 & HK2).
  assert (E2 : mix_half (N.of_nat r) (32 * N.of_nat r) (N.of_nat NN) v tmp1 (romix_Z r B0 NN (S (2 * k))) x1
               = Ok (y2, (tmp2, romix_Z r B0 NN (S (S (2 * k))))))
    by (apply (HK2 _ (fun x p => Ok (x, p)))).
  rewrite E2. clear HK2 E2. cbn [obind].
  eexists. split; [reflexivity|]. unfold mix_inv. split; [assumption|]. split.
  - f_equal. lia.
  - exact Hy2.
Qed.

(* ---------- smix ---------- *)
Lemma smix_ok (b : bytes) r m v x y :
  (1 <= r)%nat -> (1 <= m)%nat ->
  32 * N.of_nat r * (2 * N.of_nat m) <= usize_max -> 128 * N.of_nat r <= usize_max ->
  bytes_ok b -> (128 * r <= length b)%nat ->
  length v = (32 * r * (2 * m))%nat -> length x = (32 * r)%nat -> length y = (32 * r)%nat ->
  exists v' x' y',
    smix b (N.of_nat r) (2 * N.of_nat m) v x y
    = Ok (w2b (romix_w r (b2w (firstn (128 * r) b)) (2 * m)) ++ skipn (128 * r) b, v', x', y') /\
    length v' = length v /\ length x' = (32 * r)%nat /\ length y' = (32 * r)%nat.
Proof.
  intros Hr Hm Hmax Hmax4 Hbok Hb Hv Hx Hy.
  set (B0 := b2w (firstn (128 * r) b)).
  destruct (b2w_facts (32 * r) (firstn (128 * r) b)) as (_ & HB0ok & HB0l);
    [rewrite firstn_length; lia|now apply Forall_firstn_|]. fold B0 in HB0ok, HB0l.
  unfold smix. arith_steps.
  (* load *)
  destruct (smix_load_ok b (32 * r) x) as (j0 & E0); try assumption; try lia.
  replace (N.of_nat (32 * r)) with (32 * N.of_nat r) in E0 by lia. rewrite E0. clear E0.
  cbn [obind]. replace (4 * (32 * r))%nat with (128 * r)%nat by lia. fold B0.
  (* fill *)
  destruct (for_step2_inv' (fill_inv r B0 m) (smix_fill_body (N.of_nat r) (32 * N.of_nat r))
              (2 * N.of_nat m) (N.of_nat m) (repeat 0 16, v, B0, y) eq_refl)
    as ([[[tmp1 v1] x1] y1] & -> & Ht1 & Hv1 & Hx1 & Hy1 & Hblk1).
  { unfold fill_inv. rewrite repeat_length. repeat split; try assumption. intros j Hj. lia. }
  { intros k st Hk Hinv. apply smix_fill_body_ok; try assumption. lia. }
  cbn [obind]. rewrite Nat2N.id in *.
  (* mix *)
  assert (I0 : mix_inv r B0 (2 * m) 0 (tmp1, x1, y1)) by (unfold mix_inv; repeat split; assumption).
  assert (IS : forall k st, (k < N.to_nat (N.of_nat m))%nat -> mix_inv r B0 (2 * m) k st ->
            exists st', smix_mix_body (N.of_nat r) (32 * N.of_nat r) (N.of_nat (2 * m)) v1 (2 * N.of_nat k) st = Ok st'
                        /\ mix_inv r B0 (2 * m) (S k) st').
  { intros k st Hk Hinv. apply smix_mix_body_ok; try assumption; lia. }
  destruct (for_step2_inv' (mix_inv r B0 (2 * m)) (smix_mix_body (N.of_nat r) (32 * N.of_nat r) (N.of_nat (2 * m)) v1)
              (2 * N.of_nat m) (N.of_nat m) (tmp1, x1, y1) eq_refl I0 IS)
    as ([[tmp2 x2] y2] & E2 & Ht2 & Hx2 & Hy2). clear I0 IS.
  replace (N.of_nat (2 * m)) with (2 * N.of_nat m) in E2 by lia. rewrite E2. clear E2.
  cbn [obind]. rewrite Nat2N.id in *.
  (* store *)
  destruct (romix_Z_facts r B0 (2 * m) (2 * m) Hr ltac:(lia) HB0ok HB0l) as [_ Zl]. rewrite <- Hx2 in Zl.
  arith_steps. replace (N.to_nat (32 * N.of_nat r)) with (32 * r)%nat by lia.
  rewrite (firstn_all2 x2) by lia.
  destruct (smix_store_ok b x2) as (j1 & ->); try lia.
  cbn [obind]. exists v1, x2, y2. split; [|repeat split; lia].
  rewrite Zl. replace (4 * (32 * r))%nat with (128 * r)%nat by lia.
  rewrite Hx2. reflexivity.
Qed.

Lemma pow2_le_64 k : 2^k <= usize_max -> k <= 64.
Proof.
  intros H. destruct (N.le_gt_cases k 64) as [|Hgt]; [assumption|exfalso].
  assert (2^65 <= 2^k) by (apply N.pow_le_mono_r; lia).
  rewrite usize_max_val in H. change (2^65) with 36893488147419103232 in *. lia.
Qed.

Lemma scryptROMix_length r Bi k : (1 <= r)%nat -> k <= 64 -> bytes_ok Bi -> length Bi = (128 * r)%nat ->
  length (scryptROMix r Bi (N.to_nat (2^k))) = (128 * r)%nat.
Proof.
  intros Hr Hk Hok Hl.
  destruct (b2w_facts (32 * r) Bi) as (E & Wok & Wl); [lia|assumption|].
  rewrite <- E, romix_bytes_words by assumption. rewrite w2b_length.
  assert (1 <= N.to_nat (2^k))%nat by (pose proof (N.pow_nonzero 2 k); lia).
  destruct (romix_Z_facts r (b2w Bi) (N.to_nat (2^k)) (N.to_nat (2^k)) Hr H Wok Wl) as [_ L].
  unfold romix_w. rewrite L. lia.
Qed.

(* smix_spec: for N = 2^k with k >= 1, the Rust smix replaces the first 128*r octets of b by
   RFC 7914 scryptROMix of them; no panic; v, x, y keep their lengths. *)
Theorem smix_spec (b : bytes) r k v x y :
  (1 <= r)%nat -> 1 <= k ->
  32 * N.of_nat r * 2^k <= usize_max -> 128 * N.of_nat r <= usize_max ->
  bytes_ok b -> (128 * r <= length b)%nat ->
  length v = (32 * r * N.to_nat (2^k))%nat -> length x = (32 * r)%nat -> length y = (32 * r)%nat ->
  exists v' x' y',
    smix b (N.of_nat r) (2^k) v x y
    = Ok (scryptROMix r (firstn (128 * r) b) (N.to_nat (2^k)) ++ skipn (128 * r) b, v', x', y') /\
    length v' = length v /\ length x' = (32 * r)%nat /\ length y' = (32 * r)%nat.
Proof.
  intros Hr Hk Hmax Hmax4 Hbok Hb Hv Hx Hy.
  assert (Hk64 : k <= 64).
  { apply pow2_le_64. assert (2^k <= N.of_nat r * 2^k) by nia. lia. }
  set (m := N.to_nat (2^(k - 1))).
  assert (Hpow : 2^k = 2 * N.of_nat m).
  { unfold m. rewrite N2Nat.id. replace k with (N.succ (k - 1)) at 1 by lia. apply N.pow_succ_r'. }
  assert (Hm : (1 <= m)%nat) by (unfold m; pose proof (N.pow_nonzero 2 (k - 1)); lia).
  assert (HNN : N.to_nat (2^k) = (2 * m)%nat) by lia.
  destruct (smix_ok b r m v x y) as (v' & x' & y' & E & L); try assumption; try lia.
  exists v', x', y'. split; [|exact L].
  rewrite Hpow at 1. rewrite E. f_equal. f_equal. f_equal. f_equal. f_equal.
  destruct (b2w_facts (32 * r) (firstn (128 * r) b)) as (Eb & Wok & Wl);
    [rewrite firstn_length; lia|now apply Forall_firstn_|].
  rewrite <- Eb at 2. rewrite <- HNN. symmetry. now apply romix_bytes_words.
Qed.
