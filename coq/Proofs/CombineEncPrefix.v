(* Proofs/CombineEncPrefix.v — the ENCRYPT side under arbitrary scripts: what has been written when the run
   stops (for whatever reason: read, write or flush failure at any call, or normal termination) is a prefix
   of the documented chunk stream for the read results obtained so far followed by ANY continuation; hence a
   prefix of what every fault-free run that obtains the same read results writes. *)
From Kestrel Require Import Bytes BytesFacts Outcome IO IOFacts Prims.
From Kestrel.gen Require Import Extracted.
From Kestrel.Model Require Import AeadWrap Chunks Noise NoiseSpec Files EventPreds FilesSpec ChunksSpec ChunksRobustDefs CombineDefs EncFaultDefs.
From Kestrel.Proofs Require Import MonadFacts ChunksDec ChunksEnc ChunksRobust NoiseFacts FilesFacts CombineFiles.
From Coq Require Import ZifyBool ZifyNat ZifyN.
Local Open Scope N_scope.

Lemma firstn_prefix {A} k (l : list A) : exists rest, l = firstn k l ++ rest.
Proof. exists (skipn k l). symmetry. apply firstn_skipn. Qed.

Section EncPrefix.
Variable P : prims.
Variable key aad : bytes.
Variable cs : N.
Hypothesis Hkey : length key = 32%nat.

Notation enc_loop := (encrypt_chunks_loop P).
Notation record := (record P key aad).
Notation spec_from := (spec_chunks_from P key aad).
Notation csn := (N.to_nat cs).

(* one output step under ANY writer script: what reached the sink is a prefix of the record, all of it if Ok *)
Lemma emit_rec_out n b prev s r s' : emit_rec P key aad n b prev s = (r, s') ->
  exists W rest, w_out (wtr s') = w_out (wtr s) ++ W /\ record n b prev = W ++ rest /\ (r = Ok tt -> rest = []).
Proof.
  unfold emit_rec. intros E. unfold bind at 1 in E. rewrite (m_seal_eq P key Hkey) in E.
  set (hdr := be64 n ++ be32 (if b then 1 else 0) ++ be32 (N.of_nat (length prev))) in *.
  set (ct := p_seal P key (noise_nonce n) (aad ++ be32 (if b then 1 else 0) ++ be32 (N.of_nat (length prev))) prev) in *.
  assert (Hrec : record n b prev = hdr ++ ct).
  { unfold Chunks.record, hdr, ct. destruct b; cbn [flag]; rewrite <- !app_assoc; reflexivity. }
  set (s1 := with_log s _) in E.
  assert (Ho1 : w_out (wtr s1) = w_out (wtr s)) by reflexivity.
  unfold bind at 1 in E. destruct (m_write_all EIOWrite hdr s1) as [r2 s2] eqn:E2.
  pose proof (m_write_all_cases _ _ _ _ _ E2) as (_ & d2 & _ & _ & H2).
  destruct r2 as [u|e|w|]; try contradiction.
  2:{ injection E as <- <-. destruct H2 as (_ & (k & _ & Hk) & _).
      exists (firstn k hdr), (skipn k hdr ++ ct). rewrite Hk, Ho1. split; [reflexivity|].
      split; [rewrite Hrec, app_assoc, firstn_skipn; reflexivity|discriminate]. }
  destruct H2 as (Ho2 & _).
  unfold bind at 1 in E. destruct (m_write_all EIOWrite ct s2) as [r3 s3] eqn:E3.
  pose proof (m_write_all_cases _ _ _ _ _ E3) as (_ & d3 & _ & _ & H3).
  destruct r3 as [u3|e|w|]; try contradiction.
  2:{ injection E as <- <-. destruct H3 as (_ & (k & _ & Hk) & _).
      exists (hdr ++ firstn k ct), (skipn k ct). rewrite Hk, Ho2, Ho1. split; [now rewrite app_assoc|].
      split; [rewrite Hrec, <- app_assoc, firstn_skipn; reflexivity|discriminate]. }
  destruct H3 as (Ho3 & _).
  pose proof (m_flush_cases _ _ _ _ E) as (_ & Ho4 & _).
  exists (hdr ++ ct), []. rewrite Ho4, Ho3, Ho2, Ho1. split; [now rewrite app_assoc|].
  split; [rewrite Hrec, app_nil_r; reflexivity|reflexivity].
Qed.

Lemma spec_from_cons n c L : spec_from n (c :: L) =
  record n (match L with [] => true | _ => false end) c ++ match L with [] => [] | _ => spec_from (n + 1) L end.
Proof. destruct L; [cbn [spec_chunks_from]; now rewrite app_nil_r|reflexivity]. Qed.

Lemma rue_cons_nonempty c l : nonempty c = true -> reads_until_empty (c :: l) = c :: reads_until_empty l.
Proof. destruct c; [discriminate|reflexivity]. Qed.
Lemma rue_cons_empty l : reads_until_empty ([] :: l) = [].
Proof. reflexivity. Qed.
Lemma saw_eof_cons c l : saw_eof (c :: l) = (negb (nonempty c) || saw_eof l)%bool.
Proof. destruct c; reflexivity. Qed.

(* the pending chunks at a loop entry: prev, then (unless end of input was already seen) the later reads *)
Definition pending (done : bool) (rr : list bytes) : list bytes := if done then [] else reads_until_empty rr.

Lemma enc_loop_prefix : forall fuel n prev done s r s',
  enc_loop fuel key aad cs n prev done s = (r, s') ->
  exists tr W, log s' = rev tr ++ log s /\ w_out (wtr s') = w_out (wtr s) ++ W /\
    (forall T, ((done || saw_eof (read_results tr))%bool = true -> T = []) ->
       exists rest, spec_from n (prev :: pending done (read_results tr) ++ T) = W ++ rest) /\
    (r = Ok tt -> (done || saw_eof (read_results tr))%bool = true /\
                  W = spec_from n (prev :: pending done (read_results tr))).
Proof.
  induction fuel as [|f IH]; intros n prev done s r s' E.
  { cbn in E. injection E as <- <-. exists [], []. split; [reflexivity|]. split; [now rewrite app_nil_r|].
    split; [intros T _; eexists; reflexivity|discriminate]. }
  rewrite enc_loop_S in E. unfold bind at 1 in E.
  destruct (m_read EIORead csn s) as [r1 s1] eqn:E1.
  pose proof (m_read_cases _ _ _ _ _ E1) as (Hw1 & H1).
  destruct r1 as [cur|e|w|]; try contradiction.
  2:{ injection E as <- <-. destruct H1 as (ie & _ & Hl1 & _).
      exists [EvReadErr csn ie], []. split; [exact Hl1|]. split; [now rewrite Hw1, app_nil_r|].
      split; [intros T _; eexists; reflexivity|discriminate]. }
  destruct H1 as (Hl1 & _ & _).
  destruct (nonempty cur && done)%bool eqn:Ebad.
  { injection E as <- <-. exists [EvRead csn cur], []. split; [exact Hl1|]. split; [now rewrite Hw1, app_nil_r|].
    split; [intros T _; eexists; reflexivity|discriminate]. }
  set (b := (done || negb (nonempty cur))%bool) in *.
  unfold bind at 1 in E. destruct (emit_rec P key aad n b prev s1) as [r2 s2] eqn:E2.
  destruct (emit_rec_out _ _ _ _ _ _ E2) as (W2 & rest2 & Ho2 & Hrec2 & Hok2).
  destruct (emit_rec_any P key aad Hkey _ _ _ _ _ _ E2) as (_ & _ & d & Hl2 & Hq).
  assert (Hqr : Forall quiet_ev (rev d)) by (now apply Forall_rev).
  destruct (quiet_proj _ Hqr) as (_ & Hrr_d).
  (* the flag of the record just emitted is the flag the format prescribes *)
  assert (Hflag : forall T rr', ((done || saw_eof (cur :: rr'))%bool = true -> T = []) ->
            match pending done (cur :: rr') ++ T with [] => true | _ => false end = b).
  { intros T rr' HT. unfold pending, b. destruct done; cbn [orb].
    - rewrite (HT eq_refl). reflexivity.
    - destruct cur as [|x cur']; cbn [nonempty negb].
      + rewrite rue_cons_empty. rewrite (HT eq_refl). reflexivity.
      + cbn [reads_until_empty app]. reflexivity. }
  assert (Hstop : forall res0 s0, (res0, s0) = (r2, s2) -> r2 <> Ok tt ->
    exists tr W, log s0 = rev tr ++ log s /\ w_out (wtr s0) = w_out (wtr s) ++ W /\
    (forall T, ((done || saw_eof (read_results tr))%bool = true -> T = []) ->
       exists rest, spec_from n (prev :: pending done (read_results tr) ++ T) = W ++ rest) /\
    (res0 = Ok tt -> (done || saw_eof (read_results tr))%bool = true /\
                  W = spec_from n (prev :: pending done (read_results tr)))).
  { intros res0 s0 [= -> ->] Hne.
    exists (EvRead csn cur :: EvSeal key n (rec_ad aad b prev) prev :: rev d), W2.
    split; [rewrite Hl2, Hl1; cbn [rev]; rewrite rev_involutive, <- !app_assoc; reflexivity|].
    split; [now rewrite Ho2, Hw1|].
    assert (Hrr : read_results (EvRead csn cur :: EvSeal key n (rec_ad aad b prev) prev :: rev d) = [cur]).
    { change (read_results (EvRead csn cur :: EvSeal key n (rec_ad aad b prev) prev :: rev d)) with (cur :: read_results (rev d)).
      now rewrite Hrr_d. }
    rewrite Hrr. split; [|intros Habs; contradiction].
    intros T HT. rewrite spec_from_cons, (Hflag T [] HT), Hrec2, <- app_assoc. eexists. reflexivity. }
  destruct r2 as [[]|e|w|].
  2: (apply (Hstop _ _ (eq_sym E)); discriminate).
  2: (apply (Hstop _ _ (eq_sym E)); discriminate).
  2: (apply (Hstop _ _ (eq_sym E)); discriminate).
  clear Hstop. specialize (Hok2 eq_refl). subst rest2. rewrite app_nil_r in Hrec2.
  destruct b eqn:Eb.
  - (* the final record: done *)
    injection E as <- <-.
    exists (EvRead csn cur :: EvSeal key n (rec_ad aad true prev) prev :: rev d), W2.
    split; [rewrite Hl2, Hl1; cbn [rev]; rewrite rev_involutive, <- !app_assoc; reflexivity|].
    split; [now rewrite Ho2, Hw1|].
    assert (Hrr : read_results (EvRead csn cur :: EvSeal key n (rec_ad aad true prev) prev :: rev d) = [cur]).
    { change (read_results (EvRead csn cur :: EvSeal key n (rec_ad aad true prev) prev :: rev d)) with (cur :: read_results (rev d)).
      now rewrite Hrr_d. }
    rewrite Hrr.
    assert (Heof : (done || saw_eof [cur])%bool = true).
    { unfold b in Eb. destruct done; [reflexivity|]. cbn [orb] in Eb |- *. destruct cur; [reflexivity|discriminate Eb]. }
    assert (Hpend : pending done [cur] = []).
    { unfold pending. destruct done; [reflexivity|]. unfold b in Eb. cbn [orb] in Eb. destruct cur; [reflexivity|discriminate Eb]. }
    split.
    + intros T HT. rewrite (HT Heof), app_nil_r, Hpend. cbn [spec_chunks_from]. rewrite <- Hrec2. exists []. now rewrite app_nil_r.
    + intros _. split; [exact Heof|]. rewrite Hpend. cbn [spec_chunks_from]. now rewrite Hrec2.
  - (* a non-final record: carry on with cur pending *)
    assert (Hdone : done = false) by (unfold b in Eb; destruct done; [discriminate Eb|reflexivity]).
    assert (Hcur : nonempty cur = true) by (unfold b in Eb; rewrite Hdone in Eb; cbn [orb] in Eb; destruct (nonempty cur); [reflexivity|discriminate Eb]).
    subst done.
    destruct (IH _ _ _ _ _ _ E) as (tr' & W' & Hl' & Ho' & Hpre' & Hok').
    exists (EvRead csn cur :: EvSeal key n (rec_ad aad false prev) prev :: rev d ++ tr'), (W2 ++ W').
    split; [exact (log_step _ _ _ _ _ _ _ _ _ Hl1 Hl2 Hl')|].
    split; [rewrite Ho', Ho2, Hw1, app_assoc; reflexivity|].
    assert (Hrr : read_results (EvRead csn cur :: EvSeal key n (rec_ad aad false prev) prev :: rev d ++ tr') = cur :: read_results tr').
    { change (read_results (EvRead csn cur :: EvSeal key n (rec_ad aad false prev) prev :: rev d ++ tr'))
        with (cur :: read_results (rev d ++ tr')). now rewrite read_results_app, Hrr_d. }
    rewrite Hrr. cbn [orb] in *. unfold pending in *. rewrite (rue_cons_nonempty _ _ Hcur), saw_eof_cons, Hcur. cbn [negb orb].
    split.
    + intros T HT. destruct (Hpre' T HT) as (rest & Hrest).
      exists rest. rewrite spec_from_cons. cbn [app]. rewrite Hrest, Hrec2, app_assoc. reflexivity.
    + intros Hr. destruct (Hok' Hr) as (Heof & HW). split; [exact Heof|].
      rewrite spec_from_cons. cbn [app]. rewrite <- HW, Hrec2. reflexivity.
Qed.

(* the entry point.  R = the non-empty read results of the run up to the first empty one; eof = some read
   returned 0 bytes.  For every continuation T of the read sequence (none if end of input was seen) what has
   been written is a prefix of the chunk stream of R ++ T; an Ok run saw end of input and wrote all of it *)
Theorem enc_prefix s r s' :
  encrypt_chunks P key aad cs s = (r, s') ->
  exists tr W, trace s' = trace s ++ tr /\ w_out (wtr s') = w_out (wtr s) ++ W /\
    (forall T, (saw_eof (read_results tr) = true -> T = []) ->
       exists rest, spec_chunks P key aad (chunks_of_reads (reads_until_empty (read_results tr) ++ T)) = W ++ rest) /\
    (r = Ok tt -> saw_eof (read_results tr) = true /\
                  W = spec_chunks P key aad (chunks_of_reads (reads_until_empty (read_results tr)))).
Proof.
  intros E. unfold encrypt_chunks in E. unfold bind at 1 in E.
  destruct (m_read EIORead csn s) as [r1 s1] eqn:E1.
  pose proof (m_read_cases _ _ _ _ _ E1) as (Hw1 & H1).
  destruct r1 as [first|e|w|]; try contradiction.
  2:{ injection E as <- <-. destruct H1 as (ie & _ & Hl1 & _).
      exists [EvReadErr csn ie], []. split; [apply trace_ext; exact Hl1|]. split; [now rewrite Hw1, app_nil_r|].
      split; [intros T _; eexists; reflexivity|discriminate]. }
  destruct H1 as (Hl1 & _ & _).
  destruct (enc_loop_prefix _ _ _ _ _ _ _ E) as (tr' & W & Hl' & Ho' & Hpre & Hok).
  exists (EvRead csn first :: tr'), W.
  split; [apply trace_ext; rewrite Hl', Hl1; cbn [rev]; now rewrite <- app_assoc|].
  split; [now rewrite Ho', Hw1|].
  change (read_results (EvRead csn first :: tr')) with (first :: read_results tr').
  unfold spec_chunks. destruct first as [|x first'].
  - (* empty input: one empty chunk, end of input seen *)
    cbn [reads_until_empty saw_eof existsb orb]. unfold pending in *. cbn [orb] in *.
    split.
    + intros T HT. rewrite (HT eq_refl). cbn [app chunks_of_reads]. destruct (Hpre [] (fun _ => eq_refl)) as (rest & Hrest).
      cbn [app] in Hrest. eauto.
    + intros Hr. destruct (Hok Hr) as (_ & HW). split; [reflexivity|]. exact HW.
  - unfold pending in *. cbn [orb] in *.
    rewrite (rue_cons_nonempty (x :: first') _ eq_refl). rewrite saw_eof_cons. cbn [nonempty negb orb].
    split.
    + intros T HT. destruct (Hpre T HT) as (rest & Hrest). cbn [app chunks_of_reads]. eauto.
    + intros Hr. destruct (Hok Hr) as (Heof & HW). split; [exact Heof|]. cbn [chunks_of_reads]. exact HW.
Qed.

(* hence: a prefix of what EVERY fault-free conforming run writes whose read results begin with the same
   non-empty reads (and are exactly these if the faulty run already saw the end of its input) *)
Corollary enc_prefix_of_faultfree s r s' s0 :
  1 <= cs ->
  encrypt_chunks P key aad cs s = (r, s') ->
  reader_ok (rdr s0) -> writer_ok (wtr s0) ->
  exists tr W, trace s' = trace s ++ tr /\ w_out (wtr s') = w_out (wtr s) ++ W /\
    forall T, reads_of csn (rdr s0) = reads_until_empty (read_results tr) ++ T ->
      (saw_eof (read_results tr) = true -> T = []) ->
      exists s0' rest, encrypt_chunks P key aad cs s0 = (Ok tt, s0') /\
        w_out (wtr s0') = w_out (wtr s0) ++ W ++ rest /\ (r = Ok tt -> rest = []).
Proof.
  intros Hcs E Hr0 Hw0. destruct (enc_prefix s r s' E) as (tr & W & Htr & Ho & Hpre & Hok).
  exists tr, W. split; [exact Htr|]. split; [exact Ho|]. intros T HT Heof.
  destruct (enc_spec_ok P key aad cs s0 Hkey Hcs Hr0 Hw0) as (s0' & E0 & Ho0 & _).
  destruct (Hpre T Heof) as (rest & Hrest).
  exists s0', rest. split; [exact E0|]. split; [rewrite Ho0, HT, Hrest; reflexivity|].
  intros Hr. destruct (Hok Hr) as (Heof' & HW). rewrite (Heof Heof'), app_nil_r in Hrest.
  rewrite <- HW in Hrest. rewrite <- (app_nil_r W) in Hrest at 1. now apply app_inv_head in Hrest.
Qed.

End EncPrefix.

(* ---------- file level ---------- *)
Section FilePrefix.
Variable P : prims.
Hypothesis Hh : hash_ok P.

Lemma read_results_write_evs d : Forall is_write_ev d -> read_results d = [].
Proof. induction 1 as [|e d He _ IH]; [reflexivity|]. destruct e; cbn in He; try contradiction; exact IH. Qed.

(* two header writes and a flush under ANY writer script: either the header phase stopped (error, only a
   prefix of the header was written, no read happened), or the whole header is in the sink and the
   continuation ran *)
Lemma header_out a b (k : M eerr unit) s r s' :
  bind (m_write_all EIOWrite a) (fun _ => bind (m_write_all EIOWrite b) (fun _ => bind (m_flush EIOWrite) (fun _ => k))) s = (r, s') ->
  (exists W rest tr, r <> Ok tt /\ w_out (wtr s') = w_out (wtr s) ++ W /\ a ++ b = W ++ rest /\
                     log s' = rev tr ++ log s /\ read_results tr = []) \/
  (exists s1 tr, w_out (wtr s1) = w_out (wtr s) ++ a ++ b /\ rdr s1 = rdr s /\
                 log s1 = rev tr ++ log s /\ read_results tr = [] /\ k s1 = (r, s')).
Proof.
  intros E. unfold bind at 1 in E. destruct (m_write_all EIOWrite a s) as [r1 s1] eqn:E1.
  pose proof (m_write_all_cases _ _ _ _ _ E1) as (Hr1 & d1 & Hl1 & Hev1 & H1).
  assert (Hrr1 : read_results (rev d1) = []) by (apply read_results_write_evs, Forall_rev, Hev1).
  destruct r1 as [u|e|w|]; try contradiction.
  2:{ injection E as <- <-. left. destruct H1 as (_ & (k1 & _ & Hk) & _).
      exists (firstn k1 a), (skipn k1 a ++ b), (rev d1). split; [discriminate|]. split; [exact Hk|].
      split; [now rewrite app_assoc, firstn_skipn|]. split; [now rewrite rev_involutive|exact Hrr1]. }
  destruct H1 as (Ho1 & _).
  unfold bind at 1 in E. destruct (m_write_all EIOWrite b s1) as [r2 s2] eqn:E2.
  pose proof (m_write_all_cases _ _ _ _ _ E2) as (Hr2 & d2 & Hl2 & Hev2 & H2).
  assert (Hrr2 : read_results (rev d1 ++ rev d2) = []).
  { rewrite read_results_app, Hrr1. apply read_results_write_evs, Forall_rev, Hev2. }
  assert (Hl12 : log s2 = rev (rev d1 ++ rev d2) ++ log s).
  { rewrite rev_app_distr, !rev_involutive, Hl2, Hl1, app_assoc. reflexivity. }
  destruct r2 as [u2|e|w|]; try contradiction.
  2:{ injection E as <- <-. left. destruct H2 as (_ & (k2 & _ & Hk) & _).
      exists (a ++ firstn k2 b), (skipn k2 b), (rev d1 ++ rev d2). split; [discriminate|].
      split; [rewrite Hk, Ho1, app_assoc; reflexivity|].
      split; [now rewrite <- app_assoc, firstn_skipn|]. split; [exact Hl12|exact Hrr2]. }
  destruct H2 as (Ho2 & _).
  unfold bind at 1 in E. destruct (m_flush EIOWrite s2) as [r3 s3] eqn:E3.
  pose proof (m_flush_cases _ _ _ _ E3) as (Hr3 & Ho3 & H3).
  destruct r3 as [u3|e|w|]; try contradiction.
  - right. exists s3, ((rev d1 ++ rev d2) ++ [EvFlush None]).
    split; [rewrite Ho3, Ho2, Ho1, app_assoc; reflexivity|]. split; [now rewrite Hr3, Hr2, Hr1|].
    split; [rewrite rev_app_distr; cbn [rev app]; rewrite H3, Hl12; reflexivity|].
    split; [rewrite read_results_app, Hrr2; reflexivity|exact E].
  - injection E as <- <-. left. destruct H3 as (ie & _ & H3).
    exists (a ++ b), [], ((rev d1 ++ rev d2) ++ [EvFlush (Some ie)]). split; [discriminate|].
    split; [rewrite Ho3, Ho2, Ho1, app_assoc; reflexivity|]. split; [now rewrite app_nil_r|].
    split; [rewrite rev_app_distr; cbn [rev app]; rewrite H3, Hl12; reflexivity|].
    rewrite read_results_app, Hrr2. reflexivity.
Qed.

(* password mode, EVERY io state: what has been written is a prefix of the documented password file for the
   read results obtained so far followed by any continuation; Ok means end of input was seen and the whole
   file for exactly these reads was written *)
Theorem pass_encrypt_prefix pw salt s r s' :
  pass_encrypt P pw salt s = (r, s') ->
  exists tr W, trace s' = trace s ++ tr /\ w_out (wtr s') = w_out (wtr s) ++ W /\
    (forall T, (saw_eof (read_results tr) = true -> T = []) ->
       exists rest, spec_pass_file P pw salt (chunks_of_reads (reads_until_empty (read_results tr) ++ T)) = W ++ rest) /\
    (r = Ok tt -> saw_eof (read_results tr) = true /\
                  W = spec_pass_file P pw salt (chunks_of_reads (reads_until_empty (read_results tr)))).
Proof.
  intros E. unfold pass_encrypt in E. cbv zeta in E. unfold bind at 1, emit in E.
  set (ev := EvKdf pw salt x_lib_scrypt_n x_lib_scrypt_r x_lib_scrypt_p) in *.
  destruct (header_out _ _ _ _ _ _ E) as [(W & rest & tr & Hne & Ho & Hab & Hl & Hrr)|(s1 & tr & Ho1 & Hr1 & Hl1 & Hrr1 & Ek)].
  - exists (ev :: tr), W. split; [apply trace_ext; rewrite Hl; cbn [log with_log rev]; now rewrite <- app_assoc|].
    split; [exact Ho|].
    change (read_results (ev :: tr)) with (read_results tr). rewrite Hrr.
    split; [|intros Hr; contradiction].
    intros T _. unfold spec_pass_file. rewrite app_assoc, Hab, <- app_assoc. eexists. reflexivity.
  - destruct (enc_prefix P _ _ _ (kdf_len P pw salt Hh) _ _ _ Ek) as (tr2 & W2 & Htr2 & Ho2 & Hpre & Hok).
    exists (ev :: tr ++ tr2), ((x_pass_file_magic ++ salt) ++ W2).
    split.
    { rewrite Htr2. unfold trace. rewrite Hl1. cbn [log with_log]. rewrite rev_app_distr, rev_involutive. cbn [rev].
      rewrite <- !app_assoc. reflexivity. }
    split; [rewrite Ho2, Ho1; cbn [wtr with_log]; rewrite <- !app_assoc; reflexivity|].
    change (read_results (ev :: tr ++ tr2)) with (read_results (tr ++ tr2)). rewrite read_results_app, Hrr1. cbn [app].
    split.
    + intros T HT. destruct (Hpre T HT) as (rest & Hrest). exists rest. unfold spec_pass_file.
      rewrite Hrest, <- !app_assoc. reflexivity.
    + intros Hr. destruct (Hok Hr) as (Heof & HW). split; [exact Heof|]. unfold spec_pass_file. rewrite <- HW, <- !app_assoc. reflexivity.
Qed.

(* key mode, EVERY io state, whenever the Noise layer produced (msg, hh) (otherwise nothing is written) *)
Theorem key_encrypt_prefix fresh_pk fresh_e sk spk rpk e epk pk msg hh s r s' :
  length (payload_of fresh_pk pk) = 32%nat ->
  noise_encrypt P fresh_e sk spk rpk e epk x_prologue (payload_of fresh_pk pk) = Ok (msg, hh) ->
  key_encrypt P fresh_pk fresh_e sk spk rpk e epk pk s = (r, s') ->
  exists tr W, trace s' = trace s ++ tr /\ w_out (wtr s') = w_out (wtr s) ++ W /\
    (forall T, (saw_eof (read_results tr) = true -> T = []) ->
       exists rest, spec_key_file P msg hh (payload_of fresh_pk pk)
                      (chunks_of_reads (reads_until_empty (read_results tr) ++ T)) = W ++ rest) /\
    (r = Ok tt -> saw_eof (read_results tr) = true /\
                  W = spec_key_file P msg hh (payload_of fresh_pk pk)
                        (chunks_of_reads (reads_until_empty (read_results tr)))).
Proof.
  intros Hp Hn E. unfold key_encrypt in E. cbv zeta in E. unfold payload_of in Hp, Hn. rewrite Hp in E.
  cbn [Nat.eqb negb] in E. rewrite Hn in E. fold (payload_of fresh_pk pk) in *.
  destruct (header_out _ _ _ _ _ _ E) as [(W & rest & tr & Hne & Ho & Hab & Hl & Hrr)|(s1 & tr & Ho1 & Hr1 & Hl1 & Hrr1 & Ek)].
  - exists tr, W. split; [apply trace_ext; exact Hl|]. split; [exact Ho|]. rewrite Hrr.
    split; [|intros Hr; contradiction].
    intros T _. unfold spec_key_file. rewrite app_assoc, Hab, <- app_assoc. eexists. reflexivity.
  - destruct (enc_prefix P _ _ _ (file_key_len P _ hh Hh) _ _ _ Ek) as (tr2 & W2 & Htr2 & Ho2 & Hpre & Hok).
    exists (tr ++ tr2), ((x_prologue ++ msg) ++ W2).
    split.
    { rewrite Htr2. unfold trace. rewrite Hl1. rewrite rev_app_distr, rev_involutive. rewrite <- !app_assoc. reflexivity. }
    split; [rewrite Ho2, Ho1; rewrite <- !app_assoc; reflexivity|].
    rewrite read_results_app, Hrr1. cbn [app].
    split.
    + intros T HT. destruct (Hpre T HT) as (rest & Hrest). exists rest. unfold spec_key_file.
      fold (payload_of fresh_pk pk). rewrite Hrest, <- !app_assoc. reflexivity.
    + intros Hr. destruct (Hok Hr) as (Heof & HW). split; [exact Heof|]. unfold spec_key_file.
      fold (payload_of fresh_pk pk). rewrite <- HW, <- !app_assoc. reflexivity.
Qed.

End FilePrefix.

Section Closure.
Print Assumptions pass_encrypt_prefix.
Print Assumptions key_encrypt_prefix.
Print Assumptions enc_prefix.
Print Assumptions enc_prefix_of_faultfree.
End Closure.
