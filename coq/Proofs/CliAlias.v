(* Proofs/CliAlias.v — one file under two names, on the WHOLE program (argument parsing + commands, Model/CliGlue.v).

   commands.rs refuses `-o F` when F is, as a STRING, the input argument.  Two different strings can denote one file
   ("in" and "./in", "in" and "sub/../in", a relative and an absolute spelling).  Then the check passes, the output's
   File::create truncates the input while it is being read, and the command SUCCEEDS: exit 0, the input is gone.
   This is an observation about the program, not a violation of C13 (whose text is about FAILING commands): the
   witness below is a successful run.  The positive statement is CliFacts.input_file_survives: when the two paths
   do not denote the same file the input is unchanged, whatever the outcome.

   The witness runs the model's main on stub primitives (Model/CliStubs.v: enough to evaluate, not cryptography);
   the statement only needs ONE world and ONE argv.  The same run on the real program (clidrv) is part of the
   correspondence cases of C12 and C13 (tools/props_cli.py: kvw_alias cases) and agrees with the model. *)
From Kestrel Require Import Bytes Outcome IO Prims.
From Kestrel.Model Require Import KeyringText Getopts CliParse Cli CliStubs CliGlue.
From Kestrel.Proofs Require Import CliFacts.
Local Open Scope N_scope.

Definition s_main := cli_main stub_prims stub_ok stub_ok stub_unlock stub_lock stub_decode_pk stub_encode_pk stub_ok
                              stub_utf8_decode stub_utf8_encode [] [].

(* "kestrel" "password" "encrypt" "in" "-o" "./in" "--env-pass" *)
Definition a_kestrel : text := [107; 101; 115; 116; 114; 101; 108].
Definition a_password : text := [112; 97; 115; 115; 119; 111; 114; 100].
Definition a_encrypt : text := [101; 110; 99; 114; 121; 112; 116].
Definition a_decrypt : text := [100; 101; 99; 114; 121; 112; 116].
Definition a_o : text := [45; 111].
Definition a_env_pass : text := [45; 45; 101; 110; 118; 45; 112; 97; 115; 115].
Definition p_dot_in : text := [46; 47; 105; 110].                 (* "./in" *)
Definition p_dot_ct : text := [46; 47; 99; 116].                  (* "./ct" *)

Definition alias_argv : list text := [a_kestrel; a_password; a_encrypt; p_in; a_o; p_dot_in; a_env_pass].

(** There is a world and an argv such that: the input and output arguments differ as strings; they denote the same
    regular file; the same-path test of the program does not fire; the command exits 0 with status SOk; and the
    input file no longer holds its content (it holds the encryption of the 36-byte header the command had just
    written into it: 36 + 16 + 36 + 16 bytes in the real program, header ++ one chunk here). *)
Theorem alias_destroys_input :
  exists (w : world) (argv : list text) (infile outfile : text) (before after : bytes),
    argv = [a_kestrel; a_password; a_encrypt; infile; a_o; outfile; a_env_pass] /\
    infile <> outfile /\
    fs_target (fs w) infile = fs_target (fs w) outfile /\
    fs_get (fs w) infile = Some before /\
    let r := s_main w argv (zeros 32) [] in
    m_exit r = 0 /\ m_status r = MCmd SOk /\
    fs_get (m_fs r) infile = Some after /\ after <> before /\
    (* nothing else changed: every path that denotes another file shows what it showed *)
    (forall q, fs_target (fs w) q <> fs_target (fs w) infile -> fs_get (m_fs r) q = fs_get (fs w) q).
Proof.
  exists (ex_world (Some [112])), alias_argv, p_in, p_dot_in, plain.
  eexists. split; [reflexivity|]. split; [discriminate|]. split; [vm_compute; reflexivity|].
  split; [vm_compute; reflexivity|]. cbv zeta.
  split; [vm_compute; reflexivity|]. split; [vm_compute; reflexivity|].
  split; [vm_compute; reflexivity|]. split; [vm_compute; discriminate|].
  intros q Hq.
  assert (E : m_fs (s_main (ex_world (Some [112])) alias_argv (zeros 32) []) =
              new_fs (s_cmd_pass_encrypt (ex_world (Some [112]))
                        {| po_infile := Some p_in; po_outfile := Some p_dot_in; po_env_pass := true |} (zeros 32)))
    by (vm_compute; reflexivity).
  rewrite E. unfold s_cmd_pass_encrypt, cmd_pass_encrypt.
  apply (stream_other_paths (ex_world (Some [112])) (Some p_dot_in)).
  intros F [= <-]. intros H. apply Hq. rewrite H. vm_compute. reflexivity.
Qed.

(* the same with the two decryptors' direction: `password decrypt ct -o ./ct` replaces the ciphertext by its plaintext
   and exits 0 *)
Theorem alias_decrypt_replaces_input :
  let w := ex_world_ct (Some [112]) in
  let r := s_main w [a_kestrel; a_password; a_decrypt; p_ct; a_o; p_dot_ct; a_env_pass] [] [] in
  p_ct <> p_dot_ct /\ fs_target (fs w) p_ct = fs_target (fs w) p_dot_ct /\
  m_exit r = 0 /\ fs_get (m_fs r) p_ct = Some plain /\ fs_get (fs w) p_ct <> Some plain.
Proof. cbv zeta. split; [discriminate|]. split; [vm_compute; reflexivity|]. split; [vm_compute; reflexivity|].
  split; [vm_compute; reflexivity | vm_compute; discriminate]. Qed.

Print Assumptions alias_destroys_input.
Print Assumptions alias_decrypt_replaces_input.
