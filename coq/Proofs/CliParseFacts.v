(* CliParseFacts.v — facts about Model/Getopts.v (getopts 0.2.21 [Options::parse]) and
   Model/CliParse.v (kestrel's command-line parsing).  The definitions used in the statements (items,
   renderings, [dsem], [resp], ...) are in Model/CliParseSpec.v.
   1. text / UTF-8 primitives ([is_arg], [byte_at], [str_from], [name_from_str]);
   2. [parse] never panics nor runs out of fuel, with the invariants of a successful parse;
   3. [cli_parse_no_panic];
   4. command aliases;
   5. spelling independence: the general getopts lemma on rendered item lists ([parse_items],
      [parse_spelling]); [parse_decrypt], [parse_encrypt], password and key-gen parsers on every order
      and every spelling; the general respelling theorem for arbitrary vectors ([parse_respell]);
   6. [parse_ok_characterisation]. *)
From Kestrel Require Import Bytes BytesFacts Outcome.
From Kestrel.Proofs Require Import KeyringRefine.
From Kestrel.Model Require Import KeyringText Getopts CliParse CliParseSpec.   (* last: its names win *)
From Coq Require Import ZifyBool ZifyNat ZifyN Permutation.
Local Open Scope N_scope.

(* ====================================================================================== *)
(** * 1. Text primitives                                                                   *)
(* ====================================================================================== *)

(** The UTF-8 encoding of a char: never empty; a single byte exactly for ASCII, and then that byte is
    the char; the first byte is '-' only for the char '-'. *)
Lemma utf8_encode_char_shape c :
  exists b bs, utf8_encode_char c = b :: bs
    /\ (b = c_dash <-> c = c_dash)
    /\ (bs = [] <-> c < 128)
    /\ (c < 128 -> b = c).
Proof.
  unfold utf8_encode_char, c_dash.
  destruct (N.ltb_spec c 128) as [H1|H1].
  - exists c, []. repeat split; auto.
  - destruct (N.ltb_spec c 2048) as [H2|H2]; [|destruct (N.ltb_spec c 65536) as [H3|H3]];
      eexists; eexists; (split; [reflexivity|]); repeat split; intros H; try discriminate; try lia.
Qed.

Lemma as_bytes_cons c s : as_bytes (c :: s) = utf8_encode_char c ++ as_bytes s.
Proof. reflexivity. Qed.

Lemma as_bytes_dash s : as_bytes (c_dash :: s) = c_dash :: as_bytes s.
Proof. reflexivity. Qed.

Lemma as_bytes_nil_iff s : as_bytes s = [] <-> s = [].
Proof.
  destruct s as [|c s]; [tauto|]. rewrite as_bytes_cons.
  destruct (utf8_encode_char_shape c) as (b & bs & -> & _). split; discriminate.
Qed.

(** is_arg: a '-' followed by at least one more char *)
Lemma is_arg_cons x r :
  is_arg (x :: r) = (x =? c_dash) && match r with [] => false | _ :: _ => true end.
Proof.
  unfold is_arg, str_len. rewrite as_bytes_cons.
  destruct (utf8_encode_char_shape x) as (b & bs & -> & Hd & Hbs & Hb).
  cbn [app nth_error length].
  destruct (N.eqb_spec x c_dash) as [->|Hx].
  - assert (Hbs' : bs = []) by (apply Hbs; unfold c_dash; lia). subst bs.
    assert (b = c_dash) by (apply Hd; reflexivity). subst b.
    rewrite N.eqb_refl. cbn [app andb].
    destruct r as [|c r]; [reflexivity|]. rewrite as_bytes_cons.
    destruct (utf8_encode_char_shape c) as (b' & bs' & -> & _). reflexivity.
  - destruct (N.eqb_spec b c_dash) as [Hb'|Hb']; [apply Hd in Hb'; contradiction|reflexivity].
Qed.

Lemma is_arg_spec s : is_arg s = true <-> exists c r, s = c_dash :: c :: r.
Proof.
  destruct s as [|x r]; [split; [discriminate | intros (c & r & H); discriminate]|].
  rewrite is_arg_cons. split.
  - intros H. apply andb_true_iff in H. destruct H as [Hx Hr]. apply N.eqb_eq in Hx. subst x.
    destruct r as [|c r]; [discriminate|]. now exists c, r.
  - intros (c & r' & H). injection H as -> ->. reflexivity.
Qed.

Lemma byte_at_dash_1 {E} c r :
  exists b, @byte_at E (c_dash :: c :: r) 1 = Ok b /\ (b =? c_dash) = (c =? c_dash).
Proof.
  unfold byte_at. rewrite as_bytes_dash, as_bytes_cons.
  destruct (utf8_encode_char_shape c) as (b & bs & -> & Hd & _).
  exists b. split; [reflexivity|].
  destruct (N.eqb_spec b c_dash) as [H|H], (N.eqb_spec c c_dash) as [H'|H']; try reflexivity; tauto.
Qed.

Lemma str_from_0 {E} s : @str_from E s 0 = Ok s.
Proof. destruct s; reflexivity. Qed.
Lemma str_from_dash {E} s n : @str_from E (c_dash :: s) (S n) = str_from s n.
Proof. cbn [str_from]. change (length (utf8_encode_char c_dash)) with 1%nat.
  cbn [Nat.leb]. replace (S n - 1)%nat with n by lia. reflexivity. Qed.

(** Name::from_str is total: [nfs] *)

Lemma name_from_str_ok {E} nm : @name_from_str E nm = Ok (nfs nm).
Proof.
  unfold name_from_str, str_len, byte_at.
  destruct nm as [|c [|c2 r]].
  - reflexivity.
  - rewrite as_bytes_cons. cbn [as_bytes flat_map]. rewrite app_nil_r.
    destruct (utf8_encode_char_shape c) as (b & bs & -> & _ & Hbs & Hb). cbn [nfs].
    destruct (N.ltb_spec c 128) as [Hc|Hc].
    + assert (bs = []) by now apply Hbs. subst bs. rewrite (Hb Hc). reflexivity.
    + destruct bs as [|b2 bs]; [exfalso; assert (Hlt : c < 128) by (now apply Hbs); lia|].
      destruct bs; reflexivity.
  - rewrite !as_bytes_cons.
    destruct (utf8_encode_char_shape c) as (b & bs & -> & _).
    destruct (utf8_encode_char_shape c2) as (b2 & bs2 & -> & _).
    cbn [app length nfs]. rewrite app_length. cbn [length].
    replace (S (length bs + S (length (bs2 ++ as_bytes r))) =? 1)%nat with false by lia. reflexivity.
Qed.

(* ====================================================================================== *)
(** * 2. [parse] never panics; invariants of its result                                    *)
(* ====================================================================================== *)

Lemma position_lt {A} (p : A -> bool) : forall l i, position p l = Some i -> (i < length l)%nat.
Proof.
  induction l as [|x l IH]; intros i H; cbn [position] in H; [discriminate|].
  destruct (p x).
  - injection H as <-. cbn [length]. lia.
  - destruct (position p l) as [j|] eqn:Ej; [|discriminate]. injection H as <-.
    specialize (IH j eq_refl). cbn [length]. lia.
Qed.

Lemma find_alias_lt all : forall cands nm i, find_alias all cands nm = Some i -> (i < length all)%nat.
Proof.
  induction cands as [|c cands IH]; intros nm i H; cbn [find_alias] in H; [discriminate|].
  destruct (existsb _ _); [eapply position_lt; eassumption | eapply IH; eassumption].
Qed.

(** [opts[find_opt(..)]] is always in bounds *)
Lemma find_opt_lt opts nm i : find_opt opts nm = Some i -> (i < length opts)%nat.
Proof.
  unfold find_opt. destruct (position _ opts) as [j|] eqn:Ej.
  - intros H. injection H as <-. eapply position_lt; eassumption.
  - apply find_alias_lt.
Qed.

Lemma find_opt_nth opts nm i : find_opt opts nm = Some i -> exists od, nth_error opts i = Some od.
Proof.
  intros H. apply find_opt_lt in H. destruct (nth_error opts i) as [od|] eqn:E; [now exists od|].
  apply nth_error_None in E. lia.
Qed.

(** The values recorded for an option: [Val s] with [P s], and [Given] only for an option that does not
    require an argument. *)

Lemma push_at_Forall2 {A} (R : A -> list (nat * optval) -> Prop) x :
  forall (os : list A) vals i od,
  Forall2 R os vals -> nth_error os i = Some od -> (forall vs, R od vs -> R od (vs ++ [x])) ->
  exists vals', push_at vals i x = Some vals' /\ Forall2 R os vals'.
Proof.
  intros os vals i od HF. revert i. induction HF as [|o v os vals Hov HF IH]; intros i Hn Hx.
  - destruct i; discriminate.
  - destruct i as [|i]; cbn [nth_error] in Hn.
    + injection Hn as ->. eexists. split; [reflexivity|]. constructor; auto.
    + destruct (IH i Hn Hx) as (vals' & Hp & HF'). cbn [push_at]. rewrite Hp. cbn [option_map].
      eexists. split; [reflexivity|]. constructor; auto.
Qed.

Lemma push_val_inv P opts vals i od pv :
  vinv P opts vals -> nth_error opts i = Some od -> val_ok P od pv ->
  exists vals', push_at vals i pv = Some vals' /\ (forall E, @push_val E vals i pv = Ok vals')
                /\ vinv P opts vals'.
Proof.
  intros Hv Hn Hok.
  destruct (push_at_Forall2 (fun od vs => Forall (val_ok P od) vs) pv opts vals i od Hv Hn)
    as (vals' & Hp & Hv').
  - intros vs Hvs. apply Forall_app. split; [assumption|]. constructor; [assumption|constructor].
  - exists vals'. split; [assumption|]. split; [|assumption]. intros E. unfold push_val. now rewrite Hp.
Qed.

Lemma cluster_loop_normal opts : forall chars names, normal (cluster_loop opts chars names).
Proof.
  induction chars as [|ch rest IH]; intros names; cbn [cluster_loop]; [exact I|].
  destruct (find_opt opts (Short ch)) as [id|] eqn:Ef; [|exact I].
  destruct (find_opt_nth _ _ _ Ef) as (od & ->).
  destruct (o_hasarg od); try apply IH; destruct rest; try exact I; apply IH.
Qed.

(** Decoding an option argument under long_only, in closed form *)

Lemma decode_arg_long o opts c r :
  long_only o = true ->
  decode_arg o opts (c_dash :: c :: r) =
  match split_once_eq (long_tail c r) with
  | None => Ok (true, [nfs (long_tail c r)], None)
  | Some (a, b) => Ok (true, [nfs a], Some b)
  end.
Proof.
  intros Hl. unfold decode_arg, long_tail. rewrite Hl.
  destruct (@byte_at_dash_1 fail c r) as (b & -> & Hb). cbn [obind]. rewrite Hb, orb_true_r.
  destruct (N.eqb_spec c c_dash) as [->|Hc].
  - rewrite !str_from_dash, str_from_0. cbn [obind]. unfold splitn2_eq.
    destruct (split_once_eq r) as [[a b']|]; rewrite name_from_str_ok; reflexivity.
  - rewrite str_from_dash, str_from_0. cbn [obind]. unfold splitn2_eq.
    destruct (split_once_eq (c :: r)) as [[a b']|]; rewrite name_from_str_ok; reflexivity.
Qed.

Lemma decode_arg_normal o opts cur : is_arg cur = true -> normal (decode_arg o opts cur).
Proof.
  intros Ha. apply is_arg_spec in Ha. destruct Ha as (c & r & ->).
  destruct (long_only o) eqn:Hl.
  - rewrite decode_arg_long by assumption. destruct (split_once_eq _) as [[a b]|]; exact I.
  - unfold decode_arg. rewrite Hl.
    destruct (@byte_at_dash_1 fail c r) as (b & -> & Hb). cbn [obind]. rewrite Hb, orb_false_r.
    destruct (N.eqb_spec c c_dash) as [->|Hc].
    + rewrite !str_from_dash, str_from_0. cbn [obind]. unfold splitn2_eq.
      destruct (split_once_eq r) as [[a b']|]; rewrite name_from_str_ok; exact I.
    + pose proof (cluster_loop_normal opts (c :: r) []) as Hn.
      destruct (cluster_loop opts (c :: r) []); cbn [obind]; auto.
Qed.

(** The inner loop over the decoded names *)
Lemma names_loop_inv P opts was_long nlen pos :
  forall names npos i_arg vals args,
  vinv P opts vals -> Forall P args -> (forall a, i_arg = Some a -> P a) ->
  match names_loop opts was_long nlen pos names npos i_arg vals args with
  | Ok (vals', args') => vinv P opts vals' /\ exists pre, args = pre ++ args'
  | Err _ => True
  | _ => False
  end.
Proof.
  induction names as [|nm names IH]; intros npos i_arg vals args Hv Ha Hi; cbn [names_loop].
  - split; [assumption|]. now exists [].
  - destruct (find_opt opts nm) as [id|] eqn:Ef; [|exact I].
    destruct (find_opt_nth _ _ _ Ef) as (od & Hn). rewrite Hn.
    destruct (o_hasarg od) eqn:Hha.
    + (* Yes *)
      destruct i_arg as [a|].
      * destruct (push_val_inv P opts vals id od (pos, Val a) Hv Hn) as (vals' & _ & Hp & Hv');
          [apply Hi; reflexivity|]. rewrite Hp. cbn [obind]. apply IH; auto; intros ? [=].
      * destruct args as [|n args']; [exact I|].
        inversion Ha as [|? ? Hn0 Ha']; subst.
        destruct (push_val_inv P opts vals id od (pos, Val n) Hv Hn) as (vals' & _ & Hp & Hv');
          [exact Hn0|]. rewrite Hp. cbn [obind].
        assert (IH' := IH (S npos) None vals' args' Hv' Ha' ltac:(intros ? [=])).
        destruct (names_loop _ _ _ _ names _ None vals' args') as [[v2 a2]| | |];
          [|exact I|exact IH'|exact IH'].
        destruct IH' as [Hv2 (pre & ->)]. split; [assumption|]. now exists (n :: pre).
    + (* No *)
      destruct ((S npos =? nlen)%nat && is_some i_arg); [exact I|].
      destruct (push_val_inv P opts vals id od (pos, Given) Hv Hn) as (vals' & _ & Hp & Hv').
      { unfold val_ok. cbn [snd]. rewrite Hha. discriminate. }
      rewrite Hp. cbn [obind]. apply IH; auto.
    + (* Maybe *)
      destruct i_arg as [a|].
      * destruct (push_val_inv P opts vals id od (pos, Val a) Hv Hn) as (vals' & _ & Hp & Hv');
          [apply Hi; reflexivity|]. rewrite Hp. cbn [obind]. apply IH; auto; intros ? [=].
      * destruct (push_val_inv P opts vals id od (pos, Given) Hv Hn) as (vals' & Hpa & Hp & Hv').
        { unfold val_ok. cbn [snd]. rewrite Hha. discriminate. }
        destruct (was_long || (S npos <? nlen)%nat || match args with [] => true | n :: _ => is_arg n end) eqn:Hc.
        -- rewrite Hp. cbn [obind]. apply IH; auto; intros ? [=].
        -- rewrite Hpa. destruct args as [|n args'].
           { rewrite !orb_false_iff in Hc. destruct Hc as [_ Hc]. discriminate. }
           inversion Ha as [|? ? Hn0 Ha']; subst.
           destruct (push_val_inv P opts vals id od (pos, Val n) Hv Hn) as (vals2 & _ & Hp2 & Hv2);
             [exact Hn0|]. rewrite Hp2. cbn [obind].
           assert (IH' := IH (S npos) None vals2 args' Hv2 Ha' ltac:(intros ? [=])).
           destruct (names_loop _ _ _ _ names _ None vals2 args') as [[v3 a3]| | |];
             [|exact I|exact IH'|exact IH'].
           destruct IH' as [Hv3 (pre & ->)]. split; [assumption|]. now exists (n :: pre).
Qed.

(** What is assumed of every argument: it satisfies P (it may become an option value) and Q (it may
    become a free argument), and so does the inline value it may carry. *)

Lemma arg_ok_trivial o opts a : arg_ok (fun _ => True) (fun _ => True) o opts a.
Proof. repeat split. Qed.

(** The main loop *)
Lemma parse_loop_inv P Q o opts :
  forall fuel vals free args pos,
  (length args <= fuel)%nat -> vinv P opts vals -> Forall Q free ->
  Forall (arg_ok P Q o opts) args ->
  match parse_loop fuel o opts vals free args pos with
  | Ok (vals', free') => vinv P opts vals' /\ Forall Q free'
  | Err _ => True
  | _ => False
  end.
Proof.
  induction fuel as [|fuel IH]; intros vals free args pos Hlen Hv Hf Ha.
  - destruct args as [|cur args]; [cbn [parse_loop]; auto | cbn [length] in Hlen; lia].
  - destruct args as [|cur args]; [cbn [parse_loop]; auto|]. cbn [parse_loop].
    cbn [length] in Hlen. inversion Ha as [|? ? Hcur Ha']; subst.
    destruct Hcur as (HPc & HQc & Hdec).
    assert (HQargs : Forall Q args).
    { eapply Forall_impl; [|exact Ha']. intros a (_ & HQa & _). exact HQa. }
    assert (Hf' : Forall Q (free ++ [cur])).
    { apply Forall_app. split; [assumption|]. constructor; [assumption|constructor]. }
    destruct (is_arg cur) eqn:Hia; cbn [negb].
    + destruct (text_eqb cur s_dashdash).
      { split; [assumption|]. apply Forall_app. split; assumption. }
      pose proof (decode_arg_normal o opts cur Hia) as Hn.
      destruct (decode_arg o opts cur) as [[[wl names] i_arg]| | |] eqn:Hd; cbn [obind normal] in *;
        [|exact I|contradiction|contradiction].
      assert (HPargs : Forall P args).
      { eapply Forall_impl; [|exact Ha']. intros a (HPa & _). exact HPa. }
      assert (Hi : forall a, i_arg = Some a -> P a).
      { intros a ->. eapply Hdec. reflexivity. }
      pose proof (names_loop_inv P opts wl (length names) pos names 0%nat i_arg vals args Hv HPargs Hi) as Hnl.
      destruct (names_loop opts wl (length names) pos names 0 i_arg vals args) as [[vals' args']| | |];
        cbn [obind fst snd]; [|exact I|contradiction|contradiction].
      destruct Hnl as [Hv' (pre & ->)]. apply IH; auto.
      * rewrite app_length in Hlen. lia.
      * apply Forall_app in Ha'. tauto.
    + destruct (style o).
      * apply IH; auto. lia.
      * split; [assumption|]. apply Forall_app. split; assumption.
Qed.

(** The final occurrence check *)

Lemma check_occur_inv (R : opt -> list (nat * optval) -> Prop) :
  forall opts vals, Forall2 R opts vals ->
  match check_occur vals opts with
  | Ok _ => Forall2 (fun od vs => R od vs /\ occ_ok od vs) opts vals
  | Err _ => True
  | _ => False
  end.
Proof.
  intros opts vals HF. induction HF as [|od vs opts vals Hr HF IH]; cbn [check_occur]; [constructor|].
  destruct (occur_eqb (o_occur od) Req && (length vs =? 0)%nat) eqn:E1; [exact I|].
  destruct (negb (occur_eqb (o_occur od) Multi) && (1 <? length vs)%nat) eqn:E2; [exact I|].
  destruct (check_occur vals opts) as [u| | |]; auto.
  constructor; [|assumption]. split; [assumption|]. split.
  - intros Hreq Hnil. subst vs. rewrite Hreq in E1. discriminate.
  - intros Hm. destruct (o_occur od); cbn [occur_eqb negb andb] in E2; try lia. congruence.
Qed.

Lemma Forall2_len {A B} (R : A -> B -> Prop) l1 l2 : Forall2 R l1 l2 -> length l1 = length l2.
Proof. intros H. induction H as [|a b l1 l2 Hab H IH]; cbn [length]; congruence. Qed.

(** Invariants of a successful parse *)

Lemma parse_inv P Q o opts args :
  @map_m fail _ _ long_to_short (grps o) = Ok opts ->
  Forall (arg_ok P Q o opts) args ->
  match parse o args with
  | Ok m => minv P Q opts m
  | Err _ => True
  | _ => False
  end.
Proof.
  intros Hopts Ha. unfold parse. rewrite Hopts. cbn [obind].
  assert (Hv0 : vinv P opts (map (fun _ => []) opts)).
  { unfold vinv. clear. induction opts as [|od opts IH]; cbn [map]; constructor; auto. }
  pose proof (parse_loop_inv P Q o opts (length args) _ [] args 0%nat (le_n _) Hv0 (Forall_nil _) Ha) as Hl.
  destruct (parse_loop (length args) o opts (map (fun _ => []) opts) [] args 0) as [[vals free]| | |];
    cbn [obind]; [|exact I|contradiction|contradiction].
  destruct Hl as [Hv Hf]. pose proof (Forall2_len _ _ _ Hv) as Hlen.
  replace (length vals =? length opts)%nat with true by lia. cbn [negb].
  pose proof (check_occur_inv _ opts vals Hv) as Hc.
  destruct (check_occur vals opts) as [u| | |]; cbn [obind]; [|exact I|contradiction|contradiction].
  repeat split; assumption.
Qed.

(** [parse] never panics and never runs out of fuel, whatever the arguments, for any set of options whose
    groups convert ([long_to_short]) — in particular for every set built with the builders. *)
Theorem parse_no_panic o opts args :
  @map_m fail _ _ long_to_short (grps o) = Ok opts -> normal (parse o args).
Proof.
  intros Hopts.
  pose proof (parse_inv (fun _ => True) (fun _ => True) o opts args Hopts) as H.
  destruct (parse o args); cbn [normal]; auto; apply H;
    apply Forall_forall; intros a _; apply arg_ok_trivial.
Qed.

(* ====================================================================================== *)
(** * 3. Lookups in a successful parse; [cli_parse] never panics                           *)
(* ====================================================================================== *)

Lemma Forall2_nth {A B} (R : A -> B -> Prop) : forall l1 l2 i a,
  Forall2 R l1 l2 -> nth_error l1 i = Some a -> exists b, nth_error l2 i = Some b /\ R a b.
Proof.
  intros l1 l2 i a HF. revert i. induction HF as [|x y l1 l2 Hxy HF IH]; intros i Hn.
  - destruct i; discriminate.
  - destruct i as [|i]; cbn [nth_error] in *.
    + injection Hn as ->. now exists y.
    + now apply IH.
Qed.

(** A lookup of a defined name in the result of a successful parse *)
Lemma minv_lookup P Q opts m nm id :
  minv P Q opts m -> find_opt opts (nfs nm) = Some id ->
  exists od vs, nth_error opts id = Some od /\ nth_error (m_vals m) id = Some vs
    /\ Forall (val_ok P od) vs /\ occ_ok od vs
    /\ (forall E, @opt_vals E m nm = Ok vs).
Proof.
  intros (Hopts & HF & _) Hfind.
  destruct (find_opt_nth _ _ _ Hfind) as (od & Hod).
  destruct (Forall2_nth _ _ _ _ _ HF Hod) as (vs & Hvs & Hval & Hocc).
  exists od, vs. do 4 (split; [assumption|]).
  intros E. unfold opt_vals. rewrite name_from_str_ok. cbn [obind]. rewrite Hopts, Hfind, Hvs. reflexivity.
Qed.


Lemma opt_str_of_vals {E} m nm vs : @opt_vals E m nm = Ok vs -> @opt_str E m nm = Ok (first_str vs).
Proof.
  intros H. unfold opt_str, opt_val. rewrite H. cbn [obind].
  destruct vs as [|[p [s|]] vs]; reflexivity.
Qed.

Lemma opt_present_of_vals {E} m nm vs :
  @opt_vals E m nm = Ok vs -> @opt_present E m nm = Ok (match vs with [] => false | _ => true end).
Proof. intros H. unfold opt_present. rewrite H. cbn [obind]. destruct vs; reflexivity. Qed.

(** [opt_str(nm).unwrap()] of a required option taking an argument *)
Lemma first_str_req P od vs :
  Forall (val_ok P od) vs -> occ_ok od vs -> o_hasarg od = Yes -> o_occur od = Req ->
  exists p s, vs = [(p, Val s)] /\ P s.
Proof.
  intros Hv [Hreq Hone] Hy Hr.
  destruct vs as [|[p ov] vs]; [exfalso; now apply Hreq|].
  destruct vs as [|pv2 vs]; [|exfalso; assert (Hm : o_occur od <> Multi) by (rewrite Hr; discriminate);
                               specialize (Hone Hm); cbn [length] in Hone; lia].
  inversion Hv as [|? ? Hv1 _]; subst. unfold val_ok in Hv1. cbn [snd] in Hv1.
  destruct ov as [s|]; [|contradiction]. now exists p, s.
Qed.

Lemma infile_of_eq m :
  infile_of m = match m_free m with [] => Ok None | [f] => Ok (Some f) | _ :: _ :: _ => Err InvalidUsage end.
Proof. unfold infile_of, free0. destruct (m_free m) as [|f [|g r]]; reflexivity. Qed.

Lemma slice_args_eq {E} args idx : @slice_args E args idx = Ok (skipn idx args).
Proof.
  unfold slice_args. destruct (idx <? length args)%nat eqn:E1.
  - replace (idx <=? length args)%nat with true by lia. reflexivity.
  - rewrite skipn_all2 by lia. reflexivity.
Qed.

(** the concrete option sets *)

Lemma encrypt_options_eq : encrypt_options = Ok enc_o.  Proof. reflexivity. Qed.
Lemma decrypt_options_eq : decrypt_options = Ok dec_o.  Proof. reflexivity. Qed.
Lemma gen_options_eq : gen_options = Ok gen_o.          Proof. reflexivity. Qed.
Lemma envpass_options_eq : envpass_options = Ok env_o.  Proof. reflexivity. Qed.
Lemma pass_options_eq : pass_options = Ok gen_o.        Proof. reflexivity. Qed.
Lemma enc_opts_eq : @map_m fail _ _ long_to_short (grps enc_o) = Ok enc_opts.  Proof. reflexivity. Qed.
Lemma dec_opts_eq : @map_m fail _ _ long_to_short (grps dec_o) = Ok dec_opts.  Proof. reflexivity. Qed.
Lemma gen_opts_eq : @map_m fail _ _ long_to_short (grps gen_o) = Ok gen_opts.  Proof. reflexivity. Qed.
Lemma env_opts_eq : @map_m fail _ _ long_to_short (grps env_o) = Ok env_opts.  Proof. reflexivity. Qed.

Lemma first_str_P P od vs s : Forall (val_ok P od) vs -> first_str vs = Some s -> P s.
Proof.
  intros Hv Hs. destruct vs as [|[p [s'|]] vs]; try discriminate. injection Hs as ->.
  inversion Hv as [|? ? Hv1 _]; subst. exact Hv1.
Qed.

Ltac lookup Hm nm id od vs Hval Hocc Hvals :=
  let Hod := fresh "Hod" in
  destruct (minv_lookup _ _ _ _ nm id Hm eq_refl) as (od & vs & Hod & _ & Hval & Hocc & Hvals);
  vm_compute in Hod; injection Hod as <-.

(** What a parser may return: no panic, and every text of the result comes from the arguments
    (P for option values, Q for free arguments). *)
Lemma parse_decrypt_inv P Q args :
  Forall (arg_ok P Q dec_o dec_opts) args ->
  match parse_decrypt args with
  | Ok d => P (d_to d) /\ (forall f, d_infile d = Some f -> Q f)
            /\ (forall s, d_outfile d = Some s -> P s) /\ (forall s, d_keyring d = Some s -> P s)
  | Err _ => True
  | _ => False
  end.
Proof.
  intros Ha. unfold parse_decrypt. rewrite decrypt_options_eq. cbn [obind].
  pose proof (parse_inv P Q dec_o dec_opts args dec_opts_eq Ha) as Hm.
  destruct (parse dec_o args) as [m| | |]; cbn [omap_err obind]; [|exact I|contradiction|contradiction].
  lookup Hm s_t 0%nat od0 vs0 Hval0 Hocc0 Hvals0.
  lookup Hm s_o 1%nat od1 vs1 Hval1 Hocc1 Hvals1.
  lookup Hm s_k 2%nat od2 vs2 Hval2 Hocc2 Hvals2.
  lookup Hm s_env_pass 3%nat od3 vs3 Hval3 Hocc3 Hvals3.
  destruct (first_str_req P _ vs0 Hval0 Hocc0 eq_refl eq_refl) as (p0 & s0 & -> & HP0).
  rewrite (opt_str_of_vals _ _ _ (Hvals0 _)), (opt_str_of_vals _ _ _ (Hvals1 _)),
    (opt_str_of_vals _ _ _ (Hvals2 _)), (opt_present_of_vals _ _ _ (Hvals3 _)).
  rewrite infile_of_eq. destruct Hm as (_ & _ & HQ).
  destruct (m_free m) as [|f [|g r]]; cbn [obind first_str unwrap d_to d_infile d_outfile d_keyring];
    [| |exact I].
  - split; [assumption|]. split; [discriminate|]. split; intros s Hs; refine (first_str_P P _ _ s _ Hs); eassumption.
  - inversion HQ as [|? ? HQf _]; subst.
    split; [assumption|]. split; [intros f0 [= <-]; assumption|].
    split; intros s Hs; refine (first_str_P P _ _ s _ Hs); eassumption.
Qed.

Lemma parse_encrypt_inv P Q args :
  Forall (arg_ok P Q enc_o enc_opts) args ->
  match parse_encrypt args with
  | Ok d => P (e_to d) /\ P (e_from d) /\ (forall f, e_infile d = Some f -> Q f)
            /\ (forall s, e_outfile d = Some s -> P s) /\ (forall s, e_keyring d = Some s -> P s)
  | Err _ => True
  | _ => False
  end.
Proof.
  intros Ha. unfold parse_encrypt. rewrite encrypt_options_eq. cbn [obind].
  pose proof (parse_inv P Q enc_o enc_opts args enc_opts_eq Ha) as Hm.
  destruct (parse enc_o args) as [m| | |]; cbn [omap_err obind]; [|exact I|contradiction|contradiction].
  lookup Hm s_t 0%nat od0 vs0 Hval0 Hocc0 Hvals0.
  lookup Hm s_f 1%nat odf vsf Hvalf Hoccf Hvalsf.
  lookup Hm s_o 2%nat od1 vs1 Hval1 Hocc1 Hvals1.
  lookup Hm s_k 3%nat od2 vs2 Hval2 Hocc2 Hvals2.
  lookup Hm s_env_pass 4%nat od3 vs3 Hval3 Hocc3 Hvals3.
  destruct (first_str_req P _ vs0 Hval0 Hocc0 eq_refl eq_refl) as (p0 & s0 & -> & HP0).
  destruct (first_str_req P _ vsf Hvalf Hoccf eq_refl eq_refl) as (pf & sf & -> & HPf).
  rewrite (opt_str_of_vals _ _ _ (Hvals0 _)), (opt_str_of_vals _ _ _ (Hvalsf _)),
    (opt_str_of_vals _ _ _ (Hvals1 _)),
    (opt_str_of_vals _ _ _ (Hvals2 _)), (opt_present_of_vals _ _ _ (Hvals3 _)).
  rewrite infile_of_eq. destruct Hm as (_ & _ & HQ).
  destruct (m_free m) as [|f [|g r]];
    cbn [obind first_str unwrap e_to e_from e_infile e_outfile e_keyring]; [| |exact I].
  - split; [assumption|]. split; [assumption|]. split; [discriminate|].
    split; intros s Hs; refine (first_str_P P _ _ s _ Hs); eassumption.
  - inversion HQ as [|? ? HQf _]; subst.
    split; [assumption|]. split; [assumption|]. split; [intros f0 [= <-]; assumption|].
    split; intros s Hs; refine (first_str_P P _ _ s _ Hs); eassumption.
Qed.

Lemma parse_pass_common_inv P Q args :
  Forall (arg_ok P Q gen_o gen_opts) args ->
  match parse_pass_common args with
  | Ok d => (forall f, p_infile d = Some f -> Q f) /\ (forall s, p_outfile d = Some s -> P s)
  | Err _ => True
  | _ => False
  end.
Proof.
  intros Ha. unfold parse_pass_common. rewrite pass_options_eq. cbn [obind].
  pose proof (parse_inv P Q gen_o gen_opts args gen_opts_eq Ha) as Hm.
  destruct (parse gen_o args) as [m| | |]; cbn [omap_err obind]; [|exact I|contradiction|contradiction].
  lookup Hm s_o 0%nat od1 vs1 Hval1 Hocc1 Hvals1.
  lookup Hm s_env_pass 1%nat od3 vs3 Hval3 Hocc3 Hvals3.
  rewrite (opt_str_of_vals _ _ _ (Hvals1 _)), (opt_present_of_vals _ _ _ (Hvals3 _)).
  rewrite infile_of_eq. destruct Hm as (_ & _ & HQ).
  destruct (m_free m) as [|f [|g r]]; cbn [obind p_infile p_outfile]; [| |exact I].
  - split; [discriminate|]. intros s Hs; refine (first_str_P P _ _ s _ Hs); eassumption.
  - inversion HQ as [|? ? HQf _]; subst.
    split; [intros f0 [= <-]; assumption|]. intros s Hs; refine (first_str_P P _ _ s _ Hs); eassumption.
Qed.

Lemma parse_password_normal args : normal (parse_password args).
Proof.
  unfold parse_password. destruct args as [|a0 args]; [exact I|].
  assert (Hc : forall l, normal (parse_pass_common l)).
  { intros l. pose proof (parse_pass_common_inv (fun _ => True) (fun _ => True) l) as H.
    destruct (parse_pass_common l); cbn [normal]; auto; apply H;
      apply Forall_forall; intros a _; apply arg_ok_trivial. }
  destruct (text_eqb a0 s_encrypt || text_eqb a0 s_enc).
  { rewrite slice_args_eq. cbn [obind]. unfold parse_pass_encrypt.
    specialize (Hc (skipn 1 (a0 :: args))). destruct (parse_pass_common _); cbn [obind normal] in *; auto. }
  destruct (text_eqb a0 s_decrypt || text_eqb a0 s_dec); [|exact I].
  rewrite slice_args_eq. cbn [obind]. unfold parse_pass_decrypt.
  specialize (Hc (skipn 1 (a0 :: args))). destruct (parse_pass_common _); cbn [obind normal] in *; auto.
Qed.

Lemma parse_key_arg_inv P Q args :
  Forall (arg_ok P Q env_o env_opts) (skipn 1 args) ->
  match parse_key_arg args with
  | Ok r => Q (fst r)
  | Err _ => True
  | _ => False
  end.
Proof.
  intros Ha. unfold parse_key_arg. rewrite envpass_options_eq. cbn [obind].
  rewrite slice_args_eq. cbn [obind].
  pose proof (parse_inv P Q env_o env_opts _ env_opts_eq Ha) as Hm.
  destruct (parse env_o (skipn 1 args)) as [m| | |]; cbn [omap_err obind]; [|exact I|contradiction|contradiction].
  lookup Hm s_env_pass 0%nat od3 vs3 Hval3 Hocc3 Hvals3.
  rewrite (opt_present_of_vals _ _ _ (Hvals3 _)). cbn [obind]. destruct Hm as (_ & _ & HQ).
  unfold free0. destruct (m_free m) as [|f [|g r]]; cbn [length Nat.eqb negb nth_error obind fst]; auto.
  inversion HQ; assumption.
Qed.

Lemma parse_key_gen_inv P Q args :
  Forall (arg_ok P Q gen_o gen_opts) args ->
  match obind (omap_err plain_fail (parse gen_o args)) (fun m =>
        obind (opt_str m s_o) (fun outfile =>
        obind (opt_present m s_env_pass) (fun env_pass => Ok (Generate outfile env_pass)))) with
  | Ok (Generate outfile _) => forall s, outfile = Some s -> P s
  | Ok _ => False
  | Err _ => True
  | _ => False
  end.
Proof.
  intros Ha.
  pose proof (parse_inv P Q gen_o gen_opts args gen_opts_eq Ha) as Hm.
  destruct (parse gen_o args) as [m| | |]; cbn [omap_err obind]; [|exact I|contradiction|contradiction].
  lookup Hm s_o 0%nat od1 vs1 Hval1 Hocc1 Hvals1.
  lookup Hm s_env_pass 1%nat od3 vs3 Hval3 Hocc3 Hvals3.
  rewrite (opt_str_of_vals _ _ _ (Hvals1 _)), (opt_present_of_vals _ _ _ (Hvals3 _)). cbn [obind].
  intros s Hs; refine (first_str_P P _ _ s _ Hs); eassumption.
Qed.

Lemma all_args_ok o opts args : Forall (arg_ok (fun _ => True) (fun _ => True) o opts) args.
Proof. apply Forall_forall; intros a _; apply arg_ok_trivial. Qed.

Lemma parse_key_normal args : normal (parse_key args).
Proof.
  unfold parse_key. destruct args as [|a0 args]; [exact I|].
  destruct (text_eqb a0 s_gen || text_eqb a0 s_generate).
  { rewrite gen_options_eq. cbn [obind]. rewrite slice_args_eq. cbn [obind].
    pose proof (parse_key_gen_inv (fun _ => True) (fun _ => True) _ (all_args_ok gen_o gen_opts (skipn 1 (a0 :: args)))) as H.
    destruct (obind (omap_err plain_fail (parse gen_o (skipn 1 (a0 :: args)))) _) as [[]| | |]; cbn [normal]; auto. }
  assert (Hk : normal (parse_key_arg (a0 :: args))).
  { pose proof (parse_key_arg_inv (fun _ => True) (fun _ => True) (a0 :: args) (all_args_ok _ _ _)) as H.
    destruct (parse_key_arg (a0 :: args)); cbn [normal]; auto. }
  destruct (text_eqb a0 s_change_pass).
  { destruct (parse_key_arg (a0 :: args)); cbn [obind normal] in *; auto. }
  destruct (text_eqb a0 s_extract_pub); [|exact I].
  destruct (parse_key_arg (a0 :: args)); cbn [obind normal] in *; auto.
Qed.

Lemma parse_encrypt_normal args : normal (parse_encrypt args).
Proof.
  pose proof (parse_encrypt_inv (fun _ => True) (fun _ => True) args (all_args_ok _ _ _)) as H.
  destruct (parse_encrypt args); cbn [normal]; auto.
Qed.
Lemma parse_decrypt_normal args : normal (parse_decrypt args).
Proof.
  pose proof (parse_decrypt_inv (fun _ => True) (fun _ => True) args (all_args_ok _ _ _)) as H.
  destruct (parse_decrypt args); cbn [normal]; auto.
Qed.

Lemma run_parser_ok {A} (r : outcome usage_msg A) k : normal r -> exists c, run_parser r k = Ok c.
Proof. destruct r; cbn [normal run_parser]; intros H; try contradiction; eexists; reflexivity. Qed.

(** THE NO-CRASH PROPERTY, argument-vector half: whatever argument vector the tool is started with,
    argument parsing ends with a command (help, version, a fully parsed sub-command, or a usage error):
    no panic, no fuel exhaustion, no other error. *)
Theorem cli_parse_no_panic : forall argv, exists c, cli_parse argv = Ok c.
Proof.
  intros argv. unfold cli_parse.
  destruct ((length argv <=? 1)%nat || contains argv s_help_long || contains argv s_help_short) eqn:Hh;
    [now exists CHelp|].
  rewrite !orb_false_iff in Hh. destruct Hh as [[Hlen _] _].
  destruct argv as [|prog [|a1 rest]]; try (cbn [length] in Hlen; lia). cbn [nth_error].
  unfold dispatch.
  destruct (_ || _); [now eexists|].
  destruct (_ || _); [now eexists|].
  destruct (_ || _).
  { apply run_parser_ok. rewrite slice_args_eq. cbn [obind]. apply parse_encrypt_normal. }
  destruct (_ || _).
  { apply run_parser_ok. rewrite slice_args_eq. cbn [obind]. apply parse_decrypt_normal. }
  destruct (text_eqb a1 s_key).
  { apply run_parser_ok. rewrite slice_args_eq. cbn [obind]. apply parse_key_normal. }
  destruct (_ || _); [|now eexists].
  apply run_parser_ok. rewrite slice_args_eq. cbn [obind]. apply parse_password_normal.
Qed.

(* ====================================================================================== *)
(** * 4. Command aliases                                                                   *)
(* ====================================================================================== *)

(* evaluate the comparisons of two constant texts *)
Ltac ev_teq := repeat match goal with |- context [text_eqb ?a ?b] =>
  let v := eval vm_compute in (text_eqb a b) in
  match v with
  | true => change (text_eqb a b) with true
  | false => change (text_eqb a b) with false
  end end.

Ltac alias_top :=
  intros; unfold cli_parse, contains, dispatch; cbn [length Nat.leb orb existsb nth_error]; ev_teq;
  cbn [orb]; rewrite ?slice_args_eq; cbn [skipn]; reflexivity.

Theorem alias_enc prog rest : cli_parse (prog :: s_enc :: rest) = cli_parse (prog :: s_encrypt :: rest).
Proof. alias_top. Qed.
Theorem alias_dec prog rest : cli_parse (prog :: s_dec :: rest) = cli_parse (prog :: s_decrypt :: rest).
Proof. alias_top. Qed.
Theorem alias_pass prog rest : cli_parse (prog :: s_pass :: rest) = cli_parse (prog :: s_password :: rest).
Proof. alias_top. Qed.

Ltac alias_sub :=
  intros; unfold cli_parse, contains, dispatch; cbn [length Nat.leb orb existsb nth_error]; ev_teq;
  cbn [orb]; rewrite !slice_args_eq; cbn [skipn obind];
  unfold parse_key, parse_password; cbv beta iota; ev_teq; cbn [orb]; rewrite ?gen_options_eq; cbn [obind];
  rewrite !slice_args_eq; cbn [skipn]; reflexivity.

Theorem alias_key_gen prog rest :
  cli_parse (prog :: s_key :: s_gen :: rest) = cli_parse (prog :: s_key :: s_generate :: rest).
Proof. alias_sub. Qed.
Theorem alias_pass_enc prog rest :
  cli_parse (prog :: s_password :: s_enc :: rest) = cli_parse (prog :: s_password :: s_encrypt :: rest).
Proof. alias_sub. Qed.
Theorem alias_pass_dec prog rest :
  cli_parse (prog :: s_password :: s_dec :: rest) = cli_parse (prog :: s_password :: s_decrypt :: rest).
Proof. alias_sub. Qed.
(* with [alias_pass]: "pass enc", "pass encrypt", "password enc", "password encrypt" all agree *)

(** -h / --help as the command, -v / --version *)
Theorem alias_version prog rest :
  cli_parse (prog :: s_version_short :: rest) = cli_parse (prog :: s_version_long :: rest).
Proof. alias_top. Qed.

(* ====================================================================================== *)
(** * 5. Spelling independence                                                             *)
(* ====================================================================================== *)

(** ** 5.1 The general getopts lemma (long_only, FloatingFrees)

    A well-formed invocation is a list of ITEMS: an option without value ([GFlag]), an option with its
    value in the next argument ([GSep]) or inline after '=' ([GEq]), each written with one or two
    dashes and with ANY name [nm] that [find_opt] resolves (short or long), or a free argument.
    [render] writes an item as command-line arguments.  [item_abs] abstracts an item to what it means:
    the INDEX of the option and the value — the spelling (which name, how many dashes, '=' or
    separate) is forgotten.  The result of [parse] only depends on the abstraction. *)








Lemma push_at_tot : forall vals i x, (i < length vals)%nat -> push_at vals i x = Some (push_tot vals i x).
Proof.
  induction vals as [|v r IH]; intros i x Hi; cbn [length] in Hi; [lia|].
  destruct i as [|i]; cbn [push_at push_tot]; [reflexivity|]. rewrite IH by lia. reflexivity.
Qed.
Lemma push_tot_length : forall vals i x, length (push_tot vals i x) = length vals.
Proof.
  induction vals as [|v r IH]; intros i x; [reflexivity|].
  destruct i; cbn [push_tot length]; [reflexivity|]. now rewrite IH.
Qed.
Lemma push_val_tot {E} vals i x : (i < length vals)%nat -> @push_val E vals i x = Ok (push_tot vals i x).
Proof. intros H. unfold push_val. now rewrite push_at_tot. Qed.

(** how an option item is decoded *)
Lemma decode_item o opts dd nm (suffix : text) :
  long_only o = true -> name_ok nm -> suffix = [] \/ (exists v, suffix = c_eq :: v) ->
  is_arg (dashes dd ++ nm ++ suffix) = true
  /\ text_eqb (dashes dd ++ nm ++ suffix) s_dashdash = false
  /\ decode_arg o opts (dashes dd ++ nm ++ suffix)
     = Ok (true, [nfs nm], match suffix with [] => None | _ :: v => Some v end).
Proof.
  intros Hl (Hne & Heq & Hhd) Hs.
  destruct nm as [|n1 nr]; [congruence|]. cbn [hd] in Hhd.
  assert (Hsplit : split_once_eq ((n1 :: nr) ++ suffix)
                   = match suffix with [] => None | _ :: v => Some (n1 :: nr, v) end).
  { destruct Hs as [->|(v & ->)].
    - rewrite app_nil_r. now apply split_once_eq_none.
    - now apply split_once_eq_app. }
  assert (Htail : forall tail, tail = (n1 :: nr) ++ suffix ->
            match split_once_eq tail with
            | None => Ok (true, [nfs tail], None)
            | Some (a, b) => Ok (true, [nfs a], Some b)
            end = (Ok (true, [nfs (n1 :: nr)], match suffix with [] => None | _ :: v => Some v end)
                   : outcome fail (bool * list name * option text))).
  { intros tail ->. rewrite Hsplit. destruct Hs as [->|(v & ->)]; [rewrite app_nil_r|]; reflexivity. }
  destruct dd; cbn [dashes app].
  - split; [rewrite is_arg_cons, N.eqb_refl; reflexivity|]. split.
    + cbn [text_eqb s_dashdash]. rewrite !N.eqb_refl. reflexivity.
    + change (45 :: 45 :: n1 :: nr ++ suffix) with (c_dash :: c_dash :: (n1 :: nr) ++ suffix).
      rewrite decode_arg_long by assumption. unfold long_tail. rewrite N.eqb_refl. now apply Htail.
  - split; [rewrite is_arg_cons, N.eqb_refl; reflexivity|]. split.
    + cbn [text_eqb s_dashdash]. rewrite N.eqb_refl.
      destruct (N.eqb_spec n1 45) as [->|Hn]; [exfalso; now apply Hhd|]. reflexivity.
    + change (45 :: n1 :: nr ++ suffix) with (c_dash :: n1 :: nr ++ suffix).
      rewrite decode_arg_long by assumption. unfold long_tail.
      destruct (N.eqb_spec n1 c_dash) as [->|Hn]; [exfalso; now apply Hhd|]. now apply Htail.
Qed.

(** The main loop on a rendered item list *)
Lemma parse_loop_items o opts :
  long_only o = true -> style o = FloatingFrees ->
  forall its aits, Forall2 (item_abs opts) its aits ->
  forall fuel vals free pos,
  length vals = length opts -> (length (render_all its) <= fuel)%nat ->
  parse_loop fuel o opts vals free (render_all its) pos = Ok (apply_items aits vals free pos).
Proof.
  intros Hl Hst its aits HF.
  induction HF as [|it ait its aits Hit HF IH]; intros fuel vals free pos Hlen Hfuel.
  - destruct fuel; reflexivity.
  - unfold render_all in *. cbn [flat_map] in *. fold (render_all its) in *.
    inversion Hit as [dd nm id od Hnm Hfind Hod Hha | dd nm v id od Hnm Hfind Hod Hha
                     | dd nm v id od Hnm Hfind Hod Hha | f Hf]; subst; cbn [render app] in *.
    + (* flag *)
      destruct (decode_item o opts dd nm [] Hl Hnm (or_introl eq_refl)) as (Ha & Hdd & Hdec).
      rewrite app_nil_r in *. cbn [length] in Hfuel. destruct fuel as [|fuel]; [lia|].
      cbn [parse_loop]. rewrite Ha, Hdd, Hdec. cbn [negb obind length names_loop]. rewrite Hfind, Hod.
      assert (Hid : (id < length vals)%nat) by (rewrite Hlen; eapply find_opt_lt; eassumption).
      destruct (o_hasarg od) eqn:Hho; [congruence| |]; cbn [Nat.eqb is_some andb orb];
        rewrite push_val_tot by assumption; cbn [obind names_loop fst snd apply_items];
        apply IH; [now rewrite push_tot_length|lia|now rewrite push_tot_length|lia].
    + (* separate value *)
      destruct (decode_item o opts dd nm [] Hl Hnm (or_introl eq_refl)) as (Ha & Hdd & Hdec).
      rewrite app_nil_r in *. cbn [length] in Hfuel. destruct fuel as [|fuel]; [lia|].
      cbn [parse_loop]. rewrite Ha, Hdd, Hdec. cbn [negb obind length names_loop]. rewrite Hfind, Hod, Hha.
      assert (Hid : (id < length vals)%nat) by (rewrite Hlen; eapply find_opt_lt; eassumption).
      rewrite push_val_tot by assumption. cbn [obind names_loop fst snd apply_items].
      apply IH; [now rewrite push_tot_length|lia].
    + (* inline value *)
      destruct (decode_item o opts dd nm (c_eq :: v) Hl Hnm (or_intror (ex_intro _ v eq_refl)))
        as (Ha & Hdd & Hdec).
      cbn [length] in Hfuel. destruct fuel as [|fuel]; [lia|].
      cbn [parse_loop]. rewrite Ha, Hdd, Hdec. cbn [negb obind length names_loop]. rewrite Hfind, Hod.
      assert (Hid : (id < length vals)%nat) by (rewrite Hlen; eapply find_opt_lt; eassumption).
      destruct (o_hasarg od) eqn:Hho; [|congruence|];
        rewrite push_val_tot by assumption; cbn [obind names_loop fst snd apply_items];
        apply IH; [now rewrite push_tot_length|lia|now rewrite push_tot_length|lia].
    + (* free *)
      cbn [length] in Hfuel. destruct fuel as [|fuel]; [lia|].
      cbn [parse_loop]. rewrite Hf, Hst. cbn [negb apply_items]. apply IH; [assumption|lia].
Qed.

(** [apply_items] in closed form: option [i] receives, in order, the values of the items with index [i] *)

Lemma add_sel_skip its pos id ov : forall vals k, (id < k)%nat ->
  add_sel (AOpt id ov :: its) pos k vals = add_sel its (S pos) k vals.
Proof.
  induction vals as [|v r IH]; intros k Hk; cbn [add_sel sel]; [reflexivity|].
  replace (id =? k)%nat with false by lia. cbn [app]. rewrite IH by lia. reflexivity.
Qed.

Lemma add_sel_push its pos ov : forall vals k id,
  add_sel its (S pos) k (push_tot vals id (pos, ov)) = add_sel (AOpt (k + id) ov :: its) pos k vals.
Proof.
  induction vals as [|v r IH]; intros k id; [reflexivity|].
  destruct id as [|id]; cbn [push_tot add_sel sel].
  - replace (k + 0 =? k)%nat with true by lia. rewrite <- app_assoc. cbn [app].
    rewrite add_sel_skip by lia. reflexivity.
  - replace (k + S id =? k)%nat with false by lia. cbn [app]. rewrite IH.
    replace (S k + id)%nat with (k + S id)%nat by lia. reflexivity.
Qed.

Lemma add_sel_free its pos f : forall vals k,
  add_sel (AFree f :: its) pos k vals = add_sel its (S pos) k vals.
Proof. induction vals as [|v r IH]; intros k; cbn [add_sel sel]; [reflexivity|]. now rewrite IH. Qed.

Lemma apply_items_eq : forall its vals free pos,
  apply_items its vals free pos = (add_sel its pos 0 vals, free ++ frees its).
Proof.
  induction its as [|[id ov|f] its IH]; intros vals free pos; cbn [apply_items frees].
  - rewrite app_nil_r. f_equal. clear. generalize 0%nat.
    induction vals as [|v r IHv]; intros k; cbn [add_sel sel]; [reflexivity|]. now rewrite app_nil_r, <- IHv.
  - rewrite IH. f_equal. apply (add_sel_push its pos ov vals 0%nat id).
  - rewrite IH, add_sel_free, <- app_assoc. reflexivity.
Qed.

Lemma add_sel_length its pos : forall vals k, length (add_sel its pos k vals) = length vals.
Proof. induction vals as [|v r IH]; intros k; cbn [add_sel length]; [reflexivity|]. now rewrite IH. Qed.

(** [parse] on a rendered item list *)

Theorem parse_items o opts its aits :
  long_only o = true -> style o = FloatingFrees ->
  @map_m fail _ _ long_to_short (grps o) = Ok opts ->
  Forall2 (item_abs opts) its aits ->
  parse o (render_all its) = parse_abs opts aits.
Proof.
  intros Hl Hst Hopts HF. unfold parse, parse_abs. rewrite Hopts. cbn [obind].
  rewrite (parse_loop_items o opts Hl Hst its aits HF) by (rewrite ?map_length; auto).
  cbn [obind]. rewrite apply_items_eq. cbn [app].
  rewrite add_sel_length, map_length, Nat.eqb_refl. reflexivity.
Qed.

(** GENERAL SPELLING LEMMA.  Two well-formed invocations whose items have, position by position, the same
    meaning — the same option (however it is named: any name [find_opt] resolves to it, with one dash or
    two) with the same value (in the next argument or after '='), or the same free argument — are
    parsed to the same result: the same [Matches] (values, positions, free arguments) or the same
    [Fail]. *)
Theorem parse_spelling o opts its1 its2 aits :
  long_only o = true -> style o = FloatingFrees ->
  @map_m fail _ _ long_to_short (grps o) = Ok opts ->
  Forall2 (item_abs opts) its1 aits -> Forall2 (item_abs opts) its2 aits ->
  parse o (render_all its1) = parse o (render_all its2).
Proof.
  intros Hl Hst Hopts H1 H2.
  rewrite (parse_items o opts its1 aits), (parse_items o opts its2 aits); auto.
Qed.

(** the values recorded for option [id], without the positions *)

Lemma sel_snd id : forall aits pos, map snd (sel id aits pos) = vals_of id aits.
Proof.
  induction aits as [|[i ov|f] aits IH]; intros pos; cbn [sel vals_of flat_map]; [reflexivity| |apply IH].
  rewrite map_app, IH. destruct (i =? id)%nat; reflexivity.
Qed.
Lemma sel_length id aits pos : length (sel id aits pos) = length (vals_of id aits).
Proof. now rewrite <- (sel_snd id aits pos), map_length. Qed.
Lemma first_str_snd vs : first_str vs = match map snd vs with Val s :: _ => Some s | _ => None end.
Proof. destruct vs as [|[p [s|]] vs]; reflexivity. Qed.

(** ** 5.2 kestrel decrypt: every spelling, every order

    [ditem]: one element of a well-formed [kestrel decrypt] invocation, with its spelling:
    [long] = the long name (to/output/keyring) rather than the short one (t/o/k), [dd] = two dashes rather
    than one, [eq] = value after '=' rather than in the next argument.  All 8 spellings of each valued
    option are accepted by getopts 0.2.21 under long_only ("-t V", "--t V", "-to V", "--to V", "-t=V",
    "--t=V", "-to=V", "--to=V"); "-tV" is NOT (it is the unknown long option "tV").
    [dkind]: its meaning. *)








Lemma name_ok_const nm : nm <> [] -> existsb (fun c => c =? c_eq) nm = false -> negb (hd 0 nm =? c_dash) = true ->
  name_ok nm.
Proof.
  intros H1 H2 H3. split; [assumption|]. split.
  - intros Hin. assert (Ht : existsb (fun c => c =? c_eq) nm = true); [|congruence].
    apply existsb_exists. exists c_eq. split; [assumption|apply N.eqb_refl].
  - intros Hh. rewrite Hh, N.eqb_refl in H3. discriminate.
Qed.
Ltac name_ok_tac := apply name_ok_const; [discriminate|reflexivity|reflexivity].

Lemma d_item_abs it : ditem_ok it -> item_abs dec_opts (d2g it) (d2a (dmean it)).
Proof.
  destruct it as [l d e v|l d e v|l d e v|d|f]; intros Hok; cbn [d2g dmean d2a]; unfold opt_item.
  - destruct e, l; [eapply IA_eq|eapply IA_eq|eapply IA_sep|eapply IA_sep];
      try name_ok_tac; try reflexivity; try discriminate.
  - destruct e, l; [eapply IA_eq|eapply IA_eq|eapply IA_sep|eapply IA_sep];
      try name_ok_tac; try reflexivity; try discriminate.
  - destruct e, l; [eapply IA_eq|eapply IA_eq|eapply IA_sep|eapply IA_sep];
      try name_ok_tac; try reflexivity; try discriminate.
  - eapply IA_flag; try name_ok_tac; try reflexivity; try discriminate.
  - apply IA_free. exact Hok.
Qed.

Lemma d_items_abs its :
  Forall ditem_ok its -> Forall2 (item_abs dec_opts) (map d2g its) (map d2a (map dmean its)).
Proof.
  induction its as [|it its IH]; intros H; cbn [map]; [constructor|].
  inversion H as [|? ? H1 H2]; subst. constructor; [now apply d_item_abs | now apply IH].
Qed.

(** the meaning of a whole invocation: what [parse_decrypt] returns *)



Lemma vals_of_d ks :
  vals_of 0 (map d2a ks) = map Val (tos ks) /\ vals_of 1 (map d2a ks) = map Val (outs ks)
  /\ vals_of 2 (map d2a ks) = map Val (keyrings ks) /\ vals_of 3 (map d2a ks) = map (fun _ => Given) (envs ks)
  /\ frees (map d2a ks) = files ks.
Proof.
  induction ks as [|k ks (I0 & I1 & I2 & I3 & I4)]; [repeat split|].
  unfold vals_of, tos, outs, keyrings, envs, files in *.
  destruct k; cbn [map flat_map d2a Nat.eqb app frees]; rewrite ?I0, ?I1, ?I2, ?I3, ?I4; repeat split.
Qed.

Lemma check_occur_dec s0 s1 s2 s3 :
  check_occur [s0; s1; s2; s3] dec_opts =
  if (length s0 =? 0)%nat then Err (OptionMissing s_to)
  else if (1 <? length s0)%nat then Err (OptionDuplicated s_to)
  else if (1 <? length s1)%nat then Err (OptionDuplicated s_output)
  else if (1 <? length s2)%nat then Err (OptionDuplicated s_keyring)
  else if (1 <? length s3)%nat then Err (OptionDuplicated s_env_pass)
  else Ok tt.
Proof. reflexivity. Qed.

Lemma opt_vals_dec {E} s0 s1 s2 s3 free :
  let m := mk_matches dec_opts [s0; s1; s2; s3] free in
  @opt_vals E m s_t = Ok s0 /\ @opt_vals E m s_o = Ok s1 /\ @opt_vals E m s_k = Ok s2
  /\ @opt_vals E m s_env_pass = Ok s3.
Proof. repeat split. Qed.

Lemma hd_error_map_Val (l : list text) :
  match map Val l with Val s :: _ => Some s | _ => None end = hd_error l.
Proof. destruct l; reflexivity. Qed.

(** CHARACTERISATION of [parse_decrypt] on well-formed invocations: the result is [dsem] of the meanings —
    whatever the spelling of each item. *)
Theorem parse_decrypt_items its :
  Forall ditem_ok its -> parse_decrypt (drender its) = dsem (map dmean its).
Proof.
  intros Hok. unfold parse_decrypt, drender. rewrite decrypt_options_eq. cbn [obind].
  rewrite (parse_items dec_o dec_opts _ _ eq_refl eq_refl dec_opts_eq (d_items_abs its Hok)).
  set (ks := map dmean its). unfold parse_abs.
  change (add_sel (map d2a ks) 0 0 (map (fun _ => []) dec_opts))
    with [sel 0 (map d2a ks) 0; sel 1 (map d2a ks) 0; sel 2 (map d2a ks) 0; sel 3 (map d2a ks) 0].
  rewrite check_occur_dec, !sel_length.
  destruct (vals_of_d ks) as (V0 & V1 & V2 & V3 & V4). rewrite V0, V1, V2, V3, V4, !map_length.
  unfold dsem, dfail.
  destruct (length (tos ks) =? 0)%nat eqn:E0; [reflexivity|].
  destruct (1 <? length (tos ks))%nat eqn:E1; [reflexivity|].
  destruct (1 <? length (outs ks))%nat eqn:E2; [reflexivity|].
  destruct (1 <? length (keyrings ks))%nat eqn:E3; [reflexivity|].
  destruct (1 <? length (envs ks))%nat eqn:E4; [reflexivity|].
  cbn [obind omap_err].
  destruct (opt_vals_dec (E:=usage_msg) (sel 0 (map d2a ks) 0) (sel 1 (map d2a ks) 0) (sel 2 (map d2a ks) 0)
              (sel 3 (map d2a ks) 0) (files ks)) as (L0 & L1 & L2 & L3).
  rewrite (opt_str_of_vals _ _ _ L0), (opt_str_of_vals _ _ _ L1), (opt_str_of_vals _ _ _ L2),
    (opt_present_of_vals _ _ _ L3).
  rewrite infile_of_eq. cbn [m_free].
  rewrite !first_str_snd, !sel_snd, V0, V1, V2, !hd_error_map_Val.
  assert (Henv : match sel 3 (map d2a ks) 0 with [] => false | _ :: _ => true end
                 = negb (length (envs ks) =? 0)%nat).
  { pose proof (sel_length 3 (map d2a ks) 0) as Hl. rewrite V3, map_length in Hl.
    destruct (sel 3 (map d2a ks) 0); cbn [length] in Hl; rewrite <- Hl; reflexivity. }
  rewrite Henv.
  destruct (tos ks) as [|t [|t2 tr]]; cbn [length] in E0, E1; try discriminate.
  cbn [hd_error hd unwrap obind].
  destruct (files ks) as [|f [|g r]]; reflexivity.
Qed.

(** [dsem] does not depend on the order *)
Lemma perm_short {A} (l1 l2 : list A) : Permutation l1 l2 -> (length l1 <= 1)%nat -> l1 = l2.
Proof.
  intros Hp Hl. destruct l1 as [|a [|b r]]; cbn [length] in Hl; try lia.
  - now apply Permutation_nil in Hp.
  - now apply Permutation_length_1_inv in Hp.
Qed.

Lemma dsem_perm ks1 ks2 : Permutation ks1 ks2 -> dsem ks1 = dsem ks2.
Proof.
  intros Hp.
  assert (Ht : Permutation (tos ks1) (tos ks2)) by (apply Permutation_flat_map, Hp).
  assert (Ho : Permutation (outs ks1) (outs ks2)) by (apply Permutation_flat_map, Hp).
  assert (Hk : Permutation (keyrings ks1) (keyrings ks2)) by (apply Permutation_flat_map, Hp).
  assert (He : Permutation (envs ks1) (envs ks2)) by (apply Permutation_flat_map, Hp).
  assert (Hf : Permutation (files ks1) (files ks2)) by (apply Permutation_flat_map, Hp).
  unfold dsem.
  rewrite <- (Permutation_length Ht), <- (Permutation_length Ho), <- (Permutation_length Hk),
    <- (Permutation_length He), <- (Permutation_length Hf).
  destruct (length (tos ks1) =? 0)%nat eqn:E0; [reflexivity|].
  destruct (1 <? length (tos ks1))%nat eqn:E1; [reflexivity|].
  destruct (1 <? length (outs ks1))%nat eqn:E2; [reflexivity|].
  destruct (1 <? length (keyrings ks1))%nat eqn:E3; [reflexivity|].
  destruct (1 <? length (envs ks1))%nat eqn:E4; [reflexivity|].
  destruct (1 <? length (files ks1))%nat eqn:E5; [reflexivity|].
  rewrite <- (perm_short _ _ Ht), <- (perm_short _ _ Ho), <- (perm_short _ _ Hk), <- (perm_short _ _ Hf)
    by lia. reflexivity.
Qed.

(** SPELLING AND ORDER INDEPENDENCE of [kestrel decrypt].  Two well-formed invocations with the same
    items up to spelling (long/short name, one/two dashes, separate/'=' value), in ANY order, give the
    same result: the same [decrypt_opts] or the same usage error.  The option values are arbitrary texts
    (they may even start with '-'); only a FILE argument must not look like an option. *)
Theorem parse_decrypt_spelling its1 its2 :
  Forall ditem_ok its1 -> Forall ditem_ok its2 ->
  Permutation (map dmean its1) (map dmean its2) ->
  parse_decrypt (drender its1) = parse_decrypt (drender its2).
Proof.
  intros H1 H2 Hp. rewrite !parse_decrypt_items by assumption. now apply dsem_perm.
Qed.

(** The literal form: -t, -o, -k each in any of its 8 spellings, --env-pass with one or two dashes, a file,
    in every order, give the same options record. *)
Corollary parse_decrypt_all_forms l1 d1 e1 l2 d2 e2 l3 d3 e3 d4 t o k f its :
  is_arg f = false ->
  Permutation its [DTo l1 d1 e1 t; DOut l2 d2 e2 o; DKeyring l3 d3 e3 k; DEnvPass d4; DFile f] ->
  parse_decrypt (drender its) = Ok (mk_decrypt_opts (Some f) t (Some o) (Some k) true).
Proof.
  intros Hf Hp.
  assert (Hok : Forall ditem_ok [DTo l1 d1 e1 t; DOut l2 d2 e2 o; DKeyring l3 d3 e3 k; DEnvPass d4; DFile f]).
  { repeat constructor. exact Hf. }
  assert (Hok' : Forall ditem_ok its).
  { apply Forall_forall. intros it Hin. rewrite Forall_forall in Hok. apply Hok.
    eapply Permutation_in; eassumption. }
  rewrite (parse_decrypt_spelling its _ Hok' Hok (Permutation_map dmean Hp)).
  rewrite parse_decrypt_items by assumption. reflexivity.
Qed.

(** without --env-pass and without a file *)
Corollary parse_decrypt_all_forms_min l1 d1 e1 t :
  parse_decrypt (drender [DTo l1 d1 e1 t]) = Ok (mk_decrypt_opts None t None None false).
Proof. rewrite parse_decrypt_items by (repeat constructor). reflexivity. Qed.

(** The four spellings asked for, on the real argument vectors *)
Corollary parse_decrypt_to_spellings v rest_items :
  Forall ditem_ok rest_items ->
  let r := parse_decrypt ([c_dash :: c_dash :: s_to; v] ++ drender rest_items) in
  parse_decrypt ([c_dash :: s_t; v] ++ drender rest_items) = r
  /\ parse_decrypt ([c_dash :: c_dash :: s_to ++ c_eq :: v] ++ drender rest_items) = r
  /\ parse_decrypt ([c_dash :: s_t ++ c_eq :: v] ++ drender rest_items) = r.
Proof.
  intros Hok r. subst r.
  change ([c_dash :: c_dash :: s_to; v] ++ drender rest_items) with (drender (DTo true true false v :: rest_items)).
  change ([c_dash :: s_t; v] ++ drender rest_items) with (drender (DTo false false false v :: rest_items)).
  change ([c_dash :: c_dash :: s_to ++ c_eq :: v] ++ drender rest_items)
    with (drender (DTo true true true v :: rest_items)).
  change ([c_dash :: s_t ++ c_eq :: v] ++ drender rest_items) with (drender (DTo false false true v :: rest_items)).
  repeat split; apply parse_decrypt_spelling; try (constructor; [exact I|assumption]); reflexivity.
Qed.

(** ** 5.3 kestrel encrypt: every spelling, every order (same development, with -f/--from) *)






Lemma e_item_abs it : eitem_ok it -> item_abs enc_opts (e2g it) (e2a (emean it)).
Proof.
  destruct it as [l d e v|l d e v|l d e v|l d e v|d|f]; intros Hok; cbn [e2g emean e2a]; unfold opt_item.
  1-4: destruct e, l; [eapply IA_eq|eapply IA_eq|eapply IA_sep|eapply IA_sep];
      try name_ok_tac; try reflexivity; try discriminate.
  - eapply IA_flag; try name_ok_tac; try reflexivity; try discriminate.
  - apply IA_free. exact Hok.
Qed.

Lemma e_items_abs its :
  Forall eitem_ok its -> Forall2 (item_abs enc_opts) (map e2g its) (map e2a (map emean its)).
Proof.
  induction its as [|it its IH]; intros H; cbn [map]; [constructor|].
  inversion H as [|? ? H1 H2]; subst. constructor; [now apply e_item_abs | now apply IH].
Qed.




Lemma vals_of_e ks :
  vals_of 0 (map e2a ks) = map Val (xtos ks) /\ vals_of 1 (map e2a ks) = map Val (xfroms ks)
  /\ vals_of 2 (map e2a ks) = map Val (xouts ks)
  /\ vals_of 3 (map e2a ks) = map Val (xkeyrings ks) /\ vals_of 4 (map e2a ks) = map (fun _ => Given) (xenvs ks)
  /\ frees (map e2a ks) = xfiles ks.
Proof.
  induction ks as [|k ks (I0 & I1 & I2 & I3 & I4 & I5)]; [repeat split|].
  unfold vals_of, xtos, xfroms, xouts, xkeyrings, xenvs, xfiles in *.
  destruct k; cbn [map flat_map e2a Nat.eqb app frees]; rewrite ?I0, ?I1, ?I2, ?I3, ?I4, ?I5; repeat split.
Qed.

Lemma check_occur_enc s0 s1 s2 s3 s4 :
  check_occur [s0; s1; s2; s3; s4] enc_opts =
  if (length s0 =? 0)%nat then Err (OptionMissing s_to)
  else if (1 <? length s0)%nat then Err (OptionDuplicated s_to)
  else if (length s1 =? 0)%nat then Err (OptionMissing s_from)
  else if (1 <? length s1)%nat then Err (OptionDuplicated s_from)
  else if (1 <? length s2)%nat then Err (OptionDuplicated s_output)
  else if (1 <? length s3)%nat then Err (OptionDuplicated s_keyring)
  else if (1 <? length s4)%nat then Err (OptionDuplicated s_env_pass)
  else Ok tt.
Proof. reflexivity. Qed.

Lemma opt_vals_enc {E} s0 s1 s2 s3 s4 free :
  let m := mk_matches enc_opts [s0; s1; s2; s3; s4] free in
  @opt_vals E m s_t = Ok s0 /\ @opt_vals E m s_f = Ok s1 /\ @opt_vals E m s_o = Ok s2
  /\ @opt_vals E m s_k = Ok s3 /\ @opt_vals E m s_env_pass = Ok s4.
Proof. repeat split. Qed.

Theorem parse_encrypt_items its :
  Forall eitem_ok its -> parse_encrypt (erender its) = esem (map emean its).
Proof.
  intros Hok. unfold parse_encrypt, erender. rewrite encrypt_options_eq. cbn [obind].
  rewrite (parse_items enc_o enc_opts _ _ eq_refl eq_refl enc_opts_eq (e_items_abs its Hok)).
  set (ks := map emean its). unfold parse_abs.
  change (add_sel (map e2a ks) 0 0 (map (fun _ => []) enc_opts))
    with [sel 0 (map e2a ks) 0; sel 1 (map e2a ks) 0; sel 2 (map e2a ks) 0; sel 3 (map e2a ks) 0;
          sel 4 (map e2a ks) 0].
  rewrite check_occur_enc, !sel_length.
  destruct (vals_of_e ks) as (V0 & V1 & V2 & V3 & V4 & V5).
  rewrite V0, V1, V2, V3, V4, V5, !map_length.
  unfold esem, efail.
  destruct (length (xtos ks) =? 0)%nat eqn:E0; [reflexivity|].
  destruct (1 <? length (xtos ks))%nat eqn:E1; [reflexivity|].
  destruct (length (xfroms ks) =? 0)%nat eqn:F0; [reflexivity|].
  destruct (1 <? length (xfroms ks))%nat eqn:F1; [reflexivity|].
  destruct (1 <? length (xouts ks))%nat eqn:E2; [reflexivity|].
  destruct (1 <? length (xkeyrings ks))%nat eqn:E3; [reflexivity|].
  destruct (1 <? length (xenvs ks))%nat eqn:E4; [reflexivity|].
  cbn [obind omap_err].
  destruct (opt_vals_enc (E:=usage_msg) (sel 0 (map e2a ks) 0) (sel 1 (map e2a ks) 0) (sel 2 (map e2a ks) 0)
              (sel 3 (map e2a ks) 0) (sel 4 (map e2a ks) 0) (xfiles ks)) as (L0 & L1 & L2 & L3 & L4).
  rewrite (opt_str_of_vals _ _ _ L0), (opt_str_of_vals _ _ _ L1), (opt_str_of_vals _ _ _ L2),
    (opt_str_of_vals _ _ _ L3), (opt_present_of_vals _ _ _ L4).
  rewrite infile_of_eq. cbn [m_free].
  rewrite !first_str_snd, !sel_snd, V0, V1, V2, V3, !hd_error_map_Val.
  assert (Henv : match sel 4 (map e2a ks) 0 with [] => false | _ :: _ => true end
                 = negb (length (xenvs ks) =? 0)%nat).
  { pose proof (sel_length 4 (map e2a ks) 0) as Hl. rewrite V4, map_length in Hl.
    destruct (sel 4 (map e2a ks) 0); cbn [length] in Hl; rewrite <- Hl; reflexivity. }
  rewrite Henv.
  destruct (xtos ks) as [|t [|t2 tr]]; cbn [length] in E0, E1; try discriminate.
  destruct (xfroms ks) as [|fr [|fr2 frr]]; cbn [length] in F0, F1; try discriminate.
  cbn [hd_error hd unwrap obind].
  destruct (xfiles ks) as [|f [|g r]]; reflexivity.
Qed.

Lemma esem_perm ks1 ks2 : Permutation ks1 ks2 -> esem ks1 = esem ks2.
Proof.
  intros Hp.
  assert (Ht : Permutation (xtos ks1) (xtos ks2)) by (apply Permutation_flat_map, Hp).
  assert (Hr : Permutation (xfroms ks1) (xfroms ks2)) by (apply Permutation_flat_map, Hp).
  assert (Ho : Permutation (xouts ks1) (xouts ks2)) by (apply Permutation_flat_map, Hp).
  assert (Hk : Permutation (xkeyrings ks1) (xkeyrings ks2)) by (apply Permutation_flat_map, Hp).
  assert (He : Permutation (xenvs ks1) (xenvs ks2)) by (apply Permutation_flat_map, Hp).
  assert (Hf : Permutation (xfiles ks1) (xfiles ks2)) by (apply Permutation_flat_map, Hp).
  unfold esem.
  rewrite <- (Permutation_length Ht), <- (Permutation_length Hr), <- (Permutation_length Ho),
    <- (Permutation_length Hk), <- (Permutation_length He), <- (Permutation_length Hf).
  destruct (length (xtos ks1) =? 0)%nat eqn:E0; [reflexivity|].
  destruct (1 <? length (xtos ks1))%nat eqn:E1; [reflexivity|].
  destruct (length (xfroms ks1) =? 0)%nat eqn:F0; [reflexivity|].
  destruct (1 <? length (xfroms ks1))%nat eqn:F1; [reflexivity|].
  destruct (1 <? length (xouts ks1))%nat eqn:E2; [reflexivity|].
  destruct (1 <? length (xkeyrings ks1))%nat eqn:E3; [reflexivity|].
  destruct (1 <? length (xenvs ks1))%nat eqn:E4; [reflexivity|].
  destruct (1 <? length (xfiles ks1))%nat eqn:E5; [reflexivity|].
  rewrite <- (perm_short _ _ Ht), <- (perm_short _ _ Hr), <- (perm_short _ _ Ho), <- (perm_short _ _ Hk),
    <- (perm_short _ _ Hf) by lia. reflexivity.
Qed.

Theorem parse_encrypt_spelling its1 its2 :
  Forall eitem_ok its1 -> Forall eitem_ok its2 ->
  Permutation (map emean its1) (map emean its2) ->
  parse_encrypt (erender its1) = parse_encrypt (erender its2).
Proof.
  intros H1 H2 Hp. rewrite !parse_encrypt_items by assumption. now apply esem_perm.
Qed.

Corollary parse_encrypt_all_forms l0 d0 e0 l1 d1 e1 l2 d2 e2 l3 d3 e3 d4 t fr o k f its :
  is_arg f = false ->
  Permutation its [ETo l0 d0 e0 t; EFrom l1 d1 e1 fr; EOut l2 d2 e2 o; EKeyring l3 d3 e3 k; EEnvPass d4; EFile f] ->
  parse_encrypt (erender its) = Ok (mk_encrypt_opts (Some f) t fr (Some o) (Some k) true).
Proof.
  intros Hf Hp.
  assert (Hok : Forall eitem_ok [ETo l0 d0 e0 t; EFrom l1 d1 e1 fr; EOut l2 d2 e2 o; EKeyring l3 d3 e3 k;
                                 EEnvPass d4; EFile f]).
  { repeat constructor. exact Hf. }
  assert (Hok' : Forall eitem_ok its).
  { apply Forall_forall. intros it Hin. rewrite Forall_forall in Hok. apply Hok.
    eapply Permutation_in; eassumption. }
  rewrite (parse_encrypt_spelling its _ Hok' Hok (Permutation_map emean Hp)).
  rewrite parse_encrypt_items by assumption. reflexivity.
Qed.

(** ** 5.4 -o/--output and --env-pass of [kestrel password enc|dec] and [kestrel key gen] *)

Lemma p_items_abs its :
  Forall pitem_ok its -> Forall2 (item_abs gen_opts) (map p2g its) (map p2a (map pmean its)).
Proof.
  induction its as [|it its IH]; intros H; cbn [map]; [constructor|].
  inversion H as [|? ? H1 H2]; subst. constructor; [|now apply IH]. clear IH H H2.
  destruct it as [l d e v|d|f]; cbn [p2g pmean p2a]; unfold opt_item.
  - destruct e, l; [eapply IA_eq|eapply IA_eq|eapply IA_sep|eapply IA_sep];
      try name_ok_tac; try reflexivity; try discriminate.
  - eapply IA_flag; try name_ok_tac; try reflexivity; try discriminate.
  - apply IA_free. exact H1.
Qed.





Lemma vals_of_p ks :
  vals_of 0 (map p2a ks) = map Val (youts ks) /\ vals_of 1 (map p2a ks) = map (fun _ => Given) (yenvs ks)
  /\ frees (map p2a ks) = yfiles ks.
Proof.
  induction ks as [|k ks (I0 & I1 & I2)]; [repeat split|].
  unfold vals_of, youts, yenvs, yfiles in *.
  destruct k; cbn [map flat_map p2a Nat.eqb app frees]; rewrite ?I0, ?I1, ?I2; repeat split.
Qed.

Lemma check_occur_gen s0 s1 :
  check_occur [s0; s1] gen_opts =
  if (1 <? length s0)%nat then Err (OptionDuplicated s_output)
  else if (1 <? length s1)%nat then Err (OptionDuplicated s_env_pass)
  else Ok tt.
Proof. reflexivity. Qed.

Lemma opt_vals_gen {E} s0 s1 free :
  let m := mk_matches gen_opts [s0; s1] free in
  @opt_vals E m s_o = Ok s0 /\ @opt_vals E m s_env_pass = Ok s1.
Proof. repeat split. Qed.

(* the shared core: the Matches, explicitly *)
Lemma parse_gen_explicit its :
  Forall pitem_ok its ->
  let ks := map pmean its in
  exists s0 s1,
    parse gen_o (prender its)
    = (if (1 <? length (youts ks))%nat then Err (OptionDuplicated s_output)
       else if (1 <? length (yenvs ks))%nat then Err (OptionDuplicated s_env_pass)
       else Ok (mk_matches gen_opts [s0; s1] (yfiles ks)))
    /\ first_str s0 = hd_error (youts ks)
    /\ match s1 with [] => false | _ :: _ => true end = negb (length (yenvs ks) =? 0)%nat.
Proof.
  intros Hok ks. unfold prender.
  rewrite (parse_items gen_o gen_opts _ _ eq_refl eq_refl gen_opts_eq (p_items_abs its Hok)).
  fold ks. unfold parse_abs.
  change (add_sel (map p2a ks) 0 0 (map (fun _ => []) gen_opts))
    with [sel 0 (map p2a ks) 0; sel 1 (map p2a ks) 0].
  exists (sel 0 (map p2a ks) 0), (sel 1 (map p2a ks) 0).
  rewrite check_occur_gen, !sel_length.
  destruct (vals_of_p ks) as (V0 & V1 & V2). rewrite V0, V1, V2, !map_length.
  split; [|split].
  - destruct (1 <? length (youts ks))%nat; [reflexivity|].
    destruct (1 <? length (yenvs ks))%nat; reflexivity.
  - now rewrite first_str_snd, sel_snd, V0, hd_error_map_Val.
  - pose proof (sel_length 1 (map p2a ks) 0) as Hl. rewrite V1, map_length in Hl.
    destruct (sel 1 (map p2a ks) 0); cbn [length] in Hl; rewrite <- Hl; reflexivity.
Qed.

Theorem parse_pass_items its :
  Forall pitem_ok its -> parse_pass_common (prender its) = psem (map pmean its).
Proof.
  intros Hok. destruct (parse_gen_explicit its Hok) as (s0 & s1 & Hp & H0 & H1).
  unfold parse_pass_common, psem, ysem. rewrite pass_options_eq. cbn [obind]. rewrite Hp.
  destruct (1 <? length (youts (map pmean its)))%nat; [reflexivity|].
  destruct (1 <? length (yenvs (map pmean its)))%nat; [reflexivity|].
  cbn [omap_err obind]. rewrite infile_of_eq. cbn [m_free].
  destruct (opt_vals_gen (E:=usage_msg) s0 s1 (yfiles (map pmean its))) as (L0 & L1).
  rewrite (opt_str_of_vals _ _ _ L0), (opt_present_of_vals _ _ _ L1), H0, H1.
  destruct (yfiles (map pmean its)) as [|f [|g r]]; reflexivity.
Qed.

Theorem parse_key_gen_items its :
  Forall pitem_ok its -> parse_key (s_generate :: prender its) = gsem (map pmean its).
Proof.
  intros Hok. destruct (parse_gen_explicit its Hok) as (s0 & s1 & Hp & H0 & H1).
  unfold parse_key, gsem, ysem. ev_teq. cbn [orb]. rewrite gen_options_eq. cbn [obind].
  rewrite slice_args_eq. cbn [skipn obind]. rewrite Hp.
  destruct (1 <? length (youts (map pmean its)))%nat; [reflexivity|].
  destruct (1 <? length (yenvs (map pmean its)))%nat; [reflexivity|].
  cbn [omap_err obind].
  destruct (opt_vals_gen (E:=usage_msg) s0 s1 (yfiles (map pmean its))) as (L0 & L1).
  rewrite (opt_str_of_vals _ _ _ L0), (opt_present_of_vals _ _ _ L1), H0, H1. reflexivity.
Qed.

Lemma psem_perm ks1 ks2 : Permutation ks1 ks2 -> psem ks1 = psem ks2.
Proof.
  intros Hp.
  assert (Ho : Permutation (youts ks1) (youts ks2)) by (apply Permutation_flat_map, Hp).
  assert (He : Permutation (yenvs ks1) (yenvs ks2)) by (apply Permutation_flat_map, Hp).
  assert (Hf : Permutation (yfiles ks1) (yfiles ks2)) by (apply Permutation_flat_map, Hp).
  unfold psem, ysem.
  rewrite <- (Permutation_length Ho), <- (Permutation_length He).
  destruct (1 <? length (youts ks1))%nat eqn:E2; [reflexivity|].
  destruct (1 <? length (yenvs ks1))%nat eqn:E4; [reflexivity|].
  cbn [obind]. rewrite <- (Permutation_length Hf).
  destruct (1 <? length (yfiles ks1))%nat eqn:E5; [reflexivity|].
  rewrite <- (perm_short _ _ Ho), <- (perm_short _ _ Hf) by lia. reflexivity.
Qed.

Lemma gsem_perm ks1 ks2 : Permutation ks1 ks2 -> gsem ks1 = gsem ks2.
Proof.
  intros Hp.
  assert (Ho : Permutation (youts ks1) (youts ks2)) by (apply Permutation_flat_map, Hp).
  assert (He : Permutation (yenvs ks1) (yenvs ks2)) by (apply Permutation_flat_map, Hp).
  unfold gsem, ysem.
  rewrite <- (Permutation_length Ho), <- (Permutation_length He).
  destruct (1 <? length (youts ks1))%nat eqn:E2; [reflexivity|].
  destruct (1 <? length (yenvs ks1))%nat eqn:E4; [reflexivity|].
  cbn [obind]. rewrite <- (perm_short _ _ Ho) by lia. reflexivity.
Qed.

(** [kestrel password enc|dec] and [kestrel key gen]: every spelling of -o / --env-pass, every order *)
Theorem parse_pass_spelling its1 its2 :
  Forall pitem_ok its1 -> Forall pitem_ok its2 ->
  Permutation (map pmean its1) (map pmean its2) ->
  parse_pass_common (prender its1) = parse_pass_common (prender its2).
Proof. intros H1 H2 Hp. rewrite !parse_pass_items by assumption. now apply psem_perm. Qed.

Theorem parse_key_gen_spelling its1 its2 :
  Forall pitem_ok its1 -> Forall pitem_ok its2 ->
  Permutation (map pmean its1) (map pmean its2) ->
  parse_key (s_generate :: prender its1) = parse_key (s_generate :: prender its2).
Proof. intros H1 H2 Hp. rewrite !parse_key_gen_items by assumption. now apply gsem_perm. Qed.

(** [kestrel key change-pass|extract-pub]: -env-pass / --env-pass before or after the key file *)


Lemma q_items_abs its :
  Forall qitem_ok its -> Forall2 (item_abs env_opts) (map q2g its) (map q2a its).
Proof.
  induction its as [|it its IH]; intros H; cbn [map]; [constructor|].
  inversion H as [|? ? H1 H2]; subst. constructor; [|now apply IH]. clear IH H H2.
  destruct it as [d|f]; cbn [q2g q2a].
  - eapply IA_flag; try name_ok_tac; try reflexivity; try discriminate.
  - apply IA_free. exact H1.
Qed.

Lemma vals_of_q its :
  vals_of 0 (map q2a its) = map (fun _ => Given) (qenvs its) /\ frees (map q2a its) = qkeys its.
Proof.
  induction its as [|k its (I0 & I1)]; [repeat split|].
  unfold vals_of, qenvs, qkeys in *.
  destruct k; cbn [map flat_map q2a Nat.eqb app frees]; rewrite ?I0, ?I1; repeat split.
Qed.

Theorem parse_key_arg_items cmd its :
  Forall qitem_ok its -> parse_key_arg (cmd :: qrender its) = qsem its.
Proof.
  intros Hok. unfold parse_key_arg, qrender. rewrite envpass_options_eq. cbn [obind].
  rewrite slice_args_eq. cbn [skipn obind].
  rewrite (parse_items env_o env_opts _ _ eq_refl eq_refl env_opts_eq (q_items_abs its Hok)).
  unfold parse_abs.
  change (add_sel (map q2a its) 0 0 (map (fun _ => []) env_opts)) with [sel 0 (map q2a its) 0].
  change (check_occur [sel 0 (map q2a its) 0] env_opts)
    with (if (1 <? length (sel 0 (map q2a its) 0))%nat
          then @Err fail unit (OptionDuplicated s_env_pass) else Ok tt).
  pose proof (sel_length 0 (map q2a its) 0) as Hl.
  destruct (vals_of_q its) as (V0 & V1). rewrite V0, map_length in Hl. rewrite Hl, V1.
  unfold qsem. destruct (1 <? length (qenvs its))%nat; [reflexivity|]. cbn [obind omap_err].
  assert (L : @opt_vals usage_msg (mk_matches env_opts [sel 0 (map q2a its) 0] (qkeys its)) s_env_pass
              = Ok (sel 0 (map q2a its) 0)) by reflexivity.
  rewrite (opt_present_of_vals _ _ _ L). cbn [obind m_free]. unfold free0. cbn [m_free].
  assert (Henv : match sel 0 (map q2a its) 0 with [] => false | _ :: _ => true end
                 = negb (length (qenvs its) =? 0)%nat).
  { destruct (sel 0 (map q2a its) 0); cbn [length] in Hl; rewrite <- Hl; reflexivity. }
  rewrite Henv.
  destruct (qkeys its) as [|f [|g r]]; reflexivity.
Qed.

(* one or two dashes, before or after the key: same result *)
Corollary parse_key_arg_spelling cmd d1 d2 f :
  is_arg f = false ->
  parse_key_arg (cmd :: qrender [QEnvPass d1; QKey f]) = Ok (f, true)
  /\ parse_key_arg (cmd :: qrender [QKey f; QEnvPass d2]) = Ok (f, true).
Proof.
  intros Hf. split; rewrite parse_key_arg_items by (repeat constructor; exact Hf); reflexivity.
Qed.

(** ** 5.5 The general respelling theorem, for ARBITRARY argument vectors (long_only, FloatingFrees)

    Respelling an argument anywhere is not sound (see [respell_anywhere_counterexample] at the end): an
    argument that follows a value-taking option is that option's value.  What is sound is respelling at
    OPTION POSITIONS.  [resp opts v1 v2] relates two vectors that differ only there: it follows the
    parse of [v1]; free arguments, everything after "--", and the argument consumed as a value are kept
    verbatim; an argument in option position may be replaced by any argument that decodes to a name
    resolving to the same option ([find_opt]) with the same inline value ([same_opt]: "--to" / "-t" /
    "-to" / "--t", "--to=V" / "-t=V", ...).  Then [parse] gives the same [Matches], or a [Fail] of the
    same kind (the names recorded in ArgumentMissing / UnrecognizedOption / UnexpectedArgument are the
    spellings used, so they may differ).  No well-formedness is assumed: unknown options, missing
    values, duplicates are all covered. *)

Lemma decode_arg_ldecode o opts a :
  long_only o = true -> is_arg a = true ->
  decode_arg o opts a = Ok (true, [fst (ldecode a)], snd (ldecode a)).
Proof.
  intros Hl Ha. apply is_arg_spec in Ha. destruct Ha as (c & r & ->).
  rewrite decode_arg_long by assumption. cbn [ldecode].
  destruct (split_once_eq (long_tail c r)) as [[x y]|]; reflexivity.
Qed.






Lemma takes_next_same opts a1 a2 : same_opt opts a1 a2 -> takes_next opts a1 = takes_next opts a2.
Proof. intros (_ & _ & _ & _ & Hf & Hi). unfold takes_next. now rewrite Hf, Hi. Qed.

Lemma parse_loop_resp o opts :
  long_only o = true -> style o = FloatingFrees ->
  forall args1 args2, resp opts args1 args2 ->
  forall fuel1 fuel2 vals free pos,
  (length args1 <= fuel1)%nat -> (length args2 <= fuel2)%nat -> vinv (fun _ => True) opts vals ->
  result_sim (parse_loop fuel1 o opts vals free args1 pos) (parse_loop fuel2 o opts vals free args2 pos).
Proof.
  intros Hl Hst args1 args2 HR.
  induction HR as [|f r1 r2 Hf HR IH|r|a1 a2 r1 r2 Hs Ht HR IH|a1 a2 v r1 r2 Hs Ht HR IH|a1 a2 Hs Ht];
    intros fuel1 fuel2 vals free pos H1 H2 Hv.
  - destruct fuel1, fuel2; reflexivity.
  - cbn [length] in H1, H2. destruct fuel1 as [|fuel1]; [lia|]. destruct fuel2 as [|fuel2]; [lia|].
    cbn [parse_loop]. rewrite Hf, Hst. cbn [negb]. apply IH; auto; lia.
  - cbn [length] in H1, H2. destruct fuel1 as [|fuel1]; [lia|]. destruct fuel2 as [|fuel2]; [lia|].
    cbn [parse_loop]. change (is_arg s_dashdash) with true. change (text_eqb s_dashdash s_dashdash) with true.
    cbn [negb]. reflexivity.
  - destruct Hs as (Ha1 & Ha2 & Hd1 & Hd2 & Hfind & Hi).
    cbn [length] in H1, H2. destruct fuel1 as [|fuel1]; [lia|]. destruct fuel2 as [|fuel2]; [lia|].
    cbn [parse_loop]. rewrite Ha1, Ha2, Hd1, Hd2. cbn [negb].
    rewrite !decode_arg_ldecode by assumption. cbn [obind length names_loop].
    unfold takes_next in Ht. rewrite <- Hfind, <- Hi.
    destruct (find_opt opts (fst (ldecode a1))) as [id|] eqn:Hf1; [|reflexivity].
    destruct (find_opt_nth _ _ _ Hf1) as (od & Hod). rewrite Hod in *.
    destruct (snd (ldecode a1)) as [iv|], (o_hasarg od) eqn:Hha; cbn [Nat.eqb is_some andb orb];
      try discriminate; try reflexivity.
    all: match goal with |- context [push_val ?vs ?i ?x] =>
        destruct (push_val_inv (fun _ => True) opts vs i od x Hv Hod) as (vals' & _ & Hp & Hv');
        [unfold val_ok; cbn [snd]; try exact I; rewrite Hha; discriminate
        |rewrite !Hp; cbn [obind fst snd]; apply IH; auto; lia] end.
  - destruct Hs as (Ha1 & Ha2 & Hd1 & Hd2 & Hfind & Hi).
    cbn [length] in H1, H2. destruct fuel1 as [|fuel1]; [lia|]. destruct fuel2 as [|fuel2]; [lia|].
    cbn [parse_loop]. rewrite Ha1, Ha2, Hd1, Hd2. cbn [negb].
    rewrite !decode_arg_ldecode by assumption. cbn [obind length names_loop].
    unfold takes_next in Ht. rewrite <- Hfind, <- Hi.
    destruct (find_opt opts (fst (ldecode a1))) as [id|] eqn:Hf1; [|destruct (snd (ldecode a1)); discriminate].
    destruct (find_opt_nth _ _ _ Hf1) as (od & Hod). rewrite Hod in *.
    destruct (snd (ldecode a1)) as [iv|], (o_hasarg od) eqn:Hha; try discriminate.
    destruct (push_val_inv (fun _ => True) opts vals id od (pos, Val v) Hv Hod) as (vals' & _ & Hp & Hv');
      [exact I|]. rewrite !Hp. cbn [obind fst snd]. apply IH; auto; lia.
  - destruct Hs as (Ha1 & Ha2 & Hd1 & Hd2 & Hfind & Hi).
    cbn [length] in H1, H2. destruct fuel1 as [|fuel1]; [lia|]. destruct fuel2 as [|fuel2]; [lia|].
    cbn [parse_loop]. rewrite Ha1, Ha2, Hd1, Hd2. cbn [negb].
    rewrite !decode_arg_ldecode by assumption. cbn [obind length names_loop].
    unfold takes_next in Ht. rewrite <- Hfind, <- Hi.
    destruct (find_opt opts (fst (ldecode a1))) as [id|] eqn:Hf1; [|destruct (snd (ldecode a1)); discriminate].
    destruct (find_opt_nth _ _ _ Hf1) as (od & Hod). rewrite Hod in *.
    destruct (snd (ldecode a1)) as [iv|], (o_hasarg od) eqn:Hha; try discriminate.
    reflexivity.
Qed.

Lemma check_occur_normal vals opts : normal (check_occur vals opts).
Proof.
  revert opts. induction vals as [|v vals IH]; intros [|od opts]; cbn [check_occur]; try exact I.
  destruct (_ && _); [exact I|]. destruct (_ && _); [exact I|]. apply IH.
Qed.

(** GENERAL RESPELLING THEOREM *)
Theorem parse_respell o opts args1 args2 :
  long_only o = true -> style o = FloatingFrees ->
  @map_m fail _ _ long_to_short (grps o) = Ok opts ->
  resp opts args1 args2 ->
  result_sim (parse o args1) (parse o args2).
Proof.
  intros Hl Hst Hopts HR. unfold parse. rewrite Hopts. cbn [obind].
  assert (Hv0 : vinv (fun _ => True) opts (map (fun _ => []) opts)).
  { unfold vinv. clear. induction opts as [|od opts IH]; cbn [map]; constructor; auto. }
  pose proof (parse_loop_resp o opts Hl Hst args1 args2 HR (length args1) (length args2) _ [] 0%nat
                (le_n _) (le_n _) Hv0) as Hsim.
  pose proof (parse_loop_inv (fun _ => True) (fun _ => True) o opts (length args1) _ [] args1 0%nat
                (le_n _) Hv0 (Forall_nil _) (all_args_ok o opts args1)) as Hinv.
  destruct (parse_loop (length args1) o opts _ [] args1 0) as [[vals1 free1]|f1| |],
           (parse_loop (length args2) o opts _ [] args2 0) as [[vals2 free2]|f2| |];
    cbn [result_sim] in Hsim; try contradiction; cbn [obind]; [|exact Hsim].
  injection Hsim as <- <-.
  destruct Hinv as [Hv1 _]. rewrite <- (Forall2_len _ _ _ Hv1), Nat.eqb_refl. cbn [negb].
  pose proof (check_occur_normal vals1 opts) as Hn.
  destruct (check_occur vals1 opts); cbn [obind result_sim normal] in *; auto.
Qed.

Lemma same_opt_refl opts a : is_arg a = true -> text_eqb a s_dashdash = false -> same_opt opts a a.
Proof. intros H1 H2. repeat split; assumption. Qed.

(** every vector is related to itself ... *)
Lemma resp_refl opts : forall args, resp opts args args.
Proof.
  intros args. remember (length args) as n eqn:Hn. revert args Hn.
  induction n as [n IH] using lt_wf_ind. intros args Hn.
  destruct args as [|a rest]; [constructor|]. cbn [length] in Hn.
  destruct (is_arg a) eqn:Ha.
  2:{ apply R_free; [assumption|]. apply (IH (length rest)); [lia|reflexivity]. }
  destruct (text_eqb a s_dashdash) eqn:Hd.
  { apply text_eqb_eq in Hd. subst a. apply R_dd. }
  pose proof (same_opt_refl opts a Ha Hd) as Hs.
  destruct (takes_next opts a) eqn:Ht.
  - destruct rest as [|v r]; [now apply R_optend|].
    apply R_optv; auto. cbn [length] in Hn. apply (IH (length r)); [lia|reflexivity].
  - apply R_opt; auto. apply (IH (length rest)); [lia|reflexivity].
Qed.

(** ... and the first argument is always in option position *)
Lemma resp_head opts a1 a2 rest : same_opt opts a1 a2 -> resp opts (a1 :: rest) (a2 :: rest).
Proof.
  intros Hs. destruct (takes_next opts a1) eqn:Ht.
  - destruct rest as [|v r]; [now apply R_optend|]. apply R_optv; auto. apply resp_refl.
  - apply R_opt; auto. apply resp_refl.
Qed.

Lemma resp_app_free opts pre : Forall (fun f => is_arg f = false) pre ->
  forall r1 r2, resp opts r1 r2 -> resp opts (pre ++ r1) (pre ++ r2).
Proof.
  induction 1 as [|f pre Hf _ IH]; intros r1 r2 HR; cbn [app]; [assumption|].
  apply R_free; auto.
Qed.

(** the spellings of one option are [same_opt] *)
Lemma same_opt_render o opts d1 d2 nm1 nm2 suffix :
  long_only o = true -> name_ok nm1 -> name_ok nm2 ->
  find_opt opts (nfs nm1) = find_opt opts (nfs nm2) ->
  suffix = [] \/ (exists v, suffix = c_eq :: v) ->
  same_opt opts (dashes d1 ++ nm1 ++ suffix) (dashes d2 ++ nm2 ++ suffix).
Proof.
  intros Hl H1 H2 Hf Hs.
  destruct (decode_item o opts d1 nm1 suffix Hl H1 Hs) as (A1 & B1 & C1).
  destruct (decode_item o opts d2 nm2 suffix Hl H2 Hs) as (A2 & B2 & C2).
  rewrite decode_arg_ldecode in C1, C2 by assumption.
  injection C1 as N1 I1. injection C2 as N2 I2.
  unfold same_opt. rewrite N1, N2, I1, I2. repeat split; assumption.
Qed.

(** Example: the first argument of ANY [kestrel decrypt] argument vector — well-formed or not — may be
    respelled: "--to" / "-t" / "-to" / "--t", and "--to=V" / "-t=V" / ... *)

Lemma msg_sim_refl {A} (r : outcome usage_msg A) : msg_sim r r.
Proof. destruct r as [a|[| | |f h]| |]; cbn [msg_sim]; auto. Qed.

Lemma format_parse_decrypt_error_shape f : exists h, format_parse_decrypt_error f = GetoptsFail f h.
Proof.
  destruct f; cbn [format_parse_decrypt_error]; try (now exists false).
  destruct (text_eqb nm s_f || text_eqb nm s_from); eexists; reflexivity.
Qed.

Theorem parse_decrypt_resp args1 args2 :
  resp dec_opts args1 args2 -> msg_sim (parse_decrypt args1) (parse_decrypt args2).
Proof.
  intros HR. pose proof (parse_respell dec_o dec_opts args1 args2 eq_refl eq_refl dec_opts_eq HR) as Hs.
  unfold parse_decrypt. rewrite decrypt_options_eq. cbn [obind].
  destruct (parse dec_o args1) as [m1|f1| |], (parse dec_o args2) as [m2|f2| |];
    cbn [result_sim] in Hs; try contradiction; cbn [omap_err obind].
  - subst m2. apply msg_sim_refl.
  - destruct (format_parse_decrypt_error_shape f1) as (h1 & ->).
    destruct (format_parse_decrypt_error_shape f2) as (h2 & ->). exact Hs.
Qed.

Corollary parse_decrypt_respell_head nm1 nm2 d1 d2 suffix rest :
  name_ok nm1 -> name_ok nm2 -> find_opt dec_opts (nfs nm1) = find_opt dec_opts (nfs nm2) ->
  suffix = [] \/ (exists v, suffix = c_eq :: v) ->
  msg_sim (parse_decrypt ((dashes d1 ++ nm1 ++ suffix) :: rest))
          (parse_decrypt ((dashes d2 ++ nm2 ++ suffix) :: rest)).
Proof.
  intros H1 H2 Hf Hs. apply parse_decrypt_resp, resp_head.
  exact (same_opt_render dec_o dec_opts d1 d2 nm1 nm2 suffix eq_refl H1 H2 Hf Hs).
Qed.

(* e.g. "--to" and "-t" in front of ANY argument vector *)
Example parse_decrypt_respell_to rest :
  msg_sim (parse_decrypt ((c_dash :: c_dash :: s_to) :: rest)) (parse_decrypt ((c_dash :: s_t) :: rest)).
Proof.
  apply (parse_decrypt_respell_head s_to s_t true false [] rest); try name_ok_tac; try reflexivity.
  now left.
Qed.

(* ====================================================================================== *)
(** * 6. What a successful [kestrel decrypt] parse tells                                   *)
(* ====================================================================================== *)

(** [v] is given in [args] as an option value: a whole argument, or what follows an '=' in an argument *)

Lemma str_from_suffix {E} : forall s n t, @str_from E s n = Ok t -> exists pre, s = pre ++ t.
Proof.
  induction s as [|c s IH]; intros n t H.
  - destruct n; cbn [str_from] in H; [|discriminate]. injection H as <-. now exists [].
  - destruct n as [|n]; cbn [str_from] in H; [injection H as <-; now exists []|].
    destruct (length (utf8_encode_char c) <=? S n)%nat; [|discriminate].
    destruct (IH _ _ H) as (pre & ->). now exists (c :: pre).
Qed.

Lemma decode_arg_inline o opts a wl nms v :
  long_only o = true -> decode_arg o opts a = Ok (wl, nms, Some v) -> exists pre, a = pre ++ c_eq :: v.
Proof.
  intros Hl H. unfold decode_arg in H. rewrite Hl in H.
  destruct (@byte_at fail a 1) as [b1| | |]; cbn [obind] in H; try discriminate.
  rewrite orb_true_r in H.
  destruct (if b1 =? c_dash then @str_from fail a 2 else str_from a 1) as [tail| | |] eqn:Et;
    cbn [obind] in H; try discriminate.
  assert (Hs : exists pre, a = pre ++ tail).
  { destruct (b1 =? c_dash); eapply str_from_suffix; eassumption. }
  destruct Hs as (pre & ->). unfold splitn2_eq in H.
  destruct (split_once_eq tail) as [[x y]|] eqn:Es; rewrite name_from_str_ok in H; cbn [obind] in H;
    [|discriminate].
  injection H as _ _ <-. apply split_once_eq_some in Es. destruct Es as [-> _].
  exists (pre ++ x). now rewrite <- app_assoc.
Qed.

Lemma contains_false args s : contains args s = false -> ~ In s args.
Proof.
  intros H Hin. assert (Ht : contains args s = true); [|congruence].
  apply existsb_exists. exists s. split; [assumption | apply text_eqb_refl].
Qed.

Lemma run_parser_inv {A} (r : outcome usage_msg A) k c :
  run_parser r k = Ok c -> (exists a, r = Ok a /\ c = k a) \/ (exists e, r = Err e /\ c = CUsageError e).
Proof.
  destruct r as [a|e| |]; cbn [run_parser]; intros H; try discriminate; injection H as <-;
    [left; now exists a | right; now exists e].
Qed.

Theorem parse_ok_characterisation argv d :
  cli_parse argv = Ok (CDecrypt d) ->
  exists prog cmd rest,
    argv = prog :: cmd :: rest /\ (cmd = s_dec \/ cmd = s_decrypt)
    /\ ~ In s_help_long argv /\ ~ In s_help_short argv
    /\ parse_decrypt rest = Ok d
    /\ val_src rest (d_to d)
    /\ (forall s, d_outfile d = Some s -> val_src rest s)
    /\ (forall s, d_keyring d = Some s -> val_src rest s)
    /\ (forall f, d_infile d = Some f -> In f rest).
Proof.
  unfold cli_parse. intros H.
  destruct ((length argv <=? 1)%nat || contains argv s_help_long || contains argv s_help_short) eqn:Hh;
    [discriminate|].
  rewrite !orb_false_iff in Hh. destruct Hh as [[Hlen Hc1] Hc2].
  destruct argv as [|prog [|a1 rest]]; try (cbn [length] in Hlen; lia). cbn [nth_error] in H.
  exists prog, a1, rest. split; [reflexivity|].
  unfold dispatch in H.
  destruct (text_eqb a1 s_help_short || text_eqb a1 s_help_long); [discriminate|].
  destruct (text_eqb a1 s_version_short || text_eqb a1 s_version_long); [discriminate|].
  destruct (text_eqb a1 s_enc || text_eqb a1 s_encrypt).
  { apply run_parser_inv in H. destruct H as [(a & _ & [=])|(e & _ & [=])]. }
  destruct (text_eqb a1 s_dec || text_eqb a1 s_decrypt) eqn:Hd.
  - apply orb_true_iff in Hd. rewrite !text_eqb_eq in Hd.
    split; [tauto|]. split; [now apply contains_false|]. split; [now apply contains_false|].
    rewrite slice_args_eq in H. cbn [obind skipn] in H.
    apply run_parser_inv in H. destruct H as [(a & Hp & [= <-])|(e & _ & [=])].
    split; [assumption|].
    pose proof (parse_decrypt_inv (val_src rest) (fun f => In f rest) rest) as Hinv.
    rewrite Hp in Hinv. cut (Forall (arg_ok (val_src rest) (fun f => In f rest) dec_o dec_opts) rest);
      [intros HF; specialize (Hinv HF); tauto|]. apply Forall_forall. intros x Hx. split; [|split].
    + exists x. split; [assumption|now left].
    + assumption.
    + intros wl nms v Hdec. exists x. split; [assumption|]. right.
      exact (decode_arg_inline dec_o dec_opts x wl nms v eq_refl Hdec).
  - destruct (text_eqb a1 s_key).
    { apply run_parser_inv in H. destruct H as [(a & _ & [=])|(e & _ & [=])]. }
    destruct (text_eqb a1 s_pass || text_eqb a1 s_password); [|discriminate].
    apply run_parser_inv in H. destruct H as [([a|a] & _ & [=])|(e & _ & [=])].
Qed.

(** the bridge from [cli_parse] to [parse_decrypt] (so that 5.2 applies to whole argument vectors) *)
Lemma cli_parse_decrypt prog rest :
  ~ In s_help_long (prog :: rest) -> ~ In s_help_short (prog :: rest) ->
  cli_parse (prog :: s_decrypt :: rest) = run_parser (parse_decrypt rest) CDecrypt.
Proof.
  intros H1 H2. unfold cli_parse, contains. cbn [length Nat.leb orb existsb nth_error]. ev_teq.
  cbn [orb] in *.
  assert (Hn : forall s, ~ In s (prog :: rest) -> text_eqb prog s || existsb (fun a => text_eqb a s) rest = false).
  { intros s Hs. apply not_true_is_false. intros Ht. apply Hs.
    change (existsb (fun a => text_eqb a s) (prog :: rest) = true) in Ht.
    apply existsb_exists in Ht. destruct Ht as (x & Hx & Hxs). apply text_eqb_eq in Hxs. now subst. }
  rewrite (Hn _ H1), (Hn _ H2). cbn [orb]. unfold dispatch. ev_teq. cbn [orb].
  rewrite slice_args_eq. reflexivity.
Qed.

(** spelling and order independence, for the whole argument vector of [kestrel decrypt] *)
Corollary cli_decrypt_spelling prog its1 its2 :
  Forall ditem_ok its1 -> Forall ditem_ok its2 ->
  Permutation (map dmean its1) (map dmean its2) ->
  (forall h, h = s_help_long \/ h = s_help_short ->
             ~ In h (prog :: drender its1) /\ ~ In h (prog :: drender its2)) ->
  cli_parse (prog :: s_decrypt :: drender its1) = cli_parse (prog :: s_decrypt :: drender its2).
Proof.
  intros H1 H2 Hp Hh.
  destruct (Hh s_help_long (or_introl eq_refl)) as [A1 A2].
  destruct (Hh s_help_short (or_intror eq_refl)) as [B1 B2].
  rewrite !cli_parse_decrypt by assumption. now rewrite (parse_decrypt_spelling its1 its2).
Qed.

(** Why section 5 is about well-formed invocations (items), not about replacing "--LONG" by "-SHORT" at
    an arbitrary place of an arbitrary vector: an argument that follows a value-taking option IS that
    option's value, whatever it looks like, so respelling it changes the result. *)
Example respell_anywhere_counterexample :
  parse_decrypt [c_dash :: s_t; c_dash :: c_dash :: s_output]
    = Ok (mk_decrypt_opts None (c_dash :: c_dash :: s_output) None None false)
  /\ parse_decrypt [c_dash :: s_t; c_dash :: s_o]
    = Ok (mk_decrypt_opts None (c_dash :: s_o) None None false).
Proof. split; vm_compute; reflexivity. Qed.

Print Assumptions parse_no_panic.
Print Assumptions cli_parse_no_panic.
Print Assumptions alias_enc.
Print Assumptions alias_dec.
Print Assumptions alias_pass.
Print Assumptions alias_key_gen.
Print Assumptions alias_pass_enc.
Print Assumptions alias_pass_dec.
Print Assumptions alias_version.
Print Assumptions parse_items.
Print Assumptions parse_spelling.
Print Assumptions parse_decrypt_items.
Print Assumptions parse_decrypt_spelling.
Print Assumptions parse_decrypt_all_forms.
Print Assumptions parse_decrypt_to_spellings.
Print Assumptions parse_encrypt_items.
Print Assumptions parse_encrypt_spelling.
Print Assumptions parse_encrypt_all_forms.
Print Assumptions parse_pass_spelling.
Print Assumptions parse_key_gen_spelling.
Print Assumptions parse_key_arg_items.
Print Assumptions cli_decrypt_spelling.
Print Assumptions parse_respell.
Print Assumptions resp_refl.
Print Assumptions parse_decrypt_resp.
Print Assumptions parse_decrypt_respell_head.
Print Assumptions parse_ok_characterisation.
Print Assumptions cli_parse_decrypt.
