(* Proofs/WordFacts.v — 32-bit words vs octets, blocks of lists. *)
From Kestrel Require Import Bytes BytesFacts Outcome.
From Kestrel.Spec Require Import Salsa Scrypt.
From Coq Require Import ZifyBool ZifyNat ZifyN.
Local Open Scope N_scope.
Ltac Zify.zify_post_hook ::= Z.div_mod_to_equations.

Definition words_ok (w : list N) : Prop := Forall (fun x => x < 4294967296) w.
Notation w2b := words_to_bytes.
Notation b2w := bytes_to_words.

(* ---------- bit facts ---------- *)
Lemma land_lxor_distr a b c : N.land (N.lxor a b) c = N.lxor (N.land a c) (N.land b c).
Proof.
  apply N.bits_inj; intro n. rewrite N.land_spec, !N.lxor_spec, !N.land_spec.
  destruct (N.testbit a n), (N.testbit b n), (N.testbit c n); reflexivity.
Qed.

Lemma mask32_ones : mask32 = N.ones 32. Proof. reflexivity. Qed.

Lemma add32_lt a b : add32 a b < 4294967296.
Proof. unfold add32. rewrite mask32_ones, N.land_ones. apply N.mod_lt. discriminate. Qed.

Lemma lxor_lt32 a b : a < 4294967296 -> b < 4294967296 -> N.lxor a b < 4294967296.
Proof.
  intros Ha Hb. change 4294967296 with (2^32) in *.
  rewrite <- (N.mod_small a (2^32)), <- (N.mod_small b (2^32)) by assumption.
  rewrite <- !N.land_ones, <- land_lxor_distr, N.land_ones. apply N.mod_lt. discriminate.
Qed.

Lemma lxor_byte x y k : N.lxor x y / 2^k mod 2^8 = N.lxor (x / 2^k mod 2^8) (y / 2^k mod 2^8).
Proof. rewrite <- !N.shiftr_div_pow2, <- !N.land_ones, N.shiftr_lxor. apply land_lxor_distr. Qed.

Lemma le32_lxor x y : le32 (N.lxor x y) = xor_bytes (le32 x) (le32 y).
Proof.
  unfold le32. cbn [xor_bytes].
  pose proof (lxor_byte x y 0) as H0. pose proof (lxor_byte x y 8) as H1.
  pose proof (lxor_byte x y 16) as H2. pose proof (lxor_byte x y 24) as H3.
  change (2^0) with 1 in H0. rewrite !N.div_1_r in H0.
  change (2^8) with 256 in *. change (2^16) with 65536 in *. change (2^24) with 16777216 in *.
  now rewrite H0, H1, H2, H3.
Qed.

Lemma land_low_shiftl_high a b : a < 2^32 -> N.land a (N.shiftl b 32) = 0.
Proof.
  intros Ha. rewrite <- (N.mod_small a (2^32)) by assumption. rewrite <- N.land_ones.
  apply N.bits_inj; intro n. rewrite !N.land_spec, N.bits_0.
  destruct (N.ltb_spec n 32).
  - rewrite N.shiftl_spec_low by assumption. apply andb_false_r.
  - rewrite N.ones_spec_high by assumption. rewrite andb_false_r. reflexivity.
Qed.

Lemma lor_shiftl_add a b : a < 4294967296 -> N.lor a (N.shiftl b 32) = a + 4294967296 * b.
Proof.
  intros Ha. rewrite <- N.lxor_lor, <- N.add_nocarry_lxor by (apply land_low_shiftl_high; exact Ha).
  rewrite N.shiftl_mul_pow2. change (2^32) with 4294967296. lia.
Qed.

Lemma land_u64_shiftl b : b < 4294967296 -> N.land (N.shiftl b 32) 18446744073709551615 = N.shiftl b 32.
Proof.
  intros Hb. change 18446744073709551615 with (N.ones 64). rewrite N.land_ones.
  apply N.mod_small. rewrite N.shiftl_mul_pow2. change (2^32) with 4294967296.
  change (2^64) with 18446744073709551616. lia.
Qed.

Lemma land_pow2_pred x k : N.land x (2^k - 1) = x mod 2^k.
Proof. rewrite <- N.pred_sub, <- N.ones_equiv. apply N.land_ones. Qed.

(* ---------- words_ok ---------- *)
Lemma words_ok_app a b : words_ok (a ++ b) <-> words_ok a /\ words_ok b.
Proof. apply Forall_app. Qed.
Lemma words_ok_firstn n w : words_ok w -> words_ok (firstn n w).
Proof. intros H. rewrite <- (firstn_skipn n w) in H. apply Forall_app in H. tauto. Qed.
Lemma words_ok_skipn n w : words_ok w -> words_ok (skipn n w).
Proof. intros H. rewrite <- (firstn_skipn n w) in H. apply Forall_app in H. tauto. Qed.
Lemma words_ok_xor : forall a b, words_ok a -> words_ok b -> words_ok (xor_bytes a b).
Proof.
  induction a as [|x a IH]; intros [|y b] Ha Hb; cbn; try constructor.
  - inversion Ha; inversion Hb; subst. now apply lxor_lt32.
  - inversion Ha; inversion Hb; subst. now apply IH.
Qed.
Lemma words_ok_repeat0 n : words_ok (repeat 0 n).
Proof. induction n; cbn; constructor; [reflexivity|assumption]. Qed.

Lemma add32_words_ok : forall a b, words_ok (add32_words a b).
Proof. induction a as [|x a IH]; intros [|y b]; cbn; constructor; [apply add32_lt|apply IH]. Qed.
Lemma salsa20_8_ok l : words_ok (salsa20_8 l).
Proof. apply add32_words_ok. Qed.

Lemma wupd_length : forall x i v, length (wupd x i v) = length x.
Proof. induction x as [|h t IH]; intros [|i] v; cbn; auto. Qed.
Lemma double_round_length x : length (double_round x) = length x.
Proof.
  unfold double_round. generalize double_round_steps as l. intros l; revert x.
  induction l as [|[[[a b] c] k] l IH]; intros x; cbn [fold_left]; [reflexivity|].
  rewrite IH. unfold qstep. apply wupd_length.
Qed.
Lemma add32_words_length : forall a b, length (add32_words a b) = Nat.min (length a) (length b).
Proof. induction a as [|x a IH]; intros [|y b]; cbn; auto. Qed.
Lemma salsa20_8_length l : length (salsa20_8 l) = length l.
Proof. unfold salsa20_8. rewrite add32_words_length, !double_round_length. lia. Qed.

(* ---------- words <-> octets ---------- *)
Lemma w2b_cons a w : w2b (a :: w) = le32 a ++ w2b w. Proof. reflexivity. Qed.
Lemma w2b_app a b : w2b (a ++ b) = w2b a ++ w2b b. Proof. apply flat_map_app. Qed.
Lemma w2b_length w : length (w2b w) = (4 * length w)%nat.
Proof. induction w as [|a w IH]; [reflexivity|]. rewrite w2b_cons, app_length, IH, le32_length. cbn [length]. lia. Qed.
Lemma w2b_ok w : bytes_ok (w2b w).
Proof. induction w as [|a w IH]; [constructor|]. rewrite w2b_cons. apply Forall_app. split; [apply le32_ok|exact IH]. Qed.

Lemma w2b_firstn : forall n w, firstn (4 * n) (w2b w) = w2b (firstn n w).
Proof.
  induction n as [|n IH]; intros w; [reflexivity|]. destruct w as [|a w]; [now rewrite firstn_nil|].
  replace (4 * S n)%nat with (length (le32 a) + 4 * n)%nat by (rewrite le32_length; lia).
  rewrite w2b_cons, firstn_app_2, IH. cbn [firstn]. now rewrite w2b_cons.
Qed.
Lemma w2b_skipn : forall n w, skipn (4 * n) (w2b w) = w2b (skipn n w).
Proof.
  induction n as [|n IH]; intros w; [reflexivity|]. destruct w as [|a w]; [now rewrite skipn_nil|].
  replace (4 * S n)%nat with (S (S (S (S (4 * n)))))%nat by lia. rewrite w2b_cons.
  unfold le32 at 1. cbn [skipn app]. apply IH.
Qed.
Lemma w2b_concat L : w2b (concat L) = concat (map w2b L).
Proof. induction L as [|a L IH]; [reflexivity|]. cbn [concat map]. now rewrite w2b_app, IH. Qed.

Lemma b2w_w2b w : words_ok w -> b2w (w2b w) = w.
Proof.
  induction w as [|a w IH]; intros H; [reflexivity|]. inversion H; subst.
  rewrite w2b_cons. unfold le32 at 1. cbn [app bytes_to_words]. f_equal; [|now apply IH].
  now apply (dle32_le32 a).
Qed.

Lemma le32_dle32 a b c d : a < 256 -> b < 256 -> c < 256 -> d < 256 -> le32 (dle32 [a; b; c; d]) = [a; b; c; d].
Proof. intros. unfold le32, dle32. repeat f_equal; lia. Qed.
Lemma dle32_lt a b c d : a < 256 -> b < 256 -> c < 256 -> d < 256 -> dle32 [a; b; c; d] < 4294967296.
Proof. intros. unfold dle32. lia. Qed.

Lemma b2w_facts : forall k b, length b = (4 * k)%nat -> bytes_ok b ->
  w2b (b2w b) = b /\ words_ok (b2w b) /\ length (b2w b) = k.
Proof.
  induction k as [|k IH]; intros b Hl Hb.
  - destruct b; [|discriminate]. repeat split. constructor.
  - destruct b as [|a [|b' [|c [|d rest]]]]; try (cbn in Hl; lia).
    inversion Hb as [|? ? Ha Hb1]; subst. inversion Hb1 as [|? ? Hb' Hb2]; subst.
    inversion Hb2 as [|? ? Hc Hb3]; subst. inversion Hb3 as [|? ? Hd Hb4]; subst.
    destruct (IH rest) as (E & O & L); [cbn in Hl; lia|assumption|].
    cbn [bytes_to_words]. rewrite w2b_cons, E, le32_dle32 by assumption.
    repeat split; [constructor; [now apply dle32_lt|assumption]|cbn [length]; now rewrite L].
Qed.

Lemma w2b_xor : forall a b, xor_bytes (w2b a) (w2b b) = w2b (xor_bytes a b).
Proof.
  induction a as [|x a IH]; intros [|y b]; try reflexivity.
  cbn [xor_bytes]. rewrite !w2b_cons, le32_lxor, <- IH.
  unfold le32. cbn [app xor_bytes]. reflexivity.
Qed.

Lemma le_num_w2b_cons a w : a < 4294967296 -> le_num (w2b (a :: w)) = a + 4294967296 * le_num (w2b w).
Proof. intros Ha. rewrite w2b_cons. unfold le32. cbn [app le_num]. lia. Qed.

(* the Salsa20/8 core on octets, in terms of words *)
Lemma salsa_bytes_w2b a b : words_ok a -> words_ok b ->
  salsa20_8_bytes (xor_bytes (w2b a) (w2b b)) = w2b (salsa20_8 (xor_bytes a b)).
Proof. intros Ha Hb. unfold salsa20_8_bytes. rewrite w2b_xor, b2w_w2b; [reflexivity|]. now apply words_ok_xor. Qed.

(* ---------- blocks of c elements ---------- *)
Definition blk {A} (c i : nat) (l : list A) : list A := firstn c (skipn (c * i) l).

Lemma blk_length {A} c i (l : list A) : (c * i + c <= length l)%nat -> length (blk c i l) = c.
Proof. intros H. unfold blk. rewrite firstn_length, skipn_length. lia. Qed.

Lemma blk_w2b c i w : blk (4 * c) i (w2b w) = w2b (blk c i w).
Proof. unfold blk. rewrite <- Nat.mul_assoc, w2b_skipn, w2b_firstn. reflexivity. Qed.

Lemma block64_w2b i w : block64 i (w2b w) = w2b (blk 16 i w).
Proof. apply (blk_w2b 16). Qed.

(* a list of c*m elements is the concatenation of its m blocks *)
Lemma concat_blks {A} c : forall m (l : list A), length l = (c * m)%nat ->
  l = concat (map (fun j => blk c j l) (seq 0 m)).
Proof.
  induction m as [|m IH]; intros l Hl.
  - destruct l; [reflexivity|]. cbn in Hl. lia.
  - rewrite seq_S, map_app, concat_app. cbn [map concat plus]. rewrite app_nil_r.
    rewrite <- (firstn_skipn (c * m) l) at 1. f_equal.
    + rewrite (IH (firstn (c * m) l)) at 1 by (rewrite firstn_length; lia).
      f_equal. apply map_ext_in. intros j Hj. apply in_seq in Hj. unfold blk.
      rewrite skipn_firstn_comm, firstn_firstn. f_equal. nia.
    + unfold blk. symmetry. apply firstn_all2. rewrite skipn_length. lia.
Qed.

(* writing block p leaves the other blocks alone *)
Lemma blk_write {A} c p q (l Bk : list A) a : a = (c * p)%nat -> length Bk = c -> (c * p + c <= length l)%nat ->
  blk c q (firstn a l ++ Bk ++ skipn c (skipn a l)) = if Nat.eqb q p then Bk else blk c q l.
Proof.
  intros -> HB Hl. unfold blk.
  destruct (Nat.eqb_spec q p) as [->|Hne].
  - rewrite skipn_app, firstn_length, Nat.min_l by lia. rewrite Nat.sub_diag. cbn [skipn].
    rewrite (skipn_all2 (firstn _ _)) by (rewrite firstn_length; lia). cbn [app].
    rewrite firstn_app, HB, Nat.sub_diag. cbn [firstn]. rewrite app_nil_r. apply firstn_all2. lia.
  - destruct (Nat.lt_ge_cases q p) as [Hlt|Hge].
    + (* before *)
      rewrite skipn_app, firstn_app. rewrite !skipn_length, !firstn_length.
      replace (c * q - Nat.min (c * p) (length l))%nat with O by nia.
      replace (c - (Nat.min (c * p) (length l) - c * q))%nat with O by nia.
      cbn [firstn skipn]. rewrite app_nil_r. rewrite skipn_firstn_comm, firstn_firstn. f_equal. nia.
    + (* after *)
      assert (exists d, q = (p + 1 + d)%nat) as [d ->] by (exists (q - p - 1)%nat; lia).
      rewrite app_assoc. rewrite skipn_app.
      rewrite (skipn_all2 (firstn _ _ ++ _)) by (rewrite app_length, firstn_length; nia).
      cbn [app]. rewrite app_length, firstn_length, HB, Nat.min_l by lia.
      rewrite !skipn_add. f_equal. f_equal. nia.
Qed.

Lemma blk_write_length {A} c (l Bk : list A) a : length Bk = c -> (a + c <= length l)%nat ->
  length (firstn a l ++ Bk ++ skipn c (skipn a l)) = length l.
Proof. intros HB Hl. rewrite !app_length, firstn_length, !skipn_length. lia. Qed.

(* ---------- loops that accumulate their outputs ---------- *)
Fixpoint xs_iter {A} (f : A -> nat -> A) (X0 : A) (n : nat) : A :=
  match n with O => X0 | S n' => f (xs_iter f X0 n') n' end.

Lemma fold_acc {A} (f : A -> nat -> A) (X0 : A) n :
  fold_left (fun (st : A * list A) i => let X' := f (fst st) i in (X', snd st ++ [X'])) (seq 0 n) (X0, [])
  = (xs_iter f X0 n, map (fun i => xs_iter f X0 (S i)) (seq 0 n)).
Proof.
  induction n as [|n IH]; [reflexivity|].
  rewrite seq_S, fold_left_app, IH, map_app. cbn [fold_left fst snd map plus xs_iter]. reflexivity.
Qed.
