(* Proofs/BlockMixRefine.v — the Rust block_mix is RFC 7914 scryptBlockMix. *)
From Kestrel Require Import Bytes BytesFacts Outcome.
From Kestrel.Spec Require Import Salsa Scrypt.
From Kestrel.Model Require Import ScryptImpl.
From Kestrel.Proofs Require Import ImplFacts SalsaRefine WordFacts.
From Coq Require Import ZifyBool ZifyNat ZifyN.
Local Open Scope N_scope.
Ltac Zify.zify_post_hook ::= Z.div_mod_to_equations.

(* keep conversion from ever unfolding the cipher on symbolic inputs *)
Global Opaque salsa20_8.

(* ---------- scryptBlockMix on words ---------- *)
Definition bm_f (B : list N) (X : list N) (i : nat) : list N := salsa20_8 (xor_bytes X (blk 16 i B)).
(* X after n iterations of step 2 *)
Definition bm_X (r : nat) (B : list N) (n : nat) : list N := xs_iter (bm_f B) (blk 16 (2 * r - 1) B) n.
Definition blockmix_w (r : nat) (B : list N) : list N :=
  concat (map (fun j => bm_X r B (2 * j + 1)) (seq 0 r)) ++
  concat (map (fun j => bm_X r B (2 * j + 2)) (seq 0 r)).

Lemma fold_left_ext {A B} (f g : A -> B -> A) : (forall a b, f a b = g a b) ->
  forall l a, fold_left f l a = fold_left g l a.
Proof. intros H. induction l as [|x l IH]; intros a; cbn; [reflexivity|]. now rewrite H, IH. Qed.

Lemma nth_map_seq {A} (g : nat -> A) m k d : (k < m)%nat -> nth k (map g (seq 0 m)) d = g k.
Proof.
  intros H. rewrite (nth_indep _ d (g O)) by (rewrite map_length, seq_length; exact H).
  rewrite map_nth, seq_nth by exact H. reflexivity.
Qed.

Lemma seq_shift_add r : forall m s, map (Nat.add r) (seq s m) = seq (r + s) m.
Proof. induction m as [|m IH]; intros s; cbn [seq map]; [reflexivity|]. now rewrite IH, Nat.add_succ_r. Qed.

Lemma bm_X_ok r B n : words_ok B -> words_ok (bm_X r B n).
Proof.
  intros HB. unfold bm_X. destruct n as [|n]; cbn [xs_iter].
  - unfold blk. now apply words_ok_firstn, words_ok_skipn.
  - unfold bm_f. apply salsa20_8_ok.
Qed.

Lemma bm_X_length r B n : (1 <= r)%nat -> length B = (32 * r)%nat -> (n <= 2 * r)%nat ->
  length (bm_X r B n) = 16%nat.
Proof.
  intros Hr HB. unfold bm_X. induction n as [|n IH]; intros Hn; cbn [xs_iter].
  - apply blk_length. lia.
  - unfold bm_f at 1. rewrite salsa20_8_length, xor_bytes_length, IH by lia.
    rewrite blk_length by lia. reflexivity.
Qed.

(* ---------- RFC scryptBlockMix on octets = blockmix_w on words ---------- *)
Definition bm_fb (B : bytes) (X : bytes) (i : nat) : bytes := salsa20_8_bytes (xor_bytes X (block64 i B)).

Lemma bm_hom B X0 n : words_ok B -> words_ok X0 ->
  xs_iter (bm_fb (w2b B)) (w2b X0) n = w2b (xs_iter (bm_f B) X0 n).
Proof.
  intros HB HX. induction n as [|n IH]; cbn [xs_iter]; [reflexivity|].
  rewrite IH.
  assert (HXn : words_ok (xs_iter (bm_f B) X0 n)).
  { destruct n; cbn [xs_iter]; [assumption|]. unfold bm_f at 1. apply salsa20_8_ok. }
  set (Xn := xs_iter (bm_f B) X0 n) in *. unfold bm_fb, bm_f. rewrite block64_w2b. apply salsa_bytes_w2b.
  - exact HXn.
  - unfold blk. now apply words_ok_firstn, words_ok_skipn.
Qed.

Lemma blockmix_bytes_words r B : words_ok B ->
  scryptBlockMix r (w2b B) = w2b (blockmix_w r B).
Proof.
  intros HB. unfold scryptBlockMix.
  rewrite (fold_left_ext (blockmix_step (w2b B))
            (fun st i => let X' := bm_fb (w2b B) (fst st) i in (X', snd st ++ [X'])))
    by (intros [X Y] i; reflexivity).
  rewrite fold_acc. cbn [snd].
  unfold blockmix_w. rewrite w2b_app, !w2b_concat, !map_map.
  f_equal; f_equal; apply map_ext_in; intros j Hj; apply in_seq in Hj;
    (rewrite nth_map_seq by lia); rewrite block64_w2b, bm_hom;
    try assumption; try (unfold blk; now apply words_ok_firstn, words_ok_skipn);
    unfold bm_X; f_equal; f_equal; lia.
Qed.

(* ---------- the Rust block_mix ---------- *)
(* discharge the checked usize arithmetic and the range checks at the head of a bind chain *)
Ltac arith_steps :=
  repeat (first [ rewrite umul_ok by lia | rewrite uadd_ok by lia | rewrite usub_ok by lia
                | rewrite slice_from_ok by lia | rewrite slice_to_ok by lia ];
          cbn [obind]).

Lemma salsa_xor_blk tmp inn out ka ko :
  length tmp = 16%nat -> (16 * ka + 16 <= length inn)%nat -> (16 * ko + 16 <= length out)%nat ->
  salsa_xor tmp (skipn (16 * ka) inn) (skipn (16 * ko) out)
  = Ok (salsa20_8 (xor_bytes tmp (blk 16 ka inn)),
        salsa20_8 (xor_bytes tmp (blk 16 ka inn)) ++ skipn 16 (skipn (16 * ko) out)).
Proof.
  intros Ht Hi Ho. rewrite salsa_xor_spec by (rewrite ?skipn_length; lia).
  rewrite (firstn_all2 tmp), (skipn_all2 tmp), app_nil_r by lia. reflexivity.
Qed.

(* state after k iterations of the loop in block_mix *)
Definition bm_inv (r : nat) (inn : list N) (k : nat) (st : list N * list N) : Prop :=
  let '(tmp, out) := st in
  tmp = bm_X r inn (2 * k) /\ length out = (32 * r)%nat /\
  forall j, (j < k)%nat ->
    blk 16 j out = bm_X r inn (2 * j + 1) /\ blk 16 (r + j) out = bm_X r inn (2 * j + 2).

Lemma block_mix_body_ok r inn k st :
  (1 <= r)%nat -> 32 * N.of_nat r <= usize_max -> length inn = (32 * r)%nat -> (k < r)%nat ->
  bm_inv r inn k st ->
  exists st', block_mix_body inn (N.of_nat r) (2 * N.of_nat k) st = Ok st' /\ bm_inv r inn (S k) st'.
Proof.
  intros Hr Hmax Hinn Hk. destruct st as [tmp out]. intros (Htmp & Hout & Hblk).
  assert (Ht16 : length tmp = 16%nat) by (rewrite Htmp; apply bm_X_length; lia).
  unfold block_mix_body.
  arith_steps.
  replace (N.to_nat (2 * N.of_nat k * 16)) with (16 * (2 * k))%nat by lia.
  replace (N.to_nat (2 * N.of_nat k * 8)) with (16 * k)%nat by lia.
  rewrite salsa_xor_blk by lia. cbn [obind].
  set (S1 := salsa20_8 (xor_bytes tmp (blk 16 (2 * k) inn))).
  assert (HS1 : S1 = bm_X r inn (2 * k + 1)).
  { unfold S1. rewrite Htmp. unfold bm_X. replace (2 * k + 1)%nat with (S (2 * k)) by lia. reflexivity. }
  assert (HS1l : length S1 = 16%nat) by (rewrite HS1; apply bm_X_length; lia).
  unfold put_from. replace (N.to_nat (2 * N.of_nat k * 8)) with (16 * k)%nat by lia.
  set (out1 := firstn (16 * k) out ++ S1 ++ skipn 16 (skipn (16 * k) out)).
  assert (Hout1 : length out1 = (32 * r)%nat) by (unfold out1; rewrite blk_write_length; lia).
  arith_steps.
  replace (N.to_nat (2 * N.of_nat k * 16 + 16)) with (16 * (2 * k + 1))%nat by lia.
  replace (N.to_nat (2 * N.of_nat k * 8 + N.of_nat r * 16)) with (16 * (r + k))%nat by lia.
  rewrite salsa_xor_blk by lia. cbn [obind].
  set (S2 := salsa20_8 (xor_bytes S1 (blk 16 (2 * k + 1) inn))).
  assert (HS2 : S2 = bm_X r inn (2 * k + 2)).
  { unfold S2. rewrite HS1. unfold bm_X. replace (2 * k + 2)%nat with (S (2 * k + 1)) by lia. reflexivity. }
  assert (HS2l : length S2 = 16%nat) by (rewrite HS2; apply bm_X_length; lia).
  eexists. split; [reflexivity|].
  unfold bm_inv. split; [|split].
  - rewrite HS2. f_equal. lia.
  - rewrite blk_write_length; lia.
  - intros j Hj.
    rewrite !(blk_write 16 (r + k)) by (try reflexivity; lia).
    unfold out1. rewrite !(blk_write 16 k) by (try reflexivity; lia).
    destruct (Nat.eq_dec j k) as [->|Hne].
    + replace (Nat.eqb k (r + k)) with false by (symmetry; apply Nat.eqb_neq; lia).
      rewrite !Nat.eqb_refl. now split.
    + destruct (Hblk j) as [E1 E2]; [lia|].
      replace (Nat.eqb j (r + k)) with false by (symmetry; apply Nat.eqb_neq; lia).
      replace (Nat.eqb j k) with false by (symmetry; apply Nat.eqb_neq; lia).
      replace (Nat.eqb (r + j) (r + k)) with false by (symmetry; apply Nat.eqb_neq; lia).
      replace (Nat.eqb (r + j) k) with false by (symmetry; apply Nat.eqb_neq; lia).
      now split.
Qed.

(* block_mix on words: never panics, returns (last Salsa output, BlockMix(inn)) *)
Lemma block_mix_ok r tmp inn out :
  (1 <= r)%nat -> 32 * N.of_nat r <= usize_max ->
  length tmp = 16%nat -> length inn = (32 * r)%nat -> length out = (32 * r)%nat ->
  block_mix tmp inn out (N.of_nat r) = Ok (bm_X r inn (2 * r), blockmix_w r inn).
Proof.
  intros Hr Hmax Ht Hinn Hout. unfold block_mix.
  arith_steps.
  rewrite block_copy_ok by (rewrite ?skipn_length; lia). cbn [obind].
  arith_steps.
  replace (N.to_nat 16) with 16%nat by reflexivity.
  rewrite (skipn_all2 tmp), app_nil_r by lia.
  replace (N.to_nat ((2 * N.of_nat r - 1) * 16)) with (16 * (2 * r - 1))%nat by lia.
  fold (blk 16 (2 * r - 1) inn).
  destruct (for_step2_inv (bm_inv r inn) (block_mix_body inn (N.of_nat r)) (N.of_nat r)
              (blk 16 (2 * r - 1) inn, out)) as ([tmp' out'] & E & Htmp & Hlen & Hblk).
  - unfold bm_inv. split; [reflexivity|]. split; [assumption|]. intros j Hj. lia.
  - intros k st Hk Hinv. apply block_mix_body_ok; try assumption. lia.
  - rewrite E. rewrite Nat2N.id in *. f_equal. f_equal; [assumption|].
    rewrite (concat_blks 16 (2 * r) out') at 1 by lia.
    replace (2 * r)%nat with (r + r)%nat at 1 by lia.
    rewrite seq_app, map_app, concat_app. cbn [plus]. unfold blockmix_w. f_equal.
    + f_equal. apply map_ext_in. intros j Hj. apply in_seq in Hj. apply Hblk. lia.
    + replace (seq r r) with (map (Nat.add r) (seq 0 r)) by (rewrite seq_shift_add; f_equal; lia).
      rewrite map_map. f_equal.
      apply map_ext_in. intros j Hj. apply in_seq in Hj. apply Hblk. lia.
Qed.

Lemma blockmix_w_length r B : (1 <= r)%nat -> length B = (32 * r)%nat -> length (blockmix_w r B) = (32 * r)%nat.
Proof.
  intros Hr HB. unfold blockmix_w.
  assert (L : forall f : nat -> list N, (forall j, (j < r)%nat -> length (f j) = 16%nat) ->
                 length (concat (map f (seq 0 r))) = (16 * r)%nat).
  { intros f Hf. clear HB Hr. revert f Hf. induction r as [|r' IH]; intros f Hf; [reflexivity|].
    rewrite seq_S, map_app, concat_app, app_length, IH by (intros; apply Hf; lia).
    cbn [map concat plus]. rewrite app_nil_r, Hf by lia. lia. }
  rewrite app_length, !L; [lia| |]; intros j Hj; apply bm_X_length; lia.
Qed.

Lemma blockmix_w_ok r B : words_ok (blockmix_w r B).
Proof.
  unfold blockmix_w. apply words_ok_app. split.
  - induction (seq 0 r) as [|j l IH]; [constructor|]. cbn [map concat]. apply words_ok_app. split; [|exact IH].
    unfold bm_X. replace (2 * j + 1)%nat with (S (2 * j)) by lia. cbn [xs_iter]. unfold bm_f at 1. apply salsa20_8_ok.
  - induction (seq 0 r) as [|j l IH]; [constructor|]. cbn [map concat]. apply words_ok_app. split; [|exact IH].
    unfold bm_X. replace (2 * j + 2)%nat with (S (2 * j + 1)) by lia. cbn [xs_iter]. unfold bm_f at 1. apply salsa20_8_ok.
Qed.

(* block_mix_spec: the Rust block_mix computes RFC 7914 scryptBlockMix (words <-> little-endian
   octets), including the even/odd interleaving; no index is out of range. *)
Theorem block_mix_spec r tmp inn out :
  (1 <= r)%nat -> 32 * N.of_nat r <= usize_max -> words_ok inn ->
  length tmp = 16%nat -> length inn = (32 * r)%nat -> length out = (32 * r)%nat ->
  exists tmp' out', block_mix tmp inn out (N.of_nat r) = Ok (tmp', out') /\
    w2b out' = scryptBlockMix r (w2b inn) /\
    length tmp' = 16%nat /\ length out' = (32 * r)%nat /\ words_ok out'.
Proof.
  intros Hr Hmax Hok Ht Hinn Hout. exists (bm_X r inn (2 * r)), (blockmix_w r inn).
  split; [now apply block_mix_ok|]. split; [symmetry; now apply blockmix_bytes_words|].
  split; [apply bm_X_length; lia|]. split; [now apply blockmix_w_length|apply blockmix_w_ok].
Qed.
