(* Props/C19.v — exported primitives vs their RFC definitions (the provable, structural part). *)
From Kestrel Require Import Bytes Outcome Prims.
From Kestrel.Model Require Import AeadWrap.
From Kestrel.Spec Require Import Sha256 Hmac Hkdf HashFacts ChaCha20 Poly1305 ChaPoly ChaPolyFacts Concrete.
From Kestrel.Proofs Require Import PrimFacts.
Local Open Scope N_scope.

(* RFC 8439 AEAD (Gallina transcription): open inverts seal for ALL keys, nonces, AAD and plaintexts *)
Theorem C19_open_seal : forall k n ad m, aead_open k n ad (aead_seal k n ad m) = Some m.
Proof. exact aead_open_seal. Qed.
Print Assumptions C19_open_seal.

(* ... and open accepts exactly the strings seal produces: any other ciphertext/tag is rejected *)
Theorem C19_open_iff : forall k n ad c m, aead_open k n ad c = Some m <-> c = aead_seal k n ad m.
Proof. exact aead_open_iff. Qed.
Print Assumptions C19_open_iff.

Theorem C19_wrong_tag_rejected : forall k n ad body tag, length tag = 16%nat ->
  tag <> poly1305_mac (poly_key_gen k n) (aead_mac_data ad body) -> aead_open k n ad (body ++ tag) = None.
Proof. exact aead_open_tag. Qed.
Print Assumptions C19_wrong_tag_rejected.

Theorem C19_seal_len : forall k n ad m, length (aead_seal k n ad m) = (length m + 16)%nat.
Proof. exact aead_seal_length. Qed.
Print Assumptions C19_seal_len.

(* wrapper: inputs shorter than a tag are an error value (after fix F1), never a panic *)
Theorem C19_short_rejected : forall P key nonce ct ad,
  length key = 32%nat -> length nonce = 12%nat -> (length ct < 16)%nat ->
  chapoly_decrypt_ietf P key nonce ct ad = Err ChaPolyDecryptError.
Proof. exact aead_short_is_error. Qed.
Print Assumptions C19_short_rejected.

(* Noise-style nonce: 4 zero bytes then the little-endian counter, injective on the whole u64 range *)
Theorem C19_noise_nonce : forall n, noise_nonce n = [0; 0; 0; 0] ++ le64 n.
Proof. exact noise_nonce_layout. Qed.
Print Assumptions C19_noise_nonce.
Theorem C19_noise_nonce_inj : forall n m, n < 18446744073709551616 -> m < 18446744073709551616 ->
  noise_nonce n = noise_nonce m -> n = m.
Proof. exact noise_nonce_inj. Qed.
Print Assumptions C19_noise_nonce_inj.

Theorem C19_hkdf_noise_is_hkdf : forall scr ck ikm, ck <> [] ->
  let '(a, b) := hkdf_noise (rfc_prims scr) ck ikm in a ++ b = hkdf ck ikm [] 64.
Proof. exact hkdf_noise_is_hkdf. Qed.
Print Assumptions C19_hkdf_noise_is_hkdf.

Theorem C19_dh_zero_is_error : forall P k u, length k = 32%nat -> length u = 32%nat ->
  all_zero (p_dh P k u) = true -> x25519 P k u = Err DhError.
Proof. exact x25519_zero_is_error. Qed.
Print Assumptions C19_dh_zero_is_error.

Theorem C19_derive_public_is_base_mult : forall P sk, length sk = 32%nat ->
  x25519_derive_public P sk = Ok (p_dh P sk base_point).
Proof. exact derive_public_is_base_mult. Qed.
Print Assumptions C19_derive_public_is_base_mult.

Theorem C19_hash_lengths : (forall m, length (sha256 m) = 32%nat) /\ (forall k m, length (hmac_sha256 k m) = 32%nat)
  /\ (forall s i info n, (n <= 255 * 32)%nat -> length (hkdf s i info n) = n).
Proof. exact (conj sha256_length (conj hmac_length hkdf_length_le)). Qed.
Print Assumptions C19_hash_lengths.
