(* Props/C19.v — property C19: exported primitives vs their RFC definitions (the provable, structural part).
   PARTIAL.
   Statements only; proofs are in Spec/ChaPolyFacts.v, HashFacts.v, Concrete.v, Proofs/PrimFacts.v, NoiseFacts.v.

   Two layers.  Spec/*.v are Gallina transcriptions of RFC 8439 (ChaCha20, Poly1305, AEAD), RFC 7748 (X25519),
   RFC 5869 (HKDF), RFC 2104 (HMAC), FIPS 180-4 (SHA-256), each closed by the documents' own test vectors
   (Spec/*Kat.v, by computation).  Model/AeadWrap.v are the lib.rs WRAPPERS over an abstract primitive record.
   Proved here, for ALL inputs: the algebra of the RFC AEAD (open inverts seal; open accepts exactly the strings
   seal produces, so every altered ciphertext or tag is rejected; lengths), the wrapper behaviour (length
   preconditions, short input, zero DH result, public key = base-point multiplication, the Noise nonce layout and
   its injectivity on the whole u64 range), the structure of kestrel's own hkdf_noise as RFC 5869 HKDF, HMAC's
   treatment of keys longer than the block, output lengths.
   PARTIAL — NOT proved (named, trusted or only tested):
   * that orion's code equals the RFC functions for all inputs (orion is not modelled — compared by the
     correspondence runs and by the known-answer examples);
   * X25519 symmetry a*B = b*A for all keys ([dh_comm], an explicit hypothesis wherever used; RFC 7748 6.1
     vectors only);
   * rejection of a ciphertext under an altered KEY, NONCE or ASSOCIATED DATA (cryptographic: it is not a
     consequence of the algebra; C19_open_iff covers altered ciphertext and tag);
   * that every low-order point gives an all-zero result for every scalar (three examples in Spec/X25519Kat.v). *)
From Kestrel Require Import Bytes Outcome Prims.
From Kestrel.gen Require Import Extracted.
From Kestrel.Model Require Import AeadWrap.
From Kestrel.Spec Require Import Sha256 Hmac Hkdf HashFacts ChaCha20 Poly1305 ChaPoly ChaPolyFacts X25519 Concrete.
From Kestrel.Proofs Require Import PrimFacts.
Local Open Scope N_scope.

(* RFC 8439 AEAD (Gallina transcription): open inverts seal for ALL keys, nonces, AAD and plaintexts (kept) *)
Theorem C19_open_seal :
  forall k n ad m : bytes, aead_open k n ad (aead_seal k n ad m) = Some m.
Proof. exact (aead_open_seal). Qed.
Print Assumptions C19_open_seal.

(* ... and open accepts exactly the strings seal produces: any other ciphertext/tag is rejected (kept) *)
Theorem C19_open_iff :
  forall k n ad c m : bytes, aead_open k n ad c = Some m <-> c = aead_seal k n ad m.
Proof. exact (aead_open_iff). Qed.
Print Assumptions C19_open_iff.

(* one direction separately: an accepted string is the seal of the returned plaintext *)
Theorem C19_open_inv :
  forall k n ad c m : bytes, aead_open k n ad c = Some m -> c = aead_seal k n ad m.
Proof. exact (aead_open_inv). Qed.
Print Assumptions C19_open_inv.

(* any tag different from the computed one is rejected — the comparison is equality (kept) *)
Theorem C19_wrong_tag_rejected :
  forall (k n ad body : bytes) (tag : list N),
  length tag = 16%nat ->
  tag <> poly1305_mac (poly_key_gen k n) (aead_mac_data ad body) ->
  aead_open k n ad (body ++ tag) = None.
Proof. exact (aead_open_tag). Qed.
Print Assumptions C19_wrong_tag_rejected.

(* (kept) output length = plaintext length + 16 *)
Theorem C19_seal_len :
  forall k n ad m : bytes, length (aead_seal k n ad m) = (length m + 16)%nat.
Proof. exact (aead_seal_length). Qed.
Print Assumptions C19_seal_len.

(* the RFC open on fewer than 16 bytes returns None *)
Theorem C19_open_short :
  forall (k n ad : bytes) (c : list N), (length c < 16)%nat -> aead_open k n ad c = None.
Proof. exact (aead_open_short). Qed.
Print Assumptions C19_open_short.

(* seal is injective in the plaintext *)
Theorem C19_seal_injective :
  forall k n ad m1 m2 : bytes, aead_seal k n ad m1 = aead_seal k n ad m2 -> m1 = m2.
Proof. exact (aead_seal_inj). Qed.
Print Assumptions C19_seal_injective.

(* ChaCha20 encryption is an involution (decryption = encryption) *)
Theorem C19_chacha20_involution :
  forall (k : bytes) (c : N) (n d : bytes), chacha20_encrypt k c n (chacha20_encrypt k c n d) = d.
Proof. exact (chacha20_encrypt_invol). Qed.
Print Assumptions C19_chacha20_involution.

(* wrapper: inputs shorter than a tag are an error value (after fix F1), never a panic (kept) *)
Theorem C19_short_rejected :
  forall (P : prims) (key nonce ct : list N) (ad : bytes),
  length key = 32%nat ->
  length nonce = 12%nat ->
  (length ct < 16)%nat -> chapoly_decrypt_ietf P key nonce ct ad = Err ChaPolyDecryptError.
Proof. exact (aead_short_is_error). Qed.
Print Assumptions C19_short_rejected.

(* wrapper: with a 32-byte key and a 12-byte nonce the result is Ok or Err for every ciphertext *)
Theorem C19_wrapper_open_normal :
  forall (P : prims) (key nonce : list N) (ct ad : bytes),
  length key = 32%nat -> length nonce = 12%nat -> normal (chapoly_decrypt_ietf P key nonce ct ad).
Proof. exact (aead_decrypt_normal). Qed.
Print Assumptions C19_wrapper_open_normal.

(* Noise-style nonce: 4 zero bytes then the little-endian 64-bit counter, for EVERY counter value (kept) *)
Theorem C19_noise_nonce :
  forall n : N, noise_nonce n = [0; 0; 0; 0] ++ le64 n.
Proof. exact (noise_nonce_layout). Qed.
Print Assumptions C19_noise_nonce.

(* ... injective on the whole u64 range (kept) *)
Theorem C19_noise_nonce_inj :
  forall n m : N,
  n < 18446744073709551616 -> m < 18446744073709551616 -> noise_nonce n = noise_nonce m -> n = m.
Proof. exact (noise_nonce_inj). Qed.
Print Assumptions C19_noise_nonce_inj.

(* kestrel's own hkdf_noise(ck, ikm) is the first two 32-byte blocks of RFC 5869 HKDF(salt = ck, ikm, info = "", 64) (kept) *)
Theorem C19_hkdf_noise_is_hkdf :
  forall (scr : bytes -> bytes -> N -> N -> N -> nat -> bytes) (ck : list N) (ikm : bytes),
  ck <> [] -> let '(a, b) := hkdf_noise (rfc_prims scr) ck ikm in a ++ b = hkdf ck ikm [] 64.
Proof. exact (hkdf_noise_is_hkdf). Qed.
Print Assumptions C19_hkdf_noise_is_hkdf.

(* both outputs have 32 bytes *)
Theorem C19_hkdf_noise_lengths :
  forall (scr : bytes -> bytes -> N -> N -> N -> nat -> bytes) (ck ikm : bytes),
  let '(a, b) := hkdf_noise (rfc_prims scr) ck ikm in length a = 32%nat /\ length b = 32%nat.
Proof. exact (hkdf_noise_lengths). Qed.
Print Assumptions C19_hkdf_noise_lengths.

(* HKDF structure: extract is HMAC(salt, ikm) ... *)
Theorem C19_hkdf_extract_is_hmac :
  forall salt ikm : bytes, hkdf_extract salt ikm = hmac_sha256 salt ikm.
Proof. exact (hkdf_extract_hmac). Qed.
Print Assumptions C19_hkdf_extract_is_hmac.

(* ... one block of output is HMAC(prk, info || 01) ... *)
Theorem C19_hkdf_32 :
  forall salt ikm info : bytes,
  hkdf salt ikm info 32 = hmac_sha256 (hkdf_extract salt ikm) (info ++ [1]).
Proof. exact (hkdf_32). Qed.
Print Assumptions C19_hkdf_32.

(* ... two blocks chain as RFC 5869 prescribes *)
Theorem C19_hkdf_64 :
  forall salt ikm info : bytes,
  hkdf salt ikm info 64 =
  (let prk := hkdf_extract salt ikm in
   let t1 := hmac_sha256 prk (info ++ [1]) in t1 ++ hmac_sha256 prk (t1 ++ info ++ [2])).
Proof. exact (hkdf_64). Qed.
Print Assumptions C19_hkdf_64.

(* an empty salt is 32 zero bytes *)
Theorem C19_hkdf_empty_salt :
  forall salt ikm : bytes,
  hkdf salt ikm [] 64 =
  (let prk := hmac_sha256 match salt with
                          | [] => zeros 32
                          | _ :: _ => salt
                          end ikm in
   let t1 := hmac_sha256 prk [1] in t1 ++ hmac_sha256 prk (t1 ++ [2])).
Proof. exact (hkdf_64_empty_info). Qed.
Print Assumptions C19_hkdf_empty_salt.

(* HMAC structure: keys longer than the 64-byte block are hashed first ... *)
Theorem C19_hmac_long_key :
  forall k : list N, (64 < length k)%nat -> hmac_key_block k = sha256 k ++ zeros 32.
Proof. exact (hmac_key_block_long). Qed.
Print Assumptions C19_hmac_long_key.

(* ... shorter ones are zero-padded *)
Theorem C19_hmac_short_key :
  forall k : list N, (length k <= 64)%nat -> hmac_key_block k = k ++ zeros (64 - length k).
Proof. exact (hmac_key_block_short). Qed.
Print Assumptions C19_hmac_short_key.

(* wrapper: an all-zero X25519 result is DhError (kept) *)
Theorem C19_dh_zero_is_error :
  forall (P : prims) (k u : list N),
  length k = 32%nat ->
  length u = 32%nat -> all_zero (p_dh P k u) = true -> AeadWrap.x25519 P k u = Err DhError.
Proof. exact (x25519_zero_is_error). Qed.
Print Assumptions C19_dh_zero_is_error.

(* wrapper: public-key derivation is multiplication of the base point 9 (kept) *)
Theorem C19_derive_public_is_base_mult :
  forall (P : prims) (sk : list N),
  length sk = 32%nat -> x25519_derive_public P sk = Ok (p_dh P sk base_point).
Proof. exact (derive_public_is_base_mult). Qed.
Print Assumptions C19_derive_public_is_base_mult.

(* (kept) output lengths of SHA-256, HMAC-SHA-256 and HKDF (up to 255 * 32 bytes) *)
Theorem C19_hash_lengths :
  (forall m : bytes, length (sha256 m) = 32%nat) /\
  (forall k m : bytes, length (hmac_sha256 k m) = 32%nat) /\
  (forall (s i info : bytes) (n : nat), (n <= 255 * 32)%nat -> length (hkdf s i info n) = n).
Proof. exact (conj sha256_length (conj hmac_length hkdf_length_le)). Qed.
Print Assumptions C19_hash_lengths.

(* X25519 returns 32 bytes *)
Theorem C19_x25519_length :
  forall k u : bytes, length (x25519 k u) = 32%nat.
Proof. exact (x25519_length). Qed.
Print Assumptions C19_x25519_length.

(* the abstract AEAD laws used by all other properties hold for the RFC transcription *)
Theorem C19_rfc_aead_laws :
  forall scr : bytes -> bytes -> N -> N -> N -> nat -> bytes, aead_ok (rfc_prims scr).
Proof. exact (rfc_aead_ok). Qed.
Print Assumptions C19_rfc_aead_laws.

(* ... and the length laws for the hash functions and X25519 (scrypt's output length is a hypothesis on the supplied function) *)
Theorem C19_rfc_hash_laws :
  forall scr : bytes -> bytes -> N -> N -> N -> nat -> list N,
  (forall (pw s : bytes) (n r q : N) (l : nat), length (scr pw s n r q l) = l) ->
  hash_ok (rfc_prims scr).
Proof. exact (rfc_hash_ok). Qed.
Print Assumptions C19_rfc_hash_laws.


(* wrapper hkdf_sha256 (audit finding 5): `derive_key(..).unwrap()` — for every requested length the call either returns the primitive's value (1 <= len <= 8160 = 255 * 32) or PANICS (len = 0, len > 8160); there is no error value *)
Theorem C19_hkdf_sha256_cases :
  forall (P : prims) (salt ikm info : bytes) (len : nat),
  hkdf_sha256 P salt ikm info len = Ok (p_hkdf P salt ikm info len) /\ (1 <= len <= 255 * 32)%nat \/
  hkdf_sha256 P salt ikm info len = Panic PUnwrap /\ (len = 0 \/ 255 * 32 < len)%nat.
Proof. exact (hkdf_sha256_cases). Qed.
Print Assumptions C19_hkdf_sha256_cases.

(* the two panicking ranges separately *)
Theorem C19_hkdf_sha256_panics :
  forall (P : prims) (salt ikm info : bytes) (len : nat),
  (len = 0 \/ 255 * 32 < len)%nat -> hkdf_sha256 P salt ikm info len = Panic PUnwrap.
Proof. exact (hkdf_sha256_panics). Qed.
Print Assumptions C19_hkdf_sha256_panics.

(* on the RFC instance: a returned value IS RFC 5869 HKDF-SHA-256(salt, ikm, info, len), has exactly len bytes, and len is in the RFC's range *)
Theorem C19_hkdf_sha256_is_rfc :
  forall (scr : bytes -> bytes -> N -> N -> N -> nat -> bytes) (salt ikm info : bytes) (len : nat) (out : bytes),
  hkdf_sha256 (rfc_prims scr) salt ikm info len = Ok out ->
  out = hkdf salt ikm info len /\ length out = len /\ (1 <= len <= 255 * 32)%nat.
Proof. exact (hkdf_sha256_is_rfc). Qed.
Print Assumptions C19_hkdf_sha256_is_rfc.

(* kestrel's own calls (key_encrypt / key_decrypt) pass the literal lengths read from the sources: there the wrapper cannot panic and equals the direct use of the primitive made by Model/Files.v *)
Theorem C19_hkdf_sha256_own_calls :
  forall (P : prims) (salt ikm info : bytes),
  hkdf_sha256 P salt ikm info (N.to_nat x_enc_hkdf_len) = Ok (p_hkdf P salt ikm info (N.to_nat x_enc_hkdf_len)) /\
  hkdf_sha256 P salt ikm info (N.to_nat x_dec_hkdf_len) = Ok (p_hkdf P salt ikm info (N.to_nat x_dec_hkdf_len)).
Proof. exact (hkdf_sha256_own_calls). Qed.
Print Assumptions C19_hkdf_sha256_own_calls.
