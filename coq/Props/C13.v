(* Props/C13.v — a failed command never creates or clobbers the output file prematurely.

   Model: Model/Cli.v — the command layer of src/cli/src/commands.rs over an explicit world: a TREE of regular files and
   directories under canonical paths, a current directory, environment variables, stdin.  Path strings are resolved
   component by component ('/', ".", "..", empty components, trailing slash, absolute or relative to the current directory);
   fs_get l p is the regular file seen through the string p, fs_target l p the canonical path p denotes, fs_create_target l p
   where File::create(p) would put a file (None: it fails).  The output given with -o F is commands.rs::OnDemandFile: F is
   created/truncated by the FIRST write or flush CALL of the library run; so
       new_fs = fs   iff   the run made no write/flush call          (sink_touched = false)   [or F cannot be created]
   and otherwise F holds exactly what the sink accepted (w_out).  "For every prior state of the output path (absent,
   present with any content)" is the quantification over the world w.  Every theorem quantifies over the
   primitives P and over the keyring functions (validators, unlock, lock, decode/encode of public keys, UTF-8 codec):
   they hold whatever these are.

   What is proved, and how the pieces chain:
     (1) failure BEFORE the library call (same in/out path, missing input, keyring unspecified / unreadable / not
         UTF-8 / malformed, unknown key name, missing private key, bad public key, password variable unset, no
         terminal, unlock failed = wrong key password, invalid key name ...): file system and stdout untouched.
     (2) the library ran but made no write/flush call: file system untouched.
     (3) LINK (2) to the library: a decrypt run in which NO AEAD open succeeded — wrong password, wrong recipient
         key, corrupted header/salt/handshake, wrong mode, unknown magic, short file, corrupted or truncated first
         chunk — makes no write/flush call (for every input and read script), hence new_fs = fs, exit code 1;
         an encrypt run whose key exchange is refused (all-zero DH) leaves the io state untouched, hence new_fs = fs.
     (4) late failure: the path holds exactly what the sink accepted, exit 1; and (chained with the chunk-layer
         authenticity theorem) that content is a prefix of the honest plaintext under the no-forgery premise.
     (5) key generate: any failure leaves the file system alone.
     (6) THE TREE.  (a) The -o path cannot be created — missing parent directory, a directory at the path, a regular file
         used as a directory, the empty string, a trailing slash (C13_create_fails_iff) — all five commands fail and
         change NOTHING: no file, no directory (C13_bad_output_leaves_fs).  (b) Whatever a command does, the only node of
         the tree that can change is the one the -o path denotes; no directory is ever created or removed; no path string
         changes its meaning (C13_commands_change_only_output).  (c) The input path is a directory: File::open succeeds and
         the first read fails; the two DEcryptors read first and leave everything as it was
         (C13_dir_input_decryptors_leave_fs); the two ENcryptors have by then written and flushed their header: the
         command fails with exit 1 and the -o file holds exactly the 36-byte (password mode) / 132-byte (key mode)
         header, a former content of that file is gone (C13_dir_input_pass_encrypt_leaves_header,
         C13_dir_input_encrypt_leaves_header).  "The input is a directory" is not in the property's list of causes; the
         theorems state what the program does, DESIGN §7.3 discusses it.  (d) One file under two names: when the input
         path and the -o path do not denote the same file, the input file is unchanged after every command
         (C13_input_file_survives); when they do, and the two strings differ, the program's string comparison does not
         notice, the command SUCCEEDS and the input is overwritten (C13_alias_caveat — a proved witness; an observation
         about a successful run, outside C13's text, which is about failing commands).
   PARTIAL / not covered: "bad arguments" (usage errors of main.rs) are in Props/C12.v (C12_usage_error_leaves_fs);
   file-system failures other than a path that cannot be created (permissions, full disk), symbolic links, devices and
   FIFOs are outside the model's world (the direct oracles of the check run them on the real program);
   that a WRONG password produces no successful open is the AEAD's security, a premise here ("no successful open in
   the run's log"), exercised concretely by the harness.  Exit code for key decrypt in (3) is "not 0" unless the
   library returned an error value (then 1): a panic inside the handshake code would be 101. *)
From Kestrel Require Import Bytes Outcome IO Prims.
From Kestrel.gen Require Import Extracted.
From Kestrel.Model Require Import AeadWrap Chunks Noise Files EventPreds KeyringText Getopts CliParse Cli CliStubs CliGlue.
From Kestrel.Proofs Require Import ChunksAuth CliFs CliFacts CliTree CliAlias Combine2Fail Combine2Cli.
Local Open Scope N_scope.

(* (1) every early failure, all five writing commands *)
Theorem C13_failed_command_leaves_fs :
  forall (P : prims) (pk_ok sk_ok : text -> bool) (unlock : text -> bytes -> outcome kerr bytes)
         (lock : bytes -> bytes -> bytes -> text) (decode_pk : text -> outcome kerr bytes) (encode_pk : bytes -> text)
         (utf8_decode : bytes -> option text) (utf8_encode : text -> bytes),
  (forall w o fpk fe, early_failure (status (cmd_encrypt P pk_ok sk_ok unlock decode_pk utf8_decode w o fpk fe)) = true ->
     new_fs (cmd_encrypt P pk_ok sk_ok unlock decode_pk utf8_decode w o fpk fe) = fs w) /\
  (forall w o, early_failure (status (cmd_decrypt P pk_ok sk_ok unlock decode_pk encode_pk utf8_decode w o)) = true ->
     new_fs (cmd_decrypt P pk_ok sk_ok unlock decode_pk encode_pk utf8_decode w o) = fs w) /\
  (forall w o salt, early_failure (status (cmd_pass_encrypt P w o salt)) = true ->
     new_fs (cmd_pass_encrypt P w o salt) = fs w) /\
  (forall w o, early_failure (status (cmd_pass_decrypt P w o)) = true -> new_fs (cmd_pass_decrypt P w o) = fs w) /\
  (forall w o sk salt, early_failure (status (cmd_gen_key P lock encode_pk utf8_decode utf8_encode w o sk salt)) = true ->
     new_fs (cmd_gen_key P lock encode_pk utf8_decode utf8_encode w o sk salt) = fs w).
Proof.
  intros P pk_ok sk_ok unlock lock decode_pk encode_pk utf8_decode utf8_encode.
  exact (failed_command_leaves_fs P pk_ok sk_ok unlock lock decode_pk encode_pk (fun _ => true) utf8_decode utf8_encode).
Qed.
Print Assumptions C13_failed_command_leaves_fs.

(* (1') ANY status produced before the library call (this includes a panic of the unlock / decode functions):
   the result is fail_result w st = (exit code of st, fs w, empty stdout, st) *)
Theorem C13_plan_failure_leaves_fs :
  forall (P : prims) (pk_ok sk_ok : text -> bool) (unlock : text -> bytes -> outcome kerr bytes)
         (lock : bytes -> bytes -> bytes -> text) (decode_pk : text -> outcome kerr bytes) (encode_pk : bytes -> text)
         (utf8_decode : bytes -> option text) (utf8_encode : text -> bytes),
  (forall w o fpk fe st, encrypt_plan pk_ok sk_ok unlock decode_pk utf8_decode w o = inl st ->
     cmd_encrypt P pk_ok sk_ok unlock decode_pk utf8_decode w o fpk fe = fail_result w st) /\
  (forall w o st, decrypt_plan pk_ok sk_ok unlock decode_pk utf8_decode w o = inl st ->
     cmd_decrypt P pk_ok sk_ok unlock decode_pk encode_pk utf8_decode w o = fail_result w st) /\
  (forall w o salt st, pass_encrypt_plan w o salt = inl st -> cmd_pass_encrypt P w o salt = fail_result w st) /\
  (forall w o st, pass_decrypt_plan w o = inl st -> cmd_pass_decrypt P w o = fail_result w st) /\
  (forall w o sk salt st, gen_plan P lock encode_pk utf8_decode w o sk salt = inl st ->
     cmd_gen_key P lock encode_pk utf8_decode utf8_encode w o sk salt = fail_result w st).
Proof. exact plan_failure_leaves_fs. Qed.
Print Assumptions C13_plan_failure_leaves_fs.

(* (2) the library ran (run_* = the library function on the script-free state io0 input) without a write/flush call *)
Theorem C13_no_write_leaves_fs :
  forall (P : prims) (pk_ok sk_ok : text -> bool) (unlock : text -> bytes -> outcome kerr bytes)
         (decode_pk : text -> outcome kerr bytes) (encode_pk : bytes -> text) (utf8_decode : bytes -> option text),
  (forall w o fpk fe j, encrypt_plan pk_ok sk_ok unlock decode_pk utf8_decode w o = inr j ->
     sink_touched (snd (run_enc P fpk fe j)) = false ->
     new_fs (cmd_encrypt P pk_ok sk_ok unlock decode_pk utf8_decode w o fpk fe) = fs w) /\
  (forall w o j, decrypt_plan pk_ok sk_ok unlock decode_pk utf8_decode w o = inr j ->
     sink_touched (snd (run_dec P j)) = false ->
     new_fs (cmd_decrypt P pk_ok sk_ok unlock decode_pk encode_pk utf8_decode w o) = fs w) /\
  (forall w o salt j, pass_encrypt_plan w o salt = inr j ->
     sink_touched (snd (run_penc P salt j)) = false -> new_fs (cmd_pass_encrypt P w o salt) = fs w) /\
  (forall w o j, pass_decrypt_plan w o = inr j ->
     sink_touched (snd (run_pdec P j)) = false -> new_fs (cmd_pass_decrypt P w o) = fs w).
Proof. exact all_no_write_leaves_fs. Qed.
Print Assumptions C13_no_write_leaves_fs.

(* (3a) LIBRARY, password decrypt, EVERY io state s (any input, any read/write script): if none of the events d the
   run added to the log is a successful AEAD open (under any key), then the sink received nothing, no write/flush
   call was made (no_out_ev), and the result is one of the listed errors *)
Theorem C13_lib_pass_decrypt_no_open_no_output :
  forall (P : prims), hash_ok P ->
  forall (pw : bytes) (s : io) (res : outcome derr unit) (s' : io) (d : list event),
  pass_decrypt P pw s = (res, s') -> log s' = d ++ log s ->
  (forall k m ad ct pt, ~ In (EvOpen k m ad ct (Some pt)) d) ->
  w_out (wtr s') = w_out (wtr s) /\ Forall no_out_ev d /\
  (res = Err DChaPolyDecrypt \/ res = Err DChunkLen \/ (exists e, res = Err (DIORead e)) \/
   res = Err DOtherFormat \/ res = Err DOtherWrongMode).
Proof. exact pass_decrypt_no_open_no_output. Qed.
Print Assumptions C13_lib_pass_decrypt_no_open_no_output.

(* (3b) LIBRARY, key decrypt: the same (a handshake that does not verify is DOtherNoise) *)
Theorem C13_lib_key_decrypt_no_open_no_output :
  forall (P : prims), hash_ok P ->
  forall (r rpk : bytes) (s : io) (res : outcome derr bytes) (s' : io) (d : list event),
  key_decrypt P r rpk s = (res, s') -> log s' = d ++ log s ->
  (forall k m ad ct pt, ~ In (EvOpen k m ad ct (Some pt)) d) ->
  w_out (wtr s') = w_out (wtr s) /\ Forall no_out_ev d /\
  (res = Err DChaPolyDecrypt \/ res = Err DChunkLen \/ (exists e, res = Err (DIORead e)) \/
   res = Err DOtherFormat \/ res = Err DOtherWrongMode \/ (exists ne, res = Err (DOtherNoise ne)) \/
   (exists w, res = Panic w) \/ res = OutOfFuel).
Proof. exact key_decrypt_no_open_no_output. Qed.
Print Assumptions C13_lib_key_decrypt_no_open_no_output.

(* (3c) CLI, password decrypt: no successful open in the library run => nothing created, nothing changed, exit 1 *)
Theorem C13_pass_decrypt_wrong_password_leaves_fs :
  forall (P : prims), hash_ok P ->
  forall (w : world) (o : pw_opts) (j : pw_job),
  pass_decrypt_plan w o = inr j ->
  (forall k m ad ct pt, ~ In (EvOpen k m ad ct (Some pt)) (log (snd (run_pdec P j)))) ->
  sink_touched (snd (run_pdec P j)) = false /\
  new_fs (cmd_pass_decrypt P w o) = fs w /\
  stdout (cmd_pass_decrypt P w o) = [] /\
  exit_code (cmd_pass_decrypt P w o) = 1 /\
  (status (cmd_pass_decrypt P w o) = SPassDecryptAuth \/ exists e, status (cmd_pass_decrypt P w o) = SDecryptFailed e).
Proof. exact pass_decrypt_cli_no_open_leaves_fs. Qed.
Print Assumptions C13_pass_decrypt_wrong_password_leaves_fs.

(* (3d) CLI, key decrypt *)
Theorem C13_decrypt_first_chunk_failure_leaves_fs :
  forall (P : prims) (pk_ok sk_ok : text -> bool) (unlock : text -> bytes -> outcome kerr bytes)
         (decode_pk : text -> outcome kerr bytes) (encode_pk : bytes -> text) (utf8_decode : bytes -> option text),
  hash_ok P ->
  forall (w : world) (o : dec_opts) (j : dec_job),
  decrypt_plan pk_ok sk_ok unlock decode_pk utf8_decode w o = inr j ->
  (forall k m ad ct pt, ~ In (EvOpen k m ad ct (Some pt)) (log (snd (run_dec P j)))) ->
  sink_touched (snd (run_dec P j)) = false /\
  new_fs (cmd_decrypt P pk_ok sk_ok unlock decode_pk encode_pk utf8_decode w o) = fs w /\
  stdout (cmd_decrypt P pk_ok sk_ok unlock decode_pk encode_pk utf8_decode w o) = [] /\
  is_success (status (cmd_decrypt P pk_ok sk_ok unlock decode_pk encode_pk utf8_decode w o)) = false /\
  exit_code (cmd_decrypt P pk_ok sk_ok unlock decode_pk encode_pk utf8_decode w o) <> 0 /\
  (forall e, fst (run_dec P j) = Err e ->
     exit_code (cmd_decrypt P pk_ok sk_ok unlock decode_pk encode_pk utf8_decode w o) = 1).
Proof. exact decrypt_cli_no_open_leaves_fs. Qed.
Print Assumptions C13_decrypt_first_chunk_failure_leaves_fs.

(* (3e) CLI, encrypt: the handshake refuses the key exchange (noise_encrypt returns an error) *)
Theorem C13_encrypt_refused_exchange_leaves_fs :
  forall (P : prims) (pk_ok sk_ok : text -> bool) (unlock : text -> bytes -> outcome kerr bytes)
         (decode_pk : text -> outcome kerr bytes) (utf8_decode : bytes -> option text)
         (w : world) (o : enc_opts) (j : enc_job) (fresh_pk fresh_e : bytes) (ne : noise_err),
  encrypt_plan pk_ok sk_ok unlock decode_pk utf8_decode w o = inr j -> length fresh_pk = 32%nat ->
  noise_encrypt P fresh_e (ej_s j) (ej_spk j) (ej_r j) None None x_prologue fresh_pk = Err ne ->
  new_fs (cmd_encrypt P pk_ok sk_ok unlock decode_pk utf8_decode w o fresh_pk fresh_e) = fs w /\
  stdout (cmd_encrypt P pk_ok sk_ok unlock decode_pk utf8_decode w o fresh_pk fresh_e) = [] /\
  exit_code (cmd_encrypt P pk_ok sk_ok unlock decode_pk utf8_decode w o fresh_pk fresh_e) = 1 /\
  status (cmd_encrypt P pk_ok sk_ok unlock decode_pk utf8_decode w o fresh_pk fresh_e) = SEncryptFailed EOther.
Proof. exact encrypt_cli_refused_exchange_leaves_fs. Qed.
Print Assumptions C13_encrypt_refused_exchange_leaves_fs.

(* (3f) the concrete trigger: an all-zero X25519 result in either DH of the handshake (low-order recipient key) *)
Theorem C13_encrypt_dh_zero_leaves_fs :
  forall (P : prims) (pk_ok sk_ok : text -> bool) (unlock : text -> bytes -> outcome kerr bytes)
         (decode_pk : text -> outcome kerr bytes) (utf8_decode : bytes -> option text)
         (w : world) (o : enc_opts) (j : enc_job) (fresh_pk fresh_e : bytes),
  hash_ok P ->
  encrypt_plan pk_ok sk_ok unlock decode_pk utf8_decode w o = inr j ->
  length fresh_pk = 32%nat -> length fresh_e = 32%nat -> length (ej_s j) = 32%nat -> length (ej_r j) = 32%nat ->
  all_zero (p_dh P fresh_e (ej_r j)) = true \/ all_zero (p_dh P (ej_s j) (ej_r j)) = true ->
  new_fs (cmd_encrypt P pk_ok sk_ok unlock decode_pk utf8_decode w o fresh_pk fresh_e) = fs w /\
  stdout (cmd_encrypt P pk_ok sk_ok unlock decode_pk utf8_decode w o fresh_pk fresh_e) = [] /\
  exit_code (cmd_encrypt P pk_ok sk_ok unlock decode_pk utf8_decode w o fresh_pk fresh_e) = 1 /\
  status (cmd_encrypt P pk_ok sk_ok unlock decode_pk utf8_decode w o fresh_pk fresh_e) = SEncryptFailed EOther.
Proof. exact encrypt_cli_dh_zero_leaves_fs. Qed.
Print Assumptions C13_encrypt_dh_zero_leaves_fs.

(* (4) a write/flush call was made on a file that can be created (canonical path cp): F holds exactly what the sink
   accepted; every path string that does not denote F's file shows what it showed; no node other than cp changed; and a
   library error gives exit code 1 *)
Theorem C13_decrypt_late_failure_keeps_prefix :
  forall (P : prims) (pk_ok sk_ok : text -> bool) (unlock : text -> bytes -> outcome kerr bytes)
         (decode_pk : text -> outcome kerr bytes) (encode_pk : bytes -> text) (utf8_decode : bytes -> option text)
         (w : world) (o : dec_opts) (j : dec_job) (F : text) (cp : cpath),
  decrypt_plan pk_ok sk_ok unlock decode_pk utf8_decode w o = inr j -> do_outfile o = Some F ->
  fs_create_target (fs w) F = Some cp ->
  sink_touched (snd (run_dec P j)) = true ->
  fs_get (new_fs (cmd_decrypt P pk_ok sk_ok unlock decode_pk encode_pk utf8_decode w o)) F
    = Some (w_out (wtr (snd (run_dec P j)))) /\
  (forall q, fs_target (fs w) q <> fs_target (fs w) F ->
     fs_get (new_fs (cmd_decrypt P pk_ok sk_ok unlock decode_pk encode_pk utf8_decode w o)) q = fs_get (fs w) q) /\
  (forall cq, cq <> cp ->
     node_at (new_fs (cmd_decrypt P pk_ok sk_ok unlock decode_pk encode_pk utf8_decode w o)) cq = node_at (fs w) cq) /\
  (forall e, fst (run_dec P j) = Err e ->
     exit_code (cmd_decrypt P pk_ok sk_ok unlock decode_pk encode_pk utf8_decode w o) = 1 /\
     status (cmd_decrypt P pk_ok sk_ok unlock decode_pk encode_pk utf8_decode w o) = fin_dec encode_pk (dj_keys j) (Err e)).
Proof. exact decrypt_late_failure_keeps_prefix. Qed.
Print Assumptions C13_decrypt_late_failure_keeps_prefix.

Theorem C13_pass_decrypt_late_failure_keeps_prefix :
  forall (P : prims) (w : world) (o : pw_opts) (j : pw_job) (F : text) (cp : cpath),
  pass_decrypt_plan w o = inr j -> po_outfile o = Some F -> fs_create_target (fs w) F = Some cp ->
  sink_touched (snd (run_pdec P j)) = true ->
  fs_get (new_fs (cmd_pass_decrypt P w o)) F = Some (w_out (wtr (snd (run_pdec P j)))) /\
  (forall q, fs_target (fs w) q <> fs_target (fs w) F -> fs_get (new_fs (cmd_pass_decrypt P w o)) q = fs_get (fs w) q) /\
  (forall cq, cq <> cp -> node_at (new_fs (cmd_pass_decrypt P w o)) cq = node_at (fs w) cq) /\
  (forall e, fst (run_pdec P j) = Err e ->
     exit_code (cmd_pass_decrypt P w o) = 1 /\ status (cmd_pass_decrypt P w o) = fin_pdec (Err e)).
Proof. exact pass_decrypt_late_failure_keeps_prefix. Qed.
Print Assumptions C13_pass_decrypt_late_failure_keeps_prefix.

Theorem C13_encrypt_late_failure_keeps_prefix :
  forall (P : prims) (pk_ok sk_ok : text -> bool) (unlock : text -> bytes -> outcome kerr bytes)
         (decode_pk : text -> outcome kerr bytes) (utf8_decode : bytes -> option text)
         (w : world) (o : enc_opts) (fpk fe : bytes) (j : enc_job) (F : text) (cp : cpath),
  encrypt_plan pk_ok sk_ok unlock decode_pk utf8_decode w o = inr j -> eo_outfile o = Some F ->
  fs_create_target (fs w) F = Some cp ->
  sink_touched (snd (run_enc P fpk fe j)) = true ->
  fs_get (new_fs (cmd_encrypt P pk_ok sk_ok unlock decode_pk utf8_decode w o fpk fe)) F
    = Some (w_out (wtr (snd (run_enc P fpk fe j)))) /\
  (forall q, fs_target (fs w) q <> fs_target (fs w) F ->
     fs_get (new_fs (cmd_encrypt P pk_ok sk_ok unlock decode_pk utf8_decode w o fpk fe)) q = fs_get (fs w) q) /\
  (forall cq, cq <> cp ->
     node_at (new_fs (cmd_encrypt P pk_ok sk_ok unlock decode_pk utf8_decode w o fpk fe)) cq = node_at (fs w) cq) /\
  (forall e, fst (run_enc P fpk fe j) = Err e ->
     exit_code (cmd_encrypt P pk_ok sk_ok unlock decode_pk utf8_decode w o fpk fe) = 1 /\
     status (cmd_encrypt P pk_ok sk_ok unlock decode_pk utf8_decode w o fpk fe) = SEncryptFailed e).
Proof. exact encrypt_late_failure_keeps_prefix. Qed.
Print Assumptions C13_encrypt_late_failure_keeps_prefix.

Theorem C13_pass_encrypt_late_failure_keeps_prefix :
  forall (P : prims) (w : world) (o : pw_opts) (salt : bytes) (j : pw_job) (F : text) (cp : cpath),
  pass_encrypt_plan w o salt = inr j -> po_outfile o = Some F -> fs_create_target (fs w) F = Some cp ->
  sink_touched (snd (run_penc P salt j)) = true ->
  fs_get (new_fs (cmd_pass_encrypt P w o salt)) F = Some (w_out (wtr (snd (run_penc P salt j)))) /\
  (forall q, fs_target (fs w) q <> fs_target (fs w) F -> fs_get (new_fs (cmd_pass_encrypt P w o salt)) q = fs_get (fs w) q) /\
  (forall cq, cq <> cp -> node_at (new_fs (cmd_pass_encrypt P w o salt)) cq = node_at (fs w) cq) /\
  (forall e, fst (run_penc P salt j) = Err e ->
     exit_code (cmd_pass_encrypt P w o salt) = 1 /\ status (cmd_pass_encrypt P w o salt) = SEncryptFailed e).
Proof. exact pass_encrypt_late_failure_keeps_prefix. Qed.
Print Assumptions C13_pass_encrypt_late_failure_keeps_prefix.

(* (4') chained with the authenticity theorem (C03): with -o F, for ANY outcome of password decrypt, either the file
   system is unchanged or the bytes fed to the library (pdec_fed = the input's bytes, unless input and output are one
   file) have a complete header (magic, 32-byte salt) and, for every honest chunk list
   such that no successful open of the run is a forgery under the derived key, F holds a PREFIX of the honest
   plaintext — all of it if the command succeeded; no other path changed; a library error gives exit 1 *)
Theorem C13_pass_decrypt_output_is_authenticated_prefix :
  forall (P : prims), aead_ok P -> hash_ok P ->
  forall (w : world) (o : pw_opts) (j : pw_job) (F : text),
  pass_decrypt_plan w o = inr j -> po_outfile o = Some F ->
  new_fs (cmd_pass_decrypt P w o) = fs w
  \/
  (exists salt rest, length salt = 32%nat /\ pdec_fed P j = x_pass_file_magic ++ salt ++ rest /\
     (forall q, fs_target (fs w) q <> fs_target (fs w) F -> fs_get (new_fs (cmd_pass_decrypt P w o)) q = fs_get (fs w) q) /\
     (forall e, fst (run_pdec P j) = Err e -> exit_code (cmd_pass_decrypt P w o) = 1) /\
     forall chunks,
       no_forgery P (kdf P (pj_pw j) salt) x_pass_file_magic chunks (log (snd (run_pdec P j))) ->
       exists written tl,
         fs_get (new_fs (cmd_pass_decrypt P w o)) F = Some written /\ written ++ tl = concat chunks /\
         (is_success (status (cmd_pass_decrypt P w o)) = true -> written = concat chunks)).
Proof. exact pass_decrypt_cli_authenticated_prefix. Qed.
Print Assumptions C13_pass_decrypt_output_is_authenticated_prefix.

Theorem C13_decrypt_output_is_authenticated_prefix :
  forall (P : prims) (pk_ok sk_ok : text -> bool) (unlock : text -> bytes -> outcome kerr bytes)
         (decode_pk : text -> outcome kerr bytes) (encode_pk : bytes -> text) (utf8_decode : bytes -> option text),
  aead_ok P -> hash_ok P ->
  forall (w : world) (o : dec_opts) (j : dec_job) (F : text),
  decrypt_plan pk_ok sk_ok unlock decode_pk utf8_decode w o = inr j -> do_outfile o = Some F ->
  new_fs (cmd_decrypt P pk_ok sk_ok unlock decode_pk encode_pk utf8_decode w o) = fs w
  \/
  (exists msg rest payload spk hh, length msg = 128%nat /\ dec_fed P j = x_prologue ++ msg ++ rest /\
     noise_decrypt P (dj_r j) (dj_rpk j) x_prologue msg = Ok (payload, spk, hh) /\
     (forall q, fs_target (fs w) q <> fs_target (fs w) F ->
        fs_get (new_fs (cmd_decrypt P pk_ok sk_ok unlock decode_pk encode_pk utf8_decode w o)) q = fs_get (fs w) q) /\
     (forall e, fst (run_dec P j) = Err e ->
        exit_code (cmd_decrypt P pk_ok sk_ok unlock decode_pk encode_pk utf8_decode w o) = 1) /\
     forall chunks,
       no_forgery P (file_key P payload hh) [] chunks (log (snd (run_dec P j))) ->
       exists written tl,
         fs_get (new_fs (cmd_decrypt P pk_ok sk_ok unlock decode_pk encode_pk utf8_decode w o)) F = Some written /\
         written ++ tl = concat chunks /\
         (is_success (status (cmd_decrypt P pk_ok sk_ok unlock decode_pk encode_pk utf8_decode w o)) = true ->
            written = concat chunks /\
            status (cmd_decrypt P pk_ok sk_ok unlock decode_pk encode_pk utf8_decode w o)
              = sender_status encode_pk (dj_keys j) spk)).
Proof. exact decrypt_cli_authenticated_prefix. Qed.
Print Assumptions C13_decrypt_output_is_authenticated_prefix.

(* (5) key generate: ANY failure (there is no late failure) leaves the file system and stdout alone *)
Theorem C13_gen_key_failed_leaves_fs :
  forall (P : prims) (lock : bytes -> bytes -> bytes -> text) (encode_pk : bytes -> text)
         (utf8_decode : bytes -> option text) (utf8_encode : text -> bytes)
         (w : world) (o : gen_opts) (sk salt : bytes),
  is_success (status (cmd_gen_key P lock encode_pk utf8_decode utf8_encode w o sk salt)) = false ->
  new_fs (cmd_gen_key P lock encode_pk utf8_decode utf8_encode w o sk salt) = fs w /\
  stdout (cmd_gen_key P lock encode_pk utf8_decode utf8_encode w o sk salt) = [].
Proof. exact gen_key_failed_leaves_fs. Qed.
Print Assumptions C13_gen_key_failed_leaves_fs.

(* ====================================================================================== *)
(* (6) the tree: output paths that cannot be created, directory inputs, one file under two names *)
(* ====================================================================================== *)

(* (6a) where File::create fails: the string does not resolve (empty, a missing or non-directory component, a
   trailing slash on something that is not a directory) or it names a directory *)
Theorem C13_create_fails_iff :
  forall (l : fsys) (p : text),
  fs_create_target l p = None <-> (resolve l p = None \/ exists cp, resolve l p = Some (cp, Some NDir)).
Proof. exact create_fails_iff. Qed.
Print Assumptions C13_create_fails_iff.

(* the empty string never resolves; a path THROUGH an absent name or through a regular file never resolves *)
Theorem C13_unresolvable_paths :
  (forall l, resolve l [] = None) /\
  (forall l d c rest md, node_at l (d ++ [c]) = None -> rest <> [] ->
     text_eqb c s_dot = false -> text_eqb c s_dotdot = false -> walk l d (c :: rest) md = None) /\
  (forall l d c x rest md, node_at l (d ++ [c]) = Some (NFile x) -> rest <> [] ->
     text_eqb c s_dot = false -> text_eqb c s_dotdot = false -> walk l d (c :: rest) md = None).
Proof. exact (conj resolve_empty (conj walk_missing_dir walk_through_file)). Qed.
Print Assumptions C13_unresolvable_paths.

(* all five writing commands: the -o path cannot be created => new_fs = fs (no file, no directory), empty stdout, no
   success, exit code not 0 *)
Theorem C13_bad_output_leaves_fs :
  forall (P : prims) (pk_ok sk_ok : text -> bool) (unlock : text -> bytes -> outcome kerr bytes)
         (lock : bytes -> bytes -> bytes -> text) (decode_pk : text -> outcome kerr bytes) (encode_pk : bytes -> text)
         (utf8_decode : bytes -> option text) (utf8_encode : text -> bytes),
  (forall w o fpk fe F, eo_outfile o = Some F -> fs_create_target (fs w) F = None ->
     failed_clean w (cmd_encrypt P pk_ok sk_ok unlock decode_pk utf8_decode w o fpk fe)) /\
  (forall w o F, do_outfile o = Some F -> fs_create_target (fs w) F = None ->
     failed_clean w (cmd_decrypt P pk_ok sk_ok unlock decode_pk encode_pk utf8_decode w o)) /\
  (forall w o salt F, po_outfile o = Some F -> fs_create_target (fs w) F = None ->
     failed_clean w (cmd_pass_encrypt P w o salt)) /\
  (forall w o F, po_outfile o = Some F -> fs_create_target (fs w) F = None -> failed_clean w (cmd_pass_decrypt P w o)) /\
  (forall w o sk salt F, go_outfile o = Some F -> fs_create_target (fs w) F = None ->
     failed_clean w (cmd_gen_key P lock encode_pk utf8_decode utf8_encode w o sk salt)).
Proof. exact bad_output_leaves_fs. Qed.
Print Assumptions C13_bad_output_leaves_fs.

(* (6b) every command, every outcome: only the node the -o path denotes can change; every path string that does not
   denote it shows the same bytes; no path string changes its meaning (so no directory was created or removed); the
   current directory stays *)
Theorem C13_commands_change_only_output :
  forall (P : prims) (pk_ok sk_ok : text -> bool) (unlock : text -> bytes -> outcome kerr bytes)
         (lock : bytes -> bytes -> bytes -> text) (decode_pk : text -> outcome kerr bytes) (encode_pk : bytes -> text)
         (utf8_decode : bytes -> option text) (utf8_encode : text -> bytes),
  (forall w o fpk fe, only_output_changes w (eo_outfile o) (cmd_encrypt P pk_ok sk_ok unlock decode_pk utf8_decode w o fpk fe)) /\
  (forall w o, only_output_changes w (do_outfile o) (cmd_decrypt P pk_ok sk_ok unlock decode_pk encode_pk utf8_decode w o)) /\
  (forall w o salt, only_output_changes w (po_outfile o) (cmd_pass_encrypt P w o salt)) /\
  (forall w o, only_output_changes w (po_outfile o) (cmd_pass_decrypt P w o)) /\
  (forall w o sk salt, only_output_changes w (go_outfile o) (cmd_gen_key P lock encode_pk utf8_decode utf8_encode w o sk salt)).
Proof. exact commands_change_only_output. Qed.
Print Assumptions C13_commands_change_only_output.

(* a well-formed tree (every node other than the root sits in a directory; the current directory is a directory) stays
   well-formed under every command, whatever its outcome: in particular no file ever appears below something that is not
   a directory *)
Theorem C13_tree_stays_well_formed :
  forall (P : prims) (pk_ok sk_ok : text -> bool) (unlock : text -> bytes -> outcome kerr bytes)
         (lock : bytes -> bytes -> bytes -> text) (decode_pk : text -> outcome kerr bytes) (encode_pk : bytes -> text)
         (utf8_decode : bytes -> option text) (utf8_encode : text -> bytes),
  (forall w o fpk fe, fs_wf (fs w) -> fs_wf (new_fs (cmd_encrypt P pk_ok sk_ok unlock decode_pk utf8_decode w o fpk fe))) /\
  (forall w o, fs_wf (fs w) -> fs_wf (new_fs (cmd_decrypt P pk_ok sk_ok unlock decode_pk encode_pk utf8_decode w o))) /\
  (forall w o salt, fs_wf (fs w) -> fs_wf (new_fs (cmd_pass_encrypt P w o salt))) /\
  (forall w o, fs_wf (fs w) -> fs_wf (new_fs (cmd_pass_decrypt P w o))) /\
  (forall w o sk salt, fs_wf (fs w) -> fs_wf (new_fs (cmd_gen_key P lock encode_pk utf8_decode utf8_encode w o sk salt))).
Proof. exact commands_keep_wf. Qed.
Print Assumptions C13_tree_stays_well_formed.

(* (6c) the input path is a directory.  Decryptors: nothing written, nothing changed; when every earlier step passed the
   status is the read error ("Ciphertext read failed: Is a directory"), exit 1 *)
Theorem C13_dir_input_decryptors_leave_fs :
  forall (P : prims) (pk_ok sk_ok : text -> bool) (unlock : text -> bytes -> outcome kerr bytes)
         (decode_pk : text -> outcome kerr bytes) (encode_pk : bytes -> text) (utf8_decode : bytes -> option text),
  (forall w o p, do_infile o = Some p -> is_dir (fs w) p ->
     new_fs (cmd_decrypt P pk_ok sk_ok unlock decode_pk encode_pk utf8_decode w o) = fs w /\
     stdout (cmd_decrypt P pk_ok sk_ok unlock decode_pk encode_pk utf8_decode w o) = [] /\
     is_success (status (cmd_decrypt P pk_ok sk_ok unlock decode_pk encode_pk utf8_decode w o)) = false /\
     (forall j, decrypt_plan pk_ok sk_ok unlock decode_pk utf8_decode w o = inr j ->
        status (cmd_decrypt P pk_ok sk_ok unlock decode_pk encode_pk utf8_decode w o) = SDecryptFailed (DIORead OtherErr) /\
        exit_code (cmd_decrypt P pk_ok sk_ok unlock decode_pk encode_pk utf8_decode w o) = 1)) /\
  (forall w o p, po_infile o = Some p -> is_dir (fs w) p ->
     new_fs (cmd_pass_decrypt P w o) = fs w /\ stdout (cmd_pass_decrypt P w o) = [] /\
     is_success (status (cmd_pass_decrypt P w o)) = false /\
     (forall j, pass_decrypt_plan w o = inr j ->
        status (cmd_pass_decrypt P w o) = SDecryptFailed (DIORead OtherErr) /\ exit_code (cmd_pass_decrypt P w o) = 1)).
Proof. exact dir_input_decryptors_leave_fs. Qed.
Print Assumptions C13_dir_input_decryptors_leave_fs.

(* password encrypt on a directory, -o F (F can be created at cp), every earlier step passed: exit 1 with the read
   error ("Plaintext read failed: Is a directory"); F holds EXACTLY the 36-byte header (magic ++ salt) — created if it
   was absent, its former content replaced if it was present; nothing else changed.  This is what the program does;
   whether it is in the spirit of the property for this cause is discussed in DESIGN §7.3. *)
Theorem C13_dir_input_pass_encrypt_leaves_header :
  forall (P : prims) (w : world) (o : pw_opts) (salt : bytes) (p F : text) (cp : cpath) (j : pw_job),
  po_infile o = Some p -> is_dir (fs w) p -> po_outfile o = Some F -> fs_create_target (fs w) F = Some cp ->
  pass_encrypt_plan w o salt = inr j ->
  status (cmd_pass_encrypt P w o salt) = SEncryptFailed (EIORead OtherErr) /\
  exit_code (cmd_pass_encrypt P w o salt) = 1 /\ stdout (cmd_pass_encrypt P w o salt) = [] /\
  fs_get (new_fs (cmd_pass_encrypt P w o salt)) F = Some (x_pass_file_magic ++ salt) /\
  (forall q, fs_target (fs w) q <> fs_target (fs w) F -> fs_get (new_fs (cmd_pass_encrypt P w o salt)) q = fs_get (fs w) q) /\
  (forall cq, cq <> cp -> node_at (new_fs (cmd_pass_encrypt P w o salt)) cq = node_at (fs w) cq).
Proof. exact pass_encrypt_dir_input. Qed.
Print Assumptions C13_dir_input_pass_encrypt_leaves_header.

(* encrypt on a directory: the same with the 4-byte prologue and the handshake message (132 bytes in the real program) *)
Theorem C13_dir_input_encrypt_leaves_header :
  forall (P : prims) (pk_ok sk_ok : text -> bool) (unlock : text -> bytes -> outcome kerr bytes)
         (decode_pk : text -> outcome kerr bytes) (utf8_decode : bytes -> option text)
         (w : world) (o : enc_opts) (fpk fe : bytes) (p F : text) (cp : cpath) (j : enc_job) (msg hh : bytes),
  eo_infile o = Some p -> is_dir (fs w) p -> eo_outfile o = Some F -> fs_create_target (fs w) F = Some cp ->
  encrypt_plan pk_ok sk_ok unlock decode_pk utf8_decode w o = inr j -> length fpk = 32%nat ->
  noise_encrypt P fe (ej_s j) (ej_spk j) (ej_r j) None None x_prologue fpk = Ok (msg, hh) ->
  status (cmd_encrypt P pk_ok sk_ok unlock decode_pk utf8_decode w o fpk fe) = SEncryptFailed (EIORead OtherErr) /\
  exit_code (cmd_encrypt P pk_ok sk_ok unlock decode_pk utf8_decode w o fpk fe) = 1 /\
  stdout (cmd_encrypt P pk_ok sk_ok unlock decode_pk utf8_decode w o fpk fe) = [] /\
  fs_get (new_fs (cmd_encrypt P pk_ok sk_ok unlock decode_pk utf8_decode w o fpk fe)) F = Some (x_prologue ++ msg) /\
  (forall q, fs_target (fs w) q <> fs_target (fs w) F ->
     fs_get (new_fs (cmd_encrypt P pk_ok sk_ok unlock decode_pk utf8_decode w o fpk fe)) q = fs_get (fs w) q) /\
  (forall cq, cq <> cp ->
     node_at (new_fs (cmd_encrypt P pk_ok sk_ok unlock decode_pk utf8_decode w o fpk fe)) cq = node_at (fs w) cq).
Proof. exact encrypt_dir_input. Qed.
Print Assumptions C13_dir_input_encrypt_leaves_header.

(* (6d) POSITIVE: the input path and the -o path (if any) do not denote the same file => the input file is what it was,
   after every streaming command, whatever its outcome *)
Theorem C13_input_file_survives :
  forall (P : prims) (pk_ok sk_ok : text -> bool) (unlock : text -> bytes -> outcome kerr bytes)
         (decode_pk : text -> outcome kerr bytes) (encode_pk : bytes -> text) (utf8_decode : bytes -> option text),
  (forall w o fpk fe p, eo_infile o = Some p -> other_file (fs w) (eo_outfile o) p ->
     fs_get (new_fs (cmd_encrypt P pk_ok sk_ok unlock decode_pk utf8_decode w o fpk fe)) p = fs_get (fs w) p) /\
  (forall w o p, do_infile o = Some p -> other_file (fs w) (do_outfile o) p ->
     fs_get (new_fs (cmd_decrypt P pk_ok sk_ok unlock decode_pk encode_pk utf8_decode w o)) p = fs_get (fs w) p) /\
  (forall w o salt p, po_infile o = Some p -> other_file (fs w) (po_outfile o) p ->
     fs_get (new_fs (cmd_pass_encrypt P w o salt)) p = fs_get (fs w) p) /\
  (forall w o p, po_infile o = Some p -> other_file (fs w) (po_outfile o) p ->
     fs_get (new_fs (cmd_pass_decrypt P w o)) p = fs_get (fs w) p).
Proof. exact input_file_survives. Qed.
Print Assumptions C13_input_file_survives.

(* CAVEAT (an observation about the program, not a violation of this property, which speaks of FAILING commands):
   there is a world and an argv — `password encrypt in -o ./in --env-pass` — whose input and output arguments differ as
   strings and denote one regular file; the program's same-path test compares the strings and does not fire; the command
   exits 0 with status SOk; afterwards the input file no longer holds its content; every other file is untouched. *)
Theorem C13_alias_caveat :
  exists (w : world) (argv : list text) (infile outfile : text) (before after : bytes),
    argv = [a_kestrel; a_password; a_encrypt; infile; a_o; outfile; a_env_pass] /\
    infile <> outfile /\
    fs_target (fs w) infile = fs_target (fs w) outfile /\
    fs_get (fs w) infile = Some before /\
    let r := s_main w argv (zeros 32) [] in
    m_exit r = 0 /\ m_status r = MCmd SOk /\
    fs_get (m_fs r) infile = Some after /\ after <> before /\
    (forall q, fs_target (fs w) q <> fs_target (fs w) infile -> fs_get (m_fs r) q = fs_get (fs w) q).
Proof. exact alias_destroys_input. Qed.
Print Assumptions C13_alias_caveat.
