(* Props/C13.v — PLACEHOLDER created by the check-writer for local testing only; to be replaced by the
   real theorems of property C13. *)
Example C13_placeholder : True.
Proof. exact I. Qed.
Print Assumptions C13_placeholder.
