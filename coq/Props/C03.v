(* Props/C03.v — property C03: accepted ciphertext always yields exactly the sender's complete plaintext.
   Statements only; proofs are in Proofs/ChunksAuth.v, CombineAuth.v, CombineChunks.v, CombineTamper.v.

   Two kinds of theorem.
   (A) AUTHENTICITY, for EVERY offered byte string and EVERY I/O script (short reads, faults, anything):
       no premise relates the offered bytes to honest files, so bit flips, truncation, extension, reordering,
       duplication, dropping and splicing of chunks or header fields are all instances.  The cryptographic
       step is an explicit premise over the run's own event log, never proved: every AEAD open that SUCCEEDED
       during the run opened one of the honest file's seals under that file's key ([no_forgery] for one
       stream, [honest_open] for several streams with pairwise distinct keys — the no-forgery / key-separation
       idealisation of ChaCha20-Poly1305).  In that sense these theorems are PARTIAL, as planned in DESIGN 4.
       Conclusion: what reached the sink is a prefix of ONE honest plaintext, and Ok means all of it.
   (B) FRAMING corollaries with NO cryptographic premise (AEAD correctness only): every proper prefix of an
       honest stream / file is rejected; an honest stream / file followed by >= 1 byte is rejected.
   Also stated here: overwriting the advisory 8-byte per-record counter field leaves outcome and output
   unchanged (C03_counter_advisory), and a length field above the chunk size is rejected before it sizes a
   read (C03_len_bound).  The rejection of single-bit changes outside the counter field is an instance of (A)
   under the no-forgery premise, not an unconditional theorem.
   Key mode: authenticity of the whole file incl. the handshake — fields and chunks of different honest files
   cannot be recombined — is C03_key_authentic (premises: no forgery among the opens of the run, SHA-256 injective on
   the finite list of hash inputs that occur, honest ephemeral/file keys distinct); the counter field is advisory
   (C03_counter_advisory) and an over-long length field is rejected before it sizes a read (C03_len_bound). *)
From Kestrel Require Import Bytes Outcome IO IOFacts Prims.
From Kestrel.gen Require Import Extracted.
From Kestrel.Model Require Import AeadWrap Chunks Noise NoiseSpec Files EventPreds FilesSpec ChunksSpec ChunksRobustDefs CombineDefs KeyAuthDefs.
From Kestrel.Proofs Require Import ChunksDec ChunksAuth CombineFiles CombineChunks CombineAuth CombineTamper LogIndep KeyAuth KeyAuthToy.
Local Open Scope N_scope.

(* (A) chunk layer, one honest stream.  Every offered byte string, every io state (any script, faults included), every key/aad/chunk size, every honest chunk list: if no successful open of the run is a forgery, the sink received a prefix of the honest plaintext, and Ok means it received all of it.  (kept from the earlier version) *)
Theorem C03_chunks_authentic :
  forall (P : prims) (key : list N) (aad : bytes) (cs : N) (chunks : list bytes),
  length key = 32%nat ->
  aead_ok P ->
  forall (s : io) (res : outcome derr unit) (s1 : io),
  decrypt_chunks P key aad cs s = (res, s1) ->
  no_forgery P key aad chunks (log s1) ->
  (exists written rest : list N,
     w_out (wtr s1) = w_out (wtr s) ++ written /\ written ++ rest = concat chunks) /\
  (res = Ok tt -> w_out (wtr s1) = w_out (wtr s) ++ concat chunks).
Proof. exact (fun P key aad cs chunks Hk Ha s res s1 => dec_auth_top P Ha key aad cs chunks s res s1 Hk). Qed.
Print Assumptions C03_chunks_authentic.

(* (A) finer: what was written is whole honest chunks j..j'-1, plus a cut piece of chunk j' only when the sink itself failed in the middle of a write (then the result is that write error)  (kept) *)
Theorem C03_chunks_whole :
  forall (P : prims) (key aad : bytes) (cs : N),
  length key = 32%nat ->
  aead_ok P ->
  forall (chunks : list bytes) (fuel j : nat) (s : io) (res : outcome derr unit) (s' : io),
  (j <= length chunks)%nat ->
  decrypt_chunks_loop P fuel key aad cs (N.of_nat j) s = (res, s') ->
  no_forgery P key aad chunks (log s') -> post chunks j s res s'.
Proof. exact (dec_auth). Qed.
Print Assumptions C03_chunks_whole.

(* (A) several honest streams (key_i, chunks_i) with pairwise distinct keys, same associated data.  Premise: every successful open of the run is an honest seal of some listed stream under that stream's key.  Then either the run's key belongs to no listed stream — and it failed with the sink untouched — or it is the key of exactly one listed stream, and what was released is a prefix of THAT stream's plaintext, all of it if Ok.  Records of other authentic files cannot be spliced in. *)
Theorem C03_chunks_authentic_multi :
  forall P : prims,
  aead_ok P ->
  forall (files : list (bytes * list bytes)) (key' : list N) (aad : bytes) (cs : N) 
    (s : io) (res : outcome derr unit) (s' : io),
  length key' = 32%nat ->
  NoDup (map fst files) ->
  decrypt_chunks P key' aad cs s = (res, s') ->
  Forall (honest_open P files aad) (log s') ->
  (forall chunks : list bytes, ~ In (key', chunks) files) /\
  (exists e : derr, res = Err e) /\ w_out (wtr s') = w_out (wtr s) \/
  (exists chunks : list bytes, In (key', chunks) files /\ released_prefix s s' res chunks).
Proof. exact (dec_auth_multi). Qed.
Print Assumptions C03_chunks_authentic_multi.

(* what [released_prefix s s' res chunks] says, unfolded (by definition): the bytes appended to the sink are a prefix of the honest plaintext, and Ok means all of it was appended *)
Theorem C03_released_prefix_meaning :
  forall (s s' : io) (res : outcome derr unit) (chunks : list bytes),
  released_prefix s s' res chunks <->
  (exists written rest : list N,
     w_out (wtr s') = w_out (wtr s) ++ written /\ written ++ rest = concat chunks) /\
  (res = Ok tt -> w_out (wtr s') = w_out (wtr s) ++ concat chunks).
Proof. exact (released_prefix_unfold). Qed.
Print Assumptions C03_released_prefix_meaning.

(* what the premise [honest_open] requires of a successful open event (by definition); all other events satisfy it trivially *)
Theorem C03_honest_open_meaning :
  forall (P : prims) (files : list (bytes * list bytes)) (aad key : bytes) (n : N) (ad ct pt : bytes),
  honest_open P files aad (EvOpen key n ad ct (Some pt)) <->
  (exists chunks : list bytes,
     In (key, chunks) files /\ In (n, ad, ct) (seal_log_from P key aad 0 chunks)).
Proof. exact (honest_open_unfold). Qed.
Print Assumptions C03_honest_open_meaning.

(* (A) password FILE level, one honest file (pw, salt, chunks).  For EVERY io state — any offered bytes (header included: wrong magic, other salt, truncated header ...), any script — and ANY password pw' used for decryption: under the premise that every successful open of the run is an honest seal of that file under scrypt(pw, salt), what pass_decrypt released is a prefix of the honest plaintext, and Ok means exactly the honest plaintext. *)
Theorem C03_pass_file_authentic :
  forall P : prims,
  aead_ok P ->
  hash_ok P ->
  forall (pw salt : bytes) (chunks : list bytes) (pw' : bytes) (s : io) (res : outcome derr unit)
    (s' : io),
  pass_decrypt P pw' s = (res, s') ->
  Forall (honest_open P [(kdf P pw salt, chunks)] x_pass_file_magic) (log s') ->
  released_prefix s s' res chunks.
Proof. exact (pass_file_authentic). Qed.
Print Assumptions C03_pass_file_authentic.

(* (A) password FILE level, several honest files (pw_i, salt_i, chunks_i) with pairwise distinct derived keys.  Every io state.  Either the run failed with the sink untouched, or the offered bytes begin magic ++ salt' (salt' is whatever 32 bytes follow the magic — possibly taken from another file), scrypt(pw, salt') is the key of exactly one honest file i, and a prefix of file i's plaintext was released — all of it if Ok.  A salt or chunks moved in from another authentic file can therefore only yield that other file's complete plaintext, or an error. *)
Theorem C03_pass_files_authentic_multi :
  forall P : prims,
  aead_ok P ->
  hash_ok P ->
  forall (files : list (bytes * bytes * list bytes)) (pw : bytes) (s : io) (res : outcome derr unit)
    (s' : io),
  NoDup (map fst (pass_keyed P files)) ->
  pass_decrypt P pw s = (res, s') ->
  Forall (honest_open P (pass_keyed P files) x_pass_file_magic) (log s') ->
  (exists e : derr, res = Err e) /\ w_out (wtr s') = w_out (wtr s) \/
  (exists (pwi salti : bytes) (chunks : list bytes) (salt' rest : list N),
     In (pwi, salti, chunks) files /\
     r_data (rdr s) = x_pass_file_magic ++ salt' ++ rest /\
     length salt' = 32%nat /\ kdf P pw salt' = kdf P pwi salti /\ released_prefix s s' res chunks).
Proof. exact (pass_decrypt_authentic). Qed.
Print Assumptions C03_pass_files_authentic_multi.

(* (A) key FILE level, PARTIAL: the chunk stream is authentic relative to the file key the handshake yields.  Every io state, honest streams listed by file key (pairwise distinct).  Either no sender is reported and the sink is untouched, or the offered bytes begin prologue ++ msg where msg verified as a Noise handshake under (r, rpk) and yielded (payload, spk, hh); HKDF(payload, hh) is the key of exactly one honest stream, a prefix of whose plaintext was released; Ok reports that spk and means all of it was released.  NOT covered: that (payload, spk, hh) can only come from an honest handshake (cryptographic), and that handshake fields of different files cannot be recombined. *)
Theorem C03_key_chunks_authentic_partial :
  forall P : prims,
  aead_ok P ->
  hash_ok P ->
  forall (files : list (bytes * list bytes)) (r rpk : bytes) (s : io) (res : outcome derr bytes)
    (s' : io),
  NoDup (map fst files) ->
  key_decrypt P r rpk s = (res, s') ->
  Forall (honest_open P files []) (log s') ->
  (forall spk : bytes, res <> Ok spk) /\ w_out (wtr s') = w_out (wtr s) \/
  (exists (msg rest : list N) (payload spk hh : bytes) (chunks : list bytes),
     r_data (rdr s) = x_prologue ++ msg ++ rest /\
     length msg = 128%nat /\
     noise_decrypt P r rpk x_prologue msg = Ok (payload, spk, hh) /\
     In (file_key P payload hh, chunks) files /\
     (exists written more : list N,
        w_out (wtr s') = w_out (wtr s) ++ written /\ written ++ more = concat chunks) /\
     (forall spk' : bytes,
      res = Ok spk' -> spk' = spk /\ w_out (wtr s') = w_out (wtr s) ++ concat chunks)).
Proof. exact (key_decrypt_chunks_authentic). Qed.
Print Assumptions C03_key_chunks_authentic_partial.

(* (B) no cryptographic premise.  Honest stream F = spec_chunks key aad chunks (chunks non-empty, each <= cs < 2^32).  data is any PROPER prefix of F (data ++ suffix = F, suffix non-empty): truncation at every offset.  For EVERY io state with that data — every script, faults and zero-length reads included — the result is not Ok, and the sink holds a prefix of the honest plaintext. *)
Theorem C03_prefix_rejected :
  forall (P : prims) (key aad : bytes) (cs : N),
  length key = 32%nat ->
  aead_ok P ->
  cs < 4294967296 ->
  forall (chunks : list bytes) (data suffix : list N) (s : io) (res : outcome derr unit) (s' : io),
  chunks <> [] ->
  Forall (chunk_ok cs) chunks ->
  data ++ suffix = spec_chunks P key aad chunks ->
  suffix <> [] ->
  r_data (rdr s) = data ->
  decrypt_chunks P key aad cs s = (res, s') ->
  res <> Ok tt /\
  (exists written more : list N,
     w_out (wtr s') = w_out (wtr s) ++ written /\ concat chunks = written ++ more).
Proof. exact (dec_prefix_rejected). Qed.
Print Assumptions C03_prefix_rejected.

(* (B) the same under conforming scripts, exactly: the error is the read error of a short file (DIORead OtherErr) and exactly the first j whole chunks were released, j < number of chunks *)
Theorem C03_prefix_rejected_conforming :
  forall (P : prims) (key aad : bytes) (cs : N),
  length key = 32%nat ->
  aead_ok P ->
  cs < 4294967296 ->
  forall (chunks : list bytes) (data suffix : list N) (s : io),
  chunks <> [] ->
  Forall (chunk_ok cs) chunks ->
  data ++ suffix = spec_chunks P key aad chunks ->
  suffix <> [] ->
  reader_ok (rdr s) ->
  writer_ok (wtr s) ->
  r_data (rdr s) = data ->
  exists (s' : io) (j : nat),
    (j < length chunks)%nat /\
    decrypt_chunks P key aad cs s = (Err (DIORead OtherErr), s') /\
    w_out (wtr s') = w_out (wtr s) ++ concat (firstn j chunks).
Proof. exact (dec_prefix_rejected_conforming). Qed.
Print Assumptions C03_prefix_rejected_conforming.

(* (B) honest stream followed by at least one byte (F ++ x :: rest), conforming scripts: the result is Err DUnexpectedData and exactly the non-final chunks were written — the final chunk is withheld *)
Theorem C03_extension_rejected :
  forall (P : prims) (key aad : bytes) (cs : N),
  length key = 32%nat ->
  aead_ok P ->
  cs < 4294967296 ->
  forall (chunks : list bytes) (x : N) (rest : list N) (s : io),
  chunks <> [] ->
  Forall (chunk_ok cs) chunks ->
  reader_ok (rdr s) ->
  writer_ok (wtr s) ->
  r_data (rdr s) = spec_chunks P key aad chunks ++ x :: rest ->
  exists s' : io,
    decrypt_chunks P key aad cs s = (Err DUnexpectedData, s') /\
    w_out (wtr s') = w_out (wtr s) ++ concat (removelast chunks).
Proof. exact (dec_extension_rejected). Qed.
Print Assumptions C03_extension_rejected.

(* (B) the same offered bytes under EVERY script: the sink only ever holds a prefix of the honest plaintext; Ok implies exactly the complete plaintext was written; and if no read returns 0 bytes while data remains (the Read contract) the result is never Ok and at most the non-final chunks were written.  (The zero-length-read caveat is real: see C10_zero_read_caveat.) *)
Theorem C03_extension_any_script :
  forall (P : prims) (key aad : bytes) (cs : N),
  length key = 32%nat ->
  aead_ok P ->
  cs < 4294967296 ->
  forall (chunks : list bytes) (x : N) (rest : list N) (s : io) (res : outcome derr unit) (s' : io),
  chunks <> [] ->
  Forall (chunk_ok cs) chunks ->
  r_data (rdr s) = spec_chunks P key aad chunks ++ x :: rest ->
  decrypt_chunks P key aad cs s = (res, s') ->
  exists written : list N,
    w_out (wtr s') = w_out (wtr s) ++ written /\
    (exists more : list N, concat chunks = written ++ more) /\
    (res = Ok tt -> written = concat chunks) /\
    (Forall rd_nonzero (r_script (rdr s)) ->
     res <> Ok tt /\ (exists more : list N, concat (removelast chunks) = written ++ more)).
Proof. exact (dec_extension_any_script). Qed.
Print Assumptions C03_extension_any_script.

(* (B) FILE level, password mode: every proper prefix of an honest password file (truncation anywhere, header included) is rejected under every script; the sink holds a prefix of the plaintext *)
Theorem C03_pass_file_prefix_rejected :
  forall P : prims,
  aead_ok P ->
  hash_ok P ->
  forall (pw : bytes) (salt : list N) (chunks : list bytes) (data suffix : list N) 
    (s : io) (res : outcome derr unit) (s' : io),
  length salt = 32%nat ->
  chunks <> [] ->
  Forall (chunk_ok cs_const) chunks ->
  data ++ suffix = spec_pass_file P pw salt chunks ->
  suffix <> [] ->
  r_data (rdr s) = data ->
  pass_decrypt P pw s = (res, s') ->
  res <> Ok tt /\
  (exists written more : list N,
     w_out (wtr s') = w_out (wtr s) ++ written /\ concat chunks = written ++ more).
Proof. exact (pass_file_prefix_rejected). Qed.
Print Assumptions C03_pass_file_prefix_rejected.

(* (B) FILE level, password mode: honest file followed by >= 1 byte, conforming scripts: Err DUnexpectedData, only the non-final chunks written *)
Theorem C03_pass_file_extension_rejected :
  forall P : prims,
  aead_ok P ->
  hash_ok P ->
  forall (pw : bytes) (salt : list N) (chunks : list bytes) (x : N) (rest : list N) (s : io),
  length salt = 32%nat ->
  chunks <> [] ->
  Forall (chunk_ok cs_const) chunks ->
  reader_ok (rdr s) ->
  writer_ok (wtr s) ->
  r_data (rdr s) = spec_pass_file P pw salt chunks ++ x :: rest ->
  exists s' : io,
    pass_decrypt P pw s = (Err DUnexpectedData, s') /\
    w_out (wtr s') = w_out (wtr s) ++ concat (removelast chunks).
Proof. exact (pass_file_extension_rejected). Qed.
Print Assumptions C03_pass_file_extension_rejected.

(* (B) ... every script: prefix of the plaintext in the sink, Ok only with exactly the complete plaintext *)
Theorem C03_pass_file_extension_any_script :
  forall P : prims,
  aead_ok P ->
  hash_ok P ->
  forall (pw : bytes) (salt : list N) (chunks : list bytes) (x : N) (rest : list N) 
    (s : io) (res : outcome derr unit) (s' : io),
  length salt = 32%nat ->
  chunks <> [] ->
  Forall (chunk_ok cs_const) chunks ->
  r_data (rdr s) = spec_pass_file P pw salt chunks ++ x :: rest ->
  pass_decrypt P pw s = (res, s') ->
  exists written : list N,
    w_out (wtr s') = w_out (wtr s) ++ written /\
    (exists more : list N, concat chunks = written ++ more) /\ (res = Ok tt -> written = concat chunks).
Proof. exact (pass_file_extension_any_script). Qed.
Print Assumptions C03_pass_file_extension_any_script.

(* (B) FILE level, key mode.  The honest file is prologue ++ msg ++ stream where msg is a 128-byte handshake that (r, rpk) accepts with result (payload, spk, hh) and the stream is under HKDF(payload, hh) — e.g. any file written by key_encrypt (C03_key_encrypt_honest_file).  Every proper prefix is rejected under every script. *)
Theorem C03_key_file_prefix_rejected :
  forall P : prims,
  aead_ok P ->
  hash_ok P ->
  forall (r rpk : bytes) (msg : list N) (hh payload spk : bytes) (chunks : list bytes)
    (data suffix : list N) (s : io) (res : outcome derr bytes) (s' : io),
  length msg = 128%nat ->
  noise_decrypt P r rpk x_prologue msg = Ok (payload, spk, hh) ->
  chunks <> [] ->
  Forall (chunk_ok cs_const) chunks ->
  data ++ suffix = spec_key_file P msg hh payload chunks ->
  suffix <> [] ->
  r_data (rdr s) = data ->
  key_decrypt P r rpk s = (res, s') ->
  (forall spk' : bytes, res <> Ok spk') /\
  (exists written more : list N,
     w_out (wtr s') = w_out (wtr s) ++ written /\ concat chunks = written ++ more).
Proof. exact (key_file_prefix_rejected). Qed.
Print Assumptions C03_key_file_prefix_rejected.

(* (B) key file followed by >= 1 byte, conforming scripts: Err DUnexpectedData, only the non-final chunks written *)
Theorem C03_key_file_extension_rejected :
  forall P : prims,
  aead_ok P ->
  hash_ok P ->
  forall (r rpk : bytes) (msg : list N) (hh payload spk : bytes) (chunks : list bytes) 
    (x : N) (rest : list N) (s : io),
  length msg = 128%nat ->
  noise_decrypt P r rpk x_prologue msg = Ok (payload, spk, hh) ->
  chunks <> [] ->
  Forall (chunk_ok cs_const) chunks ->
  reader_ok (rdr s) ->
  writer_ok (wtr s) ->
  r_data (rdr s) = spec_key_file P msg hh payload chunks ++ x :: rest ->
  exists s' : io,
    key_decrypt P r rpk s = (Err DUnexpectedData, s') /\
    w_out (wtr s') = w_out (wtr s) ++ concat (removelast chunks).
Proof. exact (key_file_extension_rejected). Qed.
Print Assumptions C03_key_file_extension_rejected.

(* (B) ... every script: Ok only with the honest sender key and exactly the complete plaintext *)
Theorem C03_key_file_extension_any_script :
  forall P : prims,
  aead_ok P ->
  hash_ok P ->
  forall (r rpk : bytes) (msg : list N) (hh payload spk : bytes) (chunks : list bytes) 
    (x : N) (rest : list N) (s : io) (res : outcome derr bytes) (s' : io),
  length msg = 128%nat ->
  noise_decrypt P r rpk x_prologue msg = Ok (payload, spk, hh) ->
  chunks <> [] ->
  Forall (chunk_ok cs_const) chunks ->
  r_data (rdr s) = spec_key_file P msg hh payload chunks ++ x :: rest ->
  key_decrypt P r rpk s = (res, s') ->
  exists written : list N,
    w_out (wtr s') = w_out (wtr s) ++ written /\
    (exists more : list N, concat chunks = written ++ more) /\
    (forall spk' : bytes, res = Ok spk' -> spk' = spk /\ written = concat chunks).
Proof. exact (key_file_extension_any_script). Qed.
Print Assumptions C03_key_file_extension_any_script.

(* the files key_encrypt writes are honest files in the sense of the three theorems above (needs dh_comm, the X25519 commutativity hypothesis) *)
Theorem C03_key_encrypt_honest_file :
  forall P : prims,
  aead_ok P ->
  hash_ok P ->
  forall (fresh_pk fresh_e : bytes) (s r : list N) (e epk pk : option bytes) (e' : bytes) (s0 : io),
  dh_comm P ->
  eph_of P fresh_e e epk = (e', dh_pub P e') ->
  length e' = 32%nat ->
  length s = 32%nat ->
  length r = 32%nat ->
  length (payload_of fresh_pk pk) = 32%nat ->
  all_zero (p_dh P e' (dh_pub P r)) = false ->
  all_zero (p_dh P s (dh_pub P r)) = false ->
  reader_ok (rdr s0) ->
  writer_ok (wtr s0) ->
  exists (msg : list N) (hh : bytes) (s0' : io),
    length msg = 128%nat /\
    noise_decrypt P r (dh_pub P r) x_prologue msg = Ok (payload_of fresh_pk pk, dh_pub P s, hh) /\
    key_encrypt P fresh_pk fresh_e s (dh_pub P s) (dh_pub P r) e epk pk s0 = (Ok tt, s0') /\
    w_out (wtr s0') =
    w_out (wtr s0) ++
    spec_key_file P msg hh (payload_of fresh_pk pk)
      (chunks_of_reads (reads_of (N.to_nat cs_const) (rdr s0))).
Proof. exact (key_encrypt_honest_file). Qed.
Print Assumptions C03_key_encrypt_honest_file.

(* (B) any offered bytes whose first record is well framed, conforming reader, any writer: if that record does not open under the key in use the result is Err DChaPolyDecrypt and the writer is never called *)
Theorem C03_first_record_wrong_key :
  forall (P : prims) (key' aad : bytes) (cs : N),
  length key' = 32%nat ->
  forall (s : io) (hdr ct rest : list N) (res : outcome derr unit) (s' : io) (d : list event),
  reader_ok (rdr s) ->
  r_data (rdr s) = hdr ++ ct ++ rest ->
  length hdr = 16%nat ->
  de32 (hdr_len hdr) <= cs ->
  length ct = (N.to_nat (de32 (hdr_len hdr)) + 16)%nat ->
  decrypt_chunks P key' aad cs s = (res, s') ->
  log s' = d ++ log s ->
  (forall (m : N) (ad c pt : bytes), ~ In (EvOpen key' m ad c (Some pt)) d) ->
  res = Err DChaPolyDecrypt /\ wtr s' = wtr s /\ Forall no_out_ev d /\ r_data (rdr s') = rest.
Proof. exact (dec_first_record_wrong_key). Qed.
Print Assumptions C03_first_record_wrong_key.

(* KEY MODE, the flagship theorem: honest files F_1..F_m (any senders, recipients, ephemeral and payload keys, chunkings), GL = all AEAD seals occurring in them with their keys.  For EVERY offered byte string (the reader state s), EVERY recipient key pair (r, rpk), EVERY I/O script: if (P1) every AEAD open that succeeds in the run — the two handshake opens and every chunk open — is an entry of GL (no forgery in the run), (P2a) SHA-256 is injective on the explicit finite list of hash inputs occurring in the honest handshakes and in this run, (P2b) the honest files' ephemeral public keys and file keys are pairwise distinct, then either the run is rejected with NOTHING written, or there is ONE honest file f such that the offered bytes begin with f's 132 header bytes, rpk is the recipient f was addressed to, what was written is a prefix of f's plaintext, and Ok sender implies sender = f's sender key and the output is f's COMPLETE plaintext.  Handshake fields or chunks of different files cannot be combined. *)
Theorem C03_key_authentic :
  forall P : prims,
  aead_ok P ->
  hash_ok P ->
  forall (files : list hfile) (r rpk : bytes) (s : io) (res : outcome derr bytes) (s' : io),
  key_decrypt P r rpk s = (res, s') ->
  hs_opens_honest P files r rpk (offered_msg (r_data (rdr s))) ->
  run_opens_honest P files s s' ->
  hash_inj_on P (hash_inputs P files rpk (offered_msg (r_data (rdr s)))) ->
  keys_distinct P files ->
  rejected_no_output s s' res \/ (exists f : hfile, In f files /\ attributed_to P f rpk s s' res).
Proof. exact (key_auth_multi). Qed.
Print Assumptions C03_key_authentic.

(* the same with the distinctness premise weakened to the two consistency facts actually used *)
Theorem C03_key_authentic_weakest_premises :
  forall P : prims,
  aead_ok P ->
  hash_ok P ->
  forall (files : list hfile) (r rpk : bytes) (s : io) (res : outcome derr bytes) (s' : io),
  key_decrypt P r rpk s = (res, s') ->
  hs_opens_honest P files r rpk (offered_msg (r_data (rdr s))) ->
  run_opens_honest P files s s' ->
  hash_inj_on P (hash_inputs P files rpk (offered_msg (r_data (rdr s)))) ->
  eph_consistent P files ->
  fk_consistent P files ->
  rejected_no_output s s' res \/ (exists f : hfile, In f files /\ attributed_to P f rpk s s' res).
Proof. exact (key_auth_multi_gen). Qed.
Print Assumptions C03_key_authentic_weakest_premises.

(* one honest file, no distinctness premise at all: bit flips in the handshake, a wrong recipient, a swapped sender field are rejected unless an AEAD forgery or a hash collision on the occurring values happened *)
Theorem C03_key_authentic_single :
  forall P : prims,
  aead_ok P ->
  hash_ok P ->
  forall (f : hfile) (r rpk : bytes) (s : io) (res : outcome derr bytes) (s' : io),
  key_decrypt P r rpk s = (res, s') ->
  hs_opens_honest P [f] r rpk (offered_msg (r_data (rdr s))) ->
  run_opens_honest P [f] s s' ->
  hash_inj_on P (hash_inputs P [f] rpk (offered_msg (r_data (rdr s)))) ->
  rejected_no_output s s' res \/ attributed_to P f rpk s s' res.
Proof. exact (key_auth_single). Qed.
Print Assumptions C03_key_authentic_single.

(* the Ok case spelled out: header equal to one honest file's, recipient as addressed, sender as in that file, output = its complete plaintext *)
Theorem C03_key_authentic_ok :
  forall P : prims,
  aead_ok P ->
  hash_ok P ->
  forall (files : list hfile) (r rpk : bytes) (s : io) (sender : bytes) (s' : io),
  key_decrypt P r rpk s = (Ok sender, s') ->
  hs_opens_honest P files r rpk (offered_msg (r_data (rdr s))) ->
  run_opens_honest P files s s' ->
  hash_inj_on P (hash_inputs P files rpk (offered_msg (r_data (rdr s)))) ->
  keys_distinct P files ->
  exists f : hfile,
    In f files /\
    firstn 132 (r_data (rdr s)) = firstn 132 (hf_file P f) /\
    rpk = hf_R f /\ sender = hf_spk P f /\ w_out (wtr s') = w_out (wtr s) ++ concat (hf_chunks f).
Proof. exact (key_auth_multi_ok). Qed.
Print Assumptions C03_key_authentic_ok.

(* a 128-byte handshake that is not the handshake of one of the honest files is rejected with nothing written *)
Theorem C03_header_of_one_file :
  forall P : prims,
  aead_ok P ->
  hash_ok P ->
  forall (files : list hfile) (r rpk : bytes) (s : io) (res : outcome derr bytes) (s' : io),
  key_decrypt P r rpk s = (res, s') ->
  hs_opens_honest P files r rpk (offered_msg (r_data (rdr s))) ->
  run_opens_honest P files s s' ->
  hash_inj_on P (hash_inputs P files rpk (offered_msg (r_data (rdr s)))) ->
  keys_distinct P files ->
  (forall f : hfile, In f files -> offered_msg (r_data (rdr s)) <> hf_msg P f) ->
  rejected_no_output s s' res.
Proof. exact (C03_header_of_one_file). Qed.
Print Assumptions C03_header_of_one_file.

(* taking the ephemeral key of honest file a together with a static-key field or payload field that is not a's own (e.g. from another honest file) is rejected with nothing written *)
Theorem C03_handshake_fields_not_recombinable :
  forall P : prims,
  aead_ok P ->
  hash_ok P ->
  forall (files : list hfile) (a : hfile) (c1 c2 : list N) (r rpk : bytes) (s : io)
    (res : outcome derr bytes) (s' : io),
  key_decrypt P r rpk s = (res, s') ->
  hs_opens_honest P files r rpk (offered_msg (r_data (rdr s))) ->
  run_opens_honest P files s s' ->
  hash_inj_on P (hash_inputs P files rpk (offered_msg (r_data (rdr s)))) ->
  keys_distinct P files ->
  In a files ->
  offered_msg (r_data (rdr s)) = hf_epk P a ++ c1 ++ c2 ->
  length c1 = 48%nat -> c1 <> hf_c1 P a \/ c2 <> hf_c2 P a -> rejected_no_output s s' res.
Proof. exact (C03_handshake_fields_not_recombinable). Qed.
Print Assumptions C03_handshake_fields_not_recombinable.

(* the exception the property names: overwriting the 8-byte counter fields of any records with arbitrary bytes leaves outcome and output unchanged (the decryptor never reads them; the position-derived nonce is what is authenticated) *)
Theorem C03_counter_advisory :
  forall (P : prims) (key aad : bytes) (cs : N),
  length key = 32%nat ->
  aead_ok P ->
  cs < 4294967296 ->
  forall (chunks ctrs : list bytes) (sh st : io),
  chunks <> [] ->
  Forall (chunk_ok cs) chunks ->
  length ctrs = length chunks ->
  Forall (fun ctr : bytes => length ctr = 8%nat) ctrs ->
  reader_ok (rdr sh) ->
  writer_ok (wtr sh) ->
  reader_ok (rdr st) ->
  writer_ok (wtr st) ->
  r_data (rdr sh) = spec_chunks P key aad chunks ->
  r_data (rdr st) = spec_ctr_from P key aad 0 (combine ctrs chunks) ->
  w_out (wtr st) = w_out (wtr sh) ->
  exists sh' st' : io,
    decrypt_chunks P key aad cs sh = (Ok tt, sh') /\
    decrypt_chunks P key aad cs st = (Ok tt, st') /\
    w_out (wtr st') = w_out (wtr sh') /\ w_out (wtr sh') = w_out (wtr sh) ++ concat chunks.
Proof. exact (C03_counter_advisory_vs_honest). Qed.
Print Assumptions C03_counter_advisory.

(* a record whose length field exceeds the chunk size yields Err ChunkLen (or a read error) with nothing written, and the only reads made request at most 16 bytes: the attacker-chosen length never sizes a read — every script *)
Theorem C03_len_bound :
  forall (P : prims) (key aad : bytes) (cs : N) (hdr rest : list N) (s : io) 
    (res : outcome derr unit) (s' : io),
  length hdr = 16%nat ->
  cs < de32 (hdr_len hdr) ->
  r_data (rdr s) = hdr ++ rest ->
  decrypt_chunks P key aad cs s = (res, s') ->
  (res = Err DChunkLen \/ (exists e : ioerr, res = Err (DIORead e))) /\
  w_out (wtr s') = w_out (wtr s) /\
  (exists d : list event, log s' = d ++ log s /\ Forall is_read_ev d /\ Forall (read_req_le 16) d).
Proof. exact (C03_len_bound). Qed.
Print Assumptions C03_len_bound.

(* non-vacuity: a concrete honest two-chunk file (RFC SHA-256/HMAC/HKDF/ChaCha20-Poly1305, toy DH) read by its recipient satisfies ALL premises and is accepted with the complete plaintext *)
Theorem C03_key_authentic_nonvacuous_accept :
  exists (sender : bytes) (s' : io),
    key_decrypt KeyAuthToy.PT KeyAuthToy.toy_r KeyAuthToy.toy_R KeyAuthToy.toy_s1 = (Ok sender, s') /\
    hs_opens_honest KeyAuthToy.PT [KeyAuthToy.toy_f1] KeyAuthToy.toy_r KeyAuthToy.toy_R
      (offered_msg (r_data (rdr KeyAuthToy.toy_s1))) /\
    run_opens_honest KeyAuthToy.PT [KeyAuthToy.toy_f1] KeyAuthToy.toy_s1 s' /\
    hash_inj_on KeyAuthToy.PT
      (hash_inputs KeyAuthToy.PT [KeyAuthToy.toy_f1] KeyAuthToy.toy_R
         (offered_msg (r_data (rdr KeyAuthToy.toy_s1)))) /\
    sender = hf_spk KeyAuthToy.PT KeyAuthToy.toy_f1 /\
    w_out (wtr s') = concat (hf_chunks KeyAuthToy.toy_f1).
Proof. exact (key_auth_single_nonvacuous). Qed.
Print Assumptions C03_key_authentic_nonvacuous_accept.

(* non-vacuity: two concrete honest files; the offered bytes take e from file 1 and the other fields and chunks from file 2: ALL premises hold and the result is a rejection with empty output *)
Theorem C03_key_authentic_nonvacuous_splice :
  exists s' : io,
    key_decrypt KeyAuthToy.PT KeyAuthToy.toy_r KeyAuthToy.toy_R KeyAuthToy.toy_s2 =
    (Err (DOtherNoise NDecrypt), s') /\
    hs_opens_honest KeyAuthToy.PT [KeyAuthToy.toy_f1; KeyAuthToy.toy_f2] KeyAuthToy.toy_r
      KeyAuthToy.toy_R (offered_msg (r_data (rdr KeyAuthToy.toy_s2))) /\
    run_opens_honest KeyAuthToy.PT [KeyAuthToy.toy_f1; KeyAuthToy.toy_f2] KeyAuthToy.toy_s2 s' /\
    hash_inj_on KeyAuthToy.PT
      (hash_inputs KeyAuthToy.PT [KeyAuthToy.toy_f1; KeyAuthToy.toy_f2] KeyAuthToy.toy_R
         (offered_msg (r_data (rdr KeyAuthToy.toy_s2)))) /\
    keys_distinct KeyAuthToy.PT [KeyAuthToy.toy_f1; KeyAuthToy.toy_f2] /\ w_out (wtr s') = [].
Proof. exact (key_auth_multi_splice_rejected). Qed.
Print Assumptions C03_key_authentic_nonvacuous_splice.


(* ====================================================================================================
   NON-VACUITY of (A) C03_chunks_authentic.  Its premise [no_forgery P key aad chunks (log s1)] is about the run
   itself; the three statements below exhibit, on CONCRETE data and by evaluation (Model/ChunkAuthToy.v: the RFC
   ChaCha20-Poly1305 specification as the AEAD — [aead_ok] holds: Concrete.rfc_aead_ok —, key = 32 bytes of 7,
   aad = [9], chunk size 2, honest chunks [[1;2];[3;4];[5]], fault-free reader and writer), runs for which the
   premise is TRUE: one accepted with the complete plaintext, two rejected.  The premise is established by a
   boolean checker proved sound (ChunkAuthExamples.no_forgery_b_sound).
   ==================================================================================================== *)
From Kestrel.Model Require ChunkAuthToy.
From Kestrel.Proofs Require ChunkAuthExamples.

(* the instance satisfies the standing premises of the theorem *)
Theorem C03_chunks_authentic_nonvacuous_instance :
  aead_ok ChunkAuthToy.ca_prims /\ length ChunkAuthToy.ca_key = 32%nat /\
  ChunkAuthToy.ca_chunks = [[1; 2]; [3; 4]; [5]] /\
  spec_chunks ChunkAuthToy.ca_prims ChunkAuthToy.ca_key ChunkAuthToy.ca_aad ChunkAuthToy.ca_chunks
    = ChunkAuthToy.ca_rec0 ++ ChunkAuthToy.ca_rec1 ++ ChunkAuthToy.ca_rec2.
Proof.
  exact (conj ChunkAuthExamples.ca_prims_aead_ok (conj ChunkAuthExamples.ca_key_length
          (conj eq_refl ChunkAuthExamples.ca_honest_records))).
Qed.
Print Assumptions C03_chunks_authentic_nonvacuous_instance.

(* (1) the honest file: the premise holds, the run is Ok and the sink holds the complete plaintext *)
Theorem C03_chunks_authentic_nonvacuous_honest :
  exists s1 : io,
    decrypt_chunks ChunkAuthToy.ca_prims ChunkAuthToy.ca_key ChunkAuthToy.ca_aad ChunkAuthToy.ca_cs
      (mk_io (spec_chunks ChunkAuthToy.ca_prims ChunkAuthToy.ca_key ChunkAuthToy.ca_aad ChunkAuthToy.ca_chunks)
             [] [] []) = (Ok tt, s1) /\
    no_forgery ChunkAuthToy.ca_prims ChunkAuthToy.ca_key ChunkAuthToy.ca_aad ChunkAuthToy.ca_chunks (log s1) /\
    w_out (wtr s1) = [1; 2; 3; 4; 5].
Proof. exact (ChunkAuthExamples.chunks_authentic_premise_with_accept). Qed.
Print Assumptions C03_chunks_authentic_nonvacuous_honest.

(* (2) records 1 and 2 exchanged: the premise holds (no open succeeds that is not an honest seal) and the run is
   rejected by the AEAD after releasing exactly chunk 0 *)
Theorem C03_chunks_authentic_nonvacuous_swapped :
  exists s1 : io,
    decrypt_chunks ChunkAuthToy.ca_prims ChunkAuthToy.ca_key ChunkAuthToy.ca_aad ChunkAuthToy.ca_cs
      (mk_io (ChunkAuthToy.ca_rec0 ++ ChunkAuthToy.ca_rec2 ++ ChunkAuthToy.ca_rec1) [] [] [])
      = (Err DChaPolyDecrypt, s1) /\
    no_forgery ChunkAuthToy.ca_prims ChunkAuthToy.ca_key ChunkAuthToy.ca_aad ChunkAuthToy.ca_chunks (log s1) /\
    w_out (wtr s1) = [1; 2].
Proof. exact (ChunkAuthExamples.chunks_authentic_premise_with_reject_swapped). Qed.
Print Assumptions C03_chunks_authentic_nonvacuous_swapped.

(* (3) the file cut after record 1: the premise holds and the run is rejected at the end of the input with chunks
   0..1 released (a prefix of the plaintext, as the theorem says; not Ok) *)
Theorem C03_chunks_authentic_nonvacuous_truncated :
  exists s1 : io,
    decrypt_chunks ChunkAuthToy.ca_prims ChunkAuthToy.ca_key ChunkAuthToy.ca_aad ChunkAuthToy.ca_cs
      (mk_io (ChunkAuthToy.ca_rec0 ++ ChunkAuthToy.ca_rec1) [] [] [])
      = (Err (DIORead OtherErr), s1) /\
    no_forgery ChunkAuthToy.ca_prims ChunkAuthToy.ca_key ChunkAuthToy.ca_aad ChunkAuthToy.ca_chunks (log s1) /\
    w_out (wtr s1) = [1; 2; 3; 4].
Proof. exact (ChunkAuthExamples.chunks_authentic_premise_with_reject_truncated). Qed.
Print Assumptions C03_chunks_authentic_nonvacuous_truncated.

(* the checker used for the premise is sound *)
Theorem C03_no_forgery_checker_sound :
  forall (P : prims) (key aad : bytes) (chunks : list bytes) (lg : list event),
  ChunkAuthToy.no_forgery_b P key aad chunks lg = true -> no_forgery P key aad chunks lg.
Proof. exact (ChunkAuthExamples.no_forgery_b_sound). Qed.
Print Assumptions C03_no_forgery_checker_sound.
