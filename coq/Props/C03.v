(* Props/C03.v — property C03: accepted ciphertext always yields exactly the sender's complete
   plaintext.  Statements only; proofs are in Proofs/. *)
From Kestrel Require Import Bytes Outcome IO Prims.
From Kestrel.Model Require Import AeadWrap Chunks.
From Kestrel.Proofs Require Import ChunksDec ChunksAuth.

(* Chunk layer, every offered byte string, every I/O script (faults included), every honest chunk list,
   every key/aad/chunk size: if no AEAD open that succeeded in the run is a forgery (i.e. every such
   open is one of the honest file's seals under that key), the sink received a prefix of the honest
   plaintext, and Ok means it received all of it. *)
Theorem C03_chunks_authentic :
  forall (P : prims) (key aad : bytes) (cs : N) (chunks : list bytes),
    length key = 32%nat -> aead_ok P ->
  forall (s : io) res s',
    decrypt_chunks P key aad cs s = (res, s') ->
    no_forgery P key aad chunks (log s') ->
    (exists written rest, w_out (wtr s') = w_out (wtr s) ++ written /\ written ++ rest = concat chunks) /\
    (res = Ok tt -> w_out (wtr s') = w_out (wtr s) ++ concat chunks).
Proof. intros P key aad cs chunks Hk Ha s res s' E NF. exact (dec_auth_file P key aad cs Hk Ha chunks _ s res s' E NF). Qed.
Print Assumptions C03_chunks_authentic.

(* Finer form: what was written is whole honest chunks j..j'-1, plus a cut piece of chunk j' only when
   the sink itself failed in the middle of a write (then the result is that write error). *)
Theorem C03_chunks_whole :
  forall (P : prims) (key aad : bytes) (cs : N) (chunks : list bytes),
    length key = 32%nat -> aead_ok P ->
  forall fuel (j : nat) (s : io) res s',
    (j <= length chunks)%nat ->
    decrypt_chunks_loop P fuel key aad cs (N.of_nat j) s = (res, s') ->
    no_forgery P key aad chunks (log s') ->
    post chunks j s res s'.
Proof. intros P key aad cs chunks Hk Ha. exact (dec_auth P key aad cs Hk Ha chunks). Qed.
Print Assumptions C03_chunks_whole.
