(* Props/C18.v — scrypt equals RFC 7914 for all parameters, in the library and across the C ABI.

   Objects:
     rfc_scrypt  (Spec/ScryptConcrete.v) = RFC 7914 section 6 as written (Spec/Scrypt.v: scryptBlockMix, scryptROMix,
                 Integerify) over the concrete PBKDF2-HMAC-SHA256 of Spec/Pbkdf2.v with iteration count 1;
     impl_scrypt (Spec/ScryptConcrete.v) = the Gallina transcription of src/crypto/src/scrypt.rs (Model/ScryptImpl.v:
                 u32 word vectors, checked usize arithmetic, bounds-checked indexing, the six assert!s, Vec capacity,
                 orion's derive_key(..).unwrap()) over the same PBKDF2;
     ffi_scrypt  (Model/ScryptFfi.v) = model of src/ffi/src/lib.rs::scrypt over an ABSTRACT memory N -> N.

   Coverage.  The library half is complete for the model: every password, salt, N = 2^k (k >= 1), r, p >= 1 and
   dkLen that pass the asserts / allocation / derive_key conditions (exactly characterised below) give the RFC value,
   never a panic.  The C-ABI half is PARTIAL: it is a theorem about an abstract memory; real pointer validity, aliasing,
   from_raw_parts[_mut] and the unwinding of a panic across extern "C" are outside the model (observed by the harness
   with guard bytes around the output buffer).  That rfc_scrypt/pbkdf2/HMAC/SHA-256 are the RFC functions is by
   reading plus the RFC test vectors (Spec/ScryptKat.v, Spec/ScryptFullKat.v, Spec/HashKat.v). *)
From Kestrel Require Import Bytes Outcome.
From Kestrel.Spec Require Import Salsa Scrypt ScryptConcrete.
From Kestrel.Model Require Import ScryptImpl ScryptFfi.
From Kestrel.Proofs Require Import WordFacts ScryptRefine Combine2Scrypt.
Local Open Scope N_scope.

(* For every password and salt, N = 2^k with k >= 1, r >= 1, p >= 1 such that the six asserts pass
   (r*p < 2^30, r <= MAX/128/p, r <= MAX/256, N <= MAX/128/r, MAX = 2^64-1), the vec![0u32; 32*N*r] allocation fits
   in isize::MAX bytes, and 1 <= dkLen <= (2^32-1)*32: the transcription of scrypt.rs returns Ok of exactly the
   RFC 7914 value.  No Panic, no index out of range, no overflow. *)
Theorem C18_impl_refines_rfc :
  forall (pw salt : bytes) (k : N) (r p dklen : nat),
  1 <= k -> (1 <= r)%nat -> (1 <= p)%nat ->
  N.of_nat r * N.of_nat p < 1073741824 ->
  N.of_nat r <= 18446744073709551615 / 128 / N.of_nat p ->
  N.of_nat r <= 18446744073709551615 / 256 ->
  2^k <= 18446744073709551615 / 128 / N.of_nat r ->
  128 * 2^k * N.of_nat r <= 9223372036854775807 ->
  (1 <= dklen)%nat -> N.of_nat dklen <= 137438953440 ->
  impl_scrypt pw salt (2^k) (N.of_nat r) (N.of_nat p) (N.of_nat dklen)
  = Ok (rfc_scrypt pw salt (N.to_nat (2^k)) r p dklen).
Proof. exact impl_scrypt_refines_rfc. Qed.
Print Assumptions C18_impl_refines_rfc.

(* the same with the cost parameter as the Rust checks it: n > 1 and n & (n-1) == 0 *)
Theorem C18_impl_refines_rfc_n :
  forall (pw salt : bytes) (n : N) (r p dklen : nat),
  1 < n -> N.land n (n - 1) = 0 -> (1 <= r)%nat -> (1 <= p)%nat ->
  N.of_nat r * N.of_nat p < 1073741824 ->
  N.of_nat r <= 18446744073709551615 / 128 / N.of_nat p ->
  N.of_nat r <= 18446744073709551615 / 256 ->
  n <= 18446744073709551615 / 128 / N.of_nat r ->
  128 * n * N.of_nat r <= 9223372036854775807 ->
  (1 <= dklen)%nat -> N.of_nat dklen <= 137438953440 ->
  impl_scrypt pw salt n (N.of_nat r) (N.of_nat p) (N.of_nat dklen)
  = Ok (rfc_scrypt pw salt (N.to_nat n) r p dklen).
Proof. exact impl_scrypt_refines_rfc_n. Qed.
Print Assumptions C18_impl_refines_rfc_n.

(* Complete behaviour once the asserts pass, for EVERY dk_len (usize): the only panics left are the Vec capacity
   overflow (PArith) and derive_key(..).unwrap() on dk_len = 0 or dk_len > (2^32-1)*32 (PUnwrap). *)
Theorem C18_total :
  forall (pw salt : bytes) (k : N) (r p : nat) (dk : N),
  1 <= k -> (1 <= r)%nat -> (1 <= p)%nat ->
  N.of_nat r * N.of_nat p < 1073741824 ->
  N.of_nat r <= 18446744073709551615 / 128 / N.of_nat p ->
  N.of_nat r <= 18446744073709551615 / 256 ->
  2^k <= 18446744073709551615 / 128 / N.of_nat r ->
  impl_scrypt pw salt (2^k) (N.of_nat r) (N.of_nat p) dk
  = if 128 * 2^k * N.of_nat r <=? 9223372036854775807 then
      if dk <=? 9223372036854775807 then
        if dk =? 0 then Panic PUnwrap
        else if 137438953440 <? dk then Panic PUnwrap
        else Ok (rfc_scrypt pw salt (N.to_nat (2^k)) r p (N.to_nat dk))
      else Panic PArith
    else Panic PArith.
Proof. exact impl_scrypt_total. Qed.
Print Assumptions C18_total.

(* Exact characterisation of assertion failures, for ALL n r p dk (usize values): the model panics with PAssert
   iff one of the six assert!s is reached (the checked arithmetic before it did not overflow / divide by zero) and fails. *)
Theorem C18_asserts :
  forall (pw salt : bytes) (n r p dk : N),
  impl_scrypt pw salt n r p dk = Panic PAssert <->
  n <= 1 \/ N.land n (n - 1) <> 0 \/
  (r * p <= 18446744073709551615 /\
    (1073741824 <= r * p \/
     (p <> 0 /\ (18446744073709551615 / 128 / p < r \/ 18446744073709551615 / 256 < r \/
                 (r <> 0 /\ 18446744073709551615 / 128 / r < n))))).
Proof. exact impl_scrypt_asserts. Qed.
Print Assumptions C18_asserts.

(* whatever the parameters, a returned key has exactly dk_len bytes, each < 256 *)
Theorem C18_ok_length :
  forall (pw salt : bytes) (n r p dk : N) (out : bytes),
  impl_scrypt pw salt n r p dk = Ok out -> length out = N.to_nat dk /\ bytes_ok out.
Proof. exact impl_scrypt_ok_length. Qed.
Print Assumptions C18_ok_length.

(* ---- components ---- *)
(* salsa_xor(tmp, inn, out): tmp and out[..16] both become Salsa20/8(tmp[..16] xor inn[..16]) (feed-forward included) *)
Theorem C18_salsa_xor :
  forall tmp inn out : list N,
  (16 <= length tmp)%nat -> (16 <= length inn)%nat -> (16 <= length out)%nat ->
  ScryptImpl.salsa_xor tmp inn out =
  Ok (salsa20_8 (xor_bytes (firstn 16 tmp) (firstn 16 inn)) ++ skipn 16 tmp,
      salsa20_8 (xor_bytes (firstn 16 tmp) (firstn 16 inn)) ++ skipn 16 out).
Proof. exact SalsaRefine.salsa_xor_spec. Qed.
Print Assumptions C18_salsa_xor.

(* block_mix writes RFC scryptBlockMix (even blocks first half, odd blocks second half) for every r >= 1 *)
Theorem C18_block_mix :
  forall (r : nat) (tmp inn out : list N),
  (1 <= r)%nat -> 32 * N.of_nat r <= usize_max -> words_ok inn ->
  length tmp = 16%nat -> length inn = (32 * r)%nat -> length out = (32 * r)%nat ->
  exists tmp' out',
    ScryptImpl.block_mix tmp inn out (N.of_nat r) = Ok (tmp', out') /\
    words_to_bytes out' = scryptBlockMix r (words_to_bytes inn) /\
    length tmp' = 16%nat /\ length out' = (32 * r)%nat /\ words_ok out'.
Proof. exact BlockMixRefine.block_mix_spec. Qed.
Print Assumptions C18_block_mix.

(* integer(x, r) & (2^k - 1) = Integerify(X) mod 2^k for k <= 64: the bit mask is the RFC's mod N *)
Theorem C18_integerify_mask :
  forall (r : nat) (x : list N) (k : N),
  (1 <= r)%nat -> 32 * N.of_nat r <= usize_max -> words_ok x -> length x = (32 * r)%nat -> k <= 64 ->
  exists v, ScryptImpl.integer x (N.of_nat r) = Ok v /\
            N.land v (2^k - 1) = integerify r (words_to_bytes x) mod 2^k.
Proof. exact SmixRefine.integer_spec. Qed.
Print Assumptions C18_integerify_mask.

(* smix (two loop iterations at a time, alternating x and y) computes RFC scryptROMix on the first 128*r bytes of b
   and leaves the rest of b alone *)
Theorem C18_smix :
  forall (b : bytes) (r : nat) (k : N) (v x y : list N),
  (1 <= r)%nat -> 1 <= k -> 32 * N.of_nat r * 2^k <= usize_max -> 128 * N.of_nat r <= usize_max ->
  bytes_ok b -> (128 * r <= length b)%nat ->
  length v = (32 * r * N.to_nat (2^k))%nat -> length x = (32 * r)%nat -> length y = (32 * r)%nat ->
  exists v' x' y',
    ScryptImpl.smix b (N.of_nat r) (2^k) v x y =
      Ok (scryptROMix r (firstn (128 * r) b) (N.to_nat (2^k)) ++ skipn (128 * r) b, v', x', y') /\
    length v' = length v /\ length x' = (32 * r)%nat /\ length y' = (32 * r)%nat.
Proof. exact SmixRefine.smix_spec. Qed.
Print Assumptions C18_smix.

(* ---- the C ABI (abstract memory; PARTIAL, see header) ---- *)
(* For ALL arguments: copy_from_slice cannot panic (the library result has dk_len bytes by construction); the call
   either stores the library result at derived_key or propagates the library's panic. *)
Theorem C18_ffi_cases :
  forall (m : mem) (password password_len salt salt_len n r p derived_key dk_len : N),
  ffi_scrypt pbkdf2_1 m password password_len salt salt_len n r p derived_key dk_len
  = match impl_scrypt (mem_load m password password_len) (mem_load m salt salt_len) n r p dk_len with
    | Ok dk => Ok (mem_store m derived_key dk)
    | Err e => Err e
    | Panic w => Panic w
    | OutOfFuel => OutOfFuel
    end.
Proof. exact ffi_scrypt_cases. Qed.
Print Assumptions C18_ffi_cases.

(* For parameters the library accepts: the call returns; afterwards the dk_len bytes at derived_key are exactly the
   RFC 7914 value of the password and salt regions as they were before the call, and every address outside
   [derived_key, derived_key + dk_len) holds what it held before. *)
Theorem C18_ffi_writes_exactly_the_region :
  forall (m : mem) (password password_len salt salt_len : N) (k : N) (r p dklen : nat) (derived_key : N),
  1 <= k -> (1 <= r)%nat -> (1 <= p)%nat ->
  N.of_nat r * N.of_nat p < 1073741824 ->
  N.of_nat r <= 18446744073709551615 / 128 / N.of_nat p ->
  N.of_nat r <= 18446744073709551615 / 256 ->
  2^k <= 18446744073709551615 / 128 / N.of_nat r ->
  128 * 2^k * N.of_nat r <= 9223372036854775807 ->
  (1 <= dklen)%nat -> N.of_nat dklen <= 137438953440 ->
  exists m',
    (ffi_scrypt pbkdf2_1 m password password_len salt salt_len (2^k) (N.of_nat r) (N.of_nat p) derived_key (N.of_nat dklen)
      = Ok m') /\
    (forall a, ~ (derived_key <= a < derived_key + N.of_nat dklen) -> m' a = m a) /\
    (mem_load m' derived_key (N.of_nat dklen)
      = rfc_scrypt (mem_load m password password_len) (mem_load m salt salt_len) (N.to_nat (2^k)) r p dklen) /\
    length (mem_load m' derived_key (N.of_nat dklen)) = dklen.
Proof. exact ffi_scrypt_writes_exactly_the_region. Qed.
Print Assumptions C18_ffi_writes_exactly_the_region.

(* whenever the call returns, for ANY arguments: frame + the region holds the library result of dk_len bytes *)
Theorem C18_ffi_ok_frame :
  forall (m : mem) (password password_len salt salt_len n r p derived_key dk_len : N) (m' : mem),
  ffi_scrypt pbkdf2_1 m password password_len salt salt_len n r p derived_key dk_len = Ok m' ->
  exists dk,
    impl_scrypt (mem_load m password password_len) (mem_load m salt salt_len) n r p dk_len = Ok dk /\
    length dk = N.to_nat dk_len /\
    (forall a, ~ (derived_key <= a < derived_key + dk_len) -> m' a = m a) /\
    mem_load m' derived_key dk_len = dk.
Proof. exact ffi_scrypt_ok_frame. Qed.
Print Assumptions C18_ffi_ok_frame.

(* a library panic (failed assert, capacity overflow, dk_len = 0 ...) is propagated; nothing has been written *)
Theorem C18_ffi_panic_propagated :
  forall (m : mem) (password password_len salt salt_len n r p derived_key dk_len : N) (w : panic_tag),
  impl_scrypt (mem_load m password password_len) (mem_load m salt salt_len) n r p dk_len = Panic w ->
  ffi_scrypt pbkdf2_1 m password password_len salt salt_len n r p derived_key dk_len = Panic w /\
  ffi_scrypt_mem pbkdf2_1 m password password_len salt salt_len n r p derived_key dk_len = m.
Proof. exact ffi_scrypt_panic_propagated. Qed.
Print Assumptions C18_ffi_panic_propagated.

(* the literals of scrypt.rs::scrypt, of lib.rs::scrypt and of the exported C function in the CURRENT sources
   (tools/extract.py), tied to the model's own definitions *)
From Kestrel.gen Require Import Extracted.
Theorem C18_scrypt_constants :
  (* the six asserts, in order: n > 1; n & (n-1) == 0; r*p < 2^30; r <= MAX/128/p; r <= MAX/256; n <= MAX/128/r *)
  x_scrypt_asserts_shape_ok = 1 /\ x_scrypt_n_gt = 1 /\ x_scrypt_rp_bound = 2 ^ 30 /\ x_scrypt_rp_bound = 1073741824 /\
  x_scrypt_usize_max = usize_max /\ x_scrypt_r_div_p = 128 /\ x_scrypt_r_div = 256 /\ x_scrypt_n_div_r = 128 /\
  (* buffers: v = 32*n*r, x = y = 32*r words; b = 128*p*r bytes, one smix block every 128*r bytes; PBKDF2 with 1 iteration *)
  x_scrypt_v_factor = 32 /\ x_scrypt_x_factor = 32 /\ x_scrypt_y_factor = 32 /\ x_scrypt_b_factor = 128 /\
  x_scrypt_smix_stride = x_scrypt_b_factor /\ x_scrypt_pbkdf2_iters = [1; 1] /\
  (* lib.rs::scrypt passes its six arguments on in order, widening n, r, p to usize *)
  x_lib_scrypt_passthrough = [RParam 0; RParam 1; RParam 2; RParam 3; RParam 4; RParam 5] /\ x_lib_scrypt_casts_usize = 1 /\
  (* the exported function: nine parameters, no return value; regions (password, password_len), (salt, salt_len),
     (derived_key, dk_len); the library call and the copy into the output region *)
  x_ffi_scrypt_arity = 9 /\ x_ffi_scrypt_has_return = 0 /\ x_ffi_scrypt_regions = [0; 1; 2; 3; 7; 8] /\
  x_ffi_scrypt_call_roles = [RParam 0; RParam 2; RParam 4; RParam 5; RParam 6; RLenOf (RParam 7)] /\
  x_ffi_scrypt_copies_result = 1 /\
  (forall (pbkdf2 : bytes -> bytes -> nat -> bytes) (m : mem) (pw pwl s sl n r p dk dkl : N),
     ffi_scrypt pbkdf2 m pw pwl s sl n r p dk dkl =
     let g := fun i : N => nth (N.to_nat i) [pw; pwl; s; sl; n; r; p; dk; dkl] 0 in
     match x_ffi_scrypt_regions, x_ffi_scrypt_call_roles with
     | [p0; l0; p1; l1; p2; l2], [RParam c0; RParam c1; RParam cn; RParam cr; RParam cp; RLenOf (RParam cd)] =>
       if ((c0 =? p0) && (c1 =? p1) && (cd =? p2))%bool then
         obind (lib_scrypt pbkdf2 (mem_load m (g p0) (g l0)) (mem_load m (g p1) (g l1)) (g cn) (g cr) (g cp) (g l2))
               (fun out => copy_from_slice m (g p2) (g l2) out)
       else Panic PUnwrap
     | _, _ => Panic PUnwrap
     end).
Proof. repeat split; intros; reflexivity. Qed.
Print Assumptions C18_scrypt_constants.
