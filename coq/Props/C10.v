(* Props/C10.v — property C10: partial I/O is harmless; every I/O failure is an error.
   Statements only; proofs are in IOFacts.v, Proofs/ChunksDec.v, ChunksEnc.v, ChunksRobust.v, CombineFiles.v,
   CombineEncFault.v, CombineDecFault.v, CombineEncPrefix.v.

   Scripts.  A reader script says what each successive Read::read call does: RCap k = deliver at most k bytes
   (fewer than requested is allowed; k = 0 is a zero-length read), RFail e = fail with I/O error e; likewise
   WCap / WFail for Write::write and FOk / FFail for flush.  [reader_ok]/[writer_ok]: every call makes progress
   and nothing fails.  [reader_oki]/[writer_oki]: additionally ErrorKind::Interrupted may occur at any call.
   [twin s]: the same data and sink contents with NO script (every call fully succeeds) — the fault-free,
   unsplit reference run.  An event is [benign] if the I/O loop containing it carries on after it.

   Proved for the DECRYPT side, for EVERY offered byte string (authentic or not):
   * schedule independence: under conforming scripts result and output equal those of the twin run;
     Interrupted inside read_exact / write_all is retried transparently (only the log differs);
   * fault classification for EVERY script: Ok implies no non-benign event happened; a non-benign event is
     the LAST event of the run and determines the result: read side -> DIORead (not Interrupted), write or
     flush side -> DIOWrite; never a panic (C09);
   * prefix: what any run wrote is a prefix of what the twin run writes, provided no read returns 0 bytes
     while data remains (the Read contract) — and C10_zero_read_caveat shows that this proviso is necessary.
   Proved for the ENCRYPT side: schedule independence under conforming scripts (the output is a function of the
   sequence of read results only, not of write caps); the round trip for all schedules on both sides; the fault
   classification for EVERY script at the chunk layer AND at file level (key_encrypt, pass_encrypt, headers
   included): a failing call is the last event, a failed read gives EIORead with that call's error kind
   (Interrupted included — the encryptor's raw read(buf) calls are not retried, which the property allows), a
   failed or zero-length write or a failed flush gives EIOWrite, Ok implies no call failed; never a panic.
   The decrypt-side fault classification is also stated at FILE level (key_decrypt, pass_decrypt, header reads
   included).
   PREFIX on the ENCRYPT side, every script, chunk layer and file level: what has been written when the run
   stops is a prefix of the documented stream / file for the read results obtained so far followed by ANY
   continuation of the read sequence (none if end of input was already seen) — hence a prefix of what every
   fault-free run that obtains the same read results writes (C10_enc_prefix_of_faultfree); Ok means end of
   input was seen and everything was written.
   Limits of what is stated: the decrypt-side prefix / schedule-independence theorems are stated for the chunk
   phase (the only phase that writes; the header phase only reads), not re-stated at file level other than
   through the round trips.  "Interrupted" on the encryptor's raw read(buf) is reported as EIORead Interrupted
   (an error, as the property allows), not retried. *)
From Kestrel Require Import Bytes Outcome IO IOFacts Prims.
From Kestrel.gen Require Import Extracted.
From Kestrel.Model Require Import AeadWrap Chunks Noise NoiseSpec Files EventPreds FilesSpec ChunksSpec ChunksRobustDefs CombineDefs
  EncFaultDefs DecFaultDefs.
From Kestrel.Proofs Require Import MonadFacts ChunksDec ChunksEnc ChunksRobust CombineFiles CombineEncFault CombineDecFault CombineEncPrefix.
Local Open Scope N_scope.

(* (kept) every framing read returns exactly the next n bytes, however the source splits them *)
Theorem C10_read_exact_schedule_independent :
  forall (n : nat) (s : io),
  reader_ok (rdr s) ->
  (n <= length (r_data (rdr s)))%nat ->
  exists s' : io,
    read_exact n s = (Some (inr (firstn n (r_data (rdr s)))), s') /\
    r_data (rdr s') = skipn n (r_data (rdr s)) /\ reader_ok (rdr s') /\ wtr s' = wtr s.
Proof. exact (read_exact_ok). Qed.
Print Assumptions C10_read_exact_schedule_independent.

(* (kept) write_all delivers the whole buffer however the sink splits it *)
Theorem C10_write_all_schedule_independent :
  forall (buf : bytes) (s : io),
  writer_ok (wtr s) ->
  exists s' : io,
    write_all buf s = (Some None, s') /\
    w_out (wtr s') = w_out (wtr s) ++ buf /\ writer_ok (wtr s') /\ rdr s' = rdr s.
Proof. exact (write_all_ok). Qed.
Print Assumptions C10_write_all_schedule_independent.

(* (kept) the decryptor's result on a well-formed stream does not depend on the read or write schedule *)
Theorem C10_decrypt_schedule_independent :
  forall (P : prims) (key aad : bytes) (cs : N),
  length key = 32%nat ->
  aead_ok P ->
  cs < 4294967296 ->
  forall (chunks : list bytes) (n : N) (s : io) (fuel : nat),
  chunks <> [] ->
  Forall (chunk_ok cs) chunks ->
  reader_ok (rdr s) ->
  writer_ok (wtr s) ->
  r_data (rdr s) = spec_chunks_from P key aad n chunks ->
  (length chunks <= fuel)%nat ->
  exists s' : io,
    decrypt_chunks_loop P fuel key aad cs n s = (Ok tt, s') /\
    w_out (wtr s') = w_out (wtr s) ++ concat chunks /\ r_data (rdr s') = [].
Proof. exact (dec_spec_chunks_ok). Qed.
Print Assumptions C10_decrypt_schedule_independent.

(* DECRYPT, EVERY offered byte string (authentic or not), conforming scripts: result and output equal those of the script-free twin run — they do not depend on read caps or write caps *)
Theorem C10_dec_schedule_independent :
  forall (P : prims) (key aad : bytes) (cs : N) (s : io) (res : outcome derr unit) 
    (s' : io) (res0 : outcome derr unit) (s0' : io),
  reader_ok (rdr s) ->
  writer_ok (wtr s) ->
  decrypt_chunks P key aad cs s = (res, s') ->
  decrypt_chunks P key aad cs (twin s) = (res0, s0') -> res = res0 /\ w_out (wtr s') = w_out (wtr s0').
Proof. exact (dec_schedule_independent). Qed.
Print Assumptions C10_dec_schedule_independent.

(* in fact result and output are a FUNCTION of the offered bytes ([dec_pure_file]) under every conforming schedule *)
Theorem C10_dec_schedule_pure :
  forall (P : prims) (key aad : bytes) (cs : N) (s : io) (rp : outcome derr unit) (l x : list bytes),
  reader_ok (rdr s) ->
  writer_ok (wtr s) ->
  dec_pure_file P key aad cs (r_data (rdr s)) = (rp, l, x) ->
  exists s' : io, decrypt_chunks P key aad cs s = (rp, s') /\ w_out (wtr s') = w_out (wtr s) ++ concat l.
Proof. exact (dec_sched_pure). Qed.
Print Assumptions C10_dec_schedule_pure.

(* with ErrorKind::Interrupted allowed at any read or write call: either the run equals the twin run (the interruptions were retried), or it ended with DIORead Interrupted — which only the raw one-byte end-of-file probe can produce, since it is not retried — and then what it wrote is a prefix of the twin run's output *)
Theorem C10_dec_schedule_independent_interrupted :
  forall (P : prims) (key aad : bytes) (cs : N) (s : io) (res : outcome derr unit) 
    (s' : io) (res0 : outcome derr unit) (s0' : io),
  reader_oki (rdr s) ->
  writer_oki (wtr s) ->
  decrypt_chunks P key aad cs s = (res, s') ->
  decrypt_chunks P key aad cs (twin s) = (res0, s0') ->
  res = res0 /\ w_out (wtr s') = w_out (wtr s0') \/
  res = Err (DIORead Interrupted) /\ (exists rest : list N, w_out (wtr s0') = w_out (wtr s') ++ rest).
Proof. exact (dec_schedule_independent_interrupted). Qed.
Print Assumptions C10_dec_schedule_independent_interrupted.

(* an Interrupted error in front of a read_exact call is retried: same result, same final state, one extra log entry *)
Theorem C10_read_exact_interrupted :
  forall (n : nat) (s : io) (res : option (ioerr + bytes)) (s' : io),
  (1 <= n)%nat ->
  read_exact n s = (res, s') ->
  exists d : list event,
    log s' = d ++ log s /\
    read_exact n (push_rd (RFail Interrupted) s) =
    (res, set_log s' (d ++ EvReadErr n Interrupted :: log s)).
Proof. exact (read_exact_interrupted). Qed.
Print Assumptions C10_read_exact_interrupted.

(* the same for write_all *)
Theorem C10_write_all_interrupted :
  forall (buf : list N) (s : io) (res : option (option ioerr)) (s' : io),
  buf <> [] ->
  write_all buf s = (res, s') ->
  exists d : list event,
    log s' = d ++ log s /\
    write_all buf (push_wr (WFail Interrupted) s) =
    (res, set_log s' (d ++ EvWriteErr buf Interrupted :: log s)).
Proof. exact (write_all_interrupted). Qed.
Print Assumptions C10_write_all_interrupted.

(* FAULTS, EVERY script, every offered byte string.  d = the new events of a run.  (1) Ok implies every event was benign; (2) a non-benign event is the newest event of the run (nothing happens after it), all earlier ones are benign, and it determines the result: a read-side event gives Err (DIORead ie) with ie not Interrupted, a write or flush event gives Err (DIOWrite ie) — the error identifies the failing side; (3) the result DIORead Interrupted occurs only when the newest event is an interrupted one-byte probe *)
Theorem C10_fault_is_error :
  forall (P : prims) (key aad : bytes) (cs : N) (s : io) (res : outcome derr unit) 
    (s' : io) (d : list event),
  decrypt_chunks P key aad cs s = (res, s') ->
  log s' = d ++ log s ->
  (res = Ok tt -> Forall benign d) /\
  (forall e : event,
   In e d ->
   ~ benign e ->
   (exists d' : list event, d = e :: d' /\ Forall benign d') /\
   (is_read_ev e -> exists ie : ioerr, ie <> Interrupted /\ res = Err (DIORead ie)) /\
   (is_write_ev e \/ is_flush_event e -> exists ie : ioerr, res = Err (DIOWrite ie))) /\
  (res = Err (DIORead Interrupted) ->
   exists d' : list event, d = EvReadErr 1 Interrupted :: d' /\ Forall benign d').
Proof. exact (dec_fault_is_error). Qed.
Print Assumptions C10_fault_is_error.

(* the same as a single shape predicate *)
Theorem C10_fault_shape :
  forall (P : prims) (key aad : bytes) (cs : N) (s : io) (res : outcome derr unit) (s' : io),
  decrypt_chunks P key aad cs s = (res, s') ->
  exists d : list event, log s' = d ++ log s /\ fault_shape d res.
Proof. exact (dec_fault_shape). Qed.
Print Assumptions C10_fault_shape.

(* DECRYPT, file level: what [dec_fault_statement d res] says (by definition) — the three parts of C10_fault_is_error for a result of any type *)
Theorem C10_dec_fault_statement_meaning :
  forall (A : Type) (d : list event) (res : outcome derr A),
  dec_fault_statement d res <->
  ((exists a : A, res = Ok a) -> Forall benign d) /\
  (forall e : event,
   In e d ->
   ~ benign e ->
   (exists d' : list event, d = e :: d' /\ Forall benign d') /\
   (is_read_ev e -> exists ie : ioerr, ie <> Interrupted /\ res = Err (DIORead ie)) /\
   (is_write_ev e \/ is_flush_event e -> exists ie : ioerr, res = Err (DIOWrite ie))) /\
  (res = Err (DIORead Interrupted) ->
   exists d' : list event, d = EvReadErr 1 Interrupted :: d' /\ Forall benign d').
Proof. exact (@dec_fault_statement_unfold). Qed.
Print Assumptions C10_dec_fault_statement_meaning.

(* FAULTS, FILE level, key mode, EVERY io state: header reads and chunk phase together satisfy the statement — a failing call is the last event and yields the error of its side, Ok implies no call failed *)
Theorem C10_key_decrypt_fault_is_error :
  forall (P : prims) (r rpk : bytes) (s : io) (res : outcome derr bytes) (s' : io) (d : list event),
  key_decrypt P r rpk s = (res, s') -> log s' = d ++ log s -> dec_fault_statement d res.
Proof. exact (key_decrypt_fault_is_error). Qed.
Print Assumptions C10_key_decrypt_fault_is_error.

(* FAULTS, FILE level, password mode *)
Theorem C10_pass_decrypt_fault_is_error :
  forall (P : prims) (pw : bytes) (s : io) (res : outcome derr unit) (s' : io) (d : list event),
  pass_decrypt P pw s = (res, s') -> log s' = d ++ log s -> dec_fault_statement d res.
Proof. exact (pass_decrypt_fault_is_error). Qed.
Print Assumptions C10_pass_decrypt_fault_is_error.

(* PREFIX, every script without zero-length reads (faults allowed): what the run wrote is a prefix of what the fault-free twin run writes, and Ok implies the twin run is Ok with the same output *)
Theorem C10_prefix_of_faultfree :
  forall (P : prims) (key aad : bytes) (cs : N) (s : io) (res : outcome derr unit) 
    (s' : io) (res0 : outcome derr unit) (s0' : io),
  Forall rd_nonzero (r_script (rdr s)) ->
  decrypt_chunks P key aad cs s = (res, s') ->
  decrypt_chunks P key aad cs (twin s) = (res0, s0') ->
  (exists rest : list N, w_out (wtr s0') = w_out (wtr s') ++ rest) /\
  (res = Ok tt -> res0 = Ok tt /\ w_out (wtr s') = w_out (wtr s0')).
Proof. exact (dec_prefix_of_faultfree). Qed.
Print Assumptions C10_prefix_of_faultfree.

(* without the proviso: the run's output is a prefix of the twin's output extended by at most the withheld final chunk *)
Theorem C10_prefix_of_faultfree_gen :
  forall (P : prims) (key aad : bytes) (cs : N) (s : io) (res : outcome derr unit) 
    (s' : io) (res0 : outcome derr unit) (s0' : io),
  decrypt_chunks P key aad cs s = (res, s') ->
  decrypt_chunks P key aad cs (twin s) = (res0, s0') ->
  exists pend rest : list N,
    w_out (wtr s0') ++ pend = w_out (wtr s') ++ rest /\
    (pend = [] \/ res0 = Err DUnexpectedData) /\
    (res = Ok tt -> rest = [] /\ (res0 = Ok tt \/ res0 = Err DUnexpectedData)).
Proof. exact (dec_prefix_of_faultfree_gen). Qed.
Print Assumptions C10_prefix_of_faultfree_gen.

(* THE PROVISO IS NECESSARY.  A reader that answers the end-of-file probe with a zero-length read although a byte remains (RCap 0 — a violation of the Read contract: Ok(0) means end of file) makes the decryptor accept and write the final chunk, while the twin run rejects with UnexpectedData and writes nothing *)
Theorem C10_zero_read_caveat :
  forall (P : prims) (key aad : list N) (cs : N) (hdr ct : list N) (pt : bytes) (junk : N),
  length key = 32%nat ->
  length hdr = 16%nat ->
  de32 (hdr_last hdr) = 1 ->
  de32 (hdr_len hdr) <= cs ->
  length ct = (N.to_nat (de32 (hdr_len hdr)) + 16)%nat ->
  p_open P key (noise_nonce 0) (aad ++ hdr_last hdr ++ hdr_len hdr) ct = Some pt ->
  let s := mk_io (hdr ++ ct ++ [junk]) [RCap 16; RCap (length ct); RCap 0] [] [] in
  exists s' s0' : io,
    decrypt_chunks P key aad cs s = (Ok tt, s') /\
    w_out (wtr s') = pt /\
    decrypt_chunks P key aad cs (twin s) = (Err DUnexpectedData, s0') /\
    w_out (wtr s0') = [] /\
    (pt <> [] -> ~ (exists rest : list N, w_out (wtr s0') = w_out (wtr s') ++ rest)).
Proof. exact (dec_prefix_needs_nonzero). Qed.
Print Assumptions C10_zero_read_caveat.

(* the same with an honest record followed by one junk byte *)
Theorem C10_zero_read_caveat_honest :
  forall (P : prims) (key : list N) (aad : bytes) (cs : N) (pt : list N) (junk : N),
  aead_ok P ->
  length key = 32%nat ->
  cs < 4294967296 ->
  N.of_nat (length pt) <= cs ->
  pt <> [] ->
  exists s s' s0' : io,
    r_data (rdr s) = record P key aad 0 true pt ++ [junk] /\
    decrypt_chunks P key aad cs s = (Ok tt, s') /\
    decrypt_chunks P key aad cs (twin s) = (Err DUnexpectedData, s0') /\
    ~ (exists rest : list N, w_out (wtr s0') = w_out (wtr s') ++ rest).
Proof. exact (dec_prefix_needs_nonzero_honest). Qed.
Print Assumptions C10_zero_read_caveat_honest.

(* ENCRYPT, conforming scripts: the output is spec_chunks of the sequence of read results [reads_of] — it depends on the read script only through that sequence, and not at all on the write caps or flush script *)
Theorem C10_encrypt_schedule_independent :
  forall (P : prims) (key aad : bytes) (cs : N) (s : io),
  length key = 32%nat ->
  1 <= cs ->
  reader_ok (rdr s) ->
  writer_ok (wtr s) ->
  exists s' : io,
    encrypt_chunks P key aad cs s = (Ok tt, s') /\
    w_out (wtr s') =
    w_out (wtr s) ++ spec_chunks P key aad (chunks_of_reads (reads_of (N.to_nat cs) (rdr s))) /\
    r_data (rdr s') = [] /\ reader_ok (rdr s') /\ writer_ok (wtr s').
Proof. exact (enc_spec_ok). Qed.
Print Assumptions C10_encrypt_schedule_independent.

(* ENCRYPT side: what [enc_fault_statement d res] says about a run with new events d (newest first) and result res, unfolded (by definition): (1) Ok implies every event was benign; (2) a non-benign event is the newest event, all earlier ones are benign, a failed read determines the result EIORead with that call's error kind (not Interrupted, which is benign for the retrying loops but see (3)), a failed or zero-length write or failed flush determines EIOWrite; (3) a result EIORead ie comes from a failed read of exactly kind ie as newest event — Interrupted included: the encryptor's raw reads are not retried; (4) a result EIOWrite comes from a failing write or flush as newest event *)
Theorem C10_enc_fault_statement_meaning :
  forall (A : Type) (d : list event) (res : outcome eerr A),
  enc_fault_statement d res <->
  ((exists a : A, res = Ok a) -> Forall benign d) /\
  (forall e : event,
   In e d ->
   ~ benign e ->
   (exists d' : list event, d = e :: d' /\ Forall benign d') /\
   (is_read_ev e ->
    exists (n : nat) (ie : ioerr), e = EvReadErr n ie /\ ie <> Interrupted /\ res = Err (EIORead ie)) /\
   (is_write_ev e \/ is_flush_event e -> exists ie : ioerr, res = Err (EIOWrite ie))) /\
  (forall ie : ioerr,
   res = Err (EIORead ie) ->
   exists (n : nat) (d' : list event), d = EvReadErr n ie :: d' /\ Forall benign d') /\
  (forall ie : ioerr,
   res = Err (EIOWrite ie) ->
   exists (e : event) (d' : list event),
     d = e :: d' /\ Forall benign d' /\ ~ benign e /\ (is_write_ev e \/ is_flush_event e)).
Proof. exact (@enc_fault_statement_unfold). Qed.
Print Assumptions C10_enc_fault_statement_meaning.

(* ENCRYPT, chunk layer, EVERY io state (any data, any script with faults at any call): the statement above holds *)
Theorem C10_enc_fault_is_error :
  forall (P : prims) (key aad : bytes) (cs : N) (s : io) (res : outcome eerr unit) 
    (s' : io) (d : list event),
  encrypt_chunks P key aad cs s = (res, s') -> log s' = d ++ log s -> enc_fault_statement d res.
Proof. exact (enc_fault_is_error). Qed.
Print Assumptions C10_enc_fault_is_error.

(* ENCRYPT, FILE level, key mode, every io state, all keys: the same, header writes included *)
Theorem C10_key_encrypt_fault_is_error :
  forall (P : prims) (fresh_pk fresh_e sk spk r : bytes) (e epk pk : option bytes) 
    (s : io) (res : outcome eerr unit) (s' : io) (d : list event),
  key_encrypt P fresh_pk fresh_e sk spk r e epk pk s = (res, s') ->
  log s' = d ++ log s -> enc_fault_statement d res.
Proof. exact (key_encrypt_fault_is_error). Qed.
Print Assumptions C10_key_encrypt_fault_is_error.

(* ENCRYPT, FILE level, password mode *)
Theorem C10_pass_encrypt_fault_is_error :
  forall (P : prims) (pw salt : bytes) (s : io) (res : outcome eerr unit) (s' : io) (d : list event),
  pass_encrypt P pw salt s = (res, s') -> log s' = d ++ log s -> enc_fault_statement d res.
Proof. exact (pass_encrypt_fault_is_error). Qed.
Print Assumptions C10_pass_encrypt_fault_is_error.

(* ... and never a panic: every io state, result Ok or Err *)
Theorem C10_pass_encrypt_no_panic :
  forall P : prims,
  hash_ok P ->
  forall (pw salt : bytes) (s : io) (res : outcome eerr unit) (s' : io),
  pass_encrypt P pw salt s = (res, s') -> ok_or_err res.
Proof. exact (pass_encrypt_no_panic). Qed.
Print Assumptions C10_pass_encrypt_no_panic.

(* key mode likewise (keys of 32 bytes: type invariants of the API) *)
Theorem C10_key_encrypt_no_panic :
  forall P : prims,
  hash_ok P ->
  forall (fresh_pk fresh_e : bytes) (sk : list N) (spk : bytes) (rpk : list N) 
    (e epk pk : option bytes) (e' epk' : bytes) (s : io) (res : outcome eerr unit) 
    (s' : io),
  eph_of P fresh_e e epk = (e', epk') ->
  length e' = 32%nat ->
  length sk = 32%nat ->
  length rpk = 32%nat ->
  length (payload_of fresh_pk pk) = 32%nat ->
  key_encrypt P fresh_pk fresh_e sk spk rpk e epk pk s = (res, s') -> ok_or_err res.
Proof. exact (key_encrypt_no_panic). Qed.
Print Assumptions C10_key_encrypt_no_panic.

(* ENCRYPT PREFIX, chunk layer, EVERY io state (faults at any call).  tr = the new events, R = reads_until_empty (read_results tr) = the non-empty read results obtained, in order, up to the first empty one; saw_eof = some read returned 0 bytes.  For every continuation T of the read sequence (T = [] if end of input was seen) the bytes W written by the run are a prefix of spec_chunks (chunks_of_reads (R ++ T)); and Ok implies end of input was seen and W is the whole stream for R *)
Theorem C10_enc_prefix :
  forall (P : prims) (key aad : bytes) (cs : N),
  length key = 32%nat ->
  forall (s : io) (r : outcome eerr unit) (s' : io),
  encrypt_chunks P key aad cs s = (r, s') ->
  exists (tr : list event) (W : list N),
    trace s' = trace s ++ tr /\
    w_out (wtr s') = w_out (wtr s) ++ W /\
    (forall T : list bytes,
     (saw_eof (read_results tr) = true -> T = []) ->
     exists rest : list N,
       spec_chunks P key aad (chunks_of_reads (reads_until_empty (read_results tr) ++ T)) = W ++ rest) /\
    (r = Ok tt ->
     saw_eof (read_results tr) = true /\
     W = spec_chunks P key aad (chunks_of_reads (reads_until_empty (read_results tr)))).
Proof. exact (enc_prefix). Qed.
Print Assumptions C10_enc_prefix.

(* hence: W is a prefix of what EVERY fault-free conforming run s0 writes whose sequence of read results begins with the same R (is exactly R if the faulty run saw end of input) — "what has been written so far is a prefix of what the fault-free run writes"; if the first run is Ok the two outputs are equal *)
Theorem C10_enc_prefix_of_faultfree :
  forall (P : prims) (key aad : bytes) (cs : N),
  length key = 32%nat ->
  forall (s : io) (r : outcome eerr unit) (s' s0 : io),
  1 <= cs ->
  encrypt_chunks P key aad cs s = (r, s') ->
  reader_ok (rdr s0) ->
  writer_ok (wtr s0) ->
  exists (tr : list event) (W : list N),
    trace s' = trace s ++ tr /\
    w_out (wtr s') = w_out (wtr s) ++ W /\
    (forall T : list bytes,
     reads_of (N.to_nat cs) (rdr s0) = reads_until_empty (read_results tr) ++ T ->
     (saw_eof (read_results tr) = true -> T = []) ->
     exists (s0' : io) (rest : list N),
       encrypt_chunks P key aad cs s0 = (Ok tt, s0') /\
       w_out (wtr s0') = w_out (wtr s0) ++ W ++ rest /\ (r = Ok tt -> rest = [])).
Proof. exact (enc_prefix_of_faultfree). Qed.
Print Assumptions C10_enc_prefix_of_faultfree.

(* ENCRYPT PREFIX, FILE level, password mode, every io state: prefix of the documented password file, header included *)
Theorem C10_pass_encrypt_prefix :
  forall P : prims,
  hash_ok P ->
  forall (pw salt : bytes) (s : io) (r : outcome eerr unit) (s' : io),
  pass_encrypt P pw salt s = (r, s') ->
  exists (tr : list event) (W : list N),
    trace s' = trace s ++ tr /\
    w_out (wtr s') = w_out (wtr s) ++ W /\
    (forall T : list bytes,
     (saw_eof (read_results tr) = true -> T = []) ->
     exists rest : list N,
       spec_pass_file P pw salt (chunks_of_reads (reads_until_empty (read_results tr) ++ T)) = W ++ rest) /\
    (r = Ok tt ->
     saw_eof (read_results tr) = true /\
     W = spec_pass_file P pw salt (chunks_of_reads (reads_until_empty (read_results tr)))).
Proof. exact (pass_encrypt_prefix). Qed.
Print Assumptions C10_pass_encrypt_prefix.

(* ENCRYPT PREFIX, FILE level, key mode, every io state (when the Noise layer refuses, nothing is written at all: C05) *)
Theorem C10_key_encrypt_prefix :
  forall P : prims,
  hash_ok P ->
  forall (fresh_pk fresh_e sk spk rpk : bytes) (e epk pk : option bytes) (msg hh : bytes) 
    (s : io) (r : outcome eerr unit) (s' : io),
  length (payload_of fresh_pk pk) = 32%nat ->
  noise_encrypt P fresh_e sk spk rpk e epk x_prologue (payload_of fresh_pk pk) = Ok (msg, hh) ->
  key_encrypt P fresh_pk fresh_e sk spk rpk e epk pk s = (r, s') ->
  exists (tr : list event) (W : list N),
    trace s' = trace s ++ tr /\
    w_out (wtr s') = w_out (wtr s) ++ W /\
    (forall T : list bytes,
     (saw_eof (read_results tr) = true -> T = []) ->
     exists rest : list N,
       spec_key_file P msg hh (payload_of fresh_pk pk)
         (chunks_of_reads (reads_until_empty (read_results tr) ++ T)) = W ++ rest) /\
    (r = Ok tt ->
     saw_eof (read_results tr) = true /\
     W =
     spec_key_file P msg hh (payload_of fresh_pk pk)
       (chunks_of_reads (reads_until_empty (read_results tr)))).
Proof. exact (key_encrypt_prefix). Qed.
Print Assumptions C10_key_encrypt_prefix.

(* decrypt after encrypt is the identity for all conforming schedules on both sides (chunk layer; file level: C01, C02) *)
Theorem C10_roundtrip_all_schedules :
  forall (P : prims) (key aad : bytes) (cs : N) (s s' s2 : io) (r : outcome eerr unit),
  aead_ok P ->
  length key = 32%nat ->
  1 <= cs ->
  cs < 4294967296 ->
  reader_ok (rdr s) ->
  writer_ok (wtr s) ->
  encrypt_chunks P key aad cs s = (r, s') ->
  reader_ok (rdr s2) ->
  writer_ok (wtr s2) ->
  w_out (wtr s') = w_out (wtr s) ++ r_data (rdr s2) ->
  r = Ok tt /\
  (exists s2' : io,
     decrypt_chunks P key aad cs s2 = (Ok tt, s2') /\
     w_out (wtr s2') = w_out (wtr s2) ++ r_data (rdr s) /\ r_data (rdr s2') = []).
Proof. exact (chunk_roundtrip_gen). Qed.
Print Assumptions C10_roundtrip_all_schedules.

(* file level, key mode (this is C01's general form) *)
Theorem C10_key_file_roundtrip_all_schedules :
  forall (P : prims) (fresh_pk fresh_e : bytes) (s r : list N) (e epk pk : option bytes) (e' : bytes),
  aead_ok P ->
  hash_ok P ->
  dh_comm P ->
  eph_of P fresh_e e epk = (e', dh_pub P e') ->
  length e' = 32%nat ->
  length s = 32%nat ->
  length r = 32%nat ->
  length (payload_of fresh_pk pk) = 32%nat ->
  all_zero (p_dh P e' (dh_pub P r)) = false ->
  all_zero (p_dh P s (dh_pub P r)) = false ->
  forall s0 : io,
  reader_ok (rdr s0) ->
  writer_ok (wtr s0) ->
  exists (s0' : io) (F : list N),
    key_encrypt P fresh_pk fresh_e s (dh_pub P s) (dh_pub P r) e epk pk s0 = (Ok tt, s0') /\
    w_out (wtr s0') = w_out (wtr s0) ++ F /\
    (forall s1 : io,
     reader_ok (rdr s1) ->
     writer_ok (wtr s1) ->
     r_data (rdr s1) = F ->
     exists s1' : io,
       key_decrypt P r (dh_pub P r) s1 = (Ok (dh_pub P s), s1') /\
       w_out (wtr s1') = w_out (wtr s1) ++ r_data (rdr s0) /\ r_data (rdr s1') = []).
Proof. exact (key_file_roundtrip_gen). Qed.
Print Assumptions C10_key_file_roundtrip_all_schedules.

(* file level, password mode (C02's general form) *)
Theorem C10_pass_file_roundtrip_all_schedules :
  forall (P : prims) (pw : bytes) (salt : list N),
  aead_ok P ->
  hash_ok P ->
  length salt = 32%nat ->
  forall s0 : io,
  reader_ok (rdr s0) ->
  writer_ok (wtr s0) ->
  exists (s0' : io) (F : list N),
    pass_encrypt P pw salt s0 = (Ok tt, s0') /\
    w_out (wtr s0') = w_out (wtr s0) ++ F /\
    firstn 36 F = x_pass_file_magic ++ salt /\
    (forall s1 : io,
     reader_ok (rdr s1) ->
     writer_ok (wtr s1) ->
     r_data (rdr s1) = F ->
     exists s1' : io,
       pass_decrypt P pw s1 = (Ok tt, s1') /\
       w_out (wtr s1') = w_out (wtr s1) ++ r_data (rdr s0) /\ r_data (rdr s1') = []).
Proof. exact (pass_file_roundtrip_gen). Qed.
Print Assumptions C10_pass_file_roundtrip_all_schedules.

