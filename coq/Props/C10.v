(* Props/C10.v — partial reads/writes are harmless (primitive + decrypt layer so far; faults being added). *)
From Kestrel Require Import Bytes Outcome IO IOFacts Prims.
From Kestrel.Model Require Import AeadWrap Chunks.
From Kestrel.Proofs Require Import ChunksDec.
Local Open Scope N_scope.

(* every framing read returns exactly the next n bytes, however the source splits them *)
Theorem C10_read_exact_schedule_independent : forall n s, reader_ok (rdr s) -> (n <= length (r_data (rdr s)))%nat ->
  exists s', read_exact n s = (Some (inr (firstn n (r_data (rdr s)))), s') /\
             r_data (rdr s') = skipn n (r_data (rdr s)) /\ reader_ok (rdr s') /\ wtr s' = wtr s.
Proof. exact read_exact_ok. Qed.
Print Assumptions C10_read_exact_schedule_independent.

Theorem C10_write_all_schedule_independent : forall buf s, writer_ok (wtr s) ->
  exists s', write_all buf s = (Some None, s') /\ w_out (wtr s') = w_out (wtr s) ++ buf /\
             writer_ok (wtr s') /\ rdr s' = rdr s.
Proof. exact write_all_ok. Qed.
Print Assumptions C10_write_all_schedule_independent.

(* the decryptor's result on a well-formed file does not depend on the read or write schedule *)
Theorem C10_decrypt_schedule_independent :
  forall (P : prims) (key aad : bytes) (cs : N), length key = 32%nat -> aead_ok P -> cs < 4294967296 ->
  forall chunks n s fuel, chunks <> [] -> Forall (chunk_ok cs) chunks ->
    reader_ok (rdr s) -> writer_ok (wtr s) ->
    r_data (rdr s) = spec_chunks_from P key aad n chunks -> (length chunks <= fuel)%nat ->
    exists s', decrypt_chunks_loop P fuel key aad cs n s = (Ok tt, s') /\
               w_out (wtr s') = w_out (wtr s) ++ concat chunks /\ r_data (rdr s') = [].
Proof. intros P key aad cs Hk Ha Hc. exact (dec_spec_chunks_ok P key aad cs Hk Ha Hc). Qed.
Print Assumptions C10_decrypt_schedule_independent.
