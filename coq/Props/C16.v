(* Props/C16.v — property C16: a key keeps its identity through password changes.   PARTIAL.
   Statements only; proofs are in Proofs/KeyringFacts.v (and CombineRand.v for the salts).

   Model: the COMPUTATION of cli/src/commands.rs::{gen_key, change_pass, extract_pub} (Model/Keyring.v) — not
   their terminal / file handling.  [change_pass_seq P str0 pw0 steps] applies change-pass repeatedly, each step
   (new_pw, salt') unlocking with the then-current password and re-locking under the new password and that
   step's salt; it returns every intermediate string.  See Props/C15.v for [kr_blob], [version], [bytes_ok],
   [prims_bytes_ok].

   Proved for every history of change-pass steps over arbitrary passwords (empty, long, any bytes) and salts:
   identity is preserved, every intermediate string is usable, the salt of step i is embedded in string i;
   extract-pub prints the PublicKey line that generation wrote; all outputs are explicit functions in which the
   private key occurs only as AEAD plaintext (inside kr_blob) and as argument of the public-key derivation.
   PARTIAL / not proved here:
   * "earlier passwords stop working unless equal to the newest": cryptographic — C16_old_password_stops_partial
     needs the premise that the AEAD open under the old password's derived key fails;
   * "every change uses a NEW salt": the model takes the salt as an input; that successive inputs are distinct
     draws of the random stream is C07_draws_disjoint / C07_drawn_values_distinct (stream model), and that the
     OS generator's blocks differ is not modelled;
   * "the raw private key never appears in any output" is given in the form of the closed-form output lemmas
     (C16_*_output): that AEAD output and X25519 output do not reveal their secret input is cryptographic. *)
From Kestrel Require Import Bytes BytesFacts Outcome Prims.
From Kestrel.gen Require Import Extracted.
From Kestrel.Spec Require Import Base64 Base64Facts.
From Kestrel.Model Require Import AeadWrap KeyringText KeyringSpec Keyring Rand.
From Kestrel.Proofs Require Import KeyringRefine KeyringFacts CombineRand CombineKeyring.
Local Open Scope N_scope.

(* IDENTITY.  For every 32-byte private key, initial password and salt, and EVERY list of change-pass steps (new password, 32-byte salt): locking succeeds, the whole sequence of changes succeeds, every intermediate string unlocks under ITS password to the ORIGINAL key, is accepted by EncodedSk::try_from and embeds that step's salt at bytes 4..36, and the final string unlocks under the last password to the original key *)
Theorem C16_identity_preserved :
  forall P : prims,
  aead_ok P ->
  hash_ok P ->
  prims_bytes_ok P ->
  forall (sk : list N) (pw0 : bytes) (salt0 : list N) (steps : list (bytes * list N)),
  length sk = 32%nat ->
  bytes_ok sk ->
  length salt0 = 32%nat ->
  bytes_ok salt0 ->
  Forall (fun st : bytes * list N => length (snd st) = 32%nat /\ bytes_ok (snd st)) steps ->
  exists (str0 : text) (outs : list text),
    lock_private_key P sk pw0 salt0 = Ok str0 /\
    change_pass_seq P str0 pw0 steps = Ok outs /\
    Forall2
      (fun (out : text) (st : bytes * list N) =>
       unlock_private_key P out (fst st) = Ok sk /\
       sk_string_ok out = true /\
       (exists b : bytes, b64_decode out = Some b /\ firstn 32 (skipn 4 b) = snd st)) outs steps /\
    unlock_private_key P (last outs str0) (last (map fst steps) pw0) = Ok sk.
Proof. exact (change_pass_identity). Qed.
Print Assumptions C16_identity_preserved.

(* closed form: string i is the base64 of the blob of the ORIGINAL key under step i's password and salt — nothing else of the history enters *)
Theorem C16_change_pass_seq_output :
  forall P : prims,
  aead_ok P ->
  hash_ok P ->
  prims_bytes_ok P ->
  forall sk : list N,
  length sk = 32%nat ->
  bytes_ok sk ->
  forall (steps : list (bytes * list N)) (locked : text) (pw : bytes),
  sk_string_ok locked = true ->
  unlock_private_key P locked pw = Ok sk ->
  Forall (fun st : bytes * list N => length (snd st) = 32%nat /\ bytes_ok (snd st)) steps ->
  change_pass_seq P locked pw steps =
  Ok (map (fun st : bytes * bytes => b64_encode (kr_blob P sk (fst st) (snd st))) steps).
Proof. exact (change_pass_seq_eq). Qed.
Print Assumptions C16_change_pass_seq_output.

(* one change-pass, the printed line: "PrivateKey = " ++ base64(version ++ new salt ++ AEAD(.., sk)): the private key occurs only as AEAD plaintext *)
Theorem C16_change_pass_output :
  forall P : prims,
  hash_ok P ->
  forall (locked : text) (old_pw new_pw : bytes) (salt' : list N) (sk : bytes),
  sk_string_ok locked = true ->
  unlock_private_key P locked old_pw = Ok sk ->
  length salt' = 32%nat ->
  change_pass P locked old_pw new_pw salt' =
  Ok (s_priv ++ s_sp_eq_sp ++ b64_encode (kr_blob P sk new_pw salt')).
Proof. exact (change_pass_eq). Qed.
Print Assumptions C16_change_pass_output.

(* if the old password does not unlock, change-pass fails with that keyring error and produces no new string *)
Theorem C16_change_pass_wrong_old_password :
  forall (P : prims) (locked : text) (old_pw new_pw salt' : bytes) (e : kerr),
  sk_string_ok locked = true ->
  unlock_private_key P locked old_pw = Err e ->
  change_pass P locked old_pw new_pw salt' = Err (CKeyring e).
Proof. exact (change_pass_unlock_err). Qed.
Print Assumptions C16_change_pass_wrong_old_password.

(* a string EncodedSk::try_from refuses is refused *)
Theorem C16_change_pass_bad_string :
  forall (P : prims) (locked : text) (old_pw new_pw salt' : bytes),
  sk_string_ok locked = false -> change_pass P locked old_pw new_pw salt' = Err CBadPrivateKey.
Proof. exact (change_pass_bad_string). Qed.
Print Assumptions C16_change_pass_bad_string.

(* PARTIAL: the newest locked string (of sk under pw, salt) unlocks with pw, and ANY other password pw' applied to it gives exactly PrivateKeyDecrypt — under the premise that the AEAD open of the honest ciphertext under scrypt(pw', salt) fails (the cryptographic step: an earlier password different from the newest derives a different key) *)
Theorem C16_old_password_stops_partial :
  forall P : prims,
  aead_ok P ->
  hash_ok P ->
  prims_bytes_ok P ->
  forall (sk : list N) (pw : bytes) (salt : list N) (pw' : bytes),
  length sk = 32%nat ->
  bytes_ok sk ->
  length salt = 32%nat ->
  bytes_ok salt ->
  p_open P (kr_key P pw' salt) (zeros 12) x_kr_private_key_version
    (p_seal P (kr_key P pw salt) (zeros 12) x_kr_private_key_version sk) = None ->
  exists str : text,
    lock_private_key P sk pw salt = Ok str /\
    sk_string_ok str = true /\
    unlock_private_key P str pw = Ok sk /\ unlock_private_key P str pw' = Err PrivateKeyDecrypt.
Proof. exact (other_password_rejected_partial). Qed.
Print Assumptions C16_old_password_stops_partial.

(* EXTRACT-PUB = GENERATION.  For every valid name, key, password, salt: key generation produces serialize_key name epk esk, extract_pub on esk with the password prints a line, that line is "PublicKey = " ++ epk, and it is LITERALLY the PublicKey line of the text generation wrote *)
Theorem C16_extract_pub :
  forall P : prims,
  aead_ok P ->
  hash_ok P ->
  prims_bytes_ok P ->
  forall (name : text) (sk : list N) (pw : bytes) (salt : list N),
  valid_key_name name = true ->
  length sk = 32%nat ->
  bytes_ok sk ->
  length salt = 32%nat ->
  bytes_ok salt ->
  exists epk esk line : text,
    gen_key_text P name sk pw salt = Ok (serialize_key name epk esk) /\
    extract_pub P esk pw = Ok line /\
    line = s_pub ++ s_sp_eq_sp ++ epk /\
    serialize_key name epk esk =
    s_hdr ++
    [c_nl] ++
    s_name ++ s_sp_eq_sp ++ name ++ [c_nl] ++ line ++ [c_nl] ++ s_priv ++ s_sp_eq_sp ++ esk ++ [c_nl].
Proof. exact (extract_pub_matches_gen). Qed.
Print Assumptions C16_extract_pub.

(* closed form: extract-pub prints "PublicKey = " ++ base64(X25519 public key of the unlocked private key ++ first 4 bytes of its SHA-256) — the keyring encoding of the public key of THAT private key *)
Theorem C16_extract_pub_output :
  forall P : prims,
  aead_ok P ->
  hash_ok P ->
  forall (locked : text) (pw sk : bytes),
  sk_string_ok locked = true ->
  unlock_private_key P locked pw = Ok sk ->
  extract_pub P locked pw = Ok (s_pub ++ s_sp_eq_sp ++ b64_encode (pk_blob P (dh_pub P sk))).
Proof. exact (extract_pub_eq). Qed.
Print Assumptions C16_extract_pub_output.

(* closed form of key generation's output: the private key occurs only under the public-key derivation and as AEAD plaintext *)
Theorem C16_gen_key_output :
  forall P : prims,
  hash_ok P ->
  forall (name : text) (sk : list N) (pw : bytes) (salt : list N),
  valid_key_name name = true ->
  length sk = 32%nat ->
  length salt = 32%nat ->
  gen_key_text P name sk pw salt =
  Ok (serialize_key name (b64_encode (pk_blob P (dh_pub P sk))) (b64_encode (kr_blob P sk pw salt))).
Proof. exact (gen_key_text_eq). Qed.
Print Assumptions C16_gen_key_output.

(* a string EncodedSk::try_from refuses is refused *)
Theorem C16_extract_pub_bad_string :
  forall (P : prims) (locked : text) (pw : bytes),
  sk_string_ok locked = false -> extract_pub P locked pw = Err CBadPrivateKey.
Proof. exact (extract_pub_bad_string). Qed.
Print Assumptions C16_extract_pub_bad_string.

(* a key generated into a keyring (name and encoded key not yet present) parses back as the last entry, unlocks with its password to the drawn private key, its public key decodes to the X25519 public key of that private key, and extract-pub prints it *)
Theorem C16_generated_keys_usable :
  forall P : prims,
  aead_ok P ->
  hash_ok P ->
  prims_bytes_ok P ->
  forall (t0 : text) (ks0 : list entry) (name : text) (sk : list N) (pw : bytes) 
    (salt : list N) (txt epk : text),
  gen_name_ok name ->
  length sk = 32%nat ->
  bytes_ok sk ->
  length salt = 32%nat ->
  bytes_ok salt ->
  parse_config pk_string_ok sk_string_ok t0 = Ok ks0 ->
  gen_key_text P name sk pw salt = Ok txt ->
  encode_public_key P (dh_pub P sk) = Ok epk ->
  ~ In name (map k_name ks0) ->
  ~ In epk (map k_pub ks0) ->
  exists esk : text,
    parse_config pk_string_ok sk_string_ok (t0 ++ [c_nl] ++ txt) =
    Ok (ks0 ++ [{| k_name := name; k_pub := epk; k_priv := Some esk |}]) /\
    unlock_private_key P esk pw = Ok sk /\
    decode_public_key P epk = Ok (dh_pub P sk) /\ extract_pub P esk pw = Ok (s_pub ++ s_sp_eq_sp ++ epk).
Proof. exact (generated_keys_usable). Qed.
Print Assumptions C16_generated_keys_usable.

(* "every change uses a new salt", in the stream model of Model/Rand.v: all values drawn in a history (each change-pass draws one lock salt, each generation a private key then a lock salt) are pairwise distinct if the stream's blocks are — see Props/C07.v for what is not modelled *)
Theorem C16_salts_are_distinct_draws :
  forall (stream : nat -> bytes) (ops : list op) (c : nat),
  (forall i j : nat,
   (c <= i < c + total_draws ops)%nat ->
   (c <= j < c + total_draws ops)%nat -> stream i = stream j -> i = j) ->
  NoDup (map d_value (all_draws (fst (run_history stream c ops)))).
Proof. exact (drawn_values_distinct). Qed.
Print Assumptions C16_salts_are_distinct_draws.

