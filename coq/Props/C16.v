(* Props/C16.v — PLACEHOLDER created by the check-writer for local testing only; to be replaced by the
   real theorems of property C16. *)
Example C16_placeholder : True.
Proof. exact I. Qed.
Print Assumptions C16_placeholder.
