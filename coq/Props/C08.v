(* Props/C08.v — property C08: no identities in the file; the size formula.   PARTIAL.
   Statements only; proofs are in Proofs/CombineFiles.v and ChunksEnc.v.

   Proved, for every plaintext, all keys / passwords, every conforming read partition and write schedule:
   * the exact length of the bytes written: 132 (key mode) or 36 (password mode) + 32 per chunk + plaintext
     length, number of chunks = max 1 (number of non-empty reads) — keys, names and password do not occur on
     the right-hand side;
   * the complete byte structure: the only cleartext is the 4-byte magic, the ephemeral public key (or the
     salt) and the 16-byte record headers (counter, last flag, length); every other byte is output of the AEAD
     ([hs_c1], [hs_c2], [chunk_cts_from] are p_seal results by definition);
   * that cleartext is IDENTICAL, at identical offsets, for any two sender/recipient pairs given the same
     ephemeral key, plaintext and read partition.
   Keyring NAMES are not an input of key_encrypt / pass_encrypt at all (see their signatures), so they cannot
   influence the output.
   PARTIAL — not provable here: that the AEAD output bytes do not contain the public keys in raw or base64
   form.  That is a statement about the output distribution of ChaCha20-Poly1305; it is trusted, and only
   observed by the substring searches of the correspondence runs. *)
From Kestrel Require Import Bytes Outcome IO IOFacts Prims.
From Kestrel.gen Require Import Extracted.
From Kestrel.Model Require Import AeadWrap Chunks Noise NoiseSpec Files EventPreds FilesSpec ChunksSpec CombineDefs.
From Kestrel.Proofs Require Import ChunksEnc FilesFacts CombineFiles.
Local Open Scope N_scope.

(* KEY MODE LENGTH.  (e', epk') is the ephemeral pair in use; all keys 32 bytes; the key exchange is not refused; conforming scripts.  Then key_encrypt returns Ok and the sink grew by exactly 132 + 32 * max 1 (#non-empty reads) + |plaintext| bytes.  (If the key exchange is refused nothing is written: C05_zero_dh_refused.) *)
Theorem C08_key_file_length :
  forall (P : prims) (fresh_pk fresh_e : bytes) (s spk rpk : list N) (e epk pk : option bytes)
    (e' epk' : bytes) (s0 s0' : io) (r : outcome eerr unit),
  aead_ok P ->
  hash_ok P ->
  eph_of P fresh_e e epk = (e', epk') ->
  length e' = 32%nat ->
  length epk' = 32%nat ->
  length s = 32%nat ->
  length spk = 32%nat ->
  length rpk = 32%nat ->
  length (payload_of fresh_pk pk) = 32%nat ->
  all_zero (p_dh P e' rpk) = false ->
  all_zero (p_dh P s rpk) = false ->
  reader_ok (rdr s0) ->
  writer_ok (wtr s0) ->
  key_encrypt P fresh_pk fresh_e s spk rpk e epk pk s0 = (r, s0') ->
  r = Ok tt /\
  length (w_out (wtr s0')) =
  (length (w_out (wtr s0)) + 132 + 32 * Nat.max 1 (length (reads_of (N.to_nat cs_const) (rdr s0))) +
   length (r_data (rdr s0)))%nat.
Proof. exact (key_file_length). Qed.
Print Assumptions C08_key_file_length.

(* PASSWORD MODE LENGTH: 36 + 32 * max 1 (#non-empty reads) + |plaintext|, for every password (the password does not occur in the formula) *)
Theorem C08_pass_file_length :
  forall (P : prims) (pw : bytes) (salt : list N) (s0 s0' : io) (r : outcome eerr unit),
  aead_ok P ->
  hash_ok P ->
  length salt = 32%nat ->
  reader_ok (rdr s0) ->
  writer_ok (wtr s0) ->
  pass_encrypt P pw salt s0 = (r, s0') ->
  r = Ok tt /\
  length (w_out (wtr s0')) =
  (length (w_out (wtr s0)) + 36 + 32 * Nat.max 1 (length (reads_of (N.to_nat cs_const) (rdr s0))) +
   length (r_data (rdr s0)))%nat.
Proof. exact (pass_file_length). Qed.
Print Assumptions C08_pass_file_length.

(* the same for every file of the documented format, any chunking: 4 + |handshake message| + 32 per chunk + plaintext length *)
Theorem C08_spec_key_file_length :
  forall (P : prims) (msg hh payload : bytes) (chunks : list bytes),
  aead_ok P ->
  length (spec_key_file P msg hh payload chunks) =
  (4 + length msg + 32 * length chunks + length (concat chunks))%nat.
Proof. exact (spec_key_file_length). Qed.
Print Assumptions C08_spec_key_file_length.

(* ... *)
Theorem C08_spec_pass_file_length :
  forall (P : prims) (pw salt : bytes) (chunks : list bytes),
  aead_ok P ->
  length (spec_pass_file P pw salt chunks) =
  (4 + length salt + 32 * length chunks + length (concat chunks))%nat.
Proof. exact (spec_pass_file_length). Qed.
Print Assumptions C08_spec_pass_file_length.

(* the handshake message has |epk| + (|spk| + 16) + (|payload| + 16) bytes = 128 for 32-byte keys *)
Theorem C08_handshake_message_length :
  forall (P : prims) (e epk s spk rpk prologue payload msg hh : bytes),
  aead_ok P ->
  noise_encrypt_spec P e epk s spk rpk prologue payload = Ok (msg, hh) ->
  length msg = (length epk + (length spk + 16) + (length payload + 16))%nat.
Proof. exact (noise_msg_length). Qed.
Print Assumptions C08_handshake_message_length.

(* chunk layer, whatever the result of the run: 32 * max 1 (#reads) + plaintext length *)
Theorem C08_chunk_stream_length :
  forall (P : prims) (key aad : bytes) (cs : N) (s : io) (r : outcome eerr unit) (s' : io),
  (forall k n ad m : bytes, length (p_seal P k n ad m) = (length m + 16)%nat) ->
  length key = 32%nat ->
  1 <= cs ->
  reader_ok (rdr s) ->
  writer_ok (wtr s) ->
  encrypt_chunks P key aad cs s = (r, s') ->
  length (w_out (wtr s')) =
  (length (w_out (wtr s)) + 32 * Nat.max 1 (length (reads_of (N.to_nat cs) (rdr s))) +
   length (r_data (rdr s)))%nat.
Proof. exact (enc_output_length). Qed.
Print Assumptions C08_chunk_stream_length.

(* STRUCTURE, key mode.  The bytes written are prologue ++ epk' ++ c1 ++ c2 ++ stream_of headers cts, where c1 = [hs_c1] and c2 = [hs_c2] are AEAD outputs (of the sender's public key and of the payload key), [cts] are the AEAD outputs of the chunks, and [headers] = chunk_headers_from 0 chunks are the 16-byte record headers (be64 counter, be32 last flag, be32 length — a function of the chunk lengths only).  So bytes 4..36 are the ephemeral public key and NOTHING ELSE of a key file is cleartext except magic and record headers; in particular neither spk nor rpk is written in clear (spk only inside c1 as AEAD plaintext; rpk not at all, it only enters keys and associated data). *)
Theorem C08_cleartext_fields :
  forall (P : prims) (fresh_pk fresh_e : bytes) (s : list N) (spk : bytes) (rpk : list N)
    (e epk pk : option bytes) (e' epk' : bytes) (s0 s0' : io),
  hash_ok P ->
  eph_of P fresh_e e epk = (e', epk') ->
  length e' = 32%nat ->
  length s = 32%nat ->
  length rpk = 32%nat ->
  length (payload_of fresh_pk pk) = 32%nat ->
  reader_ok (rdr s0) ->
  writer_ok (wtr s0) ->
  key_encrypt P fresh_pk fresh_e s spk rpk e epk pk s0 = (Ok tt, s0') ->
  exists hh : bytes,
    let chunks := chunks_of_reads (reads_of (N.to_nat cs_const) (rdr s0)) in
    let K := file_key P (payload_of fresh_pk pk) hh in
    w_out (wtr s0') =
    w_out (wtr s0) ++
    x_prologue ++
    epk' ++
    hs_c1 P x_prologue rpk epk' spk (p_dh P e' rpk) ++
    hs_c2 P x_prologue rpk epk' spk (p_dh P e' rpk) (p_dh P s rpk) (payload_of fresh_pk pk) ++
    stream_of (chunk_headers_from 0 chunks) (chunk_cts_from P K [] 0 chunks).
Proof. exact (key_file_cleartext_view). Qed.
Print Assumptions C08_cleartext_fields.

(* the same with the refused case made explicit (nothing written, state unchanged) *)
Theorem C08_key_file_structure :
  forall (P : prims) (fresh_pk fresh_e : bytes) (s : list N) (spk : bytes) (rpk : list N)
    (e epk pk : option bytes) (e' epk' : bytes) (s0 s0' : io) (r : outcome eerr unit),
  hash_ok P ->
  eph_of P fresh_e e epk = (e', epk') ->
  length e' = 32%nat ->
  length s = 32%nat ->
  length rpk = 32%nat ->
  length (payload_of fresh_pk pk) = 32%nat ->
  reader_ok (rdr s0) ->
  writer_ok (wtr s0) ->
  key_encrypt P fresh_pk fresh_e s spk rpk e epk pk s0 = (r, s0') ->
  r = Err EOther /\ s0' = s0 /\ (all_zero (p_dh P e' rpk) = true \/ all_zero (p_dh P s rpk) = true) \/
  r = Ok tt /\
  all_zero (p_dh P e' rpk) = false /\
  all_zero (p_dh P s rpk) = false /\
  (exists hh : bytes,
     w_out (wtr s0') =
     w_out (wtr s0) ++
     x_prologue ++
     epk' ++
     hs_c1 P x_prologue rpk epk' spk (p_dh P e' rpk) ++
     hs_c2 P x_prologue rpk epk' spk (p_dh P e' rpk) (p_dh P s rpk) (payload_of fresh_pk pk) ++
     spec_chunks P (file_key P (payload_of fresh_pk pk) hh) []
       (chunks_of_reads (reads_of (N.to_nat cs_const) (rdr s0)))).
Proof. exact (key_file_structure). Qed.
Print Assumptions C08_key_file_structure.

(* bytes 0..36 of what key_encrypt appends are exactly prologue ++ ephemeral public key *)
Theorem C08_cleartext_header :
  forall (P : prims) (fresh_pk fresh_e : bytes) (s : list N) (spk : bytes) (rpk : list N)
    (e epk pk : option bytes) (e' epk' : bytes) (s0 s0' : io) (F : list N),
  hash_ok P ->
  eph_of P fresh_e e epk = (e', epk') ->
  length e' = 32%nat ->
  length epk' = 32%nat ->
  length s = 32%nat ->
  length rpk = 32%nat ->
  length (payload_of fresh_pk pk) = 32%nat ->
  reader_ok (rdr s0) ->
  writer_ok (wtr s0) ->
  key_encrypt P fresh_pk fresh_e s spk rpk e epk pk s0 = (Ok tt, s0') ->
  w_out (wtr s0') = w_out (wtr s0) ++ F -> firstn 36 F = x_prologue ++ epk'.
Proof. exact (key_file_cleartext_header). Qed.
Print Assumptions C08_cleartext_header.

(* STRUCTURE, password mode: magic ++ salt ++ stream_of headers cts; headers do not depend on the password *)
Theorem C08_pass_cleartext_fields :
  forall (P : prims) (pw salt : bytes) (s0 s0' : io),
  hash_ok P ->
  reader_ok (rdr s0) ->
  writer_ok (wtr s0) ->
  pass_encrypt P pw salt s0 = (Ok tt, s0') ->
  let chunks := chunks_of_reads (reads_of (N.to_nat cs_const) (rdr s0)) in
  w_out (wtr s0') =
  w_out (wtr s0) ++
  x_pass_file_magic ++
  salt ++
  stream_of (chunk_headers_from 0 chunks) (chunk_cts_from P (kdf P pw salt) x_pass_file_magic 0 chunks).
Proof. exact (pass_file_cleartext_view). Qed.
Print Assumptions C08_pass_cleartext_fields.

(* IDENTITY INDEPENDENCE.  Two key_encrypt runs with the same ephemeral key (e, epk, fresh_e) and the same plaintext source and read script (rdr sb = rdr sa), but arbitrary different senders (s1, spk1) / (s2, spk2), recipients rpk1 / rpk2 (and payload keys): both files are prologue ++ epk' ++ [48 bytes AEAD] ++ [48 bytes AEAD] ++ stream_of hdrs [AEAD outputs] with THE SAME prologue, epk' and record headers hdrs (each 16 bytes), and AEAD outputs of pairwise equal lengths.  So the cleartext fields are byte-identical at identical offsets, and the lengths are equal. *)
Theorem C08_cleartext_independent_of_identities :
  forall (P : prims) (fresh_pk1 fresh_pk2 fresh_e : bytes) (e epk : option bytes) 
    (e' epk' : bytes) (s1 spk1 rpk1 : list N) (pk1 : option bytes) (s2 spk2 rpk2 : list N)
    (pk2 : option bytes) (sa sa' sb sb' : io),
  aead_ok P ->
  hash_ok P ->
  eph_of P fresh_e e epk = (e', epk') ->
  length e' = 32%nat ->
  length s1 = 32%nat ->
  length spk1 = 32%nat ->
  length rpk1 = 32%nat ->
  length (payload_of fresh_pk1 pk1) = 32%nat ->
  length s2 = 32%nat ->
  length spk2 = 32%nat ->
  length rpk2 = 32%nat ->
  length (payload_of fresh_pk2 pk2) = 32%nat ->
  reader_ok (rdr sa) ->
  writer_ok (wtr sa) ->
  reader_ok (rdr sb) ->
  writer_ok (wtr sb) ->
  rdr sb = rdr sa ->
  key_encrypt P fresh_pk1 fresh_e s1 spk1 rpk1 e epk pk1 sa = (Ok tt, sa') ->
  key_encrypt P fresh_pk2 fresh_e s2 spk2 rpk2 e epk pk2 sb = (Ok tt, sb') ->
  exists (hdrs : list bytes) (c1 c2 : list N) (cts : list bytes) (d1 d2 : list N) 
  (dts : list bytes),
    w_out (wtr sa') = w_out (wtr sa) ++ x_prologue ++ epk' ++ c1 ++ c2 ++ stream_of hdrs cts /\
    w_out (wtr sb') = w_out (wtr sb) ++ x_prologue ++ epk' ++ d1 ++ d2 ++ stream_of hdrs dts /\
    length c1 = 48%nat /\
    length d1 = 48%nat /\
    length c2 = 48%nat /\
    length d2 = 48%nat /\
    map (length (A:=N)) cts = map (length (A:=N)) dts /\
    length cts = length hdrs /\ Forall (fun h : list N => length h = 16%nat) hdrs.
Proof. exact (key_file_cleartext_independent). Qed.
Print Assumptions C08_cleartext_independent_of_identities.

(* chunk layer: every stream of the documented format is the interleaving of its record headers and its AEAD outputs *)
Theorem C08_chunk_stream_view :
  forall (P : prims) (key aad : bytes) (chunks : list bytes) (n : N),
  spec_chunks_from P key aad n chunks =
  stream_of (chunk_headers_from n chunks) (chunk_cts_from P key aad n chunks).
Proof. exact (spec_chunks_from_view). Qed.
Print Assumptions C08_chunk_stream_view.

