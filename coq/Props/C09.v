(* Props/C09.v — untrusted bytes never crash (AEAD layer so far; other surfaces are being added). *)
From Kestrel Require Import Bytes Outcome Prims.
From Kestrel.Model Require Import AeadWrap.
From Kestrel.Proofs Require Import PrimFacts.

Theorem C09_aead_open_never_panics : forall P key nonce ct ad,
  length key = 32%nat -> length nonce = 12%nat -> normal (chapoly_decrypt_ietf P key nonce ct ad).
Proof. exact aead_decrypt_normal. Qed.
Print Assumptions C09_aead_open_never_panics.

Theorem C09_noise_aead_open_never_panics : forall P key n ct ad,
  length key = 32%nat -> normal (chapoly_decrypt_noise P key n ad ct).
Proof. exact noise_decrypt_normal. Qed.
Print Assumptions C09_noise_aead_open_never_panics.

(* finding F1 (repaired in /repo by a fix: commit): the code as pinned panicked on short ciphertexts *)
Theorem C09_aead_short_ct_refuted_before_fix : forall P key nonce ad,
  length key = 32%nat -> length nonce = 12%nat ->
  exists ct, chapoly_decrypt_ietf_gen P true key nonce ct ad = Panic PArith.
Proof. exact aead_legacy_refuted. Qed.
Print Assumptions C09_aead_short_ct_refuted_before_fix.
