(* Props/C09.v — property C09: untrusted bytes never crash; bounded work.   PARTIAL (heap use measured, not proved).
   Statements only; proofs are in Proofs/ChunksRobust.v, CombineRobust.v, NoiseFacts.v, PrimFacts.v,
   KeyringFacts.v, KeyringRefine.v.

   The model is faithful about crashes: every Rust panic site (slice index, copy_from_slice, unwrap/expect,
   assert, integer under/overflow) is an explicit [Panic] outcome and every model loop that could run away is
   an explicit [OutOfFuel]; [normal r] means r is Ok or Err.  The theorems exclude Panic and OutOfFuel BY PROOF,
   one per untrusted-input surface, each for EVERY byte string of EVERY length and — for the file decryptors —
   every I/O script (short reads, zero-length reads, faults at any call):
     encrypted file (key mode, password mode, chunk layer), Noise handshake message, AEAD ciphertext,
     encoded public key, locked private key, keyring text.
   Preconditions that remain are type invariants of the Rust API, not properties of the untrusted input:
   a private key / AEAD key has 32 bytes, an IETF nonce has 12 bytes (PrivateKey, [u8; 32], fixed arrays), and
   encoded keys have passed EncodedPk/EncodedSk::try_from (a total boolean check, [pk_string_ok]/[sk_string_ok]).
   Bounded work: every Read::read request of a decryptor is at most 65536 + 16 bytes, the only
   attacker-chosen length field is compared with the chunk size before it sizes a read; the password path calls
   scrypt at most once with the constant parameters, the key path never.
   Two surfaces were FALSE on the code as pinned (genuine defects, repaired by fix: commits); the refutations
   are kept as theorems about the legacy variants of the model (C09_*_refuted_before_fix).
   The command-line surface IS modelled: argv as byte strings through convert_args (strict UTF-8) and the
   parser of main.rs (Model/CliArgs.v, CliParse.v, Getopts.v) — C09_argv_bytes_never_panic,
   C09_argv_bytes_invalid_is_error, C09_argv_bytes_valid at the end of this file; the exit status of a whole
   command is C12's subject (Model/Cli.v, CliGlue.v).  The Noise length guard of the model is the pair of
   literals read from noise.rs on every run (Noise.guard_min / guard_max; C09_noise_guard_constants).
   PARTIAL — not proved: actual heap use of the Rust process (measured by the C11 check); termination of the
   real process (watchdog). *)
From Kestrel Require Import Bytes Outcome IO IOFacts Prims.
From Kestrel.gen Require Import Extracted.
From Kestrel.Model Require Import AeadWrap Chunks Noise NoiseSpec Files EventPreds FilesSpec ChunksSpec ChunksRobustDefs
  CombineDefs KeyringText KeyringSpec Keyring.
From Kestrel.Proofs Require Import ChunksEnc ChunksRobust NoiseFacts PrimFacts KeyringRefine KeyringFacts
  CombineFiles CombineRobust.
Local Open Scope N_scope.

(* ENCRYPTED FILE, key mode.  For EVERY io state — any offered bytes of any length, any read / write / flush script — and every 32-byte recipient private key: the result of key_decrypt is Ok or Err, never Panic, never OutOfFuel *)
Theorem C09_key_decrypt_no_panic :
  forall P : prims,
  hash_ok P ->
  forall (r : list N) (rpk : bytes) (s : io) (res : outcome derr bytes) (s' : io),
  length r = 32%nat -> key_decrypt P r rpk s = (res, s') -> normal res.
Proof. exact (key_decrypt_no_panic). Qed.
Print Assumptions C09_key_decrypt_no_panic.

(* the same as an explicit dichotomy *)
Theorem C09_key_decrypt_total :
  forall P : prims,
  hash_ok P ->
  forall (r : list N) (rpk : bytes) (s : io),
  length r = 32%nat ->
  (exists (spk : bytes) (s' : io), key_decrypt P r rpk s = (Ok spk, s')) \/
  (exists (e : derr) (s' : io), key_decrypt P r rpk s = (Err e, s')).
Proof. exact (key_decrypt_no_panic'). Qed.
Print Assumptions C09_key_decrypt_total.

(* ENCRYPTED FILE, password mode: every io state, every password *)
Theorem C09_pass_decrypt_no_panic :
  forall P : prims,
  hash_ok P ->
  forall (pw : bytes) (s : io) (res : outcome derr unit) (s' : io),
  pass_decrypt P pw s = (res, s') -> normal res.
Proof. exact (pass_decrypt_no_panic). Qed.
Print Assumptions C09_pass_decrypt_no_panic.

(* the same as an explicit dichotomy *)
Theorem C09_pass_decrypt_total :
  forall P : prims,
  hash_ok P ->
  forall (pw : bytes) (s : io),
  (exists s' : io, pass_decrypt P pw s = (Ok tt, s')) \/
  (exists (e : derr) (s' : io), pass_decrypt P pw s = (Err e, s')).
Proof. exact (pass_decrypt_no_panic'). Qed.
Print Assumptions C09_pass_decrypt_total.

(* chunk layer: every io state, every 32-byte key, every associated data, every chunk size (the fuel given to the model loop always suffices) *)
Theorem C09_decrypt_chunks_no_panic :
  forall (P : prims) (key aad : bytes) (cs : N),
  length key = 32%nat ->
  forall (s : io) (res : outcome derr unit) (s' : io),
  decrypt_chunks P key aad cs s = (res, s') -> res = Ok tt \/ (exists e : derr, res = Err e).
Proof. exact (dec_no_panic). Qed.
Print Assumptions C09_decrypt_chunks_no_panic.

(* NOISE HANDSHAKE MESSAGE: for every message of every length (0, short, 128, longer than 65535, ...) noise_decrypt returns Ok or Err *)
Theorem C09_noise_no_panic :
  forall P : prims,
  hash_ok P ->
  forall (r : list N) (rpk prologue msg : bytes),
  length r = 32%nat -> normal (noise_decrypt P r rpk prologue msg).
Proof. exact (noise_no_panic). Qed.
Print Assumptions C09_noise_no_panic.

(* the same as an explicit dichotomy *)
Theorem C09_noise_total :
  forall P : prims,
  hash_ok P ->
  forall (r : list N) (rpk prologue msg : bytes),
  length r = 32%nat ->
  (exists x : bytes * bytes * bytes, noise_decrypt P r rpk prologue msg = Ok x) \/
  (exists e : noise_err, noise_decrypt P r rpk prologue msg = Err e).
Proof. exact (noise_no_panic'). Qed.
Print Assumptions C09_noise_total.

(* in fact: lengths outside 96..65535 are rejected with an error value before anything else happens *)
Theorem C09_noise_decrypt_closed_form :
  forall P : prims,
  hash_ok P ->
  forall (r : list N) (rpk prologue msg : bytes),
  length r = 32%nat ->
  noise_decrypt P r rpk prologue msg =
  (if noise_len_ok (length msg) then noise_decrypt_spec P r rpk prologue msg else Err NOther).
Proof. exact (noise_decrypt_eq). Qed.
Print Assumptions C09_noise_decrypt_closed_form.

(* AEAD CIPHERTEXT (kept): every ciphertext of every length, IETF wrapper *)
Theorem C09_aead_open_never_panics :
  forall (P : prims) (key nonce : list N) (ct ad : bytes),
  length key = 32%nat -> length nonce = 12%nat -> normal (chapoly_decrypt_ietf P key nonce ct ad).
Proof. exact (aead_decrypt_normal). Qed.
Print Assumptions C09_aead_open_never_panics.

(* (kept) Noise-style wrapper, every counter *)
Theorem C09_noise_aead_open_never_panics :
  forall (P : prims) (key : list N) (n : N) (ct ad : bytes),
  length key = 32%nat -> normal (chapoly_decrypt_noise P key n ad ct).
Proof. exact (noise_decrypt_normal). Qed.
Print Assumptions C09_noise_aead_open_never_panics.

(* inputs shorter than the 16-byte tag are an error value *)
Theorem C09_aead_short_is_error :
  forall (P : prims) (key nonce ct : list N) (ad : bytes),
  length key = 32%nat ->
  length nonce = 12%nat ->
  (length ct < 16)%nat -> chapoly_decrypt_ietf P key nonce ct ad = Err ChaPolyDecryptError.
Proof. exact (aead_short_is_error). Qed.
Print Assumptions C09_aead_short_is_error.

(* ENCODED PUBLIC KEY: every string accepted by EncodedPk::try_from decodes to a key or to the checksum error *)
Theorem C09_decode_public_key_never_panics :
  forall P : prims,
  hash_ok P ->
  forall e : text,
  pk_string_ok e = true ->
  (exists pk : bytes, decode_public_key P e = Ok pk) \/ decode_public_key P e = Err PublicKeyChecksum.
Proof. exact (decode_never_panics). Qed.
Print Assumptions C09_decode_public_key_never_panics.

(* LOCKED PRIVATE KEY: every string accepted by EncodedSk::try_from, every password: a 32-byte key, or PrivateKeyFormat, or PrivateKeyDecrypt *)
Theorem C09_unlock_no_panic :
  forall P : prims,
  aead_ok P ->
  hash_ok P ->
  forall (locked : text) (pw : bytes),
  sk_string_ok locked = true ->
  (exists sk : bytes, unlock_private_key P locked pw = Ok sk /\ length sk = 32%nat) \/
  unlock_private_key P locked pw = Err PrivateKeyFormat \/
  unlock_private_key P locked pw = Err PrivateKeyDecrypt.
Proof. exact (unlock_no_panic). Qed.
Print Assumptions C09_unlock_no_panic.

(* KEYRING FILE: for every text (and whatever the two key-string checks are) the parser returns Ok or Err *)
Theorem C09_parse_total :
  forall (pk_ok sk_ok : text -> bool) (t : text), normal (parse_config pk_ok sk_ok t).
Proof. exact (parse_total). Qed.
Print Assumptions C09_parse_total.

(* (encrypt side, for completeness) every io state: encrypt_chunks returns Ok or Err *)
Theorem C09_encrypt_no_panic :
  forall (P : prims) (key aad : bytes) (cs : N) (s s' : io) (r : outcome eerr unit),
  length key = 32%nat -> encrypt_chunks P key aad cs s = (r, s') -> ok_or_err r.
Proof. exact (enc_no_panic). Qed.
Print Assumptions C09_encrypt_no_panic.

(* BOUNDED WORK, chunk layer: every Read::read call of any run asks for at most chunk_size + 16 bytes, whatever the length fields in the offered bytes say *)
Theorem C09_bounded_reads :
  forall (P : prims) (key aad : bytes) (cs : N) (s : io) (res : outcome derr unit) (s' : io),
  decrypt_chunks P key aad cs s = (res, s') ->
  exists d : list event,
    log s' = d ++ log s /\
    (forall e : event,
     In e d ->
     match e with
     | EvRead req _ | EvReadErr req _ => (req <= N.to_nat cs + 16)%nat
     | _ => True
     end).
Proof. exact (dec_bounded_reads). Qed.
Print Assumptions C09_bounded_reads.

(* FILE level, key mode, every io state: every read request is at most N.to_nat 65536 + 16 bytes *)
Theorem C09_key_decrypt_bounded_reads :
  forall (P : prims) (r rpk : bytes) (s : io) (res : outcome derr bytes) (s' : io),
  key_decrypt P r rpk s = (res, s') ->
  exists d : list event, log s' = d ++ log s /\ Forall (read_req_le (N.to_nat cs_const + 16)) d.
Proof. exact (key_decrypt_bounded_reads). Qed.
Print Assumptions C09_key_decrypt_bounded_reads.

(* FILE level, password mode, every io state: reads bounded likewise, and the run contains at most ONE scrypt call, on (password, the 32 bytes following the magic), with the constant parameters N = 32768, r = 8, p = 1 — no header field can raise the key-derivation cost *)
Theorem C09_pass_decrypt_bounded :
  forall (P : prims) (pw : bytes) (s : io) (res : outcome derr unit) (s' : io),
  pass_decrypt P pw s = (res, s') ->
  exists d : list event,
    log s' = d ++ log s /\
    Forall (read_req_le (N.to_nat cs_const + 16)) d /\
    (kdf_events d = [] \/
     (exists salt : list N, length salt = 32%nat /\ kdf_events d = [EvKdf pw salt 32768 8 1])).
Proof. exact (pass_decrypt_bounded). Qed.
Print Assumptions C09_pass_decrypt_bounded.

(* the bound as a number: 65552 *)
Theorem C09_read_bound_value :
  N.of_nat (N.to_nat cs_const + 16) = 65552.
Proof. exact (file_read_bound_val). Qed.
Print Assumptions C09_read_bound_value.

(* key mode never calls scrypt and never seals: every event of a run is a read, write, flush or AEAD-open event *)
Theorem C09_key_decrypt_event_classes :
  forall (P : prims) (r rpk : bytes) (s : io) (res : outcome derr bytes) (s' : io),
  key_decrypt P r rpk s = (res, s') -> exists d : list event, log s' = d ++ log s /\ Forall dec_ev d.
Proof. exact (key_decrypt_event_classes). Qed.
Print Assumptions C09_key_decrypt_event_classes.

(* (kept) finding F1, repaired in /repo by a fix: commit: the code as pinned panicked on ciphertexts shorter than the tag *)
Theorem C09_aead_short_ct_refuted_before_fix :
  forall (P : prims) (key nonce : list N) (ad : bytes),
  length key = 32%nat ->
  length nonce = 12%nat ->
  exists ct : bytes, chapoly_decrypt_ietf_gen P true key nonce ct ad = Panic PArith.
Proof. exact (PrimFacts.aead_legacy_refuted). Qed.
Print Assumptions C09_aead_short_ct_refuted_before_fix.

(* finding F2, repaired likewise: the Noise responder as pinned panicked on short messages ... *)
Theorem C09_noise_short_msg_refuted_before_fix :
  forall P : prims,
  hash_ok P ->
  forall r rpk prologue : bytes,
  exists msg : bytes, noise_decrypt_gen P true r rpk prologue msg = Panic PAssert.
Proof. exact (noise_legacy_refuted). Qed.
Print Assumptions C09_noise_short_msg_refuted_before_fix.

(* ... namely on every message shorter than 64 bytes *)
Theorem C09_noise_short_msg_panics_before_fix :
  forall P : prims,
  hash_ok P ->
  forall (r rpk prologue : bytes) (msg : list N),
  (length msg < 64)%nat -> noise_decrypt_gen P true r rpk prologue msg = Panic PAssert.
Proof. exact (noise_legacy_short_panics). Qed.
Print Assumptions C09_noise_short_msg_panics_before_fix.


(* ====================================================================================================
   The argument vector as the operating system hands it over: byte strings (Unix OsString), converted by
   main.rs::convert_args (OsStr::to_str = strict UTF-8 decoding, Model/Utf8.v) before the argument parser runs
   (Model/CliArgs.v::cli_parse_bytes).  EVERY vector of byte strings gives a value: never a panic, never out of fuel.
   ==================================================================================================== *)
From Kestrel.Model Require KeyringText CliParse Utf8 CliArgs.
From Kestrel.Proofs Require CliArgsFacts.

Theorem C09_argv_bytes_never_panic :
  forall argv : list bytes, exists r : CliArgs.command_or_argerr, CliArgs.cli_parse_bytes argv = Ok r.
Proof. exact (CliArgsFacts.cli_parse_bytes_no_panic). Qed.
Print Assumptions C09_argv_bytes_never_panic.

(* an argument that is not valid UTF-8 is an ORDINARY error ("Arguments must be valid UTF-8", exit 1), reported for
   the first such argument whatever follows it *)
Theorem C09_argv_bytes_invalid_is_error :
  forall (pre : list bytes) (a : bytes) (post : list bytes),
  Forall (fun x => Utf8.utf8_decode x <> None) pre -> Utf8.utf8_decode a = None ->
  CliArgs.cli_parse_bytes (pre ++ a :: post) = Ok (CliArgs.ArgErr (length pre)).
Proof. exact (CliArgsFacts.cli_parse_bytes_invalid). Qed.
Print Assumptions C09_argv_bytes_invalid_is_error.

(* all arguments valid: the command the parser computes on the decoded vector *)
Theorem C09_argv_bytes_valid :
  forall (argv : list bytes) (ts : list KeyringText.text),
  Forall2 (fun a t => Utf8.utf8_decode a = Some t) argv ts ->
  exists c : CliParse.command, CliParse.cli_parse ts = Ok c /\ CliArgs.cli_parse_bytes argv = Ok (CliArgs.ArgCmd c).
Proof. exact (CliArgsFacts.cli_parse_bytes_valid_cmd). Qed.
Print Assumptions C09_argv_bytes_valid.

(* the handshake reader's length guard in the CURRENT sources (96 = e + encrypted s + tag of the encrypted
   payload; 65535 = Noise maximum): re-extracted on every run.  The model READS the two literals
   (C09_noise_guard_read_by_model), so C09_noise_total, C09_noise_decrypt_closed_form and every other theorem
   about noise_decrypt are re-proved against them; this pin states their values *)
From Kestrel.gen Require Import Extracted.
Theorem C09_noise_guard_constants : x_noise_guard_min = 96%N /\ x_noise_guard_max = 65535%N.
Proof. split; reflexivity. Qed.
Print Assumptions C09_noise_guard_constants.

(* the length checks that decide between an error value and a panic, with the literals of the CURRENT sources
   (tools/extract.py) tied to the model's own functions *)
Theorem C09_length_check_constants :
  x_lib_payload_key_len = 32%N /\ x_lib_public_key_len = 32%N /\ x_lib_private_key_len = 32%N /\
  x_lib_private_key_generate_len = x_lib_private_key_len /\ x_lib_x25519_sk_len = x_lib_private_key_len /\
  x_lib_x25519_pk_len = x_lib_public_key_len /\ x_noise_dh_len = x_lib_public_key_len /\
  x_lib_noise_dec_payload_len = x_lib_payload_key_len /\ x_lib_dec_noise_key_len = x_lib_payload_key_len /\
  (* Key::new / PayloadKey::new of the model panics exactly off the extracted length *)
  (forall b : bytes, Noise.key_new b = if Nat.eqb (length b) (N.to_nat x_lib_payload_key_len) then Ok b else Panic PUnwrap) /\
  (* the handshake reader's guard of the model is the extracted one, and it is an error value *)
  (forall len : nat,
     Noise.read_len_guard false len =
     if (Nat.leb (N.to_nat x_noise_guard_min) len && (N.of_nat len <=? x_noise_guard_max)%N)%bool then Ok tt else Err NOther) /\
  x_noise_guard_is_error = 1%N /\
  (* x25519 of the model panics exactly off the extracted lengths *)
  (forall (P : prims) (k u : bytes),
     AeadWrap.x25519 P k u =
     if negb (Nat.eqb (length k) (N.to_nat x_lib_x25519_sk_len)) then Panic PUnwrap
     else if negb (Nat.eqb (length u) (N.to_nat x_lib_x25519_pk_len)) then Panic PUnwrap
     else let r := p_dh P k u in if all_zero r then Err DhError else Ok r) /\
  (* decrypt_chunks: a length field above the chunk size is the error, the body read takes length + tag bytes, one
     probe byte at the end *)
  x_dec_len_gt_chunk_size_is_error = 1%N /\ x_dec_ct_read_extra = x_lib_tag_size /\ x_dec_probe_len = 1%N /\
  x_lib_dec_ietf_min_len = x_lib_tag_size /\
  (* nonce + 1 below u64::MAX *)
  x_noise_nonce_step_enc = 1%N /\ x_noise_nonce_step_dec = 1%N /\ x_noise_set_nonce_assert_max = 1%N.
Proof. repeat split; intros; reflexivity. Qed.
Print Assumptions C09_length_check_constants.

(* the model's length guard is built from the extracted literals, not from numbers written in the model *)
Theorem C09_noise_guard_read_by_model :
  forall len : nat,
  read_len_guard false len =
  (if Nat.leb (N.to_nat x_noise_guard_min) len && (N.of_nat len <=? x_noise_guard_max)%N then Ok tt else Err NOther) /\
  noise_len_ok len = (Nat.leb (N.to_nat x_noise_guard_min) len && (N.of_nat len <=? x_noise_guard_max)%N)%bool.
Proof. exact (read_len_guard_reads_extracted). Qed.
Print Assumptions C09_noise_guard_read_by_model.
