(* Props/C15.v — PLACEHOLDER created by the check-writer for local testing only; to be replaced by the
   real theorems of property C15. *)
Example C15_placeholder : True.
Proof. exact I. Qed.
Print Assumptions C15_placeholder.
