(* Props/C15.v — property C15: locked private keys are lossless, tamper-evident and in the documented format.
   PARTIAL for tamper evidence (cryptographic premise).
   Statements only; proofs are in Proofs/KeyringFacts.v.

   Model: Keyring::lock_private_key / unlock_private_key / EncodedSk::try_from ([sk_string_ok]) over the strict
   RFC 4648 base64 of Spec/Base64.v; strings are lists of character codes, passwords arbitrary byte strings
   (including empty and longer than 64 bytes).  [version] is notation for the extracted constant
   x_kr_private_key_version = 65 67 6B 30 ("egk0"); [kr_key P pw salt] = scrypt(pw, salt, 32768, 8, 1, 32);
   [kr_blob P sk pw salt] = version ++ salt ++ AEAD(kr_key, nonce = 12 zero bytes, ad = version, sk) (84 bytes).
   [bytes_ok b]: every element of b is < 256 (needed wherever bytes go through base64);
   [prims_bytes_ok P]: the primitives return byte strings — proved for the RFC instance (C15_rfc_prims_bytes_ok).

   Unconditional: round trip; layout both ways (interoperability); every malformed string or version is
   rejected with an error value; an accepted blob IS the honest seal of the returned key (AEAD open_inv).
   PARTIAL: "with any other password, or after a change to any of its 84 bytes, unlocking fails" is proved under
   the explicit premise that the AEAD open under the key derived in that run fails (Hopen) — for salt,
   ciphertext, tag and password changes that is the cryptographic idealisation; for the 4 version bytes it is
   unconditional (C15_tamper_version_rejected).  Not stated as a theorem: per-bit enumeration of the 672 flips. *)
From Kestrel Require Import Bytes BytesFacts Outcome Prims.
From Kestrel.gen Require Import Extracted.
From Kestrel.Spec Require Import Base64 Base64Facts.
From Kestrel.Model Require Import AeadWrap KeyringText Keyring.
From Kestrel.Proofs Require Import KeyringFacts CombineKeyring.
Local Open Scope N_scope.

(* ROUND TRIP.  For every 32-byte private key, every password (any byte string), every 32-byte salt: lock_private_key succeeds, the string is accepted by EncodedSk::try_from, has 112 characters, and unlocks under the same password to exactly the original key *)
Theorem C15_unlock_lock :
  forall P : prims,
  aead_ok P ->
  hash_ok P ->
  prims_bytes_ok P ->
  forall (sk : list N) (pw : bytes) (salt : list N),
  length sk = 32%nat ->
  bytes_ok sk ->
  length salt = 32%nat ->
  bytes_ok salt ->
  exists str : text,
    lock_private_key P sk pw salt = Ok str /\
    unlock_private_key P str pw = Ok sk /\ sk_string_ok str = true /\ length str = 112%nat.
Proof. exact (unlock_lock). Qed.
Print Assumptions C15_unlock_lock.

(* DOCUMENTED FORMAT: the locked string is the base64 of version ++ salt ++ ChaCha20-Poly1305(key = scrypt(password, salt, 32768, 8, 1), nonce = 0^12, associated data = version, plaintext = private key), 84 bytes *)
Theorem C15_layout :
  forall P : prims,
  aead_ok P ->
  hash_ok P ->
  prims_bytes_ok P ->
  forall (sk : list N) (pw : bytes) (salt : list N),
  length sk = 32%nat ->
  bytes_ok sk ->
  length salt = 32%nat ->
  bytes_ok salt ->
  exists str : text,
    lock_private_key P sk pw salt = Ok str /\
    b64_decode str =
    Some
      (x_kr_private_key_version ++
       salt ++ p_seal P (kr_key P pw salt) (zeros 12) x_kr_private_key_version sk) /\
    length
      (x_kr_private_key_version ++
       salt ++ p_seal P (kr_key P pw salt) (zeros 12) x_kr_private_key_version sk) = 84%nat.
Proof. exact (lock_layout). Qed.
Print Assumptions C15_layout.

(* INTEROPERABILITY, other direction: EVERY string whose base64 decoding has that shape — produced by any conforming implementation — unlocks to the key *)
Theorem C15_conforming_unlocks :
  forall P : prims,
  aead_ok P ->
  hash_ok P ->
  forall (str sk : list N) (pw : bytes) (salt : list N),
  length sk = 32%nat ->
  length salt = 32%nat ->
  b64_decode str = Some (kr_blob P sk pw salt) -> unlock_private_key P str pw = Ok sk.
Proof. exact (conforming_unlocks). Qed.
Print Assumptions C15_conforming_unlocks.

(* exactly: unlocking succeeds with key sk IF AND ONLY IF the string decodes to the blob of sk under that password and some 32-byte salt *)
Theorem C15_unlock_ok_iff :
  forall P : prims,
  aead_ok P ->
  hash_ok P ->
  forall (locked : text) (pw sk : bytes),
  sk_string_ok locked = true ->
  unlock_private_key P locked pw = Ok sk <->
  (exists salt : list N,
     length salt = 32%nat /\ length sk = 32%nat /\ b64_decode locked = Some (kr_blob P sk pw salt)).
Proof. exact (unlock_ok_iff). Qed.
Print Assumptions C15_unlock_ok_iff.

(* EncodedSk::try_from accepts exactly the strict base64 strings of 84 bytes *)
Theorem C15_sk_string_ok_iff :
  forall s : text,
  sk_string_ok s = true <-> (exists b : bytes, b64_decode s = Some b /\ length b = 84%nat).
Proof. exact (sk_string_ok_iff). Qed.
Print Assumptions C15_sk_string_ok_iff.

(* base64 is strict: a string that decodes is THE encoding of its decoding (canonical trailing bits and padding, no ignored characters) *)
Theorem C15_sk_string_canonical :
  forall (s : list N) (b : bytes), b64_decode s = Some b -> s = b64_encode b /\ bytes_ok b.
Proof. exact (sk_string_ok_canonical). Qed.
Print Assumptions C15_sk_string_canonical.

(* accepted strings have 112 characters *)
Theorem C15_sk_string_length :
  forall s : text, sk_string_ok s = true -> length s = 112%nat.
Proof. exact (sk_string_ok_length). Qed.
Print Assumptions C15_sk_string_length.

(* every accepted string, every password: a 32-byte key, PrivateKeyFormat or PrivateKeyDecrypt — never a panic *)
Theorem C15_unlock_no_panic :
  forall P : prims,
  aead_ok P ->
  hash_ok P ->
  forall (locked : text) (pw : bytes),
  sk_string_ok locked = true ->
  (exists sk : bytes, unlock_private_key P locked pw = Ok sk /\ length sk = 32%nat) \/
  unlock_private_key P locked pw = Err PrivateKeyFormat \/
  unlock_private_key P locked pw = Err PrivateKeyDecrypt.
Proof. exact (unlock_no_panic). Qed.
Print Assumptions C15_unlock_no_panic.

(* an 84-byte blob whose first four bytes differ from the version is PrivateKeyFormat; one with the right version whose AEAD open fails is PrivateKeyDecrypt *)
Theorem C15_rejects_malformed :
  forall P : prims,
  aead_ok P ->
  hash_ok P ->
  forall (locked : list N) (kb pw : bytes),
  b64_decode locked = Some kb ->
  length kb = 84%nat ->
  (firstn 4 kb <> x_kr_private_key_version -> unlock_private_key P locked pw = Err PrivateKeyFormat) /\
  (firstn 4 kb = x_kr_private_key_version ->
   p_open P (kr_key P pw (firstn 32 (skipn 4 kb))) (zeros 12) (firstn 4 kb) (skipn 36 kb) = None ->
   unlock_private_key P locked pw = Err PrivateKeyDecrypt).
Proof. exact (unlock_rejects). Qed.
Print Assumptions C15_rejects_malformed.

(* STRINGS OF OTHER LENGTHS: a string whose base64 decoding has any length other than 84 (shorter, or a conforming blob followed
   or preceded by further bytes) is refused by EncodedSk::try_from, and unlock_private_key itself answers PrivateKeyLength under
   every password — nothing after the 84th byte is ever ignored *)
Theorem C15_other_lengths_rejected :
  forall P : prims,
  forall (locked : text) (kb pw : bytes),
  b64_decode locked = Some kb ->
  length kb <> 84%nat ->
  sk_string_ok locked = false /\ unlock_private_key P locked pw = Err PrivateKeyLength.
Proof.
  intros P locked kb pw Hdec Hlen.
  assert (Hne : Nat.eqb (length kb) (N.to_nat x_kr_private_key_ct_len) = false).
  { apply PeanoNat.Nat.eqb_neq. exact Hlen. }
  split.
  - unfold sk_string_ok. rewrite Hdec. exact Hne.
  - unfold unlock_private_key, sk_as_bytes. rewrite Hdec. cbn [obind]. rewrite Hne. reflexivity.
Qed.
Print Assumptions C15_other_lengths_rejected.

(* ... in particular every proper extension of a conforming blob, whatever follows it *)
Theorem C15_trailing_bytes_rejected :
  forall P : prims,
  forall (sk pw salt extra pw' : bytes),
  length (kr_blob P sk pw salt) = 84%nat ->
  extra <> [] ->
  forall locked : text,
  b64_decode locked = Some (kr_blob P sk pw salt ++ extra) ->
  sk_string_ok locked = false /\ unlock_private_key P locked pw' = Err PrivateKeyLength.
Proof.
  intros P sk pw salt extra pw' H84 Hne locked Hdec.
  apply (C15_other_lengths_rejected P locked _ pw' Hdec).
  rewrite app_length, H84. destruct extra as [|x xs]; [congruence|]. cbn [length]. Lia.lia.
Qed.
Print Assumptions C15_trailing_bytes_rejected.

(* TAMPER, unconditional part: any change to the 4 version bytes (any 84-byte blob whose first four bytes are not the version), any password: PrivateKeyFormat *)
Theorem C15_tamper_version_rejected :
  forall P : prims,
  aead_ok P ->
  hash_ok P ->
  forall (blob' : list N) (pw' : bytes),
  length blob' = 84%nat ->
  bytes_ok blob' ->
  firstn 4 blob' <> x_kr_private_key_version ->
  unlock_private_key P (b64_encode blob') pw' = Err PrivateKeyFormat.
Proof. exact (tamper_version_rejected). Qed.
Print Assumptions C15_tamper_version_rejected.

(* instance: the honest blob with only its version bytes replaced *)
Theorem C15_tamper_version_only :
  forall P : prims,
  aead_ok P ->
  hash_ok P ->
  forall (sk : list N) (pw : bytes) (salt v' : list N) (pw' : bytes),
  length sk = 32%nat ->
  length salt = 32%nat ->
  length v' = 4%nat ->
  v' <> x_kr_private_key_version ->
  bytes_ok (v' ++ skipn 4 (kr_blob P sk pw salt)) ->
  unlock_private_key P (b64_encode (v' ++ skipn 4 (kr_blob P sk pw salt))) pw' = Err PrivateKeyFormat.
Proof. exact (tamper_version_only). Qed.
Print Assumptions C15_tamper_version_only.

(* TAMPER, PARTIAL: any 84-byte blob differing from the honest one, or any other password, is rejected with an error — PROVIDED the AEAD open under the key derived in that run fails (premise Hopen: the cryptographic step) *)
Theorem C15_tamper_rejected_partial :
  forall P : prims,
  aead_ok P ->
  hash_ok P ->
  forall (sk pw salt : bytes) (blob' : list N) (pw' : bytes),
  length blob' = 84%nat ->
  bytes_ok blob' ->
  blob' <> kr_blob P sk pw salt \/ pw' <> pw ->
  p_open P (kr_key P pw' (firstn 32 (skipn 4 blob'))) (zeros 12) (firstn 4 blob') (skipn 36 blob') =
  None ->
  unlock_private_key P (b64_encode blob') pw' = Err PrivateKeyFormat \/
  unlock_private_key P (b64_encode blob') pw' = Err PrivateKeyDecrypt.
Proof. exact (tamper_rejected_partial). Qed.
Print Assumptions C15_tamper_rejected_partial.

(* WRONG PASSWORD, PARTIAL: the honest locked string tried with any other password pw' gives exactly PrivateKeyDecrypt, under the premise that the AEAD open of the honest ciphertext under scrypt(pw', salt) fails *)
Theorem C15_other_password_rejected_partial :
  forall P : prims,
  aead_ok P ->
  hash_ok P ->
  prims_bytes_ok P ->
  forall (sk : list N) (pw : bytes) (salt : list N) (pw' : bytes),
  length sk = 32%nat ->
  bytes_ok sk ->
  length salt = 32%nat ->
  bytes_ok salt ->
  p_open P (kr_key P pw' salt) (zeros 12) x_kr_private_key_version
    (p_seal P (kr_key P pw salt) (zeros 12) x_kr_private_key_version sk) = None ->
  exists str : text,
    lock_private_key P sk pw salt = Ok str /\
    sk_string_ok str = true /\
    unlock_private_key P str pw = Ok sk /\ unlock_private_key P str pw' = Err PrivateKeyDecrypt.
Proof. exact (other_password_rejected_partial). Qed.
Print Assumptions C15_other_password_rejected_partial.

(* what acceptance means, unconditionally: if an 84-byte blob unlocks to sk' under pw', its last 48 bytes ARE the AEAD seal of sk' under scrypt(pw', its salt) with the version as associated data *)
Theorem C15_tamper_accepted_is_seal :
  forall P : prims,
  aead_ok P ->
  hash_ok P ->
  forall (blob' : list N) (pw' sk' : bytes),
  length blob' = 84%nat ->
  bytes_ok blob' ->
  unlock_private_key P (b64_encode blob') pw' = Ok sk' ->
  firstn 4 blob' = x_kr_private_key_version /\
  skipn 36 blob' =
  p_seal P (kr_key P pw' (firstn 32 (skipn 4 blob'))) (zeros 12) x_kr_private_key_version sk'.
Proof. exact (tamper_accepted_is_seal). Qed.
Print Assumptions C15_tamper_accepted_is_seal.

(* hence a blob with the honest version and salt but a different ciphertext/tag can never unlock to the honest key *)
Theorem C15_tamper_same_key_other_plaintext :
  forall P : prims,
  aead_ok P ->
  hash_ok P ->
  forall (sk pw : bytes) (salt ct' : list N) (sk' : bytes),
  length salt = 32%nat ->
  length (x_kr_private_key_version ++ salt ++ ct') = 84%nat ->
  bytes_ok (x_kr_private_key_version ++ salt ++ ct') ->
  ct' <> p_seal P (kr_key P pw salt) (zeros 12) x_kr_private_key_version sk ->
  unlock_private_key P (b64_encode (x_kr_private_key_version ++ salt ++ ct')) pw = Ok sk' -> sk' <> sk.
Proof. exact (tamper_same_key_other_plaintext). Qed.
Print Assumptions C15_tamper_same_key_other_plaintext.

(* the byte-range hypothesis holds for the RFC instance ... *)
Theorem C15_rfc_prims_bytes_ok :
  forall scr : bytes -> bytes -> N -> N -> N -> nat -> bytes, prims_bytes_ok (Concrete.rfc_prims scr).
Proof. exact (rfc_prims_bytes_ok). Qed.
Print Assumptions C15_rfc_prims_bytes_ok.

(* ... so the round trip holds outright for the RFC primitives (given only that the supplied scrypt returns the requested number of bytes) *)
Theorem C15_rfc_unlock_lock :
  forall scr : bytes -> bytes -> N -> N -> N -> nat -> list N,
  (forall (pw s : bytes) (n r q : N) (l : nat), length (scr pw s n r q l) = l) ->
  forall (sk : list N) (pw : bytes) (salt : list N),
  length sk = 32%nat ->
  bytes_ok sk ->
  length salt = 32%nat ->
  bytes_ok salt ->
  exists str : text,
    lock_private_key (Concrete.rfc_prims scr) sk pw salt = Ok str /\
    unlock_private_key (Concrete.rfc_prims scr) str pw = Ok sk /\
    sk_string_ok str = true /\ length str = 112%nat.
Proof. exact (rfc_unlock_lock). Qed.
Print Assumptions C15_rfc_unlock_lock.


(* the keyring constants the translator extracted from the CURRENT sources are the documented ones and agree with the
   file-encryption side (same scrypt parameters): re-proved against the regenerated gen/Extracted.v on every run *)
From Kestrel.gen Require Import Extracted.
Theorem C15_layout_constants :
  x_kr_private_key_version = [101; 103; 107; 48]%N /\
  x_kr_scrypt_n = 32768%N /\ x_kr_scrypt_r = 8%N /\ x_kr_scrypt_p = 1%N /\
  x_kr_scrypt_n = x_lib_scrypt_n /\ x_kr_scrypt_r = x_lib_scrypt_r /\ x_kr_scrypt_p = x_lib_scrypt_p /\
  x_kr_lock_scrypt_args_const = 1%N /\ x_kr_unlock_scrypt_args_const = 1%N /\
  x_kr_lock_scrypt_len = 32%N /\ x_kr_unlock_scrypt_len = 32%N /\
  x_kr_lock_nonce_len = 12%N /\ x_kr_unlock_nonce_len = 12%N /\
  x_kr_private_key_ct_len = 84%N /\ x_kr_public_key_len = 32%N /\ x_kr_encoded_pk_len = 36%N /\
  x_kr_max_name_size = 128%N /\ x_noise_set_nonce_assert_max = 1%N.
Proof. repeat split; reflexivity. Qed.
Print Assumptions C15_layout_constants.

(* slice bounds and lengths used by unlock_private_key / EncodedPk::try_from / decode_public_key in the CURRENT sources.
   The model READS them (Keyring.ul_version_end .. ul_ct_hi, dp_pk_end, dp_ck_start, dp_checksum_len, and
   pk_string_ok tests x_kr_encoded_pk_try_len; C15_slices_read_by_model below), so every theorem about unlock /
   decode is re-proved against the literals the translator extracts on every run; this pin states their values *)
Theorem C15_slice_constants :
  x_kr_unlock_version_end = 4%N /\ x_kr_unlock_salt_lo = 4%N /\ x_kr_unlock_salt_hi = 36%N /\
  x_kr_unlock_ct_lo = 36%N /\ x_kr_unlock_ct_hi = 84%N /\ x_kr_unlock_ct_hi = x_kr_private_key_ct_len /\
  x_kr_encoded_pk_try_len = 36%N /\ x_kr_encoded_pk_try_len = x_kr_encoded_pk_len /\
  x_kr_decode_pk_end = 32%N /\ x_kr_decode_ck_start = 32%N /\ x_kr_checksum_len = 4%N.
Proof. repeat split; reflexivity. Qed.
Print Assumptions C15_slice_constants.

(* layout of a locked private key and of an encoded public key: which value goes where, in the CURRENT sources
   (tools/extract.py), tied to the model's specification-level names kr_blob / kr_scrypt / pk_blob *)
Definition x_role_const15 (r : role) : N := match r with RConst v => v | _ => 0%N end.

Theorem C15_lock_layout_constants :
  x_kr_lock_layout_roles = [RVersion; RSalt; RCiphertext] /\
  x_kr_lock_aead_roles = [RPassKey; RZeros x_kr_lock_nonce_len; RPrivateKey; RVersion] /\
  x_kr_unlock_aead_roles = [RPassKey; RZeros x_kr_unlock_nonce_len; RCiphertext; RVersion] /\
  x_kr_lock_scrypt_roles = [RPassword; RSalt; RConst x_kr_scrypt_n; RConst x_kr_scrypt_r; RConst x_kr_scrypt_p; RConst 32%N] /\
  x_kr_unlock_scrypt_roles = x_kr_lock_scrypt_roles /\
  (* the 84-byte blob of the model = the pieces in the extracted order, sealed with the extracted nonce and aad *)
  (forall (P : prims) (sk pw salt : bytes),
     kr_blob P sk pw salt =
     match x_kr_lock_layout_roles, x_kr_lock_aead_roles with
     | [a; b; c], [_; RZeros n; _; ad] =>
       let part := fun r => match r with
                            | RVersion => x_kr_private_key_version
                            | RSalt => salt
                            | RCiphertext => p_seal P (kr_key P pw salt) (zeros (N.to_nat n))
                                               (match ad with RVersion => x_kr_private_key_version | _ => [] end) sk
                            | _ => []
                            end in
       part a ++ part b ++ part c
     | _, _ => []
     end) /\
  (* the scrypt call of the model = the arguments in the extracted order *)
  (forall (P : prims) (len : N) (pw salt : bytes),
     kr_scrypt P len pw salt =
     match x_kr_lock_scrypt_roles with
     | [a; b; n; r; p; _] =>
       let env := fun x => match x with RPassword => pw | RSalt => salt | _ => [] end in
       p_scrypt P (env a) (env b) (x_role_const15 n) (x_role_const15 r) (x_role_const15 p) (N.to_nat len)
     | _ => []
     end) /\
  (* version ++ salt ++ ciphertext: the slices of unlock are the pieces of lock *)
  x_kr_unlock_version_lo = 0%N /\ x_kr_unlock_version_end = N.of_nat (length x_kr_private_key_version) /\
  x_kr_unlock_salt_lo = x_kr_unlock_version_end /\ x_kr_unlock_ct_lo = x_kr_unlock_salt_hi /\
  (x_kr_unlock_salt_hi - x_kr_unlock_salt_lo = x_kr_lock_salt_len)%N /\ x_kr_lock_salt_len = 32%N /\
  (x_kr_unlock_ct_hi - x_kr_unlock_ct_lo = x_lib_private_key_len + x_lib_tag_size)%N /\
  x_kr_unlock_version_checked = 1%N /\ x_kr_encoded_sk_try_len = x_kr_private_key_ct_len /\
  x_kr_lock_scrypt_len = x_lib_payload_key_len /\
  (* the salts the CLI draws for lock_private_key *)
  x_cli_gen_salt_draw = x_kr_lock_salt_len /\ x_cli_gen_salt_len = x_kr_lock_salt_len /\
  x_cli_change_salt_draw = x_kr_lock_salt_len /\ x_cli_change_salt_len = x_kr_lock_salt_len /\
  (* encoded public key = key ++ first bytes of sha256(key) *)
  x_kr_encode_pk_end = x_kr_decode_pk_end /\ x_kr_encode_ck_start = x_kr_decode_ck_start /\ x_kr_encode_ck_len = x_kr_checksum_len /\
  (x_kr_encode_pk_end + x_kr_encode_ck_len = x_kr_encoded_pk_len)%N /\ x_kr_encode_pk_end = x_kr_encode_ck_start /\
  x_kr_encode_pk_end = x_lib_public_key_len /\ x_kr_encode_hash_of_pk = 1%N /\ x_kr_decode_hash_of_pk = 1%N /\
  (forall (P : prims) (pk : bytes), pk_blob P pk = pk ++ firstn (N.to_nat x_kr_encode_ck_len) (p_hash P pk)).
Proof. repeat split; intros; reflexivity. Qed.
Print Assumptions C15_lock_layout_constants.

(* the model's unlock_private_key / decode_public_key / EncodedPk::try_from cut where the SOURCE's literals say (by definition: the bounds are the extracted constants, not numbers written in the model) *)
Theorem C15_slices_read_by_model :
  ul_version_end = N.to_nat x_kr_unlock_version_end /\
  ul_salt_lo = N.to_nat x_kr_unlock_salt_lo /\ ul_salt_hi = N.to_nat x_kr_unlock_salt_hi /\
  ul_ct_lo = N.to_nat x_kr_unlock_ct_lo /\ ul_ct_hi = N.to_nat x_kr_unlock_ct_hi /\
  dp_pk_end = N.to_nat x_kr_decode_pk_end /\ dp_ck_start = N.to_nat x_kr_decode_ck_start /\
  dp_checksum_len = N.to_nat x_kr_checksum_len /\
  (forall s : text, pk_string_ok s =
     match b64_decode s with
     | Some b => Nat.eqb (length b) (N.to_nat x_kr_encoded_pk_try_len)
     | None => false
     end).
Proof. exact (slices_read_extracted). Qed.
Print Assumptions C15_slices_read_by_model.
