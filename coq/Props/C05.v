(* Props/C05.v — property C05: only the addressed key decrypts; the reported sender key is bound to the
   handshake; zero Diffie-Hellman results are refused.   PARTIAL.
   Statements only; proofs are in Proofs/FilesFacts.v, NoiseFacts.v, CombineReject.v, CombineFiles.v.

   What is proved unconditionally (about the model, all inputs, and — where said — all I/O scripts):
   * refusal of all-zero X25519 outputs on both sides, with nothing written and (encrypt side) the I/O state
     literally untouched;
   * ORDERING: a handshake that does not verify under the recipient key pair in use makes key_decrypt return
     the Noise error before the sink is touched;
   * on success the reported sender key is exactly the plaintext of the handshake's encrypted static-key field
     under the key derived from DH(recipient private, file's ephemeral public), and the payload key opened
     under a key that additionally depends on DH(recipient private, reported sender key);
   * what the encryptor puts into those fields (C05_key_file_structure).
   What is a PREMISE (cryptographic, never proved): that a field sealed under one key does not open under a
   key derived from a different DH output.  "A file decrypts ONLY under the matching private key" and "a file
   whose embedded sender key does not match the private key actually used is rejected" are therefore stated
   with the premise "this AEAD open (under the key the wrong party derives) fails" — explicit in
   C05_wrong_recipient_rejected and C05_mismatched_sender_rejected.
   NOT proved: that every low-order point yields an all-zero output for every scalar (group theory of
   Curve25519; the theorems are conditional on all_zero (p_dh ...) = true); that only a holder of s or r can
   compute DH(s, R) (CDH); the multi-file statement that handshake fields of different files cannot be
   combined (DESIGN's C05_addressed_key_only via C03_key_authentic). *)
From Kestrel Require Import Bytes Outcome IO IOFacts Prims.
From Kestrel.gen Require Import Extracted.
From Kestrel.Model Require Import AeadWrap Chunks Noise NoiseSpec Files EventPreds FilesSpec ChunksSpec CombineDefs KeyAuthDefs.
From Kestrel.Proofs Require Import NoiseFacts FilesFacts CombineFiles CombineReject LogIndep KeyAuth.
Local Open Scope N_scope.

(* ENCRYPT side.  (e', epk') is the ephemeral pair in use (injected, or the fresh draw).  If X25519(e', recipient key) or X25519(s, recipient key) is all zero — e.g. the recipient key is a low-order point — key_encrypt returns Err EOther ("Key exchange failed") and the io state is returned UNCHANGED: for every plaintext, every script, nothing read, nothing written, no flush, no event.  So no file is produced under keys derivable from public data. *)
Theorem C05_zero_dh_refused :
  forall (P : prims) (fresh_pk fresh_e : bytes) (s : list N) (spk : bytes) (r : list N)
    (e epk pk : option bytes) (s0 : io) (e' epk' : bytes),
  hash_ok P ->
  eph_of P fresh_e e epk = (e', epk') ->
  length e' = 32%nat ->
  length s = 32%nat ->
  length r = 32%nat ->
  length (payload_of fresh_pk pk) = 32%nat ->
  all_zero (p_dh P e' r) = true \/ all_zero (p_dh P s r) = true ->
  key_encrypt P fresh_pk fresh_e s spk r e epk pk s0 = (Err EOther, s0).
Proof. exact (key_encrypt_dh_zero_concrete). Qed.
Print Assumptions C05_zero_dh_refused.

(* more generally: whenever the Noise layer refuses, for whatever reason, key_encrypt returns Err EOther with the io state unchanged *)
Theorem C05_zero_dh_refused_any_noise_error :
  forall (P : prims) (fresh_pk fresh_e s spk r : bytes) (e epk pk : option bytes) 
    (s0 : io) (ne : noise_err),
  length (payload_of fresh_pk pk) = 32%nat ->
  noise_encrypt P fresh_e s spk r e epk x_prologue (payload_of fresh_pk pk) = Err ne ->
  key_encrypt P fresh_pk fresh_e s spk r e epk pk s0 = (Err EOther, s0).
Proof. exact (key_encrypt_dh_zero). Qed.
Print Assumptions C05_zero_dh_refused_any_noise_error.

(* the Noise layer itself, injected ephemeral key: an all-zero DH in either token gives Err NDh (no message produced) *)
Theorem C05_noise_encrypt_dh_zero :
  forall P : prims,
  hash_ok P ->
  forall (fresh : bytes) (s : list N) (spk : bytes) (rpk e : list N) (epk prologue payload : bytes),
  length e = 32%nat ->
  length s = 32%nat ->
  length rpk = 32%nat ->
  all_zero (p_dh P e rpk) = true \/ all_zero (p_dh P s rpk) = true ->
  noise_encrypt P fresh s spk rpk (Some e) (Some epk) prologue payload = Err NDh.
Proof. exact (noise_encrypt_dh_zero). Qed.
Print Assumptions C05_noise_encrypt_dh_zero.

(* the same with the implementation's own ephemeral key *)
Theorem C05_noise_encrypt_dh_zero_fresh :
  forall P : prims,
  hash_ok P ->
  forall (fresh_e s : list N) (spk : bytes) (rpk : list N) (prologue payload : bytes),
  length fresh_e = 32%nat ->
  length s = 32%nat ->
  length rpk = 32%nat ->
  all_zero (p_dh P fresh_e rpk) = true \/ all_zero (p_dh P s rpk) = true ->
  noise_encrypt P fresh_e s spk rpk None None prologue payload = Err NDh.
Proof. exact (noise_encrypt_dh_zero_fresh). Qed.
Print Assumptions C05_noise_encrypt_dh_zero_fresh.

(* DECRYPT side, EVERY script.  The offered bytes begin prologue ++ msg (128 bytes) and X25519(r, bytes 0..32 of msg) is all zero (low-order ephemeral key in the file): key_decrypt returns Err (DOtherNoise NDh) — or an I/O read error if the reader failed first — and the writer state is unchanged *)
Theorem C05_decrypt_zero_dh_refused :
  forall P : prims,
  hash_ok P ->
  forall (r : list N) (rpk : bytes) (s : io) (msg rest : list N) (res : outcome derr bytes) (s' : io),
  length r = 32%nat ->
  r_data (rdr s) = x_prologue ++ msg ++ rest ->
  length msg = 128%nat ->
  all_zero (p_dh P r (firstn 32 msg)) = true ->
  key_decrypt P r rpk s = (res, s') ->
  (res = Err (DOtherNoise NDh) \/ (exists ie : ioerr, res = Err (DIORead ie))) /\ wtr s' = wtr s.
Proof. exact (key_decrypt_zero_dh_refused). Qed.
Print Assumptions C05_decrypt_zero_dh_refused.

(* the same for the second Diffie-Hellman: the static-key field opens to some 32-byte rs0 (a claimed sender key) with X25519(r, rs0) all zero *)
Theorem C05_decrypt_zero_dh_static_refused :
  forall P : prims,
  hash_ok P ->
  forall (r : list N) (rpk : bytes) (s : io) (msg rest : list N) (rs0 : bytes)
    (res : outcome derr bytes) (s' : io),
  length r = 32%nat ->
  r_data (rdr s) = x_prologue ++ msg ++ rest ->
  length msg = 128%nat ->
  all_zero (p_dh P r (firstn 32 msg)) = false ->
  p_open P (hs_k1 P (p_dh P r (firstn 32 msg))) (noise_nonce 0) (hs_h3 P x_prologue rpk (firstn 32 msg))
    (firstn 48 (skipn 32 msg)) = Some rs0 ->
  length rs0 = 32%nat ->
  all_zero (p_dh P r rs0) = true ->
  key_decrypt P r rpk s = (res, s') ->
  (res = Err (DOtherNoise NDh) \/ (exists ie : ioerr, res = Err (DIORead ie))) /\ wtr s' = wtr s.
Proof. exact (key_decrypt_zero_dh_static_refused). Qed.
Print Assumptions C05_decrypt_zero_dh_static_refused.

(* the Noise layer itself, recipient side *)
Theorem C05_noise_decrypt_dh_zero :
  forall P : prims,
  hash_ok P ->
  forall (r : list N) (rpk prologue : bytes) (msg : list N),
  length r = 32%nat ->
  (96 <= length msg)%nat ->
  N.of_nat (length msg) <= 65535 ->
  all_zero (p_dh P r (firstn 32 msg)) = true -> noise_decrypt P r rpk prologue msg = Err NDh.
Proof. exact (noise_decrypt_dh_zero). Qed.
Print Assumptions C05_noise_decrypt_dh_zero.

(* ORDERING, EVERY script.  If the 128 handshake bytes of the offered file do not verify under the key pair (r, rpk) in use (noise_decrypt returns Err ne — wrong recipient, tampered or spliced handshake fields), key_decrypt returns Err (DOtherNoise ne) (or a read error if the reader failed first), the writer state is unchanged and every event of the run is a read event *)
Theorem C05_handshake_rejected_before_output :
  forall (P : prims) (r rpk : bytes) (s : io) (msg rest : list N) (ne : noise_err)
    (res : outcome derr bytes) (s' : io),
  r_data (rdr s) = x_prologue ++ msg ++ rest ->
  length msg = 128%nat ->
  noise_decrypt P r rpk x_prologue msg = Err ne ->
  key_decrypt P r rpk s = (res, s') ->
  (res = Err (DOtherNoise ne) \/ (exists ie : ioerr, res = Err (DIORead ie))) /\
  wtr s' = wtr s /\ (exists d : list event, log s' = d ++ log s /\ Forall is_read_ev d).
Proof. exact (key_decrypt_handshake_rejected). Qed.
Print Assumptions C05_handshake_rejected_before_output.

(* the same with a conforming reader: exactly Err (DOtherNoise ne); the sink is untouched *)
Theorem C05_handshake_rejected_conforming :
  forall (P : prims) (r rpk : bytes) (s0 : io) (msg rest : list N) (ne : noise_err),
  reader_ok (rdr s0) ->
  r_data (rdr s0) = x_prologue ++ msg ++ rest ->
  length msg = 128%nat ->
  noise_decrypt P r rpk x_prologue msg = Err ne ->
  exists s1 : io, read_header s0 s1 rest /\ key_decrypt P r rpk s0 = (Err (DOtherNoise ne), s1).
Proof. exact (key_decrypt_noise_err). Qed.
Print Assumptions C05_handshake_rejected_conforming.

(* "Only the addressed key decrypts", with the cryptographic step as an explicit premise: if the static-key field of the file does not open under the key that THIS recipient key pair derives (hs_k1 of DH(r, file's ephemeral), associated data = hash of prologue, rpk, ephemeral) then key_decrypt fails with the Noise error (or a read error) and writes nothing — EVERY script.  For the addressed recipient the field does open (C01); that it does not open for any other key pair is the AEAD/DH idealisation. *)
Theorem C05_wrong_recipient_rejected :
  forall P : prims,
  hash_ok P ->
  forall (r : list N) (rpk : bytes) (s : io) (msg rest : list N) (res : outcome derr bytes) (s' : io),
  length r = 32%nat ->
  r_data (rdr s) = x_prologue ++ msg ++ rest ->
  length msg = 128%nat ->
  p_open P (hs_k1 P (p_dh P r (firstn 32 msg))) (noise_nonce 0) (hs_h3 P x_prologue rpk (firstn 32 msg))
    (firstn 48 (skipn 32 msg)) = None ->
  key_decrypt P r rpk s = (res, s') ->
  (res = Err (DOtherNoise NDecrypt) \/
   res = Err (DOtherNoise NDh) \/ (exists ie : ioerr, res = Err (DIORead ie))) /\ 
  wtr s' = wtr s.
Proof. exact (key_decrypt_wrong_recipient). Qed.
Print Assumptions C05_wrong_recipient_rejected.

(* "The sender needs its private key", with the cryptographic step as an explicit premise: the static-key field opens to a claimed sender key rs0, but the payload field does not open under the key that depends on DH(r, rs0) — which is what happens (idealised) when the file was made with a private key not matching rs0, since the encryptor sealed the payload under a key depending on DH(s_used, recipient).  Then key_decrypt fails and writes nothing — EVERY script. *)
Theorem C05_mismatched_sender_rejected :
  forall P : prims,
  hash_ok P ->
  forall (r : list N) (rpk : bytes) (s : io) (msg rest : list N) (rs0 : bytes)
    (res : outcome derr bytes) (s' : io),
  length r = 32%nat ->
  r_data (rdr s) = x_prologue ++ msg ++ rest ->
  length msg = 128%nat ->
  p_open P (hs_k1 P (p_dh P r (firstn 32 msg))) (noise_nonce 0) (hs_h3 P x_prologue rpk (firstn 32 msg))
    (firstn 48 (skipn 32 msg)) = Some rs0 ->
  p_open P (hs_k2 P (p_dh P r (firstn 32 msg)) (p_dh P r rs0)) (noise_nonce 0)
    (mixh P (hs_h3 P x_prologue rpk (firstn 32 msg)) (firstn 48 (skipn 32 msg))) 
    (skipn 80 msg) = None ->
  key_decrypt P r rpk s = (res, s') ->
  ((exists ne : noise_err, res = Err (DOtherNoise ne)) \/ (exists ie : ioerr, res = Err (DIORead ie))) /\
  wtr s' = wtr s.
Proof. exact (key_decrypt_mismatched_sender). Qed.
Print Assumptions C05_mismatched_sender_rejected.

(* SUCCESS, EVERY script.  If key_decrypt returns Ok spk then the offered bytes begin prologue ++ msg (128 bytes) and: DH(r, ephemeral) is non-zero; spk is exactly the plaintext of msg bytes 32..80 under hs_k1(DH(r, ephemeral)) with the transcript hash as associated data; spk has 32 bytes; DH(r, spk) is non-zero; and msg bytes 80..128 opened to a 32-byte payload key under hs_k2(DH(r, ephemeral), DH(r, spk)) — a key that depends on the Diffie-Hellman between the recipient and the REPORTED sender key.  "Took part in creating the file" is captured as: the payload was sealed under a key that is a function of DH(r, spk) = DH(s, R). *)
Theorem C05_sender_is_decrypted_static :
  forall P : prims,
  hash_ok P ->
  forall (r : list N) (rpk : bytes) (s : io) (spk : bytes) (s' : io),
  length r = 32%nat ->
  key_decrypt P r rpk s = (Ok spk, s') ->
  exists (msg rest : list N) (payload : bytes),
    r_data (rdr s) = x_prologue ++ msg ++ rest /\
    length msg = 128%nat /\
    (let re := firstn 32 msg in
     let c1 := firstn 48 (skipn 32 msg) in
     let c2 := skipn 80 msg in
     all_zero (p_dh P r re) = false /\
     p_open P (hs_k1 P (p_dh P r re)) (noise_nonce 0) (hs_h3 P x_prologue rpk re) c1 = Some spk /\
     length spk = 32%nat /\
     all_zero (p_dh P r spk) = false /\
     p_open P (hs_k2 P (p_dh P r re) (p_dh P r spk)) (noise_nonce 0)
       (mixh P (hs_h3 P x_prologue rpk re) c1) c2 = Some payload /\ length payload = 32%nat).
Proof. exact (key_decrypt_sender_is_decrypted_static). Qed.
Print Assumptions C05_sender_is_decrypted_static.

(* the same at the Noise layer, with the handshake hash *)
Theorem C05_accepted_handshake_closed_form :
  forall P : prims,
  hash_ok P ->
  forall (r : list N) (rpk prologue msg payload spk hh : bytes),
  length r = 32%nat ->
  noise_decrypt P r rpk prologue msg = Ok (payload, spk, hh) ->
  let re := firstn 32 msg in
  let c1 := firstn 48 (skipn 32 msg) in
  let c2 := skipn 80 msg in
  noise_len_ok (length msg) = true /\
  all_zero (p_dh P r re) = false /\
  p_open P (hs_k1 P (p_dh P r re)) (noise_nonce 0) (hs_h3 P prologue rpk re) c1 = Some spk /\
  length spk = 32%nat /\
  all_zero (p_dh P r spk) = false /\
  p_open P (hs_k2 P (p_dh P r re) (p_dh P r spk)) (noise_nonce 0) (mixh P (hs_h3 P prologue rpk re) c1)
    c2 = Some payload /\ length payload = 32%nat /\ hh = mixh P (mixh P (hs_h3 P prologue rpk re) c1) c2.
Proof. exact (noise_decrypt_ok_inv). Qed.
Print Assumptions C05_accepted_handshake_closed_form.

(* what the ENCRYPTOR puts there: either the key exchange is refused (state unchanged), or the file is prologue ++ epk' ++ seal(hs_k1(DH(e',rpk)), claimed spk) ++ seal(hs_k2(DH(e',rpk), DH(s,rpk)), payload) ++ chunk stream: the claimed sender key spk is sealed in the second field, the payload under a key depending on the private key s ACTUALLY used *)
Theorem C05_key_file_structure :
  forall (P : prims) (fresh_pk fresh_e : bytes) (s : list N) (spk : bytes) (rpk : list N)
    (e epk pk : option bytes) (e' epk' : bytes) (s0 s0' : io) (r : outcome eerr unit),
  hash_ok P ->
  eph_of P fresh_e e epk = (e', epk') ->
  length e' = 32%nat ->
  length s = 32%nat ->
  length rpk = 32%nat ->
  length (payload_of fresh_pk pk) = 32%nat ->
  reader_ok (rdr s0) ->
  writer_ok (wtr s0) ->
  key_encrypt P fresh_pk fresh_e s spk rpk e epk pk s0 = (r, s0') ->
  r = Err EOther /\ s0' = s0 /\ (all_zero (p_dh P e' rpk) = true \/ all_zero (p_dh P s rpk) = true) \/
  r = Ok tt /\
  all_zero (p_dh P e' rpk) = false /\
  all_zero (p_dh P s rpk) = false /\
  (exists hh : bytes,
     w_out (wtr s0') =
     w_out (wtr s0) ++
     x_prologue ++
     epk' ++
     hs_c1 P x_prologue rpk epk' spk (p_dh P e' rpk) ++
     hs_c2 P x_prologue rpk epk' spk (p_dh P e' rpk) (p_dh P s rpk) (payload_of fresh_pk pk) ++
     spec_chunks P (file_key P (payload_of fresh_pk pk) hh) []
       (chunks_of_reads (reads_of (N.to_nat cs_const) (rdr s0)))).
Proof. exact (key_file_structure). Qed.
Print Assumptions C05_key_file_structure.

(* and for the addressed recipient (rpk = pub r), with dh_comm, decryption succeeds and reports spk = pub s (this is C01) *)
Theorem C05_roundtrip_names_sender :
  forall (P : prims) (fresh_pk fresh_e : bytes) (s e r pk : list N) (spk epk rpk : bytes),
  aead_ok P ->
  hash_ok P ->
  dh_comm P ->
  length s = 32%nat ->
  length e = 32%nat ->
  length r = 32%nat ->
  length pk = 32%nat ->
  spk = dh_pub P s ->
  epk = dh_pub P e ->
  rpk = dh_pub P r ->
  all_zero (p_dh P e rpk) = false ->
  all_zero (p_dh P s rpk) = false ->
  forall s0 : io,
  reader_ok (rdr s0) ->
  writer_ok (wtr s0) ->
  w_out (wtr s0) = [] ->
  exists s0' : io,
    key_encrypt P fresh_pk fresh_e s spk rpk (Some e) (Some epk) (Some pk) s0 = (Ok tt, s0') /\
    (forall s1 : io,
     reader_ok (rdr s1) ->
     writer_ok (wtr s1) ->
     r_data (rdr s1) = w_out (wtr s0') ->
     w_out (wtr s1) = [] ->
     exists s1' : io, key_decrypt P r rpk s1 = (Ok spk, s1') /\ w_out (wtr s1') = r_data (rdr s0)).
Proof. exact (key_file_roundtrip). Qed.
Print Assumptions C05_roundtrip_names_sender.

(* under the premises of C03_key_authentic: a recipient public key that no honest file was addressed to is rejected with nothing written — a file decrypts only under the key it was encrypted to *)
Theorem C05_addressed_key_only :
  forall P : prims,
  aead_ok P ->
  hash_ok P ->
  forall (files : list hfile) (r rpk : bytes) (s : io) (res : outcome derr bytes) (s' : io),
  key_decrypt P r rpk s = (res, s') ->
  hs_opens_honest P files r rpk (offered_msg (r_data (rdr s))) ->
  run_opens_honest P files s s' ->
  hash_inj_on P (hash_inputs P files rpk (offered_msg (r_data (rdr s)))) ->
  keys_distinct P files ->
  (forall f : hfile, In f files -> rpk <> hf_R f) -> rejected_no_output s s' res.
Proof. exact (C05_addressed_key_only). Qed.
Print Assumptions C05_addressed_key_only.

(* and on success the recipient is the addressed one and the reported sender is that file's sender *)
Theorem C05_addressed_key_only_ok :
  forall P : prims,
  aead_ok P ->
  hash_ok P ->
  forall (files : list hfile) (r rpk : bytes) (s : io) (sender : bytes) (s' : io),
  key_decrypt P r rpk s = (Ok sender, s') ->
  hs_opens_honest P files r rpk (offered_msg (r_data (rdr s))) ->
  run_opens_honest P files s s' ->
  hash_inj_on P (hash_inputs P files rpk (offered_msg (r_data (rdr s)))) ->
  keys_distinct P files -> exists f : hfile, In f files /\ rpk = hf_R f /\ sender = hf_spk P f.
Proof. exact (C05_addressed_key_only_ok). Qed.
Print Assumptions C05_addressed_key_only_ok.

