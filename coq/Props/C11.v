(* Props/C11.v — any file size is streamed: constant memory, incremental output.     *** PARTIAL ***

   What is proved (about the model of the two streaming loops, src/crypto/src/{encrypt,decrypt}.rs, which BOTH
   modes — key and password — and both directions use; Model/Chunks.v: encrypt_chunks / decrypt_chunks):
     - incremental output, as MONITORS over the chronological event trace of a run (Model/Monitors.v):
         encrypt: emon tracks the raw read calls whose data has not yet been flushed out; it rejects a third
                  pending read.  Every run is accepted: at most 2 reads pending at any moment (the chunk being
                  held + the one-chunk look-ahead); between the read that returned a chunk and the flush of its
                  record there is at most ONE further read call.  (The property text allows "two further chunks".)
         decrypt: lmon rejects any read between a successful AEAD open and the flush that releases that chunk,
                  except the single 1-byte end-of-input probe after the final chunk.  Every run is accepted.
     - bounded state: every buffer the loops hand to Read::read, Write::write, seal or open — for EVERY input length,
       every read/write script — is bounded by the chunk size + 16 (tag): requests <= cs (encrypt) / cs + 16
       (decrypt), plaintext chunks <= cs, records <= cs + 16.  With the library's cs = 65536 this is the constant.
     All statements hold for every io state with an empty log (every input, every script incl. short reads/faults).
   What is NOT proved here (partial): the Rust process's real peak heap.  The model's event sizes bound the buffers
   the loops handle, not the allocator; the harness MEASURES peak live heap with a counting allocator at 0 B ..
   multiple GiB and checks the shared read/write position counters against the two trace theorems.
   The file-level functions (key_encrypt, pass_encrypt, key_decrypt, pass_decrypt) prepend a header phase (a few
   reads/writes of 4, 32 or 128 bytes, one scrypt call) to these loops; the C11_file_ theorems at the end lift the
   statements to whole runs of these four functions (chunk size cs_const = x_lib_chunk_size = 65536). *)
From Kestrel Require Import Bytes Outcome IO Prims.
From Kestrel.gen Require Import Extracted.
From Kestrel.Model Require Import AeadWrap Chunks Noise Files Monitors Combine2Defs.
From Kestrel.Proofs Require Import TraceShape MonitorFacts Combine2Stream.

(* encrypt: every run is accepted by the look-ahead monitor; never more than 2 reads pending *)
Theorem C11_encrypt_monitor_accepts :
  forall (P : prims) (key aad : bytes) (cs : N), aead_ok P ->
  forall (s : io) (res : outcome eerr unit) (s' : io),
  log s = [] -> encrypt_chunks P key aad cs s = (res, s') ->
  exists m : emon, emon_run (trace s') = Some m /\ length (e_pend m) <= 2.
Proof. exact enc_monitor_accepts. Qed.
Print Assumptions C11_encrypt_monitor_accepts.

(* encrypt, at EVERY moment: cut the trace anywhere (a ++ b ++ c); after a at most 2 reads are pending, and as long
   as b has fewer successful flushes than there are pending reads (the newest pending data is still held), b
   contains at most one read call *)
Theorem C11_encrypt_every_moment :
  forall (P : prims) (key aad : bytes) (cs : N), aead_ok P ->
  forall (s : io) (res : outcome eerr unit) (s' : io) (a b c : list event),
  log s = [] -> encrypt_chunks P key aad cs s = (res, s') -> trace s' = a ++ b ++ c ->
  exists m1 : emon, emon_run a = Some m1 /\ length (e_pend m1) <= 2 /\
    (count_ev is_flush_okb b < length (e_pend m1) -> count_ev is_read_evb b <= 1).
Proof. exact all_encrypt_every_moment. Qed.
Print Assumptions C11_encrypt_every_moment.

(* encrypt, the look-ahead is one: r a read event at any position of the trace; b any continuation during which the
   record of r's data has not been flushed out; then b contains at most ONE further read call *)
Theorem C11_encrypt_lookahead_one :
  forall (P : prims) (key aad : bytes) (cs : N), aead_ok P ->
  forall (s : io) (res : outcome eerr unit) (s' : io) (a : list event) (r : event) (b c : list event),
  log s = [] -> encrypt_chunks P key aad cs s = (res, s') ->
  trace s' = (a ++ [r]) ++ b ++ c -> is_read_evb r = true ->
  exists m1 : emon, emon_run (a ++ [r]) = Some m1 /\ 1 <= length (e_pend m1) <= 2 /\
    (count_ev is_flush_okb b < length (e_pend m1) -> count_ev is_read_evb b <= 1).
Proof. exact enc_lookahead_one. Qed.
Print Assumptions C11_encrypt_lookahead_one.

(* decrypt: every run is accepted by the release monitor *)
Theorem C11_decrypt_monitor_accepts :
  forall (P : prims) (key aad : bytes) (cs : N), length key = 32 ->
  forall (s : io) (res : outcome derr unit) (s' : io),
  log s = [] -> decrypt_chunks P key aad cs s = (res, s') ->
  exists m : lmon, lmon_run (trace s') = Some m.
Proof. exact dec_lookahead_accepts. Qed.
Print Assumptions C11_decrypt_monitor_accepts.

(* decrypt: between a chunk's authentication (successful open) and the flush that releases it (b has no successful
   flush) nothing is read, except — after the FINAL chunk only — the one 1-byte end-of-input probe *)
Theorem C11_decrypt_no_read_before_release :
  forall (P : prims) (key aad : bytes) (cs : N), length key = 32 ->
  forall (s : io) (res : outcome derr unit) (s' : io)
         (a : list event) (k : bytes) (n : N) (ad ct pt : bytes) (b c : list event),
  log s = [] -> decrypt_chunks P key aad cs s = (res, s') ->
  trace s' = a ++ [EvOpen k n ad ct (Some pt)] ++ b ++ c ->
  count_ev is_flush_okb b = 0 ->
  count_ev is_read_evb b <= (if ad_final ad then 1 else 0) /\
  (forall e : event, In e b -> is_read_evb e = true -> is_probe_evb e = true).
Proof. exact dec_no_read_before_release. Qed.
Print Assumptions C11_decrypt_no_read_before_release.

(* bounded buffers, encrypt: for every event of every run *)
Theorem C11_encrypt_state_bounded :
  forall (P : prims) (key aad : bytes) (cs : N), aead_ok P ->
  forall (s : io) (res : outcome eerr unit) (s' : io),
  log s = [] -> encrypt_chunks P key aad cs s = (res, s') ->
  forall e : event, In e (trace s') ->
  match e with
  | EvRead req got => req <= Nat.max (N.to_nat cs + 16) 16 /\ req <= N.to_nat cs /\ length got <= N.to_nat cs
  | EvReadErr req _ => req <= Nat.max (N.to_nat cs + 16) 16 /\ req <= N.to_nat cs
  | EvWrite off _ | EvWriteErr off _ => length off <= N.to_nat cs + 16
  | EvFlush _ => True
  | EvSeal _ _ _ pt => length pt <= N.to_nat cs
  | EvOpen _ _ _ _ _ | EvKdf _ _ _ _ _ => False
  end.
Proof. exact enc_state_bounded. Qed.
Print Assumptions C11_encrypt_state_bounded.

(* bounded buffers, decrypt *)
Theorem C11_decrypt_state_bounded :
  forall (P : prims) (key aad : bytes) (cs : N), aead_ok P -> length key = 32 ->
  forall (s : io) (res : outcome derr unit) (s' : io),
  log s = [] -> decrypt_chunks P key aad cs s = (res, s') ->
  forall e : event, In e (trace s') ->
  match e with
  | EvRead req got => req <= Nat.max (N.to_nat cs + 16) 16 /\ length got <= req
  | EvReadErr req _ => req <= Nat.max (N.to_nat cs + 16) 16
  | EvWrite off _ | EvWriteErr off _ => length off <= N.to_nat cs
  | EvFlush _ => True
  | EvOpen _ _ _ ct r => length ct <= N.to_nat cs + 16 /\ (forall pt : bytes, r = Some pt -> length pt <= N.to_nat cs)
  | EvSeal _ _ _ _ | EvKdf _ _ _ _ _ => False
  end.
Proof. exact dec_state_bounded. Qed.
Print Assumptions C11_decrypt_state_bounded.

(* the same bounds as one boolean test over the whole trace (what the harness evaluates on recorded traces) *)
Theorem C11_events_bounded :
  forall (P : prims) (key aad : bytes) (cs : N), aead_ok P ->
  (forall (s : io) (res : outcome eerr unit) (s' : io),
     log s = [] -> encrypt_chunks P key aad cs s = (res, s') ->
     forallb (enc_ev_ok (N.to_nat cs)) (trace s') = true) /\
  (length key = 32 ->
   forall (s : io) (res : outcome derr unit) (s' : io),
     log s = [] -> decrypt_chunks P key aad cs s = (res, s') ->
     forallb (dec_ev_ok (N.to_nat cs)) (trace s') = true).
Proof. exact all_events_bounded. Qed.
Print Assumptions C11_events_bounded.

(* ---- FILE level: both modes, both directions (Model/Files.v; chunk size cs_const = x_lib_chunk_size = 65536) ---- *)
(* Every run of key_decrypt / pass_decrypt, from EVERY io state (any input, any script, any prior log), adds to the
   trace a header part hd followed by a chunk-loop part d (dec_stream_shape, Model/Combine2Defs.v):
   hd consists of reads (each asking for at most 128 bytes, returning at most what was asked) and the scrypt call — no
   open, no write, no flush; d is accepted by the release monitor lmon and every event of d is within the chunk-size
   bounds dec_ev_ok 65536. *)
Theorem C11_file_decrypt_streams :
  forall (P : prims), aead_ok P -> hash_ok P ->
  (forall (pw : bytes) (s : io) (res : outcome derr unit) (s' : io),
     pass_decrypt P pw s = (res, s') ->
     exists hd d, trace s' = trace s ++ hd ++ d /\
       forallb hdr_dec_evb hd = true /\ forallb (hdr_read_le 128) hd = true /\
       (exists m, lmon_run d = Some m) /\ forallb (dec_ev_ok (N.to_nat cs_const)) d = true) /\
  (forall (r rpk : bytes) (s : io) (res : outcome derr bytes) (s' : io),
     key_decrypt P r rpk s = (res, s') ->
     exists hd d, trace s' = trace s ++ hd ++ d /\
       forallb hdr_dec_evb hd = true /\ forallb (hdr_read_le 128) hd = true /\
       (exists m, lmon_run d = Some m) /\ forallb (dec_ev_ok (N.to_nat cs_const)) d = true).
Proof. exact all_file_decrypt_streams. Qed.
Print Assumptions C11_file_decrypt_streams.

(* Every run of key_encrypt / pass_encrypt: hd consists of the scrypt call, writes and one flush — no read; d is
   accepted by the look-ahead monitor emon with at most 2 reads pending, and is within the bounds enc_ev_ok 65536.
   (The header buffers themselves — 4-byte magic, salt, handshake message — are not bounded by this theorem.) *)
Theorem C11_file_encrypt_streams :
  forall (P : prims), aead_ok P -> hash_ok P ->
  (forall (pw salt : bytes) (s : io) (res : outcome eerr unit) (s' : io),
     pass_encrypt P pw salt s = (res, s') ->
     exists hd d, trace s' = trace s ++ hd ++ d /\ forallb hdr_enc_evb hd = true /\
       (exists m, emon_run d = Some m /\ length (e_pend m) <= 2) /\
       forallb (enc_ev_ok (N.to_nat cs_const)) d = true) /\
  (forall (fresh_pk fresh_e sk spk r : bytes) (e epk pk : option bytes) (s : io) (res : outcome eerr unit) (s' : io),
     key_encrypt P fresh_pk fresh_e sk spk r e epk pk s = (res, s') ->
     exists hd d, trace s' = trace s ++ hd ++ d /\ forallb hdr_enc_evb hd = true /\
       (exists m, emon_run d = Some m /\ length (e_pend m) <= 2) /\
       forallb (enc_ev_ok (N.to_nat cs_const)) d = true).
Proof. exact all_file_encrypt_streams. Qed.
Print Assumptions C11_file_encrypt_streams.

(* whole decrypt runs (both modes): between the authentication of a chunk and the flush that releases it, nothing is
   read except — after the final chunk — the single 1-byte end-of-input probe *)
Theorem C11_file_decrypt_no_read_before_release :
  forall (P : prims), aead_ok P -> hash_ok P ->
  forall (a : list event) (k : bytes) (n : N) (ad ct pt : bytes) (b c : list event),
  count_ev is_flush_okb b = 0 ->
  (forall (pw : bytes) (s : io) (res : outcome derr unit) (s' : io),
     log s = [] -> pass_decrypt P pw s = (res, s') -> trace s' = a ++ [EvOpen k n ad ct (Some pt)] ++ b ++ c ->
     count_ev is_read_evb b <= (if ad_final ad then 1 else 0) /\
     (forall e, In e b -> is_read_evb e = true -> is_probe_evb e = true)) /\
  (forall (r rpk : bytes) (s : io) (res : outcome derr bytes) (s' : io),
     log s = [] -> key_decrypt P r rpk s = (res, s') -> trace s' = a ++ [EvOpen k n ad ct (Some pt)] ++ b ++ c ->
     count_ev is_read_evb b <= (if ad_final ad then 1 else 0) /\
     (forall e, In e b -> is_read_evb e = true -> is_probe_evb e = true)).
Proof. exact all_file_decrypt_no_read_before_release. Qed.
Print Assumptions C11_file_decrypt_no_read_before_release.

(* whole encrypt runs (both modes): after ANY read call r, at most ONE further read call is made before the next
   successful flush (the flush that completes a record) *)
Theorem C11_file_encrypt_lookahead_one :
  forall (P : prims), aead_ok P -> hash_ok P ->
  forall (a : list event) (r : event) (b c : list event),
  is_read_evb r = true -> count_ev is_flush_okb b = 0 ->
  (forall (pw salt : bytes) (s : io) (res : outcome eerr unit) (s' : io),
     log s = [] -> pass_encrypt P pw salt s = (res, s') -> trace s' = (a ++ [r]) ++ b ++ c ->
     count_ev is_read_evb b <= 1) /\
  (forall (fresh_pk fresh_e sk spk rk : bytes) (e epk pk : option bytes) (s : io) (res : outcome eerr unit) (s' : io),
     log s = [] -> key_encrypt P fresh_pk fresh_e sk spk rk e epk pk s = (res, s') ->
     trace s' = (a ++ [r]) ++ b ++ c -> count_ev is_read_evb b <= 1).
Proof. exact all_file_encrypt_lookahead_one. Qed.
Print Assumptions C11_file_encrypt_lookahead_one.

(* whole decrypt runs (both modes), every event: read requests <= 65536 + 16, plaintext written in pieces <= 65536,
   ciphertext records <= 65536 + 16 — for every input length *)
Theorem C11_file_decrypt_bounded :
  forall (P : prims), aead_ok P -> hash_ok P ->
  forall (ev : event),
  (forall (pw : bytes) (s : io) (res : outcome derr unit) (s' : io),
     log s = [] -> pass_decrypt P pw s = (res, s') -> In ev (trace s') ->
     match ev with
     | EvRead req got => req <= N.to_nat cs_const + 16 /\ length got <= req
     | EvReadErr req _ => req <= N.to_nat cs_const + 16
     | EvWrite off _ | EvWriteErr off _ => length off <= N.to_nat cs_const
     | EvOpen _ _ _ ct r => length ct <= N.to_nat cs_const + 16 /\ forall pt, r = Some pt -> length pt <= N.to_nat cs_const
     | EvFlush _ | EvKdf _ _ _ _ _ => True
     | EvSeal _ _ _ _ => False
     end) /\
  (forall (r rpk : bytes) (s : io) (res : outcome derr bytes) (s' : io),
     log s = [] -> key_decrypt P r rpk s = (res, s') -> In ev (trace s') ->
     match ev with
     | EvRead req got => req <= N.to_nat cs_const + 16 /\ length got <= req
     | EvReadErr req _ => req <= N.to_nat cs_const + 16
     | EvWrite off _ | EvWriteErr off _ => length off <= N.to_nat cs_const
     | EvOpen _ _ _ ct r => length ct <= N.to_nat cs_const + 16 /\ forall pt, r = Some pt -> length pt <= N.to_nat cs_const
     | EvFlush _ | EvKdf _ _ _ _ _ => True
     | EvSeal _ _ _ _ => False
     end).
Proof. exact all_file_decrypt_bounded. Qed.
Print Assumptions C11_file_decrypt_bounded.
