(* Props/C06.v — property C06: byte-for-byte conformance to the documented, frozen format.
   Statements only; proofs are in Proofs/CombineFiles.v, ChunksEnc.v, ChunksDec.v, NoiseFacts.v, FilesFacts.v.

   The Gallina development is the executable specification: [spec_chunks] / [record] (Model/Chunks.v),
   [spec_pass_file] / [spec_key_file] (Model/CombineDefs.v) transcribe docs/file-format.txt;
   [noise_encrypt_spec] / [noise_decrypt_spec] (Model/NoiseSpec.v) are Noise_X_25519_ChaChaPoly_SHA256 with the
   token loop unfolded; Spec/*.v are the RFC algorithms, closed by the RFCs' own test vectors (Spec/*Kat.v).
   The theorems below say (1) the model of the ENCRYPTOR (a faithful transcription of the Rust control flow over
   scripted I/O) writes exactly the specified bytes, for all inputs and all conforming read partitions and write
   schedules, and (2) EVERY file of the specified format — any legal chunking, not only those the encryptor
   emits — is decrypted by the model of the DECRYPTOR to its plaintext and sender.
   NOT a theorem here (checked by the correspondence runs instead): that the Rust binary's bytes equal the
   model's; that orion's primitives equal the RFC functions; golden files and the frozen corpus. *)
From Kestrel Require Import Bytes Outcome IO IOFacts Prims.
From Kestrel.gen Require Import Extracted.
From Kestrel.Model Require Import AeadWrap Chunks Noise NoiseSpec Files EventPreds FilesSpec ChunksSpec CombineDefs.
From Kestrel.Spec Require Import Concrete.
From Kestrel.Proofs Require Import ChunksDec ChunksEnc NoiseFacts FilesFacts PrimFacts CombineFiles.
Local Open Scope N_scope.

(* ENCRYPTOR = FORMAT, password mode.  For every password, salt, plaintext, conforming read partition and write schedule: pass_encrypt returns Ok and appends exactly spec_pass_file pw salt chunks to the sink, where chunks are the successive non-empty results of its read(65536) calls (one empty chunk for an empty input).  The output depends on the read script only through that list, and not at all on the write caps. *)
Theorem C06_pass_encrypt_is_spec :
  forall (P : prims) (pw salt : bytes) (s0 : io),
  hash_ok P ->
  reader_ok (rdr s0) ->
  writer_ok (wtr s0) ->
  exists s0' : io,
    pass_encrypt P pw salt s0 = (Ok tt, s0') /\
    w_out (wtr s0') =
    w_out (wtr s0) ++ spec_pass_file P pw salt (chunks_of_reads (reads_of (N.to_nat cs_const) (rdr s0))) /\
    r_data (rdr s0') = [] /\ reader_ok (rdr s0') /\ writer_ok (wtr s0').
Proof. exact (pass_encrypt_output). Qed.
Print Assumptions C06_pass_encrypt_is_spec.

(* ENCRYPTOR = FORMAT, key mode: whenever the Noise layer produced (msg, hh), key_encrypt appends exactly prologue ++ msg ++ chunk stream under HKDF("", payload key, hh) *)
Theorem C06_key_encrypt_is_spec :
  forall (P : prims) (fresh_pk fresh_e s spk rpk : bytes) (e epk pk : option bytes) 
    (s0 : io) (msg hh : bytes),
  hash_ok P ->
  length (payload_of fresh_pk pk) = 32%nat ->
  noise_encrypt P fresh_e s spk rpk e epk x_prologue (payload_of fresh_pk pk) = Ok (msg, hh) ->
  reader_ok (rdr s0) ->
  writer_ok (wtr s0) ->
  exists s0' : io,
    key_encrypt P fresh_pk fresh_e s spk rpk e epk pk s0 = (Ok tt, s0') /\
    w_out (wtr s0') =
    w_out (wtr s0) ++
    spec_key_file P msg hh (payload_of fresh_pk pk)
      (chunks_of_reads (reads_of (N.to_nat cs_const) (rdr s0))) /\
    r_data (rdr s0') = [] /\ reader_ok (rdr s0') /\ writer_ok (wtr s0').
Proof. exact (key_encrypt_output). Qed.
Print Assumptions C06_key_encrypt_is_spec.

(* the Noise initiator as modelled (generic token loop over the EXTRACTED pattern [e; es; s; ss], CipherState/SymmetricState objects) equals the closed-form specification, for all keys and payloads *)
Theorem C06_noise_encrypt_is_spec :
  forall P : prims,
  hash_ok P ->
  forall (fresh_e : bytes) (s : list N) (spk : bytes) (rpk : list N) (e epk : option bytes)
    (prologue payload e' epk' : bytes),
  eph_of P fresh_e e epk = (e', epk') ->
  length e' = 32%nat ->
  length s = 32%nat ->
  length rpk = 32%nat ->
  noise_encrypt P fresh_e s spk rpk e epk prologue payload =
  noise_encrypt_spec P e' epk' s spk rpk prologue payload.
Proof. exact (noise_encrypt_eq). Qed.
Print Assumptions C06_noise_encrypt_is_spec.

(* the Noise responder as modelled equals the closed-form specification, for every message of every length (lengths outside 96..65535 are rejected) *)
Theorem C06_noise_decrypt_is_spec :
  forall P : prims,
  hash_ok P ->
  forall (r : list N) (rpk prologue msg : bytes),
  length r = 32%nat ->
  noise_decrypt P r rpk prologue msg =
  (if noise_len_ok (length msg) then noise_decrypt_spec P r rpk prologue msg else Err NOther).
Proof. exact (noise_decrypt_eq). Qed.
Print Assumptions C06_noise_decrypt_is_spec.

(* the handshake message is: ephemeral public key in clear ++ AEAD(static public key) ++ AEAD(payload key), with the documented keys and associated data *)
Theorem C06_handshake_message_layout :
  forall (P : prims) (e epk s spk rpk prologue payload msg hh : bytes),
  noise_encrypt_spec P e epk s spk rpk prologue payload = Ok (msg, hh) ->
  all_zero (p_dh P e rpk) = false /\
  all_zero (p_dh P s rpk) = false /\
  msg =
  epk ++
  hs_c1 P prologue rpk epk spk (p_dh P e rpk) ++
  hs_c2 P prologue rpk epk spk (p_dh P e rpk) (p_dh P s rpk) payload.
Proof. exact (noise_msg_shape). Qed.
Print Assumptions C06_handshake_message_layout.

(* chunk layer: encrypt_chunks writes exactly spec_chunks for the chunking given by its reads *)
Theorem C06_encrypt_chunks_is_spec :
  forall (P : prims) (key aad : bytes) (cs : N) (s : io),
  length key = 32%nat ->
  1 <= cs ->
  reader_ok (rdr s) ->
  writer_ok (wtr s) ->
  exists s' : io,
    encrypt_chunks P key aad cs s = (Ok tt, s') /\
    w_out (wtr s') =
    w_out (wtr s) ++ spec_chunks P key aad (chunks_of_reads (reads_of (N.to_nat cs) (rdr s))) /\
    r_data (rdr s') = [] /\ reader_ok (rdr s') /\ writer_ok (wtr s').
Proof. exact (enc_spec_ok). Qed.
Print Assumptions C06_encrypt_chunks_is_spec.

(* DECRYPTOR ACCEPTS THE FORMAT, chunk layer (kept): EVERY non-empty list of chunks of 0..cs bytes decrypts to the concatenation of its chunks, under every conforming schedule *)
Theorem C06_any_legal_chunking_decrypts :
  forall (P : prims) (key aad : bytes) (cs : N),
  length key = 32%nat ->
  aead_ok P ->
  cs < 4294967296 ->
  forall (chunks : list bytes) (n : N) (s : io) (fuel : nat),
  chunks <> [] ->
  Forall (chunk_ok cs) chunks ->
  reader_ok (rdr s) ->
  writer_ok (wtr s) ->
  r_data (rdr s) = spec_chunks_from P key aad n chunks ->
  (length chunks <= fuel)%nat ->
  exists s' : io,
    decrypt_chunks_loop P fuel key aad cs n s = (Ok tt, s') /\
    w_out (wtr s') = w_out (wtr s) ++ concat chunks /\ r_data (rdr s') = [].
Proof. exact (dec_spec_chunks_ok). Qed.
Print Assumptions C06_any_legal_chunking_decrypts.

(* FILE level, password mode: every file of the documented format — magic, any 32-byte salt, ANY legal chunking (non-empty list of chunks of 0..65536 bytes) — decrypts under its password to the concatenation of its chunks, under every conforming schedule, consuming the whole file *)
Theorem C06_any_legal_pass_file_decrypts :
  forall P : prims,
  aead_ok P ->
  hash_ok P ->
  forall (pw : bytes) (salt : list N) (chunks : list bytes) (s : io),
  length salt = 32%nat ->
  chunks <> [] ->
  Forall (chunk_ok cs_const) chunks ->
  reader_ok (rdr s) ->
  writer_ok (wtr s) ->
  r_data (rdr s) = spec_pass_file P pw salt chunks ->
  exists s' : io,
    pass_decrypt P pw s = (Ok tt, s') /\
    w_out (wtr s') = w_out (wtr s) ++ concat chunks /\ r_data (rdr s') = [].
Proof. exact (spec_pass_file_decrypts). Qed.
Print Assumptions C06_any_legal_pass_file_decrypts.

(* FILE level, key mode: prologue, any 128-byte handshake message that verifies under (r, rpk) with result (payload, spk, hh), any legal chunking under the derived file key: decrypts to the concatenation of the chunks and reports spk *)
Theorem C06_any_legal_key_file_decrypts :
  forall P : prims,
  aead_ok P ->
  hash_ok P ->
  forall (r rpk : bytes) (msg : list N) (hh payload spk : bytes) (chunks : list bytes) (s : io),
  length msg = 128%nat ->
  noise_decrypt P r rpk x_prologue msg = Ok (payload, spk, hh) ->
  chunks <> [] ->
  Forall (chunk_ok cs_const) chunks ->
  reader_ok (rdr s) ->
  writer_ok (wtr s) ->
  r_data (rdr s) = spec_key_file P msg hh payload chunks ->
  exists s' : io,
    key_decrypt P r rpk s = (Ok spk, s') /\
    w_out (wtr s') = w_out (wtr s) ++ concat chunks /\ r_data (rdr s') = [].
Proof. exact (spec_key_file_decrypts). Qed.
Print Assumptions C06_any_legal_key_file_decrypts.

(* one record, literally: be64 counter || be32 last-flag || be32 length || AEAD output, nonce = 00 00 00 00 || le64 counter, associated data = aad || be32 last-flag || be32 length *)
Theorem C06_record_layout :
  forall (P : prims) (key aad : bytes) (n : N) (is_last : bool) (c : bytes),
  record P key aad n is_last c =
  be64 n ++
  be32 (if is_last then 1 else 0) ++
  be32 (N.of_nat (length c)) ++
  p_seal P key (zeros 4 ++ le64 n)
    (aad ++ be32 (if is_last then 1 else 0) ++ be32 (N.of_nat (length c))) c.
Proof. exact (record_layout). Qed.
Print Assumptions C06_record_layout.

(* the 12-byte nonce for every counter value *)
Theorem C06_noise_nonce_layout :
  forall n : N, noise_nonce n = [0; 0; 0; 0] ++ le64 n.
Proof. exact (noise_nonce_layout). Qed.
Print Assumptions C06_noise_nonce_layout.

(* file key = HKDF-SHA256(salt = "", ikm = payload key, info = handshake hash, 32 bytes) *)
Theorem C06_file_key_layout :
  forall (P : prims) (payload hh : bytes), file_key P payload hh = p_hkdf P [] payload hh 32.
Proof. exact (file_key_layout). Qed.
Print Assumptions C06_file_key_layout.

(* password key = scrypt(password, salt, N = 32768, r = 8, p = 1, 32 bytes) *)
Theorem C06_kdf_layout :
  forall (P : prims) (pw salt : bytes), kdf P pw salt = p_scrypt P pw salt 32768 8 1 32.
Proof. exact (kdf_layout). Qed.
Print Assumptions C06_kdf_layout.

(* (kept) the constants the translator extracted from the current sources are the documented ones, and the encrypt side, the decrypt side and the keyring agree with each other *)
Theorem C06_layout_constants :
  x_prologue = [101; 103; 107; 16] /\
  x_pass_file_magic = [101; 103; 107; 32] /\
  x_dec_asym_v1 = x_prologue /\
  x_dec_pass_v1 = x_pass_file_magic /\
  valid_file_format x_prologue = Some AsymV1 /\
  valid_file_format x_pass_file_magic = Some PassV1 /\
  x_lib_chunk_size = 65536 /\
  x_lib_tag_size = 16 /\
  x_lib_scrypt_n = 32768 /\
  x_lib_scrypt_r = 8 /\
  x_lib_scrypt_p = 1 /\
  x_enc_scrypt_args_const = 1 /\
  x_dec_scrypt_args_const = 1 /\
  x_enc_scrypt_len = 32 /\
  x_dec_scrypt_len = 32 /\
  x_enc_hkdf_salt_empty = 1 /\
  x_dec_hkdf_salt_empty = 1 /\
  x_enc_hkdf_len = 32 /\
  x_dec_hkdf_len = 32 /\
  x_enc_key_aad_empty = 1 /\
  x_dec_key_aad_empty = 1 /\
  x_enc_key_cs_is_const = 1 /\
  x_dec_key_cs_is_const = 1 /\
  x_enc_pass_cs_is_const = 1 /\
  x_dec_pass_cs_is_const = 1 /\
  x_dec_prologue_len = 4 /\
  x_dec_handshake_len = 128 /\
  x_dec_magic_len = 4 /\
  x_dec_salt_len = 32 /\
  x_enc_chunk_header_len = 16 /\
  x_dec_chunk_header_len = 16 /\
  x_dec_last_flag = 1 /\
  x_noise_nonce_len = 12 /\
  x_noise_nonce_off_enc = 4 /\
  x_noise_nonce_off_dec = 4 /\
  x_noise_pattern = [TE; TES; TS; TSS] /\
  x_noise_hash_len = 32 /\ x_noise_dh_len = 32 /\ length x_noise_protocol_name = 31%nat.
Proof. exact (layout_constants). Qed.
Print Assumptions C06_layout_constants.

(* valid_file_format recognises exactly the two magics ... *)
Theorem C06_format_dispatch_asym :
  forall hdr : bytes, valid_file_format hdr = Some AsymV1 <-> hdr = x_prologue.
Proof. exact (vff_asym_iff). Qed.
Print Assumptions C06_format_dispatch_asym.

(* ... *)
Theorem C06_format_dispatch_pass :
  forall hdr : bytes, valid_file_format hdr = Some PassV1 <-> hdr = x_pass_file_magic.
Proof. exact (vff_pass_iff). Qed.
Print Assumptions C06_format_dispatch_pass.

(* ... and nothing else *)
Theorem C06_format_dispatch_other :
  forall hdr : bytes, valid_file_format hdr = None <-> hdr <> x_prologue /\ hdr <> x_pass_file_magic.
Proof. exact (vff_none_iff). Qed.
Print Assumptions C06_format_dispatch_other.

(* the abstract laws used above are PROVED for the RFC 8439 transcription ... *)
Theorem C06_rfc_instance_aead_laws :
  forall scr : bytes -> bytes -> N -> N -> N -> nat -> bytes, aead_ok (rfc_prims scr).
Proof. exact (rfc_aead_ok). Qed.
Print Assumptions C06_rfc_instance_aead_laws.

(* ... and for SHA-256 / HMAC / HKDF / X25519 output lengths (scrypt's length is a hypothesis on the supplied scrypt function) *)
Theorem C06_rfc_instance_hash_laws :
  forall scr : bytes -> bytes -> N -> N -> N -> nat -> list N,
  (forall (pw s : bytes) (n r q : N) (l : nat), length (scr pw s n r q l) = l) ->
  hash_ok (rfc_prims scr).
Proof. exact (rfc_hash_ok). Qed.
Print Assumptions C06_rfc_instance_hash_laws.


(* ---------------------------------------------------------------------------------------------------
   More of the literals the model hard-codes, re-extracted from the CURRENT sources on every run (tools/extract.py;
   coq/gen/extracted_meta.json records how each item was located) and tied to the MODEL'S OWN definitions: a changed
   offset, endianness, length or argument order in the Rust breaks one of the equations below. *)

(* an integer field of [width] bytes, big-endian iff [be] = 1, written with the model's own encoders *)
Definition x_int_field (be width x : N) : bytes :=
  if be =? 1 then (if width =? 8 then be64 x else if width =? 4 then be32 x else [])
  else (if width =? 8 then le64 x else if width =? 4 then le32 x else []).

(* chunk header and authenticated data: offsets, widths, endianness, flag values, counter, `prev_read as u32` *)
Theorem C06_chunk_header_constants :
  (* encryptor: counter [0..8) BE, flag [8..12) BE, length [12..16) BE; adjacent, filling the header *)
  x_enc_hdr_ctr_lo = 0 /\ x_enc_hdr_ctr_hi = 8 /\ x_enc_hdr_flag_lo = 8 /\ x_enc_hdr_flag_hi = 12 /\
  x_enc_hdr_len_lo = 12 /\ x_enc_hdr_len_hi = 16 /\
  x_enc_hdr_ctr_hi = x_enc_hdr_flag_lo /\ x_enc_hdr_flag_hi = x_enc_hdr_len_lo /\ x_enc_hdr_len_hi = x_enc_chunk_header_len /\
  x_enc_hdr_ctr_hi - x_enc_hdr_ctr_lo = x_enc_hdr_ctr_width /\ x_enc_hdr_flag_hi - x_enc_hdr_flag_lo = x_enc_hdr_flag_width /\
  x_enc_hdr_len_hi - x_enc_hdr_len_lo = x_enc_hdr_len_width /\
  x_enc_hdr_ctr_be = 1 /\ x_enc_hdr_flag_be = 1 /\ x_enc_hdr_len_be = 1 /\
  x_enc_hdr_ctr_width = 8 /\ x_enc_hdr_flag_width = 4 /\ x_enc_hdr_len_width = 4 /\
  x_enc_flag_last = 1 /\ x_enc_flag_more = 0 /\ x_enc_flag_last = flag true /\ x_enc_flag_more = flag false /\
  x_enc_counter_init = 0 /\ x_enc_counter_step = 1 /\
  x_enc_len_cast_u32 = 1 /\ x_enc_len_is_sealed_len = 1 /\ x_enc_len_is_read_result = 1 /\ x_enc_read_buf_is_chunk_size = 1 /\
  (* the model's record IS the extracted layout *)
  (forall (P : prims) (key aad : bytes) (n : N) (is_last : bool) (c : bytes),
     record P key aad n is_last c =
       x_int_field x_enc_hdr_ctr_be x_enc_hdr_ctr_width n
       ++ x_int_field x_enc_hdr_flag_be x_enc_hdr_flag_width (if is_last then x_enc_flag_last else x_enc_flag_more)
       ++ x_int_field x_enc_hdr_len_be x_enc_hdr_len_width (N.of_nat (length c))
       ++ p_seal P key (noise_nonce n) (rec_ad aad is_last c) c) /\
  (* authenticated data = aad ++ the SAME flag bytes ++ the SAME length bytes *)
  x_enc_ad_extra = 8 /\ x_enc_ad_flag_off = 0 /\ x_enc_ad_flag_end = 4 /\ x_enc_ad_len_off = 4 /\ x_enc_ad_len_end = 8 /\
  x_enc_ad_flag_end - x_enc_ad_flag_off = x_enc_hdr_flag_width /\ x_enc_ad_len_end - x_enc_ad_len_off = x_enc_hdr_len_width /\
  x_enc_ad_len_end = x_enc_ad_extra /\ x_enc_ad_shares_header_bytes = 1 /\
  (forall (aad : bytes) (is_last : bool) (c : bytes),
     rec_ad aad is_last c =
       aad ++ x_int_field x_enc_hdr_flag_be x_enc_hdr_flag_width (if is_last then x_enc_flag_last else x_enc_flag_more)
           ++ x_int_field x_enc_hdr_len_be x_enc_hdr_len_width (N.of_nat (length c))) /\
  x_enc_seal_roles = [RKey; RCounter; RAuthData; RChunkBody] /\ x_enc_chunk_sink_roles = [RHeader; RSealed; RFlush] /\
  (* decryptor: the same two fields at the same places, the same authenticated data *)
  x_dec_hdr_flag_lo = x_enc_hdr_flag_lo /\ x_dec_hdr_flag_hi = x_enc_hdr_flag_hi /\
  x_dec_hdr_len_lo = x_enc_hdr_len_lo /\ x_dec_hdr_len_hi = x_enc_hdr_len_hi /\ x_dec_hdr_len_hi = x_dec_chunk_header_len /\
  x_dec_hdr_flag_be = x_enc_hdr_flag_be /\ x_dec_hdr_len_be = x_enc_hdr_len_be /\
  x_dec_hdr_flag_width = x_enc_hdr_flag_width /\ x_dec_hdr_len_width = x_enc_hdr_len_width /\
  (forall h : bytes, hdr_last h = firstn (N.to_nat (x_dec_hdr_flag_hi - x_dec_hdr_flag_lo)) (skipn (N.to_nat x_dec_hdr_flag_lo) h)) /\
  (forall h : bytes, hdr_len h = skipn (N.to_nat x_dec_hdr_len_lo) h) /\
  x_dec_last_flag = x_enc_flag_last /\
  x_dec_ad_extra = x_enc_ad_extra /\ x_dec_ad_flag_off = x_enc_ad_flag_off /\ x_dec_ad_flag_end = x_enc_ad_flag_end /\
  x_dec_ad_len_off = x_enc_ad_len_off /\ x_dec_ad_len_end = x_enc_ad_len_end /\ x_dec_ad_shares_header_bytes = 1 /\
  x_dec_counter_init = x_enc_counter_init /\ x_dec_counter_step = x_enc_counter_step /\
  x_dec_open_roles = [RKey; RCounter; RAuthData; RChunkBody] /\ x_dec_chunk_sink_roles = [RPlaintext; RFlush] /\
  x_dec_open_is_what_was_read = 1.
Proof.
  repeat split; intros; try reflexivity;
    match goal with b : bool |- _ => destruct b; reflexivity end.
Qed.
Print Assumptions C06_chunk_header_constants.

(* which value goes where in the hkdf / scrypt / noise / chunk calls of encrypt.rs and decrypt.rs *)
Definition x_role_const (r : role) : N := match r with RConst v => v | _ => 0 end.

Theorem C06_call_role_constants :
  x_enc_hkdf_roles = [REmpty; RPayloadKey; RHandshakeHash; RConst 32] /\ x_dec_hkdf_roles = x_enc_hkdf_roles /\
  (* file_key of the model = hkdf with the arguments in the extracted order *)
  (forall (P : prims) (payload hh : bytes),
     file_key P payload hh =
     match x_enc_hkdf_roles with
     | [a; b; c; d] =>
       let env := fun r => match r with RPayloadKey => payload | RHandshakeHash => hh | _ => [] end in
       p_hkdf P (env a) (env b) (env c) (N.to_nat (x_role_const d))
     | _ => []
     end) /\
  x_enc_scrypt_roles = [RPassword; RSalt; RConst x_lib_scrypt_n; RConst x_lib_scrypt_r; RConst x_lib_scrypt_p; RConst 32] /\
  x_dec_scrypt_roles = x_enc_scrypt_roles /\
  (* kdf of the model = scrypt with the arguments in the extracted order *)
  (forall (P : prims) (pw salt : bytes),
     kdf P pw salt =
     match x_enc_scrypt_roles with
     | [a; b; n; r; p; l] =>
       let env := fun x => match x with RPassword => pw | RSalt => salt | _ => [] end in
       p_scrypt P (env a) (env b) (x_role_const n) (x_role_const r) (x_role_const p) (N.to_nat (x_role_const l))
     | _ => []
     end) /\
  x_enc_noise_roles = [RSender; RSenderPub; RRecipient; REphemeral; REphemeralPub; RPrologue; RPayloadKey] /\
  x_dec_noise_roles = [RRecipient; RRecipientPub; RPrologue; RHandshakeMsg] /\
  x_enc_key_chunks_roles = [RSrc; RDst; RFileKey; REmpty; RConst x_lib_chunk_size] /\
  x_dec_key_chunks_roles = x_enc_key_chunks_roles /\
  x_enc_pass_chunks_roles = [RSrc; RDst; RPassKey; RMagic; RConst x_lib_chunk_size] /\
  x_dec_pass_chunks_roles = x_enc_pass_chunks_roles /\
  (* what is written / tested first *)
  x_enc_key_header_roles = [RPrologue; RNoiseMsg; RFlush] /\ x_enc_pass_header_roles = [RMagic; RSalt; RFlush] /\
  x_dec_key_format_roles = [RPrologue] /\ x_dec_pass_format_roles = [RMagic] /\ x_enc_kdf_before_header = 1 /\
  (* password mode: salt / key lengths; fresh payload key *)
  x_enc_salt_len = 32 /\ x_enc_salt_len = x_dec_salt_len /\ x_enc_scrypt_len = x_lib_payload_key_len /\
  x_enc_fresh_payload_len = x_lib_payload_key_len /\ x_enc_hkdf_len = x_lib_payload_key_len.
Proof. repeat split; intros; reflexivity. Qed.
Print Assumptions C06_call_role_constants.

(* the AEAD nonce and the wrappers around the primitives *)
Definition x_pick (env : list bytes) (nonce : bytes) (r : role) : bytes :=
  match r with RParam i => nth (N.to_nat i) env [] | RNonce => nonce | _ => [] end.

Theorem C06_nonce_constants :
  x_noise_nonce_len_dec = x_noise_nonce_len /\ x_noise_nonce_end_enc = x_noise_nonce_len /\ x_noise_nonce_end_dec = x_noise_nonce_len /\
  x_noise_nonce_le_enc = 1 /\ x_noise_nonce_le_dec = 1 /\ x_noise_nonce_ctr_width_enc = 8 /\ x_noise_nonce_ctr_width_dec = 8 /\
  x_noise_nonce_end_enc - x_noise_nonce_off_enc = x_noise_nonce_ctr_width_enc /\
  x_noise_nonce_end_dec - x_noise_nonce_off_dec = x_noise_nonce_ctr_width_dec /\
  (* the model's nonce IS zeros up to the extracted offset, then the counter in the extracted endianness *)
  (forall n : N, noise_nonce n = zeros (N.to_nat x_noise_nonce_off_enc) ++ x_int_field (1 - x_noise_nonce_le_enc) x_noise_nonce_ctr_width_enc n) /\
  (forall n : N, noise_nonce n = zeros (N.to_nat x_noise_nonce_off_dec) ++ x_int_field (1 - x_noise_nonce_le_dec) x_noise_nonce_ctr_width_dec n) /\
  (* (key, counter, ad, data) -> ietf (key, nonce, data, ad) *)
  x_lib_enc_noise_to_ietf = [RParam 0; RNonce; RParam 3; RParam 2] /\ x_lib_dec_noise_to_ietf = x_lib_enc_noise_to_ietf /\
  (forall (P : prims) (key : bytes) (n : N) (ad pt : bytes),
     chapoly_encrypt_noise P key n ad pt =
     match map (x_pick [key; []; ad; pt] (noise_nonce n)) x_lib_enc_noise_to_ietf with
     | [a; b; c; d] => chapoly_encrypt_ietf P a b c d
     | _ => Panic PUnwrap
     end) /\
  (forall (P : prims) (key : bytes) (n : N) (ad ct : bytes),
     chapoly_decrypt_noise P key n ad ct =
     if negb (Nat.eqb (length key) (N.to_nat x_lib_dec_noise_key_len)) then Panic PAssert else
     match map (x_pick [key; []; ad; ct] (noise_nonce n)) x_lib_dec_noise_to_ietf with
     | [a; b; c; d] => chapoly_decrypt_ietf P a b c d
     | _ => Panic PUnwrap
     end) /\
  (* ietf (key, nonce, data, aad) -> orion (key, nonce, data, Some aad, out) *)
  x_lib_enc_ietf_to_orion = [RParam 0; RParam 1; RParam 2; RSome (RParam 3); ROut] /\ x_lib_dec_ietf_to_orion = x_lib_enc_ietf_to_orion /\
  x_lib_dec_ietf_min_len = x_lib_tag_size /\ x_dec_ct_read_extra = x_lib_tag_size /\ x_dec_buf_extra = x_lib_tag_size /\
  x_lib_hkdf_to_orion = [RParam 0; RParam 1; RSome (RParam 2); ROut] /\ x_lib_hkdf_out_len_is_param = 1.
Proof. repeat split; intros; reflexivity. Qed.
Print Assumptions C06_nonce_constants.

(* Noise: hkdf_noise counters, handshake lengths, the arguments of init_x *)
Theorem C06_noise_constants :
  x_lib_hkdf_noise_c1 = [1] /\ x_lib_hkdf_noise_c2_tail = [2] /\ x_lib_hkdf_noise_c2_len = 33 /\
  x_lib_hkdf_noise_c2_split = x_noise_hash_len /\ x_lib_hkdf_noise_shape_ok = 1 /\
  N.of_nat (length x_lib_hkdf_noise_c2_tail) + x_lib_hkdf_noise_c2_split = x_lib_hkdf_noise_c2_len /\
  (forall (P : prims) (ck ikm : bytes),
     hkdf_noise P ck ikm =
     let temp := p_hmac P ck ikm in
     let o1 := p_hmac P temp x_lib_hkdf_noise_c1 in
     (o1, p_hmac P temp (o1 ++ x_lib_hkdf_noise_c2_tail))) /\
  x_noise_s_len_plain = x_noise_dh_len /\ x_noise_s_len_keyed = x_noise_dh_len + x_lib_tag_size /\
  (* 128 = e + encrypted s + encrypted payload key; 96 = the same with an empty payload *)
  x_dec_handshake_len = x_noise_dh_len + x_noise_s_len_keyed + (x_lib_payload_key_len + x_lib_tag_size) /\
  x_noise_guard_min = x_noise_dh_len + x_noise_s_len_keyed + x_lib_tag_size /\
  x_noise_hash_output_len = x_noise_hash_len /\ x_lib_handshake_hash_len_enc = x_noise_hash_len /\
  x_lib_handshake_hash_len_dec = x_noise_hash_len /\ x_dec_prologue_len = N.of_nat (length x_prologue) /\
  x_dec_magic_len = N.of_nat (length x_pass_file_magic) /\
  x_lib_noise_enc_initx_roles = [RTrue; RPrologue; RSender; RSenderPub; REphemeral; REphemeralPub; RSome RRecipient] /\
  x_lib_noise_dec_initx_roles = [RFalse; RPrologue; RRecipient; RRecipientPub; RNone; RNone; RNone] /\
  x_lib_noise_enc_msg_role = [RPayloadKey] /\ x_lib_noise_dec_msg_role = [RHandshakeMsg] /\
  x_noise_nonce_step_enc = 1 /\ x_noise_nonce_step_dec = 1.
Proof. repeat split; intros; reflexivity. Qed.
Print Assumptions C06_noise_constants.
