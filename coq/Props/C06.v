(* Props/C06.v — conformance to the documented format (chunk layer; file layer is being added). *)
From Kestrel Require Import Bytes Outcome IO Prims.
From Kestrel.gen Require Import Extracted.
From Kestrel.Model Require Import AeadWrap Chunks Files.
From Kestrel.Proofs Require Import ChunksDec.
Local Open Scope N_scope.

(* EVERY file conforming to the documented chunk format — any non-empty list of chunks of 0..cs bytes, not
   only chunkings the encryptor emits — decrypts to the concatenation of its chunks, under every
   conforming read/write schedule. *)
Theorem C06_any_legal_chunking_decrypts :
  forall (P : prims) (key aad : bytes) (cs : N), length key = 32%nat -> aead_ok P -> cs < 4294967296 ->
  forall chunks n s fuel, chunks <> [] -> Forall (chunk_ok cs) chunks ->
    reader_ok (rdr s) -> writer_ok (wtr s) ->
    r_data (rdr s) = spec_chunks_from P key aad n chunks -> (length chunks <= fuel)%nat ->
    exists s', decrypt_chunks_loop P fuel key aad cs n s = (Ok tt, s') /\
               w_out (wtr s') = w_out (wtr s) ++ concat chunks /\ r_data (rdr s') = [].
Proof. intros P key aad cs Hk Ha Hc. exact (dec_spec_chunks_ok P key aad cs Hk Ha Hc). Qed.
Print Assumptions C06_any_legal_chunking_decrypts.

(* the constants the translator extracted from the current sources are the documented ones, and the
   encrypt side, the decrypt side and the keyring agree with each other *)
Theorem C06_layout_constants :
  x_prologue = [101; 103; 107; 16] /\ x_pass_file_magic = [101; 103; 107; 32] /\
  x_dec_asym_v1 = x_prologue /\ x_dec_pass_v1 = x_pass_file_magic /\
  valid_file_format x_prologue = Some AsymV1 /\ valid_file_format x_pass_file_magic = Some PassV1 /\
  x_lib_chunk_size = 65536 /\ x_lib_tag_size = 16 /\
  x_lib_scrypt_n = 32768 /\ x_lib_scrypt_r = 8 /\ x_lib_scrypt_p = 1 /\
  x_enc_scrypt_args_const = 1 /\ x_dec_scrypt_args_const = 1 /\ x_enc_scrypt_len = 32 /\ x_dec_scrypt_len = 32 /\
  x_enc_hkdf_salt_empty = 1 /\ x_dec_hkdf_salt_empty = 1 /\ x_enc_hkdf_len = 32 /\ x_dec_hkdf_len = 32 /\
  x_enc_key_aad_empty = 1 /\ x_dec_key_aad_empty = 1 /\
  x_enc_key_cs_is_const = 1 /\ x_dec_key_cs_is_const = 1 /\ x_enc_pass_cs_is_const = 1 /\ x_dec_pass_cs_is_const = 1 /\
  x_dec_prologue_len = 4 /\ x_dec_handshake_len = 128 /\ x_dec_magic_len = 4 /\ x_dec_salt_len = 32 /\
  x_enc_chunk_header_len = 16 /\ x_dec_chunk_header_len = 16 /\ x_dec_last_flag = 1 /\
  x_noise_nonce_len = 12 /\ x_noise_nonce_off_enc = 4 /\ x_noise_nonce_off_dec = 4 /\
  x_noise_pattern = [TE; TES; TS; TSS] /\ x_noise_hash_len = 32 /\ x_noise_dh_len = 32 /\
  length x_noise_protocol_name = 31%nat.
Proof. repeat split; reflexivity. Qed.
Print Assumptions C06_layout_constants.
