(* Props/C12.v — PLACEHOLDER created by the check-writer for local testing only; to be replaced by the
   real theorems of property C12. *)
Example C12_placeholder : True.
Proof. exact I. Qed.
Print Assumptions C12_placeholder.
