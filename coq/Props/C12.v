(* Props/C12.v — the CLI's exit status is truthful and results do not depend on how I/O is wired.

   Models: Model/Cli.v (commands.rs over an explicit world: file system, environment, stdin; ONE terminal
   configuration: no tty, so passwords come from KESTREL_PASSWORD), Model/CliParse.v + Model/Getopts.v (main.rs argument
   parsing over a transcription of getopts' long_only subset), Model/CliGlue.v (main = parse, then dispatch).
   All theorems quantify over the primitives P and the keyring functions (validators, unlock, lock, decode/encode,
   UTF-8 codec): they hold whatever these are.

   What is proved:
     - exit code 0 <=> the command's status is a success, for all seven commands and for main as a whole; every other
       exit code is 1, except 101 for a modelled Rust panic (102 marks the library model's fuel artefact, excluded by the
       library theorems); help/version exit 0, usage errors exit 1 and leave the file system alone;
     - a successful decrypt / password decrypt delivered (to -o F or stdout) exactly the bytes a library run that
       returned Ok wrote; CHAINED with the chunk-layer authenticity theorem lifted through the file header: under the
       no-forgery premise over that run's log these bytes are the COMPLETE honest plaintext;
     - after a successful key decrypt the status names the unique keyring entry whose public-key string equals the
       encoding of the authenticated sender key, else carries that encoding ("unknown key");
     - wiring: input as file argument or on stdin; output to -o F or stdout; keyring by -k or KESTREL_KEYRING: identical
       results (whole result records equal, or equal status / exit code / delivered bytes for the output wiring);
     - command aliases (enc/encrypt, dec/decrypt, pass/password, key gen/generate, -v/--version) and option spellings
       (long or short name, one or two dashes, separate or '=' value, any order) parse to the same command, hence the
       whole program gives the same result; the parser never panics.
     - THE TREE (Model/Cli.v: files and directories, path strings resolved component by component): exit 0 iff the operation
       completed ALSO over failures of the output path and of the input handle: a -o path that cannot be created (missing
       parent directory, a directory, a file used as a directory, empty string, trailing slash) never gives exit 0 and changes
       nothing (C12_bad_output_never_exits_zero); a directory as input never gives exit 0 (C12_dir_input_never_exits_zero);
       exit 0 of an encryptor means the library returned Ok on a regular input and a creatable sink and the -o file holds
       everything it wrote (C12_encrypt_success_delivers, C12_pass_encrypt_success_delivers); the wiring theorems speak of
       the FILE a path denotes, not of its spelling (other_file / input_elsewhere);
   PARTIAL / not covered: the text on stderr (the "Error: ..." line, the sender line) is represented only by the
   status value, not as bytes; terminal prompts; real file-system and OS errors; invalid-UTF-8 arguments; encrypt
   commands under different wirings are compared as whole result records for the same random blocks (the harness
   compares recovered plaintexts).  The no-forgery premise is the AEAD's security, not proved here. *)
From Kestrel Require Import Bytes Outcome IO Prims.
From Kestrel.gen Require Import Extracted.
From Kestrel.Model Require Import AeadWrap Chunks Noise Files KeyringText Getopts CliParse CliParseSpec Cli CliGlue Combine2Defs.
From Kestrel.Proofs Require Import ChunksAuth CliFs CliFacts CliTree CliParseFacts Combine2Cli Combine2Main.
From Coq Require Import Permutation.
Local Open Scope N_scope.

(* exit code 0 exactly when the command's status is a success (SOk / SOkFrom / SOkUnknownSender), all commands *)
Theorem C12_exit_iff_ok :
  forall (P : prims) (pk_ok sk_ok : text -> bool) (unlock : text -> bytes -> outcome kerr bytes)
         (lock : bytes -> bytes -> bytes -> text) (decode_pk : text -> outcome kerr bytes) (encode_pk : bytes -> text)
         (sk_string_ok : text -> bool) (utf8_decode : bytes -> option text) (utf8_encode : text -> bytes),
  (forall w o fpk fe, exit_code (cmd_encrypt P pk_ok sk_ok unlock decode_pk utf8_decode w o fpk fe) = 0 <-> is_success (status (cmd_encrypt P pk_ok sk_ok unlock decode_pk utf8_decode w o fpk fe)) = true) /\
  (forall w o, exit_code (cmd_decrypt P pk_ok sk_ok unlock decode_pk encode_pk utf8_decode w o) = 0 <-> is_success (status (cmd_decrypt P pk_ok sk_ok unlock decode_pk encode_pk utf8_decode w o)) = true) /\
  (forall w o salt, exit_code (cmd_pass_encrypt P w o salt) = 0 <-> is_success (status (cmd_pass_encrypt P w o salt)) = true) /\
  (forall w o, exit_code (cmd_pass_decrypt P w o) = 0 <-> is_success (status (cmd_pass_decrypt P w o)) = true) /\
  (forall w o sk salt, exit_code (cmd_gen_key P lock encode_pk utf8_decode utf8_encode w o sk salt) = 0 <-> is_success (status (cmd_gen_key P lock encode_pk utf8_decode utf8_encode w o sk salt)) = true) /\
  (forall w sk e salt, exit_code (cmd_change_pass unlock lock sk_string_ok utf8_encode w sk e salt) = 0 <-> is_success (status (cmd_change_pass unlock lock sk_string_ok utf8_encode w sk e salt)) = true) /\
  (forall w sk e, exit_code (cmd_extract_pub P unlock encode_pk sk_string_ok utf8_encode w sk e) = 0 <-> is_success (status (cmd_extract_pub P unlock encode_pk sk_string_ok utf8_encode w sk e)) = true).
Proof. exact exit_iff_ok. Qed.
Print Assumptions C12_exit_iff_ok.

(* the exit code is a function of the status: code_of st = 0 for a success, 101 for SPanic, 102 for SOutOfFuel, else 1 *)
Theorem C12_exit_code_of_status :
  forall (P : prims) (pk_ok sk_ok : text -> bool) (unlock : text -> bytes -> outcome kerr bytes)
         (lock : bytes -> bytes -> bytes -> text) (decode_pk : text -> outcome kerr bytes) (encode_pk : bytes -> text)
         (sk_string_ok : text -> bool) (utf8_decode : bytes -> option text) (utf8_encode : text -> bytes),
  (forall w o fpk fe, exit_code (cmd_encrypt P pk_ok sk_ok unlock decode_pk utf8_decode w o fpk fe) = code_of (status (cmd_encrypt P pk_ok sk_ok unlock decode_pk utf8_decode w o fpk fe))) /\
  (forall w o, exit_code (cmd_decrypt P pk_ok sk_ok unlock decode_pk encode_pk utf8_decode w o) = code_of (status (cmd_decrypt P pk_ok sk_ok unlock decode_pk encode_pk utf8_decode w o))) /\
  (forall w o salt, exit_code (cmd_pass_encrypt P w o salt) = code_of (status (cmd_pass_encrypt P w o salt))) /\
  (forall w o, exit_code (cmd_pass_decrypt P w o) = code_of (status (cmd_pass_decrypt P w o))) /\
  (forall w o sk salt, exit_code (cmd_gen_key P lock encode_pk utf8_decode utf8_encode w o sk salt) = code_of (status (cmd_gen_key P lock encode_pk utf8_decode utf8_encode w o sk salt))) /\
  (forall w sk e salt, exit_code (cmd_change_pass unlock lock sk_string_ok utf8_encode w sk e salt) = code_of (status (cmd_change_pass unlock lock sk_string_ok utf8_encode w sk e salt))) /\
  (forall w sk e, exit_code (cmd_extract_pub P unlock encode_pk sk_string_ok utf8_encode w sk e) = code_of (status (cmd_extract_pub P unlock encode_pk sk_string_ok utf8_encode w sk e))).
Proof. exact exit_code_of_status. Qed.
Print Assumptions C12_exit_code_of_status.

(* code_of takes the values 0, 1, 101 (only for a modelled panic), 102 (only for the model's fuel artefact) *)
Theorem C12_code_of_values :
  forall st : cmd_status, code_of st = 0 \/ code_of st = 1 \/
    (code_of st = 101 /\ exists t, st = SPanic t) \/ (code_of st = 102 /\ st = SOutOfFuel).
Proof. exact code_of_values. Qed.
Print Assumptions C12_code_of_values.

(* main as a whole (parse + dispatch): exit code 0, 1, or 101 only with a modelled panic status of a command; the
   argument parser itself never panics *)
Theorem C12_main_exit_code :
  forall (P : prims) (pk_ok sk_ok : text -> bool) (unlock : text -> bytes -> outcome kerr bytes)
         (lock : bytes -> bytes -> bytes -> text) (decode_pk : text -> outcome kerr bytes) (encode_pk : bytes -> text)
         (sk_string_ok : text -> bool) (utf8_decode : bytes -> option text) (utf8_encode : text -> bytes) (help_text version_text : bytes)
         (w : world) (argv : list text) (r1 r2 : bytes),
  m_exit (cli_main P pk_ok sk_ok unlock lock decode_pk encode_pk sk_string_ok utf8_decode utf8_encode help_text version_text w argv r1 r2) = 0 \/
  m_exit (cli_main P pk_ok sk_ok unlock lock decode_pk encode_pk sk_string_ok utf8_decode utf8_encode help_text version_text w argv r1 r2) = 1 \/
  (m_exit (cli_main P pk_ok sk_ok unlock lock decode_pk encode_pk sk_string_ok utf8_decode utf8_encode help_text version_text w argv r1 r2) = 101 /\
   exists t, m_status (cli_main P pk_ok sk_ok unlock lock decode_pk encode_pk sk_string_ok utf8_decode utf8_encode help_text version_text w argv r1 r2) = MCmd (SPanic t)) \/
  (m_exit (cli_main P pk_ok sk_ok unlock lock decode_pk encode_pk sk_string_ok utf8_decode utf8_encode help_text version_text w argv r1 r2) = 102 /\
   m_status (cli_main P pk_ok sk_ok unlock lock decode_pk encode_pk sk_string_ok utf8_decode utf8_encode help_text version_text w argv r1 r2) = MCmd SOutOfFuel).
Proof. intros; apply cli_main_exit_code. Qed.
Print Assumptions C12_main_exit_code.

(* main exits 0 exactly for help, version, and a command whose status is a success *)
Theorem C12_main_exit_zero_iff :
  forall (P : prims) (pk_ok sk_ok : text -> bool) (unlock : text -> bytes -> outcome kerr bytes)
         (lock : bytes -> bytes -> bytes -> text) (decode_pk : text -> outcome kerr bytes) (encode_pk : bytes -> text)
         (sk_string_ok : text -> bool) (utf8_decode : bytes -> option text) (utf8_encode : text -> bytes) (help_text version_text : bytes)
         (w : world) (argv : list text) (r1 r2 : bytes),
  m_exit (cli_main P pk_ok sk_ok unlock lock decode_pk encode_pk sk_string_ok utf8_decode utf8_encode help_text version_text w argv r1 r2) = 0 <->
  (m_status (cli_main P pk_ok sk_ok unlock lock decode_pk encode_pk sk_string_ok utf8_decode utf8_encode help_text version_text w argv r1 r2) = MHelp \/
   m_status (cli_main P pk_ok sk_ok unlock lock decode_pk encode_pk sk_string_ok utf8_decode utf8_encode help_text version_text w argv r1 r2) = MVersion \/
   exists st, m_status (cli_main P pk_ok sk_ok unlock lock decode_pk encode_pk sk_string_ok utf8_decode utf8_encode help_text version_text w argv r1 r2) = MCmd st /\ is_success st = true).
Proof. intros; apply cli_main_exit_zero_iff. Qed.
Print Assumptions C12_main_exit_zero_iff.

(* bad arguments (usage error): exit 1, nothing on stdout, the file system untouched (this is C13's 'bad arguments') *)
Theorem C12_usage_error_leaves_fs :
  forall (P : prims) (pk_ok sk_ok : text -> bool) (unlock : text -> bytes -> outcome kerr bytes)
         (lock : bytes -> bytes -> bytes -> text) (decode_pk : text -> outcome kerr bytes) (encode_pk : bytes -> text)
         (sk_string_ok : text -> bool) (utf8_decode : bytes -> option text) (utf8_encode : text -> bytes) (help_text version_text : bytes)
         (w : world) (argv : list text) (r1 r2 : bytes) (m : usage_msg),
  m_status (cli_main P pk_ok sk_ok unlock lock decode_pk encode_pk sk_string_ok utf8_decode utf8_encode help_text version_text w argv r1 r2) = MUsage m ->
  m_exit (cli_main P pk_ok sk_ok unlock lock decode_pk encode_pk sk_string_ok utf8_decode utf8_encode help_text version_text w argv r1 r2) = 1 /\
  m_fs (cli_main P pk_ok sk_ok unlock lock decode_pk encode_pk sk_string_ok utf8_decode utf8_encode help_text version_text w argv r1 r2) = fs w /\
  m_stdout (cli_main P pk_ok sk_ok unlock lock decode_pk encode_pk sk_string_ok utf8_decode utf8_encode help_text version_text w argv r1 r2) = [].
Proof. intros until m; apply cli_main_usage_error_leaves_fs. Qed.
Print Assumptions C12_usage_error_leaves_fs.

(* ... and main reports a usage error exactly when the parser produced one *)
Theorem C12_usage_iff :
  forall (P : prims) (pk_ok sk_ok : text -> bool) (unlock : text -> bytes -> outcome kerr bytes)
         (lock : bytes -> bytes -> bytes -> text) (decode_pk : text -> outcome kerr bytes) (encode_pk : bytes -> text)
         (sk_string_ok : text -> bool) (utf8_decode : bytes -> option text) (utf8_encode : text -> bytes) (help_text version_text : bytes)
         (w : world) (argv : list text) (r1 r2 : bytes) (m : usage_msg),
  m_status (cli_main P pk_ok sk_ok unlock lock decode_pk encode_pk sk_string_ok utf8_decode utf8_encode help_text version_text w argv r1 r2) = MUsage m <-> cli_parse argv = Ok (CUsageError m).
Proof. intros; apply cli_main_usage_iff. Qed.
Print Assumptions C12_usage_iff.

(* the argument parser never panics (every indexing / unwrap of main.rs's parse functions is an explicit Panic in the model) *)
Theorem C12_cli_parse_no_panic :
  forall argv : list text, exists c : command, cli_parse argv = Ok c.
Proof. exact cli_parse_no_panic. Qed.
Print Assumptions C12_cli_parse_no_panic.

(* a successful key decrypt delivered exactly the w_out of a library run (script-free io state on the bytes fed) that
   returned Ok; the bytes fed (dec_fed) are the file argument's content or stdin — unless the input path and the -o path
   denote ONE file under two different strings (dj_alias; Props/C13.v::C13_alias_caveat) *)
Theorem C12_decrypt_success_delivers :
  forall (P : prims) (pk_ok sk_ok : text -> bool) (unlock : text -> bytes -> outcome kerr bytes)
         (decode_pk : text -> outcome kerr bytes) (encode_pk : bytes -> text) (utf8_decode : bytes -> option text)
         (w : world) (o : dec_opts),
  is_success (status (cmd_decrypt P pk_ok sk_ok unlock decode_pk encode_pk utf8_decode w o)) = true ->
  exists (j : dec_job) (sender : bytes) (s' : io),
    decrypt_plan pk_ok sk_ok unlock decode_pk utf8_decode w o = inr j /\
    key_decrypt P (dj_r j) (dj_rpk j) (io0 (dec_fed P j)) = (Ok sender, s') /\
    resolve_input w (do_infile o) = inr (dj_input j) /\
    status (cmd_decrypt P pk_ok sk_ok unlock decode_pk encode_pk utf8_decode w o) = sender_status encode_pk (dj_keys j) sender /\
    match do_outfile o with
    | Some F => fs_get (new_fs (cmd_decrypt P pk_ok sk_ok unlock decode_pk encode_pk utf8_decode w o)) F = Some (w_out (wtr s')) /\
                (forall q, fs_target (fs w) q <> fs_target (fs w) F -> fs_get (new_fs (cmd_decrypt P pk_ok sk_ok unlock decode_pk encode_pk utf8_decode w o)) q = fs_get (fs w) q) /\
                stdout (cmd_decrypt P pk_ok sk_ok unlock decode_pk encode_pk utf8_decode w o) = []
    | None => stdout (cmd_decrypt P pk_ok sk_ok unlock decode_pk encode_pk utf8_decode w o) = w_out (wtr s') /\ new_fs (cmd_decrypt P pk_ok sk_ok unlock decode_pk encode_pk utf8_decode w o) = fs w
    end /\
    (dj_alias j = false -> dec_fed P j = dj_input j).
Proof. exact decrypt_success_delivers. Qed.
Print Assumptions C12_decrypt_success_delivers.

(* the same for password decrypt *)
Theorem C12_pass_decrypt_success_delivers :
  forall (P : prims) (w : world) (o : pw_opts),
  is_success (status (cmd_pass_decrypt P w o)) = true ->
  exists (j : pw_job) (s' : io),
    pass_decrypt_plan w o = inr j /\
    pass_decrypt P (pj_pw j) (io0 (pdec_fed P j)) = (Ok tt, s') /\
    resolve_input w (po_infile o) = inr (pj_input j) /\
    ask_pass w (po_env_pass o) = inr (pj_pw j) /\
    status (cmd_pass_decrypt P w o) = SOk /\
    match po_outfile o with
    | Some F => fs_get (new_fs (cmd_pass_decrypt P w o)) F = Some (w_out (wtr s')) /\
                (forall q, fs_target (fs w) q <> fs_target (fs w) F -> fs_get (new_fs (cmd_pass_decrypt P w o)) q = fs_get (fs w) q) /\
                stdout (cmd_pass_decrypt P w o) = []
    | None => stdout (cmd_pass_decrypt P w o) = w_out (wtr s') /\ new_fs (cmd_pass_decrypt P w o) = fs w
    end /\
    (pj_alias j = false -> pdec_fed P j = pj_input j).
Proof. exact pass_decrypt_success_delivers. Qed.
Print Assumptions C12_pass_decrypt_success_delivers.

(* CHAIN with the library: exit 0 for `decrypt` => the input is prologue ++ 128-byte handshake message ++ rest, the
   handshake verified giving (payload key, sender key spk, handshake hash), the status names spk, and — for every honest
   chunk list such that no successful AEAD open of THAT run is a forgery under the derived file key — the delivered
   bytes (file F or stdout; delivered = Model/Combine2Defs.v) are exactly the complete plaintext concat chunks *)
Theorem C12_cli_decrypt_ok_is_complete_plaintext :
  forall (P : prims) (pk_ok sk_ok : text -> bool) (unlock : text -> bytes -> outcome kerr bytes)
         (decode_pk : text -> outcome kerr bytes) (encode_pk : bytes -> text) (utf8_decode : bytes -> option text),
  aead_ok P -> hash_ok P ->
  forall (w : world) (o : dec_opts),
  is_success (status (cmd_decrypt P pk_ok sk_ok unlock decode_pk encode_pk utf8_decode w o)) = true ->
  exists (j : dec_job) (msg rest payload spk hh : bytes) (s' : io),
    decrypt_plan pk_ok sk_ok unlock decode_pk utf8_decode w o = inr j /\ resolve_input w (do_infile o) = inr (dj_input j) /\
    dec_fed P j = x_prologue ++ msg ++ rest /\ length msg = 128%nat /\
    noise_decrypt P (dj_r j) (dj_rpk j) x_prologue msg = Ok (payload, spk, hh) /\
    key_decrypt P (dj_r j) (dj_rpk j) (io0 (dec_fed P j)) = (Ok spk, s') /\
    status (cmd_decrypt P pk_ok sk_ok unlock decode_pk encode_pk utf8_decode w o) = sender_status encode_pk (dj_keys j) spk /\
    delivered (do_outfile o) (cmd_decrypt P pk_ok sk_ok unlock decode_pk encode_pk utf8_decode w o) = Some (w_out (wtr s')) /\
    (forall chunks : list bytes, no_forgery P (file_key P payload hh) [] chunks (log s') ->
      delivered (do_outfile o) (cmd_decrypt P pk_ok sk_ok unlock decode_pk encode_pk utf8_decode w o) = Some (concat chunks)) /\
    (dj_alias j = false -> dec_fed P j = dj_input j).
Proof. exact cli_decrypt_ok_is_complete_plaintext. Qed.
Print Assumptions C12_cli_decrypt_ok_is_complete_plaintext.

(* the same chain for `password decrypt`: input = magic ++ 32-byte salt ++ rest, key = scrypt(password, salt) *)
Theorem C12_cli_pass_decrypt_ok_is_complete_plaintext :
  forall (P : prims), aead_ok P -> hash_ok P ->
  forall (w : world) (o : pw_opts),
  is_success (status (cmd_pass_decrypt P w o)) = true ->
  exists (input fed pw salt rest : bytes) (s' : io),
    resolve_input w (po_infile o) = inr input /\ ask_pass w (po_env_pass o) = inr pw /\
    fed = x_pass_file_magic ++ salt ++ rest /\ length salt = 32%nat /\
    pass_decrypt P pw (io0 fed) = (Ok tt, s') /\
    delivered (po_outfile o) (cmd_pass_decrypt P w o) = Some (w_out (wtr s')) /\
    (forall chunks : list bytes, no_forgery P (kdf P pw salt) x_pass_file_magic chunks (log s') ->
      delivered (po_outfile o) (cmd_pass_decrypt P w o) = Some (concat chunks)) /\
    exists j, pass_decrypt_plan w o = inr j /\ fed = pdec_fed P j /\ (pj_alias j = false -> fed = input).
Proof. exact cli_pass_decrypt_ok_is_complete_plaintext. Qed.
Print Assumptions C12_cli_pass_decrypt_ok_is_complete_plaintext.

(* after a successful key decrypt the status names the FIRST keyring entry whose public-key string equals
   encode_pk sender; the keyring came out of parse_config, so public keys and names are pairwise different and that
   entry is the only one; with no such entry the status carries the encoded key ("unknown key") *)
Theorem C12_sender_named :
  forall (P : prims) (pk_ok sk_ok : text -> bool) (unlock : text -> bytes -> outcome kerr bytes)
         (decode_pk : text -> outcome kerr bytes) (encode_pk : bytes -> text) (utf8_decode : bytes -> option text)
         (w : world) (o : dec_opts),
  is_success (status (cmd_decrypt P pk_ok sk_ok unlock decode_pk encode_pk utf8_decode w o)) = true ->
  exists (j : dec_job) (sender : bytes) (s' : io),
    decrypt_plan pk_ok sk_ok unlock decode_pk utf8_decode w o = inr j /\
    key_decrypt P (dj_r j) (dj_rpk j) (io0 (dec_fed P j)) = (Ok sender, s') /\
    resolve_keyring pk_ok sk_ok utf8_decode w (do_keyring o) = inr (dj_keys j) /\
    status (cmd_decrypt P pk_ok sk_ok unlock decode_pk encode_pk utf8_decode w o) =
      match find (fun e => text_eqb (k_pub e) (encode_pk sender)) (dj_keys j) with
      | Some e => SOkFrom (k_name e)
      | None => SOkUnknownSender (encode_pk sender)
      end /\
    NoDup (map k_pub (dj_keys j)) /\ NoDup (map k_name (dj_keys j)) /\
    (forall e, In e (dj_keys j) -> k_pub e = encode_pk sender -> status (cmd_decrypt P pk_ok sk_ok unlock decode_pk encode_pk utf8_decode w o) = SOkFrom (k_name e)) /\
    ((forall e, In e (dj_keys j) -> k_pub e <> encode_pk sender) ->
     status (cmd_decrypt P pk_ok sk_ok unlock decode_pk encode_pk utf8_decode w o) = SOkUnknownSender (encode_pk sender)).
Proof. exact sender_named. Qed.
Print Assumptions C12_sender_named.

(* input wiring, decrypt: the file argument p holding B, or B on stdin (the -o path, if any, does not denote the input FILE: other_file, whatever the two strings look like): the SAME result record *)
Theorem C12_decrypt_input_wiring :
  forall (P : prims) (pk_ok sk_ok : text -> bool) (unlock : text -> bytes -> outcome kerr bytes)
         (decode_pk : text -> outcome kerr bytes) (encode_pk : bytes -> text) (utf8_decode : bytes -> option text)
         (fsy : fsys) (ep enp : option bytes) (ek : option text) (sin : bytes) (p : text) (B : bytes) (t : text)
         (out k : option text) (e : bool),
  fs_get fsy p = Some B -> other_file fsy out p ->
  cmd_decrypt P pk_ok sk_ok unlock decode_pk encode_pk utf8_decode {| fs := fsy; env_password := ep; env_new_password := enp; env_keyring := ek; stdin := sin |} {| do_infile := Some p; do_to := t; do_outfile := out; do_keyring := k; do_env_pass := e |}
  = cmd_decrypt P pk_ok sk_ok unlock decode_pk encode_pk utf8_decode {| fs := fsy; env_password := ep; env_new_password := enp; env_keyring := ek; stdin := B |} {| do_infile := None; do_to := t; do_outfile := out; do_keyring := k; do_env_pass := e |}.
Proof. exact decrypt_input_wiring. Qed.
Print Assumptions C12_decrypt_input_wiring.

(* input wiring, password decrypt *)
Theorem C12_pass_decrypt_input_wiring :
  forall (P : prims) (fsy : fsys) (ep enp : option bytes) (ek : option text) (sin : bytes) (p : text) (B : bytes)
         (out : option text) (e : bool),
  fs_get fsy p = Some B -> other_file fsy out p ->
  cmd_pass_decrypt P {| fs := fsy; env_password := ep; env_new_password := enp; env_keyring := ek; stdin := sin |} {| po_infile := Some p; po_outfile := out; po_env_pass := e |}
  = cmd_pass_decrypt P {| fs := fsy; env_password := ep; env_new_password := enp; env_keyring := ek; stdin := B |} {| po_infile := None; po_outfile := out; po_env_pass := e |}.
Proof. exact pass_decrypt_input_wiring. Qed.
Print Assumptions C12_pass_decrypt_input_wiring.

(* input wiring, encrypt (same random blocks) *)
Theorem C12_encrypt_input_wiring :
  forall (P : prims) (pk_ok sk_ok : text -> bool) (unlock : text -> bytes -> outcome kerr bytes)
         (decode_pk : text -> outcome kerr bytes) (utf8_decode : bytes -> option text)
         (fsy : fsys) (ep enp : option bytes) (ek : option text) (sin : bytes) (p : text) (B : bytes) (t f : text)
         (out k : option text) (e : bool) (fpk fe : bytes),
  fs_get fsy p = Some B -> other_file fsy out p ->
  cmd_encrypt P pk_ok sk_ok unlock decode_pk utf8_decode {| fs := fsy; env_password := ep; env_new_password := enp; env_keyring := ek; stdin := sin |} {| eo_infile := Some p; eo_to := t; eo_from := f; eo_outfile := out; eo_keyring := k; eo_env_pass := e |} fpk fe
  = cmd_encrypt P pk_ok sk_ok unlock decode_pk utf8_decode {| fs := fsy; env_password := ep; env_new_password := enp; env_keyring := ek; stdin := B |} {| eo_infile := None; eo_to := t; eo_from := f; eo_outfile := out; eo_keyring := k; eo_env_pass := e |} fpk fe.
Proof. exact encrypt_input_wiring. Qed.
Print Assumptions C12_encrypt_input_wiring.

(* input wiring, password encrypt (same salt) *)
Theorem C12_pass_encrypt_input_wiring :
  forall (P : prims) (fsy : fsys) (ep enp : option bytes) (ek : option text) (sin : bytes) (p : text) (B : bytes)
         (out : option text) (e : bool) (salt : bytes),
  fs_get fsy p = Some B -> other_file fsy out p ->
  cmd_pass_encrypt P {| fs := fsy; env_password := ep; env_new_password := enp; env_keyring := ek; stdin := sin |} {| po_infile := Some p; po_outfile := out; po_env_pass := e |} salt
  = cmd_pass_encrypt P {| fs := fsy; env_password := ep; env_new_password := enp; env_keyring := ek; stdin := B |} {| po_infile := None; po_outfile := out; po_env_pass := e |} salt.
Proof. exact pass_encrypt_input_wiring. Qed.
Print Assumptions C12_pass_encrypt_input_wiring.

(* output wiring, decrypt: -o F (F can be created, at canonical path cp; the input, if a path, does not denote cp; prior state of F arbitrary) versus stdout: same status
   and exit code; nothing else changes; as soon as one write/flush call was made — in particular whenever the command
   succeeds — the content of F equals the stdout bytes of the other wiring; with no such call F is left as it was *)
Theorem C12_decrypt_output_wiring :
  forall (P : prims) (pk_ok sk_ok : text -> bool) (unlock : text -> bytes -> outcome kerr bytes)
         (decode_pk : text -> outcome kerr bytes) (encode_pk : bytes -> text) (utf8_decode : bytes -> option text)
         (w : world) (i : option text) (t F : text) (cp : cpath) (k : option text) (e : bool),
  fs_create_target (fs w) F = Some cp -> input_elsewhere (fs w) i cp ->
  status (cmd_decrypt P pk_ok sk_ok unlock decode_pk encode_pk utf8_decode w {| do_infile := i; do_to := t; do_outfile := (Some F); do_keyring := k; do_env_pass := e |}) = status (cmd_decrypt P pk_ok sk_ok unlock decode_pk encode_pk utf8_decode w {| do_infile := i; do_to := t; do_outfile := None; do_keyring := k; do_env_pass := e |}) /\
  exit_code (cmd_decrypt P pk_ok sk_ok unlock decode_pk encode_pk utf8_decode w {| do_infile := i; do_to := t; do_outfile := (Some F); do_keyring := k; do_env_pass := e |}) = exit_code (cmd_decrypt P pk_ok sk_ok unlock decode_pk encode_pk utf8_decode w {| do_infile := i; do_to := t; do_outfile := None; do_keyring := k; do_env_pass := e |}) /\
  stdout (cmd_decrypt P pk_ok sk_ok unlock decode_pk encode_pk utf8_decode w {| do_infile := i; do_to := t; do_outfile := (Some F); do_keyring := k; do_env_pass := e |}) = [] /\ new_fs (cmd_decrypt P pk_ok sk_ok unlock decode_pk encode_pk utf8_decode w {| do_infile := i; do_to := t; do_outfile := None; do_keyring := k; do_env_pass := e |}) = fs w /\
  (forall q, fs_target (fs w) q <> fs_target (fs w) F -> fs_get (new_fs (cmd_decrypt P pk_ok sk_ok unlock decode_pk encode_pk utf8_decode w {| do_infile := i; do_to := t; do_outfile := (Some F); do_keyring := k; do_env_pass := e |})) q = fs_get (fs w) q) /\
  (forall j, decrypt_plan pk_ok sk_ok unlock decode_pk utf8_decode w {| do_infile := i; do_to := t; do_outfile := None; do_keyring := k; do_env_pass := e |} = inr j -> sink_touched (snd (run_dec P j)) = true ->
     fs_get (new_fs (cmd_decrypt P pk_ok sk_ok unlock decode_pk encode_pk utf8_decode w {| do_infile := i; do_to := t; do_outfile := (Some F); do_keyring := k; do_env_pass := e |})) F = Some (stdout (cmd_decrypt P pk_ok sk_ok unlock decode_pk encode_pk utf8_decode w {| do_infile := i; do_to := t; do_outfile := None; do_keyring := k; do_env_pass := e |}))) /\
  (forall j, decrypt_plan pk_ok sk_ok unlock decode_pk utf8_decode w {| do_infile := i; do_to := t; do_outfile := None; do_keyring := k; do_env_pass := e |} = inr j -> sink_touched (snd (run_dec P j)) = false -> new_fs (cmd_decrypt P pk_ok sk_ok unlock decode_pk encode_pk utf8_decode w {| do_infile := i; do_to := t; do_outfile := (Some F); do_keyring := k; do_env_pass := e |}) = fs w) /\
  (is_success (status (cmd_decrypt P pk_ok sk_ok unlock decode_pk encode_pk utf8_decode w {| do_infile := i; do_to := t; do_outfile := None; do_keyring := k; do_env_pass := e |})) = true -> fs_get (new_fs (cmd_decrypt P pk_ok sk_ok unlock decode_pk encode_pk utf8_decode w {| do_infile := i; do_to := t; do_outfile := (Some F); do_keyring := k; do_env_pass := e |})) F = Some (stdout (cmd_decrypt P pk_ok sk_ok unlock decode_pk encode_pk utf8_decode w {| do_infile := i; do_to := t; do_outfile := None; do_keyring := k; do_env_pass := e |}))).
Proof. exact decrypt_output_wiring. Qed.
Print Assumptions C12_decrypt_output_wiring.

(* output wiring, password decrypt *)
Theorem C12_pass_decrypt_output_wiring :
  forall (P : prims) (w : world) (i : option text) (F : text) (cp : cpath) (e : bool),
  fs_create_target (fs w) F = Some cp -> input_elsewhere (fs w) i cp ->
  status (cmd_pass_decrypt P w {| po_infile := i; po_outfile := (Some F); po_env_pass := e |}) = status (cmd_pass_decrypt P w {| po_infile := i; po_outfile := None; po_env_pass := e |}) /\
  exit_code (cmd_pass_decrypt P w {| po_infile := i; po_outfile := (Some F); po_env_pass := e |}) = exit_code (cmd_pass_decrypt P w {| po_infile := i; po_outfile := None; po_env_pass := e |}) /\
  stdout (cmd_pass_decrypt P w {| po_infile := i; po_outfile := (Some F); po_env_pass := e |}) = [] /\ new_fs (cmd_pass_decrypt P w {| po_infile := i; po_outfile := None; po_env_pass := e |}) = fs w /\
  (forall q, fs_target (fs w) q <> fs_target (fs w) F -> fs_get (new_fs (cmd_pass_decrypt P w {| po_infile := i; po_outfile := (Some F); po_env_pass := e |})) q = fs_get (fs w) q) /\
  (forall j, pass_decrypt_plan w {| po_infile := i; po_outfile := None; po_env_pass := e |} = inr j -> sink_touched (snd (run_pdec P j)) = true ->
     fs_get (new_fs (cmd_pass_decrypt P w {| po_infile := i; po_outfile := (Some F); po_env_pass := e |})) F = Some (stdout (cmd_pass_decrypt P w {| po_infile := i; po_outfile := None; po_env_pass := e |}))) /\
  (forall j, pass_decrypt_plan w {| po_infile := i; po_outfile := None; po_env_pass := e |} = inr j -> sink_touched (snd (run_pdec P j)) = false -> new_fs (cmd_pass_decrypt P w {| po_infile := i; po_outfile := (Some F); po_env_pass := e |}) = fs w) /\
  (is_success (status (cmd_pass_decrypt P w {| po_infile := i; po_outfile := None; po_env_pass := e |})) = true -> fs_get (new_fs (cmd_pass_decrypt P w {| po_infile := i; po_outfile := (Some F); po_env_pass := e |})) F = Some (stdout (cmd_pass_decrypt P w {| po_infile := i; po_outfile := None; po_env_pass := e |}))).
Proof. exact pass_decrypt_output_wiring. Qed.
Print Assumptions C12_pass_decrypt_output_wiring.

(* output wiring, encrypt (same random blocks) *)
Theorem C12_encrypt_output_wiring :
  forall (P : prims) (pk_ok sk_ok : text -> bool) (unlock : text -> bytes -> outcome kerr bytes)
         (decode_pk : text -> outcome kerr bytes) (utf8_decode : bytes -> option text)
         (w : world) (i : option text) (t f F : text) (cp : cpath) (k : option text) (e : bool) (fpk fe : bytes),
  fs_create_target (fs w) F = Some cp -> input_elsewhere (fs w) i cp ->
  status (cmd_encrypt P pk_ok sk_ok unlock decode_pk utf8_decode w {| eo_infile := i; eo_to := t; eo_from := f; eo_outfile := (Some F); eo_keyring := k; eo_env_pass := e |} fpk fe) = status (cmd_encrypt P pk_ok sk_ok unlock decode_pk utf8_decode w {| eo_infile := i; eo_to := t; eo_from := f; eo_outfile := None; eo_keyring := k; eo_env_pass := e |} fpk fe) /\
  exit_code (cmd_encrypt P pk_ok sk_ok unlock decode_pk utf8_decode w {| eo_infile := i; eo_to := t; eo_from := f; eo_outfile := (Some F); eo_keyring := k; eo_env_pass := e |} fpk fe) = exit_code (cmd_encrypt P pk_ok sk_ok unlock decode_pk utf8_decode w {| eo_infile := i; eo_to := t; eo_from := f; eo_outfile := None; eo_keyring := k; eo_env_pass := e |} fpk fe) /\
  stdout (cmd_encrypt P pk_ok sk_ok unlock decode_pk utf8_decode w {| eo_infile := i; eo_to := t; eo_from := f; eo_outfile := (Some F); eo_keyring := k; eo_env_pass := e |} fpk fe) = [] /\ new_fs (cmd_encrypt P pk_ok sk_ok unlock decode_pk utf8_decode w {| eo_infile := i; eo_to := t; eo_from := f; eo_outfile := None; eo_keyring := k; eo_env_pass := e |} fpk fe) = fs w /\
  (forall q, fs_target (fs w) q <> fs_target (fs w) F -> fs_get (new_fs (cmd_encrypt P pk_ok sk_ok unlock decode_pk utf8_decode w {| eo_infile := i; eo_to := t; eo_from := f; eo_outfile := (Some F); eo_keyring := k; eo_env_pass := e |} fpk fe)) q = fs_get (fs w) q) /\
  (forall j, encrypt_plan pk_ok sk_ok unlock decode_pk utf8_decode w {| eo_infile := i; eo_to := t; eo_from := f; eo_outfile := None; eo_keyring := k; eo_env_pass := e |} = inr j -> sink_touched (snd (run_enc P fpk fe j)) = true ->
     fs_get (new_fs (cmd_encrypt P pk_ok sk_ok unlock decode_pk utf8_decode w {| eo_infile := i; eo_to := t; eo_from := f; eo_outfile := (Some F); eo_keyring := k; eo_env_pass := e |} fpk fe)) F = Some (stdout (cmd_encrypt P pk_ok sk_ok unlock decode_pk utf8_decode w {| eo_infile := i; eo_to := t; eo_from := f; eo_outfile := None; eo_keyring := k; eo_env_pass := e |} fpk fe))) /\
  (forall j, encrypt_plan pk_ok sk_ok unlock decode_pk utf8_decode w {| eo_infile := i; eo_to := t; eo_from := f; eo_outfile := None; eo_keyring := k; eo_env_pass := e |} = inr j -> sink_touched (snd (run_enc P fpk fe j)) = false -> new_fs (cmd_encrypt P pk_ok sk_ok unlock decode_pk utf8_decode w {| eo_infile := i; eo_to := t; eo_from := f; eo_outfile := (Some F); eo_keyring := k; eo_env_pass := e |} fpk fe) = fs w) /\
  (is_success (status (cmd_encrypt P pk_ok sk_ok unlock decode_pk utf8_decode w {| eo_infile := i; eo_to := t; eo_from := f; eo_outfile := None; eo_keyring := k; eo_env_pass := e |} fpk fe)) = true -> fs_get (new_fs (cmd_encrypt P pk_ok sk_ok unlock decode_pk utf8_decode w {| eo_infile := i; eo_to := t; eo_from := f; eo_outfile := (Some F); eo_keyring := k; eo_env_pass := e |} fpk fe)) F = Some (stdout (cmd_encrypt P pk_ok sk_ok unlock decode_pk utf8_decode w {| eo_infile := i; eo_to := t; eo_from := f; eo_outfile := None; eo_keyring := k; eo_env_pass := e |} fpk fe))).
Proof. exact encrypt_output_wiring. Qed.
Print Assumptions C12_encrypt_output_wiring.

(* output wiring, password encrypt (same salt) *)
Theorem C12_pass_encrypt_output_wiring :
  forall (P : prims) (w : world) (i : option text) (F : text) (cp : cpath) (e : bool) (salt : bytes),
  fs_create_target (fs w) F = Some cp -> input_elsewhere (fs w) i cp ->
  status (cmd_pass_encrypt P w {| po_infile := i; po_outfile := (Some F); po_env_pass := e |} salt) = status (cmd_pass_encrypt P w {| po_infile := i; po_outfile := None; po_env_pass := e |} salt) /\
  exit_code (cmd_pass_encrypt P w {| po_infile := i; po_outfile := (Some F); po_env_pass := e |} salt) = exit_code (cmd_pass_encrypt P w {| po_infile := i; po_outfile := None; po_env_pass := e |} salt) /\
  stdout (cmd_pass_encrypt P w {| po_infile := i; po_outfile := (Some F); po_env_pass := e |} salt) = [] /\ new_fs (cmd_pass_encrypt P w {| po_infile := i; po_outfile := None; po_env_pass := e |} salt) = fs w /\
  (forall q, fs_target (fs w) q <> fs_target (fs w) F -> fs_get (new_fs (cmd_pass_encrypt P w {| po_infile := i; po_outfile := (Some F); po_env_pass := e |} salt)) q = fs_get (fs w) q) /\
  (forall j, pass_encrypt_plan w {| po_infile := i; po_outfile := None; po_env_pass := e |} salt = inr j -> sink_touched (snd (run_penc P salt j)) = true ->
     fs_get (new_fs (cmd_pass_encrypt P w {| po_infile := i; po_outfile := (Some F); po_env_pass := e |} salt)) F = Some (stdout (cmd_pass_encrypt P w {| po_infile := i; po_outfile := None; po_env_pass := e |} salt))) /\
  (forall j, pass_encrypt_plan w {| po_infile := i; po_outfile := None; po_env_pass := e |} salt = inr j -> sink_touched (snd (run_penc P salt j)) = false -> new_fs (cmd_pass_encrypt P w {| po_infile := i; po_outfile := (Some F); po_env_pass := e |} salt) = fs w) /\
  (is_success (status (cmd_pass_encrypt P w {| po_infile := i; po_outfile := None; po_env_pass := e |} salt)) = true -> fs_get (new_fs (cmd_pass_encrypt P w {| po_infile := i; po_outfile := (Some F); po_env_pass := e |} salt)) F = Some (stdout (cmd_pass_encrypt P w {| po_infile := i; po_outfile := None; po_env_pass := e |} salt))).
Proof. exact pass_encrypt_output_wiring. Qed.
Print Assumptions C12_pass_encrypt_output_wiring.

(* keyring wiring, decrypt: -k K, or KESTREL_KEYRING = K without -k (whatever the variable held when -k is given): the SAME result record *)
Theorem C12_decrypt_keyring_wiring :
  forall (P : prims) (pk_ok sk_ok : text -> bool) (unlock : text -> bytes -> outcome kerr bytes)
         (decode_pk : text -> outcome kerr bytes) (encode_pk : bytes -> text) (utf8_decode : bytes -> option text)
         (fsy : fsys) (ep enp : option bytes) (ek : option text) (sin : bytes) (i : option text) (t : text)
         (out : option text) (K : text) (e : bool),
  cmd_decrypt P pk_ok sk_ok unlock decode_pk encode_pk utf8_decode {| fs := fsy; env_password := ep; env_new_password := enp; env_keyring := ek; stdin := sin |} {| do_infile := i; do_to := t; do_outfile := out; do_keyring := (Some K); do_env_pass := e |}
  = cmd_decrypt P pk_ok sk_ok unlock decode_pk encode_pk utf8_decode {| fs := fsy; env_password := ep; env_new_password := enp; env_keyring := (Some K); stdin := sin |} {| do_infile := i; do_to := t; do_outfile := out; do_keyring := None; do_env_pass := e |}.
Proof. exact decrypt_keyring_wiring. Qed.
Print Assumptions C12_decrypt_keyring_wiring.

(* keyring wiring, encrypt *)
Theorem C12_encrypt_keyring_wiring :
  forall (P : prims) (pk_ok sk_ok : text -> bool) (unlock : text -> bytes -> outcome kerr bytes)
         (decode_pk : text -> outcome kerr bytes) (utf8_decode : bytes -> option text)
         (fsy : fsys) (ep enp : option bytes) (ek : option text) (sin : bytes) (i : option text) (t f : text)
         (out : option text) (K : text) (e : bool) (fpk fe : bytes),
  cmd_encrypt P pk_ok sk_ok unlock decode_pk utf8_decode {| fs := fsy; env_password := ep; env_new_password := enp; env_keyring := ek; stdin := sin |} {| eo_infile := i; eo_to := t; eo_from := f; eo_outfile := out; eo_keyring := (Some K); eo_env_pass := e |} fpk fe
  = cmd_encrypt P pk_ok sk_ok unlock decode_pk utf8_decode {| fs := fsy; env_password := ep; env_new_password := enp; env_keyring := (Some K); stdin := sin |} {| eo_infile := i; eo_to := t; eo_from := f; eo_outfile := out; eo_keyring := None; eo_env_pass := e |} fpk fe.
Proof. exact encrypt_keyring_wiring. Qed.
Print Assumptions C12_encrypt_keyring_wiring.

(* the password commands do not read the keyring at all *)
Theorem C12_pass_commands_ignore_keyring :
  forall (P : prims) (fsy : fsys) (ep enp : option bytes) (ek ek' : option text) (sin : bytes) (o : pw_opts) (salt : bytes),
  cmd_pass_decrypt P {| fs := fsy; env_password := ep; env_new_password := enp; env_keyring := ek; stdin := sin |} o
  = cmd_pass_decrypt P {| fs := fsy; env_password := ep; env_new_password := enp; env_keyring := ek'; stdin := sin |} o /\
  cmd_pass_encrypt P {| fs := fsy; env_password := ep; env_new_password := enp; env_keyring := ek; stdin := sin |} o salt
  = cmd_pass_encrypt P {| fs := fsy; env_password := ep; env_new_password := enp; env_keyring := ek'; stdin := sin |} o salt.
Proof. exact pass_commands_ignore_keyring. Qed.
Print Assumptions C12_pass_commands_ignore_keyring.

(* command aliases parse to the same command: enc/encrypt, dec/decrypt, pass/password, key gen/generate,
   password enc/encrypt, password dec/decrypt, -v/--version (for EVERY remaining argument list) *)
Theorem C12_aliases :
  forall (prog : text) (rest : list text),
  cli_parse (prog :: s_enc :: rest) = cli_parse (prog :: s_encrypt :: rest) /\
  cli_parse (prog :: s_dec :: rest) = cli_parse (prog :: s_decrypt :: rest) /\
  cli_parse (prog :: s_pass :: rest) = cli_parse (prog :: s_password :: rest) /\
  cli_parse (prog :: s_key :: s_gen :: rest) = cli_parse (prog :: s_key :: s_generate :: rest) /\
  cli_parse (prog :: s_password :: s_enc :: rest) = cli_parse (prog :: s_password :: s_encrypt :: rest) /\
  cli_parse (prog :: s_password :: s_dec :: rest) = cli_parse (prog :: s_password :: s_decrypt :: rest) /\
  cli_parse (prog :: s_version_short :: rest) = cli_parse (prog :: s_version_long :: rest).
Proof. exact all_aliases. Qed.
Print Assumptions C12_aliases.

(* hence the whole program (exit code, file system, stdout, status) is the same under every alias *)
Theorem C12_main_aliases :
  forall (P : prims) (pk_ok sk_ok : text -> bool) (unlock : text -> bytes -> outcome kerr bytes)
         (lock : bytes -> bytes -> bytes -> text) (decode_pk : text -> outcome kerr bytes) (encode_pk : bytes -> text)
         (sk_string_ok : text -> bool) (utf8_decode : bytes -> option text) (utf8_encode : text -> bytes) (help_text version_text : bytes)
         (w : world) (prog : text) (rest : list text) (r1 r2 : bytes),
  cli_main P pk_ok sk_ok unlock lock decode_pk encode_pk sk_string_ok utf8_decode utf8_encode help_text version_text w (prog :: s_enc :: rest) r1 r2
    = cli_main P pk_ok sk_ok unlock lock decode_pk encode_pk sk_string_ok utf8_decode utf8_encode help_text version_text w (prog :: s_encrypt :: rest) r1 r2 /\
  cli_main P pk_ok sk_ok unlock lock decode_pk encode_pk sk_string_ok utf8_decode utf8_encode help_text version_text w (prog :: s_dec :: rest) r1 r2
    = cli_main P pk_ok sk_ok unlock lock decode_pk encode_pk sk_string_ok utf8_decode utf8_encode help_text version_text w (prog :: s_decrypt :: rest) r1 r2 /\
  cli_main P pk_ok sk_ok unlock lock decode_pk encode_pk sk_string_ok utf8_decode utf8_encode help_text version_text w (prog :: s_pass :: rest) r1 r2
    = cli_main P pk_ok sk_ok unlock lock decode_pk encode_pk sk_string_ok utf8_decode utf8_encode help_text version_text w (prog :: s_password :: rest) r1 r2 /\
  cli_main P pk_ok sk_ok unlock lock decode_pk encode_pk sk_string_ok utf8_decode utf8_encode help_text version_text w (prog :: s_key :: s_gen :: rest) r1 r2
    = cli_main P pk_ok sk_ok unlock lock decode_pk encode_pk sk_string_ok utf8_decode utf8_encode help_text version_text w (prog :: s_key :: s_generate :: rest) r1 r2 /\
  cli_main P pk_ok sk_ok unlock lock decode_pk encode_pk sk_string_ok utf8_decode utf8_encode help_text version_text w (prog :: s_password :: s_enc :: rest) r1 r2
    = cli_main P pk_ok sk_ok unlock lock decode_pk encode_pk sk_string_ok utf8_decode utf8_encode help_text version_text w (prog :: s_password :: s_encrypt :: rest) r1 r2 /\
  cli_main P pk_ok sk_ok unlock lock decode_pk encode_pk sk_string_ok utf8_decode utf8_encode help_text version_text w (prog :: s_password :: s_dec :: rest) r1 r2
    = cli_main P pk_ok sk_ok unlock lock decode_pk encode_pk sk_string_ok utf8_decode utf8_encode help_text version_text w (prog :: s_password :: s_decrypt :: rest) r1 r2 /\
  cli_main P pk_ok sk_ok unlock lock decode_pk encode_pk sk_string_ok utf8_decode utf8_encode help_text version_text w (prog :: s_version_short :: rest) r1 r2
    = cli_main P pk_ok sk_ok unlock lock decode_pk encode_pk sk_string_ok utf8_decode utf8_encode help_text version_text w (prog :: s_version_long :: rest) r1 r2.
Proof. intros; apply cli_main_aliases. Qed.
Print Assumptions C12_main_aliases.

(* option spelling and order, `decrypt`: an invocation is a list of ITEMS (Model/CliParseSpec.v: -t/--to, -o/--output,
   -k/--keyring each with flags long-or-short name, one-or-two dashes, separate-or-'=' value; --env-pass with one or two
   dashes; a file argument that does not look like an option); drender gives the argument vector, dmean forgets the
   spelling.  Same items up to spelling, in ANY order => same parse result (same options record or same usage error) *)
Theorem C12_parse_decrypt_spelling :
  forall its1 its2 : list ditem,
  Forall ditem_ok its1 -> Forall ditem_ok its2 ->
  Permutation (map dmean its1) (map dmean its2) ->
  parse_decrypt (drender its1) = parse_decrypt (drender its2).
Proof. exact parse_decrypt_spelling. Qed.
Print Assumptions C12_parse_decrypt_spelling.

(* the same for `encrypt` (-t, -f, -o, -k, --env-pass, file) *)
Theorem C12_parse_encrypt_spelling :
  forall its1 its2 : list eitem,
  Forall eitem_ok its1 -> Forall eitem_ok its2 ->
  Permutation (map emean its1) (map emean its2) ->
  parse_encrypt (erender its1) = parse_encrypt (erender its2).
Proof. exact parse_encrypt_spelling. Qed.
Print Assumptions C12_parse_encrypt_spelling.

(* the same for `password encrypt` / `password decrypt` (-o, --env-pass, file) *)
Theorem C12_parse_pass_spelling :
  forall its1 its2 : list pitem,
  Forall pitem_ok its1 -> Forall pitem_ok its2 ->
  Permutation (map pmean its1) (map pmean its2) ->
  parse_pass_common (prender its1) = parse_pass_common (prender its2).
Proof. exact parse_pass_spelling. Qed.
Print Assumptions C12_parse_pass_spelling.

(* the same for `key generate` (-o, --env-pass) *)
Theorem C12_parse_key_gen_spelling :
  forall its1 its2 : list pitem,
  Forall pitem_ok its1 -> Forall pitem_ok its2 ->
  Permutation (map pmean its1) (map pmean its2) ->
  parse_key (s_generate :: prender its1) = parse_key (s_generate :: prender its2).
Proof. exact parse_key_gen_spelling. Qed.
Print Assumptions C12_parse_key_gen_spelling.

(* the literal form for decrypt: -t, -o, -k each in any of its 8 spellings, --env-pass with one or two dashes, a file,
   in every order, give this options record *)
Theorem C12_parse_decrypt_all_forms :
  forall (l1 d1 e1 l2 d2 e2 l3 d3 e3 d4 : bool) (t o k f : text) (its : list ditem),
  is_arg f = false ->
  Permutation its [DTo l1 d1 e1 t; DOut l2 d2 e2 o; DKeyring l3 d3 e3 k; DEnvPass d4; DFile f] ->
  parse_decrypt (drender its) = Ok (mk_decrypt_opts (Some f) t (Some o) (Some k) true).
Proof. exact parse_decrypt_all_forms. Qed.
Print Assumptions C12_parse_decrypt_all_forms.

(* whole argument vectors of `kestrel decrypt` (no -h/--help among the arguments): same parse *)
Theorem C12_cli_decrypt_spelling :
  forall (prog : text) (its1 its2 : list ditem),
  Forall ditem_ok its1 -> Forall ditem_ok its2 ->
  Permutation (map dmean its1) (map dmean its2) ->
  (forall h, h = s_help_long \/ h = s_help_short ->
             ~ In h (prog :: drender its1) /\ ~ In h (prog :: drender its2)) ->
  cli_parse (prog :: s_decrypt :: drender its1) = cli_parse (prog :: s_decrypt :: drender its2).
Proof. exact cli_decrypt_spelling. Qed.
Print Assumptions C12_cli_decrypt_spelling.

(* hence the same result of the whole program *)
Theorem C12_main_decrypt_spelling :
  forall (P : prims) (pk_ok sk_ok : text -> bool) (unlock : text -> bytes -> outcome kerr bytes)
         (lock : bytes -> bytes -> bytes -> text) (decode_pk : text -> outcome kerr bytes) (encode_pk : bytes -> text)
         (sk_string_ok : text -> bool) (utf8_decode : bytes -> option text) (utf8_encode : text -> bytes) (help_text version_text : bytes)
         (w : world) (prog : text) (its1 its2 : list ditem) (r1 r2 : bytes),
  Forall ditem_ok its1 -> Forall ditem_ok its2 ->
  Permutation (map dmean its1) (map dmean its2) ->
  (forall h, h = s_help_long \/ h = s_help_short ->
             ~ In h (prog :: drender its1) /\ ~ In h (prog :: drender its2)) ->
  cli_main P pk_ok sk_ok unlock lock decode_pk encode_pk sk_string_ok utf8_decode utf8_encode help_text version_text w (prog :: s_decrypt :: drender its1) r1 r2
  = cli_main P pk_ok sk_ok unlock lock decode_pk encode_pk sk_string_ok utf8_decode utf8_encode help_text version_text w (prog :: s_decrypt :: drender its2) r1 r2.
Proof. intros until r2; apply cli_main_decrypt_spelling. Qed.
Print Assumptions C12_main_decrypt_spelling.

(* the glue: a parsed decrypt command runs Cli.cmd_decrypt on the converted options record (dec_opts_of copies the five fields) *)
Theorem C12_main_runs_decrypt :
  forall (P : prims) (pk_ok sk_ok : text -> bool) (unlock : text -> bytes -> outcome kerr bytes)
         (lock : bytes -> bytes -> bytes -> text) (decode_pk : text -> outcome kerr bytes) (encode_pk : bytes -> text)
         (sk_string_ok : text -> bool) (utf8_decode : bytes -> option text) (utf8_encode : text -> bytes) (help_text version_text : bytes)
         (w : world) (argv : list text) (r1 r2 : bytes) (d : decrypt_opts),
  cli_parse argv = Ok (CDecrypt d) ->
  cli_main P pk_ok sk_ok unlock lock decode_pk encode_pk sk_string_ok utf8_decode utf8_encode help_text version_text w argv r1 r2
  = of_cmd (cmd_decrypt P pk_ok sk_ok unlock decode_pk encode_pk utf8_decode w (dec_opts_of d)).
Proof. intros until d; apply cli_main_decrypt. Qed.
Print Assumptions C12_main_runs_decrypt.

(* command words, option tables, messages and the exit status of the CURRENT main.rs / commands.rs (tools/extract.py),
   tied to the model's own constants and option builders *)
Definition x_opt_add (o : outcome usage_msg options) (e : N * list N * list N) : outcome usage_msg options :=
  obind o (fun o' => let '(k, s, l) := e in
                     if k =? 0 then reqopt s l o' else if k =? 1 then optopt s l o' else optflag s l o').
(* an Options object: long_only(true), then the reqopt (0) / optopt (1) / optflag (2) calls of the table in order *)
Definition x_opts (t : list (N * list N * list N)) : outcome usage_msg options :=
  fold_left x_opt_add t (Ok (set_long_only true options_new)).
(* a Rust format string with "{}" placeholders filled from a list of texts *)
Fixpoint x_fmt (f : text) (args : list text) : text :=
  match f with
  | [] => []
  | c :: r =>
    match r with
    | d :: r' =>
      if ((c =? 123) && (d =? 125))%bool
      then match args with a :: rest => a ++ x_fmt r' rest | [] => x_fmt r' [] end
      else c :: x_fmt r args
    | [] => [c]
    end
  end.

Theorem C12_cli_constants :
  (* exit status: 0 for a success, the extracted process::exit value otherwise (101 = Rust's panic status, 102 = the
     model's fuel artefact) *)
  (forall st : cmd_status,
     code_of st = if is_success st then 0 else match st with SPanic _ => 101 | SOutOfFuel => 102 | _ => x_cli_exit_err end) /\
  x_cli_exit_err = 1 /\
  (* the words of the three `match` dispatches, in arm order *)
  x_cli_cmd_words = [[s_help_short; s_help_long]; [s_version_short; s_version_long]; [s_enc; s_encrypt]; [s_dec; s_decrypt];
                     [s_key]; [s_pass; s_password]] /\
  x_cli_cmd_has_default_arm = 1 /\
  x_cli_key_words = [[s_gen; s_generate]; [s_change_pass]; [s_extract_pub]] /\
  x_cli_pass_words = [[s_encrypt; s_enc]; [s_decrypt; s_dec]] /\
  x_cli_help_flags = [s_help_long; s_help_short] /\ x_cli_help_argc_max = 1 /\
  x_cli_dispatch_slice_idx = [2; 2; 2; 2] /\ x_cli_key_slice_idx = [1; 1; 1] /\ x_cli_pass_slice_idx = [1; 1] /\
  (* the option tables of the model ARE the extracted ones *)
  encrypt_options = x_opts x_cli_encrypt_opts /\ decrypt_options = x_opts x_cli_decrypt_opts /\
  gen_options = x_opts x_cli_gen_opts /\ envpass_options = x_opts x_cli_change_opts /\
  envpass_options = x_opts x_cli_extract_opts /\ pass_options = x_opts x_cli_pass_encrypt_opts /\
  pass_options = x_opts x_cli_pass_decrypt_opts /\ x_cli_long_only_all = 1 /\
  (* messages *)
  x_cli_usage_msgs = [m_invalid_command; m_invalid_usage; m_provide_key] /\ x_cli_usage_hint = m_more_info /\
  (forall m : usage_msg, usage_error_text m = x_fmt x_cli_usage_fmt [usage_msg_to_string m; x_cli_usage_hint]) /\
  x_cli_from_hint_opts = [s_f; s_from] /\ x_cli_from_hint_fmt = 123 :: 125 :: m_from_hint /\
  (* the CLI never injects ephemeral / payload keys; the password-mode salt it draws *)
  x_cli_key_encrypt_injects_none = 1 /\ x_cli_pass_salt_draw = x_enc_salt_len /\ x_cli_pass_salt_len = x_enc_salt_len /\
  (* getopts 0.2.21 is what Model/Getopts.v transcribes *)
  x_dep_getopts_version = [0; 2; 21].
Proof.
  repeat split; intros; reflexivity.
Qed.
Print Assumptions C12_cli_constants.

(* ====================================================================================== *)
(* exit status over the tree: output paths that cannot be created, directory inputs        *)
(* ====================================================================================== *)

(* the -o path cannot be created (fs_create_target = None; Props/C13.v::C13_create_fails_iff says when): every writing
   command leaves the file system as it was, prints nothing, has a failure status and an exit code other than 0 *)
Theorem C12_bad_output_never_exits_zero :
  forall (P : prims) (pk_ok sk_ok : text -> bool) (unlock : text -> bytes -> outcome kerr bytes)
         (lock : bytes -> bytes -> bytes -> text) (decode_pk : text -> outcome kerr bytes) (encode_pk : bytes -> text)
         (utf8_decode : bytes -> option text) (utf8_encode : text -> bytes),
  (forall w o fpk fe F, eo_outfile o = Some F -> fs_create_target (fs w) F = None ->
     failed_clean w (cmd_encrypt P pk_ok sk_ok unlock decode_pk utf8_decode w o fpk fe)) /\
  (forall w o F, do_outfile o = Some F -> fs_create_target (fs w) F = None ->
     failed_clean w (cmd_decrypt P pk_ok sk_ok unlock decode_pk encode_pk utf8_decode w o)) /\
  (forall w o salt F, po_outfile o = Some F -> fs_create_target (fs w) F = None ->
     failed_clean w (cmd_pass_encrypt P w o salt)) /\
  (forall w o F, po_outfile o = Some F -> fs_create_target (fs w) F = None -> failed_clean w (cmd_pass_decrypt P w o)) /\
  (forall w o sk salt F, go_outfile o = Some F -> fs_create_target (fs w) F = None ->
     failed_clean w (cmd_gen_key P lock encode_pk utf8_decode utf8_encode w o sk salt)).
Proof. exact bad_output_leaves_fs. Qed.
Print Assumptions C12_bad_output_never_exits_zero.

(* the input path names a directory: no streaming command exits 0 *)
Theorem C12_dir_input_never_exits_zero :
  forall (P : prims) (pk_ok sk_ok : text -> bool) (unlock : text -> bytes -> outcome kerr bytes)
         (lock : bytes -> bytes -> bytes -> text) (decode_pk : text -> outcome kerr bytes) (encode_pk : bytes -> text)
         (utf8_decode : bytes -> option text) (utf8_encode : text -> bytes),
  (forall w o fpk fe p, eo_infile o = Some p -> is_dir (fs w) p ->
     exit_code (cmd_encrypt P pk_ok sk_ok unlock decode_pk utf8_decode w o fpk fe) <> 0) /\
  (forall w o p, do_infile o = Some p -> is_dir (fs w) p ->
     exit_code (cmd_decrypt P pk_ok sk_ok unlock decode_pk encode_pk utf8_decode w o) <> 0) /\
  (forall w o salt p, po_infile o = Some p -> is_dir (fs w) p -> exit_code (cmd_pass_encrypt P w o salt) <> 0) /\
  (forall w o p, po_infile o = Some p -> is_dir (fs w) p -> exit_code (cmd_pass_decrypt P w o) <> 0).
Proof. exact dir_input_never_exits_zero. Qed.
Print Assumptions C12_dir_input_never_exits_zero.

(* exit 0 of `encrypt`: the plan succeeded, the input was a regular file or stdin, the sink could be created, the library
   run returned Ok, and what it wrote is exactly what the -o file (or stdout) holds *)
Theorem C12_encrypt_success_delivers :
  forall (P : prims) (pk_ok sk_ok : text -> bool) (unlock : text -> bytes -> outcome kerr bytes)
         (decode_pk : text -> outcome kerr bytes) (utf8_decode : bytes -> option text)
         (w : world) (o : enc_opts) (fpk fe : bytes),
  is_success (status (cmd_encrypt P pk_ok sk_ok unlock decode_pk utf8_decode w o fpk fe)) = true ->
  exists (j : enc_job) (s' : io), encrypt_plan pk_ok sk_ok unlock decode_pk utf8_decode w o = inr j /\
    run_enc P fpk fe j = (Ok tt, s') /\ ej_dir j = false /\ ej_bad j = false /\
    match eo_outfile o with
    | Some F => fs_get (new_fs (cmd_encrypt P pk_ok sk_ok unlock decode_pk utf8_decode w o fpk fe)) F = Some (w_out (wtr s')) /\
                stdout (cmd_encrypt P pk_ok sk_ok unlock decode_pk utf8_decode w o fpk fe) = []
    | None => stdout (cmd_encrypt P pk_ok sk_ok unlock decode_pk utf8_decode w o fpk fe) = w_out (wtr s') /\
              new_fs (cmd_encrypt P pk_ok sk_ok unlock decode_pk utf8_decode w o fpk fe) = fs w
    end.
Proof. exact encrypt_success_delivers. Qed.
Print Assumptions C12_encrypt_success_delivers.

Theorem C12_pass_encrypt_success_delivers :
  forall (P : prims) (w : world) (o : pw_opts) (salt : bytes),
  is_success (status (cmd_pass_encrypt P w o salt)) = true ->
  exists (j : pw_job) (s' : io), pass_encrypt_plan w o salt = inr j /\
    run_penc P salt j = (Ok tt, s') /\ pj_dir j = false /\ pj_bad j = false /\
    match po_outfile o with
    | Some F => fs_get (new_fs (cmd_pass_encrypt P w o salt)) F = Some (w_out (wtr s')) /\ stdout (cmd_pass_encrypt P w o salt) = []
    | None => stdout (cmd_pass_encrypt P w o salt) = w_out (wtr s') /\ new_fs (cmd_pass_encrypt P w o salt) = fs w
    end.
Proof. exact pass_encrypt_success_delivers. Qed.
Print Assumptions C12_pass_encrypt_success_delivers.
