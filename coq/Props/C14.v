(* Props/C14.v — generating a key into an existing keyring keeps every existing key.

   Model: Model/Cli.v::cmd_gen_key is the REPAIRED commands.rs::gen_key (an existing file is opened for append; the
   pre-repair code sent "\n" ++ key through the truncating OnDemandFile: Cli.gen_key_legacy, refuted below).
   A HISTORY is a list of inputs (stdin line = key name, KESTREL_PASSWORD, --env-pass flag, the two 32-byte random
   blocks: private key, salt) for successive `key generate -o F` runs; gen_history threads the file system through
   the runs and is Some (final fs, key texts written) iff every run succeeded.  "For every initial state of F
   (absent, empty, any bytes)" is the quantification over the initial file system l.

   What is proved:
     - one run: old content ++ "\n" ++ key text (or the key text alone when F was absent); fs_get sees a regular file
       THROUGH a path string of the tree world (Model/Cli.v: directories, ".", "..", absolute and relative spellings), so
       "F was absent" is "no regular file is seen through F"; no file changes that is not the one F denotes (every path
       string q with another resolution target shows the same bytes), no path string changes its meaning, no node other
       than F's changes; a run whose -o path cannot be created fails and changes nothing (C13_gen_key_bad_output);
     - any history: every earlier content of F is a byte PREFIX of every later content; exact content of F;
     - the file reads back (`-k F`, the model of Keyring::parse_config) as the old entries followed by the generated
       ones — first with abstract validators and the premise that the entries are well formed, then
     - COMBINED with the real keyring code (Model/Keyring.v: lock_private_key, encode_public_key, the validators
       EncodedPk/EncodedSk::try_from = pk_string_ok / sk_string_ok): every key of the history is accepted by the
       validators, UNLOCKS with the password it was generated with to the private key drawn, and its public key
       decodes to the matching X25519 key; and `-k F` reads back ks0 ++ the new keys.
   Premises that remain (stated in the theorems): the UTF-8 codec is abstract with two laws in the first group of theorems; the "_concrete" theorems at the end instantiate it with the executable strict codec of Model/Utf8.v (encoding is a monoid
   morphism, decoding inverts encoding); random blocks are byte strings (bytes_ok); generated names contain no
   newline and names / public keys are pairwise distinct (the property's "distinct names"; distinct public keys =
   distinct private keys drawn); prims_bytes_ok (primitives return bytes; proved for the RFC instance:
   KeyringFacts.rfc_prims_bytes_ok).  Not covered: a terminal (prompted passwords), file-system errors other than a path that cannot be created (permissions, full disk), links. *)
From Kestrel Require Import Bytes Outcome IO Prims.
From Kestrel.Spec Require Import Base64.
From Kestrel.Model Require Import KeyringText Cli CliStubs CliGlue.
From Kestrel.Model Require Keyring.
From Kestrel.Proofs Require Import KeyringRefine KeyringFacts CliFacts Combine2Gen.
Local Open Scope N_scope.

(* one successful `key generate -o F` *)
Theorem C14_gen_preserves_prefix :
  forall (P : prims) (lock : bytes -> bytes -> bytes -> text) (encode_pk : bytes -> text)
         (utf8_decode : bytes -> option text) (utf8_encode : text -> bytes)
         (w : world) (o : gen_opts) (sk salt : bytes) (F : text),
  go_outfile o = Some F ->
  is_success (status (cmd_gen_key P lock encode_pk utf8_decode utf8_encode w o sk salt)) = true ->
  exists key_text : text,
    gen_plan P lock encode_pk utf8_decode w o sk salt = inr key_text /\
    fs_get (new_fs (cmd_gen_key P lock encode_pk utf8_decode utf8_encode w o sk salt)) F =
      Some match fs_get (fs w) F with
           | Some c0 => c0 ++ key_bytes_nl utf8_encode key_text
           | None => key_bytes utf8_encode key_text
           end /\
    (forall q, fs_target (fs w) q <> fs_target (fs w) F ->
               fs_get (new_fs (cmd_gen_key P lock encode_pk utf8_decode utf8_encode w o sk salt)) q = fs_get (fs w) q) /\
    stdout (cmd_gen_key P lock encode_pk utf8_decode utf8_encode w o sk salt) = [] /\
    status (cmd_gen_key P lock encode_pk utf8_decode utf8_encode w o sk salt) = SOk /\
    (forall q, fs_target (new_fs (cmd_gen_key P lock encode_pk utf8_decode utf8_encode w o sk salt)) q = fs_target (fs w) q) /\
    exists cp, fs_create_target (fs w) F = Some cp /\
      forall cq, cq <> cp -> node_at (new_fs (cmd_gen_key P lock encode_pk utf8_decode utf8_encode w o sk salt)) cq
                             = node_at (fs w) cq.
Proof. exact gen_preserves_prefix. Qed.
Print Assumptions C14_gen_preserves_prefix.

(* in particular the old content is a byte prefix of the new content *)
Theorem C14_gen_extends :
  forall (P : prims) (lock : bytes -> bytes -> bytes -> text) (encode_pk : bytes -> text)
         (utf8_decode : bytes -> option text) (utf8_encode : text -> bytes)
         (w : world) (o : gen_opts) (sk salt : bytes) (F : text) (c0 : bytes),
  go_outfile o = Some F ->
  is_success (status (cmd_gen_key P lock encode_pk utf8_decode utf8_encode w o sk salt)) = true ->
  fs_get (fs w) F = Some c0 ->
  exists c1, fs_get (new_fs (cmd_gen_key P lock encode_pk utf8_decode utf8_encode w o sk salt)) F = Some c1 /\
             bprefix c0 c1.
Proof. exact gen_extends. Qed.
Print Assumptions C14_gen_extends.

(* any history, cut anywhere: the content after the first part is a byte prefix of the final content *)
Theorem C14_gen_history_prefix :
  forall (P : prims) (lock : bytes -> bytes -> bytes -> text) (encode_pk : bytes -> text)
         (utf8_decode : bytes -> option text) (utf8_encode : text -> bytes)
         (F : text) (ins1 ins2 : list gen_input) (l l' : fsys) (ks : list text),
  gen_history P lock encode_pk utf8_decode utf8_encode F l (ins1 ++ ins2) = Some (l', ks) ->
  exists (l1 : fsys) (ks1 ks2 : list text),
    gen_history P lock encode_pk utf8_decode utf8_encode F l ins1 = Some (l1, ks1) /\
    gen_history P lock encode_pk utf8_decode utf8_encode F l1 ins2 = Some (l', ks2) /\
    ks = ks1 ++ ks2 /\
    (forall c1, fs_get l1 F = Some c1 -> exists c2, fs_get l' F = Some c2 /\ bprefix c1 c2).
Proof. exact gen_history_prefix. Qed.
Print Assumptions C14_gen_history_prefix.

(* exact content of F after a history: prior content (if any) followed by "\n" ++ key text for each key; a file
   created by the history starts with the first key text itself; no other path changes *)
Theorem C14_gen_history_content :
  forall (P : prims) (lock : bytes -> bytes -> bytes -> text) (encode_pk : bytes -> text)
         (utf8_decode : bytes -> option text) (utf8_encode : text -> bytes)
         (F : text) (ins : list gen_input) (l l' : fsys) (ks : list text),
  gen_history P lock encode_pk utf8_decode utf8_encode F l ins = Some (l', ks) ->
  fs_get l' F = history_content utf8_encode (fs_get l F) ks /\
  (forall q, fs_target l q <> fs_target l F -> fs_get l' q = fs_get l q) /\
  (forall q, fs_target l' q = fs_target l q).
Proof. exact gen_history_content. Qed.
Print Assumptions C14_gen_history_content.

(* reading back, abstract validators: existing keyring text t0 that parses to ks0 *)
Theorem C14_gen_history_reads_back_existing :
  forall (P : prims) (pk_ok sk_ok : text -> bool) (lock : bytes -> bytes -> bytes -> text) (encode_pk : bytes -> text)
         (utf8_decode : bytes -> option text) (utf8_encode : text -> bytes),
  (forall a b, utf8_encode (a ++ b) = utf8_encode a ++ utf8_encode b) ->
  (forall t, utf8_decode (utf8_encode t) = Some t) ->
  forall (F : text) (l : fsys) (ins : list gen_input) (l' : fsys) (es : list entry) (t0 : text) (ks0 : list entry)
         (w : world),
  fs_get l F = Some (utf8_encode t0) -> parse_config pk_ok sk_ok t0 = Ok ks0 ->
  gen_history P lock encode_pk utf8_decode utf8_encode F l ins = Some (l', map entry_text es) ->
  Forall (gen_entry_ok pk_ok sk_ok) es -> NoDup (map k_name (ks0 ++ es)) -> NoDup (map k_pub (ks0 ++ es)) ->
  fs w = l' -> resolve_keyring pk_ok sk_ok utf8_decode w (Some F) = inr (ks0 ++ es).
Proof.
  intros P pk_ok sk_ok lock encode_pk utf8_decode utf8_encode.
  exact (gen_history_reads_back_existing P pk_ok sk_ok (fun _ _ => Panic PUnwrap) lock (fun _ => Panic PUnwrap)
           encode_pk (fun _ => true) utf8_decode utf8_encode).
Qed.
Print Assumptions C14_gen_history_reads_back_existing.

(* F absent: it is created holding exactly the generated keys *)
Theorem C14_gen_history_reads_back_fresh :
  forall (P : prims) (pk_ok sk_ok : text -> bool) (lock : bytes -> bytes -> bytes -> text) (encode_pk : bytes -> text)
         (utf8_decode : bytes -> option text) (utf8_encode : text -> bytes),
  (forall a b, utf8_encode (a ++ b) = utf8_encode a ++ utf8_encode b) ->
  (forall t, utf8_decode (utf8_encode t) = Some t) ->
  forall (F : text) (l : fsys) (ins : list gen_input) (l' : fsys) (es : list entry) (w : world),
  fs_get l F = None ->
  gen_history P lock encode_pk utf8_decode utf8_encode F l ins = Some (l', map entry_text es) -> es <> [] ->
  Forall (gen_entry_ok pk_ok sk_ok) es -> NoDup (map k_name es) -> NoDup (map k_pub es) ->
  fs w = l' -> resolve_keyring pk_ok sk_ok utf8_decode w (Some F) = inr es.
Proof.
  intros P pk_ok sk_ok lock encode_pk utf8_decode utf8_encode.
  exact (gen_history_reads_back_fresh P pk_ok sk_ok (fun _ _ => Panic PUnwrap) lock (fun _ => Panic PUnwrap)
           encode_pk (fun _ => true) utf8_decode utf8_encode).
Qed.
Print Assumptions C14_gen_history_reads_back_fresh.

(* F present but EMPTY: the result starts with a blank line and still reads back as the generated keys *)
Theorem C14_gen_history_reads_back_empty :
  forall (P : prims) (pk_ok sk_ok : text -> bool) (lock : bytes -> bytes -> bytes -> text) (encode_pk : bytes -> text)
         (utf8_decode : bytes -> option text) (utf8_encode : text -> bytes),
  (forall a b, utf8_encode (a ++ b) = utf8_encode a ++ utf8_encode b) ->
  (forall t, utf8_decode (utf8_encode t) = Some t) ->
  forall (F : text) (l : fsys) (ins : list gen_input) (l' : fsys) (es : list entry) (w : world),
  fs_get l F = Some [] ->
  gen_history P lock encode_pk utf8_decode utf8_encode F l ins = Some (l', map entry_text es) -> es <> [] ->
  Forall (gen_entry_ok pk_ok sk_ok) es -> NoDup (map k_name es) -> NoDup (map k_pub es) ->
  fs w = l' ->
  fs_get l' F = Some (utf8_encode (c_nl :: keyring_text es)) /\
  resolve_keyring pk_ok sk_ok utf8_decode w (Some F) = inr es.
Proof.
  intros P pk_ok sk_ok lock encode_pk utf8_decode utf8_encode.
  exact (gen_history_reads_back_empty P pk_ok sk_ok (fun _ _ => Panic PUnwrap) lock (fun _ => Panic PUnwrap)
           encode_pk (fun _ => true) utf8_decode utf8_encode).
Qed.
Print Assumptions C14_gen_history_reads_back_empty.

(* keyring.rs level (Model/Keyring.v), one key appended to ANY accepted keyring text: the text parses to the old
   entries followed by the new one, whose private key unlocks with the password given and whose public key decodes
   to the matching X25519 public key *)
Theorem C14_generated_keys_usable :
  forall (P : prims), aead_ok P -> hash_ok P -> Keyring.prims_bytes_ok P ->
  forall (t0 : text) (ks0 : list entry) (name : text) (sk : bytes) (pw : bytes) (salt : bytes) (txt epk : text),
  gen_name_ok name -> length sk = 32%nat -> bytes_ok sk -> length salt = 32%nat -> bytes_ok salt ->
  parse_config Keyring.pk_string_ok Keyring.sk_string_ok t0 = Ok ks0 ->
  Keyring.gen_key_text P name sk pw salt = Ok txt ->
  Keyring.encode_public_key P (dh_pub P sk) = Ok epk ->
  ~ In name (map k_name ks0) -> ~ In epk (map k_pub ks0) ->
  exists esk : text,
    parse_config Keyring.pk_string_ok Keyring.sk_string_ok (t0 ++ [c_nl] ++ txt)
      = Ok (ks0 ++ [mk_entry name epk (Some esk)]) /\
    Keyring.unlock_private_key P esk pw = Ok sk /\
    Keyring.decode_public_key P epk = Ok (dh_pub P sk) /\
    Keyring.extract_pub P esk pw = Ok (s_pub ++ s_sp_eq_sp ++ epk).
Proof. exact generated_keys_usable. Qed.
Print Assumptions C14_generated_keys_usable.

(* COMBINATION — the CLI with the real keyring code (k_lock / k_encode_pk = Keyring.lock_private_key /
   encode_public_key), any history into a file that held a keyring text t0 parsing (real validators) to ks0 — the
   empty text parses to []: there is one entry per command, in order; entry i was generated with the password of
   KESTREL_PASSWORD of run i, is accepted by the validators, unlocks with THAT password to the private key drawn in
   run i, and its public key decodes to the X25519 public key of that private key; F holds t0 followed by
   "\n" ++ entry text for each; and if the names contain no newline and names and public keys are pairwise distinct
   (old ones included), `-k F` reads back ks0 ++ the new entries. *)
Theorem C14_history_all_keys_usable_existing :
  forall (P : prims), aead_ok P -> hash_ok P -> Keyring.prims_bytes_ok P ->
  forall (utf8_decode : bytes -> option text) (utf8_encode : text -> bytes),
  (forall a b, utf8_encode (a ++ b) = utf8_encode a ++ utf8_encode b) ->
  (forall t, utf8_decode (utf8_encode t) = Some t) ->
  forall (F : text) (l : fsys) (ins : list gen_input) (l' : fsys) (ks : list text) (t0 : text) (ks0 : list entry)
         (w : world),
  fs_get l F = Some (utf8_encode t0) ->
  parse_config Keyring.pk_string_ok Keyring.sk_string_ok t0 = Ok ks0 ->
  gen_history P (k_lock P) (k_encode_pk P) utf8_decode utf8_encode F l ins = Some (l', ks) ->
  Forall (fun i => bytes_ok (gi_sk i) /\ bytes_ok (gi_salt i)) ins ->
  fs w = l' ->
  exists es : list entry, ks = map entry_text es /\
    Forall2 (fun (i : gen_input) (e : entry) => exists pw : bytes,
        (if gi_env_pass i then gi_env_password i else None) = Some pw /\ length (gi_sk i) = 32%nat /\
        exists esk : text,
          k_pub e = b64_encode (Keyring.pk_blob P (dh_pub P (gi_sk i))) /\ k_priv e = Some esk /\
          Keyring.pk_string_ok (k_pub e) = true /\ val_ok (k_pub e) /\
          Keyring.sk_string_ok esk = true /\ val_ok esk /\
          Keyring.unlock_private_key P esk pw = Ok (gi_sk i) /\
          Keyring.decode_public_key P (k_pub e) = Ok (dh_pub P (gi_sk i)) /\
          valid_key_name (k_name e) = true /\ trim (k_name e) = k_name e) ins es /\
    fs_get l' F = Some (utf8_encode (t0 ++ flat_map (fun e => c_nl :: entry_text e) es)) /\
    (Forall (fun e => ~ In c_nl (k_name e)) es ->
     NoDup (map k_name (ks0 ++ es)) -> NoDup (map k_pub (ks0 ++ es)) ->
     resolve_keyring Keyring.pk_string_ok Keyring.sk_string_ok utf8_decode w (Some F) = inr (ks0 ++ es)).
Proof. exact gen_history_all_keys_usable_existing. Qed.
Print Assumptions C14_history_all_keys_usable_existing.

(* the same when F did not exist *)
Theorem C14_history_all_keys_usable_fresh :
  forall (P : prims), aead_ok P -> hash_ok P -> Keyring.prims_bytes_ok P ->
  forall (utf8_decode : bytes -> option text) (utf8_encode : text -> bytes),
  (forall a b, utf8_encode (a ++ b) = utf8_encode a ++ utf8_encode b) ->
  (forall t, utf8_decode (utf8_encode t) = Some t) ->
  forall (F : text) (l : fsys) (ins : list gen_input) (l' : fsys) (ks : list text) (w : world),
  fs_get l F = None -> ins <> [] ->
  gen_history P (k_lock P) (k_encode_pk P) utf8_decode utf8_encode F l ins = Some (l', ks) ->
  Forall (fun i => bytes_ok (gi_sk i) /\ bytes_ok (gi_salt i)) ins ->
  fs w = l' ->
  exists es : list entry, ks = map entry_text es /\
    Forall2 (fun (i : gen_input) (e : entry) => exists pw : bytes,
        (if gi_env_pass i then gi_env_password i else None) = Some pw /\ length (gi_sk i) = 32%nat /\
        exists esk : text,
          k_pub e = b64_encode (Keyring.pk_blob P (dh_pub P (gi_sk i))) /\ k_priv e = Some esk /\
          Keyring.pk_string_ok (k_pub e) = true /\ val_ok (k_pub e) /\
          Keyring.sk_string_ok esk = true /\ val_ok esk /\
          Keyring.unlock_private_key P esk pw = Ok (gi_sk i) /\
          Keyring.decode_public_key P (k_pub e) = Ok (dh_pub P (gi_sk i)) /\
          valid_key_name (k_name e) = true /\ trim (k_name e) = k_name e) ins es /\
    fs_get l' F = Some (utf8_encode (keyring_text es)) /\
    (Forall (fun e => ~ In c_nl (k_name e)) es -> NoDup (map k_name es) -> NoDup (map k_pub es) ->
     resolve_keyring Keyring.pk_string_ok Keyring.sk_string_ok utf8_decode w (Some F) = inr es).
Proof. exact gen_history_all_keys_usable_fresh. Qed.
Print Assumptions C14_history_all_keys_usable_fresh.

(* the code BEFORE the repair: an existing F ends up holding only "\n" ++ the new key *)
Theorem C14_gen_key_legacy_forgets :
  forall (P : prims) (lock : bytes -> bytes -> bytes -> text) (encode_pk : bytes -> text)
         (utf8_decode : bytes -> option text) (utf8_encode : text -> bytes)
         (w : world) (o : gen_opts) (sk salt : bytes) (F : text) (c0 : bytes),
  go_outfile o = Some F -> fs_get (fs w) F = Some c0 ->
  is_success (status (gen_key_legacy P lock encode_pk utf8_decode utf8_encode w o sk salt)) = true ->
  exists key_text, gen_plan P lock encode_pk utf8_decode w o sk salt = inr key_text /\
    fs_get (new_fs (gen_key_legacy P lock encode_pk utf8_decode utf8_encode w o sk salt)) F
      = Some (key_bytes_nl utf8_encode key_text).
Proof. exact gen_key_legacy_forgets. Qed.
Print Assumptions C14_gen_key_legacy_forgets.

(* ... so the prefix property is FALSE for it: a concrete world (Model/CliStubs.v: F = a keyring with key "a";
   generate "bob") in which the old content is not a prefix of the new one — while the repaired command keeps it *)
Theorem C14_gen_key_legacy_refuted :
  exists (w : world) (o : gen_opts) (sk salt : bytes) (F : text) (c0 : bytes),
    go_outfile o = Some F /\ fs_get (fs w) F = Some c0 /\
    status (s_gen_key_legacy w o sk salt) = SOk /\
    (forall c1, fs_get (new_fs (s_gen_key_legacy w o sk salt)) F = Some c1 -> ~ bprefix c0 c1) /\
    (exists c1, fs_get (new_fs (s_cmd_gen_key w o sk salt)) F = Some c1 /\ bprefix c0 c1).
Proof. exact gen_key_legacy_refuted. Qed.
Print Assumptions C14_gen_key_legacy_refuted.

(* ====================================================================================================
   The same history theorems with the CONCRETE UTF-8 codec (Model/Utf8.v: utf8_encode = str::as_bytes,
   utf8_decode = the strict String::from_utf8; laws proved in Proofs/Utf8Facts.v; same functions as the executable
   codec of the correspondence check: Proofs/Utf8Run.v).  The two abstract codec premises are gone.  The law
   "decoding inverts encoding" holds for texts of Unicode scalar values only (Utf8.scalar_ok: a Rust String holds
   nothing else), so texts are restricted accordingly:
     - abstract validators / keyring functions: the prior text t0 and the entry texts are scalar (premises);
     - real keyring functions: only the prior text t0 (the generated entry texts are PROVED scalar: the name went
       through the strict decoder, the two values are base64).
   ==================================================================================================== *)
From Kestrel.Model Require Utf8.
From Kestrel.Proofs Require Utf8Facts Combine2GenUtf8.

Theorem C14_gen_history_reads_back_existing_concrete :
  forall (P : prims) (pk_ok sk_ok : text -> bool) (lock : bytes -> bytes -> bytes -> text) (encode_pk : bytes -> text)
         (F : text) (l : fsys) (ins : list gen_input) (l' : fsys) (es : list entry) (t0 : text) (ks0 : list entry)
         (w : world),
  fs_get l F = Some (Utf8.utf8_encode t0) -> Forall Utf8.scalar_ok t0 -> parse_config pk_ok sk_ok t0 = Ok ks0 ->
  gen_history P lock encode_pk Utf8.utf8_decode Utf8.utf8_encode F l ins = Some (l', map entry_text es) ->
  Forall (fun e => Forall Utf8.scalar_ok (entry_text e)) es ->
  Forall (gen_entry_ok pk_ok sk_ok) es -> NoDup (map k_name (ks0 ++ es)) -> NoDup (map k_pub (ks0 ++ es)) ->
  fs w = l' -> resolve_keyring pk_ok sk_ok Utf8.utf8_decode w (Some F) = inr (ks0 ++ es).
Proof. exact Combine2GenUtf8.gen_history_reads_back_existing_c. Qed.
Print Assumptions C14_gen_history_reads_back_existing_concrete.

Theorem C14_gen_history_reads_back_fresh_concrete :
  forall (P : prims) (pk_ok sk_ok : text -> bool) (lock : bytes -> bytes -> bytes -> text) (encode_pk : bytes -> text)
         (F : text) (l : fsys) (ins : list gen_input) (l' : fsys) (es : list entry) (w : world),
  fs_get l F = None ->
  gen_history P lock encode_pk Utf8.utf8_decode Utf8.utf8_encode F l ins = Some (l', map entry_text es) -> es <> [] ->
  Forall (fun e => Forall Utf8.scalar_ok (entry_text e)) es ->
  Forall (gen_entry_ok pk_ok sk_ok) es -> NoDup (map k_name es) -> NoDup (map k_pub es) ->
  fs w = l' -> resolve_keyring pk_ok sk_ok Utf8.utf8_decode w (Some F) = inr es.
Proof. exact Combine2GenUtf8.gen_history_reads_back_fresh_c. Qed.
Print Assumptions C14_gen_history_reads_back_fresh_concrete.

Theorem C14_gen_history_reads_back_empty_concrete :
  forall (P : prims) (pk_ok sk_ok : text -> bool) (lock : bytes -> bytes -> bytes -> text) (encode_pk : bytes -> text)
         (F : text) (l : fsys) (ins : list gen_input) (l' : fsys) (es : list entry) (w : world),
  fs_get l F = Some [] ->
  gen_history P lock encode_pk Utf8.utf8_decode Utf8.utf8_encode F l ins = Some (l', map entry_text es) -> es <> [] ->
  Forall (fun e => Forall Utf8.scalar_ok (entry_text e)) es ->
  Forall (gen_entry_ok pk_ok sk_ok) es -> NoDup (map k_name es) -> NoDup (map k_pub es) ->
  fs w = l' ->
  fs_get l' F = Some (Utf8.utf8_encode (c_nl :: keyring_text es)) /\
  resolve_keyring pk_ok sk_ok Utf8.utf8_decode w (Some F) = inr es.
Proof. exact Combine2GenUtf8.gen_history_reads_back_empty_c. Qed.
Print Assumptions C14_gen_history_reads_back_empty_concrete.

Theorem C14_history_all_keys_usable_existing_concrete :
  forall (P : prims), aead_ok P -> hash_ok P -> Keyring.prims_bytes_ok P ->
  forall (F : text) (l : fsys) (ins : list gen_input) (l' : fsys) (ks : list text) (t0 : text) (ks0 : list entry)
         (w : world),
  fs_get l F = Some (Utf8.utf8_encode t0) -> Forall Utf8.scalar_ok t0 ->
  parse_config Keyring.pk_string_ok Keyring.sk_string_ok t0 = Ok ks0 ->
  gen_history P (k_lock P) (k_encode_pk P) Utf8.utf8_decode Utf8.utf8_encode F l ins = Some (l', ks) ->
  Forall (fun i => bytes_ok (gi_sk i) /\ bytes_ok (gi_salt i)) ins ->
  fs w = l' ->
  exists es : list entry, ks = map entry_text es /\
    Forall2 (fun (i : gen_input) (e : entry) => exists pw : bytes,
        (if gi_env_pass i then gi_env_password i else None) = Some pw /\ length (gi_sk i) = 32%nat /\
        exists esk : text,
          k_pub e = b64_encode (Keyring.pk_blob P (dh_pub P (gi_sk i))) /\ k_priv e = Some esk /\
          Keyring.pk_string_ok (k_pub e) = true /\ val_ok (k_pub e) /\
          Keyring.sk_string_ok esk = true /\ val_ok esk /\
          Keyring.unlock_private_key P esk pw = Ok (gi_sk i) /\
          Keyring.decode_public_key P (k_pub e) = Ok (dh_pub P (gi_sk i)) /\
          valid_key_name (k_name e) = true /\ trim (k_name e) = k_name e) ins es /\
    fs_get l' F = Some (Utf8.utf8_encode (t0 ++ flat_map (fun e => c_nl :: entry_text e) es)) /\
    (Forall (fun e => ~ In c_nl (k_name e)) es ->
     NoDup (map k_name (ks0 ++ es)) -> NoDup (map k_pub (ks0 ++ es)) ->
     resolve_keyring Keyring.pk_string_ok Keyring.sk_string_ok Utf8.utf8_decode w (Some F) = inr (ks0 ++ es)).
Proof. exact Combine2GenUtf8.gen_history_all_keys_usable_existing_c. Qed.
Print Assumptions C14_history_all_keys_usable_existing_concrete.

Theorem C14_history_all_keys_usable_fresh_concrete :
  forall (P : prims), aead_ok P -> hash_ok P -> Keyring.prims_bytes_ok P ->
  forall (F : text) (l : fsys) (ins : list gen_input) (l' : fsys) (ks : list text) (w : world),
  fs_get l F = None -> ins <> [] ->
  gen_history P (k_lock P) (k_encode_pk P) Utf8.utf8_decode Utf8.utf8_encode F l ins = Some (l', ks) ->
  Forall (fun i => bytes_ok (gi_sk i) /\ bytes_ok (gi_salt i)) ins ->
  fs w = l' ->
  exists es : list entry, ks = map entry_text es /\
    Forall2 (fun (i : gen_input) (e : entry) => exists pw : bytes,
        (if gi_env_pass i then gi_env_password i else None) = Some pw /\ length (gi_sk i) = 32%nat /\
        exists esk : text,
          k_pub e = b64_encode (Keyring.pk_blob P (dh_pub P (gi_sk i))) /\ k_priv e = Some esk /\
          Keyring.pk_string_ok (k_pub e) = true /\ val_ok (k_pub e) /\
          Keyring.sk_string_ok esk = true /\ val_ok esk /\
          Keyring.unlock_private_key P esk pw = Ok (gi_sk i) /\
          Keyring.decode_public_key P (k_pub e) = Ok (dh_pub P (gi_sk i)) /\
          valid_key_name (k_name e) = true /\ trim (k_name e) = k_name e) ins es /\
    fs_get l' F = Some (Utf8.utf8_encode (keyring_text es)) /\
    (Forall (fun e => ~ In c_nl (k_name e)) es -> NoDup (map k_name es) -> NoDup (map k_pub es) ->
     resolve_keyring Keyring.pk_string_ok Keyring.sk_string_ok Utf8.utf8_decode w (Some F) = inr es).
Proof. exact Combine2GenUtf8.gen_history_all_keys_usable_fresh_c. Qed.
Print Assumptions C14_history_all_keys_usable_fresh_concrete.

(* the codec laws themselves (the two former premises, and strictness) *)
Theorem C14_utf8_encode_app :
  forall a b : text, Utf8.utf8_encode (a ++ b) = Utf8.utf8_encode a ++ Utf8.utf8_encode b.
Proof. exact Utf8Facts.utf8_encode_app. Qed.
Print Assumptions C14_utf8_encode_app.

Theorem C14_utf8_decode_encode :
  forall t : text, Forall Utf8.scalar_ok t -> Utf8.utf8_decode (Utf8.utf8_encode t) = Some t.
Proof. exact Utf8Facts.utf8_decode_encode. Qed.
Print Assumptions C14_utf8_decode_encode.

Theorem C14_utf8_encode_decode :
  forall (b : bytes) (t : text), Utf8.utf8_decode b = Some t -> Utf8.utf8_encode t = b /\ Forall Utf8.scalar_ok t.
Proof. exact Utf8Facts.utf8_encode_decode. Qed.
Print Assumptions C14_utf8_encode_decode.
