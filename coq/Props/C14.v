(* Props/C14.v — PLACEHOLDER created by the check-writer for local testing only; to be replaced by the
   real theorems of property C14. *)
Example C14_placeholder : True.
Proof. exact I. Qed.
Print Assumptions C14_placeholder.
