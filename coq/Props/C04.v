(* Props/C04.v — only authenticated plaintext is ever released: in order, in whole chunks.
   "At every moment" is expressed by a MONITOR over the chronological event trace of a run
   (Model/Monitors.v: dmon_step returns None — a violation — when bytes not yet authenticated would be
   written, when the final chunk is written before the end-of-input probe, when anything is written
   after an error, ...).  A monitor that accepts the whole trace has accepted every prefix of it. *)
From Kestrel Require Import Bytes Outcome IO Prims.
From Kestrel.Model Require Import AeadWrap Chunks Monitors.
From Kestrel.Proofs Require Import ChunksAuth TraceShape MonitorFacts.

(* every run of decrypt_chunks — any offered bytes, any read/write/flush script incl. faults — is accepted by
   the release-after-authentication monitor; Ok implies a flag-1 chunk verified, the probe saw end of input,
   and everything authenticated was written; an error leaves whole chunks (plus a cut piece only when the
   sink's own write failed) *)
Theorem C04_monitor_accepts_every_run :
  forall (P : prims) (key aad : bytes) (cs : N), length key = 32%nat ->
  forall s res s', log s = [] -> decrypt_chunks P key aad cs s = (res, s') ->
  exists m, dmon_run (trace s') = Some m /\
    w_out (wtr s') = w_out (wtr s) ++ written m /\
    (w_out (wtr s) = [] -> written m = w_out (wtr s')) /\
    (res = Ok tt -> last_seen m = true /\ probed_eof m = true /\ written m = concat (authed m)) /\
    (forall e, res = Err e -> e <> DChunkLen -> dead m = true) /\
    (forall e, res = Err e -> exists k tail, (length (authed m) - 1 <= k <= length (authed m))%nat /\
         written m = concat (firstn k (authed m)) ++ tail /\
         (tail = [] \/ exists ie c j, e = DIOWrite ie /\ nth_error (authed m) k = Some c /\
                                       (j < length c)%nat /\ tail = firstn j c)).
Proof. intros P key aad cs Hk. exact (dec_monitor_accepts P key aad cs Hk). Qed.
Print Assumptions C04_monitor_accepts_every_run.

(* at EVERY moment (every prefix of the trace) what has been written is a prefix of what has been authenticated *)
Theorem C04_every_moment :
  forall (P : prims) (key aad : bytes) (cs : N), length key = 32%nat ->
  forall s res s' pre post, log s = [] -> decrypt_chunks P key aad cs s = (res, s') ->
  trace s' = pre ++ post ->
  exists m, dmon_run pre = Some m /\ exists rest, written m ++ rest = concat (authed m).
Proof. intros P key aad cs Hk. exact (dec_every_moment P key aad cs Hk). Qed.
Print Assumptions C04_every_moment.

(* with a sink that never fails only WHOLE chunks are released *)
Theorem C04_whole_chunks :
  forall (P : prims) (key aad : bytes) (cs : N), length key = 32%nat ->
  forall s res s', log s = [] -> writer_ok (wtr s) -> decrypt_chunks P key aad cs s = (res, s') ->
  exists m k, dmon_run (trace s') = Some m /\ w_out (wtr s') = w_out (wtr s) ++ written m /\
    (length (authed m) - 1 <= k <= length (authed m))%nat /\ written m = concat (firstn k (authed m)).
Proof. intros P key aad cs Hk. exact (dec_whole_chunks P key aad cs Hk). Qed.
Print Assumptions C04_whole_chunks.

(* and what is authenticated is the honest plaintext (C03): released bytes are a prefix of it *)
Theorem C04_released_is_prefix_of_honest_plaintext :
  forall (P : prims) (key aad : bytes) (cs : N) (chunks : list bytes),
    length key = 32%nat -> aead_ok P ->
  forall (s : io) res s',
    decrypt_chunks P key aad cs s = (res, s') ->
    no_forgery P key aad chunks (log s') ->
    (exists written rest, w_out (wtr s') = w_out (wtr s) ++ written /\ written ++ rest = concat chunks) /\
    (res = Ok tt -> w_out (wtr s') = w_out (wtr s) ++ concat chunks).
Proof. intros P key aad cs chunks Hk Ha s res s' E NF. exact (dec_auth_file P key aad cs Hk Ha chunks _ s res s' E NF). Qed.
Print Assumptions C04_released_is_prefix_of_honest_plaintext.
