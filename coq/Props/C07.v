(* Props/C07.v — property C07: fresh randomness; no (key, nonce) pair is used twice.   PARTIAL.
   Statements only; proofs are in Proofs/ChunksEnc.v, CombineNonce.v, CombineRand.v, PrimFacts.v.

   Part 1 (nonces within one file) is proved about the encryptor model for EVERY io state (any plaintext, any
   script, faults included): the seals of one run are all under the one file key and carry the counters
   0, 1, ..., m-1 in order, each exactly once; the 12-byte nonce is injective on counters < 2^64.  The model
   does not wrap the u64 counter; 2^64 chunks (2^80 bytes) are out of reach, and the nonce-distinctness
   conclusion carries the explicit side condition m <= 2^64.  The two handshake seals are not logged as events
   (the Noise layer is a pure function in the model); by C07_handshake_seals they use nonce 0 under two keys
   hs_k1, hs_k2 each used for exactly one seal.  That hs_k1 <> hs_k2 and that file keys of different files
   differ are injectivity idealisations of HKDF, NOT proved.

   Part 2 (fresh randomness across a history) is proved about the tiny stream model of Model/Rand.v: the
   operations key-encrypt, password-encrypt (CLI), key-generate, change-password draw, in program order, 2, 1,
   2, 1 blocks of 32 bytes from ONE stream through a counter; the theorems show the blocks consumed in a history
   are consecutive and pairwise disjoint (between operations and within one), hence all drawn values are
   pairwise distinct IF the stream's blocks are.  NOT MODELLED, and not provable here: that the operating
   system's generator (getrandom) returns unpredictable, non-repeating bytes; that distinct ephemeral private
   keys give distinct public keys and distinct payload keys give distinct file keys.  That the Rust draws in
   this order and number is tied to the code by the correspondence runs (random-stream hook), not by a theorem. *)
From Kestrel Require Import Bytes Outcome IO IOFacts Prims.
From Kestrel.gen Require Import Extracted.
From Kestrel.Model Require Import AeadWrap Chunks Noise NoiseSpec Files EventPreds FilesSpec ChunksSpec CombineDefs Rand.
From Kestrel.Proofs Require Import ChunksEnc PrimFacts CombineFiles CombineNonce CombineRand.
Local Open Scope N_scope.

(* Part 1.  EVERY io state (any plaintext, any read/write/flush script, faults): the new events tr of an encrypt_chunks run contain m seals, with counters exactly 0, 1, ..., m-1 in this order, all under [key], each with associated data aad ++ flag ++ length of its plaintext, and the sealed plaintexts are the first m read results: chunk i is sealed exactly once, under counter i *)
Theorem C07_nonces_sequential :
  forall (P : prims) (key aad : bytes) (cs : N) (s s' : io) (r : outcome eerr unit),
  length key = 32%nat ->
  encrypt_chunks P key aad cs s = (r, s') ->
  exists (tr : list event) (m : nat),
    trace s' = trace s ++ tr /\
    map seal_nonce (filter_seals tr) = map N.of_nat (seq 0 m) /\
    Forall
      (fun q : seal_ev => seal_key q = key /\ (exists b : bool, seal_ad q = rec_ad aad b (seal_pt q)))
      (filter_seals tr) /\ map seal_pt (filter_seals tr) = firstn m (read_results tr).
Proof. exact (enc_seals_sequential). Qed.
Print Assumptions C07_nonces_sequential.

(* hence the counters of one run are pairwise distinct (NoDup), all seals are under the one key, and every sealed plaintext is a read result *)
Theorem C07_nonces_distinct :
  forall (P : prims) (key aad : bytes) (cs : N) (s s' : io) (r : outcome eerr unit),
  length key = 32%nat ->
  encrypt_chunks P key aad cs s = (r, s') ->
  exists tr : list event,
    trace s' = trace s ++ tr /\
    NoDup (map seal_nonce (filter_seals tr)) /\
    (forall q : seal_ev, In q (filter_seals tr) -> seal_key q = key /\ In (seal_pt q) (read_results tr)).
Proof. exact (enc_nonces_distinct). Qed.
Print Assumptions C07_nonces_distinct.

(* combined form, down to the 12 nonce BYTES: all seals under [key]; counters = 0..m-1; counters pairwise distinct; and if m <= 2^64 the 12-byte nonces 00 00 00 00 || le64(counter) are pairwise distinct — so no (key, nonce) pair is used for two messages within one chunk stream *)
Theorem C07_key_nonce_unique :
  forall (P : prims) (key aad : bytes) (cs : N) (s s' : io) (r : outcome eerr unit),
  length key = 32%nat ->
  encrypt_chunks P key aad cs s = (r, s') ->
  exists (tr : list event) (m : nat),
    trace s' = trace s ++ tr /\
    map seal_nonce (filter_seals tr) = map N.of_nat (seq 0 m) /\
    Forall (fun q : seal_ev => seal_key q = key) (filter_seals tr) /\
    NoDup (map seal_nonce (filter_seals tr)) /\
    (N.of_nat m <= 18446744073709551616 ->
     NoDup (map (fun q : seal_ev => noise_nonce (seal_nonce q)) (filter_seals tr))).
Proof. exact (enc_key_nonce_unique). Qed.
Print Assumptions C07_key_nonce_unique.

(* the nonce encoding is injective on the whole u64 range *)
Theorem C07_nonce12_injective :
  forall n m : N,
  n < 18446744073709551616 -> m < 18446744073709551616 -> noise_nonce n = noise_nonce m -> n = m.
Proof. exact (noise_nonce_inj). Qed.
Print Assumptions C07_nonce12_injective.

(* FILE level, password mode (any plaintext, any reader script, conforming writer for the header): every seal event of a pass_encrypt run is a chunk seal under scrypt(pw, salt), counters 0..m-1, distinct nonces *)
Theorem C07_pass_file_seals :
  forall P : prims,
  hash_ok P ->
  forall (pw salt : bytes) (s0 : io) (r : outcome eerr unit) (s0' : io),
  writer_ok (wtr s0) ->
  pass_encrypt P pw salt s0 = (r, s0') ->
  exists tr : list event, trace s0' = trace s0 ++ tr /\ file_seals_ok (kdf P pw salt) tr.
Proof. exact (pass_encrypt_seals). Qed.
Print Assumptions C07_pass_file_seals.

(* FILE level, key mode: every seal event of a key_encrypt run is a chunk seal under the file key HKDF("", payload, hh), counters 0..m-1, distinct nonces *)
Theorem C07_key_file_seals :
  forall P : prims,
  hash_ok P ->
  forall (fresh_pk fresh_e s spk rpk : bytes) (e epk pk : option bytes) (s0 : io)
    (r : outcome eerr unit) (s0' : io) (msg hh : bytes),
  length (payload_of fresh_pk pk) = 32%nat ->
  writer_ok (wtr s0) ->
  noise_encrypt P fresh_e s spk rpk e epk x_prologue (payload_of fresh_pk pk) = Ok (msg, hh) ->
  key_encrypt P fresh_pk fresh_e s spk rpk e epk pk s0 = (r, s0') ->
  exists tr : list event,
    trace s0' = trace s0 ++ tr /\ file_seals_ok (file_key P (payload_of fresh_pk pk) hh) tr.
Proof. exact (key_encrypt_seals). Qed.
Print Assumptions C07_key_file_seals.

(* what [file_seals_ok K tr] says, unfolded (by definition) *)
Theorem C07_file_seals_ok_meaning :
  forall (K : bytes) (tr : list event),
  file_seals_ok K tr <->
  (exists m : nat,
     map seal_nonce (filter_seals tr) = map N.of_nat (seq 0 m) /\
     Forall (fun q : seal_ev => seal_key q = K) (filter_seals tr) /\
     NoDup (map seal_nonce (filter_seals tr)) /\
     (N.of_nat m <= 18446744073709551616 ->
      NoDup (map (fun q : seal_ev => noise_nonce (seal_nonce q)) (filter_seals tr)))).
Proof. exact (file_seals_ok_unfold). Qed.
Print Assumptions C07_file_seals_ok_meaning.

(* the two handshake seals of a key file (not logged as events): the file is prologue ++ epk' ++ seal(hs_k1, nonce 0, spk) ++ seal(hs_k2, nonce 0, payload) ++ chunk stream — one seal under hs_k1, one under hs_k2, both with counter 0 *)
Theorem C07_handshake_seals :
  forall (P : prims) (fresh_pk fresh_e : bytes) (s : list N) (spk : bytes) (rpk : list N)
    (e epk pk : option bytes) (e' epk' : bytes) (s0 s0' : io) (r : outcome eerr unit),
  hash_ok P ->
  eph_of P fresh_e e epk = (e', epk') ->
  length e' = 32%nat ->
  length s = 32%nat ->
  length rpk = 32%nat ->
  length (payload_of fresh_pk pk) = 32%nat ->
  reader_ok (rdr s0) ->
  writer_ok (wtr s0) ->
  key_encrypt P fresh_pk fresh_e s spk rpk e epk pk s0 = (r, s0') ->
  r = Err EOther /\ s0' = s0 /\ (all_zero (p_dh P e' rpk) = true \/ all_zero (p_dh P s rpk) = true) \/
  r = Ok tt /\
  all_zero (p_dh P e' rpk) = false /\
  all_zero (p_dh P s rpk) = false /\
  (exists hh : bytes,
     w_out (wtr s0') =
     w_out (wtr s0) ++
     x_prologue ++
     epk' ++
     hs_c1 P x_prologue rpk epk' spk (p_dh P e' rpk) ++
     hs_c2 P x_prologue rpk epk' spk (p_dh P e' rpk) (p_dh P s rpk) (payload_of fresh_pk pk) ++
     spec_chunks P (file_key P (payload_of fresh_pk pk) hh) []
       (chunks_of_reads (reads_of (N.to_nat cs_const) (rdr s0)))).
Proof. exact (key_file_structure). Qed.
Print Assumptions C07_handshake_seals.

(* Part 2.  For every stream, every start counter c and EVERY history (list of operations, repetitions of identical operations included): the block indices of all draws, in order, are exactly c, c+1, ..., c + total - 1, and the final counter is c + total *)
Theorem C07_draws_consecutive :
  forall (stream : nat -> bytes) (ops : list op) (c : nat),
  map d_index (all_draws (fst (run_history stream c ops))) = seq c (total_draws ops) /\
  snd (run_history stream c ops) = (c + total_draws ops)%nat.
Proof. exact (run_history_indices). Qed.
Print Assumptions C07_draws_consecutive.

(* hence no stream block is consumed twice in a history: neither by two operations, nor by the two draws within one operation (payload key vs ephemeral key; private key vs lock salt) *)
Theorem C07_draws_disjoint :
  forall (stream : nat -> bytes) (ops : list op) (c : nat),
  NoDup (map d_index (all_draws (fst (run_history stream c ops)))).
Proof. exact (draws_disjoint). Qed.
Print Assumptions C07_draws_disjoint.

(* explicitly: the i-th operation of the history consumes exactly the blocks [c + (draws of the earlier operations), + its own number of draws) *)
Theorem C07_draw_segments :
  forall (stream : nat -> bytes) (ops : list op) (c i : nat) (o : op) (ds : list draw),
  nth_error (fst (run_history stream c ops)) i = Some (o, ds) ->
  nth_error ops i = Some o /\
  map d_index ds = seq (c + total_draws (firstn i ops)) (length (op_roles o)).
Proof. exact (run_history_segment). Qed.
Print Assumptions C07_draw_segments.

(* explicit pairwise form: every block of an earlier operation precedes every block of a later one *)
Theorem C07_draws_ordered :
  forall (stream : nat -> bytes) (ops : list op) (c i j : nat) (oi : op) (dsi : list draw) 
    (oj : op) (dsj : list draw) (x y : draw),
  (i < j)%nat ->
  nth_error (fst (run_history stream c ops)) i = Some (oi, dsi) ->
  nth_error (fst (run_history stream c ops)) j = Some (oj, dsj) ->
  In x dsi -> In y dsj -> (d_index x < d_index y)%nat.
Proof. exact (draws_ordered). Qed.
Print Assumptions C07_draws_ordered.

(* every drawn value is the stream block at its index; the history records the operations in order; each operation draws exactly the roles listed for it, in program order (key-encrypt: payload key then ephemeral key; password-encrypt: salt; key-generate: private key then lock salt; change-password: lock salt) *)
Theorem C07_draw_values :
  forall (stream : nat -> bytes) (ops : list op) (c : nat),
  Forall (fun d : draw => d_value d = stream (d_index d)) (all_draws (fst (run_history stream c ops))) /\
  map fst (fst (run_history stream c ops)) = ops /\
  Forall (fun od : op * list draw => map d_role (snd od) = op_roles (fst od))
    (fst (run_history stream c ops)).
Proof. exact (run_history_values). Qed.
Print Assumptions C07_draw_values.

(* THEREFORE: if the stream's blocks in the consumed range are pairwise distinct, all values drawn in the history — ephemeral keys, payload keys, private keys, file salts, lock salts, across all operations and within each, even for identical inputs — are pairwise distinct.  The premise is the part about the OS generator that is not modelled. *)
Theorem C07_drawn_values_distinct :
  forall (stream : nat -> bytes) (ops : list op) (c : nat),
  (forall i j : nat,
   (c <= i < c + total_draws ops)%nat ->
   (c <= j < c + total_draws ops)%nat -> stream i = stream j -> i = j) ->
  NoDup (map d_value (all_draws (fst (run_history stream c ops)))).
Proof. exact (drawn_values_distinct). Qed.
Print Assumptions C07_drawn_values_distinct.

