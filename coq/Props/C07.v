(* Props/C07.v — property C07: fresh randomness; no (key, nonce) pair is used twice.   PARTIAL.
   Statements only; proofs are in Proofs/ChunksEnc.v, CombineNonce.v, CombineRand.v, PrimFacts.v.

   Part 1 (nonces within one file) is proved about the encryptor model for EVERY io state (any plaintext, any
   script, faults included): the seals of one run are all under the one file key and carry the counters
   0, 1, ..., m-1 in order, each exactly once; the 12-byte nonce is injective on counters < 2^64.  The model
   does not wrap the u64 counter; 2^64 chunks (2^80 bytes) are out of reach, and the nonce-distinctness
   conclusion carries the explicit side condition m <= 2^64.  The two handshake seals are not logged as events
   (the Noise layer is a pure function in the model); by C07_handshake_seals they use nonce 0 under two keys
   hs_k1, hs_k2 each used for exactly one seal.  That hs_k1 <> hs_k2 and that file keys of different files
   differ are injectivity idealisations of HKDF, NOT proved.

   Part 2 (fresh randomness across a history) is proved about the tiny stream model of Model/Rand.v: the
   operations key-encrypt, password-encrypt (CLI), key-generate, change-password draw, in program order, 2, 1,
   2, 1 blocks of 32 bytes from ONE stream through a counter; the theorems show the blocks consumed in a history
   are consecutive and pairwise disjoint (between operations and within one), hence all drawn values are
   pairwise distinct IF the stream's blocks are.  NOT MODELLED, and not provable here: that the operating
   system's generator (getrandom) returns unpredictable, non-repeating bytes; that distinct ephemeral private
   keys give distinct public keys and distinct payload keys give distinct file keys.  That the Rust draws in
   this order and number is tied to the code by the correspondence runs (random-stream hook), not by a theorem.

   Part 3 (added; proofs in Proofs/RandRoles.v) links [op_roles] to the model functions that consume the
   randomness.  Model/RandRun.v runs Files.key_encrypt and the four drawing commands of Model/Cli.v on a random
   SOURCE (the stream of Rand.v, a counter, a journal), drawing where the program draws.  Theorems: each such run
   returns exactly what the explicit-argument function returns on the stream blocks at the positions drawn
   (erasure); the journal of ANY run grows by the first k draws Rand.draw_roles plans for [op_roles] of the
   operation — a run that fails early draws a prefix, possibly strict —, and by all of them when the run reaches
   the end; a history of commands on one source consumes consecutive blocks and, if every command succeeds, its
   journal IS [all_draws (run_history ..)], the object of Part 2.  So Part 2 no longer rests on a separate
   reading of the draw order of the MODEL; that the model's draw points are the Rust's is still the
   correspondence check's business. *)
From Kestrel Require Import Bytes Outcome IO IOFacts Prims.
From Kestrel.gen Require Import Extracted.
From Kestrel.Model Require Import AeadWrap Chunks Noise NoiseSpec Files EventPreds FilesSpec ChunksSpec CombineDefs Rand.
From Kestrel.Model Require Import KeyringText Cli RandRun.
From Kestrel.Proofs Require Import ChunksEnc PrimFacts CombineFiles CombineNonce CombineRand RandRoles.
Local Open Scope N_scope.

(* Part 1.  EVERY io state (any plaintext, any read/write/flush script, faults): the new events tr of an encrypt_chunks run contain m seals, with counters exactly 0, 1, ..., m-1 in this order, all under [key], each with associated data aad ++ flag ++ length of its plaintext, and the sealed plaintexts are the first m read results: chunk i is sealed exactly once, under counter i *)
Theorem C07_nonces_sequential :
  forall (P : prims) (key aad : bytes) (cs : N) (s s' : io) (r : outcome eerr unit),
  length key = 32%nat ->
  encrypt_chunks P key aad cs s = (r, s') ->
  exists (tr : list event) (m : nat),
    trace s' = trace s ++ tr /\
    map seal_nonce (filter_seals tr) = map N.of_nat (seq 0 m) /\
    Forall
      (fun q : seal_ev => seal_key q = key /\ (exists b : bool, seal_ad q = rec_ad aad b (seal_pt q)))
      (filter_seals tr) /\ map seal_pt (filter_seals tr) = firstn m (read_results tr).
Proof. exact (enc_seals_sequential). Qed.
Print Assumptions C07_nonces_sequential.

(* hence the counters of one run are pairwise distinct (NoDup), all seals are under the one key, and every sealed plaintext is a read result *)
Theorem C07_nonces_distinct :
  forall (P : prims) (key aad : bytes) (cs : N) (s s' : io) (r : outcome eerr unit),
  length key = 32%nat ->
  encrypt_chunks P key aad cs s = (r, s') ->
  exists tr : list event,
    trace s' = trace s ++ tr /\
    NoDup (map seal_nonce (filter_seals tr)) /\
    (forall q : seal_ev, In q (filter_seals tr) -> seal_key q = key /\ In (seal_pt q) (read_results tr)).
Proof. exact (enc_nonces_distinct). Qed.
Print Assumptions C07_nonces_distinct.

(* combined form, down to the 12 nonce BYTES: all seals under [key]; counters = 0..m-1; counters pairwise distinct; and if m <= 2^64 the 12-byte nonces 00 00 00 00 || le64(counter) are pairwise distinct — so no (key, nonce) pair is used for two messages within one chunk stream *)
Theorem C07_key_nonce_unique :
  forall (P : prims) (key aad : bytes) (cs : N) (s s' : io) (r : outcome eerr unit),
  length key = 32%nat ->
  encrypt_chunks P key aad cs s = (r, s') ->
  exists (tr : list event) (m : nat),
    trace s' = trace s ++ tr /\
    map seal_nonce (filter_seals tr) = map N.of_nat (seq 0 m) /\
    Forall (fun q : seal_ev => seal_key q = key) (filter_seals tr) /\
    NoDup (map seal_nonce (filter_seals tr)) /\
    (N.of_nat m <= 18446744073709551616 ->
     NoDup (map (fun q : seal_ev => noise_nonce (seal_nonce q)) (filter_seals tr))).
Proof. exact (enc_key_nonce_unique). Qed.
Print Assumptions C07_key_nonce_unique.

(* the nonce encoding is injective on the whole u64 range *)
Theorem C07_nonce12_injective :
  forall n m : N,
  n < 18446744073709551616 -> m < 18446744073709551616 -> noise_nonce n = noise_nonce m -> n = m.
Proof. exact (noise_nonce_inj). Qed.
Print Assumptions C07_nonce12_injective.

(* FILE level, password mode (any plaintext, any reader script, conforming writer for the header): every seal event of a pass_encrypt run is a chunk seal under scrypt(pw, salt), counters 0..m-1, distinct nonces *)
Theorem C07_pass_file_seals :
  forall P : prims,
  hash_ok P ->
  forall (pw salt : bytes) (s0 : io) (r : outcome eerr unit) (s0' : io),
  writer_ok (wtr s0) ->
  pass_encrypt P pw salt s0 = (r, s0') ->
  exists tr : list event, trace s0' = trace s0 ++ tr /\ file_seals_ok (kdf P pw salt) tr.
Proof. exact (pass_encrypt_seals). Qed.
Print Assumptions C07_pass_file_seals.

(* FILE level, key mode: every seal event of a key_encrypt run is a chunk seal under the file key HKDF("", payload, hh), counters 0..m-1, distinct nonces *)
Theorem C07_key_file_seals :
  forall P : prims,
  hash_ok P ->
  forall (fresh_pk fresh_e s spk rpk : bytes) (e epk pk : option bytes) (s0 : io)
    (r : outcome eerr unit) (s0' : io) (msg hh : bytes),
  length (payload_of fresh_pk pk) = 32%nat ->
  writer_ok (wtr s0) ->
  noise_encrypt P fresh_e s spk rpk e epk x_prologue (payload_of fresh_pk pk) = Ok (msg, hh) ->
  key_encrypt P fresh_pk fresh_e s spk rpk e epk pk s0 = (r, s0') ->
  exists tr : list event,
    trace s0' = trace s0 ++ tr /\ file_seals_ok (file_key P (payload_of fresh_pk pk) hh) tr.
Proof. exact (key_encrypt_seals). Qed.
Print Assumptions C07_key_file_seals.

(* what [file_seals_ok K tr] says, unfolded (by definition) *)
Theorem C07_file_seals_ok_meaning :
  forall (K : bytes) (tr : list event),
  file_seals_ok K tr <->
  (exists m : nat,
     map seal_nonce (filter_seals tr) = map N.of_nat (seq 0 m) /\
     Forall (fun q : seal_ev => seal_key q = K) (filter_seals tr) /\
     NoDup (map seal_nonce (filter_seals tr)) /\
     (N.of_nat m <= 18446744073709551616 ->
      NoDup (map (fun q : seal_ev => noise_nonce (seal_nonce q)) (filter_seals tr)))).
Proof. exact (file_seals_ok_unfold). Qed.
Print Assumptions C07_file_seals_ok_meaning.

(* the two handshake seals of a key file (not logged as events): the file is prologue ++ epk' ++ seal(hs_k1, nonce 0, spk) ++ seal(hs_k2, nonce 0, payload) ++ chunk stream — one seal under hs_k1, one under hs_k2, both with counter 0 *)
Theorem C07_handshake_seals :
  forall (P : prims) (fresh_pk fresh_e : bytes) (s : list N) (spk : bytes) (rpk : list N)
    (e epk pk : option bytes) (e' epk' : bytes) (s0 s0' : io) (r : outcome eerr unit),
  hash_ok P ->
  eph_of P fresh_e e epk = (e', epk') ->
  length e' = 32%nat ->
  length s = 32%nat ->
  length rpk = 32%nat ->
  length (payload_of fresh_pk pk) = 32%nat ->
  reader_ok (rdr s0) ->
  writer_ok (wtr s0) ->
  key_encrypt P fresh_pk fresh_e s spk rpk e epk pk s0 = (r, s0') ->
  r = Err EOther /\ s0' = s0 /\ (all_zero (p_dh P e' rpk) = true \/ all_zero (p_dh P s rpk) = true) \/
  r = Ok tt /\
  all_zero (p_dh P e' rpk) = false /\
  all_zero (p_dh P s rpk) = false /\
  (exists hh : bytes,
     w_out (wtr s0') =
     w_out (wtr s0) ++
     x_prologue ++
     epk' ++
     hs_c1 P x_prologue rpk epk' spk (p_dh P e' rpk) ++
     hs_c2 P x_prologue rpk epk' spk (p_dh P e' rpk) (p_dh P s rpk) (payload_of fresh_pk pk) ++
     spec_chunks P (file_key P (payload_of fresh_pk pk) hh) []
       (chunks_of_reads (reads_of (N.to_nat cs_const) (rdr s0)))).
Proof. exact (key_file_structure). Qed.
Print Assumptions C07_handshake_seals.

(* Part 2.  For every stream, every start counter c and EVERY history (list of operations, repetitions of identical operations included): the block indices of all draws, in order, are exactly c, c+1, ..., c + total - 1, and the final counter is c + total *)
Theorem C07_draws_consecutive :
  forall (stream : nat -> bytes) (ops : list op) (c : nat),
  map d_index (all_draws (fst (run_history stream c ops))) = seq c (total_draws ops) /\
  snd (run_history stream c ops) = (c + total_draws ops)%nat.
Proof. exact (run_history_indices). Qed.
Print Assumptions C07_draws_consecutive.

(* hence no stream block is consumed twice in a history: neither by two operations, nor by the two draws within one operation (payload key vs ephemeral key; private key vs lock salt) *)
Theorem C07_draws_disjoint :
  forall (stream : nat -> bytes) (ops : list op) (c : nat),
  NoDup (map d_index (all_draws (fst (run_history stream c ops)))).
Proof. exact (draws_disjoint). Qed.
Print Assumptions C07_draws_disjoint.

(* explicitly: the i-th operation of the history consumes exactly the blocks [c + (draws of the earlier operations), + its own number of draws) *)
Theorem C07_draw_segments :
  forall (stream : nat -> bytes) (ops : list op) (c i : nat) (o : op) (ds : list draw),
  nth_error (fst (run_history stream c ops)) i = Some (o, ds) ->
  nth_error ops i = Some o /\
  map d_index ds = seq (c + total_draws (firstn i ops)) (length (op_roles o)).
Proof. exact (run_history_segment). Qed.
Print Assumptions C07_draw_segments.

(* explicit pairwise form: every block of an earlier operation precedes every block of a later one *)
Theorem C07_draws_ordered :
  forall (stream : nat -> bytes) (ops : list op) (c i j : nat) (oi : op) (dsi : list draw) 
    (oj : op) (dsj : list draw) (x y : draw),
  (i < j)%nat ->
  nth_error (fst (run_history stream c ops)) i = Some (oi, dsi) ->
  nth_error (fst (run_history stream c ops)) j = Some (oj, dsj) ->
  In x dsi -> In y dsj -> (d_index x < d_index y)%nat.
Proof. exact (draws_ordered). Qed.
Print Assumptions C07_draws_ordered.

(* every drawn value is the stream block at its index; the history records the operations in order; each operation draws exactly the roles listed for it, in program order (key-encrypt: payload key then ephemeral key; password-encrypt: salt; key-generate: private key then lock salt; change-password: lock salt) *)
Theorem C07_draw_values :
  forall (stream : nat -> bytes) (ops : list op) (c : nat),
  Forall (fun d : draw => d_value d = stream (d_index d)) (all_draws (fst (run_history stream c ops))) /\
  map fst (fst (run_history stream c ops)) = ops /\
  Forall (fun od : op * list draw => map d_role (snd od) = op_roles (fst od))
    (fst (run_history stream c ops)).
Proof. exact (run_history_values). Qed.
Print Assumptions C07_draw_values.

(* THEREFORE: if the stream's blocks in the consumed range are pairwise distinct, all values drawn in the history — ephemeral keys, payload keys, private keys, file salts, lock salts, across all operations and within each, even for identical inputs — are pairwise distinct.  The premise is the part about the OS generator that is not modelled. *)
Theorem C07_drawn_values_distinct :
  forall (stream : nat -> bytes) (ops : list op) (c : nat),
  (forall i j : nat,
   (c <= i < c + total_draws ops)%nat ->
   (c <= j < c + total_draws ops)%nat -> stream i = stream j -> i = j) ->
  NoDup (map d_value (all_draws (fst (run_history stream c ops)))).
Proof. exact (drawn_values_distinct). Qed.
Print Assumptions C07_drawn_values_distinct.


(* Part 3.  What [drew g g' roles k] says, unfolded: the journal grew by k records whose roles are the first k of [roles], whose block indices are g_next, g_next+1, ..., whose values are the stream's blocks; the counter advanced by k; the stream is unchanged *)
Theorem C07_drew_meaning :
  forall (g g' : rsrc) (roles : list role) (k : nat),
  drew g g' roles k ->
  exists ds : list draw,
    g_log g' = g_log g ++ ds /\
    length ds = k /\
    map d_index ds = seq (g_next g) k /\
    map d_role ds = firstn k roles /\
    Forall (fun d : draw => d_value d = g_stream g (d_index d)) ds /\
    g_next g' = (g_next g + k)%nat /\ g_stream g' = g_stream g.
Proof. exact (drew_meaning). Qed.
Print Assumptions C07_drew_meaning.

(* LIBRARY, any combination of injected values, every primitive record, every io state: key_encrypt run on a random source (i) returns exactly Files.key_encrypt on the next stream block as payload key and the block after it (the same block when the payload key is injected) as ephemeral key, (ii) draws a PREFIX of the roles the injected values leave to be drawn — payload key first, then ephemeral key unless BOTH halves of the pair are injected —, (iii) draws all of them whenever the outcome is a value (Ok or Err) *)
Theorem C07_key_encrypt_draws_general :
  forall (P : prims) (g : rsrc) (s spk r : bytes) (e epk pk : option bytes) (s0 : io)
    (res : outcome eerr unit * io) (g' : rsrc),
  key_encrypt_r P g s spk r e epk pk s0 = (res, g') ->
  res = key_encrypt P (g_stream g (g_next g)) (g_stream g (g_next g + npk pk)%nat) s spk r e epk pk s0 /\
  (exists k : nat,
     drew g g' (key_enc_roles pk e epk) k /\ (normal (fst res) -> k = length (key_enc_roles pk e epk))).
Proof. exact (key_encrypt_r_spec). Qed.
Print Assumptions C07_key_encrypt_draws_general.

(* ... with nothing injected (the operation of Rand.v): the roles are [op_roles OpKeyEncrypt] *)
Theorem C07_key_encrypt_draws :
  forall (P : prims) (g : rsrc) (s spk r : bytes) (s0 : io) (res : outcome eerr unit * io) (g' : rsrc),
  key_encrypt_r P g s spk r None None None s0 = (res, g') ->
  res = key_encrypt P (g_stream g (g_next g)) (g_stream g (S (g_next g))) s spk r None None None s0 /\
  (exists k : nat,
     drew g g' (op_roles OpKeyEncrypt) k /\ (normal (fst res) -> k = length (op_roles OpKeyEncrypt))).
Proof. exact (key_encrypt_draws). Qed.
Print Assumptions C07_key_encrypt_draws.

(* COMMAND encrypt: erasure to Cli.cmd_encrypt; a prefix of [op_roles OpKeyEncrypt]; all of it when the command succeeds or fails inside the library with an EncryptError (a command that fails before the library call draws nothing) *)
Theorem C07_cmd_encrypt_draws :
  forall (P : prims) (pk_ok sk_ok : text -> bool) (unlock : text -> bytes -> outcome kerr bytes)
    (decode_pk : text -> outcome kerr bytes) (utf8_decode : bytes -> option text) (g : rsrc)
    (w : world) (o : enc_opts) (res : cmd_result) (g' : rsrc),
  cmd_encrypt_r P pk_ok sk_ok unlock decode_pk utf8_decode g w o = (res, g') ->
  res =
  cmd_encrypt P pk_ok sk_ok unlock decode_pk utf8_decode w o (g_stream g (g_next g)) (g_stream g (S (g_next g))) /\
  (exists k : nat,
     drew g g' (op_roles OpKeyEncrypt) k /\
     (is_success (status res) = true \/ (exists e : eerr, status res = SEncryptFailed e) ->
      k = length (op_roles OpKeyEncrypt))).
Proof. exact (cmd_encrypt_draws). Qed.
Print Assumptions C07_cmd_encrypt_draws.

(* COMMAND password encrypt: the file salt is drawn after the input/output checks and the password; the library call is Files.pass_encrypt on that salt (inside Cli.cmd_pass_encrypt) *)
Theorem C07_cmd_pass_encrypt_draws :
  forall (P : prims) (g : rsrc) (w : world) (o : pw_opts) (res : cmd_result) (g' : rsrc),
  cmd_pass_encrypt_r P g w o = (res, g') ->
  res = cmd_pass_encrypt P w o (g_stream g (g_next g)) /\
  (exists k : nat,
     drew g g' (op_roles OpPassEncryptCli) k /\
     (is_success (status res) = true \/ (exists e : eerr, status res = SEncryptFailed e) ->
      k = length (op_roles OpPassEncryptCli))).
Proof. exact (cmd_pass_encrypt_draws). Qed.
Print Assumptions C07_cmd_pass_encrypt_draws.

(* COMMAND key generate: private key, then (only if to_public succeeded) the lock salt *)
Theorem C07_cmd_gen_key_draws :
  forall (P : prims) (lock : bytes -> bytes -> bytes -> text) (encode_pk : bytes -> text)
    (utf8_decode : bytes -> option text) (utf8_encode : text -> bytes) (g : rsrc) (w : world)
    (o : gen_opts) (res : cmd_result) (g' : rsrc),
  cmd_gen_key_r P lock encode_pk utf8_decode utf8_encode g w o = (res, g') ->
  res =
  cmd_gen_key P lock encode_pk utf8_decode utf8_encode w o (g_stream g (g_next g)) (g_stream g (S (g_next g))) /\
  (exists k : nat,
     drew g g' (op_roles OpKeyGenerate) k /\
     (is_success (status res) = true -> k = length (op_roles OpKeyGenerate))).
Proof. exact (cmd_gen_key_draws). Qed.
Print Assumptions C07_cmd_gen_key_draws.

(* COMMAND key change-pass: the new lock salt, drawn after the old key was unlocked *)
Theorem C07_cmd_change_pass_draws :
  forall (unlock : text -> bytes -> outcome kerr bytes) (lock : bytes -> bytes -> bytes -> text)
    (sk_string_ok : text -> bool) (utf8_encode : text -> bytes) (g : rsrc) (w : world)
    (key : text) (ep : bool) (res : cmd_result) (g' : rsrc),
  cmd_change_pass_r unlock lock sk_string_ok utf8_encode g w key ep = (res, g') ->
  res = cmd_change_pass unlock lock sk_string_ok utf8_encode w key ep (g_stream g (g_next g)) /\
  (exists k : nat,
     drew g g' (op_roles OpChangePass) k /\
     (is_success (status res) = true -> k = length (op_roles OpChangePass))).
Proof. exact (cmd_change_pass_draws). Qed.
Print Assumptions C07_cmd_change_pass_draws.

(* the four commands in one statement: [rcmd_op c] is the operation of Rand.v the command stands for *)
Theorem C07_command_draws :
  forall (P : prims) (pk_ok sk_ok : text -> bool) (unlock : text -> bytes -> outcome kerr bytes)
    (lock : bytes -> bytes -> bytes -> text) (decode_pk : text -> outcome kerr bytes)
    (encode_pk : bytes -> text) (sk_string_ok : text -> bool) (utf8_decode : bytes -> option text)
    (utf8_encode : text -> bytes) (g : rsrc) (c : rcmd) (res : cmd_result) (g' : rsrc),
  run_rcmd P pk_ok sk_ok unlock lock decode_pk encode_pk sk_string_ok utf8_decode utf8_encode g c = (res, g') ->
  res =
  run_rcmd_explicit P pk_ok sk_ok unlock lock decode_pk encode_pk sk_string_ok utf8_decode utf8_encode c
    (g_stream g (g_next g)) (g_stream g (S (g_next g))) /\
  (exists k : nat,
     drew g g' (op_roles (rcmd_op c)) k /\ (is_success (status res) = true -> k = length (op_roles (rcmd_op c)))).
Proof. exact (run_rcmd_draws). Qed.
Print Assumptions C07_command_draws.

(* HISTORY, any outcome of any command: the commands of a history on one source consume consecutive blocks (no gap, no block twice), every journalled value is the stream block at its index *)
Theorem C07_history_draws_consecutive :
  forall (P : prims) (pk_ok sk_ok : text -> bool) (unlock : text -> bytes -> outcome kerr bytes)
    (lock : bytes -> bytes -> bytes -> text) (decode_pk : text -> outcome kerr bytes)
    (encode_pk : bytes -> text) (sk_string_ok : text -> bool) (utf8_decode : bytes -> option text)
    (utf8_encode : text -> bytes) (cs : list rcmd) (g : rsrc) (results : list cmd_result)
    (g' : rsrc),
  run_rcmds P pk_ok sk_ok unlock lock decode_pk encode_pk sk_string_ok utf8_decode utf8_encode g cs =
  (results, g') ->
  length results = length cs /\
  (exists ds : list draw,
     g_log g' = g_log g ++ ds /\
     map d_index ds = seq (g_next g) (length ds) /\
     g_next g' = (g_next g + length ds)%nat /\
     g_stream g' = g_stream g /\ Forall (fun d : draw => d_value d = g_stream g (d_index d)) ds).
Proof. exact (run_rcmds_consecutive). Qed.
Print Assumptions C07_history_draws_consecutive.

(* HISTORY in which every command succeeds: the journal is exactly the draws Rand.run_history assigns to the operations — the object of C07_draws_consecutive .. C07_drawn_values_distinct above — and the source ends at run_history's final counter *)
Theorem C07_history_draws_are_run_history :
  forall (P : prims) (pk_ok sk_ok : text -> bool) (unlock : text -> bytes -> outcome kerr bytes)
    (lock : bytes -> bytes -> bytes -> text) (decode_pk : text -> outcome kerr bytes)
    (encode_pk : bytes -> text) (sk_string_ok : text -> bool) (utf8_decode : bytes -> option text)
    (utf8_encode : text -> bytes) (cs : list rcmd) (g : rsrc) (results : list cmd_result)
    (g' : rsrc),
  run_rcmds P pk_ok sk_ok unlock lock decode_pk encode_pk sk_string_ok utf8_decode utf8_encode g cs =
  (results, g') ->
  Forall (fun r : cmd_result => is_success (status r) = true) results ->
  g_log g' = g_log g ++ all_draws (fst (run_history (g_stream g) (g_next g) (map rcmd_op cs))) /\
  g_next g' = snd (run_history (g_stream g) (g_next g) (map rcmd_op cs)) /\ g_stream g' = g_stream g.
Proof. exact (run_rcmds_complete). Qed.
Print Assumptions C07_history_draws_are_run_history.

(* non-vacuity (toy primitives, by computation): a complete run, two strict-prefix runs (a panic before token e; a stream block of 31 bytes), a half-injected ephemeral pair (still drawn), everything injected (nothing drawn) *)
Theorem C07_draw_prefix_examples :
  toy_run 32 false None None None = (true, [RPayloadKey; REphemeralKey], 7%nat) /\
  toy_run 0 false None None None = (false, [RPayloadKey], 6%nat) /\
  toy_run 32 true None None None = (false, [RPayloadKey], 6%nat) /\
  toy_run 32 false (Some (zeros 32)) None (Some (zeros 32)) = (true, [REphemeralKey], 6%nat) /\
  toy_run 32 false (Some (zeros 32)) (Some (zeros 32)) (Some (zeros 32)) = (true, [], 5%nat).
Proof.
  exact (conj toy_complete (conj toy_prefix_early_panic (conj toy_prefix_short_block
          (conj toy_half_injected toy_all_injected)))).
Qed.
Print Assumptions C07_draw_prefix_examples.
