(* Props/C17.v — property C17: keyring parsing is complete, unambiguous, checksummed and crash-free.
   Statements only; proofs are in Proofs/KeyringRefine.v and KeyringFacts.v.

   Model: Keyring::parse_config over texts as lists of Unicode scalar values (lines, White_Space trimming, TAB
   removal, split at the first '=', UTF-8 byte length for the 128-byte name bound), add_key with its duplicate
   checks, get_key, get_name_from_key, encode/decode_public_key, serialize_key (Model/KeyringText.v, Keyring.v).
   Declarative specification [accepts] (Model/KeyringSpec.v): the cleaned lines are blank/comment lines followed
   by one or more sections "[Key]" body; each body has exactly one Name (valid: 1..128 bytes), exactly one
   well-formed PublicKey, at most one well-formed PrivateKey, nothing else but blanks and comments; the entries
   are the sections in order; names pairwise distinct, public-key strings pairwise distinct.
   The parser theorems are proved for ARBITRARY key-string checks pk_ok / sk_ok and are INSTANTIATED HERE at the
   real ones: [pk_string_ok] = EncodedPk::try_from(..).is_ok() (strict base64 of 36 bytes), [sk_string_ok] =
   EncodedSk::try_from(..).is_ok() (strict base64 of 84 bytes).
   All theorems are for EVERY text / every entry list.  (The TAB-in-name defect found on the pinned code was
   repaired in /repo; [valid_key_name] here is the repaired check, and written_parses_back holds without
   exception.)  Not covered here: the CLI's file handling around the keyring (C14). *)
From Kestrel Require Import Bytes BytesFacts Outcome Prims.
From Kestrel.gen Require Import Extracted.
From Kestrel.Spec Require Import Base64 Base64Facts.
From Kestrel.Model Require Import AeadWrap KeyringText KeyringSpec Keyring.
From Kestrel.Proofs Require Import KeyringRefine KeyringFacts.
Local Open Scope N_scope.

(* ACCEPTANCE = SPECIFICATION, both directions, every text: parse_config returns Ok ks if and only if the text is accepted with entries ks by the declarative specification.  So a keyring is accepted ONLY IF every [Key] section has a valid name and a well-formed public key, private keys where present are well formed and no name or public key occurs twice — and on acceptance the entries are exactly the sections in order. *)
Theorem C17_parse_refines_spec :
  forall (t : text) (ks : list entry),
  parse_config pk_string_ok sk_string_ok t = Ok ks <-> accepts pk_string_ok sk_string_ok t ks.
Proof. exact (parse_refines_spec pk_string_ok sk_string_ok). Qed.
Print Assumptions C17_parse_refines_spec.

(* no input text makes the parser crash or loop: the result is Ok or Err *)
Theorem C17_parse_total :
  forall t : text, normal (parse_config pk_string_ok sk_string_ok t).
Proof. exact (parse_total pk_string_ok sk_string_ok). Qed.
Print Assumptions C17_parse_total.

(* on acceptance names are pairwise distinct and public-key strings are pairwise distinct *)
Theorem C17_names_and_keys_unique :
  forall (t : text) (ks : list entry),
  parse_config pk_string_ok sk_string_ok t = Ok ks -> NoDup (map k_name ks) /\ NoDup (map k_pub ks).
Proof. exact (parse_names_nodup pk_string_ok sk_string_ok). Qed.
Print Assumptions C17_names_and_keys_unique.

(* on acceptance every entry has a valid name (1..128 bytes), a public key accepted by EncodedPk::try_from and, if present, a private key accepted by EncodedSk::try_from *)
Theorem C17_entries_valid :
  forall (t : text) (ks : list entry),
  parse_config pk_string_ok sk_string_ok t = Ok ks ->
  Forall
    (fun k : entry =>
     valid_key_name (k_name k) = true /\
     pk_string_ok (k_pub k) = true /\ (forall s : text, k_priv k = Some s -> sk_string_ok s = true)) ks.
Proof. exact (parse_entries_valid pk_string_ok sk_string_ok). Qed.
Print Assumptions C17_entries_valid.

(* an accepted keyring has at least one key *)
Theorem C17_parse_nonempty :
  forall (t : text) (ks : list entry), parse_config pk_string_ok sk_string_ok t = Ok ks -> ks <> [].
Proof. exact (parse_nonempty pk_string_ok sk_string_ok). Qed.
Print Assumptions C17_parse_nonempty.

(* with distinct names, a lookup by an entry's name returns exactly that entry: at most one answer *)
Theorem C17_lookup_by_name_unique :
  forall (ks : list entry) (k : entry),
  NoDup (map k_name ks) -> In k ks -> get_key ks (k_name k) = Some k.
Proof. exact (get_key_unique). Qed.
Print Assumptions C17_lookup_by_name_unique.

(* with distinct public keys, a lookup by an entry's public key returns exactly that entry's name *)
Theorem C17_lookup_by_key_unique :
  forall (ks : list entry) (k : entry),
  NoDup (map k_pub ks) -> In k ks -> get_name_from_key ks (k_pub k) = Some (k_name k).
Proof. exact (get_name_unique). Qed.
Print Assumptions C17_lookup_by_key_unique.

(* in general a lookup returns an entry of the list with the requested name *)
Theorem C17_lookup_by_name_sound :
  forall (ks : list entry) (n : text) (k : entry), get_key ks n = Some k -> In k ks /\ k_name k = n.
Proof. exact (get_key_some). Qed.
Print Assumptions C17_lookup_by_name_sound.

(* EVERY KEYRING THE TOOL WRITES PARSES BACK: for every list of entries with generator-accepted names (valid, trimmed, no newline), well-formed key strings, pairwise distinct names and pairwise distinct public keys, the text the tool writes (serialize_key outputs separated by newlines) parses to exactly those entries *)
Theorem C17_written_parses_back :
  forall es : list entry,
  es <> [] ->
  Forall (gen_entry_ok pk_string_ok sk_string_ok) es ->
  NoDup (map k_name es) ->
  NoDup (map k_pub es) -> parse_config pk_string_ok sk_string_ok (keyring_text es) = Ok es.
Proof. exact (written_parses_back pk_string_ok sk_string_ok). Qed.
Print Assumptions C17_written_parses_back.

(* one generated key alone *)
Theorem C17_single_key_parses_back :
  forall e : entry,
  gen_entry_ok pk_string_ok sk_string_ok e ->
  parse_config pk_string_ok sk_string_ok (entry_text e) = Ok [e].
Proof. exact (parse_single_key pk_string_ok sk_string_ok). Qed.
Print Assumptions C17_single_key_parses_back.

(* appending "\n" ++ a generated key to ANY accepted keyring text (whether or not it ends in a newline, with comments, ...) yields a text that parses to the old entries followed by the new one *)
Theorem C17_append_key_parses :
  forall (t0 : text) (ks0 : list entry) (e : entry),
  parse_config pk_string_ok sk_string_ok t0 = Ok ks0 ->
  gen_entry_ok pk_string_ok sk_string_ok e ->
  ~ In (k_name e) (map k_name ks0) ->
  ~ In (k_pub e) (map k_pub ks0) ->
  parse_config pk_string_ok sk_string_ok (t0 ++ [c_nl] ++ entry_text e) = Ok (ks0 ++ [e]).
Proof. exact (parse_append_key pk_string_ok sk_string_ok). Qed.
Print Assumptions C17_append_key_parses.

(* the entry that key generation writes satisfies the writer-side conditions (for the real encodings) *)
Theorem C17_generated_entry_is_ok :
  forall P : prims,
  aead_ok P ->
  hash_ok P ->
  prims_bytes_ok P ->
  forall (name : text) (sk : list N) (pw : bytes) (salt : list N),
  gen_name_ok name ->
  length sk = 32%nat ->
  bytes_ok sk ->
  length salt = 32%nat ->
  bytes_ok salt ->
  exists epk esk : text,
    encode_public_key P (dh_pub P sk) = Ok epk /\
    lock_private_key P sk pw salt = Ok esk /\
    gen_entry_ok pk_string_ok sk_string_ok {| k_name := name; k_pub := epk; k_priv := Some esk |}.
Proof. exact (gen_entry_is_ok). Qed.
Print Assumptions C17_generated_entry_is_ok.

(* CHECKSUM: an encoded public key accepted by EncodedPk::try_from decodes to pk IF AND ONLY IF its 36 bytes are pk followed by the first 4 bytes of SHA-256(pk) *)
Theorem C17_checksum :
  forall P : prims,
  hash_ok P ->
  forall (e : text) (pk : bytes),
  pk_string_ok e = true ->
  decode_public_key P e = Ok pk <->
  (exists b : bytes, b64_decode e = Some b /\ pk = firstn 32 b /\ skipn 32 b = firstn 4 (p_hash P pk)).
Proof. exact (decode_checksum). Qed.
Print Assumptions C17_checksum.

(* otherwise the result is exactly the PublicKeyChecksum error *)
Theorem C17_checksum_mismatch_is_error :
  forall P : prims,
  hash_ok P ->
  forall e : text,
  pk_string_ok e = true ->
  (forall pk : bytes, decode_public_key P e <> Ok pk) -> decode_public_key P e = Err PublicKeyChecksum.
Proof. exact (decode_checksum_err). Qed.
Print Assumptions C17_checksum_mismatch_is_error.

(* never a panic on accepted strings *)
Theorem C17_decode_never_panics :
  forall P : prims,
  hash_ok P ->
  forall e : text,
  pk_string_ok e = true ->
  (exists pk : bytes, decode_public_key P e = Ok pk) \/ decode_public_key P e = Err PublicKeyChecksum.
Proof. exact (decode_never_panics). Qed.
Print Assumptions C17_decode_never_panics.

(* round trip: every 32-byte public key encodes to a 48-character string that EncodedPk::try_from accepts and that decodes back to it *)
Theorem C17_decode_encode_pk :
  forall P : prims,
  hash_ok P ->
  prims_bytes_ok P ->
  forall pk : list N,
  length pk = 32%nat ->
  bytes_ok pk ->
  exists e : text,
    encode_public_key P pk = Ok e /\
    pk_string_ok e = true /\ length e = 48%nat /\ decode_public_key P e = Ok pk.
Proof. exact (decode_encode_pk). Qed.
Print Assumptions C17_decode_encode_pk.

(* different public keys have different encodings *)
Theorem C17_encode_pk_injective :
  forall P : prims,
  hash_ok P ->
  prims_bytes_ok P ->
  forall (pk1 pk2 : bytes) (e : text),
  bytes_ok pk1 ->
  bytes_ok pk2 -> encode_public_key P pk1 = Ok e -> encode_public_key P pk2 = Ok e -> pk1 = pk2.
Proof. exact (encode_pk_inj). Qed.
Print Assumptions C17_encode_pk_injective.

(* EncodedPk::try_from accepts exactly the strict base64 strings of 36 bytes *)
Theorem C17_pk_string_ok_iff :
  forall s : text,
  pk_string_ok s = true <-> (exists b : bytes, b64_decode s = Some b /\ length b = 36%nat).
Proof. exact (pk_string_ok_iff). Qed.
Print Assumptions C17_pk_string_ok_iff.

(* accepted public-key strings have 48 characters *)
Theorem C17_pk_string_length :
  forall s : text, pk_string_ok s = true -> length s = 48%nat.
Proof. exact (pk_string_ok_length). Qed.
Print Assumptions C17_pk_string_length.

(* the generator end to end: a key generated (fresh name, fresh encoded key) and appended to an accepted keyring text parses back as the last entry, with the names and keys that were written, and is usable *)
Theorem C17_generated_keys_usable :
  forall P : prims,
  aead_ok P ->
  hash_ok P ->
  prims_bytes_ok P ->
  forall (t0 : text) (ks0 : list entry) (name : text) (sk : list N) (pw : bytes) 
    (salt : list N) (txt epk : text),
  gen_name_ok name ->
  length sk = 32%nat ->
  bytes_ok sk ->
  length salt = 32%nat ->
  bytes_ok salt ->
  parse_config pk_string_ok sk_string_ok t0 = Ok ks0 ->
  gen_key_text P name sk pw salt = Ok txt ->
  encode_public_key P (dh_pub P sk) = Ok epk ->
  ~ In name (map k_name ks0) ->
  ~ In epk (map k_pub ks0) ->
  exists esk : text,
    parse_config pk_string_ok sk_string_ok (t0 ++ [c_nl] ++ txt) =
    Ok (ks0 ++ [{| k_name := name; k_pub := epk; k_priv := Some esk |}]) /\
    unlock_private_key P esk pw = Ok sk /\
    decode_public_key P epk = Ok (dh_pub P sk) /\ extract_pub P esk pw = Ok (s_pub ++ s_sp_eq_sp ++ epk).
Proof. exact (generated_keys_usable). Qed.
Print Assumptions C17_generated_keys_usable.


(* keyring keywords, separators, the name limit and the base64 use of the CURRENT sources (tools/extract.py), tied to the
   model's own constants and functions *)
(* a Rust format string with "{}" placeholders filled from a list of texts *)
Fixpoint x_fmt (f : text) (args : list text) : text :=
  match f with
  | [] => []
  | c :: r =>
    match r with
    | d :: r' =>
      if ((c =? 123) && (d =? 125))%bool
      then match args with a :: rest => a ++ x_fmt r' rest | [] => x_fmt r' [] end
      else c :: x_fmt r args
    | [] => [c]
    end
  end.

Theorem C17_keyword_constants :
  x_kr_kw_hdr = s_hdr /\ x_kr_kw_name = s_name /\ x_kr_kw_pub = s_pub /\ x_kr_kw_priv = s_priv /\
  x_kr_comment_char = c_hash /\ x_kr_strip_char = c_tab /\ x_kr_split_chars = [c_eq; c_eq; c_eq] /\
  x_kr_trim_calls = 4 /\ x_kr_lines_calls = 1 /\
  (* serialize_key of the model IS the extracted format string *)
  x_kr_serialize_args = [RParam 0; RParam 1; RParam 2] /\
  (forall name pk sk : text, serialize_key name pk sk = x_fmt x_kr_serialize_fmt [name; pk; sk]) /\
  (* the name bound: the model's limit and predicate are the extracted ones *)
  x_kr_max_name_size = MAX_NAME_SIZE /\ x_kr_name_forbidden_char = c_tab /\ x_kr_name_empty_rejected = 1 /\
  (forall name : text,
     valid_key_name name =
     negb (is_empty name || (x_kr_max_name_size <? utf8_len name) || existsb (fun c => c =? x_kr_name_forbidden_char) name)) /\
  (* key strings: base64 "Original" with padding, strict (ignore = None), ct-codecs 1.1.3 (what Spec/Base64.v transcribes);
     36 = 32 + 4 and 84 bytes *)
  x_kr_b64_codec_is_original = 1 /\ x_kr_b64_ignore_is_none = 1 /\ x_kr_b64_decode_calls = 4 /\ x_kr_b64_encode_calls = 2 /\
  x_dep_ct_codecs_version = [1; 1; 3] /\
  x_kr_encoded_pk_try_len = x_kr_encoded_pk_len /\ x_kr_encoded_sk_try_len = x_kr_private_key_ct_len /\
  (forall s : text, pk_string_ok s = match b64_decode s with Some b => Nat.eqb (length b) (N.to_nat x_kr_encoded_pk_try_len) | None => false end) /\
  (forall s : text, sk_string_ok s = match b64_decode s with Some b => Nat.eqb (length b) (N.to_nat x_kr_encoded_sk_try_len) | None => false end) /\
  (* the lines change-pass and extract-pub print *)
  (forall s : text, x_fmt x_cli_change_pass_fmt [s] = s_priv ++ s_sp_eq_sp ++ s) /\
  (forall s : text, x_fmt x_cli_extract_pub_fmt [s] = s_pub ++ s_sp_eq_sp ++ s) /\
  (forall s : text, x_fmt x_cli_gen_append_fmt [s] = c_nl :: s) /\
  x_cli_change_pass_fmt_tty = c_nl :: x_cli_change_pass_fmt.
Proof.
  repeat split; intros; try reflexivity; cbn; rewrite ?app_nil_r; reflexivity.
Qed.
Print Assumptions C17_keyword_constants.
