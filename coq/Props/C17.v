(* Props/C17.v — PLACEHOLDER created by the check-writer for local testing only; to be replaced by the
   real theorems of property C17. *)
Example C17_placeholder : True.
Proof. exact I. Qed.
Print Assumptions C17_placeholder.
