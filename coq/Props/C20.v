(* Props/C20.v — property C20: key containers erase their bytes when dropped.   PARTIAL.
   Statements only; proofs are in Proofs/ZeroizeFacts.v.

   Everything here is about the abstract machine of Model/Zeroize.v: a heap of blocks, a list of live
   key containers, operations ONew b (Generate / FromBytes / PayloadKey::new: allocate a block holding b),
   OClone i (clone container i: NEW block, equal contents), ODrop i (drop container i: overwrite its block
   with zeros of the same length, then release it).  [run true ops] is the machine with the Drop
   implementation of the code (zeroize, then release); the journal records every released block with its
   contents AT THE MOMENT OF RELEASE, which is what the instrumented allocator of the harness observes.
   All theorems quantify over EVERY operation history [ops] (all constructors, all clone/drop orders).

   PARTIAL: that the Rust containers behave like this machine is NOT proved here — it is observed by the
   harness (allocator hook, journal compared block for block).  Not modelled: compiler elision of the
   zeroing writes (the zeroize crate's volatile-write guarantee is trusted), copies left on the stack,
   heap temporaries that are not key containers. *)
From Kestrel Require Import Bytes BytesFacts.
From Kestrel.Model Require Import Zeroize.
From Kestrel.Proofs Require Import ZeroizeFacts.

(* every block in the release journal of every history is all zeros at the moment of release (c equals zeros of its own length) *)
Theorem C20_freed_blocks_zero :
  forall (ops : list op) (id : nat) (c : bytes),
  In (id, c) (journal (heap_of (run true ops))) -> c = zeros (length c).
Proof. exact (freed_blocks_zero). Qed.
Print Assumptions C20_freed_blocks_zero.

(* the same as seen by the observing allocator: every reported block content is all zeros *)
Theorem C20_observed_all_zero :
  forall ops : list op, Forall (fun c : list N => c = zeros (length c)) (observe (run true ops)).
Proof. exact (observe_all_zero). Qed.
Print Assumptions C20_observed_all_zero.

(* ... and it has exactly the length of the secret b it was allocated for (directly by ONew b, or through a chain of clones): the whole secret was overwritten, not a part of it *)
Theorem C20_freed_is_zeros_of_origin :
  forall (ops : list op) (id : nat) (c : bytes),
  In (id, c) (journal (heap_of (run true ops))) ->
  exists b : bytes, origin true ops id = Some b /\ In (ONew b) ops /\ c = zeros (length b).
Proof. exact (freed_is_zeros_of_origin). Qed.
Print Assumptions C20_freed_is_zeros_of_origin.

(* length form of the previous statement *)
Theorem C20_freed_length :
  forall (ops : list op) (id : nat) (c : bytes),
  In (id, c) (journal (heap_of (run true ops))) ->
  exists b : bytes, origin true ops id = Some b /\ In (ONew b) ops /\ length c = length b.
Proof. exact (freed_length). Qed.
Print Assumptions C20_freed_length.

(* no block is released twice *)
Theorem C20_no_double_free :
  forall ops : list op, NoDup (map fst (journal (heap_of (run true ops)))).
Proof. exact (no_double_free). Qed.
Print Assumptions C20_no_double_free.

(* two live containers never share a block (a clone owns its own block) *)
Theorem C20_live_distinct :
  forall ops : list op, NoDup (conts (run true ops)).
Proof. exact (live_distinct). Qed.
Print Assumptions C20_live_distinct.

(* the same, by handle position *)
Theorem C20_handles_distinct :
  forall (ops : list op) (j k a : nat),
  nth_error (conts (run true ops)) j = Some a -> nth_error (conts (run true ops)) k = Some a -> j = k.
Proof. exact (handles_distinct). Qed.
Print Assumptions C20_handles_distinct.

(* no live container refers to a released block *)
Theorem C20_live_not_freed :
  forall (ops : list op) (id : nat),
  In id (conts (run true ops)) -> ~ In id (map fst (journal (heap_of (run true ops)))).
Proof. exact (live_not_freed). Qed.
Print Assumptions C20_live_not_freed.

(* every live container's block is in the live heap *)
Theorem C20_owned_are_live :
  forall (ops : list op) (id : nat),
  In id (conts (run true ops)) -> In id (map fst (live (heap_of (run true ops)))).
Proof. exact (owned_are_live). Qed.
Print Assumptions C20_owned_are_live.

(* every live heap block is owned by a live container: no secret-holding block is leaked without an owner *)
Theorem C20_live_are_owned :
  forall (ops : list op) (id : nat),
  In id (map fst (live (heap_of (run true ops)))) -> In id (conts (run true ops)).
Proof. exact (live_are_owned). Qed.
Print Assumptions C20_live_are_owned.

(* live block ids are pairwise distinct *)
Theorem C20_live_blocks_distinct :
  forall ops : list op, NoDup (map fst (live (heap_of (run true ops)))).
Proof. exact (live_blocks_distinct). Qed.
Print Assumptions C20_live_blocks_distinct.

(* dropping container i leaves the contents of every other container j unchanged *)
Theorem C20_drop_preserves_others :
  forall (ops : list op) (i j idj : nat) (c : bytes),
  let s := run true ops in
  j <> i ->
  nth_error (conts s) j = Some idj ->
  lookup idj (live (heap_of s)) = Some c ->
  let s' := step true s (ODrop i) in lookup idj (live (heap_of s')) = Some c /\ In idj (conts s').
Proof. exact (drop_preserves_others). Qed.
Print Assumptions C20_drop_preserves_others.

(* a clone gets a fresh block with the same contents; dropping either the clone or the original leaves the other intact *)
Theorem C20_clone_independent :
  forall (ops : list op) (i : nat),
  let s := run true ops in
  let n := length (conts s) in
  i < n ->
  let s1 := step true s (OClone i) in
  exists (idi idn : nat) (c : bytes),
    nth_error (conts s1) i = Some idi /\
    nth_error (conts s1) n = Some idn /\
    idn <> idi /\
    (forall k idk : nat, k <> n -> nth_error (conts s1) k = Some idk -> idk <> idn) /\
    lookup idi (live (heap_of s1)) = Some c /\
    lookup idn (live (heap_of s1)) = Some c /\
    lookup idi (live (heap_of (step true s1 (ODrop n)))) = Some c /\
    In idi (conts (step true s1 (ODrop n))) /\
    lookup idn (live (heap_of (step true s1 (ODrop i)))) = Some c /\
    In idn (conts (step true s1 (ODrop i))).
Proof. exact (clone_independent). Qed.
Print Assumptions C20_clone_independent.

(* every allocated block is either still live or in the release journal *)
Theorem C20_conservation :
  forall ops : list op,
  allocs true ops = length (live (heap_of (run true ops))) + length (journal (heap_of (run true ops))).
Proof. exact (conservation). Qed.
Print Assumptions C20_conservation.

(* allocations = live containers + released blocks: every container ever created is live or was released (and then zeroed, by C20_freed_blocks_zero) *)
Theorem C20_conservation_containers :
  forall ops : list op,
  allocs true ops = length (conts (run true ops)) + length (journal (heap_of (run true ops))).
Proof. exact (conservation_containers). Qed.
Print Assumptions C20_conservation_containers.

(* the contents of a live block are the secret it was created for (operations never alter live secrets) *)
Theorem C20_live_contents_origin :
  forall (ops : list op) (id : nat) (c : bytes),
  In (id, c) (live (heap_of (run true ops))) -> origin true ops id = Some c /\ In (ONew c) ops.
Proof. exact (live_contents_origin). Qed.
Print Assumptions C20_live_contents_origin.

(* the machine invariant from which the above follow holds after every history *)
Theorem C20_invariant :
  forall ops : list op, Inv (run true ops).
Proof. exact (run_Inv). Qed.
Print Assumptions C20_invariant.

(* non-vacuity: for the variant of the machine whose Drop does NOT zeroize ([run false]) the headline statement is false — some history releases a block that still holds the secret.  So C20_freed_blocks_zero does distinguish the code's Drop from a broken one. *)
Theorem C20_broken_variant_leaks :
  exists (ops : list op) (id : nat) (c : bytes),
    In (id, c) (journal (heap_of (run false ops))) /\ c <> zeros (length c).
Proof. exact (broken_variant_leaks). Qed.
Print Assumptions C20_broken_variant_leaks.

