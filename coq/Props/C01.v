(* Props/C01.v — property C01: key-mode round trip, decryption names the sender.
   Statements only; proofs are in Proofs/CombineFiles.v (which combines FilesFacts, NoiseFacts, ChunksEnc, ChunksDec).

   Reading guide.  [P : prims] is the record of external primitives (SHA-256, HMAC, HKDF, X25519, the AEAD,
   scrypt); [aead_ok P] = open inverts seal + length laws, [hash_ok P] = output lengths only; both are PROVED
   for the RFC instance (Spec/Concrete.v).  [dh_comm P] (X25519 commutativity, p_dh a (pub b) = p_dh b (pub a))
   is an EXPLICIT HYPOTHESIS: it is the group law of Curve25519 and is not proved in this development.
   An [io] state is a scripted reader (data + what each Read::read call does), a scripted writer (accepted
   bytes + what each Write::write / flush call does) and an event log.  [reader_ok]/[writer_ok] = conforming
   fault-free scripts: every call makes progress (delivers / accepts >= 1 byte, possibly fewer than asked),
   nothing fails.  Quantifying over all such io states is quantifying over EVERY plaintext (r_data of the
   encryptor's reader, any length including 0, 65535, 65536, 65537, k*65536) and EVERY way of splitting
   reads and writes on both the encrypt and the decrypt side.
   [all_zero (p_dh ...) = false] : neither Diffie-Hellman output is the all-zero string (otherwise
   encryption is refused — see C05).  The model's chunk size is the extracted constant 65536. *)
From Kestrel Require Import Bytes Outcome IO Prims.
From Kestrel.gen Require Import Extracted.
From Kestrel.Model Require Import AeadWrap Chunks Noise NoiseSpec Files FilesSpec ChunksSpec CombineDefs.
From Kestrel.Proofs Require Import ChunksDec ChunksEnc CombineFiles.
Local Open Scope N_scope.

(* THE PROPERTY, injected ephemeral / payload keys.  For all primitives with the laws above; all 32-byte sender, ephemeral and recipient private keys s, e, r and 32-byte payload key pk (fresh_pk / fresh_e are the unused random draws); spk, epk, rpk their public keys; both DH outputs non-zero; every encrypt-side io state s0 with conforming scripts and an empty sink: key_encrypt returns Ok, and for EVERY decrypt-side io state s1 with conforming scripts whose data is exactly the bytes written and whose sink is empty, key_decrypt under (r, rpk) returns Ok spk — the sender's static public key — and the bytes it wrote are exactly the original plaintext r_data (rdr s0). *)
Theorem C01_key_file_roundtrip :
  forall (P : prims) (fresh_pk fresh_e : bytes) (s e r pk : list N) (spk epk rpk : bytes),
  aead_ok P ->
  hash_ok P ->
  dh_comm P ->
  length s = 32%nat ->
  length e = 32%nat ->
  length r = 32%nat ->
  length pk = 32%nat ->
  spk = dh_pub P s ->
  epk = dh_pub P e ->
  rpk = dh_pub P r ->
  all_zero (p_dh P e rpk) = false ->
  all_zero (p_dh P s rpk) = false ->
  forall s0 : io,
  reader_ok (rdr s0) ->
  writer_ok (wtr s0) ->
  w_out (wtr s0) = [] ->
  exists s0' : io,
    key_encrypt P fresh_pk fresh_e s spk rpk (Some e) (Some epk) (Some pk) s0 = (Ok tt, s0') /\
    (forall s1 : io,
     reader_ok (rdr s1) ->
     writer_ok (wtr s1) ->
     r_data (rdr s1) = w_out (wtr s0') ->
     w_out (wtr s1) = [] ->
     exists s1' : io, key_decrypt P r rpk s1 = (Ok spk, s1') /\ w_out (wtr s1') = r_data (rdr s0)).
Proof. exact (key_file_roundtrip). Qed.
Print Assumptions C01_key_file_roundtrip.

(* the same when the ephemeral private key and the payload key are NOT injected: they are the 32 random bytes fresh_e, fresh_pk drawn by the implementation (None None None) *)
Theorem C01_key_file_roundtrip_fresh :
  forall (P : prims) (fresh_pk fresh_e s r : list N) (spk rpk : bytes),
  aead_ok P ->
  hash_ok P ->
  dh_comm P ->
  length s = 32%nat ->
  length fresh_e = 32%nat ->
  length r = 32%nat ->
  length fresh_pk = 32%nat ->
  spk = dh_pub P s ->
  rpk = dh_pub P r ->
  all_zero (p_dh P fresh_e rpk) = false ->
  all_zero (p_dh P s rpk) = false ->
  forall s0 : io,
  reader_ok (rdr s0) ->
  writer_ok (wtr s0) ->
  w_out (wtr s0) = [] ->
  exists s0' : io,
    key_encrypt P fresh_pk fresh_e s spk rpk None None None s0 = (Ok tt, s0') /\
    (forall s1 : io,
     reader_ok (rdr s1) ->
     writer_ok (wtr s1) ->
     r_data (rdr s1) = w_out (wtr s0') ->
     w_out (wtr s1) = [] ->
     exists s1' : io, key_decrypt P r rpk s1 = (Ok spk, s1') /\ w_out (wtr s1') = r_data (rdr s0)).
Proof. exact (key_file_roundtrip_fresh). Qed.
Print Assumptions C01_key_file_roundtrip_fresh.

(* general form covering both (eph_of / payload_of select injected or fresh values), sinks that already hold bytes (F is what this run appended; the decryptor appends the plaintext to what its sink held), and additionally: the decryptor consumed the whole file (r_data (rdr s1') = []) *)
Theorem C01_key_file_roundtrip_gen :
  forall (P : prims) (fresh_pk fresh_e : bytes) (s r : list N) (e epk pk : option bytes) (e' : bytes),
  aead_ok P ->
  hash_ok P ->
  dh_comm P ->
  eph_of P fresh_e e epk = (e', dh_pub P e') ->
  length e' = 32%nat ->
  length s = 32%nat ->
  length r = 32%nat ->
  length (payload_of fresh_pk pk) = 32%nat ->
  all_zero (p_dh P e' (dh_pub P r)) = false ->
  all_zero (p_dh P s (dh_pub P r)) = false ->
  forall s0 : io,
  reader_ok (rdr s0) ->
  writer_ok (wtr s0) ->
  exists (s0' : io) (F : list N),
    key_encrypt P fresh_pk fresh_e s (dh_pub P s) (dh_pub P r) e epk pk s0 = (Ok tt, s0') /\
    w_out (wtr s0') = w_out (wtr s0) ++ F /\
    (forall s1 : io,
     reader_ok (rdr s1) ->
     writer_ok (wtr s1) ->
     r_data (rdr s1) = F ->
     exists s1' : io,
       key_decrypt P r (dh_pub P r) s1 = (Ok (dh_pub P s), s1') /\
       w_out (wtr s1') = w_out (wtr s1) ++ r_data (rdr s0) /\ r_data (rdr s1') = []).
Proof. exact (key_file_roundtrip_gen). Qed.
Print Assumptions C01_key_file_roundtrip_gen.

(* (kept from the earlier version) chunk layer: every legal chunking of a plaintext decrypts under every conforming schedule *)
Theorem C01_chunks_decrypt_under_every_schedule :
  forall (P : prims) (key aad : bytes) (cs : N),
  length key = 32%nat ->
  aead_ok P ->
  cs < 4294967296 ->
  forall (chunks : list bytes) (n : N) (s : io) (fuel : nat),
  chunks <> [] ->
  Forall (chunk_ok cs) chunks ->
  reader_ok (rdr s) ->
  writer_ok (wtr s) ->
  r_data (rdr s) = spec_chunks_from P key aad n chunks ->
  (length chunks <= fuel)%nat ->
  exists s' : io,
    decrypt_chunks_loop P fuel key aad cs n s = (Ok tt, s') /\
    w_out (wtr s') = w_out (wtr s) ++ concat chunks /\ r_data (rdr s') = [].
Proof. exact (dec_spec_chunks_ok). Qed.
Print Assumptions C01_chunks_decrypt_under_every_schedule.

(* "every partition of the plaintext into positive-size reads" is covered by "every conforming reader": for every list of pieces (each non-empty, at most cs bytes) the reader that delivers exactly these pieces, one per call, is conforming ... *)
Theorem C01_every_partition_is_a_conforming_reader :
  forall cs : nat,
  (1 <= cs)%nat ->
  forall parts : list bytes, Forall (piece_ok cs) parts -> reader_ok (part_reader parts).
Proof. exact (part_reader_ok). Qed.
Print Assumptions C01_every_partition_is_a_conforming_reader.

(* ... and the sequence of read results the encryptor obtains from it is exactly that list of pieces *)
Theorem C01_partition_reader_delivers_partition :
  forall (cs : nat) (parts : list bytes),
  Forall (piece_ok cs) parts ->
  reads_of cs {| r_data := concat parts; r_script := map (fun p : list N => RCap (length p)) parts |} =
  parts.
Proof. exact (reads_of_parts). Qed.
Print Assumptions C01_partition_reader_delivers_partition.

