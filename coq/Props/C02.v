(* Props/C02.v — password-mode round trip (chunk layer so far; handshake and file layer are being added). *)
From Kestrel Require Import Bytes Outcome IO Prims.
From Kestrel.Model Require Import AeadWrap Chunks.
From Kestrel.Proofs Require Import ChunksDec.
Local Open Scope N_scope.

Theorem C02_chunks_decrypt_under_every_schedule :
  forall (P : prims) (key aad : bytes) (cs : N), length key = 32%nat -> aead_ok P -> cs < 4294967296 ->
  forall chunks n s fuel, chunks <> [] -> Forall (chunk_ok cs) chunks ->
    reader_ok (rdr s) -> writer_ok (wtr s) ->
    r_data (rdr s) = spec_chunks_from P key aad n chunks -> (length chunks <= fuel)%nat ->
    exists s', decrypt_chunks_loop P fuel key aad cs n s = (Ok tt, s') /\
               w_out (wtr s') = w_out (wtr s) ++ concat chunks /\ r_data (rdr s') = [].
Proof. intros P key aad cs Hk Ha Hc. exact (dec_spec_chunks_ok P key aad cs Hk Ha Hc). Qed.
Print Assumptions C02_chunks_decrypt_under_every_schedule.
