(* Props/C02.v — property C02: password-mode round trip; other passwords are rejected and release nothing.
   Statements only; proofs are in Proofs/CombineFiles.v and Proofs/CombineReject.v.

   Reading guide: see Props/C01.v for [prims], [aead_ok], [hash_ok], io states and conforming scripts.
   Passwords are arbitrary byte strings [pw] (any length, including the empty string; non-ASCII text is its
   UTF-8 bytes), salts are 32 bytes.  [kdf P pw salt] = scrypt(pw, salt, N = 32768, r = 8, p = 1, 32 bytes).

   The wrong-password theorems are PARTIAL in the sense of DESIGN section 4: "pw' derives a different key under
   which nothing opens" is a cryptographic idealisation and appears as an explicit premise over the run's own
   event log — no AEAD open under scrypt(pw', salt) succeeded.  What the theorems establish is the ORDERING:
   without a successful open nothing reaches the sink and the result is an error. *)
From Kestrel Require Import Bytes Outcome IO IOFacts Prims.
From Kestrel.gen Require Import Extracted.
From Kestrel.Model Require Import AeadWrap Chunks Noise NoiseSpec Files EventPreds FilesSpec ChunksSpec CombineDefs.
From Kestrel.Proofs Require Import ChunksDec ChunksEnc ChunksOpen CombineFiles CombineReject.
Local Open Scope N_scope.

(* THE ROUND TRIP.  For every password pw (any byte string, incl. []), every 32-byte salt, every encrypt-side io state with conforming scripts and empty sink (= every plaintext, every read/write partition): pass_encrypt returns Ok, and for every decrypt-side io state with conforming scripts whose data is the bytes written, pass_decrypt pw returns Ok and writes exactly the original plaintext *)
Theorem C02_pass_file_roundtrip :
  forall (P : prims) (pw : bytes) (salt : list N),
  aead_ok P ->
  hash_ok P ->
  length salt = 32%nat ->
  forall s0 : io,
  reader_ok (rdr s0) ->
  writer_ok (wtr s0) ->
  w_out (wtr s0) = [] ->
  exists s0' : io,
    pass_encrypt P pw salt s0 = (Ok tt, s0') /\
    (forall s1 : io,
     reader_ok (rdr s1) ->
     writer_ok (wtr s1) ->
     r_data (rdr s1) = w_out (wtr s0') ->
     w_out (wtr s1) = [] ->
     exists s1' : io, pass_decrypt P pw s1 = (Ok tt, s1') /\ w_out (wtr s1') = r_data (rdr s0)).
Proof. exact (pass_file_roundtrip). Qed.
Print Assumptions C02_pass_file_roundtrip.

(* general form: sinks may already hold bytes (F = what this run appended); the first 36 bytes of F are magic ++ salt; the decryptor consumed the whole file *)
Theorem C02_pass_file_roundtrip_gen :
  forall (P : prims) (pw : bytes) (salt : list N),
  aead_ok P ->
  hash_ok P ->
  length salt = 32%nat ->
  forall s0 : io,
  reader_ok (rdr s0) ->
  writer_ok (wtr s0) ->
  exists (s0' : io) (F : list N),
    pass_encrypt P pw salt s0 = (Ok tt, s0') /\
    w_out (wtr s0') = w_out (wtr s0) ++ F /\
    firstn 36 F = x_pass_file_magic ++ salt /\
    (forall s1 : io,
     reader_ok (rdr s1) ->
     writer_ok (wtr s1) ->
     r_data (rdr s1) = F ->
     exists s1' : io,
       pass_decrypt P pw s1 = (Ok tt, s1') /\
       w_out (wtr s1') = w_out (wtr s1) ++ r_data (rdr s0) /\ r_data (rdr s1') = []).
Proof. exact (pass_file_roundtrip_gen). Qed.
Print Assumptions C02_pass_file_roundtrip_gen.

(* WRONG PASSWORD, honest file.  F is the file written by pass_encrypt pw salt (any plaintext, any conforming schedule).  pass_decrypt pw' reads F through ANY conforming reader; the writer is ARBITRARY (any script).  Premise: among the new events d of the run no AEAD open under scrypt(pw', salt) succeeded.  Then the result is exactly Err DChaPolyDecrypt, the writer state is literally unchanged (wtr s1' = wtr s1: not one Write::write or flush call was made), and no event of the run is a sink event. *)
Theorem C02_pass_wrong_password_rejected :
  forall P : prims,
  hash_ok P ->
  forall (pw pw' : bytes) (salt : list N) (s0 s0' : io) (F : list N) (s1 : io) 
    (res : outcome derr unit) (s1' : io) (d : list event),
  aead_ok P ->
  length salt = 32%nat ->
  reader_ok (rdr s0) ->
  writer_ok (wtr s0) ->
  pass_encrypt P pw salt s0 = (Ok tt, s0') ->
  w_out (wtr s0') = w_out (wtr s0) ++ F ->
  reader_ok (rdr s1) ->
  r_data (rdr s1) = F ->
  pass_decrypt P pw' s1 = (res, s1') ->
  log s1' = d ++ log s1 ->
  (forall (m : N) (ad ct pt : bytes), ~ In (EvOpen (kdf P pw' salt) m ad ct (Some pt)) d) ->
  res = Err DChaPolyDecrypt /\ wtr s1' = wtr s1 /\ Forall no_out_ev d.
Proof. exact (pass_wrong_password_rejected). Qed.
Print Assumptions C02_pass_wrong_password_rejected.

(* the same ordering fact for EVERY offered byte string that begins magic ++ salt (honest or not) and EVERY script on both sides (short reads, faults): no successful open under scrypt(pw', salt) during the run implies the result is an Err — never Ok, and not UnexpectedData or a write error — and the sink holds exactly what it held before, no write or flush call having been made *)
Theorem C02_no_open_no_output :
  forall P : prims,
  hash_ok P ->
  forall (pw' : bytes) (salt rest : list N) (s : io) (res : outcome derr unit) 
    (s' : io) (d : list event),
  length salt = 32%nat ->
  r_data (rdr s) = x_pass_file_magic ++ salt ++ rest ->
  pass_decrypt P pw' s = (res, s') ->
  log s' = d ++ log s ->
  (forall (m : N) (ad ct pt : bytes), ~ In (EvOpen (kdf P pw' salt) m ad ct (Some pt)) d) ->
  (exists e : derr, res = Err e /\ e <> DUnexpectedData /\ (forall ie : ioerr, e <> DIOWrite ie)) /\
  w_out (wtr s') = w_out (wtr s) /\ Forall no_out_ev d.
Proof. exact (pass_no_open_no_output). Qed.
Print Assumptions C02_no_open_no_output.

(* chunk layer, every io state: no successful open under the key in the whole log implies an error (one of three), not Ok, sink untouched *)
Theorem C02_chunks_wrong_key_rejected :
  forall (P : prims) (key aad : bytes) (cs : N),
  length key = 32%nat ->
  forall (s : io) (res : outcome derr unit) (s' : io),
  log s = [] ->
  decrypt_chunks P key aad cs s = (res, s') ->
  (forall (m : N) (ad ct pt : bytes), ~ In (EvOpen key m ad ct (Some pt)) (log s')) ->
  (res = Err DChaPolyDecrypt \/ res = Err DChunkLen \/ (exists e : ioerr, res = Err (DIORead e))) /\
  res <> Ok tt /\ w_out (wtr s') = w_out (wtr s) /\ Forall no_out_ev (log s').
Proof. exact (wrong_key_rejected). Qed.
Print Assumptions C02_chunks_wrong_key_rejected.

(* contrapositive at the chunk layer: an accepted run contains a successful open under the key *)
Theorem C02_ok_has_open :
  forall (P : prims) (key aad : bytes) (cs : N),
  length key = 32%nat ->
  forall (fuel : nat) (n : N) (s s' : io),
  decrypt_chunks_loop P fuel key aad cs n s = (Ok tt, s') ->
  exists d : list event,
    log s' = d ++ log s /\ (exists (m : N) (ad ct pt : bytes), In (EvOpen key m ad ct (Some pt)) d).
Proof. exact (dec_ok_has_open). Qed.
Print Assumptions C02_ok_has_open.

(* (kept from the earlier version) chunk layer: every legal chunking decrypts under every conforming schedule *)
Theorem C02_chunks_decrypt_under_every_schedule :
  forall (P : prims) (key aad : bytes) (cs : N),
  length key = 32%nat ->
  aead_ok P ->
  cs < 4294967296 ->
  forall (chunks : list bytes) (n : N) (s : io) (fuel : nat),
  chunks <> [] ->
  Forall (chunk_ok cs) chunks ->
  reader_ok (rdr s) ->
  writer_ok (wtr s) ->
  r_data (rdr s) = spec_chunks_from P key aad n chunks ->
  (length chunks <= fuel)%nat ->
  exists s' : io,
    decrypt_chunks_loop P fuel key aad cs n s = (Ok tt, s') /\
    w_out (wtr s') = w_out (wtr s) ++ concat chunks /\ r_data (rdr s') = [].
Proof. exact (dec_spec_chunks_ok). Qed.
Print Assumptions C02_chunks_decrypt_under_every_schedule.


(* KNOWN FINDING (KNOWN_FINDINGS.txt, property C02, key "hmac-key-hashing"): "every other password is rejected" is
   FALSE of RFC 7914 scrypt itself.  HMAC (RFC 2104) hashes keys longer than its 64-byte block and zero-pads
   shorter ones, so for EVERY password longer than 64 bytes its 32-byte SHA-256 digest — a different byte
   string — derives the same key for every salt and every cost parameter, and for every password shorter than
   64 bytes so does the password followed by a zero byte.  The wrong-password theorems above therefore carry the
   premise that the derived keys differ / no open under the other key succeeds.  Not repaired: any change would
   break RFC 7914 conformance (C18) and the frozen format (C06). *)
From Kestrel.Spec Require Import Sha256 ScryptConcrete.
From Kestrel.Proofs Require Import PasswordEquiv.
Theorem C02_other_password_refuted_long_password :
  forall pw salt NN r p dk, (64 < length pw)%nat ->
    sha256 pw <> pw /\ rfc_scrypt pw salt NN r p dk = rfc_scrypt (sha256 pw) salt NN r p dk.
Proof. intros pw salt NN r p dk H. exact (conj (long_password_differs pw H) (long_password_digest_equivalent pw salt NN r p dk H)). Qed.
Print Assumptions C02_other_password_refuted_long_password.

Theorem C02_other_password_refuted_zero_padding :
  forall pw salt NN r p dk, (length pw < 64)%nat ->
    pw ++ [0%N] <> pw /\ rfc_scrypt (pw ++ [0%N]) salt NN r p dk = rfc_scrypt pw salt NN r p dk.
Proof. intros pw salt NN r p dk H. exact (conj (zero_padded_differs pw) (zero_padded_password_equivalent pw salt NN r p dk H)). Qed.
Print Assumptions C02_other_password_refuted_zero_padding.
