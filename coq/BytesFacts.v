(* BytesFacts.v — lemmas about Bytes.v.  Kept apart so the model evaluates even if a proof breaks. *)
From Kestrel Require Import Bytes.
From Coq Require Import ZifyBool ZifyNat ZifyN.
Local Open Scope N_scope.
Ltac Zify.zify_post_hook ::= Z.div_mod_to_equations.

Lemma be32_length x : length (be32 x) = 4%nat. Proof. reflexivity. Qed.
Lemma le32_length x : length (le32 x) = 4%nat. Proof. reflexivity. Qed.
Lemma be64_length x : length (be64 x) = 8%nat. Proof. reflexivity. Qed.
Lemma le64_length x : length (le64 x) = 8%nat. Proof. reflexivity. Qed.

Lemma de32_be32 x : x < 4294967296 -> de32 (be32 x) = x.
Proof. intros H. unfold de32, be32. lia. Qed.
Lemma dle32_le32 x : x < 4294967296 -> dle32 (le32 x) = x.
Proof. intros H. unfold dle32, le32. lia. Qed.

Lemma be32_ok x : bytes_ok (be32 x).
Proof. unfold be32, bytes_ok. repeat constructor; apply N.mod_lt; discriminate. Qed.
Lemma le32_ok x : bytes_ok (le32 x).
Proof. unfold le32, bytes_ok. repeat constructor; apply N.mod_lt; discriminate. Qed.
Lemma be64_ok x : bytes_ok (be64 x).
Proof. unfold be64, bytes_ok. apply Forall_app; split; apply be32_ok. Qed.
Lemma le64_ok x : bytes_ok (le64 x).
Proof. unfold le64, bytes_ok. apply Forall_app; split; apply le32_ok. Qed.

Lemma be32_inj x y : x < 4294967296 -> y < 4294967296 -> be32 x = be32 y -> x = y.
Proof. intros Hx Hy E. rewrite <- (de32_be32 x Hx), <- (de32_be32 y Hy). now rewrite E. Qed.
Lemma le32_inj x y : x < 4294967296 -> y < 4294967296 -> le32 x = le32 y -> x = y.
Proof. intros Hx Hy E. rewrite <- (dle32_le32 x Hx), <- (dle32_le32 y Hy). now rewrite E. Qed.

Lemma app_len_inj {A} : forall (l1 r1 l2 r2 : list A), length l1 = length r1 ->
  l1 ++ l2 = r1 ++ r2 -> l1 = r1 /\ l2 = r2.
Proof.
  induction l1 as [|x l1 IH]; intros [|y r1] l2 r2 Hl E; cbn in *; try discriminate; [now split|].
  injection E as -> E. injection Hl as Hl. destruct (IH _ _ _ Hl E) as [-> ->]. now split.
Qed.

Lemma le64_inj x y : x < 18446744073709551616 -> y < 18446744073709551616 -> le64 x = le64 y -> x = y.
Proof.
  intros Hx Hy E. unfold le64 in E. apply app_len_inj in E; [|reflexivity]. destruct E as [E1 E2].
  apply le32_inj in E1; [|apply N.mod_lt; discriminate|apply N.mod_lt; discriminate].
  apply le32_inj in E2; [|apply N.mod_lt; discriminate|apply N.mod_lt; discriminate].
  lia.
Qed.
Lemma be64_inj x y : x < 18446744073709551616 -> y < 18446744073709551616 -> be64 x = be64 y -> x = y.
Proof.
  intros Hx Hy E. unfold be64 in E. apply app_len_inj in E; [|reflexivity]. destruct E as [E1 E2].
  apply be32_inj in E1; [|apply N.mod_lt; discriminate|apply N.mod_lt; discriminate].
  apply be32_inj in E2; [|apply N.mod_lt; discriminate|apply N.mod_lt; discriminate].
  lia.
Qed.

Lemma firstn_add {A} : forall a b (l : list A), firstn (a + b) l = firstn a l ++ firstn b (skipn a l).
Proof. induction a as [|a IH]; intros b l; [reflexivity|]. destruct l; cbn; [now rewrite firstn_nil|]. now rewrite IH. Qed.
Lemma skipn_add {A} : forall a b (l : list A), skipn b (skipn a l) = skipn (a + b) l.
Proof. induction a as [|a IH]; intros b l; [reflexivity|]. destruct l; cbn; [now rewrite skipn_nil|]. apply IH. Qed.

Lemma xor_bytes_length a b : length (xor_bytes a b) = Nat.min (length a) (length b).
Proof. revert b; induction a as [|x a IH]; intros [|y b]; cbn; auto. Qed.
Lemma xor_bytes_invol : forall a k, (length a <= length k)%nat -> xor_bytes (xor_bytes a k) k = a.
Proof.
  induction a as [|x a IH]; intros [|y k] H; cbn in *; auto; try lia.
  rewrite N.lxor_assoc, N.lxor_nilpotent, N.lxor_0_r. f_equal. apply IH. lia.
Qed.
