(* Bytes.v — byte strings as lists of N; integer encodings.  Stdlib only. *)
From Coq Require Export List NArith ZArith Lia Bool Arith.
Export ListNotations.
Local Open Scope N_scope.

Arguments N.add : simpl never.
Arguments N.sub : simpl never.
Arguments N.mul : simpl never.
Arguments N.div : simpl never.
Arguments N.modulo : simpl never.
Arguments N.eqb : simpl never.
Arguments N.ltb : simpl never.
Arguments N.leb : simpl never.

Definition byte := N.
Definition bytes := list N.

(* Every element is a byte value.  Used only where a theorem needs it. *)
Definition bytes_ok (b : bytes) : Prop := Forall (fun x => x < 256) b.
Definition bytes_okb (b : bytes) : bool := forallb (fun x => x <? 256) b.

Definition zeros (n : nat) : bytes := repeat 0 n.

(* big-endian / little-endian fixed-width encodings (values are reduced mod 2^width,
   as Rust's to_be_bytes/to_le_bytes on u32/u64 do once the value has that type) *)
Definition be32 (x : N) : bytes :=
  [x / 16777216 mod 256; x / 65536 mod 256; x / 256 mod 256; x mod 256].
Definition le32 (x : N) : bytes :=
  [x mod 256; x / 256 mod 256; x / 65536 mod 256; x / 16777216 mod 256].
Definition be64 (x : N) : bytes :=
  be32 (x / 4294967296 mod 4294967296) ++ be32 (x mod 4294967296).
Definition le64 (x : N) : bytes :=
  le32 (x mod 4294967296) ++ le32 (x / 4294967296 mod 4294967296).

(* u32::from_be_bytes on exactly four bytes; 0 on any other length (callers
   establish the length first; theorems never rely on the default) *)
Definition de32 (b : bytes) : N :=
  match b with [a; b; c; d] => a * 16777216 + b * 65536 + c * 256 + d | _ => 0 end.
Definition dle32 (b : bytes) : N :=
  match b with [a; b; c; d] => a + b * 256 + c * 65536 + d * 16777216 | _ => 0 end.

(* little-endian number of an arbitrary byte string *)
Fixpoint le_num (b : bytes) : N :=
  match b with [] => 0 | x :: r => x + 256 * le_num r end.
(* n-byte little-endian encoding *)
Fixpoint le_bytes (n : nat) (x : N) : bytes :=
  match n with O => [] | S n' => (x mod 256) :: le_bytes n' (x / 256) end.

Fixpoint xor_bytes (a b : bytes) : bytes :=
  match a, b with
  | x :: a', y :: b' => N.lxor x y :: xor_bytes a' b'
  | _, _ => []
  end.

Definition bytes_eqb (a b : bytes) : bool :=
  (Nat.eqb (length a) (length b)) && forallb (fun p => fst p =? snd p) (combine a b).

(* split a list into pieces of n elements (last one possibly shorter); fuel = length *)
Fixpoint chunks_of_fuel {A} (fuel n : nat) (l : list A) : list (list A) :=
  match fuel with
  | O => []
  | S f => match l with [] => [] | _ => firstn n l :: chunks_of_fuel f n (skipn n l) end
  end.
Definition chunks_of {A} (n : nat) (l : list A) : list (list A) :=
  chunks_of_fuel (length l) n l.
