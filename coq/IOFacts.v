(* IOFacts.v — what read_exact / write_all / flush guarantee, for arbitrary scripts and for
   conforming fault-free ones.  Later proofs use only these interface lemmas. *)
From Kestrel Require Import Bytes BytesFacts Outcome IO.
From Coq Require Import ZifyBool ZifyNat.

(* ---------- event classes ---------- *)
Definition is_read_ev (e : event) : Prop :=
  match e with EvRead _ _ | EvReadErr _ _ => True | _ => False end.
Definition is_write_ev (e : event) : Prop :=
  match e with EvWrite _ _ | EvWriteErr _ _ => True | _ => False end.

(* an event after which the I/O loop containing it carries on *)
Definition benign (e : event) : Prop :=
  match e with
  | EvRead _ _ => True
  | EvReadErr _ Interrupted => True
  | EvReadErr _ _ => False
  | EvWrite off k => match k with S _ => True | O => match off with [] => True | _ :: _ => False end end
  | EvWriteErr _ Interrupted => True
  | EvWriteErr _ _ => False
  | EvFlush None => True
  | EvFlush (Some _) => False
  | EvOpen _ _ _ _ _ | EvSeal _ _ _ _ | EvKdf _ _ _ _ _ => True
  end.

(* ---------- raw calls ---------- *)
Lemma rd_spec r n res r' : rd r n = (res, r') ->
  (length (r_script r') <= length (r_script r))%nat /\
  (r_script r <> [] -> length (r_script r') < length (r_script r))%nat /\
  match res with
  | inr got => (length got <= n)%nat /\ r_data r = got ++ r_data r'
  | inl _ => r_data r' = r_data r
  end.
Proof.
  unfold rd. destruct (r_script r) as [|[k|e] sc] eqn:Es; intros [= <- <-]; cbn [r_data r_script length].
  - repeat split; try lia; [congruence | rewrite firstn_length; lia | now rewrite firstn_skipn].
  - repeat split; try lia; [rewrite firstn_length; lia | now rewrite firstn_skipn].
  - repeat split; lia.
Qed.

Lemma io_read_spec n s res s' : io_read n s = (res, s') ->
  wtr s' = wtr s /\
  log s' = (match res with inr got => EvRead n got | inl e => EvReadErr n e end) :: log s /\
  (length (r_script (rdr s')) <= length (r_script (rdr s)))%nat /\
  (r_script (rdr s) <> [] -> length (r_script (rdr s')) < length (r_script (rdr s)))%nat /\
  match res with
  | inr got => (length got <= n)%nat /\ r_data (rdr s) = got ++ r_data (rdr s')
  | inl _ => r_data (rdr s') = r_data (rdr s)
  end.
Proof.
  unfold io_read. destruct (rd (rdr s) n) as [res0 r'] eqn:E. intros [= <- <-]. cbn.
  apply rd_spec in E. destruct E as (H1 & H2 & H3). repeat split; auto.
Qed.

Lemma io_read_empty_script n s res s' : io_read n s = (res, s') -> r_script (rdr s) = [] ->
  res = inr (firstn n (r_data (rdr s))) /\ r_data (rdr s') = skipn n (r_data (rdr s)) /\ r_script (rdr s') = [].
Proof.
  unfold io_read, rd. intros E Hs. rewrite Hs in E. injection E as <- <-. cbn [rdr r_data r_script]. auto.
Qed.

Lemma io_write_spec buf s res s' : io_write buf s = (res, s') ->
  rdr s' = rdr s /\
  log s' = (match res with inr k => EvWrite buf k | inl e => EvWriteErr buf e end) :: log s /\
  w_fscript (wtr s') = w_fscript (wtr s) /\
  (length (w_script (wtr s')) <= length (w_script (wtr s)))%nat /\
  (w_script (wtr s) <> [] -> length (w_script (wtr s')) < length (w_script (wtr s)))%nat /\
  match res with
  | inr k => (k <= length buf)%nat /\ w_out (wtr s') = w_out (wtr s) ++ firstn k buf /\
             (w_script (wtr s) = [] -> k = length buf /\ w_script (wtr s') = [])
  | inl _ => w_out (wtr s') = w_out (wtr s)
  end.
Proof.
  unfold io_write, wr. destruct (w_script (wtr s)) as [|[k|e] sc] eqn:Es; intros [= <- <-]; cbn.
  - repeat split; try lia; try congruence. now rewrite firstn_all.
  - repeat split; try lia; try congruence.
  - repeat split; try lia.
Qed.

Lemma io_flush_spec s res s' : io_flush s = (res, s') ->
  rdr s' = rdr s /\ log s' = EvFlush res :: log s /\
  w_out (wtr s') = w_out (wtr s) /\ w_script (wtr s') = w_script (wtr s).
Proof.
  unfold io_flush, fl. destruct (w_fscript (wtr s)) as [|[|e] sc]; intros [= <- <-]; cbn; auto.
Qed.

(* ---------- read_exact, any script ---------- *)
Definition new_events (s s' : io) (d : list event) : Prop := log s' = d ++ log s.

(* fuel needed by read_exact from this reader state *)
Definition rd_need (r : reader) : nat :=
  length (r_script r) + match r_data r with [] => 1 | _ => 2 end.

Lemma read_exact_loop_spec : forall fuel n acc s res s',
  read_exact_loop fuel n acc s = (res, s') ->
  (rd_need (rdr s) <= fuel)%nat ->
  wtr s' = wtr s /\
  (exists d, new_events s s' d /\ Forall is_read_ev d /\
     match res with
     | Some (inr _) => Forall benign d
     | Some (inl _) => exists e d', d = e :: d' /\ Forall benign d'
     | None => False
     end) /\
  match res with
  | Some (inr b) => exists got, b = acc ++ got /\ length got = n /\ r_data (rdr s) = got ++ r_data (rdr s')
  | Some (inl _) => exists got, r_data (rdr s) = got ++ r_data (rdr s')
  | None => False
  end.
Proof.
  induction fuel as [|f IH]; intros n acc s res s' E Hf.
  { unfold rd_need in Hf. destruct (r_data (rdr s)); lia. }
  destruct n as [|n'].
  { cbn in E. injection E as <- <-. split; [reflexivity|]. split.
    - exists []. repeat split; constructor.
    - exists []. rewrite app_nil_r. auto. }
  cbn [read_exact_loop] in E.
  destruct (io_read (S n') s) as [r1 s1] eqn:Er. pose proof (io_read_spec _ _ _ _ Er) as (Hw & Hl & Hs1 & Hs2 & Hd).
  destruct r1 as [e|got].
  - (* error *)
    assert (Hcase : (e = Interrupted /\ read_exact_loop f (S n') acc s1 = (res, s')) \/
                    (e <> Interrupted /\ res = Some (inl e) /\ s' = s1)).
    { destruct e; [left; auto | right | right | right]; injection E as <- <-; repeat split; discriminate. }
    destruct Hcase as [[-> E1]|(Hne & -> & ->)].
    + (* retry: the script was non-empty, so fuel still suffices *)
      assert (Hne : r_script (rdr s) <> []).
      { unfold io_read, rd in Er. destruct (r_script (rdr s)); [discriminate Er + (cbn in Er; congruence)|discriminate]. }
      specialize (Hs2 Hne).
      destruct (IH _ _ _ _ _ E1) as (Hw' & (d & Hd1 & Hd2 & Hd3) & Hres).
      { unfold rd_need in *. rewrite Hd. destruct (r_data (rdr s)); lia. }
      split; [congruence|]. split.
      * exists (d ++ [EvReadErr (S n') Interrupted]). unfold new_events in *. rewrite Hd1, Hl, <- app_assoc. cbn.
        split; [reflexivity|]. split; [apply Forall_app; split; [assumption|repeat constructor]|].
        destruct res as [[e|b]|]; [|apply Forall_app; split; [assumption|repeat constructor]|assumption].
        destruct Hd3 as (e0 & d' & -> & Hb). exists e0, (d' ++ [EvReadErr (S n') Interrupted]). split; [reflexivity|].
        apply Forall_app; split; [assumption|repeat constructor].
      * rewrite <- Hd. exact Hres.
    + split; [assumption|]. split.
      * exists [EvReadErr (S n') e]. unfold new_events. rewrite Hl. repeat split; [repeat constructor|].
        exists (EvReadErr (S n') e), []. split; [reflexivity|constructor].
      * exists []. rewrite Hd. reflexivity.
  - destruct Hd as [Hlen Hdata].
    destruct got as [|g got'].
    + injection E as <- <-. split; [assumption|]. split.
      * exists [EvRead (S n') []]. unfold new_events. rewrite Hl. repeat split; [repeat constructor|].
        exists (EvRead (S n') []), []. split; [reflexivity|constructor].
      * exists []. exact Hdata.
    + remember (g :: got') as got eqn:Eg.
      assert (E1 : read_exact_loop f (S n' - length got) (acc ++ got) s1 = (res, s')) by (subst got; exact E).
      clear E.
      (* fuel: either the script shrank, or it was empty and everything requested/available was delivered *)
      destruct (Nat.eq_dec (S n' - length got) 0) as [Hz|Hnz].
      * rewrite Hz in E1. destruct f; cbn in E1; injection E1 as <- <-.
        all: split; [assumption|]; split;
          [exists [EvRead (S n') got]; unfold new_events; rewrite Hl; repeat split; repeat constructor
          |exists got; repeat split; [lia|assumption]].
      * destruct (IH _ _ _ _ _ E1) as (Hw' & (d & Hd1 & Hd2 & Hd3) & Hres).
        { unfold rd_need in *. destruct (r_script (rdr s)) as [|a sc] eqn:Esc.
          - (* empty script: the whole remainder was delivered, so the data is now exhausted *)
            destruct (io_read_empty_script _ _ _ _ Er Esc) as (Egot & Hsk & Hsc1).
            assert (Egot' : got = firstn (S n') (r_data (rdr s))) by (injection Egot as Egot; exact Egot).
            clear Egot. rename Egot' into Egot. rewrite Hsc1, Hsk.
            assert (Hsk0 : skipn (S n') (r_data (rdr s)) = []).
            { apply skipn_all2. rewrite Egot in Hnz. rewrite firstn_length in Hnz. lia. }
            rewrite Hsk0. rewrite Hdata in Hf. rewrite Eg in Hf. cbn [app length] in *. lia.
          - assert (a :: sc <> []) as Hne by discriminate. specialize (Hs2 Hne). cbn [length] in *.
            rewrite Hdata, Eg in Hf. cbn [app] in Hf. destruct (r_data (rdr s1)); lia. }
        split; [congruence|]. split.
        -- exists (d ++ [EvRead (S n') got]). unfold new_events in *. rewrite Hd1, Hl, <- app_assoc. cbn.
           split; [reflexivity|]. split; [apply Forall_app; split; [assumption|repeat constructor]|].
           destruct res as [[e|b]|]; [|apply Forall_app; split; [assumption|repeat constructor]|assumption].
           destruct Hd3 as (e0 & d' & -> & Hb). exists e0, (d' ++ [EvRead (S n') got]). split; [reflexivity|].
           apply Forall_app; split; [assumption|repeat constructor].
        -- destruct res as [[e|b]|]; [| |assumption].
           ++ destruct Hres as [g2 Hg2]. exists (got ++ g2). rewrite Hdata, Hg2. now rewrite app_assoc.
           ++ destruct Hres as (g2 & -> & Hl2 & Hg2). exists (got ++ g2). rewrite <- app_assoc. split; [reflexivity|].
              rewrite app_length. split; [lia|]. rewrite Hdata, Hg2. now rewrite app_assoc.
Qed.

Lemma read_exact_spec n s res s' : read_exact n s = (res, s') ->
  wtr s' = wtr s /\
  (exists d, new_events s s' d /\ Forall is_read_ev d /\
     match res with
     | Some (inr _) => Forall benign d
     | Some (inl _) => exists e d', d = e :: d' /\ Forall benign d'
     | None => False
     end) /\
  match res with
  | Some (inr b) => length b = n /\ r_data (rdr s) = b ++ r_data (rdr s')
  | Some (inl _) => exists got, r_data (rdr s) = got ++ r_data (rdr s')
  | None => False
  end.
Proof.
  unfold read_exact. intros E. apply read_exact_loop_spec in E.
  - destruct E as (Hw & Hd & Hr). repeat split; try assumption.
    destruct res as [[e|b]|]; try assumption. destruct Hr as (got & -> & Hl & Hd'). cbn. auto.
  - unfold rd_need. destruct (r_data (rdr s)); lia.
Qed.

(* ---------- read_exact, conforming fault-free reader ---------- *)
Lemma read_exact_loop_ok : forall fuel n acc s,
  reader_ok (rdr s) -> (rd_need (rdr s) <= fuel)%nat -> (n <= length (r_data (rdr s)))%nat ->
  exists s', read_exact_loop fuel n acc s = (Some (inr (acc ++ firstn n (r_data (rdr s)))), s') /\
             r_data (rdr s') = skipn n (r_data (rdr s)) /\ reader_ok (rdr s') /\ wtr s' = wtr s.
Proof.
  induction fuel as [|f IH]; intros n acc s Hok Hf Hn.
  { unfold rd_need in Hf. destruct (r_data (rdr s)); lia. }
  destruct n as [|n'].
  { cbn. exists s. rewrite app_nil_r. auto. }
  cbn [read_exact_loop].
  destruct (io_read (S n') s) as [r1 s1] eqn:Er.
  pose proof (io_read_spec _ _ _ _ Er) as (Hw & Hl & Hs1 & Hs2 & Hd).
  assert (Hr1 : exists m, (1 <= m <= S n')%nat /\ r1 = inr (firstn m (r_data (rdr s))) /\
                          r_data (rdr s1) = skipn m (r_data (rdr s)) /\ reader_ok (rdr s1) /\
                          (m < S n' -> rd_need (rdr s1) <= f)%nat).
  { unfold io_read, rd in Er. unfold reader_ok in *. unfold rd_need in *.
    destruct (r_script (rdr s)) as [|a sc] eqn:Esc.
    - injection Er as <- <-. cbn [rdr r_data r_script]. exists (S n'). repeat split; try lia; try constructor.
    - inversion Hok as [|? ? Ha Hsc]; subst. destruct a as [k|e]; [|contradiction]. cbn in Ha.
      injection Er as <- <-. cbn [rdr r_data r_script]. exists (Nat.min k (S n')). repeat split; try lia; try assumption.
      intros _. cbn [length] in Hf. destruct (r_data (rdr s)) as [|x xs]; [rewrite skipn_nil; lia|].
      destruct (skipn _ _); lia. }
  destruct Hr1 as (m & Hm & -> & Hd1 & Hok1 & Hneed).
  remember (firstn m (r_data (rdr s))) as got eqn:Eg.
  assert (Hlg : length got = m) by (subst got; rewrite firstn_length; lia).
  destruct got as [|g got']; [cbn in Hlg; lia|]. rewrite Hlg. rewrite Eg.
  destruct (Nat.eq_dec m (S n')) as [->|Hlt].
  - rewrite Nat.sub_diag. destruct f; cbn [read_exact_loop]; exists s1; repeat split; auto.
  - destruct (IH (S n' - m)%nat (acc ++ firstn m (r_data (rdr s))) s1 Hok1) as (s' & E & Hd' & Hok' & Hw').
    + apply Hneed. lia.
    + rewrite Hd1, skipn_length. lia.
    + exists s'. rewrite E. repeat split; try congruence.
      * f_equal. f_equal. rewrite <- app_assoc. f_equal. rewrite Hd1.
        replace (S n') with (m + (S n' - m))%nat at 2 by lia. now rewrite firstn_add.
      * rewrite Hd', Hd1, skipn_add. f_equal. lia.
Qed.

Lemma read_exact_ok n s : reader_ok (rdr s) -> (n <= length (r_data (rdr s)))%nat ->
  exists s', read_exact n s = (Some (inr (firstn n (r_data (rdr s)))), s') /\
             r_data (rdr s') = skipn n (r_data (rdr s)) /\ reader_ok (rdr s') /\ wtr s' = wtr s.
Proof.
  intros Hok Hn. unfold read_exact.
  destruct (read_exact_loop_ok (length (r_script (rdr s)) + 2) n [] s Hok) as (s' & E & H); [|assumption|].
  - unfold rd_need. destruct (r_data (rdr s)); lia.
  - exists s'. rewrite E. auto.
Qed.

(* a raw read from a conforming reader with no data left returns 0 bytes *)
Lemma io_read_eof_ok n s : reader_ok (rdr s) -> r_data (rdr s) = [] ->
  exists s', io_read n s = (inr [], s') /\ r_data (rdr s') = [] /\ reader_ok (rdr s') /\ wtr s' = wtr s.
Proof.
  intros Hok Hd. unfold io_read, rd, reader_ok in *. destruct (r_script (rdr s)) as [|a sc] eqn:Esc.
  - rewrite Hd. rewrite firstn_nil, skipn_nil. eexists; repeat split; cbn; auto.
  - inversion Hok as [|? ? Ha Hsc]; subst. destruct a as [k|e]; [|contradiction].
    rewrite Hd. rewrite firstn_nil, skipn_nil. eexists; repeat split; cbn; auto.
Qed.

(* ---------- write_all ---------- *)
Lemma write_all_loop_unfold f buf s : buf <> [] ->
  write_all_loop (S f) buf s =
  match io_write buf s with
  | (inl Interrupted, s') => write_all_loop f buf s'
  | (inl e, s') => (Some (Some e), s')
  | (inr O, s') => (Some (Some WriteZero), s')
  | (inr k, s') => write_all_loop f (skipn k buf) s'
  end.
Proof. destruct buf; [congruence|reflexivity]. Qed.

Lemma write_all_loop_spec : forall fuel buf s res s',
  write_all_loop fuel buf s = (res, s') ->
  (length (w_script (wtr s)) + 1 <= fuel)%nat ->
  rdr s' = rdr s /\ w_fscript (wtr s') = w_fscript (wtr s) /\
  exists d, new_events s s' d /\ Forall is_write_ev d /\
    match res with
    | Some None => w_out (wtr s') = w_out (wtr s) ++ buf /\ Forall benign d
    | Some (Some _) => (exists k, (k < length buf)%nat /\ w_out (wtr s') = w_out (wtr s) ++ firstn k buf) /\
                       exists e d', d = e :: d' /\ Forall benign d' /\ ~ benign e
    | None => False
    end.
Proof.
  induction fuel as [|f IH]; intros buf s res s' E Hf; [lia|].
  destruct buf as [|b0 buf'].
  { cbn in E. injection E as <- <-. repeat split. exists []. rewrite app_nil_r. repeat split; constructor. }
  remember (b0 :: buf') as buf eqn:Eb. rewrite write_all_loop_unfold in E by (subst buf; discriminate).
  destruct (io_write buf s) as [r1 s1] eqn:Ew.
  pose proof (io_write_spec _ _ _ _ Ew) as (Hr & Hl & Hfs & Hs1 & Hs2 & Ho).
  destruct r1 as [e|k].
  - assert (Hcase : (e = Interrupted /\ write_all_loop f buf s1 = (res, s')) \/
                    (e <> Interrupted /\ res = Some (Some e) /\ s' = s1)).
    { destruct e; [left; auto | right | right | right]; injection E as <- <-; repeat split; discriminate. }
    destruct Hcase as [[-> E1]|(Hne & -> & ->)].
    + assert (Hnes : w_script (wtr s) <> []).
      { unfold io_write, wr in Ew. destruct (w_script (wtr s)); [discriminate Ew|discriminate]. }
      specialize (Hs2 Hnes).
      destruct (IH _ _ _ _ E1) as (Hr' & Hfs' & d & Hd1 & Hd2 & Hd3); [lia|].
      split; [congruence|]. split; [congruence|].
      exists (d ++ [EvWriteErr buf Interrupted]). unfold new_events in *. rewrite Hd1, Hl, <- app_assoc.
      split; [reflexivity|]. split; [apply Forall_app; split; [assumption|repeat constructor]|].
      rewrite Ho in Hd3.
      destruct res as [[e|]|]; [| |assumption].
      * destruct Hd3 as (Hk & e0 & d' & -> & Hb & Hnb). split; [assumption|].
        exists e0, (d' ++ [EvWriteErr buf Interrupted]). repeat split; [|assumption].
        apply Forall_app; split; [assumption|repeat constructor].
      * destruct Hd3 as [Hout Hb]. split; [assumption|]. apply Forall_app; split; [assumption|repeat constructor].
    + split; [assumption|]. split; [assumption|].
      exists [EvWriteErr buf e]. unfold new_events. rewrite Hl. repeat split; [repeat constructor| |].
      * exists 0%nat. rewrite Ho. cbn. rewrite app_nil_r. subst buf. cbn. split; [lia|reflexivity].
      * exists (EvWriteErr buf e), []. repeat split; [constructor|]. destruct e; cbn; auto.
  - destruct Ho as (Hk & Hout & Hempty).
    destruct k as [|k'].
    + injection E as <- <-. split; [assumption|]. split; [assumption|].
      exists [EvWrite buf 0]. unfold new_events. rewrite Hl. repeat split; [repeat constructor| |].
      * exists 0%nat. rewrite Hout. subst buf. cbn. split; [lia|reflexivity].
      * exists (EvWrite buf 0), []. repeat split; [constructor|]. subst buf. cbn. auto.
    + assert (Hf1 : (length (w_script (wtr s1)) + 1 <= f \/ skipn (S k') buf = [])%nat).
      { destruct (w_script (wtr s)) as [|a sc] eqn:Esc.
        - right. destruct (Hempty eq_refl) as [-> _]. apply skipn_all.
        - left. assert (a :: sc <> []) as Hne by discriminate. specialize (Hs2 Hne). cbn [length] in *. lia. }
      assert (Hev : forall d, Forall is_write_ev d -> Forall is_write_ev (d ++ [EvWrite buf (S k')]))
        by (intros d Hd; apply Forall_app; split; [assumption|repeat constructor]).
      assert (Hbn : forall d, Forall benign d -> Forall benign (d ++ [EvWrite buf (S k')]))
        by (intros d Hd; apply Forall_app; split; [assumption|repeat constructor]).
      destruct Hf1 as [Hf1|Hnil].
      * destruct (IH _ _ _ _ E) as (Hr' & Hfs' & d & Hd1 & Hd2 & Hd3); [assumption|].
        split; [congruence|]. split; [congruence|].
        exists (d ++ [EvWrite buf (S k')]). unfold new_events in *. rewrite Hd1, Hl, <- app_assoc.
        split; [reflexivity|]. split; [auto|].
        destruct res as [[e|]|]; [| |assumption].
        -- destruct Hd3 as ((k2 & Hk2 & Ho2) & e0 & d' & -> & Hb & Hnb). split.
           ++ exists (S k' + k2)%nat. rewrite skipn_length in Hk2. split; [lia|].
              rewrite Ho2, Hout, <- app_assoc. f_equal. now rewrite firstn_add.
           ++ exists e0, (d' ++ [EvWrite buf (S k')]). repeat split; [|assumption]. apply Hbn. assumption.
        -- destruct Hd3 as [Ho2 Hb]. split; [|auto].
           rewrite Ho2, Hout, <- app_assoc. f_equal. apply firstn_skipn.
      * rewrite Hnil in E. destruct f; cbn in E; injection E as <- <-.
        all: split; [assumption|]; split; [assumption|];
          exists [EvWrite buf (S k')]; unfold new_events; rewrite Hl; repeat split; try (repeat constructor).
        all: rewrite Hout; f_equal; rewrite <- (firstn_skipn (S k') buf) at 2; rewrite Hnil; now rewrite app_nil_r.
Qed.

Lemma write_all_spec buf s res s' : write_all buf s = (res, s') ->
  rdr s' = rdr s /\ w_fscript (wtr s') = w_fscript (wtr s) /\
  exists d, new_events s s' d /\ Forall is_write_ev d /\
    match res with
    | Some None => w_out (wtr s') = w_out (wtr s) ++ buf /\ Forall benign d
    | Some (Some _) => (exists k, (k < length buf)%nat /\ w_out (wtr s') = w_out (wtr s) ++ firstn k buf) /\
                       exists e d', d = e :: d' /\ Forall benign d' /\ ~ benign e
    | None => False
    end.
Proof. unfold write_all. intros E. apply write_all_loop_spec in E; [assumption|lia]. Qed.

Lemma write_all_loop_ok : forall fuel buf s,
  writer_ok (wtr s) -> (length (w_script (wtr s)) + 1 <= fuel)%nat ->
  exists s', write_all_loop fuel buf s = (Some None, s') /\ w_out (wtr s') = w_out (wtr s) ++ buf /\
             writer_ok (wtr s') /\ rdr s' = rdr s.
Proof.
  induction fuel as [|f IH]; intros buf s Hok Hf; [lia|].
  destruct buf as [|b0 buf'].
  { cbn. exists s. rewrite app_nil_r. auto. }
  remember (b0 :: buf') as buf eqn:Eb. rewrite write_all_loop_unfold by (subst buf; discriminate).
  destruct Hok as [Hw Hfl].
  assert (Hnb : (1 <= length buf)%nat) by (subst buf; cbn; lia). clear Eb b0 buf'.
  unfold io_write, wr. destruct (w_script (wtr s)) as [|a sc] eqn:Esc.
  - rewrite skipn_all. destruct (length buf) as [|lb] eqn:Elb; [lia|].
    eexists. split; [destruct f; reflexivity|]. cbn. repeat split; try assumption.
  - inversion Hw as [|? ? Ha Hsc]; subst. destruct a as [k|e]; [|contradiction]. cbn in Ha.
    set (m := Nat.min k (length buf)). assert (Hm : (1 <= m <= length buf)%nat) by (subst m; lia).
    destruct m as [|m'] eqn:Em; [lia|].
    set (s1 := {| rdr := rdr s; wtr := {| w_out := w_out (wtr s) ++ firstn (S m') buf; w_script := sc;
                   w_fscript := w_fscript (wtr s) |}; log := EvWrite buf (S m') :: log s |}).
    destruct (IH (skipn (S m') buf) s1) as (s' & E & Ho & Hok' & Hr).
    + split; assumption.
    + cbn in Hf |- *. lia.
    + exists s'. fold s1. rewrite E. split; [reflexivity|]. split; [|split; assumption].
      rewrite Ho. unfold s1. cbn [wtr w_out]. rewrite <- app_assoc. f_equal. apply firstn_skipn.
Qed.

Lemma write_all_ok buf s : writer_ok (wtr s) ->
  exists s', write_all buf s = (Some None, s') /\ w_out (wtr s') = w_out (wtr s) ++ buf /\
             writer_ok (wtr s') /\ rdr s' = rdr s.
Proof. intros Hok. unfold write_all. apply write_all_loop_ok; [assumption|lia]. Qed.

Lemma io_flush_ok s : writer_ok (wtr s) ->
  exists s', io_flush s = (None, s') /\ w_out (wtr s') = w_out (wtr s) /\ writer_ok (wtr s') /\ rdr s' = rdr s.
Proof.
  intros [Hw Hf]. unfold io_flush, fl. destruct (w_fscript (wtr s)) as [|a sc] eqn:Esc.
  - exists {| rdr := rdr s; wtr := wtr s; log := EvFlush None :: log s |}. repeat split; cbn; try assumption.
    rewrite Esc. constructor.
  - inversion Hf as [|? ? Ha Hsc]; subst. destruct a; [|contradiction].
    eexists. repeat split; cbn; assumption.
Qed.
