(* IO.v — scripted byte sources and sinks, the std::io loops built on them, and the event log.
   A reader is remaining data plus a script saying what each successive Read::read call does;
   a writer is accepted bytes plus scripts for Write::write and Write::flush calls.
   The same script semantics is implemented by ScriptedReader / ScriptedWriter in harness/libdrv. *)
From Kestrel Require Import Bytes Outcome.

Inductive ioerr := Interrupted | OtherErr | UnexpectedEof | WriteZero.

(* what one Read::read call does: deliver at most k bytes (k = 0: a zero-length read), or fail *)
Inductive rd_act := RCap (k : nat) | RFail (e : ioerr).
Record reader := { r_data : bytes; r_script : list rd_act }.

(* what one Write::write call does: accept at most k bytes (k = 0: Ok(0)), or fail *)
Inductive wr_act := WCap (k : nat) | WFail (e : ioerr).
Inductive fl_act := FOk | FFail (e : ioerr).
Record writer := { w_out : bytes; w_script : list wr_act; w_fscript : list fl_act }.

Inductive event :=
| EvRead (req : nat) (got : bytes)           (* Read::read(buf of req bytes) = Ok(|got|) *)
| EvReadErr (req : nat) (e : ioerr)
| EvWrite (offered : bytes) (took : nat)     (* Write::write(offered) = Ok(took) *)
| EvWriteErr (offered : bytes) (e : ioerr)
| EvFlush (res : option ioerr)               (* None = Ok(()) *)
| EvOpen (key : bytes) (n : N) (ad ct : bytes) (res : option bytes)   (* one AEAD open attempt *)
| EvSeal (key : bytes) (n : N) (ad pt : bytes)                        (* one AEAD seal *)
| EvKdf (pw salt : bytes) (n r p : N).                                (* one scrypt call *)

(* The log is kept newest-first; [trace] gives chronological order. *)
Record io := { rdr : reader; wtr : writer; log : list event }.
Definition trace (s : io) : list event := rev (log s).

Definition with_log (s : io) (e : event) : io :=
  {| rdr := rdr s; wtr := wtr s; log := e :: log s |}.

(* ---- one raw call ---- *)
Definition rd (r : reader) (n : nat) : (ioerr + bytes) * reader :=
  match r_script r with
  | [] => (inr (firstn n (r_data r)), {| r_data := skipn n (r_data r); r_script := [] |})
  | RCap k :: s => let m := Nat.min k n in
      (inr (firstn m (r_data r)), {| r_data := skipn m (r_data r); r_script := s |})
  | RFail e :: s => (inl e, {| r_data := r_data r; r_script := s |})
  end.

Definition wr (w : writer) (buf : bytes) : (ioerr + nat) * writer :=
  match w_script w with
  | [] => (inr (length buf), {| w_out := w_out w ++ buf; w_script := []; w_fscript := w_fscript w |})
  | WCap k :: s => let m := Nat.min k (length buf) in
      (inr m, {| w_out := w_out w ++ firstn m buf; w_script := s; w_fscript := w_fscript w |})
  | WFail e :: s => (inl e, {| w_out := w_out w; w_script := s; w_fscript := w_fscript w |})
  end.

Definition fl (w : writer) : option ioerr * writer :=
  match w_fscript w with
  | [] => (None, w)
  | FOk :: s => (None, {| w_out := w_out w; w_script := w_script w; w_fscript := s |})
  | FFail e :: s => (Some e, {| w_out := w_out w; w_script := w_script w; w_fscript := s |})
  end.

(* ---- the same calls on the io state, logging ---- *)
Definition io_read (n : nat) (s : io) : (ioerr + bytes) * io :=
  let '(res, r') := rd (rdr s) n in
  (res, {| rdr := r'; wtr := wtr s;
           log := match res with inr got => EvRead n got | inl e => EvReadErr n e end :: log s |}).

Definition io_write (buf : bytes) (s : io) : (ioerr + nat) * io :=
  let '(res, w') := wr (wtr s) buf in
  (res, {| rdr := rdr s; wtr := w';
           log := match res with inr k => EvWrite buf k | inl e => EvWriteErr buf e end :: log s |}).

Definition io_flush (s : io) : option ioerr * io :=
  let '(res, w') := fl (wtr s) in
  (res, {| rdr := rdr s; wtr := w'; log := EvFlush res :: log s |}).

(* ---- std::io::Read::read_exact (default implementation) ----
   while !buf.is_empty() { match read(buf) { Ok(0) => break, Ok(n) => buf = &mut buf[n..],
     Err(Interrupted) => {}, Err(e) => return Err(e) } }  if !buf.is_empty() { Err(UnexpectedEof) } *)
Fixpoint read_exact_loop (fuel n : nat) (acc : bytes) (s : io) : option (ioerr + bytes) * io :=
  match n with
  | O => (Some (inr acc), s)
  | S _ =>
    match fuel with
    | O => (None, s)
    | S f =>
      match io_read n s with
      | (inl Interrupted, s') => read_exact_loop f n acc s'
      | (inl e, s') => (Some (inl e), s')
      | (inr [], s') => (Some (inl UnexpectedEof), s')
      | (inr got, s') => read_exact_loop f (n - length got) (acc ++ got) s'
      end
    end
  end.

(* enough fuel for any script: each iteration consumes a script action, and once the script is
   exhausted at most two further calls happen *)
Definition read_exact (n : nat) (s : io) : option (ioerr + bytes) * io :=
  read_exact_loop (length (r_script (rdr s)) + 2) n [] s.

(* ---- std::io::Write::write_all ----
   while !buf.is_empty() { match write(buf) { Ok(0) => return Err(WriteZero), Ok(n) => buf = &buf[n..],
     Err(Interrupted) => {}, Err(e) => return Err(e) } } *)
Fixpoint write_all_loop (fuel : nat) (buf : bytes) (s : io) : option (option ioerr) * io :=
  match buf with
  | [] => (Some None, s)
  | _ :: _ =>
    match fuel with
    | O => (None, s)
    | S f =>
      match io_write buf s with
      | (inl Interrupted, s') => write_all_loop f buf s'
      | (inl e, s') => (Some (Some e), s')
      | (inr O, s') => (Some (Some WriteZero), s')
      | (inr k, s') => write_all_loop f (skipn k buf) s'
      end
    end
  end.

Definition write_all (buf : bytes) (s : io) : option (option ioerr) * io :=
  write_all_loop (length (w_script (wtr s)) + 1) buf s.

(* ---- script classes ---- *)
Definition rd_act_ok (a : rd_act) : Prop := match a with RCap k => (1 <= k)%nat | RFail _ => False end.
Definition wr_act_ok (a : wr_act) : Prop := match a with WCap k => (1 <= k)%nat | WFail _ => False end.
Definition fl_act_ok (a : fl_act) : Prop := match a with FOk => True | FFail _ => False end.
(* a conforming, fault-free source / sink: every read (write) makes progress, nothing fails *)
Definition reader_ok (r : reader) : Prop := Forall rd_act_ok (r_script r).
Definition writer_ok (w : writer) : Prop := Forall wr_act_ok (w_script w) /\ Forall fl_act_ok (w_fscript w).

Definition mk_io (data : bytes) (rs : list rd_act) (ws : list wr_act) (fs : list fl_act) : io :=
  {| rdr := {| r_data := data; r_script := rs |};
     wtr := {| w_out := []; w_script := ws; w_fscript := fs |}; log := [] |}.
