(* Run/RunLib.v — entry points the correspondence check evaluates with vm_compute, and the
   canonical observation compared with the Rust driver's.  Not part of any theorem. *)
From Kestrel Require Import Bytes Outcome IO Prims.
From Kestrel.gen Require Import Extracted.
From Kestrel.Model Require Import AeadWrap Chunks Noise Files.
From Kestrel.Spec Require Import Hex Concrete.
From Coq Require Import String.
Local Open Scope N_scope.

Definition hx := Hex.hx.

(* KDF table: (password, salt) -> 32-byte key, filled by the harness by calling the Rust scrypt with
   the documented constants; anything else is looked up nowhere and yields a marker value *)
Definition kdf_table := list (bytes * bytes * bytes).
Fixpoint kdf_lookup (t : kdf_table) (pw salt : bytes) : bytes :=
  match t with
  | [] => repeat 170 32
  | (p, s, k) :: r => if bytes_eqb p pw && bytes_eqb s salt then k else kdf_lookup r pw salt
  end.
Definition scr_of (t : kdf_table) (small : bytes -> bytes -> N -> N -> N -> nat -> bytes)
  (pw salt : bytes) (n r p : N) (l : nat) : bytes :=
  if (n =? 32768) && (r =? 8) && (p =? 1) && Nat.eqb l 32 then kdf_lookup t pw salt else small pw salt n r p l.

Definition no_small (pw salt : bytes) (n r p : N) (l : nat) : bytes := repeat 171 l.
Definition PR (t : kdf_table) : prims := rfc_prims (scr_of t no_small).

(* ---------- observation ---------- *)
Record obs := { ob_code : N; ob_out : bytes; ob_consumed : N; ob_trace : list (N * N * N); ob_extra : bytes }.

Definition kind_code (e : ioerr) : N :=
  match e with Interrupted => 1 | OtherErr => 2 | UnexpectedEof => 3 | WriteZero => 4 end.

Definition ev_code (e : event) : list (N * N * N) :=
  match e with
  | EvRead req got => [(1, N.of_nat req, N.of_nat (List.length got))]
  | EvReadErr req k => [(2, N.of_nat req, kind_code k)]
  | EvWrite off took => [(3, N.of_nat (List.length off), N.of_nat took)]
  | EvWriteErr off k => [(4, N.of_nat (List.length off), kind_code k)]
  | EvFlush None => [(5, 0, 0)]
  | EvFlush (Some k) => [(6, kind_code k, 0)]
  | _ => []
  end.

Definition eerr_code (e : eerr) : N :=
  match e with
  | EUnexpectedData => 10 | EIORead k => 20 + kind_code k | EIOWrite k => 30 + kind_code k | EOther => 40
  end.
Definition derr_code (e : derr) : N :=
  match e with
  | DChunkLen => 50 | DChaPolyDecrypt => 51 | DUnexpectedData => 52
  | DIORead k => 60 + kind_code k | DIOWrite k => 70 + kind_code k
  | DOtherFormat => 80 | DOtherWrongMode => 81
  | DOtherNoise NDecrypt => 82 | DOtherNoise NDh => 83 | DOtherNoise NOther => 84
  end.
Definition out_code {E A} (f : E -> N) (o : outcome E A) : N :=
  match o with Ok _ => 0 | Panic _ => 1 | OutOfFuel => 2 | Err e => f e end.

Definition mk_obs {E A} (f : E -> N) (extra : A -> bytes) (datalen : nat) (r : outcome E A * io) : obs :=
  let '(o, s) := r in
  {| ob_code := out_code f o; ob_out := w_out (wtr s);
     ob_consumed := N.of_nat (datalen - List.length (r_data (rdr s)));
     ob_trace := flat_map ev_code (trace s);
     ob_extra := match o with Ok a => extra a | _ => [] end |}.

Definition triple_eqb (a b : N * N * N) : bool :=
  let '(a1, a2, a3) := a in let '(b1, b2, b3) := b in (a1 =? b1) && (a2 =? b2) && (a3 =? b3).
Fixpoint list_eqb {A} (eq : A -> A -> bool) (a b : list A) : bool :=
  match a, b with
  | [], [] => true
  | x :: a', y :: b' => eq x y && list_eqb eq a' b'
  | _, _ => false
  end.
Definition obs_eqb (a b : obs) : bool :=
  (ob_code a =? ob_code b) && list_eqb N.eqb (ob_out a) (ob_out b) && (ob_consumed a =? ob_consumed b)
  && list_eqb triple_eqb (ob_trace a) (ob_trace b) && list_eqb N.eqb (ob_extra a) (ob_extra b).

(* printable form of the model's own observation, for disagreement reports *)
Definition show (o : obs) : N * string * N * list (N * N * N) * string :=
  (ob_code o, to_hex (ob_out o), ob_consumed o, ob_trace o, to_hex (ob_extra o)).

(* ---------- script syntax shared with the driver ---------- *)
Definition rcap (k : N) : rd_act := RCap (N.to_nat k).
Definition wcap (k : N) : wr_act := WCap (N.to_nat k).

(* ---------- entry points ---------- *)
Definition run_enc_chunks (t : kdf_table) (key aad : bytes) (cs : N) (data : bytes)
  (rs : list rd_act) (ws : list wr_act) (fs : list fl_act) : obs :=
  mk_obs eerr_code (fun _ : unit => []) (List.length data) (encrypt_chunks (PR t) key aad cs (mk_io data rs ws fs)).

Definition run_dec_chunks (t : kdf_table) (key aad : bytes) (cs : N) (data : bytes)
  (rs : list rd_act) (ws : list wr_act) (fs : list fl_act) : obs :=
  mk_obs derr_code (fun _ : unit => []) (List.length data) (decrypt_chunks (PR t) key aad cs (mk_io data rs ws fs)).

Definition run_key_enc (t : kdf_table) (s spk r : bytes) (e epk pk : option bytes) (data : bytes)
  (rs : list rd_act) (ws : list wr_act) (fs : list fl_act) : obs :=
  mk_obs eerr_code (fun _ : unit => []) (List.length data)
    (key_encrypt (PR t) [] [] s spk r e epk pk (mk_io data rs ws fs)).

Definition run_key_dec (t : kdf_table) (r rpk : bytes) (data : bytes)
  (rs : list rd_act) (ws : list wr_act) (fs : list fl_act) : obs :=
  mk_obs derr_code (fun spk : bytes => spk) (List.length data) (key_decrypt (PR t) r rpk (mk_io data rs ws fs)).

Definition run_pass_enc (t : kdf_table) (pw salt : bytes) (data : bytes)
  (rs : list rd_act) (ws : list wr_act) (fs : list fl_act) : obs :=
  mk_obs eerr_code (fun _ : unit => []) (List.length data) (pass_encrypt (PR t) pw salt (mk_io data rs ws fs)).

Definition run_pass_dec (t : kdf_table) (pw : bytes) (data : bytes)
  (rs : list rd_act) (ws : list wr_act) (fs : list fl_act) : obs :=
  mk_obs derr_code (fun _ : unit => []) (List.length data) (pass_decrypt (PR t) pw (mk_io data rs ws fs)).

(* pure functions: observation = code + output bytes *)
Definition pure_obs (code : N) (out : bytes) : obs :=
  {| ob_code := code; ob_out := out; ob_consumed := 0; ob_trace := []; ob_extra := [] |}.
Definition aead_obs (o : outcome chapoly_err bytes) : obs :=
  match o with Ok b => pure_obs 0 b | Err _ => pure_obs 51 [] | Panic _ => pure_obs 1 [] | OutOfFuel => pure_obs 2 [] end.
Definition dh_obs (o : outcome dh_err bytes) : obs :=
  match o with Ok b => pure_obs 0 b | Err _ => pure_obs 83 [] | Panic _ => pure_obs 1 [] | OutOfFuel => pure_obs 2 [] end.

Definition P0 : prims := PR [].
Definition run_seal (key nonce ad pt : bytes) := aead_obs (chapoly_encrypt_ietf P0 key nonce pt ad).
Definition run_open (key nonce ad ct : bytes) := aead_obs (chapoly_decrypt_ietf P0 key nonce ct ad).
Definition run_nseal (key : bytes) (n : N) (ad pt : bytes) := aead_obs (chapoly_encrypt_noise P0 key n ad pt).
Definition run_nopen (key : bytes) (n : N) (ad ct : bytes) := aead_obs (chapoly_decrypt_noise P0 key n ad ct).
Definition run_sha256 (m : bytes) := pure_obs 0 (p_hash P0 m).
Definition run_hmac (k m : bytes) := pure_obs 0 (p_hmac P0 k m).
Definition run_hkdf (s i info : bytes) (n : N) :=
  match hkdf_sha256 P0 s i info (N.to_nat n) with
  | Ok b => pure_obs 0 b | Err _ => pure_obs 999 [] | Panic _ => pure_obs 1 [] | OutOfFuel => pure_obs 2 []
  end.
Definition run_hkdfn (ck ikm : bytes) := let '(a, b) := hkdf_noise P0 ck ikm in pure_obs 0 (a ++ b).
Definition run_x25519 (k u : bytes) := dh_obs (x25519 P0 k u).
Definition run_xpub (k : bytes) := dh_obs (x25519_derive_public P0 k).

Definition noise_code (e : noise_err) : N := match e with NDecrypt => 82 | NDh => 83 | NOther => 84 end.
Definition run_noise_enc (s spk r : bytes) (e epk : option bytes) (prologue payload : bytes) : obs :=
  match noise_encrypt P0 [] s spk r e epk prologue payload with
  | Ok (msg, hh) => {| ob_code := 0; ob_out := msg; ob_consumed := 0; ob_trace := []; ob_extra := hh |}
  | Err e => pure_obs (noise_code e) []
  | Panic _ => pure_obs 1 [] | OutOfFuel => pure_obs 2 []
  end.
Definition run_noise_dec (r rpk prologue msg : bytes) : obs :=
  match noise_decrypt P0 r rpk prologue msg with
  | Ok (payload, spk, hh) => {| ob_code := 0; ob_out := payload; ob_consumed := 0; ob_trace := []; ob_extra := hh ++ spk |}
  | Err e => pure_obs (noise_code e) []
  | Panic _ => pure_obs 1 [] | OutOfFuel => pure_obs 2 []
  end.

(* a case = (id, does the model's observation equal the implementation's?) *)
Definition chk (id : N) (model impl : obs) : N * bool := (id, obs_eqb model impl).
Definition O_ (code : N) (out : bytes) (consumed : N) (tr : list (N * N * N)) (extra : bytes) : obs :=
  {| ob_code := code; ob_out := out; ob_consumed := consumed; ob_trace := tr; ob_extra := extra |}.
